"""Per-property configuration of ./check: Lean modules holding the obligations,
harness runs (oracles on the real code + traces for the model driver)."""

Q = "quick"
T = "thorough"

PROPS = {
    "C16": dict(
        lean=["TxVerif.Props.C16", "TxVerif.Tie.Layout"],
        runs=[
            dict(cmd="codec-meta", n={Q: 96, T: 1500}, driver="pure", workers=1),
            dict(cmd="corrupt", n={Q: 48, T: 1500}),
        ],
        hypotheses=["SingleByteChange (damage confined to one byte) for the unconditional detection theorem",
                    "multi-byte damage: covered under the hypothesis that Validate rejects the damaged bytes (exists_valid_garbage shows the unconditional claim is false for any 32-bit checksum)"],
        partial=["rejection of arbitrary multi-byte garbage is not provable (32-bit checksum); checked on the implementation for random damage only"],
        assumptions=["a header slot is read as 84 bytes at offset 0 and at the page size (vfs ReadAt)",
                     "image-level reopen runs on the simulated disk, at points where the last I/O was a completed commit"],
        rule="codec-meta: random headers incl. txid wrap-around, all 672 single-bit flips and 83 prefix tears of every 16th header, random damage; corrupt: random committed histories, header pages damaged in the final image and reopened; distinct = images opened",
    ),
}
