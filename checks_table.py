"""Per-property configuration of ./check: Lean modules holding the obligations,
harness runs (oracles on the real code + traces for the model driver)."""

Q = "quick"
T = "thorough"

PROPS = {
    "C16": dict(
        lean=["TxVerif.Props.C16", "TxVerif.Tie.Layout"],
        runs=[
            dict(cmd="codec-meta", n={Q: 96, T: 1500}, driver="pure", workers=1),
            dict(cmd="corrupt", n={Q: 48, T: 1500}),
        ],
        hypotheses=["SingleByteChange (damage confined to one byte) for the unconditional detection theorem",
                    "multi-byte damage: covered under the hypothesis that Validate rejects the damaged bytes (exists_valid_garbage shows the unconditional claim is false for any 32-bit checksum)"],
        partial=["rejection of arbitrary multi-byte garbage is not provable (32-bit checksum); checked on the implementation for random damage only"],
        assumptions=["a header slot is read as 84 bytes at offset 0 and at the page size (vfs ReadAt)",
                     "image-level reopen runs on the simulated disk, at points where the last I/O was a completed commit"],
        rule="codec-meta: random headers incl. txid wrap-around, all 672 single-bit flips and 83 prefix tears of every 16th header, random damage; corrupt: random committed histories, header pages damaged in the final image and reopened; distinct = images opened",
    ),
    "C09": dict(
        lean=["TxVerif.Props.C09", "TxVerif.Tie.Skeleton"],
        runs=[
            dict(cmd="lockobj", n={Q: 300, T: 5000}, driver="lock", workers=1),
            dict(cmd="sched", n={Q: 320, T: 8000}, timeout={Q: 600, T: 3000}),
            dict(cmd="resize", n={Q: 96, T: 2000}, props=["C09"]),
        ],
        hypotheses=["WellNested: a goroutine does not call Commit/Close-file while it holds an open read transaction itself (documented self-deadlock)"],
        partial=["data-race freedom and scheduler fairness are properties of the Go runtime and not expressible in the model; the thorough tier runs the schedules under the race detector as validation only",
                 "'returns promptly' is modelled as 'is enabled'; wall-clock bounds are checked with watchdogs on the implementation only"],
        assumptions=["steps between two lock operations are atomic with respect to other goroutines (Go memory model, sync.Mutex/Cond as specified)",
                     "File.Close is not raced with a Begin that has not returned yet (out of contract: Close zeroes the File)"],
        rule="lockobj: random sequences of the 8 primitive operations on the real lock object incl. operations observed to block; sched: random controlled schedules of 1-2 writers, 0-6 readers and an optional closer on a real File; distinct = schedules with more than 10 steps",
    ),
    "C18": dict(
        lean=["TxVerif.Props.C18", "TxVerif.Tie.Skeleton"],
        runs=[dict(cmd="pathlock", n={Q: 60, T: 1000}, driver="path", workers=4)],
        partial=["the OS's flock semantics (exclusive per path, released by Unlock) are assumed; injected I/O failures during initialisation cannot be produced on real files, failing initialisation is produced with damaged headers"],
        assumptions=["flock on <path>.lock is exclusive per path and released by Unlock",
                     "runs on real files in a scratch directory under the system temp dir, removed afterwards"],
        rule="sequences of open / open with invalid options / open of a file with both headers damaged / open with max-size update / waiting open / close on one real path; distinct = sequences",
    ),
}
