"""Per-property configuration of ./check: Lean modules holding the obligations,
harness runs (oracles on the real code + traces for the model driver)."""

Q = "quick"
T = "thorough"

PROPS = {
    "C16": dict(
        lean=["TxVerif.Props.C16", "TxVerif.Tie.Layout"],
        runs=[
            dict(cmd="codec-meta", n={Q: 96, T: 1500}, driver="pure", workers=1),
            dict(cmd="corrupt", n={Q: 48, T: 1500}),
        ],
        hypotheses=["SingleByteChange (damage confined to one byte) for the unconditional detection theorem",
                    "multi-byte damage: covered under the hypothesis that Validate rejects the damaged bytes (exists_valid_garbage shows the unconditional claim is false for any 32-bit checksum)"],
        partial=["rejection of arbitrary multi-byte garbage is not provable (32-bit checksum); checked on the implementation for random damage only"],
        assumptions=["a header slot is read as 84 bytes at offset 0 and at the page size (vfs ReadAt)",
                     "image-level reopen runs on the simulated disk, at points where the last I/O was a completed commit"],
        rule="codec-meta: random headers incl. txid wrap-around, all 672 single-bit flips and 83 prefix tears of every 16th header, random damage; corrupt: random committed histories, header pages damaged in the final image and reopened; distinct = images opened",
    ),
    "C09": dict(
        lean=["TxVerif.Props.C09", "TxVerif.Tie.Skeleton"],
        runs=[
            dict(cmd="lockobj", n={Q: 300, T: 5000}, driver="lock", workers=1),
            dict(cmd="sched", n={Q: 320, T: 8000}, timeout={Q: 600, T: 3000}),
            dict(cmd="resize", n={Q: 96, T: 2000}, props=["C09"]),
        ],
        hypotheses=["WellNested: a goroutine does not call Commit/Close-file while it holds an open read transaction itself (documented self-deadlock)"],
        partial=["data-race freedom and scheduler fairness are properties of the Go runtime and not expressible in the model; the thorough tier runs the schedules under the race detector as validation only",
                 "'returns promptly' is modelled as 'is enabled'; wall-clock bounds are checked with watchdogs on the implementation only"],
        assumptions=["steps between two lock operations are atomic with respect to other goroutines (Go memory model, sync.Mutex/Cond as specified)",
                     "File.Close is not raced with a Begin that has not returned yet (out of contract: Close zeroes the File)"],
        rule="lockobj: random sequences of the 8 primitive operations on the real lock object incl. operations observed to block; sched: random controlled schedules of 1-2 writers, 0-6 readers and an optional closer on a real File; distinct = schedules with more than 10 steps",
    ),
    "C18": dict(
        lean=["TxVerif.Props.C18", "TxVerif.Tie.Skeleton"],
        runs=[dict(cmd="pathlock", n={Q: 60, T: 1000}, driver="path", workers=4)],
        partial=["the OS's flock semantics (exclusive per path, released by Unlock) are assumed; injected I/O failures during initialisation cannot be produced on real files, failing initialisation is produced with damaged headers"],
        assumptions=["flock on <path>.lock is exclusive per path and released by Unlock",
                     "runs on real files in a scratch directory under the system temp dir, removed afterwards"],
        rule="sequences of open / open with invalid options / open of a file with both headers damaged / open with max-size update / waiting open / close on one real path; distinct = sequences",
    ),
    "C01": dict(
        lean=["TxVerif.Props.C01", "TxVerif.Tie.Order", "TxVerif.Tie.Layout"],
        runs=[dict(cmd="crash", n={Q: 96, T: 1600}, driver="crash", timeout={Q: 900, T: 3400})],
        hypotheses=["the trace follows the commit discipline Cfg.step (checked on every operation log of the implementation by the driver)",
                    "TornHeaderDetected: a header write cut at some byte leaves a slot that fails Validate (C16: guaranteed for damage confined to one byte; for longer cuts up to a 2^-32 checksum collision)"],
        partial=["the theorem is about the vfs-level trace; that the real Open reads only the pages in the recorded reach set of the selected header is validated by the crash-image enumeration on the implementation",
                 "real disks below the vfs interface (sector atomicity, fsync semantics) are assumptions"],
        assumptions=["page writes are atomic with respect to crashes, un-synced operations may be lost in any subset, a completed sync makes all earlier operations durable",
                     "SyncNone is excluded"],
        rule="random histories (alloc/overwrite/free/flush/checkpoint/rollback/commit/reopen, bounded and unbounded files, WAL limits 1..1000, meta area 0..16); at every I/O boundary all subsets of the pending operations (up to 7/10 pending, sampled above) and header tears; distinct = distinct crash images reopened",
    ),
    "C02": dict(
        lean=["TxVerif.Props.C02", "TxVerif.Tie.Order", "TxVerif.Tie.Skeleton"],
        runs=[
            dict(cmd="sched", n={Q: 320, T: 8000}, props=["C02", "C09"], timeout={Q: 600, T: 3000}),
            dict(cmd="lockobj", n={Q: 200, T: 3000}, driver="lock", workers=1),
            dict(cmd="crash", n={Q: 32, T: 400}, driver="crash", props=["C02"]),
        ],
        hypotheses=["the writer never writes into a page the committed version depends on (the write discipline of the isolation model; checked by the crash acceptor on real operation logs)"],
        partial=["atomicity of the code between two lock operations (Go memory model) is assumed; the thorough tier runs the schedules under the race detector as validation",
                 "the mmap view is modelled as the current file content (MAP_SHARED)"],
        assumptions=["readers and the writer run under the controlled scheduler at the trace points of the verif hooks"],
        rule="controlled schedules of 1-2 writers (writes, Flush, CheckpointWAL, frees, rollback, commit blocked by readers) and 0-6 readers that verify their whole snapshot at begin, at every scheduling point and before close",
    ),
    "C03": dict(
        lean=["TxVerif.Props.C03", "TxVerif.Tie.Order"],
        runs=[
            dict(cmd="engine", n={Q: 400, T: 12000}, driver="engine"),
            dict(cmd="space", n={Q: 64, T: 1500}, driver="engine", props=["C03"]),
        ],
        partial=["the sequential refinement over all histories (engine_refines_store) is not yet a theorem: it is established per run by the engine correspondence (Lean engine model = implementation on every result, every id, every content read and every allocator snapshot) plus the map-based specification in the harness",
                 "writer timing: writer_order is proved for every batching; real batch boundaries are not controlled"],
        assumptions=["callers do not re-use a byte slice passed to a full-page SetBytes; pages allocated but never written have no defined content"],
        rule="random programs (full/partial SetBytes, Load+MarkDirty, Flush, manual and automatic checkpoints, re-use of freed pages, rollbacks) with read-back in the transaction, after each transaction and after reopen; distinct = programs hitting >= 3 coverage markers",
    ),
    "C05": dict(
        lean=["TxVerif.Props.C05Layout"],
        runs=[
            dict(cmd="pq", n={Q: 240, T: 6000}, props=["C05"]),
            dict(cmd="pqlayout", n={Q: 300, T: 6000}, driver="pure", workers=1),
        ],
        hypotheses=["event sizes >= 1 for the id bookkeeping theorem (layout_roundtrip_ids); the framing theorems hold for all sizes"],
        partial=["buffer_refines_layout (the pages the writer persists after any sequence of Write chunks / Next / Flush are `layout` of the finished events) is validated by correspondence (pqlayout: real writer with random chunking and flushes in the middle of events vs the model's layout) and not yet a theorem"],
        assumptions=["queue on the simulated disk; the consumer only ACKs events it has consumed"],
        rule="pq: random producer/consumer programs (boundary event sizes, chunked writes, flushes mid-event, partial reads, skips, ACKs, reopen, full files); pqlayout: on-disk page chain of the real writer vs model layout",
    ),
    "C10": dict(
        lean=["TxVerif.Props.C10"],
        runs=[
            dict(cmd="codec-lists", n={Q: 900, T: 20000}, driver="pure", workers=1),
            dict(cmd="engine", n={Q: 240, T: 8000}, driver="engine", props=["C10"], args=[]),
            dict(cmd="resize", n={Q: 64, T: 1500}, driver="engine", props=["C10"]),
        ],
        hypotheses=["region ids < 2^55, counts in [1, 2^32), WAL ids < 2^56, page ids < 2^64, page size <= 2^32, at least one page pre-allocated when the lists are non-empty"],
        partial=["reopen_observational (an instance that was reopened behaves like one that was not) is checked per run: after every reopen the implementation's allocator snapshot equals the model, which does not reopen",
                 "the number of pages predicted for the free list can under-estimate for adversarial fragmentation (pure-function witness, see DESIGN.md); commits then fail with an error, no corruption"],
        assumptions=[],
        rule="codec-lists: region/WAL/free-list codecs on boundary values and random lists; engine/resize: histories with reopen points (fragmented free lists, regions >= 255 pages via large AllocN, mappings over several pages)",
    ),
}
