#!/bin/sh
# MANIFEST.setup_cmd: build the framework from files on disk only (offline).
set -e
cd "$(dirname "$0")"
export GOFLAGS=-mod=mod GOPROXY=off GOSUMDB=off GOTOOLCHAIN=local
mkdir -p harness/bin evidence replays work
cp /repo/go.sum harness/go.sum
(cd harness && go build -tags verif -o bin/vh ./cmd/vh && go build -o bin/extract ./cmd/extract)
harness/bin/extract -repo /repo -out lean/TxVerif/Gen/Facts.lean
(cd lean && lake build TxVerif driver)
echo "setup ok"
