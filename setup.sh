#!/bin/sh
exit 0
