import TxVerif.Model.Bytes
import TxVerif.Model.Fnv
import TxVerif.Model.Meta
