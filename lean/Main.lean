/-
  Line-protocol driver: runs the executable model on the inputs the Go harness
  produced from the real implementation and reports every disagreement.
  Input lines:  `<fn> <args…> => <result of the implementation>`
-/
import TxVerif.Model.Hex
import TxVerif.Model.Meta
import TxVerif.Model.EngineDriver
import TxVerif.Model.Lock
import TxVerif.Props.C18
import TxVerif.Model.CodecDriver
import TxVerif.Model.Crash
import TxVerif.Model.CrashFail
import TxVerif.Model.CrashFailOpt
import TxVerif.Model.PQDriver
import TxVerif.Model.PQCounters
import TxVerif.Model.PQQueueDriver
import TxVerif.Model.PQQueueConcDriver
open TxVerif

def choiceStr : Choice → String
  | .slot0 => "0" | .slot1 => "1" | .invalid => "invalid" | .sameTxid => "invalid"

/-- evaluate one pure-function request; `none` = malformed request -/
def evalPure (cmd : String) (args : List String) : Option String :=
  match cmd, args with
  | "fnv", [h] => (parseHex h).map fun b => toString (fnv1a b).toNat
  | "validate", [h] => (parseHex h).map fun b => toString (hdrValid b)
  | "choose", [h0, h1] => do
      let b0 ← parseHex h0; let b1 ← parseHex h1
      pure (choiceStr (chooseMeta b0 b1))
  | "metaenc", fs => do
      let ns ← fs.mapM String.toNat?
      match ns with
      | [pageSize, maxSize, flags, root, txid, freelist, wal, dataEnd, metaEnd, metaTotal] =>
        pure (toHex (Meta.finalize { magic := metaMagic, version := metaVersion, pageSize, maxSize, flags, root, txid,
                                     freelist, wal, dataEnd, metaEnd, metaTotal, checksum := 0 }).encode)
      | _ => none
  | _, _ => none

structure St where
  line : Nat := 0
  checked : Nat := 0
  mismatches : Nat := 0
  bad : Nat := 0

partial def loop (h : IO.FS.Stream) (st : St) : IO St := do
  let line ← h.getLine
  if line.isEmpty then return st
  let l := line.trimAscii.toString
  let st := { st with line := st.line + 1 }
  if l.isEmpty || l.startsWith "#" then loop h st else
  match l.splitOn " => " with
  | [lhs, expected] =>
    match lhs.splitOn " " with
    | cmd :: args =>
      match (evalPure cmd args <|> evalCodec cmd args <|> evalPQ cmd args) with
      | some r =>
        if r == expected then loop h { st with checked := st.checked + 1 }
        else do
          IO.println s!"MISMATCH line={st.line} {lhs} impl={expected} model={r}"
          loop h { st with checked := st.checked + 1, mismatches := st.mismatches + 1 }
      | none => do
        IO.println s!"BADREQ line={st.line} {lhs}"
        loop h { st with bad := st.bad + 1 }
    | [] => loop h st
  | _ => do
    IO.println s!"BADLINE line={st.line}"
    loop h { st with bad := st.bad + 1 }

def lockOpOf : String → Option LockOp
  | "sharedLock" => some .sharedLock | "sharedUnlock" => some .sharedUnlock
  | "reservedLock" => some .reservedLock | "reservedUnlock" => some .reservedUnlock
  | "pendingLock" => some .pendingLock | "pendingUnlock" => some .pendingUnlock
  | "exclusiveLock" => some .exclusiveLock | "exclusiveUnlock" => some .exclusiveUnlock
  | _ => none

def lockStr (l : LockSt) : String := s!"{l.shared} {l.pending} {l.reserved}"

/-- lock mode: replay primitive lock operations on the model of lock.go -/
partial def lockLoop (h : IO.FS.Stream) (l : LockSt) (line checked mism : Nat) : IO (Nat × Nat) := do
  let ln ← h.getLine
  if ln.isEmpty then return (checked, mism)
  let t := ln.trimAscii.toString
  if t == "new" then lockLoop h {} (line + 1) checked mism else
  match t.splitOn " => " with
  | [lhs, res] =>
    match lhs.splitOn " " with
    | ["op", name] =>
      match lockOpOf name with
      | some op =>
        if !op.enabled l then do
          IO.println s!"MISMATCH line={line + 1} {t}: the model says the operation blocks in state {lockStr l}"
          lockLoop h (op.apply l) (line + 1) (checked + 1) (mism + 1)
        else
          let l' := op.apply l
          if res == "-" || res == lockStr l' then lockLoop h l' (line + 1) (checked + 1) mism
          else do
            IO.println s!"MISMATCH line={line + 1} {t}: model state {lockStr l'}"
            lockLoop h l' (line + 1) (checked + 1) (mism + 1)
      | none => lockLoop h l (line + 1) checked (mism + 1)
    | ["blocked", name] =>
      match lockOpOf name with
      | some op =>
        let b := !op.enabled l
        if toString b == res then lockLoop h l (line + 1) (checked + 1) mism
        else do
          IO.println s!"MISMATCH line={line + 1} {t}: model blocked={b} in state {lockStr l}"
          lockLoop h l (line + 1) (checked + 1) (mism + 1)
      | none => lockLoop h l (line + 1) checked (mism + 1)
    | _ => lockLoop h l (line + 1) checked mism
  | _ => lockLoop h l (line + 1) checked mism

/-- path mode: replay open/close attempts on the path lock model (C18) -/
partial def pathLoop (h : IO.FS.Stream) (st : PathSt) (line checked mism : Nat) : IO (Nat × Nat) := do
  let ln ← h.getLine
  if ln.isEmpty then return (checked, mism)
  let t := ln.trimAscii.toString
  if t == "new" then pathLoop h {} (line + 1) checked mism else
  match t.splitOn " => " with
  | [lhs, res] =>
    let op : Option PathOp := match lhs.splitOn " " with
      | ["pathop", "openOk"] => some .openOk | ["pathop", "openFail"] => some .openFail
      | ["pathop", "openInvalid"] => some .openInvalid | ["pathop", "close"] => some .close | _ => none
    match op with
    | some op =>
      let (st', r) := st.step op
      let rs := match r with | .ok => "ok" | .lockErr => "lockErr" | .initErr => "initErr" | .invalid => "invalid" | .noFile => "noFile"
      if rs == res then pathLoop h st' (line + 1) (checked + 1) mism
      else do
        IO.println s!"MISMATCH line={line + 1} {t}: model {rs}"
        pathLoop h st' (line + 1) (checked + 1) (mism + 1)
    | none => pathLoop h st (line + 1) checked (mism + 1)
  | _ => pathLoop h st (line + 1) checked mism

def parseReach (s : String) : List (Nat × Nat) :=
  if s == "-" then [] else
  (s.splitOn ",").filterMap fun part =>
    match part.splitOn ":" with
    | [a, b] => match a.toNat?, b.toNat? with | some x, some y => some (x, y) | _, _ => none
    | _ => none

/-- check one program of the crash protocol: the operation log of the implementation must be
    accepted by the commit discipline `Cfg.step` (Model/Crash.lean) -/
def crashProgram (lines : List String) : Nat × Option String :=
  let states : List (Nat × List (Nat × Nat)) := lines.filterMap fun l =>
    match l.splitOn " " with
    | ["state", n, r] => n.toNat?.map fun n => (n, parseReach r)
    | _ => none
  let reachOf : Nat → List (Nat × Nat) := fun st => ((states.find? (·.1 == st)).map (·.2)).getD []
  let initPages : List (Nat × Nat) := (lines.filterMap fun l =>
    match l.splitOn " " with | ["init", r] => some (parseReach r) | _ => none).flatten
  -- `start <slot> <txid>`: the header that is committed when the trace starts (its state id is its txid);
  -- without such a line: a freshly created file (slot 0, txid 1, state 0)
  let start : Option (Nat × Nat) := (lines.filterMap fun l =>
    match l.splitOn " " with
    | ["start", s, t] => match s.toNat?, t.toNat? with | some s, some t => some (s, t) | _, _ => none
    | _ => none).head?
  let (s0, t0, st0) := match start with | some (s, t) => (s, t, t) | none => (0, 1, 0)
  let c0 : Cfg := {
    durable := { pages := fun p => (initPages.find? (·.1 == p)).map (·.2),
                 slots := fun k => if k = s0 then some (t0, st0) else if k = 1 - s0 then some (t0 - 1, st0) else none },
    pending := [], aSlot := s0, aTx := t0, aSt := st0, inflight := none }
  let ops : List (String × TOp) := lines.filterMap fun l =>
    match l.splitOn " " with
    | ["w", p, h] => match p.toNat?, h.toNat? with | some p, some h => some (l, TOp.write p h) | _, _ => none
    | ["h", s, t, st] => match s.toNat?, t.toNat?, st.toNat? with | some s, some t, some st => some (l, TOp.hdr s t st) | _, _, _ => none
    | ["s"] => some (l, TOp.sync)
    | ["t", n] => n.toNat?.map fun n => (l, TOp.trunc n)
    | _ => none
  let rec go (c : Cfg) (n : Nat) : List (String × TOp) → Nat × Option String
    | [] => (n, none)
    | (l, op) :: rest =>
      match c.step reachOf op with
      | some c' => go c' (n + 1) rest
      | none => (n, some s!"operation #{n} `{l}` violates the commit discipline (committed state {c.aSt}, txid {c.aTx}, slot {c.aSlot}, in flight {c.inflight}, {c.pending.length} pending)")
  go c0 0 ops

def TxVerif.OPhase.show : OPhase → String
  | .normal => "normal" | .failed st _ => s!"final sync of state {st} failed" | .restoring st _ => s!"restoring after failed commit of state {st}"

/-- the same for operation logs that contain failing syncs (`sf`): the extended discipline
    `OCfg.step` (Model/CrashFailOpt.lean: failed data sync, failed final sync, restoreMeta; a failing
    sync makes an unknown subset of the pending operations durable and leaves them pending) -/
def crashFailProgram (lines : List String) : Nat × Option String :=
  let states : List (Nat × List (Nat × Nat)) := lines.filterMap fun l =>
    match l.splitOn " " with
    | ["state", n, r] => n.toNat?.map fun n => (n, parseReach r)
    | _ => none
  let reachOf : Nat → List (Nat × Nat) := fun st => ((states.find? (·.1 == st)).map (·.2)).getD []
  let initPages : List (Nat × Nat) := (lines.filterMap fun l =>
    match l.splitOn " " with | ["init", r] => some (parseReach r) | _ => none).flatten
  let c0 : Cfg := {
    durable := { pages := fun p => (initPages.find? (·.1 == p)).map (·.2),
                 slots := fun k => if k = 0 then some (1, 0) else if k = 1 then some (0, 0) else none },
    pending := [], aSlot := 0, aTx := 1, aSt := 0, inflight := none }
  let ops : List (String × FOp) := lines.filterMap fun l =>
    match l.splitOn " " with
    | ["w", p, h] => match p.toNat?, h.toNat? with | some p, some h => some (l, FOp.op (TOp.write p h)) | _, _ => none
    | ["h", s, t, st] => match s.toNat?, t.toNat?, st.toNat? with | some s, some t, some st => some (l, FOp.op (TOp.hdr s t st)) | _, _, _ => none
    | ["s"] => some (l, FOp.op TOp.sync)
    | ["sf"] => some (l, FOp.syncFail)
    | ["t", n] => n.toNat?.map fun n => (l, FOp.op (TOp.trunc n))
    | _ => none
  let rec go (c : OCfg) (n : Nat) : List (String × FOp) → Nat × Option String
    | [] => (n, none)
    | (l, op) :: rest =>
      match c.step reachOf op with
      | some c' => go c' (n + 1) rest
      | none =>
        -- documented deviation (DESIGN.md 14.5): after the final sync, the sync of the restore AND the
        -- sync of the rollback all failed, the engine goes on writing. Not crash safe
        -- (`lax_opt_not_crash_safe`), outside C08 (clean reopen) and C01 (no I/O errors): reported as a
        -- NOTE, the walk continues with the lax step.
        match (match c.phase with | .restoring _ _ => c.stepLax reachOf op | _ => none) with
        | some c' =>
          match go c' (n + 1) rest with
          | (m, none) => (m, some s!"NOTE operation #{n} `{l}` continues after a failed commit whose restore is not durable yet (three consecutive failing syncs)")
          | r => r
        | none =>
          (n, some s!"operation #{n} `{l}` violates the commit discipline with failing syncs (committed state {c.base.aSt}, txid {c.base.aTx}, slot {c.base.aSlot}, in flight {c.base.inflight}, {c.base.pending.length} pending, phase: {c.phase.show})")
  go (OCfg.ofCfg c0) 0 ops

partial def crashLoop (h : IO.FS.Stream) (acc : List String) (prog : String) (checked mism progs : Nat) (withFail : Bool := false) : IO (Nat × Nat × Nat) := do
  let line ← h.getLine
  if line.isEmpty then return (checked, mism, progs)
  let l := line.trimAscii.toString
  if l.startsWith "program " then crashLoop h [] l checked mism progs withFail
  else if l == "end" then
    let (n, err) := if withFail then crashFailProgram acc.reverse else crashProgram acc.reverse
    match err with
    | none => crashLoop h [] "" (checked + n) mism (progs + 1) withFail
    | some e => do
      if e.startsWith "NOTE " then
        IO.println s!"{e} [{prog}]"
        crashLoop h [] "" (checked + n) mism (progs + 1) withFail
      else
        IO.println s!"MISMATCH {prog}: {e}"
        crashLoop h [] "" (checked + n) (mism + 1) (progs + 1) withFail
  else crashLoop h (l :: acc) prog checked mism progs withFail

/-- pqhdr mode: every queue header observed on the implementation must satisfy the header
    invariant for the specification counters, and Pending/Active must be what the model computes -/
partial def pqhdrLoop (h : IO.FS.Stream) (line checked mism : Nat) : IO (Nat × Nat) := do
  let ln ← h.getLine
  if ln.isEmpty then return (checked, mism)
  let t := ln.trimAscii.toString
  match t.splitOn " " with
  | "hdr" :: rest =>
    let pairOf (k : String) : Nat × Bool :=
      match ((rest.find? (·.startsWith (k ++ "="))).map (fun x => (x.drop (k.length + 1)).toString)).getD "0:0" |>.splitOn ":" with
      | [a, b] => (a.toNat?.getD 0, b == "1")
      | _ => (0, false)
    let natOf (k : String) : Nat :=
      (((rest.find? (·.startsWith (k ++ "="))).map (fun x => (x.drop (k.length + 1)).toString)).bind String.toNat?).getD 0
    let (hi, hs) := pairOf "h"
    let (ri, rs) := pairOf "r"
    let (ti, ts) := pairOf "t"
    let q : QHdr := { headId := hi, readId := ri, tailId := ti, headSet := hs, readSet := rs, tailSet := ts }
    let F := natOf "f"
    let A := natOf "a"
    let ok := decide (HdrInv q F A) && q.pending == natOf "p" && q.active == natOf "act"
    if ok then pqhdrLoop h (line + 1) (checked + 1) mism
    else do
      IO.println s!"MISMATCH line={line + 1} {t}: header invariant {decide (HdrInv q F A)}, model pending {q.pending} active {q.active}"
      pqhdrLoop h (line + 1) (checked + 1) (mism + 1)
  | _ => pqhdrLoop h (line + 1) checked mism

/-- pqmodel mode: replay the queue traces (one program = the lines between `program …` and `end`) on the
    queue model `QState` with the specification `ASpec` alongside (Model/PQQueueDriver.lean).
    `sim = none` before the first `open` of a program; `dead` = the rest of the program is not compared
    (skipped or diverged after a mismatch).  `strict` (`driver pqmodel strict`): calls with a failed
    transaction (`err:oom`, injected faults) end the replay of the program instead of being replayed with the
    failing-flush writer model. -/
partial def pqmodelLoop (h : IO.FS.Stream) (strict : Bool) (sim : Option PQSim) (dead : Bool) (prog : String)
    (line checked mism progs skipped : Nat) : IO (Nat × Nat × Nat × Nat) := do
  let ln ← h.getLine
  if ln.isEmpty then return (checked, mism, progs, skipped)
  let l := ln.trimAscii.toString
  let line := line + 1
  if l.startsWith "program " then pqmodelLoop h strict none false l line checked mism progs skipped
  else if l == "end" then pqmodelLoop h strict none false "" line checked mism (progs + 1) skipped
  else if l.isEmpty || l.startsWith "#" || dead then pqmodelLoop h strict sim dead prog line checked mism progs skipped
  else
    match pqSimLine strict sim l with
    | .ok s => pqmodelLoop h strict (some s) false prog line (checked + 1) mism progs skipped
    | .skip why => do
      IO.println s!"SKIP {prog} line={line}: {why}"
      pqmodelLoop h strict sim true prog line checked mism progs (skipped + 1)
    | .mismatch msg => do
      IO.println s!"MISMATCH {prog} line={line} `{l}`: {msg}"
      pqmodelLoop h strict sim true prog line (checked + 1) (mism + 1) progs skipped

structure EngTotals where
  checked : Nat := 0
  mism : Nat := 0
  progs : Nat := 0
  rsz : Nat := 0        -- `resize-*` lines computed by the model
  relFailed : Nat := 0  -- of these: compared with the model's state for a failed release transaction
  adopted : Nat := 0    -- `resize-*` lines after which the snapshot was adopted (failed Open)
  diffPlain : Nat := 0  -- plain opens on a state where the first and the precise absorb rule differ
  diffResize : Nat := 0 -- the same for `resize-*` lines
  vfs : Nat := 0        -- `vfs` lines compared with the model's vfs trace (Model/EngineTrace.lean)

def EngTotals.add (t : EngTotals) (st : EngSt) (endOfProgram : Bool) : EngTotals :=
  { checked := t.checked + st.checked, mism := t.mism + st.mismatches.length,
    progs := t.progs + (if endOfProgram then 1 else 0), rsz := t.rsz + st.resizesReplayed,
    relFailed := t.relFailed + st.resizesRelFailed, adopted := t.adopted + st.resizesAdopted,
    diffPlain := t.diffPlain + st.absorbDiffPlain, diffResize := t.diffResize + st.absorbDiffResize,
    vfs := t.vfs + st.vfsChecked }

/-- pqconc mode: replay the controlled producer/consumer schedules of the real queue (`vh pqconc`) on the
    two-thread queue model (Model/PQQueueConc.lean, Model/PQQueueConcDriver.lean): every recorded step must be
    enabled in the model, every blocked thread disabled, every call must give the recorded result and the
    recorded lock state. -/
partial def pqconcLoop (h : IO.FS.Stream) (acc : List String) (prog : String) (checked mism progs skipped : Nat) :
    IO (Nat × Nat × Nat × Nat) := do
  let line ← h.getLine
  if line.isEmpty then return (checked, mism, progs, skipped)
  let l := line.trimAscii.toString
  if l.startsWith "program " then pqconcLoop h [] l checked mism progs skipped
  else if l == "end" then
    let seed : Nat := (((prog.splitOn "seed=").getD 1 "").toNat?).getD 0
    let (n, err, skip) := concProgram seed acc.reverse
    match err, skip with
    | some e, _ => do
      IO.println s!"MISMATCH {prog} {e}"
      pqconcLoop h [] "" (checked + n) (mism + 1) (progs + 1) skipped
    | none, some w => do
      IO.println s!"SKIP {prog} {w}"
      pqconcLoop h [] "" (checked + n) mism (progs + 1) (skipped + 1)
    | none, none => pqconcLoop h [] "" (checked + n) mism (progs + 1) skipped
  else pqconcLoop h (l :: acc) prog checked mism progs skipped

/-- engine mode: programs are delimited by `program …` / `end` lines -/
partial def engLoop (h : IO.FS.Stream) (st : EngSt) (prog : String) (t : EngTotals) : IO EngTotals := do
  let line ← h.getLine
  if line.isEmpty then return t.add st false
  let l := line.trimAscii.toString
  if l.startsWith "program " then engLoop h {} l t
  else if l == "end" then
    for m in st.mismatches.take 3 do
      IO.println s!"MISMATCH {prog}: {m}"
    engLoop h {} "" (t.add st true)
  else if l.isEmpty || l.startsWith "#" then engLoop h st prog t
  else
    -- after the first mismatch of a program the states have diverged: stop comparing it
    if st.mismatches.isEmpty then engLoop h (engStep st l) prog t
    else engLoop h st prog t

def main (args : List String) : IO UInt32 := do
  let mode := args.headD "pure"
  let stdin ← IO.getStdin
  match mode with
  | "pure" =>
    let st ← loop stdin {}
    IO.println s!"DONE checked={st.checked} mismatches={st.mismatches} bad={st.bad}"
    return (if st.mismatches == 0 && st.bad == 0 then 0 else 1)
  | "pqhdr" =>
    let (checked, mism) ← pqhdrLoop stdin 0 0 0
    IO.println s!"DONE checked={checked} mismatches={mism} bad=0"
    return (if mism == 0 then 0 else 1)
  | "pqmodel" =>
    let (checked, mism, progs, skipped) ← pqmodelLoop stdin (args.drop 1 == ["strict"]) none false "" 0 0 0 0 0
    IO.println s!"DONE checked={checked} mismatches={mism} bad=0 programs={progs} skipped={skipped}"
    return (if mism == 0 then 0 else 1)
  | "pqconc" =>
    let (checked, mism, progs, skipped) ← pqconcLoop stdin [] "" 0 0 0 0
    IO.println s!"DONE checked={checked} mismatches={mism} bad=0 programs={progs} skipped={skipped}"
    return (if mism == 0 then 0 else 1)
  | "crash" =>
    let (checked, mism, progs) ← crashLoop stdin [] "" 0 0 0
    IO.println s!"DONE checked={checked} mismatches={mism} bad=0 programs={progs}"
    return (if mism == 0 then 0 else 1)
  | "crashfail" =>
    let (checked, mism, progs) ← crashLoop stdin [] "" 0 0 0 true
    IO.println s!"DONE checked={checked} mismatches={mism} bad=0 programs={progs}"
    return (if mism == 0 then 0 else 1)
  | "path" =>
    let (checked, mism) ← pathLoop stdin {} 0 0 0
    IO.println s!"DONE checked={checked} mismatches={mism} bad=0"
    return (if mism == 0 then 0 else 1)
  | "lock" =>
    let (checked, mism) ← lockLoop stdin {} 0 0 0
    IO.println s!"DONE checked={checked} mismatches={mism} bad=0"
    return (if mism == 0 then 0 else 1)
  | "engine" =>
    let t ← engLoop stdin {} "" {}
    IO.println s!"DONE checked={t.checked} mismatches={t.mism} bad=0 programs={t.progs} resizes_replayed={t.rsz} resizes_release_failed={t.relFailed} resizes_adopted={t.adopted} absorb_rules_differ_open={t.diffPlain} absorb_rules_differ_resize={t.diffResize} vfs_traces_compared={t.vfs}"
    return (if t.mism == 0 then 0 else 1)
  | _ =>
    IO.eprintln s!"unknown mode {mode}"
    return 2
