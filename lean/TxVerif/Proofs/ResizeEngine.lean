/-
  Helper lemmas for C14 at engine level (Props/C14Engine.lean): the open-time maximum-size update
  `FileSt.resizeWith` (Model/Resize.lean) and the invariant of committed states.

  * `EngInvR`: `EngInv` without the three clauses that speak about the page limit and the relative
    position of the end markers (`wf.limit`, `noOv`, `ends`). These can not hold after a shrink that
    leaves pages in use beyond the new limit; everything that protects the data does.
  * grow / unbound / plain open keep `EngInv` itself.
  * the release transaction of a shrink (`initTxReleaseRegions`) runs with the data end marker at or
    beyond the new limit: the allocator behaves exactly as if the limit were the data end marker
    (`rz_*_subst`), which lets the frame lemmas of Proofs/Refine.lean be reused.
-/
import TxVerif.Model.Resize
import TxVerif.Proofs.RefineReopen
import TxVerif.Props.C14
import TxVerif.Props.C14Release
namespace TxVerif

/-! ### the relaxed invariant -/

/-- `WF` without the limit clause -/
structure WFR (a : Alloc) : Prop where
  ascData : Asc a.data.free
  ascMeta : Asc a.mta.free
  dataRange : ∀ x ∈ a.data.free, 2 ≤ x ∧ x < a.data.endMarker
  metaRange : ∀ x ∈ a.mta.free, 2 ≤ x ∧ x < a.mta.endMarker ∧
    (x < a.data.endMarker ∨ (0 < a.maxPages ∧ a.maxPages ≤ x))
  disj : ∀ x ∈ a.data.free, x ∉ a.mta.free
  dataEnd : 2 ≤ a.data.endMarker
  total : a.mta.free.length ≤ a.metaTotal

/-- the invariant of a committed state without the clauses about the page limit (`wf.limit`, `noOv`)
    and the order of the end markers (`ends`) -/
structure EngInvR (f : FileSt) (live : List Nat) : Prop where
  wfr : WFR f.alloc
  keys : AscKeys f.walMap
  liveOk : ∀ id ∈ live, 2 ≤ id ∧ id < f.alloc.data.endMarker ∧ InUse f.alloc id
  mapKey : ∀ k w, Assoc.get? f.walMap k = some w → k ∈ live
  mapInj : ∀ k1 k2 w, Assoc.get? f.walMap k1 = some w → Assoc.get? f.walMap k2 = some w → k1 = k2
  intOk : ∀ x ∈ f.internal, 2 ≤ x ∧ InUse f.alloc x ∧ x ∉ live
  intNodup : f.internal.Nodup
  total : f.alloc.mta.free.length + f.internal.length ≤ f.alloc.metaTotal

theorem WF.toWFR {a : Alloc} (h : WF a) : WFR a :=
  ⟨h.ascData, h.ascMeta, h.dataRange, h.metaRange, h.disj, h.dataEnd, h.total⟩

theorem EngInv.toR {f : FileSt} {live : List Nat} (h : EngInv f live) : EngInvR f live :=
  ⟨h.wf.toWFR, h.keys, h.liveOk, h.mapKey, h.mapInj, h.intOk, h.intNodup, h.total⟩

/-- with the three clauses about the limit the relaxed invariant is the invariant -/
theorem EngInvR.toEngInv {f : FileSt} {live : List Nat} (h : EngInvR f live)
    (hl : f.alloc.maxPages = 0 ∨ f.alloc.data.endMarker ≤ f.alloc.maxPages)
    (hn : f.alloc.maxPages = 0 ∨ f.alloc.mta.endMarker ≤ f.alloc.maxPages)
    (he : f.alloc.data.endMarker ≤ f.alloc.mta.endMarker ∨ f.alloc.data.endMarker ≤ 2) : EngInv f live :=
  ⟨⟨h.wfr.ascData, h.wfr.ascMeta, h.wfr.dataRange, h.wfr.metaRange, h.wfr.disj, h.wfr.dataEnd, hl, h.wfr.total⟩,
    he, h.keys, h.liveOk, h.mapKey, h.mapInj, h.intOk, h.intNodup, h.total, hn⟩

/-- the relaxed invariant does not mention the statistic, the txid, the disk or the root -/
theorem engInvR_congr {f f' : FileSt} {live : List Nat} (h : EngInvR f live)
    (ha : f'.alloc = f.alloc) (hm : f'.walMap = f.walMap) (hw : f'.walPages = f.walPages) : EngInvR f' live := by
  have hi : f'.internal = f.internal := by unfold FileSt.internal; rw [ha, hm, hw]
  exact ⟨ha ▸ h.wfr, hm ▸ h.keys, ha ▸ h.liveOk, hm ▸ h.mapKey, hm ▸ h.mapInj, by rw [hi, ha]; exact h.intOk,
    hi ▸ h.intNodup, by rw [hi, ha]; exact h.total⟩

/-- in-use is monotone in the allocator as long as the free lists do not grow, the meta end marker
    does not fall below the page and the last clause is kept -/
theorem inUse_of {a a' : Alloc} {x : Nat} (h : InUse a x) (hd : x ∈ a'.data.free → x ∈ a.data.free)
    (hm : x ∈ a'.mta.free → x ∈ a.mta.free) (he : x < a'.mta.endMarker)
    (h4 : x < a'.data.endMarker ∨ (0 < a'.maxPages ∧ a'.maxPages ≤ x)) : InUse a' x :=
  ⟨fun c => h.1 (hd c), fun c => h.2.1 (hm c), he, h4⟩

/-! ### the state `Open` reads: `FileSt.reopen` / `FileSt.openAt` -/

/-! ### the precise absorb rule (`FileSt.absorbP`, Model/AbsorbP.lean) -/

theorem needAbsorb_iff (f : FileSt) : f.needAbsorb = true ↔
    f.alloc.data.endMarker < f.alloc.mta.endMarker ∧
    ∃ p ∈ f.metaPages, f.alloc.data.endMarker ≤ p ∧ p < f.alloc.mta.endMarker ∧
      (f.alloc.maxPages = 0 ∨ p < f.alloc.maxPages) := by
  unfold FileSt.needAbsorb
  simp only [Bool.and_eq_true, decide_eq_true_eq, List.any_eq_true, Bool.or_eq_true, beq_iff_eq, and_assoc]

theorem mem_metaPages (f : FileSt) (p : Nat) : p ∈ f.metaPages ↔ p ∈ f.alloc.mta.free ∨ p ∈ f.internal := by
  unfold FileSt.metaPages FileSt.internal
  simp only [List.mem_append]
  constructor
  · rintro (((h | h) | h) | h)
    · exact Or.inl h
    · exact Or.inr (Or.inr h)
    · exact Or.inr (Or.inl (Or.inr h))
    · exact Or.inr (Or.inl (Or.inl h))
  · rintro (h | ((h | h) | h))
    · exact Or.inl (Or.inl (Or.inl h))
    · exact Or.inr h
    · exact Or.inl (Or.inr h)
    · exact Or.inl (Or.inl (Or.inr h))

/-- what `absorbP` leaves alone, and the two possible values of the data end marker -/
theorem absorbP_keeps (f : FileSt) :
    f.absorbP.alloc.data.free = f.alloc.data.free ∧ f.absorbP.alloc.mta = f.alloc.mta ∧
    f.absorbP.alloc.metaTotal = f.alloc.metaTotal ∧ f.absorbP.alloc.maxPages = f.alloc.maxPages ∧
    f.absorbP.alloc.freelistPages = f.alloc.freelistPages ∧ f.absorbP.alloc.pageSize = f.alloc.pageSize ∧
    f.absorbP.walMap = f.walMap ∧ f.absorbP.walPages = f.walPages ∧ f.absorbP.disk = f.disk ∧
    f.absorbP.root = f.root ∧ f.absorbP.txid = f.txid ∧ f.absorbP.statData = f.statData ∧
    ((f.needAbsorb = false ∧ f.absorbP = f) ∨
     (f.needAbsorb = true ∧ f.alloc.data.endMarker < f.alloc.mta.endMarker ∧
      f.absorbP.alloc.data.endMarker = f.alloc.mta.endMarker)) := by
  unfold FileSt.absorbP
  cases h : f.needAbsorb with
  | false => simp
  | true =>
    have := ((needAbsorb_iff f).mp h).1
    simp [this]

theorem absorbP_metaPages (f : FileSt) : f.absorbP.metaPages = f.metaPages := by
  obtain ⟨-, k2, -, -, k5, -, k7, k8, -⟩ := absorbP_keeps f
  unfold FileSt.metaPages
  rw [k2, k5, k7, k8]

/-- after `absorbP` nothing is left to absorb: no meta page lies at or behind the data end marker, below the
    meta end marker and in front of the limit -/
theorem absorbP_needAbsorb (f : FileSt) : f.absorbP.needAbsorb = false := by
  obtain ⟨-, k2, -, k4, -, -, -, -, -, -, -, -, hc⟩ := absorbP_keeps f
  rcases hc with ⟨h0, he⟩ | ⟨-, -, hde⟩
  · rw [he]; exact h0
  · cases h : f.absorbP.needAbsorb with
    | false => rfl
    | true =>
      have := ((needAbsorb_iff _).mp h).1
      rw [hde, k2] at this
      omega

theorem absorbP_idem (f : FileSt) : f.absorbP.absorbP = f.absorbP := by
  have h := absorbP_needAbsorb f
  show (if f.absorbP.needAbsorb then _ else f.absorbP) = f.absorbP
  rw [h]; rfl

/-- `absorbP` does not change the larger of the two end markers (the extent of the file) -/
theorem absorbP_max (f : FileSt) :
    max f.absorbP.alloc.data.endMarker f.absorbP.alloc.mta.endMarker = max f.alloc.data.endMarker f.alloc.mta.endMarker ∧
    f.alloc.data.endMarker ≤ f.absorbP.alloc.data.endMarker := by
  obtain ⟨-, k2, -, -, -, -, -, -, -, -, -, -, hc⟩ := absorbP_keeps f
  rw [k2]
  rcases hc with ⟨-, he⟩ | ⟨-, hlt, hde⟩
  · rw [he]; exact ⟨rfl, Nat.le_refl _⟩
  · rw [hde]; omega

theorem absorbP_openStat (f : FileSt) : f.absorbP.openStat = f.openStat := by
  obtain ⟨k1, -, k3, -⟩ := absorbP_keeps f
  unfold FileSt.openStat
  rw [(absorbP_max f).1, k1, k3]

theorem reopenP_eq (f : FileSt) : f.reopenP = f.absorbP.ws f.openStat := rfl

theorem rz_reopen_walMap (f : FileSt) : f.reopenP.walMap = f.walMap := (absorbP_keeps f).2.2.2.2.2.2.1
theorem rz_reopen_walPages (f : FileSt) : f.reopenP.walPages = f.walPages := (absorbP_keeps f).2.2.2.2.2.2.2.1
theorem rz_reopen_disk (f : FileSt) : f.reopenP.disk = f.disk := (absorbP_keeps f).2.2.2.2.2.2.2.2.1
theorem rz_reopen_root (f : FileSt) : f.reopenP.root = f.root := (absorbP_keeps f).2.2.2.2.2.2.2.2.2.1
theorem rz_reopen_txid (f : FileSt) : f.reopenP.txid = f.txid := (absorbP_keeps f).2.2.2.2.2.2.2.2.2.2.1
theorem rz_reopen_openStat (f : FileSt) : f.reopenP.openStat = f.openStat := absorbP_openStat f

/-- under the relaxed invariant every meta page (free or in use) lies below the meta end marker and either
    below the data end marker or at / beyond the limit: nothing a growing data area could run into -/
theorem engInvR_metaPages {f : FileSt} {live : List Nat} (h : EngInvR f live) (p : Nat) (hp : p ∈ f.metaPages) :
    p < f.alloc.mta.endMarker ∧
    (p < f.alloc.data.endMarker ∨ (0 < f.alloc.maxPages ∧ f.alloc.maxPages ≤ p)) := by
  rcases (mem_metaPages f p).mp hp with hp | hp
  · exact (h.wfr.metaRange p hp).2
  · exact (h.intOk p hp).2.1.2.2

/-- hence the precise rule absorbs nothing on such a state -/
theorem engInvR_needAbsorb {f : FileSt} {live : List Nat} (h : EngInvR f live) : f.needAbsorb = false := by
  cases hn : f.needAbsorb with
  | false => rfl
  | true =>
    obtain ⟨-, p, hp, h1, h2, h3⟩ := (needAbsorb_iff f).mp hn
    have := (engInvR_metaPages h p hp).2
    omega

theorem engInvR_absorbP {f : FileSt} {live : List Nat} (h : EngInvR f live) : f.absorbP = f := by
  show (if f.needAbsorb then _ else f) = f
  rw [engInvR_needAbsorb h]; rfl

theorem engInvR_reopenP {f : FileSt} {live : List Nat} (h : EngInvR f live) : f.reopenP = f.ws f.openStat := by
  rw [reopenP_eq, engInvR_absorbP h]

/-- without an overflow area in use, a page in use lies below the data end marker -/
theorem rz_inUse_lt {f : FileSt} {live : List Nat} (h : EngInv f live) {x : Nat} (hu : InUse f.alloc x) :
    x < f.alloc.data.endMarker := by
  have := h.noOv
  have := hu.2.2.1
  have := hu.2.2.2
  omega

/-- setting another limit keeps the relaxed invariant (whatever the new limit is) -/
theorem rz_setMax_engInvR {f : FileSt} {live : List Nat} (h : EngInv f live) (n : Nat) (f' : FileSt)
    (ha : f'.alloc = { f.alloc with maxPages := n }) (hm : f'.walMap = f.walMap) (hw : f'.walPages = f.walPages) :
    EngInvR f' live := by
  have hi : f'.internal = f.internal := by unfold FileSt.internal; rw [ha, hm, hw]
  have hu : ∀ x, InUse f.alloc x → InUse f'.alloc x := by
    intro x hx
    rw [ha]
    exact ⟨hx.1, hx.2.1, hx.2.2.1, Or.inl (rz_inUse_lt h hx)⟩
  refine ⟨?_, hm ▸ h.keys, ?_, hm ▸ h.mapKey, hm ▸ h.mapInj, ?_, hi ▸ h.intNodup, ?_⟩
  · rw [ha]
    refine ⟨h.wf.ascData, h.wf.ascMeta, h.wf.dataRange, ?_, h.wf.disj, h.wf.dataEnd, h.wf.total⟩
    intro x hx
    have h1 := h.wf.metaRange x hx
    have h2 := h.noOv
    refine ⟨h1.1, h1.2.1, Or.inl ?_⟩
    show x < f.alloc.data.endMarker
    omega
  · intro id hid
    obtain ⟨a, b, c⟩ := h.liveOk id hid
    exact ⟨a, by rw [ha]; exact b, hu id c⟩
  · intro x hx
    rw [hi] at hx
    obtain ⟨a, b, c⟩ := h.intOk x hx
    exact ⟨a, hu x b, c⟩
  · rw [hi, ha]; exact h.total

/-- raising or removing the limit of a bounded file keeps the invariant -/
theorem rz_setMax_engInv {f : FileSt} {live : List Nat} (h : EngInv f live) (n : Nat)
    (hn : n = 0 ∨ (0 < f.alloc.maxPages ∧ f.alloc.maxPages ≤ n)) (f' : FileSt)
    (ha : f'.alloc = { f.alloc with maxPages := n }) (hm : f'.walMap = f.walMap) (hw : f'.walPages = f.walPages) :
    EngInv f' live := by
  have hr := rz_setMax_engInvR h n f' ha hm hw
  have h1 := h.wf.limit
  have h2 := h.noOv
  have h3 := h.ends
  apply hr.toEngInv
  all_goals rw [ha]
  · show n = 0 ∨ f.alloc.data.endMarker ≤ n
    omega
  · show n = 0 ∨ f.alloc.mta.endMarker ≤ n
    omega
  · exact h3

/-- reopening keeps the relaxed invariant (nothing is absorbed, the statistic is recomputed) -/
theorem rz_reopen_engInvR {f : FileSt} {live : List Nat} (h : EngInvR f live) : EngInvR f.reopenP live := by
  rw [engInvR_reopenP h]
  exact engInvR_congr h rfl rfl rfl

/-- reopening keeps the invariant -/
theorem rz_reopen_engInv {f : FileSt} {live : List Nat} (h : EngInv f live) : EngInv f.reopenP live := by
  rw [engInvR_reopenP h.toR]
  exact engInv_congr h rfl rfl rfl

theorem rz_reopen_alloc {f : FileSt} {live : List Nat} (h : EngInvR f live) : f.reopenP.alloc = f.alloc := by
  rw [engInvR_reopenP h]; rfl

/-- `doGrowFile` keeps the invariant -/
theorem rz_grow_engInv {f : FileSt} {live : List Nat} (h : EngInv f live) (n : Nat)
    (hn : n = 0 ∨ (0 < f.alloc.maxPages ∧ f.alloc.maxPages ≤ n)) : EngInv (f.resizeGrow n) live := by
  have h1 : EngInv ({ f with alloc := { f.alloc with maxPages := n }, txid := f.txid + 1 } : FileSt) live :=
    rz_setMax_engInv h n hn _ rfl rfl rfl
  unfold FileSt.resizeGrow FileSt.limitTx
  rw [engInvR_absorbP h1.toR]
  exact h1

/-- `doGrowFile` with any new limit keeps the relaxed invariant -/
theorem rz_grow_engInvR {f : FileSt} {live : List Nat} (h : EngInv f live) (n : Nat) :
    EngInvR (f.resizeGrow n) live := by
  have h1 : EngInvR ({ f with alloc := { f.alloc with maxPages := n }, txid := f.txid + 1 } : FileSt) live :=
    rz_setMax_engInvR h n _ rfl rfl rfl
  unfold FileSt.resizeGrow FileSt.limitTx
  rw [engInvR_absorbP h1]
  exact h1

/-- on a state satisfying the invariant `doGrowFile` only sets the limit (and the txid) -/
theorem rz_grow_eq {f : FileSt} {live : List Nat} (h : EngInv f live) (n : Nat) :
    f.resizeGrow n = { f with alloc := { f.alloc with maxPages := n }, txid := f.txid + 1 } := by
  have h1 : EngInvR ({ f with alloc := { f.alloc with maxPages := n }, txid := f.txid + 1 } : FileSt) live :=
    rz_setMax_engInvR h n _ rfl rfl rfl
  unfold FileSt.resizeGrow FileSt.limitTx
  exact engInvR_absorbP h1

/-- `FileSt.openAt` with the data end marker of the state keeps the relaxed invariant -/
theorem rz_openAt_engInvR {f : FileSt} {live : List Nat} (h : EngInv f live) (n : Nat) :
    EngInvR (f.openAt n f.alloc.data.endMarker) live := by
  have h1 : EngInvR ({ f with alloc := { f.alloc with maxPages := n, data := { f.alloc.data with endMarker := f.alloc.data.endMarker } } } : FileSt) live :=
    rz_setMax_engInvR h n _ rfl rfl rfl
  exact rz_reopen_engInvR h1

/-- … and only sets the limit and recomputes the statistic -/
theorem rz_openAt_alloc {f : FileSt} {live : List Nat} (h : EngInv f live) (n : Nat) :
    (f.openAt n f.alloc.data.endMarker).alloc = { f.alloc with maxPages := n } := by
  have h1 : EngInvR ({ f with alloc := { f.alloc with maxPages := n, data := { f.alloc.data with endMarker := f.alloc.data.endMarker } } } : FileSt) live :=
    rz_setMax_engInvR h n _ rfl rfl rfl
  unfold FileSt.openAt
  rw [rz_reopen_alloc h1]

/-! ### no room at the end of the file: the allocator does not look at the exact limit

  In the release transaction of a shrink the data end marker lies at or beyond the (new) limit.
  Then no page can be taken from the end of the file, and every allocator operation of a transaction
  that does not use the overflow area computes the same result for every other limit `m` with
  `0 < m ≤ data.endMarker` — in particular for `m = data.endMarker`, for which `AOK.limit` holds. -/

/-- the allocator with another limit -/
def Alloc.wm (a : Alloc) (m : Nat) : Alloc := { a with maxPages := m }

/-- no room at the end of the file, for the limit of `a` and for the limit `m` -/
structure NoRoom (a : Alloc) (m : Nat) : Prop where
  pos : 0 < a.maxPages
  full : a.maxPages ≤ a.data.endMarker
  mpos : 0 < m
  mfull : m ≤ a.data.endMarker

theorem rz_dataAvail_full (a : Alloc) (hp : 0 < a.maxPages) (hf : a.maxPages ≤ a.data.endMarker) :
    a.dataAvail = a.data.free.length := by
  unfold Alloc.dataAvail
  rw [if_neg (by omega), if_neg (by omega)]
  rfl

theorem rz_dataAvail_subst (a : Alloc) (m : Nat) (h : NoRoom a m) : (a.wm m).dataAvail = a.dataAvail := by
  rw [rz_dataAvail_full a h.pos h.full, rz_dataAvail_full (a.wm m) h.mpos h.mfull]
  rfl

theorem rz_bump_subst (a : Alloc) (m : Nat) : bumpMetaEnd (a.wm m) = (bumpMetaEnd a).wm m := by
  unfold bumpMetaEnd Alloc.wm
  split <;> rfl

/-- result triple with another limit -/
def wmR (m : Nat) (r : Alloc × TxAlloc × List Nat) : Alloc × TxAlloc × List Nat := (r.1.wm m, r.2.1, r.2.2)

theorem rz_regions_subst (a : Alloc) (st : TxAlloc) (k m : Nat) (h : NoRoom a m) :
    dataAllocRegions (a.wm m) st k = (dataAllocRegions a st k).map (wmR m) := by
  unfold dataAllocRegions
  rw [rz_dataAvail_subst a m h]
  by_cases hav : a.dataAvail < k
  · rw [if_pos hav, if_pos hav]; rfl
  · rw [if_neg hav, if_neg hav]
    simp only [Option.map_some, wmR]
    have key : ∀ (de : Nat) (fr : List Nat), bumpMetaEnd (({ a with data := { endMarker := de, free := fr } } : Alloc).wm m) = (bumpMetaEnd ({ a with data := { endMarker := de, free := fr } } : Alloc)).wm m :=
      fun de fr => rz_bump_subst _ m
    by_cases hrest : k - min k a.data.free.length > 0
    · have hrest' : k - min k (a.wm m).data.free.length > 0 := hrest
      rw [if_pos hrest, if_pos hrest']
      exact congrArg (fun x => some (x, _, _)) (key _ _)
    · have hrest' : ¬ k - min k (a.wm m).data.free.length > 0 := hrest
      rw [if_neg hrest, if_neg hrest']
      rfl

theorem rz_regions_keeps (a : Alloc) (st : TxAlloc) (k : Nat) (a' : Alloc) (st' : TxAlloc) (ids : List Nat)
    (hp : 0 < a.maxPages) (hf : a.maxPages ≤ a.data.endMarker)
    (hr : dataAllocRegions a st k = some (a', st', ids)) :
    a'.data.endMarker = a.data.endMarker ∧ a'.maxPages = a.maxPages := by
  obtain ⟨j, rest, h1, h2, h3, h4, -, -, -, e2, -, -, e5, -⟩ := dataAllocRegions_spec a st k a' st' ids hr
  refine ⟨?_, e5⟩
  rw [e2]
  omega

theorem wm_data (a : Alloc) (m : Nat) : (a.wm m).data = a.data := rfl
theorem wm_mta (a : Alloc) (m : Nat) : (a.wm m).mta = a.mta := rfl
theorem wm_maxPages (a : Alloc) (m : Nat) : (a.wm m).maxPages = m := rfl
theorem wm_metaTotal (a : Alloc) (m : Nat) : (a.wm m).metaTotal = a.metaTotal := rfl
theorem wm_pageSize (a : Alloc) (m : Nat) : (a.wm m).pageSize = a.pageSize := rfl
theorem wm_freelistPages (a : Alloc) (m : Nat) : (a.wm m).freelistPages = a.freelistPages := rfl
theorem wm_self (a : Alloc) : a.wm a.maxPages = a := rfl
theorem wm_wm (a : Alloc) (m k : Nat) : (a.wm m).wm k = a.wm k := rfl

theorem rz_continuous_subst (a : Alloc) (st : TxAlloc) (k m : Nat) (h : NoRoom a m) :
    dataAllocContinuous (a.wm m) st k = (dataAllocContinuous a st k).map (wmR m) := by
  unfold dataAllocContinuous
  rw [rz_dataAvail_subst a m h]
  by_cases hav : a.dataAvail < k
  · rw [if_pos hav, if_pos hav]; rfl
  · rw [if_neg hav, if_neg hav]
    rw [wm_data]
    cases hc : allocContinuous a.data.free k with
    | some p =>
      obtain ⟨taken, rest⟩ := p
      rfl
    | none =>
      have hp := h.pos
      have hf := h.full
      have hmp := h.mpos
      have hmf := h.mfull
      dsimp only
      rw [wm_maxPages]
      rw [if_neg (show ¬ a.data.endMarker < m by omega), if_neg (show ¬ a.data.endMarker < a.maxPages by omega)]
      by_cases hk : 0 < k
      · rw [if_pos ⟨hmp, hk⟩, if_pos ⟨hp, hk⟩]; rfl
      · rw [if_neg (fun c => hk c.2), if_neg (fun c => hk c.2)]
        simp only [Option.map_some, wmR]
        have key : ∀ (d : Area), bumpMetaEnd (({ a with data := d } : Alloc).wm m) = (bumpMetaEnd ({ a with data := d } : Alloc)).wm m :=
          fun d => rz_bump_subst _ m
        exact congrArg (fun x => some (x, _, _)) (key _)

theorem rz_continuous_keeps (a : Alloc) (st : TxAlloc) (k : Nat) (a' : Alloc) (st' : TxAlloc) (ids : List Nat)
    (hp : 0 < a.maxPages) (hf : a.maxPages ≤ a.data.endMarker)
    (hr : dataAllocContinuous a st k = some (a', st', ids)) :
    a'.data.endMarker = a.data.endMarker ∧ a'.maxPages = a.maxPages := by
  unfold dataAllocContinuous at hr
  split at hr
  · cases hr
  · split at hr
    · simp only [Option.some.injEq, Prod.mk.injEq] at hr
      obtain ⟨rfl, -, -⟩ := hr
      exact ⟨rfl, rfl⟩
    · dsimp only at hr
      rw [if_neg (show ¬ a.data.endMarker < a.maxPages by omega)] at hr
      by_cases hk : 0 < k
      · rw [if_pos ⟨hp, hk⟩] at hr; cases hr
      · rw [if_neg (fun c => hk c.2)] at hr
        simp only [Option.some.injEq, Prod.mk.injEq] at hr
        obtain ⟨rfl, -, -⟩ := hr
        have : k = 0 := by omega
        subst this
        rw [bumpMetaEnd_data, bumpMetaEnd_maxPages]
        exact ⟨rfl, rfl⟩

theorem rz_transfer_subst (a : Alloc) (st : TxAlloc) (ids : List Nat) (m : Nat) :
    transferToMeta (a.wm m) st ids = ((transferToMeta a st ids).1.wm m, (transferToMeta a st ids).2) := rfl

theorem rz_transfer_keeps (a : Alloc) (st : TxAlloc) (ids : List Nat) :
    (transferToMeta a st ids).1.data = a.data ∧ (transferToMeta a st ids).1.maxPages = a.maxPages ∧
    (transferToMeta a st ids).2.overflow = st.overflow := ⟨rfl, rfl, rfl⟩

/-- result pair with another limit -/
def wmP (m : Nat) (r : Alloc × TxAlloc) : Alloc × TxAlloc := (r.1.wm m, r.2)

theorem rz_tryGrow_subst (a : Alloc) (st : TxAlloc) (c m : Nat) (h : NoRoom a m) :
    tryGrow (a.wm m) st c false = (tryGrow a st c false).map (wmP m) := by
  unfold tryGrow
  dsimp only
  rw [rz_dataAvail_subst a m h]
  by_cases hc0 : c = 0
  · rw [if_pos hc0, if_pos hc0]; rfl
  · rw [if_neg hc0, if_neg hc0]
    by_cases hav : a.dataAvail < c
    · rw [if_pos hav, if_pos hav]
      simp
    · rw [if_neg hav, if_neg hav, rz_continuous_subst a st c m h, rz_regions_subst a st c m h]
      cases dataAllocContinuous a st c with
      | some p => obtain ⟨a1, st1, ids⟩ := p; rfl
      | none =>
        cases dataAllocRegions a st c with
        | some p => obtain ⟨a1, st1, ids⟩ := p; rfl
        | none => rfl

theorem rz_tryGrow_keeps (a : Alloc) (st : TxAlloc) (c : Nat) (a' : Alloc) (st' : TxAlloc)
    (hp : 0 < a.maxPages) (hf : a.maxPages ≤ a.data.endMarker)
    (hr : tryGrow a st c false = some (a', st')) :
    a'.data.endMarker = a.data.endMarker ∧ a'.maxPages = a.maxPages := by
  unfold tryGrow at hr
  dsimp only at hr
  by_cases hc0 : c = 0
  · rw [if_pos hc0] at hr
    simp only [Option.some.injEq, Prod.mk.injEq] at hr
    obtain ⟨rfl, -⟩ := hr
    exact ⟨rfl, rfl⟩
  · rw [if_neg hc0] at hr
    by_cases hav : a.dataAvail < c
    · rw [if_pos hav] at hr
      simp at hr
    · rw [if_neg hav] at hr
      cases hcont : dataAllocContinuous a st c with
      | some p =>
        obtain ⟨a1, st1, ids⟩ := p
        rw [hcont] at hr
        simp only [Option.some.injEq] at hr
        have k := rz_continuous_keeps a st c a1 st1 ids hp hf hcont
        have t := rz_transfer_keeps a1 st1 ids
        rw [hr] at t
        rw [t.1, t.2.1]
        exact k
      | none =>
        rw [hcont] at hr
        cases hreg : dataAllocRegions a st c with
        | none => rw [hreg] at hr; cases hr
        | some p =>
          obtain ⟨a1, st1, ids⟩ := p
          rw [hreg] at hr
          simp only [Option.some.injEq] at hr
          have k := rz_regions_keeps a st c a1 st1 ids hp hf hreg
          have t := rz_transfer_keeps a1 st1 ids
          rw [hr] at t
          rw [t.1, t.2.1]
          exact k

theorem rz_ensureMeta_subst (a : Alloc) (st : TxAlloc) (k m : Nat) (h : NoRoom a m) (hov : st.overflow = false) :
    ensureMeta (a.wm m) st k = (ensureMeta a st k).map (wmP m) := by
  unfold ensureMeta
  dsimp only
  rw [wm_metaTotal, wm_mta, hov]
  split
  · rfl
  · rw [rz_tryGrow_subst a st _ m h, rz_tryGrow_subst a st _ m h]
    cases tryGrow a st ((metaQuota a.metaTotal (a.metaTotal - a.mta.free.length + k) st.growPct).2 - a.metaTotal) false with
    | some r => rfl
    | none => rfl

theorem rz_ensureMeta_keeps (a : Alloc) (st : TxAlloc) (k : Nat) (a' : Alloc) (st' : TxAlloc)
    (hp : 0 < a.maxPages) (hf : a.maxPages ≤ a.data.endMarker) (hov : st.overflow = false)
    (hr : ensureMeta a st k = some (a', st')) :
    a'.data.endMarker = a.data.endMarker ∧ a'.maxPages = a.maxPages := by
  unfold ensureMeta at hr
  dsimp only at hr
  rw [hov] at hr
  split at hr
  · simp only [Option.some.injEq, Prod.mk.injEq] at hr
    obtain ⟨rfl, -⟩ := hr
    exact ⟨rfl, rfl⟩
  · split at hr
    · rename_i r hg
      simp only [Option.some.injEq] at hr
      subst hr
      exact rz_tryGrow_keeps a st _ a' st' hp hf hg
    · exact rz_tryGrow_keeps a st _ a' st' hp hf hr

theorem rz_metaAllocRegions_subst (a : Alloc) (st : TxAlloc) (k m : Nat) (h : NoRoom a m) (hov : st.overflow = false) :
    metaAllocRegions (a.wm m) st k = (metaAllocRegions a st k).map (wmR m) := by
  unfold metaAllocRegions
  rw [rz_ensureMeta_subst a st k m h hov]
  cases ensureMeta a st k with
  | none => rfl
  | some r =>
    obtain ⟨a1, st1⟩ := r
    simp only [Option.map_some, wmP]
    rw [wm_mta]
    split
    · rfl
    · rfl

theorem rz_metaAllocRegions_keeps (a : Alloc) (st : TxAlloc) (k : Nat) (a' : Alloc) (st' : TxAlloc) (ids : List Nat)
    (hp : 0 < a.maxPages) (hf : a.maxPages ≤ a.data.endMarker) (hov : st.overflow = false)
    (hr : metaAllocRegions a st k = some (a', st', ids)) :
    a'.data.endMarker = a.data.endMarker ∧ a'.maxPages = a.maxPages := by
  unfold metaAllocRegions at hr
  split at hr
  · cases hr
  · rename_i a1 st1 he
    have k1 := rz_ensureMeta_keeps a st k a1 st1 hp hf hov he
    dsimp only at hr
    split at hr
    · cases hr
    · simp only [Option.some.injEq, Prod.mk.injEq] at hr
      obtain ⟨rfl, -, -⟩ := hr
      exact k1

/-! ### a failed release transaction: the rollback of a transaction that did nothing -/

theorem rz_rollback_wm (a : Alloc) (st : TxAlloc) (m : Nat) : (a.wm m).rollback st = (a.rollback st).wm m := rfl

/-- rolling back a transaction right after its begin changes nothing (whatever the limit is) -/
theorem rz_rollback_fresh (a : Alloc) (hw : WFR a) (hx : ∀ x ∈ a.mta.free, x < a.data.endMarker) (ov : Bool) (pct : Nat) :
    a.rollback (a.beginTx ov pct) = a := by
  have hwf : WF (a.wm 0) :=
    ⟨hw.ascData, hw.ascMeta, hw.dataRange, fun x h => ⟨(hw.metaRange x h).1, (hw.metaRange x h).2.1, Or.inl (hx x h)⟩,
      hw.disj, hw.dataEnd, Or.inl rfl, hw.total⟩
  have h1 := rollback_of_inv (a.wm 0) (a.wm 0) ((a.wm 0).beginTx ov pct) hwf (inv_init (a.wm 0) hwf ov pct)
  have h2 : (a.wm 0).beginTx ov pct = a.beginTx ov pct := rfl
  rw [h2, rz_rollback_wm] at h1
  have h3 := congrArg (fun x => x.wm a.maxPages) h1
  exact h3

/-! ### what `releaseOverflow` keeps -/

/-- the ids kept lie below the lowered end marker -/
theorem releaseOverflow_kept_lt (l : List Nat) (m e : Nat) (hasc : Asc l) (hlt : ∀ x ∈ l, x < e) :
    ∀ x ∈ (releaseOverflow l m e).1, x < e - (releaseOverflow l m e).2 := by
  obtain ⟨h1, h2, -, -⟩ := releaseOverflow_decomp l m e
  generalize (releaseOverflow l m e).2 = k at *
  generalize (releaseOverflow l m e).1 = keep at *
  intro x hx
  by_cases hk : 0 < k
  · rw [h1] at hasc
    unfold Asc at hasc
    rw [List.pairwise_append] at hasc
    exact hasc.2.2 x hx (e - k) ((mem_idRange _ _ _).mpr ⟨Nat.le_refl _, by omega⟩)
  · have := hlt x (by rw [h1]; exact List.mem_append_left _ hx)
    omega

theorem releaseOverflow_kept_mem (l : List Nat) (m e : Nat) : ∀ x ∈ (releaseOverflow l m e).1, x ∈ l := by
  intro x hx
  rw [releaseOverflow_take] at hx
  exact List.mem_of_mem_take hx

/-- the end marker is not lowered below the limit -/
theorem releaseOverflow_end_ge (l : List Nat) (m e : Nat) (hm : m ≤ e) : m ≤ e - (releaseOverflow l m e).2 := by
  obtain ⟨-, h2, h3, -⟩ := releaseOverflow_decomp l m e
  by_cases hk : 0 < (releaseOverflow l m e).2
  · exact (h3 hk).2
  · omega

/-! ### the allocator commit of the release transaction -/

theorem rz_dataEnd1 (a1 : Alloc) (st1 : TxAlloc) (hme : a1.mta.endMarker ≤ a1.data.endMarker) :
    dataEnd1 a1 st1 = a1.data.endMarker := by
  unfold dataEnd1
  rw [if_neg (by omega)]

/-- the new free lists and end markers computed by a commit that frees nothing itself, in a state
    whose meta area ends inside the data area -/
theorem rz_commitState (a1 : Alloc) (st1 : TxAlloc) (regs : List Nat)
    (hfd : st1.data.freed = []) (hfm : st1.mta.freed = [])
    (hme : a1.mta.endMarker ≤ a1.data.endMarker)
    (hD : Asc a1.data.free) (hM : Asc a1.mta.free)
    (hdr : ∀ x ∈ a1.data.free, 2 ≤ x ∧ x < a1.data.endMarker)
    (hmr : ∀ x ∈ a1.mta.free, x ∉ a1.data.free ∧ x < a1.mta.endMarker)
    (hde : 2 ≤ a1.data.endMarker) :
    (∀ x ∈ (commitState a1 st1 regs).dataList, x ∈ a1.data.free ∧ x < (commitState a1 st1 regs).dataEnd) ∧
    (∀ x ∈ (commitState a1 st1 regs).metaList, x ∈ a1.mta.free ∧ x < (commitState a1 st1 regs).metaEnd) ∧
    (a1.maxPages ≤ a1.data.endMarker → a1.maxPages ≤ (commitState a1 st1 regs).dataEnd) ∧
    (commitState a1 st1 regs).metaList.length + (commitState a1 st1 regs).overflowFreed = a1.mta.free.length ∧
    2 ≤ (commitState a1 st1 regs).dataEnd ∧
    Asc (commitState a1 st1 regs).dataList ∧ Asc (commitState a1 st1 regs).metaList := by
  have e1 := rz_dataEnd1 a1 st1 hme
  have eD : dataRel a1 st1 = releaseOverflow a1.data.free a1.maxPages a1.data.endMarker := by
    unfold dataRel; rw [e1, hfd, unionIds_nil_left]
  have eM : ovfRel a1 st1 = releaseOverflow a1.mta.free a1.maxPages a1.mta.endMarker := by
    unfold ovfRel; rw [hfm, unionIds_nil_left]
  rw [commitState_eq]
  dsimp only
  rw [e1, eD, eM]
  have kd := releaseOverflow_kept_lt a1.data.free a1.maxPages a1.data.endMarker hD (fun x hx => (hdr x hx).2)
  have km := releaseOverflow_kept_lt a1.mta.free a1.maxPages a1.mta.endMarker hM (fun x hx => (hmr x hx).2)
  have md := releaseOverflow_kept_mem a1.data.free a1.maxPages a1.data.endMarker
  have mm := releaseOverflow_kept_mem a1.mta.free a1.maxPages a1.mta.endMarker
  refine ⟨fun x hx => ⟨md x hx, kd x hx⟩, ?_, ?_, releaseOverflow_length _ _ _, ?_, ?_, ?_⟩
  · intro x hx
    refine ⟨mm x hx, ?_⟩
    split
    · have h1 := hmr x (mm x hx)
      exact releaseOverflow_keeps_used _ _ _ x (by omega) h1.1
    · exact km x hx
  · intro h; exact releaseOverflow_end_ge _ _ _ h
  · have := releaseOverflow_keeps_used a1.data.free a1.maxPages a1.data.endMarker 1 (by omega)
      (fun h => by have := (hdr 1 h).1; omega)
    omega
  · rw [releaseOverflow_take]; exact asc_take _ _ hD
  · rw [releaseOverflow_take]; exact asc_take _ _ hM

/-- what is known about the allocator right before the commit of the release transaction
    (`a`: the allocator when the transaction begins, `regs`: the pages allocated for the new free list).
    The frame facts are stated for the limit `a.data.endMarker`, for which the allocator computes the same. -/
structure RelAlloc (a a1 : Alloc) (st1 : TxAlloc) (regs : List Nat) : Prop where
  ok : AOK (a1.wm a.data.endMarker)
  ok2 : AOK2 (a1.wm a.data.endMarker)
  keep : ∀ x, InUse (a.wm a.data.endMarker) x → InUse (a1.wm a.data.endMarker) x
  regsOk : ∀ x ∈ regs, ¬ InUse (a.wm a.data.endMarker) x ∧ InUse (a1.wm a.data.endMarker) x ∧ 2 ≤ x
  nodup : regs.Nodup
  de : a1.data.endMarker = a.data.endMarker
  mx : a1.maxPages = a.maxPages
  fd : st1.data.freed = []
  fm : st1.mta.freed = []
  cnt : a1.mta.free.length + regs.length + a.metaTotal ≤ a.mta.free.length + a1.metaTotal

/-- the hypotheses under which the release transaction runs -/
structure RelPre (a : Alloc) : Prop where
  wfr : WFR a
  hme : a.mta.endMarker ≤ a.data.endMarker
  pos : 0 < a.maxPages
  full : a.maxPages ≤ a.data.endMarker
  ends : a.data.endMarker ≤ a.mta.endMarker ∨ a.data.endMarker ≤ 2

theorem RelPre.aok {a : Alloc} (h : RelPre a) : AOK (a.wm a.data.endMarker) := by
  have hme := h.hme
  refine ⟨h.wfr.ascData, h.wfr.ascMeta, h.wfr.dataRange, ?_, h.ends, h.wfr.dataEnd, Or.inr (Nat.le_refl _)⟩
  intro x hx
  have h1 := h.wfr.metaRange x hx
  refine ⟨fun hd => h.wfr.disj x hd hx, h1.2.1, Or.inl ?_⟩
  show x < a.data.endMarker
  omega

theorem RelPre.aok2 {a : Alloc} (h : RelPre a) : AOK2 (a.wm a.data.endMarker) :=
  ⟨Or.inr h.hme, h.ends, fun x hx => (h.wfr.metaRange x hx).1⟩

theorem RelPre.wf {a : Alloc} (h : RelPre a) : WF (a.wm a.data.endMarker) := by
  have hme := h.hme
  refine ⟨h.wfr.ascData, h.wfr.ascMeta, h.wfr.dataRange, ?_, h.wfr.disj, h.wfr.dataEnd, Or.inr (Nat.le_refl _), h.wfr.total⟩
  intro x hx
  have h1 := h.wfr.metaRange x hx
  refine ⟨h1.1, h1.2.1, Or.inl ?_⟩
  show x < a.data.endMarker
  omega

theorem RelPre.noRoom {a : Alloc} (h : RelPre a) : NoRoom a a.data.endMarker :=
  ⟨h.pos, h.full, by have := h.wfr.dataEnd; omega, Nat.le_refl _⟩

theorem rz_release_alloc (a a1 : Alloc) (st1 : TxAlloc) (cs : AllocCommit) (h : RelPre a)
    (hc : fileCommitAlloc a (a.beginTx false 0) true = some (a1, st1, cs)) :
    cs = commitState a1 st1 cs.allocRegions ∧ RelAlloc a a1 st1 cs.allocRegions := by
  obtain ⟨hcs, hstep⟩ := fileCommitAlloc_some a _ a1 st1 cs hc
  refine ⟨hcs, ?_⟩
  rcases hstep with ⟨ha, hs, hr⟩ | ⟨k, -, hr⟩
  · subst ha hs
    rw [hr]
    exact ⟨h.aok, h.aok2, fun _ hx => hx, (fun x hx => nomatch hx), List.nodup_nil, rfl, rfl, rfl, rfl, Nat.le_refl _⟩
  · have hov : (a.beginTx false 0).overflow = false := rfl
    have hsub := rz_metaAllocRegions_subst a (a.beginTx false 0) k a.data.endMarker h.noRoom hov
    rw [hr] at hsub
    simp only [Option.map_some, wmR] at hsub
    obtain ⟨kde, kmx⟩ := rz_metaAllocRegions_keeps a _ k a1 st1 _ h.pos h.full hov hr
    obtain ⟨f1, f2, f3, f4⟩ := fr_metaAllocRegions _ _ k _ st1 _ h.aok hsub
    obtain ⟨g1, g2⟩ := a2_metaAllocRegions _ _ k _ st1 _ h.aok h.aok2 hov hsub
    obtain ⟨s1, s2, s3, -⟩ := metaAllocRegions_st a _ k a1 st1 _ hr
    have hinv := inv_metaAllocRegions (a.wm a.data.endMarker) (a.wm a.data.endMarker) _ k _ st1 _ h.wf
      (inv_init _ h.wf false 0) hsub
    refine ⟨f1, g1, f2, fun x hx => ⟨(f3 x hx).1, (f3 x hx).2, g2 x hx⟩, f4, kde, kmx, s3, s2, ?_⟩
    have t3 : (a1.mta.free ++ cs.allocRegions).length ≤
        (a.mta.free ++ st1.moveToMeta ++ st1.fromOverflow).length := by
      apply nodup_subset_length
      · rw [List.nodup_append]
        refine ⟨asc_nodup _ f1.ascM, f4, ?_⟩
        intro x hx y hy e
        subst e
        exact (f3 x hy).2.2.1 hx
      · intro x hx
        have hm := (hinv.mIff x).mp (by
          rw [List.mem_append] at hx
          rcases hx with hx | hx
          · exact Or.inl hx
          · right; rw [s1, mem_unionIds]; exact Or.inl hx)
        rw [List.mem_append, List.mem_append]
        rcases hm with hm | hm | hm
        · exact Or.inl (Or.inl hm)
        · exact Or.inl (Or.inr hm)
        · exact Or.inr hm
    have t4 : a1.metaTotal = a.metaTotal + st1.moveToMeta.length + st1.fromOverflow.length := hinv.total
    simp only [List.length_append] at t3
    omega

theorem rz_commit_eq (a1 : Alloc) (st1 : TxAlloc) (regs : List Nat) :
    a1.commit (commitState a1 st1 regs) =
      { a1 with freelistPages := regs,
                data := { endMarker := (commitState a1 st1 regs).dataEnd, free := (commitState a1 st1 regs).dataList },
                mta := { endMarker := (commitState a1 st1 regs).metaEnd, free := (commitState a1 st1 regs).metaList },
                metaTotal := a1.metaTotal - (commitState a1 st1 regs).overflowFreed } := by
  have hu : (commitState a1 st1 regs).updated = true := by rw [commitState_eq]
  have hr : (commitState a1 st1 regs).allocRegions = regs := by rw [commitState_eq]
  unfold Alloc.commit
  rw [hu, hr]
  rfl

/-- a page in use at the begin of the release transaction is in use in the committed allocator -/
theorem rz_release_inUse (a a1 : Alloc) (st1 : TxAlloc) (regs : List Nat) (h : RelPre a) (hr : RelAlloc a a1 st1 regs)
    (x : Nat) (hu : InUse (a1.wm a.data.endMarker) x) :
    InUse (a1.commit (commitState a1 st1 regs)) x ∧
    (x < a1.data.endMarker → x < (a1.commit (commitState a1 st1 regs)).data.endMarker) := by
  have hpos := h.pos
  have hfull := h.full
  have hde := hr.de
  have hmx := hr.mx
  have hme1 : a1.mta.endMarker ≤ a1.data.endMarker := by
    have := hr.ok2.noOv
    have := hr.ok.dEnd
    have e1 : (a1.wm a.data.endMarker).maxPages = a.data.endMarker := rfl
    have e2 : (a1.wm a.data.endMarker).mta.endMarker = a1.mta.endMarker := rfl
    have e3 : (a1.wm a.data.endMarker).data.endMarker = a1.data.endMarker := rfl
    omega
  obtain ⟨c1, c2, c3, c4, c5, c6, c7⟩ := rz_commitState a1 st1 regs hr.fd hr.fm hme1 hr.ok.ascD hr.ok.ascM hr.ok.dRange
    (fun y hy => ⟨(hr.ok.mOK y hy).1, (hr.ok.mOK y hy).2.1⟩) hr.ok.dEnd
  have hnd : x ∉ unionIds st1.data.freed a1.data.free := by rw [hr.fd, unionIds_nil_left]; exact hu.1
  have hnm : x ∉ unionIds st1.mta.freed a1.mta.free := by rw [hr.fm, unionIds_nil_left]; exact hu.2.1
  have k1 := commitState_keeps_meta a1 st1 regs x hu.2.2.1 hnd hnm
  have c3' := c3 (by omega)
  rw [rz_commit_eq]
  refine ⟨⟨fun hc => hu.1 (c1 x hc).1, fun hc => hu.2.1 (c2 x hc).1, k1, ?_⟩, ?_⟩
  · show x < (commitState a1 st1 regs).dataEnd ∨ (0 < a1.maxPages ∧ a1.maxPages ≤ x)
    omega
  · intro hlt
    exact commitState_keeps_data a1 st1 regs x hlt hnd hnm

/-- `initTxReleaseRegions` keeps the relaxed invariant -/
theorem rz_releaseTx_engInvR {f : FileSt} {live : List Nat} (he : EngInvR f live) (h : RelPre f.alloc) :
    EngInvR f.releaseTx.1 live := by
  have hmlt : ∀ x ∈ f.alloc.mta.free, x < f.alloc.data.endMarker := by
    intro x hx; have := (he.wfr.metaRange x hx).2.1; have := h.hme; omega
  unfold FileSt.releaseTx
  dsimp only
  cases hc : fileCommitAlloc f.alloc (f.alloc.beginTx false 0) true with
  | none =>
    dsimp only
    exact engInvR_congr he (rz_rollback_fresh f.alloc he.wfr hmlt false 0) rfl rfl
  | some r =>
    obtain ⟨a1, st1, cs⟩ := r
    dsimp only
    obtain ⟨hcs, hr⟩ := rz_release_alloc f.alloc a1 st1 cs h hc
    generalize cs.allocRegions = regs at hcs hr
    subst hcs
    have hpos := h.pos
    have hfull := h.full
    have hde := hr.de
    have hmx := hr.mx
    have hme1 : a1.mta.endMarker ≤ a1.data.endMarker := by
      have := hr.ok2.noOv
      have := hr.ok.dEnd
      have e1 : (a1.wm f.alloc.data.endMarker).maxPages = f.alloc.data.endMarker := rfl
      have e2 : (a1.wm f.alloc.data.endMarker).mta.endMarker = a1.mta.endMarker := rfl
      have e3 : (a1.wm f.alloc.data.endMarker).data.endMarker = a1.data.endMarker := rfl
      omega
    obtain ⟨c1, c2, c3, c4, c5, c6, c7⟩ := rz_commitState a1 st1 regs hr.fd hr.fm hme1 hr.ok.ascD hr.ok.ascM hr.ok.dRange
      (fun y hy => ⟨(hr.ok.mOK y hy).1, (hr.ok.mOK y hy).2.1⟩) hr.ok.dEnd
    have c3' := c3 (by omega)
    -- pages in use before stay in use
    have up : ∀ x, InUse f.alloc x → InUse (f.alloc.wm f.alloc.data.endMarker) x := by
      intro x hx
      refine ⟨hx.1, hx.2.1, hx.2.2.1, ?_⟩
      show x < f.alloc.data.endMarker ∨ (0 < f.alloc.data.endMarker ∧ f.alloc.data.endMarker ≤ x)
      have := he.wfr.dataEnd
      omega
    have keepAll : ∀ x, InUse f.alloc x → InUse (a1.commit (commitState a1 st1 regs)) x ∧
        (x < f.alloc.data.endMarker → x < (a1.commit (commitState a1 st1 regs)).data.endMarker) := by
      intro x hx
      have := rz_release_inUse f.alloc a1 st1 regs h hr x (hr.keep x (up x hx))
      rw [hde] at this
      exact this
    have hint : ∀ x, x ∈ ({ f with alloc := a1.commit (commitState a1 st1 regs), txid := f.txid + 1 } : FileSt).internal ↔
        (x ∈ f.walMap.map (·.2) ++ f.walPages ∨ x ∈ regs) := by
      intro x
      unfold FileSt.internal
      rw [rz_commit_eq]
      exact List.mem_append
    have hold : ∀ x ∈ f.walMap.map (·.2) ++ f.walPages, x ∈ f.internal := by
      intro x hx; unfold FileSt.internal; exact List.mem_append_left _ hx
    refine ⟨?_, he.keys, ?_, he.mapKey, he.mapInj, ?_, ?_, ?_⟩
    · show WFR (a1.commit (commitState a1 st1 regs))
      rw [rz_commit_eq]
      refine ⟨c6, c7, fun x hx => ⟨(hr.ok.dRange x (c1 x hx).1).1, (c1 x hx).2⟩, ?_, ?_, c5, ?_⟩
      · intro x hx
        refine ⟨hr.ok2.mGe2 x (c2 x hx).1, (c2 x hx).2, ?_⟩
        show x < (commitState a1 st1 regs).dataEnd ∨ (0 < a1.maxPages ∧ a1.maxPages ≤ x)
        omega
      · intro x hx hm
        exact (hr.ok.mOK x (c2 x hm).1).1 (c1 x hx).1
      · show (commitState a1 st1 regs).metaList.length ≤ a1.metaTotal - (commitState a1 st1 regs).overflowFreed
        have t1 := hr.cnt
        have t2 := he.total
        omega
    · intro id hid
      obtain ⟨l1, l2, l3⟩ := he.liveOk id hid
      exact ⟨l1, (keepAll id l3).2 l2, (keepAll id l3).1⟩
    · intro x hx
      rcases (hint x).mp hx with hx | hx
      · obtain ⟨i1, i2, i3⟩ := he.intOk x (hold x hx)
        exact ⟨i1, (keepAll x i2).1, i3⟩
      · obtain ⟨r1, r2, r3⟩ := hr.regsOk x hx
        refine ⟨r3, (rz_release_inUse f.alloc a1 st1 regs h hr x r2).1, ?_⟩
        intro hl
        exact r1 (up x (he.liveOk x hl).2.2)
    · show (f.walMap.map (·.2) ++ f.walPages ++ (a1.commit (commitState a1 st1 regs)).freelistPages).Nodup
      rw [rz_commit_eq]
      show (f.walMap.map (·.2) ++ f.walPages ++ regs).Nodup
      rw [List.nodup_append]
      refine ⟨(List.nodup_append.mp he.intNodup).1, hr.nodup, ?_⟩
      intro x hx y hy e
      subst e
      exact (hr.regsOk x hy).1 (up x (he.intOk x (hold x hx)).2.1)
    · show (a1.commit (commitState a1 st1 regs)).mta.free.length +
        (f.walMap.map (·.2) ++ f.walPages ++ (a1.commit (commitState a1 st1 regs)).freelistPages).length ≤
        (a1.commit (commitState a1 st1 regs)).metaTotal
      rw [rz_commit_eq]
      show (commitState a1 st1 regs).metaList.length + (f.walMap.map (·.2) ++ f.walPages ++ regs).length ≤
        a1.metaTotal - (commitState a1 st1 regs).overflowFreed
      have t1 := hr.cnt
      have t2 := he.total
      unfold FileSt.internal at t2
      rw [List.length_append] at t2 ⊢
      omega

/-! ### `shrinkFile`, `FileSt.resizeWith` -/

theorem rz_lastEnd_le (l : List Nat) (e : Nat) (h : ∀ x ∈ l, x < e) : lastEnd l ≤ e := by
  unfold lastEnd
  cases hl : l.getLast? with
  | none => exact Nat.zero_le _
  | some x =>
    have := h x (List.mem_of_getLast? hl)
    show x + 1 ≤ e
    omega

/-- `shrinkFile` on a state on which `initTxMaxSize` absorbs nothing: the limit is set, then the release step.
    (`FileSt.resizeShrink` is this function on all states the theorems speak about, `rz_shrink_eq0`.) -/
def FileSt.resizeShrink0 (g : FileSt) (n : Nat) : FileSt × ReleaseRes :=
  ({ g with alloc := { g.alloc with maxPages := n }, txid := g.txid + 1 } : FileSt).releaseStep n

/-- the frame of `initTxReleaseRegions`: only the allocator and the txid change -/
theorem rz_releaseTx_frame (f : FileSt) :
    f.releaseTx.1.walMap = f.walMap ∧ f.releaseTx.1.walPages = f.walPages ∧ f.releaseTx.1.disk = f.disk ∧
    f.releaseTx.1.root = f.root := by
  unfold FileSt.releaseTx
  dsimp only
  split <;> exact ⟨rfl, rfl, rfl, rfl⟩

theorem rz_shrink_frame (f : FileSt) (n : Nat) :
    (f.resizeShrink0 n).1.walMap = f.walMap ∧ (f.resizeShrink0 n).1.walPages = f.walPages ∧
    (f.resizeShrink0 n).1.disk = f.disk ∧ (f.resizeShrink0 n).1.root = f.root := by
  unfold FileSt.resizeShrink0 FileSt.releaseStep
  dsimp only
  split
  · have hf := rz_releaseTx_frame ({ f with alloc := { f.alloc with maxPages := n }, txid := f.txid + 1 } : FileSt)
    generalize ({ f with alloc := { f.alloc with maxPages := n }, txid := f.txid + 1 } : FileSt).releaseTx = r at hf
    obtain ⟨f2, res⟩ := r
    cases res <;> exact hf
  · exact ⟨rfl, rfl, rfl, rfl⟩

theorem rz_releaseStep_frame (f1 : FileSt) (n : Nat) :
    (f1.releaseStep n).1.walMap = f1.walMap ∧ (f1.releaseStep n).1.walPages = f1.walPages ∧
    (f1.releaseStep n).1.disk = f1.disk ∧ (f1.releaseStep n).1.root = f1.root := by
  unfold FileSt.releaseStep
  split
  · have hf := rz_releaseTx_frame f1
    generalize f1.releaseTx = r at hf
    obtain ⟨f2, res⟩ := r
    cases res <;> exact hf
  · exact ⟨rfl, rfl, rfl, rfl⟩

/-- the frame of `shrinkFile` (no invariant) -/
theorem rz_shrinkNew_frame (g : FileSt) (n : Nat) :
    (g.resizeShrink n).1.walMap = g.walMap ∧ (g.resizeShrink n).1.walPages = g.walPages ∧
    (g.resizeShrink n).1.disk = g.disk ∧ (g.resizeShrink n).1.root = g.root := by
  have h1 := rz_releaseStep_frame (g.limitTx n) n
  obtain ⟨-, -, -, -, -, -, k7, k8, k9, k10, -⟩ :=
    absorbP_keeps ({ g with alloc := { g.alloc with maxPages := n }, txid := g.txid + 1 } : FileSt)
  exact ⟨h1.1.trans k7, h1.2.1.trans k8, h1.2.2.1.trans k9, h1.2.2.2.trans k10⟩

/-- what `shrinkFile` needs of the state `g` the header was read into: with the new limit set, the relaxed
    invariant holds, the end markers of `g` are in order, and the free meta pages lie inside the data area -/
structure ShrinkPre (g : FileSt) (live : List Nat) (n : Nat) : Prop where
  inv : EngInvR ({ g with alloc := { g.alloc with maxPages := n }, txid := g.txid + 1 } : FileSt) live
  ends : g.alloc.data.endMarker ≤ g.alloc.mta.endMarker ∨ g.alloc.data.endMarker ≤ 2
  mlt : ∀ x ∈ g.alloc.mta.free, x < g.alloc.data.endMarker

theorem rz_meta_lt {g : FileSt} {live : List Nat} (he : EngInv g live) : ∀ x ∈ g.alloc.mta.free, x < g.alloc.data.endMarker := by
  intro x hx
  have h1 := he.wf.metaRange x hx
  have h2 := he.noOv
  omega

/-- a state satisfying the invariant, any new limit -/
theorem ShrinkPre.ofEngInv {g : FileSt} {live : List Nat} (he : EngInv g live) (n : Nat) : ShrinkPre g live n :=
  ⟨rz_setMax_engInvR he n _ rfl rfl rfl, he.ends, rz_meta_lt he⟩

theorem alloc_setMax_self (a : Alloc) (n : Nat) (h : a.maxPages = n) : ({ a with maxPages := n } : Alloc) = a := by
  subst h; rfl

/-- `canReleaseRegions` holds for one of the areas: then the state has no gap and the data area reaches the limit
    (`hgap`: no gap, or the data area ends within the new limit) -/
theorem rz_can_hme {g : FileSt} {live : List Nat} {n : Nat} (he : ShrinkPre g live n)
    (hgap : g.alloc.mta.endMarker ≤ g.alloc.data.endMarker ∨ g.alloc.data.endMarker ≤ n)
    (hcan : (canRelease g.alloc.data n || canRelease g.alloc.mta n) = true) :
    g.alloc.mta.endMarker ≤ g.alloc.data.endMarker ∧ n ≤ g.alloc.data.endMarker := by
  simp only [canRelease, Bool.or_eq_true, Bool.and_eq_true, decide_eq_true_eq, beq_iff_eq] at hcan
  rcases hcan with hc | hc
  · omega
  · have := rz_lastEnd_le g.alloc.mta.free g.alloc.data.endMarker he.mlt
    omega

/-- on such a state `initTxMaxSize` absorbs nothing: `shrinkFile` is `resizeShrink0` -/
theorem rz_shrink_eq0 {g : FileSt} {live : List Nat} {n : Nat} (hp : ShrinkPre g live n) :
    g.resizeShrink n = g.resizeShrink0 n := by
  unfold FileSt.resizeShrink FileSt.limitTx FileSt.resizeShrink0
  rw [engInvR_absorbP hp.inv]

/-- `shrinkFile` (after the header of a bounded file was read) keeps the relaxed invariant -/
theorem rz_shrink_engInvR {g : FileSt} {live : List Nat} {n : Nat} (he : ShrinkPre g live n)
    (hgap : g.alloc.mta.endMarker ≤ g.alloc.data.endMarker ∨ g.alloc.data.endMarker ≤ n) (hn : 0 < n) :
    EngInvR (g.resizeShrink0 n).1 live := by
  have h1 : EngInvR ({ g with alloc := { g.alloc with maxPages := n }, txid := g.txid + 1 } : FileSt) live := he.inv
  unfold FileSt.resizeShrink0 FileSt.releaseStep
  dsimp only
  split
  · rename_i hcan
    obtain ⟨hme, hfull⟩ := rz_can_hme he hgap hcan
    have hpre : RelPre ({ g with alloc := { g.alloc with maxPages := n }, txid := g.txid + 1 } : FileSt).alloc :=
      ⟨h1.wfr, hme, hn, hfull, he.ends⟩
    have h2 := rz_releaseTx_engInvR h1 hpre
    generalize ({ g with alloc := { g.alloc with maxPages := n }, txid := g.txid + 1 } : FileSt).releaseTx = r at h2
    obtain ⟨f2, res⟩ := r
    cases res
    · exact h2
    · exact h2
    · exact engInvR_congr h2 rfl rfl rfl
  · exact h1

/-- the frame of `Open` with a max-size update: the mapping, its pages, the disk and the root are untouched -/
theorem rz_resizeWith_frame (f : FileSt) (k : RKind) (n : Nat) :
    (f.resizeWith k n).1.walMap = f.walMap ∧ (f.resizeWith k n).1.walPages = f.walPages ∧
    (f.resizeWith k n).1.disk = f.disk ∧ (f.resizeWith k n).1.root = f.root := by
  have hA : ∀ g : FileSt, g.absorbP.walMap = g.walMap ∧ g.absorbP.walPages = g.walPages ∧ g.absorbP.disk = g.disk ∧
      g.absorbP.root = g.root := by
    intro g
    obtain ⟨-, -, -, -, -, -, k7, k8, k9, k10, -⟩ := absorbP_keeps g
    exact ⟨k7, k8, k9, k10⟩
  have hR : ∀ g : FileSt, g.reopenP.walMap = g.walMap ∧ g.reopenP.walPages = g.walPages ∧ g.reopenP.disk = g.disk ∧
      g.reopenP.root = g.root := fun g => hA g
  cases k
  · exact hR f
  · exact hR _
  · have h1 := hR f
    have h2 := hA ({ f.reopenP with alloc := { f.reopenP.alloc with maxPages := n }, txid := f.reopenP.txid + 1 } : FileSt)
    exact ⟨h2.1.trans h1.1, h2.2.1.trans h1.2.1, h2.2.2.1.trans h1.2.2.1, h2.2.2.2.trans h1.2.2.2⟩
  · have h1 := hR f
    have h2 := rz_shrinkNew_frame f.reopenP n
    exact ⟨h2.1.trans h1.1, h2.2.1.trans h1.2.1, h2.2.2.1.trans h1.2.2.1, h2.2.2.2.trans h1.2.2.2⟩
  · have h1 := hR ({ f with alloc := { f.alloc with maxPages := n, data := { f.alloc.data with endMarker := f.alloc.data.endMarker } } } : FileSt)
    have h2 := rz_shrinkNew_frame (f.openAt n f.alloc.data.endMarker) n
    exact ⟨h2.1.trans h1.1, h2.2.1.trans h1.2.1, h2.2.2.1.trans h1.2.2.1, h2.2.2.2.trans h1.2.2.2⟩

/-- what `openWith` + `Options.Validate` guarantee about a decision, and — for the two decisions that run
    `shrinkFile` — the one thing the proofs need beyond the invariant: the file has no gap between its end
    markers (the meta area ends inside the data area), or its data area ends within the new limit (then
    nothing can be released from it) -/
def RKind.pre (k : RKind) (f : FileSt) (n : Nat) : Prop :=
  match k with
  | .shrink => 0 < f.alloc.maxPages ∧ 0 < n ∧
      (f.alloc.mta.endMarker ≤ f.alloc.data.endMarker ∨ f.alloc.data.endMarker ≤ n)
  | .boundShrink => 0 < n ∧ (f.alloc.mta.endMarker ≤ f.alloc.data.endMarker ∨ f.alloc.data.endMarker ≤ n)
  | _ => True

theorem rz_openAt_max (f : FileSt) (n d : Nat) : (f.openAt n d).alloc.maxPages = n :=
  (absorbP_keeps _).2.2.2.1

/-- a state satisfying the relaxed invariant that already carries the new limit -/
theorem ShrinkPre.ofEngInvR {g : FileSt} {live : List Nat} {n : Nat} (he : EngInvR g live) (hm : g.alloc.maxPages = n)
    (hends : g.alloc.data.endMarker ≤ g.alloc.mta.endMarker ∨ g.alloc.data.endMarker ≤ 2)
    (hmlt : ∀ x ∈ g.alloc.mta.free, x < g.alloc.data.endMarker) : ShrinkPre g live n :=
  ⟨engInvR_congr he (alloc_setMax_self _ _ hm) rfl rfl, hends, hmlt⟩

theorem rz_openAt_shrinkPre {f : FileSt} {live : List Nat} (he : EngInv f live) (n : Nat) :
    ShrinkPre (f.openAt n f.alloc.data.endMarker) live n := by
  have ha := rz_openAt_alloc he n
  apply ShrinkPre.ofEngInvR (rz_openAt_engInvR he n) (rz_openAt_max f n _)
  · rw [ha]; exact he.ends
  · rw [ha]; exact rz_meta_lt he

theorem rz_reopen_shrinkPre {f : FileSt} {live : List Nat} (he : EngInv f live) (n : Nat) :
    ShrinkPre f.reopenP live n := ShrinkPre.ofEngInv (rz_reopen_engInv he) n

theorem rz_resizeWith_shrink_eq {f : FileSt} {live : List Nat} (he : EngInv f live) (n : Nat) :
    f.resizeWith .shrink n = f.reopenP.resizeShrink0 n := rz_shrink_eq0 (rz_reopen_shrinkPre he n)

theorem rz_resizeWith_boundShrink_eq {f : FileSt} {live : List Nat} (he : EngInv f live) (n : Nat) :
    f.resizeWith .boundShrink n = (f.openAt n f.alloc.data.endMarker).resizeShrink0 n :=
  rz_shrink_eq0 (rz_openAt_shrinkPre he n)

/-- `Open` with a max-size update keeps the relaxed invariant -/
theorem rz_resizeWith_engInvR {f : FileSt} {live : List Nat} (he : EngInv f live) (k : RKind) (n : Nat)
    (hk : k.pre f n) : EngInvR (f.resizeWith k n).1 live := by
  cases k
  · exact (rz_reopen_engInv he).toR
  · exact rz_openAt_engInvR he n
  · exact rz_grow_engInvR (rz_reopen_engInv he) n
  · obtain ⟨h1, h2, h3⟩ := hk
    rw [rz_resizeWith_shrink_eq he n]
    exact rz_shrink_engInvR (rz_reopen_shrinkPre he n) (by rw [rz_reopen_alloc he.toR]; exact h3) h2
  · obtain ⟨h1, h2⟩ := hk
    rw [rz_resizeWith_boundShrink_eq he n]
    exact rz_shrink_engInvR (rz_openAt_shrinkPre he n) (by rw [rz_openAt_alloc he n]; exact h2) h1

theorem rkindPages_shrink (old n : Nat) (h : rkindPages old n = .shrink) : 0 < n ∧ n < old := by
  unfold rkindPages at h
  split at h
  · split at h <;> cases h
  · split at h
    · cases h
    · split at h
      · assumption
      · cases h

theorem rkindPages_boundShrink (old n : Nat) (h : rkindPages old n = .boundShrink) : old = 0 ∧ 0 < n := by
  unfold rkindPages at h
  split at h
  · split at h
    · cases h
    · omega
  · split at h
    · cases h
    · split at h <;> cases h

/-- the hypothesis of the theorems about `FileSt.resize`: when the update LOWERS the limit (`0 < n < old`, or a file
    without limit gets one), the file has no gap between its end markers, or its data area ends within the
    new limit. Growing / removing the limit needs nothing (`resizeOK_of_grow`); files whose meta area ends
    inside the data area satisfy it (`resizeOK_of_noGap`). -/
def ResizeOK (f : FileSt) (n : Nat) : Prop :=
  0 < n → (f.alloc.maxPages = 0 ∨ n < f.alloc.maxPages) →
    (f.alloc.mta.endMarker ≤ f.alloc.data.endMarker ∨ f.alloc.data.endMarker ≤ n)

theorem resizeOK_of_grow (f : FileSt) (n : Nat) (h : n = 0 ∨ (0 < f.alloc.maxPages ∧ f.alloc.maxPages ≤ n)) :
    ResizeOK f n := by
  intro h0 hn; omega

theorem resizeOK_of_noGap (f : FileSt) (n : Nat) (h : f.alloc.mta.endMarker ≤ f.alloc.data.endMarker) : ResizeOK f n :=
  fun _ _ => Or.inl h

theorem resizeOK_of_fits (f : FileSt) (n : Nat) (h : f.alloc.data.endMarker ≤ n) : ResizeOK f n :=
  fun _ _ => Or.inr h

/-- the decision of `FileSt.resize` satisfies `RKind.pre` -/
theorem rkindPages_pre (f : FileSt) (n : Nat) (hg : ResizeOK f n) : (rkindPages f.alloc.maxPages n).pre f n := by
  cases hk : rkindPages f.alloc.maxPages n
  · trivial
  · trivial
  · trivial
  · have := rkindPages_shrink _ _ hk
    exact ⟨by omega, this.1, hg this.1 (Or.inr this.2)⟩
  · have := rkindPages_boundShrink _ _ hk
    exact ⟨this.2, hg this.2 (Or.inl this.1)⟩

theorem rz_resize_engInvR {f : FileSt} {live : List Nat} (he : EngInv f live) (n : Nat) (hg : ResizeOK f n) :
    EngInvR (f.resize n) live := by
  unfold FileSt.resize
  exact rz_resizeWith_engInvR he _ n (rkindPages_pre f n hg)

/-! ### the limit after the update -/

theorem rz_continuous_max (a : Alloc) (st : TxAlloc) (k : Nat) (a' : Alloc) (st' : TxAlloc) (ids : List Nat)
    (hr : dataAllocContinuous a st k = some (a', st', ids)) : a'.maxPages = a.maxPages := by
  unfold dataAllocContinuous at hr
  split at hr
  · cases hr
  · split at hr
    · simp only [Option.some.injEq, Prod.mk.injEq] at hr
      obtain ⟨rfl, -, -⟩ := hr
      rfl
    · dsimp only at hr
      by_cases hcnd : a.maxPages > 0 ∧ (if a.data.endMarker < a.maxPages then a.maxPages - a.data.endMarker else 0) < k
      · rw [if_pos hcnd] at hr; cases hr
      · rw [if_neg hcnd] at hr
        simp only [Option.some.injEq, Prod.mk.injEq] at hr
        obtain ⟨rfl, -, -⟩ := hr
        rw [bumpMetaEnd_maxPages]

theorem rz_regions_max (a : Alloc) (st : TxAlloc) (k : Nat) (a' : Alloc) (st' : TxAlloc) (ids : List Nat)
    (hr : dataAllocRegions a st k = some (a', st', ids)) : a'.maxPages = a.maxPages := by
  obtain ⟨j, rest, -, -, -, -, -, -, -, -, -, -, e5, -⟩ := dataAllocRegions_spec a st k a' st' ids hr
  exact e5

theorem rz_tryGrow_max (a : Alloc) (st : TxAlloc) (c : Nat) (a' : Alloc) (st' : TxAlloc)
    (hr : tryGrow a st c false = some (a', st')) : a'.maxPages = a.maxPages := by
  unfold tryGrow at hr
  dsimp only at hr
  by_cases hc0 : c = 0
  · rw [if_pos hc0] at hr
    simp only [Option.some.injEq, Prod.mk.injEq] at hr
    obtain ⟨rfl, -⟩ := hr
    rfl
  · rw [if_neg hc0] at hr
    by_cases hav : a.dataAvail < c
    · rw [if_pos hav] at hr
      simp at hr
    · rw [if_neg hav] at hr
      cases hcont : dataAllocContinuous a st c with
      | some p =>
        obtain ⟨a1, st1, ids⟩ := p
        rw [hcont] at hr
        simp only [Option.some.injEq] at hr
        have t := rz_transfer_keeps a1 st1 ids
        rw [hr] at t
        rw [t.2.1]
        exact rz_continuous_max a st c a1 st1 ids hcont
      | none =>
        rw [hcont] at hr
        cases hreg : dataAllocRegions a st c with
        | none => rw [hreg] at hr; cases hr
        | some p =>
          obtain ⟨a1, st1, ids⟩ := p
          rw [hreg] at hr
          simp only [Option.some.injEq] at hr
          have t := rz_transfer_keeps a1 st1 ids
          rw [hr] at t
          rw [t.2.1]
          exact rz_regions_max a st c a1 st1 ids hreg

theorem rz_ensureMeta_max (a : Alloc) (st : TxAlloc) (k : Nat) (a' : Alloc) (st' : TxAlloc)
    (hov : st.overflow = false) (hr : ensureMeta a st k = some (a', st')) : a'.maxPages = a.maxPages := by
  unfold ensureMeta at hr
  dsimp only at hr
  rw [hov] at hr
  split at hr
  · simp only [Option.some.injEq, Prod.mk.injEq] at hr
    obtain ⟨rfl, -⟩ := hr
    rfl
  · split at hr
    · rename_i r hg
      simp only [Option.some.injEq] at hr
      subst hr
      exact rz_tryGrow_max a st _ a' st' hg
    · exact rz_tryGrow_max a st _ a' st' hr

theorem rz_metaAllocRegions_max (a : Alloc) (st : TxAlloc) (k : Nat) (a' : Alloc) (st' : TxAlloc) (ids : List Nat)
    (hov : st.overflow = false) (hr : metaAllocRegions a st k = some (a', st', ids)) : a'.maxPages = a.maxPages := by
  unfold metaAllocRegions at hr
  split at hr
  · cases hr
  · rename_i a1 st1 he
    have k1 := rz_ensureMeta_max a st k a1 st1 hov he
    dsimp only at hr
    split at hr
    · cases hr
    · simp only [Option.some.injEq, Prod.mk.injEq] at hr
      obtain ⟨rfl, -, -⟩ := hr
      exact k1

theorem rz_commit_max (a : Alloc) (cs : AllocCommit) : (a.commit cs).maxPages = a.maxPages := by
  unfold Alloc.commit; split <;> rfl

theorem rz_releaseTx_max (f : FileSt) : f.releaseTx.1.alloc.maxPages = f.alloc.maxPages := by
  unfold FileSt.releaseTx
  dsimp only
  cases hc : fileCommitAlloc f.alloc (f.alloc.beginTx false 0) true with
  | none => rfl
  | some r =>
    obtain ⟨a1, st1, cs⟩ := r
    dsimp only
    rw [rz_commit_max]
    obtain ⟨-, hstep⟩ := fileCommitAlloc_some f.alloc _ a1 st1 cs hc
    rcases hstep with ⟨ha, -, -⟩ | ⟨k, -, hr⟩
    · rw [ha]
    · exact rz_metaAllocRegions_max f.alloc _ k a1 st1 _ rfl hr

theorem rz_shrink_max (f : FileSt) (n : Nat) : (f.resizeShrink0 n).1.alloc.maxPages = n := by
  unfold FileSt.resizeShrink0 FileSt.releaseStep
  dsimp only
  split
  · have hf := rz_releaseTx_max ({ f with alloc := { f.alloc with maxPages := n }, txid := f.txid + 1 } : FileSt)
    generalize ({ f with alloc := { f.alloc with maxPages := n }, txid := f.txid + 1 } : FileSt).releaseTx = r at hf
    obtain ⟨f2, res⟩ := r
    cases res <;> exact hf
  · rfl

theorem rz_grow_max (f : FileSt) (n : Nat) : (f.resizeGrow n).alloc.maxPages = n :=
  (absorbP_keeps _).2.2.2.1

theorem rz_releaseStep_max (f1 : FileSt) (n : Nat) : (f1.releaseStep n).1.alloc.maxPages = f1.alloc.maxPages := by
  unfold FileSt.releaseStep
  split
  · have hf := rz_releaseTx_max f1
    generalize f1.releaseTx = r at hf
    obtain ⟨f2, res⟩ := r
    cases res <;> exact hf
  · rfl

theorem rz_limitTx_max (f : FileSt) (n : Nat) : (f.limitTx n).alloc.maxPages = n :=
  (absorbP_keeps _).2.2.2.1

theorem rz_shrinkNew_max (f : FileSt) (n : Nat) : (f.resizeShrink n).1.alloc.maxPages = n := by
  unfold FileSt.resizeShrink
  rw [rz_releaseStep_max, rz_limitTx_max]

/-- the in-memory limit after `Open`: the new limit, unless nothing was to be done -/
theorem rz_resizeWith_max (f : FileSt) (k : RKind) (n : Nat) :
    (f.resizeWith k n).1.alloc.maxPages = (if k = .same then f.alloc.maxPages else n) := by
  cases k
  · exact (absorbP_keeps _).2.2.2.1
  · exact rz_openAt_max f n _
  · exact rz_grow_max _ n
  · exact rz_shrinkNew_max _ n
  · exact rz_shrinkNew_max _ n

theorem rkindPages_same (old n : Nat) (h : rkindPages old n = .same) : n = old := by
  unfold rkindPages at h
  split at h
  · split at h
    · omega
    · cases h
  · split at h
    · assumption
    · split at h <;> cases h

theorem rz_resize_max (f : FileSt) (n : Nat) : (f.resize n).alloc.maxPages = n := by
  unfold FileSt.resize
  rw [rz_resizeWith_max]
  split
  · rename_i h; exact (rkindPages_same _ _ h).symm
  · rfl

/-! ### reopening after the update changes nothing -/

/-- a state on which nothing is absorbed and whose statistic is the one `reportOpen` computes is a fixed point
    of reopening -/
theorem rz_reopen_fix (f : FileSt) (hg : f.needAbsorb = false) (hs : f.statData = f.openStat) : f.reopenP = f := by
  have : f.absorbP = f := by
    show (if f.needAbsorb then _ else f) = f
    rw [hg]; rfl
  rw [reopenP_eq, this, ← hs]
  exact ws_self f

theorem rz_reopen_stat (f : FileSt) : f.reopenP.statData = f.openStat := rfl

/-- reopening twice is reopening once (no hypothesis) -/
theorem rz_reopen_reopen (f : FileSt) : f.reopenP.reopenP = f.reopenP := by
  apply rz_reopen_fix
  · show (f.absorbP.ws f.openStat).needAbsorb = false
    exact absorbP_needAbsorb f
  · rw [rz_reopen_openStat]; rfl

theorem rz_grow_stat (g : FileSt) (n : Nat) (hs : g.statData = g.openStat) :
    (g.resizeGrow n).statData = (g.resizeGrow n).openStat := by
  unfold FileSt.resizeGrow FileSt.limitTx
  rw [absorbP_openStat, (absorbP_keeps _).2.2.2.2.2.2.2.2.2.2.2.1]
  exact hs

/-- `doGrowFile` leaves a fixed point of reopening (no invariant needed) -/
theorem rz_grow_reopen (g : FileSt) (n : Nat) (hs : g.statData = g.openStat) : (g.resizeGrow n).reopenP = g.resizeGrow n :=
  rz_reopen_fix _ (absorbP_needAbsorb _) (rz_grow_stat g n hs)

theorem rz_releaseTx_not_done (f : FileSt) (f2 : FileSt) (res : ReleaseRes) (hw : WFR f.alloc)
    (hx : ∀ x ∈ f.alloc.mta.free, x < f.alloc.data.endMarker)
    (hr : f.releaseTx = (f2, res)) (hnd : res ≠ .done) : f2 = f := by
  unfold FileSt.releaseTx at hr
  dsimp only at hr
  cases hc : fileCommitAlloc f.alloc (f.alloc.beginTx false 0) true with
  | none =>
    rw [hc] at hr
    simp only [Prod.mk.injEq] at hr
    rw [← hr.1, rz_rollback_fresh f.alloc hw hx false 0]
  | some r =>
    obtain ⟨a1, st1, cs⟩ := r
    rw [hc] at hr
    simp only [Prod.mk.injEq] at hr
    exact absurd hr.2.symm hnd

/-- the statistic of the state `shrinkFile` leaves is the one a reopen computes -/
theorem rz_shrink_stat {g : FileSt} {live : List Nat} {n : Nat} (he : ShrinkPre g live n)
    (hs : g.statData = g.openStat) : (g.resizeShrink0 n).1.statData = (g.resizeShrink0 n).1.openStat := by
  have h1 : EngInvR ({ g with alloc := { g.alloc with maxPages := n }, txid := g.txid + 1 } : FileSt) live := he.inv
  unfold FileSt.resizeShrink0 FileSt.releaseStep
  dsimp only
  split
  · cases hrt : ({ g with alloc := { g.alloc with maxPages := n }, txid := g.txid + 1 } : FileSt).releaseTx with
    | mk f2 res =>
      cases res
      · rw [rz_releaseTx_not_done _ f2 _ h1.wfr he.mlt hrt (by simp)]
        exact hs
      · rw [rz_releaseTx_not_done _ f2 _ h1.wfr he.mlt hrt (by simp)]
        exact hs
      · rfl
  · exact hs

/-- reopening the state `shrinkFile` leaves changes nothing -/
theorem rz_shrink_reopen {g : FileSt} {live : List Nat} {n : Nat} (he : ShrinkPre g live n)
    (hgap : g.alloc.mta.endMarker ≤ g.alloc.data.endMarker ∨ g.alloc.data.endMarker ≤ n) (hs : g.statData = g.openStat) (hn : 0 < n) :
    (g.resizeShrink0 n).1.reopenP = (g.resizeShrink0 n).1 :=
  rz_reopen_fix _ (engInvR_needAbsorb (rz_shrink_engInvR he hgap hn)) (rz_shrink_stat he hs)

theorem rz_openAt_stat (f : FileSt) (n d : Nat) : (f.openAt n d).statData = (f.openAt n d).openStat := by
  unfold FileSt.openAt
  rw [rz_reopen_openStat]; rfl

/-- reopening the state `Open` with a max-size update leaves changes nothing -/
theorem rz_resizeWith_reopen {f : FileSt} {live : List Nat} (he : EngInv f live) (k : RKind) (n : Nat)
    (hk : k.pre f n) :
    (f.resizeWith k n).1.reopenP = (f.resizeWith k n).1 := by
  cases k
  · exact rz_reopen_reopen f
  · exact rz_reopen_reopen _
  · exact rz_grow_reopen _ n (by rw [rz_reopen_openStat]; rfl)
  · obtain ⟨h1, h2, h3⟩ := hk
    rw [rz_resizeWith_shrink_eq he n]
    exact rz_shrink_reopen (rz_reopen_shrinkPre he n) (by rw [rz_reopen_alloc he.toR]; exact h3)
      (by rw [rz_reopen_openStat]; rfl) h2
  · obtain ⟨h1, h2⟩ := hk
    rw [rz_resizeWith_boundShrink_eq he n]
    exact rz_shrink_reopen (rz_openAt_shrinkPre he n) (by rw [rz_openAt_alloc he n]; exact h2)
      (rz_openAt_stat f n _) h1

/-! ### the extent of the file does not grow -/

theorem rz_releaseTx_extent (f : FileSt) (he : RelPre f.alloc)
    (hx : ∀ x ∈ f.alloc.mta.free, x < f.alloc.data.endMarker) :
    f.releaseTx.1.alloc.data.endMarker ≤ f.alloc.data.endMarker ∧
    f.releaseTx.1.alloc.mta.endMarker ≤ f.alloc.data.endMarker := by
  unfold FileSt.releaseTx
  dsimp only
  cases hc : fileCommitAlloc f.alloc (f.alloc.beginTx false 0) true with
  | none =>
    dsimp only
    rw [rz_rollback_fresh f.alloc he.wfr hx false 0]
    exact ⟨Nat.le_refl _, he.hme⟩
  | some r =>
    obtain ⟨a1, st1, cs⟩ := r
    dsimp only
    obtain ⟨hcs, hra⟩ := rz_release_alloc f.alloc a1 st1 cs he hc
    generalize cs.allocRegions = regs at hcs hra
    subst hcs
    have hde := hra.de
    have hme1 : a1.mta.endMarker ≤ a1.data.endMarker := by
      have := hra.ok2.noOv
      have := hra.ok.dEnd
      have e1 : (a1.wm f.alloc.data.endMarker).maxPages = f.alloc.data.endMarker := rfl
      have e2 : (a1.wm f.alloc.data.endMarker).mta.endMarker = a1.mta.endMarker := rfl
      have e3 : (a1.wm f.alloc.data.endMarker).data.endMarker = a1.data.endMarker := rfl
      omega
    obtain ⟨e1, e2⟩ := commitState_ends a1 st1 regs
    rw [rz_commit_eq]
    show (commitState a1 st1 regs).dataEnd ≤ f.alloc.data.endMarker ∧ (commitState a1 st1 regs).metaEnd ≤ f.alloc.data.endMarker
    omega

theorem rz_shrink_extent {g : FileSt} {live : List Nat} {n : Nat} (he : ShrinkPre g live n)
    (hgap : g.alloc.mta.endMarker ≤ g.alloc.data.endMarker ∨ g.alloc.data.endMarker ≤ n) (hn : 0 < n) :
    (g.resizeShrink0 n).1.alloc.data.endMarker ≤ g.alloc.data.endMarker ∧
    (g.resizeShrink0 n).1.alloc.mta.endMarker ≤ max g.alloc.data.endMarker g.alloc.mta.endMarker := by
  have h1 : EngInvR ({ g with alloc := { g.alloc with maxPages := n }, txid := g.txid + 1 } : FileSt) live := he.inv
  unfold FileSt.resizeShrink0 FileSt.releaseStep
  dsimp only
  split
  · rename_i hcan
    obtain ⟨hme, hfull⟩ := rz_can_hme he hgap hcan
    have hpre : RelPre ({ g with alloc := { g.alloc with maxPages := n }, txid := g.txid + 1 } : FileSt).alloc :=
      ⟨h1.wfr, hme, hn, hfull, he.ends⟩
    have h2 := rz_releaseTx_extent _ hpre he.mlt
    have h3 : ({ g with alloc := { g.alloc with maxPages := n }, txid := g.txid + 1 } : FileSt).alloc.data.endMarker = g.alloc.data.endMarker := rfl
    rw [h3] at h2
    generalize ({ g with alloc := { g.alloc with maxPages := n }, txid := g.txid + 1 } : FileSt).releaseTx = r at h2
    obtain ⟨f2, res⟩ := r
    cases res <;> exact ⟨h2.1, Nat.le_trans h2.2 (Nat.le_max_left _ _)⟩
  · exact ⟨Nat.le_refl _, Nat.le_max_right _ _⟩

/-- the end markers after the update never lie above the larger of the end markers before (invariant states:
    nothing is absorbed, the release only lowers them) -/
theorem rz_resizeWith_extent {f : FileSt} {live : List Nat} (he : EngInv f live) (k : RKind) (n : Nat)
    (hk : k.pre f n) :
    (f.resizeWith k n).1.alloc.data.endMarker ≤ max f.alloc.data.endMarker f.alloc.mta.endMarker ∧
    (f.resizeWith k n).1.alloc.mta.endMarker ≤ max f.alloc.data.endMarker f.alloc.mta.endMarker := by
  cases k
  · show f.reopenP.alloc.data.endMarker ≤ _ ∧ f.reopenP.alloc.mta.endMarker ≤ _
    rw [rz_reopen_alloc he.toR]; omega
  · show (f.openAt n f.alloc.data.endMarker).alloc.data.endMarker ≤ _ ∧ (f.openAt n f.alloc.data.endMarker).alloc.mta.endMarker ≤ _
    rw [rz_openAt_alloc he n]
    show f.alloc.data.endMarker ≤ _ ∧ f.alloc.mta.endMarker ≤ _
    omega
  · show (f.reopenP.resizeGrow n).alloc.data.endMarker ≤ _ ∧ (f.reopenP.resizeGrow n).alloc.mta.endMarker ≤ _
    rw [rz_grow_eq (rz_reopen_engInv he) n]
    show f.reopenP.alloc.data.endMarker ≤ _ ∧ f.reopenP.alloc.mta.endMarker ≤ _
    rw [rz_reopen_alloc he.toR]; omega
  · obtain ⟨k1, k2, k3⟩ := hk
    have h2 := rz_shrink_extent (rz_reopen_shrinkPre he n) (by rw [rz_reopen_alloc he.toR]; exact k3) k2
    rw [rz_reopen_alloc he.toR] at h2
    rw [rz_resizeWith_shrink_eq he n]
    omega
  · obtain ⟨k1, k2⟩ := hk
    have h2 := rz_shrink_extent (rz_openAt_shrinkPre he n) (by rw [rz_openAt_alloc he n]; exact k2) k1
    rw [rz_openAt_alloc he n] at h2
    have h3 : ({ f.alloc with maxPages := n } : Alloc).data.endMarker = f.alloc.data.endMarker := rfl
    have h4 : ({ f.alloc with maxPages := n } : Alloc).mta.endMarker = f.alloc.mta.endMarker := rfl
    rw [h3, h4] at h2
    rw [rz_resizeWith_boundShrink_eq he n]
    omega

/-! ### the release is maximal for the data area -/

theorem rz_releaseTx_done (f f2 : FileSt) (he : RelPre f.alloc) (hr : f.releaseTx = (f2, .done)) :
    ∃ a1 st1 regs, RelAlloc f.alloc a1 st1 regs ∧ a1.mta.endMarker ≤ a1.data.endMarker ∧
      f2.alloc = a1.commit (commitState a1 st1 regs) := by
  unfold FileSt.releaseTx at hr
  dsimp only at hr
  cases hc : fileCommitAlloc f.alloc (f.alloc.beginTx false 0) true with
  | none => rw [hc] at hr; simp at hr
  | some r =>
    obtain ⟨a1, st1, cs⟩ := r
    rw [hc] at hr
    simp only [Prod.mk.injEq, and_true] at hr
    subst hr
    obtain ⟨hcs, hra⟩ := rz_release_alloc f.alloc a1 st1 cs he hc
    generalize cs.allocRegions = regs at hcs hra
    subst hcs
    refine ⟨a1, st1, regs, hra, ?_, rfl⟩
    have hde := hra.de
    have := hra.ok2.noOv
    have := hra.ok.dEnd
    have e1 : (a1.wm f.alloc.data.endMarker).maxPages = f.alloc.data.endMarker := rfl
    have e2 : (a1.wm f.alloc.data.endMarker).mta.endMarker = a1.mta.endMarker := rfl
    have e3 : (a1.wm f.alloc.data.endMarker).data.endMarker = a1.data.endMarker := rfl
    omega

/-- after a successful release transaction the last free region of the data area does not end at the data
    end marker any more, or the data end marker is within the limit: nothing more can be released there -/
theorem rz_releaseTx_maximal (f f2 : FileSt) (he : RelPre f.alloc) (hr : f.releaseTx = (f2, .done)) :
    canRelease f2.alloc.data f.alloc.maxPages = false := by
  obtain ⟨a1, st1, regs, hra, hme1, hf2⟩ := rz_releaseTx_done f f2 he hr
  have e1 := rz_dataEnd1 a1 st1 hme1
  have eD : dataRel a1 st1 = releaseOverflow a1.data.free a1.maxPages a1.data.endMarker := by
    unfold dataRel; rw [e1, hra.fd, unionIds_nil_left]
  have hdata : f2.alloc.data = { endMarker := a1.data.endMarker - (releaseOverflow a1.data.free a1.maxPages a1.data.endMarker).2,
                                 free := (releaseOverflow a1.data.free a1.maxPages a1.data.endMarker).1 } := by
    rw [hf2, rz_commit_eq, commitState_eq]
    dsimp only
    rw [e1, eD]
  obtain ⟨-, h2, -, h4⟩ := releaseOverflow_decomp a1.data.free a1.maxPages a1.data.endMarker
  have hmx := hra.mx
  cases hcan : canRelease f2.alloc.data f.alloc.maxPages with
  | false => rfl
  | true =>
    exfalso
    rw [hdata] at hcan
    simp only [canRelease, Bool.and_eq_true, beq_iff_eq, decide_eq_true_eq] at hcan
    obtain ⟨hl, hlt⟩ := hcan
    unfold lastEnd at hl
    cases hg : (releaseOverflow a1.data.free a1.maxPages a1.data.endMarker).1.getLast? with
    | none => rw [hg] at hl; dsimp only at hl; omega
    | some y =>
      rw [hg] at hl
      dsimp only at hl
      obtain ⟨ys, hys⟩ := List.getLast?_eq_some_iff.mp hg
      have hpos := he.pos
      exact h4 (by omega) y ys hys ⟨hl, by omega⟩

theorem rz_shrink_maximal {g : FileSt} {live : List Nat} {n : Nat} (he : ShrinkPre g live n)
    (hgap : g.alloc.mta.endMarker ≤ g.alloc.data.endMarker ∨ g.alloc.data.endMarker ≤ n) (hn : 0 < n)
    (hd : (g.resizeShrink0 n).2 = .done) : canRelease (g.resizeShrink0 n).1.alloc.data n = false := by
  have h1 : EngInvR ({ g with alloc := { g.alloc with maxPages := n }, txid := g.txid + 1 } : FileSt) live := he.inv
  unfold FileSt.resizeShrink0 FileSt.releaseStep at hd ⊢
  dsimp only at hd ⊢
  split at hd
  · rename_i hcan
    rw [if_pos hcan]
    obtain ⟨hme, hfull⟩ := rz_can_hme he hgap hcan
    have hpre : RelPre ({ g with alloc := { g.alloc with maxPages := n }, txid := g.txid + 1 } : FileSt).alloc :=
      ⟨h1.wfr, hme, hn, hfull, he.ends⟩
    cases hrt : ({ g with alloc := { g.alloc with maxPages := n }, txid := g.txid + 1 } : FileSt).releaseTx with
    | mk f2 res =>
      rw [hrt] at hd
      cases res
      · cases hd
      · cases hd
      · exact rz_releaseTx_maximal _ f2 hpre hrt
  · cases hd

/-! ### opening again from the header the update leaves -/

/-- opening a state with its own limit and data end marker is reopening it -/
theorem rz_openAt_self (F : FileSt) (m : Nat) (h : m = F.alloc.maxPages) :
    F.openAt m F.alloc.data.endMarker = F.reopenP := by
  subst h; rfl

/-- after an update transaction the header carries the limit and the data end marker of the updating instance:
    an instance opened from it is that instance reopened -/
theorem rz_from_header (f : FileSt) (k : RKind) (n d0 : Nat) (hk : k = .grow ∨ k = .shrink ∨ k = .boundShrink) :
    (f.resizeWith k n).1.openAt n (hdrDataEndAfter d0 k (f.resizeWith k n)) = (f.resizeWith k n).1.reopenP := by
  have hm := rz_resizeWith_max f k n
  rcases hk with rfl | rfl | rfl
  · exact rz_openAt_self _ n hm.symm
  · exact rz_openAt_self _ n hm.symm
  · exact rz_openAt_self _ n hm.symm

theorem rz_shrink_not_done {g : FileSt} {live : List Nat} {n : Nat} (he : ShrinkPre g live n)
    (hnd : (g.resizeShrink0 n).2 ≠ .done) :
    (g.resizeShrink0 n).1 = { g with alloc := { g.alloc with maxPages := n }, txid := g.txid + 1 } := by
  have h1 : EngInvR ({ g with alloc := { g.alloc with maxPages := n }, txid := g.txid + 1 } : FileSt) live := he.inv
  unfold FileSt.resizeShrink0 FileSt.releaseStep at hnd ⊢
  dsimp only at hnd ⊢
  split
  · rename_i hcan
    rw [if_pos hcan] at hnd
    cases hrt : ({ g with alloc := { g.alloc with maxPages := n }, txid := g.txid + 1 } : FileSt).releaseTx with
    | mk f2 res =>
      rw [hrt] at hnd
      cases res
      · exact rz_releaseTx_not_done _ f2 _ h1.wfr he.mlt hrt (by simp)
      · exact rz_releaseTx_not_done _ f2 _ h1.wfr he.mlt hrt (by simp)
      · exact absurd rfl hnd
  · rfl

theorem rz_releaseTx_ran (f : FileSt) : f.releaseTx.2 ≠ .notRun := by
  unfold FileSt.releaseTx
  dsimp only
  split <;> simp

/-- `shrinkFile` without release transaction leaves the state after `initTxMaxSize` (no invariant) -/
theorem rz_shrinkNew_notRun (g : FileSt) (n : Nat) (h : (g.resizeShrink n).2 = .notRun) :
    (g.resizeShrink n).1 = g.limitTx n := by
  unfold FileSt.resizeShrink FileSt.releaseStep at h ⊢
  split
  · rename_i hcan
    rw [if_pos hcan] at h
    have hr := rz_releaseTx_ran (g.limitTx n)
    generalize (g.limitTx n).releaseTx = r at h hr
    obtain ⟨f2, res⟩ := r
    cases res
    · exact absurd rfl hr
    · cases h
    · cases h
  · rfl

/-- … which is a fixed point of reopening, for EVERY state whose statistic is the one `reportOpen` computes -/
theorem rz_shrinkNew_notRun_reopen (g : FileSt) (n : Nat) (hs : g.statData = g.openStat)
    (h : (g.resizeShrink n).2 = .notRun) : (g.resizeShrink n).1.reopenP = (g.resizeShrink n).1 := by
  rw [rz_shrinkNew_notRun g n h]
  exact rz_grow_reopen g n hs

/-! ### the txid -/

theorem rz_releaseTx_txid (f : FileSt) : f.txid ≤ f.releaseTx.1.txid := by
  unfold FileSt.releaseTx
  dsimp only
  split
  · exact Nat.le_refl _
  · exact Nat.le_succ _

/-- `shrinkFile` commits at least the header-only transaction -/
theorem rz_shrink_txid (g : FileSt) (n : Nat) : g.txid + 1 ≤ (g.resizeShrink0 n).1.txid := by
  unfold FileSt.resizeShrink0 FileSt.releaseStep
  dsimp only
  split
  · have hf := rz_releaseTx_txid ({ g with alloc := { g.alloc with maxPages := n }, txid := g.txid + 1 } : FileSt)
    generalize ({ g with alloc := { g.alloc with maxPages := n }, txid := g.txid + 1 } : FileSt).releaseTx = r at hf
    obtain ⟨f2, res⟩ := r
    cases res <;> exact hf
  · exact Nat.le_refl _

/-! ### no meta page in front of the data area -/

/-- under the relaxed invariant no meta page (free or in use) lies at or behind the data end marker and in front
    of the limit: a growing data area runs into none -/
theorem rz_no_collision {F : FileSt} {live : List Nat} (h : EngInvR F live) (p : Nat) (hp : p ∈ F.metaPages) :
    ¬ (F.alloc.data.endMarker ≤ p ∧ (F.alloc.maxPages = 0 ∨ p < F.alloc.maxPages)) := by
  have := (engInvR_metaPages h p hp).2
  omega

/-- the same right after `absorbP`, for ANY state whose meta pages lie below the meta end marker (no invariant:
    this is what the absorb rule is for, also with an overflow area in use) -/
theorem rz_absorbP_no_collision (f : FileSt) (hm : ∀ p ∈ f.metaPages, p < f.alloc.mta.endMarker) (p : Nat)
    (hp : p ∈ f.absorbP.metaPages) :
    ¬ (f.absorbP.alloc.data.endMarker ≤ p ∧ (f.absorbP.alloc.maxPages = 0 ∨ p < f.absorbP.alloc.maxPages)) := by
  have h0 := absorbP_needAbsorb f
  have hmp := absorbP_metaPages f
  have hme : f.absorbP.alloc.mta = f.alloc.mta := (absorbP_keeps f).2.1
  rw [hmp] at hp
  have hlt := hm p hp
  intro hc
  have : f.absorbP.needAbsorb = true := by
    rw [needAbsorb_iff, hmp, hme]
    exact ⟨by omega, p, hp, hc.1, hlt, hc.2⟩
  rw [h0] at this
  cases this

/-! ### `growFile` on an arbitrary state (no invariant: an overflow area may be in use) -/

theorem absorbP_de_cases (f : FileSt) :
    f.alloc.data.endMarker ≤ f.absorbP.alloc.data.endMarker ∧
    (f.absorbP.alloc.data.endMarker = f.alloc.data.endMarker ∨ f.absorbP.alloc.data.endMarker = f.alloc.mta.endMarker) := by
  refine ⟨(absorbP_max f).2, ?_⟩
  rcases (absorbP_keeps f).2.2.2.2.2.2.2.2.2.2.2.2 with ⟨-, he⟩ | ⟨-, -, hde⟩
  · left; rw [he]
  · right; exact hde

/-- what `Open` with a raised / removed limit leaves of the allocator: free lists, meta area and limit as
    expected; the data end marker is the old one or the meta end marker -/
theorem rz_grow_fields (f : FileSt) (n : Nat) :
    (f.reopenP.resizeGrow n).alloc.data.free = f.alloc.data.free ∧
    (f.reopenP.resizeGrow n).alloc.mta = f.alloc.mta ∧
    (f.reopenP.resizeGrow n).alloc.metaTotal = f.alloc.metaTotal ∧
    (f.reopenP.resizeGrow n).alloc.maxPages = n ∧
    f.alloc.data.endMarker ≤ (f.reopenP.resizeGrow n).alloc.data.endMarker ∧
    ((f.reopenP.resizeGrow n).alloc.data.endMarker = f.alloc.data.endMarker ∨
     (f.reopenP.resizeGrow n).alloc.data.endMarker = f.alloc.mta.endMarker) := by
  obtain ⟨a1, a2, a3, -⟩ := absorbP_keeps f
  obtain ⟨b1, b2, b3, -⟩ :=
    absorbP_keeps ({ f.reopenP with alloc := { f.reopenP.alloc with maxPages := n }, txid := f.reopenP.txid + 1 } : FileSt)
  obtain ⟨c1, c2⟩ := absorbP_de_cases f
  obtain ⟨d1, d2⟩ :=
    absorbP_de_cases ({ f.reopenP with alloc := { f.reopenP.alloc with maxPages := n }, txid := f.reopenP.txid + 1 } : FileSt)
  have e1 : ({ f.reopenP with alloc := { f.reopenP.alloc with maxPages := n }, txid := f.reopenP.txid + 1 } : FileSt).alloc.data.endMarker =
      f.absorbP.alloc.data.endMarker := rfl
  have e2 : ({ f.reopenP with alloc := { f.reopenP.alloc with maxPages := n }, txid := f.reopenP.txid + 1 } : FileSt).alloc.mta =
      f.absorbP.alloc.mta := rfl
  rw [e1] at d1 d2
  rw [e2, a2] at d2
  refine ⟨?_, ?_, ?_, rz_grow_max _ n, Nat.le_trans c1 d1, ?_⟩
  · show ({ f.reopenP with alloc := { f.reopenP.alloc with maxPages := n }, txid := f.reopenP.txid + 1 } : FileSt).absorbP.alloc.data.free = _
    rw [b1]; exact a1
  · show ({ f.reopenP with alloc := { f.reopenP.alloc with maxPages := n }, txid := f.reopenP.txid + 1 } : FileSt).absorbP.alloc.mta = _
    rw [b2]; exact a2
  · show ({ f.reopenP with alloc := { f.reopenP.alloc with maxPages := n }, txid := f.reopenP.txid + 1 } : FileSt).absorbP.alloc.metaTotal = _
    rw [b3]; exact a3
  · show ({ f.reopenP with alloc := { f.reopenP.alloc with maxPages := n }, txid := f.reopenP.txid + 1 } : FileSt).absorbP.alloc.data.endMarker = _ ∨
      ({ f.reopenP with alloc := { f.reopenP.alloc with maxPages := n }, txid := f.reopenP.txid + 1 } : FileSt).absorbP.alloc.data.endMarker = _
    rcases d2 with d2 | d2
    · rcases c2 with c2 | c2
      · left; rw [d2, c2]
      · right; rw [d2, c2]
    · right; exact d2


theorem rz_releaseStep_txid (f1 : FileSt) (n : Nat) : f1.txid ≤ (f1.releaseStep n).1.txid := by
  unfold FileSt.releaseStep
  split
  · have hf := rz_releaseTx_txid f1
    generalize f1.releaseTx = r at hf
    obtain ⟨f2, res⟩ := r
    cases res <;> exact hf
  · exact Nat.le_refl _

/-- `shrinkFile` commits at least the header-only transaction (no invariant) -/
theorem rz_shrinkNew_txid (g : FileSt) (n : Nat) : g.txid + 1 ≤ (g.resizeShrink n).1.txid := by
  have h1 := rz_releaseStep_txid (g.limitTx n) n
  have h2 : (g.limitTx n).txid = g.txid + 1 :=
    (absorbP_keeps ({ g with alloc := { g.alloc with maxPages := n }, txid := g.txid + 1 } : FileSt)).2.2.2.2.2.2.2.2.2.2.1
  rw [h2] at h1
  exact h1

end TxVerif
