/-
  Helper lemmas for C14 at engine level (Props/C14Engine.lean): the open-time maximum-size update
  `FileSt.resizeWith` (Model/Resize.lean) and the invariant of committed states.

  * `EngInvR`: `EngInv` without the three clauses that speak about the page limit and the relative
    position of the end markers (`wf.limit`, `noOv`, `ends`). These can not hold after a shrink that
    leaves pages in use beyond the new limit; everything that protects the data does.
  * grow / unbound / plain open keep `EngInv` itself.
  * the release transaction of a shrink (`initTxReleaseRegions`) runs with the data end marker at or
    beyond the new limit: the allocator behaves exactly as if the limit were the data end marker
    (`rz_*_subst`), which lets the frame lemmas of Proofs/Refine.lean be reused.
-/
import TxVerif.Model.Resize
import TxVerif.Proofs.RefineReopen
import TxVerif.Props.C14
import TxVerif.Props.C14Release
namespace TxVerif

/-! ### the relaxed invariant -/

/-- `WF` without the limit clause -/
structure WFR (a : Alloc) : Prop where
  ascData : Asc a.data.free
  ascMeta : Asc a.mta.free
  dataRange : ∀ x ∈ a.data.free, 2 ≤ x ∧ x < a.data.endMarker
  metaRange : ∀ x ∈ a.mta.free, 2 ≤ x ∧ x < a.mta.endMarker ∧
    (x < a.data.endMarker ∨ (0 < a.maxPages ∧ a.maxPages ≤ x))
  disj : ∀ x ∈ a.data.free, x ∉ a.mta.free
  dataEnd : 2 ≤ a.data.endMarker
  total : a.mta.free.length ≤ a.metaTotal

/-- the invariant of a committed state without the clauses about the page limit (`wf.limit`, `noOv`)
    and the order of the end markers (`ends`) -/
structure EngInvR (f : FileSt) (live : List Nat) : Prop where
  wfr : WFR f.alloc
  keys : AscKeys f.walMap
  liveOk : ∀ id ∈ live, 2 ≤ id ∧ id < f.alloc.data.endMarker ∧ InUse f.alloc id
  mapKey : ∀ k w, Assoc.get? f.walMap k = some w → k ∈ live
  mapInj : ∀ k1 k2 w, Assoc.get? f.walMap k1 = some w → Assoc.get? f.walMap k2 = some w → k1 = k2
  intOk : ∀ x ∈ f.internal, 2 ≤ x ∧ InUse f.alloc x ∧ x ∉ live
  intNodup : f.internal.Nodup
  total : f.alloc.mta.free.length + f.internal.length ≤ f.alloc.metaTotal

theorem WF.toWFR {a : Alloc} (h : WF a) : WFR a :=
  ⟨h.ascData, h.ascMeta, h.dataRange, h.metaRange, h.disj, h.dataEnd, h.total⟩

theorem EngInv.toR {f : FileSt} {live : List Nat} (h : EngInv f live) : EngInvR f live :=
  ⟨h.wf.toWFR, h.keys, h.liveOk, h.mapKey, h.mapInj, h.intOk, h.intNodup, h.total⟩

/-- with the three clauses about the limit the relaxed invariant is the invariant -/
theorem EngInvR.toEngInv {f : FileSt} {live : List Nat} (h : EngInvR f live)
    (hl : f.alloc.maxPages = 0 ∨ f.alloc.data.endMarker ≤ f.alloc.maxPages)
    (hn : f.alloc.maxPages = 0 ∨ f.alloc.mta.endMarker ≤ f.alloc.maxPages)
    (he : f.alloc.data.endMarker ≤ f.alloc.mta.endMarker ∨ f.alloc.data.endMarker ≤ 2) : EngInv f live :=
  ⟨⟨h.wfr.ascData, h.wfr.ascMeta, h.wfr.dataRange, h.wfr.metaRange, h.wfr.disj, h.wfr.dataEnd, hl, h.wfr.total⟩,
    he, h.keys, h.liveOk, h.mapKey, h.mapInj, h.intOk, h.intNodup, h.total, hn⟩

/-- the relaxed invariant does not mention the statistic, the txid, the disk or the root -/
theorem engInvR_congr {f f' : FileSt} {live : List Nat} (h : EngInvR f live)
    (ha : f'.alloc = f.alloc) (hm : f'.walMap = f.walMap) (hw : f'.walPages = f.walPages) : EngInvR f' live := by
  have hi : f'.internal = f.internal := by unfold FileSt.internal; rw [ha, hm, hw]
  exact ⟨ha ▸ h.wfr, hm ▸ h.keys, ha ▸ h.liveOk, hm ▸ h.mapKey, hm ▸ h.mapInj, by rw [hi, ha]; exact h.intOk,
    hi ▸ h.intNodup, by rw [hi, ha]; exact h.total⟩

/-- in-use is monotone in the allocator as long as the free lists do not grow, the meta end marker
    does not fall below the page and the last clause is kept -/
theorem inUse_of {a a' : Alloc} {x : Nat} (h : InUse a x) (hd : x ∈ a'.data.free → x ∈ a.data.free)
    (hm : x ∈ a'.mta.free → x ∈ a.mta.free) (he : x < a'.mta.endMarker)
    (h4 : x < a'.data.endMarker ∨ (0 < a'.maxPages ∧ a'.maxPages ≤ x)) : InUse a' x :=
  ⟨fun c => h.1 (hd c), fun c => h.2.1 (hm c), he, h4⟩

/-! ### the state `Open` reads: `FileSt.reopen` / `FileSt.openAt` -/

theorem rz_reopen_alloc (f : FileSt) : f.reopen.alloc = f.alloc.absorbOverflow := rfl
theorem rz_reopen_walMap (f : FileSt) : f.reopen.walMap = f.walMap := rfl
theorem rz_reopen_walPages (f : FileSt) : f.reopen.walPages = f.walPages := rfl
theorem rz_reopen_disk (f : FileSt) : f.reopen.disk = f.disk := rfl
theorem rz_reopen_root (f : FileSt) : f.reopen.root = f.root := rfl
theorem rz_reopen_txid (f : FileSt) : f.reopen.txid = f.txid := rfl

/-- after reading the header of a bounded file in a state satisfying the invariant, the data end marker
    is not below the meta end marker -/
theorem rz_reopen_ends {f : FileSt} {live : List Nat} (h : EngInv f live) (hm : 0 < f.alloc.maxPages) :
    f.reopen.alloc.mta.endMarker ≤ f.reopen.alloc.data.endMarker := by
  rw [rz_reopen_alloc]
  have h1 := h.noOv
  have h2 := h.wf.limit
  unfold Alloc.absorbOverflow
  split
  · exact Nat.le_refl _
  · rename_i hc
    show f.alloc.mta.endMarker ≤ f.alloc.data.endMarker
    omega

/-- without an overflow area in use, a page in use lies below the data end marker -/
theorem rz_inUse_lt {f : FileSt} {live : List Nat} (h : EngInv f live) {x : Nat} (hu : InUse f.alloc x) :
    x < f.alloc.data.endMarker := by
  have := h.noOv
  have := hu.2.2.1
  have := hu.2.2.2
  omega

/-- setting another limit keeps the relaxed invariant (whatever the new limit is) -/
theorem rz_setMax_engInvR {f : FileSt} {live : List Nat} (h : EngInv f live) (n : Nat) (f' : FileSt)
    (ha : f'.alloc = { f.alloc with maxPages := n }) (hm : f'.walMap = f.walMap) (hw : f'.walPages = f.walPages) :
    EngInvR f' live := by
  have hi : f'.internal = f.internal := by unfold FileSt.internal; rw [ha, hm, hw]
  have hu : ∀ x, InUse f.alloc x → InUse f'.alloc x := by
    intro x hx
    rw [ha]
    exact ⟨hx.1, hx.2.1, hx.2.2.1, Or.inl (rz_inUse_lt h hx)⟩
  refine ⟨?_, hm ▸ h.keys, ?_, hm ▸ h.mapKey, hm ▸ h.mapInj, ?_, hi ▸ h.intNodup, ?_⟩
  · rw [ha]
    refine ⟨h.wf.ascData, h.wf.ascMeta, h.wf.dataRange, ?_, h.wf.disj, h.wf.dataEnd, h.wf.total⟩
    intro x hx
    have h1 := h.wf.metaRange x hx
    have h2 := h.noOv
    refine ⟨h1.1, h1.2.1, Or.inl ?_⟩
    show x < f.alloc.data.endMarker
    omega
  · intro id hid
    obtain ⟨a, b, c⟩ := h.liveOk id hid
    exact ⟨a, by rw [ha]; exact b, hu id c⟩
  · intro x hx
    rw [hi] at hx
    obtain ⟨a, b, c⟩ := h.intOk x hx
    exact ⟨a, hu x b, c⟩
  · rw [hi, ha]; exact h.total

/-- raising or removing the limit of a bounded file keeps the invariant -/
theorem rz_setMax_engInv {f : FileSt} {live : List Nat} (h : EngInv f live) (n : Nat)
    (hn : n = 0 ∨ (0 < f.alloc.maxPages ∧ f.alloc.maxPages ≤ n)) (f' : FileSt)
    (ha : f'.alloc = { f.alloc with maxPages := n }) (hm : f'.walMap = f.walMap) (hw : f'.walPages = f.walPages) :
    EngInv f' live := by
  have hr := rz_setMax_engInvR h n f' ha hm hw
  have h1 := h.wf.limit
  have h2 := h.noOv
  have h3 := h.ends
  apply hr.toEngInv
  all_goals rw [ha]
  · show n = 0 ∨ f.alloc.data.endMarker ≤ n
    omega
  · show n = 0 ∨ f.alloc.mta.endMarker ≤ n
    omega
  · exact h3

/-- `absorbOverflow` (with the statistic recomputed) keeps the relaxed invariant -/
theorem rz_reopen_engInvR {f : FileSt} {live : List Nat} (h : EngInvR f live) : EngInvR f.reopen live := by
  obtain ⟨k1, k2, k3, k4, k5, k6⟩ := absorb_keeps f.alloc
  have ea : f.reopen.alloc = f.alloc.absorbOverflow := rfl
  have ei : f.reopen.internal = f.internal := by
    unfold FileSt.internal; rw [ea, k5]; rfl
  refine ⟨⟨?_, ?_, ?_, ?_, ?_, ?_, ?_⟩, h.keys, ?_, h.mapKey, h.mapInj, ?_, ei ▸ h.intNodup, ?_⟩
  · rw [ea, k1]; exact h.wfr.ascData
  · rw [ea, k2]; exact h.wfr.ascMeta
  · rw [ea, k1]; intro x hx; have := h.wfr.dataRange x hx; omega
  · rw [ea, k2, k4]; intro x hx; have := h.wfr.metaRange x hx; omega
  · rw [ea, k1, k2]; exact h.wfr.disj
  · rw [ea]; have := h.wfr.dataEnd; omega
  · rw [ea, k2, k3]; exact h.wfr.total
  · intro id hid
    obtain ⟨a, b, c⟩ := h.liveOk id hid
    exact ⟨a, by rw [ea]; omega, inUse_absorb _ _ c⟩
  · intro x hx
    rw [ei] at hx
    obtain ⟨a, b, c⟩ := h.intOk x hx
    exact ⟨a, inUse_absorb _ _ b, c⟩
  · rw [ei, ea, k2, k3]; exact h.total

/-- `doGrowFile` keeps the invariant -/
theorem rz_grow_engInv {f : FileSt} {live : List Nat} (h : EngInv f live) (n : Nat)
    (hn : n = 0 ∨ (0 < f.alloc.maxPages ∧ f.alloc.maxPages ≤ n)) : EngInv (f.resizeGrow n) live := by
  have h1 : EngInv ({ f with alloc := { f.alloc with maxPages := n } } : FileSt) live :=
    rz_setMax_engInv h n hn _ rfl rfl rfl
  exact engInv_congr (engInv_reopen h1) rfl rfl rfl

/-- `doGrowFile` with any new limit keeps the relaxed invariant -/
theorem rz_grow_engInvR {f : FileSt} {live : List Nat} (h : EngInv f live) (n : Nat) :
    EngInvR (f.resizeGrow n) live := by
  have h1 : EngInvR ({ f with alloc := { f.alloc with maxPages := n } } : FileSt) live :=
    rz_setMax_engInvR h n _ rfl rfl rfl
  exact engInvR_congr (rz_reopen_engInvR h1) rfl rfl rfl

/-- `FileSt.openAt` with the data end marker of the state keeps the relaxed invariant -/
theorem rz_openAt_engInvR {f : FileSt} {live : List Nat} (h : EngInv f live) (n : Nat) :
    EngInvR (f.openAt n f.alloc.data.endMarker) live := by
  have h1 : EngInvR ({ f with alloc := { f.alloc with maxPages := n, data := { f.alloc.data with endMarker := f.alloc.data.endMarker } } } : FileSt) live :=
    rz_setMax_engInvR h n _ rfl rfl rfl
  exact rz_reopen_engInvR h1

/-! ### no room at the end of the file: the allocator does not look at the exact limit

  In the release transaction of a shrink the data end marker lies at or beyond the (new) limit.
  Then no page can be taken from the end of the file, and every allocator operation of a transaction
  that does not use the overflow area computes the same result for every other limit `m` with
  `0 < m ≤ data.endMarker` — in particular for `m = data.endMarker`, for which `AOK.limit` holds. -/

/-- the allocator with another limit -/
def Alloc.wm (a : Alloc) (m : Nat) : Alloc := { a with maxPages := m }

/-- no room at the end of the file, for the limit of `a` and for the limit `m` -/
structure NoRoom (a : Alloc) (m : Nat) : Prop where
  pos : 0 < a.maxPages
  full : a.maxPages ≤ a.data.endMarker
  mpos : 0 < m
  mfull : m ≤ a.data.endMarker

theorem rz_dataAvail_full (a : Alloc) (hp : 0 < a.maxPages) (hf : a.maxPages ≤ a.data.endMarker) :
    a.dataAvail = a.data.free.length := by
  unfold Alloc.dataAvail
  rw [if_neg (by omega), if_neg (by omega)]
  rfl

theorem rz_dataAvail_subst (a : Alloc) (m : Nat) (h : NoRoom a m) : (a.wm m).dataAvail = a.dataAvail := by
  rw [rz_dataAvail_full a h.pos h.full, rz_dataAvail_full (a.wm m) h.mpos h.mfull]
  rfl

theorem rz_bump_subst (a : Alloc) (m : Nat) : bumpMetaEnd (a.wm m) = (bumpMetaEnd a).wm m := by
  unfold bumpMetaEnd Alloc.wm
  split <;> rfl

/-- result triple with another limit -/
def wmR (m : Nat) (r : Alloc × TxAlloc × List Nat) : Alloc × TxAlloc × List Nat := (r.1.wm m, r.2.1, r.2.2)

theorem rz_regions_subst (a : Alloc) (st : TxAlloc) (k m : Nat) (h : NoRoom a m) :
    dataAllocRegions (a.wm m) st k = (dataAllocRegions a st k).map (wmR m) := by
  unfold dataAllocRegions
  rw [rz_dataAvail_subst a m h]
  by_cases hav : a.dataAvail < k
  · rw [if_pos hav, if_pos hav]; rfl
  · rw [if_neg hav, if_neg hav]
    simp only [Option.map_some, wmR]
    have key : ∀ (de : Nat) (fr : List Nat), bumpMetaEnd (({ a with data := { endMarker := de, free := fr } } : Alloc).wm m) = (bumpMetaEnd ({ a with data := { endMarker := de, free := fr } } : Alloc)).wm m :=
      fun de fr => rz_bump_subst _ m
    by_cases hrest : k - min k a.data.free.length > 0
    · have hrest' : k - min k (a.wm m).data.free.length > 0 := hrest
      rw [if_pos hrest, if_pos hrest']
      exact congrArg (fun x => some (x, _, _)) (key _ _)
    · have hrest' : ¬ k - min k (a.wm m).data.free.length > 0 := hrest
      rw [if_neg hrest, if_neg hrest']
      rfl

theorem rz_regions_keeps (a : Alloc) (st : TxAlloc) (k : Nat) (a' : Alloc) (st' : TxAlloc) (ids : List Nat)
    (hp : 0 < a.maxPages) (hf : a.maxPages ≤ a.data.endMarker)
    (hr : dataAllocRegions a st k = some (a', st', ids)) :
    a'.data.endMarker = a.data.endMarker ∧ a'.maxPages = a.maxPages := by
  obtain ⟨j, rest, h1, h2, h3, h4, -, -, -, e2, -, -, e5, -⟩ := dataAllocRegions_spec a st k a' st' ids hr
  refine ⟨?_, e5⟩
  rw [e2]
  omega

theorem wm_data (a : Alloc) (m : Nat) : (a.wm m).data = a.data := rfl
theorem wm_mta (a : Alloc) (m : Nat) : (a.wm m).mta = a.mta := rfl
theorem wm_maxPages (a : Alloc) (m : Nat) : (a.wm m).maxPages = m := rfl
theorem wm_metaTotal (a : Alloc) (m : Nat) : (a.wm m).metaTotal = a.metaTotal := rfl
theorem wm_pageSize (a : Alloc) (m : Nat) : (a.wm m).pageSize = a.pageSize := rfl
theorem wm_freelistPages (a : Alloc) (m : Nat) : (a.wm m).freelistPages = a.freelistPages := rfl
theorem wm_self (a : Alloc) : a.wm a.maxPages = a := rfl
theorem wm_wm (a : Alloc) (m k : Nat) : (a.wm m).wm k = a.wm k := rfl

theorem rz_continuous_subst (a : Alloc) (st : TxAlloc) (k m : Nat) (h : NoRoom a m) :
    dataAllocContinuous (a.wm m) st k = (dataAllocContinuous a st k).map (wmR m) := by
  unfold dataAllocContinuous
  rw [rz_dataAvail_subst a m h]
  by_cases hav : a.dataAvail < k
  · rw [if_pos hav, if_pos hav]; rfl
  · rw [if_neg hav, if_neg hav]
    rw [wm_data]
    cases hc : allocContinuous a.data.free k with
    | some p =>
      obtain ⟨taken, rest⟩ := p
      rfl
    | none =>
      have hp := h.pos
      have hf := h.full
      have hmp := h.mpos
      have hmf := h.mfull
      dsimp only
      rw [wm_maxPages]
      rw [if_neg (show ¬ a.data.endMarker < m by omega), if_neg (show ¬ a.data.endMarker < a.maxPages by omega)]
      by_cases hk : 0 < k
      · rw [if_pos ⟨hmp, hk⟩, if_pos ⟨hp, hk⟩]; rfl
      · rw [if_neg (fun c => hk c.2), if_neg (fun c => hk c.2)]
        simp only [Option.map_some, wmR]
        have key : ∀ (d : Area), bumpMetaEnd (({ a with data := d } : Alloc).wm m) = (bumpMetaEnd ({ a with data := d } : Alloc)).wm m :=
          fun d => rz_bump_subst _ m
        exact congrArg (fun x => some (x, _, _)) (key _)

theorem rz_continuous_keeps (a : Alloc) (st : TxAlloc) (k : Nat) (a' : Alloc) (st' : TxAlloc) (ids : List Nat)
    (hp : 0 < a.maxPages) (hf : a.maxPages ≤ a.data.endMarker)
    (hr : dataAllocContinuous a st k = some (a', st', ids)) :
    a'.data.endMarker = a.data.endMarker ∧ a'.maxPages = a.maxPages := by
  unfold dataAllocContinuous at hr
  split at hr
  · cases hr
  · split at hr
    · simp only [Option.some.injEq, Prod.mk.injEq] at hr
      obtain ⟨rfl, -, -⟩ := hr
      exact ⟨rfl, rfl⟩
    · dsimp only at hr
      rw [if_neg (show ¬ a.data.endMarker < a.maxPages by omega)] at hr
      by_cases hk : 0 < k
      · rw [if_pos ⟨hp, hk⟩] at hr; cases hr
      · rw [if_neg (fun c => hk c.2)] at hr
        simp only [Option.some.injEq, Prod.mk.injEq] at hr
        obtain ⟨rfl, -, -⟩ := hr
        have : k = 0 := by omega
        subst this
        rw [bumpMetaEnd_data, bumpMetaEnd_maxPages]
        exact ⟨rfl, rfl⟩

theorem rz_transfer_subst (a : Alloc) (st : TxAlloc) (ids : List Nat) (m : Nat) :
    transferToMeta (a.wm m) st ids = ((transferToMeta a st ids).1.wm m, (transferToMeta a st ids).2) := rfl

theorem rz_transfer_keeps (a : Alloc) (st : TxAlloc) (ids : List Nat) :
    (transferToMeta a st ids).1.data = a.data ∧ (transferToMeta a st ids).1.maxPages = a.maxPages ∧
    (transferToMeta a st ids).2.overflow = st.overflow := ⟨rfl, rfl, rfl⟩

/-- result pair with another limit -/
def wmP (m : Nat) (r : Alloc × TxAlloc) : Alloc × TxAlloc := (r.1.wm m, r.2)

theorem rz_tryGrow_subst (a : Alloc) (st : TxAlloc) (c m : Nat) (h : NoRoom a m) :
    tryGrow (a.wm m) st c false = (tryGrow a st c false).map (wmP m) := by
  unfold tryGrow
  dsimp only
  rw [rz_dataAvail_subst a m h]
  by_cases hc0 : c = 0
  · rw [if_pos hc0, if_pos hc0]; rfl
  · rw [if_neg hc0, if_neg hc0]
    by_cases hav : a.dataAvail < c
    · rw [if_pos hav, if_pos hav]
      simp
    · rw [if_neg hav, if_neg hav, rz_continuous_subst a st c m h, rz_regions_subst a st c m h]
      cases dataAllocContinuous a st c with
      | some p => obtain ⟨a1, st1, ids⟩ := p; rfl
      | none =>
        cases dataAllocRegions a st c with
        | some p => obtain ⟨a1, st1, ids⟩ := p; rfl
        | none => rfl

theorem rz_tryGrow_keeps (a : Alloc) (st : TxAlloc) (c : Nat) (a' : Alloc) (st' : TxAlloc)
    (hp : 0 < a.maxPages) (hf : a.maxPages ≤ a.data.endMarker)
    (hr : tryGrow a st c false = some (a', st')) :
    a'.data.endMarker = a.data.endMarker ∧ a'.maxPages = a.maxPages := by
  unfold tryGrow at hr
  dsimp only at hr
  by_cases hc0 : c = 0
  · rw [if_pos hc0] at hr
    simp only [Option.some.injEq, Prod.mk.injEq] at hr
    obtain ⟨rfl, -⟩ := hr
    exact ⟨rfl, rfl⟩
  · rw [if_neg hc0] at hr
    by_cases hav : a.dataAvail < c
    · rw [if_pos hav] at hr
      simp at hr
    · rw [if_neg hav] at hr
      cases hcont : dataAllocContinuous a st c with
      | some p =>
        obtain ⟨a1, st1, ids⟩ := p
        rw [hcont] at hr
        simp only [Option.some.injEq] at hr
        have k := rz_continuous_keeps a st c a1 st1 ids hp hf hcont
        have t := rz_transfer_keeps a1 st1 ids
        rw [hr] at t
        rw [t.1, t.2.1]
        exact k
      | none =>
        rw [hcont] at hr
        cases hreg : dataAllocRegions a st c with
        | none => rw [hreg] at hr; cases hr
        | some p =>
          obtain ⟨a1, st1, ids⟩ := p
          rw [hreg] at hr
          simp only [Option.some.injEq] at hr
          have k := rz_regions_keeps a st c a1 st1 ids hp hf hreg
          have t := rz_transfer_keeps a1 st1 ids
          rw [hr] at t
          rw [t.1, t.2.1]
          exact k

theorem rz_ensureMeta_subst (a : Alloc) (st : TxAlloc) (k m : Nat) (h : NoRoom a m) (hov : st.overflow = false) :
    ensureMeta (a.wm m) st k = (ensureMeta a st k).map (wmP m) := by
  unfold ensureMeta
  dsimp only
  rw [wm_metaTotal, wm_mta, hov]
  split
  · rfl
  · rw [rz_tryGrow_subst a st _ m h, rz_tryGrow_subst a st _ m h]
    cases tryGrow a st ((metaQuota a.metaTotal (a.metaTotal - a.mta.free.length + k) st.growPct).2 - a.metaTotal) false with
    | some r => rfl
    | none => rfl

theorem rz_ensureMeta_keeps (a : Alloc) (st : TxAlloc) (k : Nat) (a' : Alloc) (st' : TxAlloc)
    (hp : 0 < a.maxPages) (hf : a.maxPages ≤ a.data.endMarker) (hov : st.overflow = false)
    (hr : ensureMeta a st k = some (a', st')) :
    a'.data.endMarker = a.data.endMarker ∧ a'.maxPages = a.maxPages := by
  unfold ensureMeta at hr
  dsimp only at hr
  rw [hov] at hr
  split at hr
  · simp only [Option.some.injEq, Prod.mk.injEq] at hr
    obtain ⟨rfl, -⟩ := hr
    exact ⟨rfl, rfl⟩
  · split at hr
    · rename_i r hg
      simp only [Option.some.injEq] at hr
      subst hr
      exact rz_tryGrow_keeps a st _ a' st' hp hf hg
    · exact rz_tryGrow_keeps a st _ a' st' hp hf hr

theorem rz_metaAllocRegions_subst (a : Alloc) (st : TxAlloc) (k m : Nat) (h : NoRoom a m) (hov : st.overflow = false) :
    metaAllocRegions (a.wm m) st k = (metaAllocRegions a st k).map (wmR m) := by
  unfold metaAllocRegions
  rw [rz_ensureMeta_subst a st k m h hov]
  cases ensureMeta a st k with
  | none => rfl
  | some r =>
    obtain ⟨a1, st1⟩ := r
    simp only [Option.map_some, wmP]
    rw [wm_mta]
    split
    · rfl
    · rfl

theorem rz_metaAllocRegions_keeps (a : Alloc) (st : TxAlloc) (k : Nat) (a' : Alloc) (st' : TxAlloc) (ids : List Nat)
    (hp : 0 < a.maxPages) (hf : a.maxPages ≤ a.data.endMarker) (hov : st.overflow = false)
    (hr : metaAllocRegions a st k = some (a', st', ids)) :
    a'.data.endMarker = a.data.endMarker ∧ a'.maxPages = a.maxPages := by
  unfold metaAllocRegions at hr
  split at hr
  · cases hr
  · rename_i a1 st1 he
    have k1 := rz_ensureMeta_keeps a st k a1 st1 hp hf hov he
    dsimp only at hr
    split at hr
    · cases hr
    · simp only [Option.some.injEq, Prod.mk.injEq] at hr
      obtain ⟨rfl, -, -⟩ := hr
      exact k1

/-! ### a failed release transaction: the rollback of a transaction that did nothing -/

theorem rz_rollback_wm (a : Alloc) (st : TxAlloc) (m : Nat) : (a.wm m).rollback st = (a.rollback st).wm m := rfl

/-- rolling back a transaction right after its begin changes nothing (whatever the limit is) -/
theorem rz_rollback_fresh (a : Alloc) (hw : WFR a) (hx : ∀ x ∈ a.mta.free, x < a.data.endMarker) (ov : Bool) (pct : Nat) :
    a.rollback (a.beginTx ov pct) = a := by
  have hwf : WF (a.wm 0) :=
    ⟨hw.ascData, hw.ascMeta, hw.dataRange, fun x h => ⟨(hw.metaRange x h).1, (hw.metaRange x h).2.1, Or.inl (hx x h)⟩,
      hw.disj, hw.dataEnd, Or.inl rfl, hw.total⟩
  have h1 := rollback_of_inv (a.wm 0) (a.wm 0) ((a.wm 0).beginTx ov pct) hwf (inv_init (a.wm 0) hwf ov pct)
  have h2 : (a.wm 0).beginTx ov pct = a.beginTx ov pct := rfl
  rw [h2, rz_rollback_wm] at h1
  have h3 := congrArg (fun x => x.wm a.maxPages) h1
  exact h3

/-! ### what `releaseOverflow` keeps -/

/-- the ids kept lie below the lowered end marker -/
theorem releaseOverflow_kept_lt (l : List Nat) (m e : Nat) (hasc : Asc l) (hlt : ∀ x ∈ l, x < e) :
    ∀ x ∈ (releaseOverflow l m e).1, x < e - (releaseOverflow l m e).2 := by
  obtain ⟨h1, h2, -, -⟩ := releaseOverflow_decomp l m e
  generalize (releaseOverflow l m e).2 = k at *
  generalize (releaseOverflow l m e).1 = keep at *
  intro x hx
  by_cases hk : 0 < k
  · rw [h1] at hasc
    unfold Asc at hasc
    rw [List.pairwise_append] at hasc
    exact hasc.2.2 x hx (e - k) ((mem_idRange _ _ _).mpr ⟨Nat.le_refl _, by omega⟩)
  · have := hlt x (by rw [h1]; exact List.mem_append_left _ hx)
    omega

theorem releaseOverflow_kept_mem (l : List Nat) (m e : Nat) : ∀ x ∈ (releaseOverflow l m e).1, x ∈ l := by
  intro x hx
  rw [releaseOverflow_take] at hx
  exact List.mem_of_mem_take hx

/-- the end marker is not lowered below the limit -/
theorem releaseOverflow_end_ge (l : List Nat) (m e : Nat) (hm : m ≤ e) : m ≤ e - (releaseOverflow l m e).2 := by
  obtain ⟨-, h2, h3, -⟩ := releaseOverflow_decomp l m e
  by_cases hk : 0 < (releaseOverflow l m e).2
  · exact (h3 hk).2
  · omega

/-! ### the allocator commit of the release transaction -/

theorem rz_dataEnd1 (a1 : Alloc) (st1 : TxAlloc) (hme : a1.mta.endMarker ≤ a1.data.endMarker) :
    dataEnd1 a1 st1 = a1.data.endMarker := by
  unfold dataEnd1
  rw [if_neg (by omega)]

/-- the new free lists and end markers computed by a commit that frees nothing itself, in a state
    whose meta area ends inside the data area -/
theorem rz_commitState (a1 : Alloc) (st1 : TxAlloc) (regs : List Nat)
    (hfd : st1.data.freed = []) (hfm : st1.mta.freed = [])
    (hme : a1.mta.endMarker ≤ a1.data.endMarker)
    (hD : Asc a1.data.free) (hM : Asc a1.mta.free)
    (hdr : ∀ x ∈ a1.data.free, 2 ≤ x ∧ x < a1.data.endMarker)
    (hmr : ∀ x ∈ a1.mta.free, x ∉ a1.data.free ∧ x < a1.mta.endMarker)
    (hde : 2 ≤ a1.data.endMarker) :
    (∀ x ∈ (commitState a1 st1 regs).dataList, x ∈ a1.data.free ∧ x < (commitState a1 st1 regs).dataEnd) ∧
    (∀ x ∈ (commitState a1 st1 regs).metaList, x ∈ a1.mta.free ∧ x < (commitState a1 st1 regs).metaEnd) ∧
    (a1.maxPages ≤ a1.data.endMarker → a1.maxPages ≤ (commitState a1 st1 regs).dataEnd) ∧
    (commitState a1 st1 regs).metaList.length + (commitState a1 st1 regs).overflowFreed = a1.mta.free.length ∧
    2 ≤ (commitState a1 st1 regs).dataEnd ∧
    Asc (commitState a1 st1 regs).dataList ∧ Asc (commitState a1 st1 regs).metaList := by
  have e1 := rz_dataEnd1 a1 st1 hme
  have eD : dataRel a1 st1 = releaseOverflow a1.data.free a1.maxPages a1.data.endMarker := by
    unfold dataRel; rw [e1, hfd, unionIds_nil_left]
  have eM : ovfRel a1 st1 = releaseOverflow a1.mta.free a1.maxPages a1.mta.endMarker := by
    unfold ovfRel; rw [hfm, unionIds_nil_left]
  rw [commitState_eq]
  dsimp only
  rw [e1, eD, eM]
  have kd := releaseOverflow_kept_lt a1.data.free a1.maxPages a1.data.endMarker hD (fun x hx => (hdr x hx).2)
  have km := releaseOverflow_kept_lt a1.mta.free a1.maxPages a1.mta.endMarker hM (fun x hx => (hmr x hx).2)
  have md := releaseOverflow_kept_mem a1.data.free a1.maxPages a1.data.endMarker
  have mm := releaseOverflow_kept_mem a1.mta.free a1.maxPages a1.mta.endMarker
  refine ⟨fun x hx => ⟨md x hx, kd x hx⟩, ?_, ?_, releaseOverflow_length _ _ _, ?_, ?_, ?_⟩
  · intro x hx
    refine ⟨mm x hx, ?_⟩
    split
    · have h1 := hmr x (mm x hx)
      exact releaseOverflow_keeps_used _ _ _ x (by omega) h1.1
    · exact km x hx
  · intro h; exact releaseOverflow_end_ge _ _ _ h
  · have := releaseOverflow_keeps_used a1.data.free a1.maxPages a1.data.endMarker 1 (by omega)
      (fun h => by have := (hdr 1 h).1; omega)
    omega
  · rw [releaseOverflow_take]; exact asc_take _ _ hD
  · rw [releaseOverflow_take]; exact asc_take _ _ hM

/-- what is known about the allocator right before the commit of the release transaction
    (`a`: the allocator when the transaction begins, `regs`: the pages allocated for the new free list).
    The frame facts are stated for the limit `a.data.endMarker`, for which the allocator computes the same. -/
structure RelAlloc (a a1 : Alloc) (st1 : TxAlloc) (regs : List Nat) : Prop where
  ok : AOK (a1.wm a.data.endMarker)
  ok2 : AOK2 (a1.wm a.data.endMarker)
  keep : ∀ x, InUse (a.wm a.data.endMarker) x → InUse (a1.wm a.data.endMarker) x
  regsOk : ∀ x ∈ regs, ¬ InUse (a.wm a.data.endMarker) x ∧ InUse (a1.wm a.data.endMarker) x ∧ 2 ≤ x
  nodup : regs.Nodup
  de : a1.data.endMarker = a.data.endMarker
  mx : a1.maxPages = a.maxPages
  fd : st1.data.freed = []
  fm : st1.mta.freed = []
  cnt : a1.mta.free.length + regs.length + a.metaTotal ≤ a.mta.free.length + a1.metaTotal

/-- the hypotheses under which the release transaction runs -/
structure RelPre (a : Alloc) : Prop where
  wfr : WFR a
  hme : a.mta.endMarker ≤ a.data.endMarker
  pos : 0 < a.maxPages
  full : a.maxPages ≤ a.data.endMarker
  ends : a.data.endMarker ≤ a.mta.endMarker ∨ a.data.endMarker ≤ 2

theorem RelPre.aok {a : Alloc} (h : RelPre a) : AOK (a.wm a.data.endMarker) := by
  have hme := h.hme
  refine ⟨h.wfr.ascData, h.wfr.ascMeta, h.wfr.dataRange, ?_, h.ends, h.wfr.dataEnd, Or.inr (Nat.le_refl _)⟩
  intro x hx
  have h1 := h.wfr.metaRange x hx
  refine ⟨fun hd => h.wfr.disj x hd hx, h1.2.1, Or.inl ?_⟩
  show x < a.data.endMarker
  omega

theorem RelPre.aok2 {a : Alloc} (h : RelPre a) : AOK2 (a.wm a.data.endMarker) :=
  ⟨Or.inr h.hme, h.ends, fun x hx => (h.wfr.metaRange x hx).1⟩

theorem RelPre.wf {a : Alloc} (h : RelPre a) : WF (a.wm a.data.endMarker) := by
  have hme := h.hme
  refine ⟨h.wfr.ascData, h.wfr.ascMeta, h.wfr.dataRange, ?_, h.wfr.disj, h.wfr.dataEnd, Or.inr (Nat.le_refl _), h.wfr.total⟩
  intro x hx
  have h1 := h.wfr.metaRange x hx
  refine ⟨h1.1, h1.2.1, Or.inl ?_⟩
  show x < a.data.endMarker
  omega

theorem RelPre.noRoom {a : Alloc} (h : RelPre a) : NoRoom a a.data.endMarker :=
  ⟨h.pos, h.full, by have := h.wfr.dataEnd; omega, Nat.le_refl _⟩

theorem rz_release_alloc (a a1 : Alloc) (st1 : TxAlloc) (cs : AllocCommit) (h : RelPre a)
    (hc : fileCommitAlloc a (a.beginTx false 0) true = some (a1, st1, cs)) :
    cs = commitState a1 st1 cs.allocRegions ∧ RelAlloc a a1 st1 cs.allocRegions := by
  obtain ⟨hcs, hstep⟩ := fileCommitAlloc_some a _ a1 st1 cs hc
  refine ⟨hcs, ?_⟩
  rcases hstep with ⟨ha, hs, hr⟩ | ⟨k, -, hr⟩
  · subst ha hs
    rw [hr]
    exact ⟨h.aok, h.aok2, fun _ hx => hx, (fun x hx => nomatch hx), List.nodup_nil, rfl, rfl, rfl, rfl, Nat.le_refl _⟩
  · have hov : (a.beginTx false 0).overflow = false := rfl
    have hsub := rz_metaAllocRegions_subst a (a.beginTx false 0) k a.data.endMarker h.noRoom hov
    rw [hr] at hsub
    simp only [Option.map_some, wmR] at hsub
    obtain ⟨kde, kmx⟩ := rz_metaAllocRegions_keeps a _ k a1 st1 _ h.pos h.full hov hr
    obtain ⟨f1, f2, f3, f4⟩ := fr_metaAllocRegions _ _ k _ st1 _ h.aok hsub
    obtain ⟨g1, g2⟩ := a2_metaAllocRegions _ _ k _ st1 _ h.aok h.aok2 hov hsub
    obtain ⟨s1, s2, s3, -⟩ := metaAllocRegions_st a _ k a1 st1 _ hr
    have hinv := inv_metaAllocRegions (a.wm a.data.endMarker) (a.wm a.data.endMarker) _ k _ st1 _ h.wf
      (inv_init _ h.wf false 0) hsub
    refine ⟨f1, g1, f2, fun x hx => ⟨(f3 x hx).1, (f3 x hx).2, g2 x hx⟩, f4, kde, kmx, s3, s2, ?_⟩
    have t3 : (a1.mta.free ++ cs.allocRegions).length ≤
        (a.mta.free ++ st1.moveToMeta ++ st1.fromOverflow).length := by
      apply nodup_subset_length
      · rw [List.nodup_append]
        refine ⟨asc_nodup _ f1.ascM, f4, ?_⟩
        intro x hx y hy e
        subst e
        exact (f3 x hy).2.2.1 hx
      · intro x hx
        have hm := (hinv.mIff x).mp (by
          rw [List.mem_append] at hx
          rcases hx with hx | hx
          · exact Or.inl hx
          · right; rw [s1, mem_unionIds]; exact Or.inl hx)
        rw [List.mem_append, List.mem_append]
        rcases hm with hm | hm | hm
        · exact Or.inl (Or.inl hm)
        · exact Or.inl (Or.inr hm)
        · exact Or.inr hm
    have t4 : a1.metaTotal = a.metaTotal + st1.moveToMeta.length + st1.fromOverflow.length := hinv.total
    simp only [List.length_append] at t3
    omega

theorem rz_commit_eq (a1 : Alloc) (st1 : TxAlloc) (regs : List Nat) :
    a1.commit (commitState a1 st1 regs) =
      { a1 with freelistPages := regs,
                data := { endMarker := (commitState a1 st1 regs).dataEnd, free := (commitState a1 st1 regs).dataList },
                mta := { endMarker := (commitState a1 st1 regs).metaEnd, free := (commitState a1 st1 regs).metaList },
                metaTotal := a1.metaTotal - (commitState a1 st1 regs).overflowFreed } := by
  have hu : (commitState a1 st1 regs).updated = true := by rw [commitState_eq]
  have hr : (commitState a1 st1 regs).allocRegions = regs := by rw [commitState_eq]
  unfold Alloc.commit
  rw [hu, hr]
  rfl

/-- a page in use at the begin of the release transaction is in use in the committed allocator -/
theorem rz_release_inUse (a a1 : Alloc) (st1 : TxAlloc) (regs : List Nat) (h : RelPre a) (hr : RelAlloc a a1 st1 regs)
    (x : Nat) (hu : InUse (a1.wm a.data.endMarker) x) :
    InUse (a1.commit (commitState a1 st1 regs)) x ∧
    (x < a1.data.endMarker → x < (a1.commit (commitState a1 st1 regs)).data.endMarker) := by
  have hpos := h.pos
  have hfull := h.full
  have hde := hr.de
  have hmx := hr.mx
  have hme1 : a1.mta.endMarker ≤ a1.data.endMarker := by
    have := hr.ok2.noOv
    have := hr.ok.dEnd
    have e1 : (a1.wm a.data.endMarker).maxPages = a.data.endMarker := rfl
    have e2 : (a1.wm a.data.endMarker).mta.endMarker = a1.mta.endMarker := rfl
    have e3 : (a1.wm a.data.endMarker).data.endMarker = a1.data.endMarker := rfl
    omega
  obtain ⟨c1, c2, c3, c4, c5, c6, c7⟩ := rz_commitState a1 st1 regs hr.fd hr.fm hme1 hr.ok.ascD hr.ok.ascM hr.ok.dRange
    (fun y hy => ⟨(hr.ok.mOK y hy).1, (hr.ok.mOK y hy).2.1⟩) hr.ok.dEnd
  have hnd : x ∉ unionIds st1.data.freed a1.data.free := by rw [hr.fd, unionIds_nil_left]; exact hu.1
  have hnm : x ∉ unionIds st1.mta.freed a1.mta.free := by rw [hr.fm, unionIds_nil_left]; exact hu.2.1
  have k1 := commitState_keeps_meta a1 st1 regs x hu.2.2.1 hnd hnm
  have c3' := c3 (by omega)
  rw [rz_commit_eq]
  refine ⟨⟨fun hc => hu.1 (c1 x hc).1, fun hc => hu.2.1 (c2 x hc).1, k1, ?_⟩, ?_⟩
  · show x < (commitState a1 st1 regs).dataEnd ∨ (0 < a1.maxPages ∧ a1.maxPages ≤ x)
    omega
  · intro hlt
    exact commitState_keeps_data a1 st1 regs x hlt hnd hnm

/-- `initTxReleaseRegions` keeps the relaxed invariant -/
theorem rz_releaseTx_engInvR {f : FileSt} {live : List Nat} (he : EngInvR f live) (h : RelPre f.alloc) :
    EngInvR f.releaseTx.1 live := by
  have hmlt : ∀ x ∈ f.alloc.mta.free, x < f.alloc.data.endMarker := by
    intro x hx; have := (he.wfr.metaRange x hx).2.1; have := h.hme; omega
  unfold FileSt.releaseTx
  dsimp only
  cases hc : fileCommitAlloc f.alloc (f.alloc.beginTx false 0) true with
  | none =>
    dsimp only
    exact engInvR_congr he (rz_rollback_fresh f.alloc he.wfr hmlt false 0) rfl rfl
  | some r =>
    obtain ⟨a1, st1, cs⟩ := r
    dsimp only
    obtain ⟨hcs, hr⟩ := rz_release_alloc f.alloc a1 st1 cs h hc
    generalize cs.allocRegions = regs at hcs hr
    subst hcs
    have hpos := h.pos
    have hfull := h.full
    have hde := hr.de
    have hmx := hr.mx
    have hme1 : a1.mta.endMarker ≤ a1.data.endMarker := by
      have := hr.ok2.noOv
      have := hr.ok.dEnd
      have e1 : (a1.wm f.alloc.data.endMarker).maxPages = f.alloc.data.endMarker := rfl
      have e2 : (a1.wm f.alloc.data.endMarker).mta.endMarker = a1.mta.endMarker := rfl
      have e3 : (a1.wm f.alloc.data.endMarker).data.endMarker = a1.data.endMarker := rfl
      omega
    obtain ⟨c1, c2, c3, c4, c5, c6, c7⟩ := rz_commitState a1 st1 regs hr.fd hr.fm hme1 hr.ok.ascD hr.ok.ascM hr.ok.dRange
      (fun y hy => ⟨(hr.ok.mOK y hy).1, (hr.ok.mOK y hy).2.1⟩) hr.ok.dEnd
    have c3' := c3 (by omega)
    -- pages in use before stay in use
    have up : ∀ x, InUse f.alloc x → InUse (f.alloc.wm f.alloc.data.endMarker) x := by
      intro x hx
      refine ⟨hx.1, hx.2.1, hx.2.2.1, ?_⟩
      show x < f.alloc.data.endMarker ∨ (0 < f.alloc.data.endMarker ∧ f.alloc.data.endMarker ≤ x)
      have := he.wfr.dataEnd
      omega
    have keepAll : ∀ x, InUse f.alloc x → InUse (a1.commit (commitState a1 st1 regs)) x ∧
        (x < f.alloc.data.endMarker → x < (a1.commit (commitState a1 st1 regs)).data.endMarker) := by
      intro x hx
      have := rz_release_inUse f.alloc a1 st1 regs h hr x (hr.keep x (up x hx))
      rw [hde] at this
      exact this
    have hint : ∀ x, x ∈ ({ f with alloc := a1.commit (commitState a1 st1 regs), txid := f.txid + 1 } : FileSt).internal ↔
        (x ∈ f.walMap.map (·.2) ++ f.walPages ∨ x ∈ regs) := by
      intro x
      unfold FileSt.internal
      rw [rz_commit_eq]
      exact List.mem_append
    have hold : ∀ x ∈ f.walMap.map (·.2) ++ f.walPages, x ∈ f.internal := by
      intro x hx; unfold FileSt.internal; exact List.mem_append_left _ hx
    refine ⟨?_, he.keys, ?_, he.mapKey, he.mapInj, ?_, ?_, ?_⟩
    · show WFR (a1.commit (commitState a1 st1 regs))
      rw [rz_commit_eq]
      refine ⟨c6, c7, fun x hx => ⟨(hr.ok.dRange x (c1 x hx).1).1, (c1 x hx).2⟩, ?_, ?_, c5, ?_⟩
      · intro x hx
        refine ⟨hr.ok2.mGe2 x (c2 x hx).1, (c2 x hx).2, ?_⟩
        show x < (commitState a1 st1 regs).dataEnd ∨ (0 < a1.maxPages ∧ a1.maxPages ≤ x)
        omega
      · intro x hx hm
        exact (hr.ok.mOK x (c2 x hm).1).1 (c1 x hx).1
      · show (commitState a1 st1 regs).metaList.length ≤ a1.metaTotal - (commitState a1 st1 regs).overflowFreed
        have t1 := hr.cnt
        have t2 := he.total
        omega
    · intro id hid
      obtain ⟨l1, l2, l3⟩ := he.liveOk id hid
      exact ⟨l1, (keepAll id l3).2 l2, (keepAll id l3).1⟩
    · intro x hx
      rcases (hint x).mp hx with hx | hx
      · obtain ⟨i1, i2, i3⟩ := he.intOk x (hold x hx)
        exact ⟨i1, (keepAll x i2).1, i3⟩
      · obtain ⟨r1, r2, r3⟩ := hr.regsOk x hx
        refine ⟨r3, (rz_release_inUse f.alloc a1 st1 regs h hr x r2).1, ?_⟩
        intro hl
        exact r1 (up x (he.liveOk x hl).2.2)
    · show (f.walMap.map (·.2) ++ f.walPages ++ (a1.commit (commitState a1 st1 regs)).freelistPages).Nodup
      rw [rz_commit_eq]
      show (f.walMap.map (·.2) ++ f.walPages ++ regs).Nodup
      rw [List.nodup_append]
      refine ⟨(List.nodup_append.mp he.intNodup).1, hr.nodup, ?_⟩
      intro x hx y hy e
      subst e
      exact (hr.regsOk x hy).1 (up x (he.intOk x (hold x hx)).2.1)
    · show (a1.commit (commitState a1 st1 regs)).mta.free.length +
        (f.walMap.map (·.2) ++ f.walPages ++ (a1.commit (commitState a1 st1 regs)).freelistPages).length ≤
        (a1.commit (commitState a1 st1 regs)).metaTotal
      rw [rz_commit_eq]
      show (commitState a1 st1 regs).metaList.length + (f.walMap.map (·.2) ++ f.walPages ++ regs).length ≤
        a1.metaTotal - (commitState a1 st1 regs).overflowFreed
      have t1 := hr.cnt
      have t2 := he.total
      unfold FileSt.internal at t2
      rw [List.length_append] at t2 ⊢
      omega

/-! ### `shrinkFile`, `FileSt.resizeWith` -/

theorem rz_lastEnd_le (l : List Nat) (e : Nat) (h : ∀ x ∈ l, x < e) : lastEnd l ≤ e := by
  unfold lastEnd
  cases hl : l.getLast? with
  | none => exact Nat.zero_le _
  | some x =>
    have := h x (List.mem_of_getLast? hl)
    show x + 1 ≤ e
    omega

/-- the frame of `initTxReleaseRegions`: only the allocator and the txid change -/
theorem rz_releaseTx_frame (f : FileSt) :
    f.releaseTx.1.walMap = f.walMap ∧ f.releaseTx.1.walPages = f.walPages ∧ f.releaseTx.1.disk = f.disk ∧
    f.releaseTx.1.root = f.root := by
  unfold FileSt.releaseTx
  dsimp only
  split <;> exact ⟨rfl, rfl, rfl, rfl⟩

theorem rz_shrink_frame (f : FileSt) (n : Nat) :
    (f.resizeShrink n).1.walMap = f.walMap ∧ (f.resizeShrink n).1.walPages = f.walPages ∧
    (f.resizeShrink n).1.disk = f.disk ∧ (f.resizeShrink n).1.root = f.root := by
  unfold FileSt.resizeShrink
  dsimp only
  split
  · have hf := rz_releaseTx_frame ({ f with alloc := { f.alloc with maxPages := n }, txid := f.txid + 1 } : FileSt)
    generalize ({ f with alloc := { f.alloc with maxPages := n }, txid := f.txid + 1 } : FileSt).releaseTx = r at hf
    obtain ⟨f2, res⟩ := r
    cases res <;> exact hf
  · exact ⟨rfl, rfl, rfl, rfl⟩

/-- what `shrinkFile` needs of the state `g` the header was read into: with the new limit set, the relaxed
    invariant holds, and the end markers of `g` are in order -/
structure ShrinkPre (g : FileSt) (live : List Nat) (n : Nat) : Prop where
  inv : EngInvR ({ g with alloc := { g.alloc with maxPages := n }, txid := g.txid + 1 } : FileSt) live
  ends : g.alloc.data.endMarker ≤ g.alloc.mta.endMarker ∨ g.alloc.data.endMarker ≤ 2

/-- a state satisfying the invariant, any new limit -/
theorem ShrinkPre.ofEngInv {g : FileSt} {live : List Nat} (he : EngInv g live) (n : Nat) : ShrinkPre g live n :=
  ⟨rz_setMax_engInvR he n _ rfl rfl rfl, he.ends⟩

theorem alloc_setMax_self (a : Alloc) (n : Nat) (h : a.maxPages = n) : ({ a with maxPages := n } : Alloc) = a := by
  subst h; rfl

/-- a state satisfying the relaxed invariant that already carries the new limit -/
theorem ShrinkPre.ofEngInvR {g : FileSt} {live : List Nat} {n : Nat} (he : EngInvR g live) (hm : g.alloc.maxPages = n)
    (hends : g.alloc.data.endMarker ≤ g.alloc.mta.endMarker ∨ g.alloc.data.endMarker ≤ 2) : ShrinkPre g live n :=
  ⟨engInvR_congr he (alloc_setMax_self _ _ hm) rfl rfl, hends⟩

/-- `shrinkFile` (after the header of a bounded file was read) keeps the relaxed invariant -/
theorem rz_shrink_engInvR {g : FileSt} {live : List Nat} {n : Nat} (he : ShrinkPre g live n)
    (hme : g.alloc.mta.endMarker ≤ g.alloc.data.endMarker) (hn : 0 < n) :
    EngInvR (g.resizeShrink n).1 live := by
  have h1 : EngInvR ({ g with alloc := { g.alloc with maxPages := n }, txid := g.txid + 1 } : FileSt) live := he.inv
  unfold FileSt.resizeShrink
  dsimp only
  split
  · rename_i hcan
    have hfull : n ≤ g.alloc.data.endMarker := by
      simp only [canRelease, Bool.or_eq_true, Bool.and_eq_true, decide_eq_true_eq] at hcan
      rcases hcan with hc | hc
      · exact Nat.le_of_lt hc.2
      · have : n < g.alloc.mta.endMarker := hc.2
        omega
    have hpre : RelPre ({ g with alloc := { g.alloc with maxPages := n }, txid := g.txid + 1 } : FileSt).alloc :=
      ⟨h1.wfr, hme, hn, hfull, he.ends⟩
    have h2 := rz_releaseTx_engInvR h1 hpre
    generalize ({ g with alloc := { g.alloc with maxPages := n }, txid := g.txid + 1 } : FileSt).releaseTx = r at h2
    obtain ⟨f2, res⟩ := r
    cases res
    · exact h2
    · exact h2
    · exact engInvR_congr h2 rfl rfl rfl
  · exact h1

/-- the frame of `Open` with a max-size update: the mapping, its pages, the disk and the root are untouched -/
theorem rz_resizeWith_frame (f : FileSt) (k : RKind) (n : Nat) :
    (f.resizeWith k n).1.walMap = f.walMap ∧ (f.resizeWith k n).1.walPages = f.walPages ∧
    (f.resizeWith k n).1.disk = f.disk ∧ (f.resizeWith k n).1.root = f.root := by
  cases k
  · exact ⟨rfl, rfl, rfl, rfl⟩
  · exact ⟨rfl, rfl, rfl, rfl⟩
  · exact ⟨rfl, rfl, rfl, rfl⟩
  · exact rz_shrink_frame f.reopen n
  · exact rz_shrink_frame (f.openAt n f.alloc.data.endMarker) n

/-- what `openWith` + `Options.Validate` guarantee about a decision, and — for a file without limit that gets
    one (`boundShrink`) — the one thing the proofs need beyond the invariant: the file has no gap between
    the end markers, or the gap lies below the new limit (then it is absorbed when the header is read) -/
def RKind.pre (k : RKind) (f : FileSt) (n : Nat) : Prop :=
  match k with
  | .shrink => 0 < f.alloc.maxPages ∧ 0 < n
  | .boundShrink => 0 < n ∧ (f.alloc.mta.endMarker ≤ f.alloc.data.endMarker ∨ f.alloc.data.endMarker < n)
  | _ => True

theorem absorb_de_cases (a : Alloc) :
    (a.absorbOverflow.data.endMarker = a.data.endMarker ∨ a.absorbOverflow.data.endMarker = a.mta.endMarker) ∧
    a.absorbOverflow.mta.endMarker = a.mta.endMarker := by
  unfold Alloc.absorbOverflow
  split
  · exact ⟨Or.inr rfl, rfl⟩
  · exact ⟨Or.inl rfl, rfl⟩

/-- the end markers of the state read under another limit are in order -/
theorem rz_openAt_ends_ord {f : FileSt} {live : List Nat} (he : EngInv f live) (n : Nat) :
    (f.openAt n f.alloc.data.endMarker).alloc.data.endMarker ≤ (f.openAt n f.alloc.data.endMarker).alloc.mta.endMarker ∨
    (f.openAt n f.alloc.data.endMarker).alloc.data.endMarker ≤ 2 := by
  have h := he.ends
  have hc := absorb_de_cases ({ f.alloc with maxPages := n, data := { f.alloc.data with endMarker := f.alloc.data.endMarker } } : Alloc)
  have e1 : ({ f.alloc with maxPages := n, data := { f.alloc.data with endMarker := f.alloc.data.endMarker } } : Alloc).data.endMarker = f.alloc.data.endMarker := rfl
  have e2 : ({ f.alloc with maxPages := n, data := { f.alloc.data with endMarker := f.alloc.data.endMarker } } : Alloc).mta.endMarker = f.alloc.mta.endMarker := rfl
  rw [e1, e2] at hc
  show ({ f.alloc with maxPages := n, data := { f.alloc.data with endMarker := f.alloc.data.endMarker } } : Alloc).absorbOverflow.data.endMarker ≤
      ({ f.alloc with maxPages := n, data := { f.alloc.data with endMarker := f.alloc.data.endMarker } } : Alloc).absorbOverflow.mta.endMarker ∨
      ({ f.alloc with maxPages := n, data := { f.alloc.data with endMarker := f.alloc.data.endMarker } } : Alloc).absorbOverflow.data.endMarker ≤ 2
  omega

/-- … and the data end marker is not below the meta end marker if there was no gap or it was absorbed -/
theorem rz_openAt_ends (f : FileSt) (n : Nat)
    (hg : f.alloc.mta.endMarker ≤ f.alloc.data.endMarker ∨ (0 < n ∧ f.alloc.data.endMarker < n) ∨ n = 0) :
    (f.openAt n f.alloc.data.endMarker).alloc.mta.endMarker ≤ (f.openAt n f.alloc.data.endMarker).alloc.data.endMarker := by
  show ({ f.alloc with maxPages := n, data := { f.alloc.data with endMarker := f.alloc.data.endMarker } } : Alloc).absorbOverflow.mta.endMarker ≤
      ({ f.alloc with maxPages := n, data := { f.alloc.data with endMarker := f.alloc.data.endMarker } } : Alloc).absorbOverflow.data.endMarker
  unfold Alloc.absorbOverflow
  split
  · exact Nat.le_refl _
  · rename_i hc
    show f.alloc.mta.endMarker ≤ f.alloc.data.endMarker
    have hc' : ¬ (f.alloc.data.endMarker < f.alloc.mta.endMarker ∧ (n = 0 ∨ f.alloc.data.endMarker < n)) := hc
    omega

theorem rz_openAt_max (f : FileSt) (n d : Nat) : (f.openAt n d).alloc.maxPages = n := by
  unfold FileSt.openAt
  rw [rz_reopen_alloc]
  exact (absorb_keeps _).2.2.2.1

theorem rz_openAt_shrinkPre {f : FileSt} {live : List Nat} (he : EngInv f live) (n : Nat) :
    ShrinkPre (f.openAt n f.alloc.data.endMarker) live n :=
  ShrinkPre.ofEngInvR (rz_openAt_engInvR he n) (rz_openAt_max f n _) (rz_openAt_ends_ord he n)

/-- `Open` with a max-size update keeps the relaxed invariant -/
theorem rz_resizeWith_engInvR {f : FileSt} {live : List Nat} (he : EngInv f live) (k : RKind) (n : Nat)
    (hk : k.pre f n) : EngInvR (f.resizeWith k n).1 live := by
  cases k
  · exact (engInv_reopen he).toR
  · exact rz_openAt_engInvR he n
  · exact rz_grow_engInvR (engInv_reopen he) n
  · obtain ⟨h1, h2⟩ := hk
    exact rz_shrink_engInvR (ShrinkPre.ofEngInv (engInv_reopen he) n) (rz_reopen_ends he h1) h2
  · obtain ⟨h1, h2⟩ := hk
    exact rz_shrink_engInvR (rz_openAt_shrinkPre he n) (rz_openAt_ends f n (by omega)) h1

theorem rkindPages_shrink (old n : Nat) (h : rkindPages old n = .shrink) : 0 < n ∧ n < old := by
  unfold rkindPages at h
  split at h
  · split at h <;> cases h
  · split at h
    · cases h
    · split at h
      · assumption
      · cases h

theorem rkindPages_boundShrink (old n : Nat) (h : rkindPages old n = .boundShrink) : old = 0 ∧ 0 < n := by
  unfold rkindPages at h
  split at h
  · split at h
    · cases h
    · omega
  · split at h
    · cases h
    · split at h <;> cases h

/-- the hypothesis of the theorems about `FileSt.resize`: a file WITHOUT limit that gets one has no gap between
    its end markers, or the gap lies below the new limit. Bounded files, `n = 0`, and files whose meta area
    ends inside the data area satisfy it (`resizeOK_of_bounded`, `resizeOK_of_noGap`). -/
def ResizeOK (f : FileSt) (n : Nat) : Prop :=
  f.alloc.maxPages = 0 → 0 < n → (f.alloc.mta.endMarker ≤ f.alloc.data.endMarker ∨ f.alloc.data.endMarker < n)

theorem resizeOK_of_bounded (f : FileSt) (n : Nat) (h : 0 < f.alloc.maxPages ∨ n = 0) : ResizeOK f n := by
  intro h0 hn; omega

theorem resizeOK_of_noGap (f : FileSt) (n : Nat) (h : f.alloc.mta.endMarker ≤ f.alloc.data.endMarker) : ResizeOK f n :=
  fun _ _ => Or.inl h

/-- the decision of `FileSt.resize` satisfies `RKind.pre` -/
theorem rkindPages_pre (f : FileSt) (n : Nat) (hg : ResizeOK f n) : (rkindPages f.alloc.maxPages n).pre f n := by
  cases hk : rkindPages f.alloc.maxPages n
  · trivial
  · trivial
  · trivial
  · have := rkindPages_shrink _ _ hk
    exact ⟨by omega, this.1⟩
  · have := rkindPages_boundShrink _ _ hk
    exact ⟨this.2, hg this.1 this.2⟩

theorem rz_resize_engInvR {f : FileSt} {live : List Nat} (he : EngInv f live) (n : Nat) (hg : ResizeOK f n) :
    EngInvR (f.resize n) live := by
  unfold FileSt.resize
  exact rz_resizeWith_engInvR he _ n (rkindPages_pre f n hg)

/-! ### the limit after the update -/

theorem rz_continuous_max (a : Alloc) (st : TxAlloc) (k : Nat) (a' : Alloc) (st' : TxAlloc) (ids : List Nat)
    (hr : dataAllocContinuous a st k = some (a', st', ids)) : a'.maxPages = a.maxPages := by
  unfold dataAllocContinuous at hr
  split at hr
  · cases hr
  · split at hr
    · simp only [Option.some.injEq, Prod.mk.injEq] at hr
      obtain ⟨rfl, -, -⟩ := hr
      rfl
    · dsimp only at hr
      by_cases hcnd : a.maxPages > 0 ∧ (if a.data.endMarker < a.maxPages then a.maxPages - a.data.endMarker else 0) < k
      · rw [if_pos hcnd] at hr; cases hr
      · rw [if_neg hcnd] at hr
        simp only [Option.some.injEq, Prod.mk.injEq] at hr
        obtain ⟨rfl, -, -⟩ := hr
        rw [bumpMetaEnd_maxPages]

theorem rz_regions_max (a : Alloc) (st : TxAlloc) (k : Nat) (a' : Alloc) (st' : TxAlloc) (ids : List Nat)
    (hr : dataAllocRegions a st k = some (a', st', ids)) : a'.maxPages = a.maxPages := by
  obtain ⟨j, rest, -, -, -, -, -, -, -, -, -, -, e5, -⟩ := dataAllocRegions_spec a st k a' st' ids hr
  exact e5

theorem rz_tryGrow_max (a : Alloc) (st : TxAlloc) (c : Nat) (a' : Alloc) (st' : TxAlloc)
    (hr : tryGrow a st c false = some (a', st')) : a'.maxPages = a.maxPages := by
  unfold tryGrow at hr
  dsimp only at hr
  by_cases hc0 : c = 0
  · rw [if_pos hc0] at hr
    simp only [Option.some.injEq, Prod.mk.injEq] at hr
    obtain ⟨rfl, -⟩ := hr
    rfl
  · rw [if_neg hc0] at hr
    by_cases hav : a.dataAvail < c
    · rw [if_pos hav] at hr
      simp at hr
    · rw [if_neg hav] at hr
      cases hcont : dataAllocContinuous a st c with
      | some p =>
        obtain ⟨a1, st1, ids⟩ := p
        rw [hcont] at hr
        simp only [Option.some.injEq] at hr
        have t := rz_transfer_keeps a1 st1 ids
        rw [hr] at t
        rw [t.2.1]
        exact rz_continuous_max a st c a1 st1 ids hcont
      | none =>
        rw [hcont] at hr
        cases hreg : dataAllocRegions a st c with
        | none => rw [hreg] at hr; cases hr
        | some p =>
          obtain ⟨a1, st1, ids⟩ := p
          rw [hreg] at hr
          simp only [Option.some.injEq] at hr
          have t := rz_transfer_keeps a1 st1 ids
          rw [hr] at t
          rw [t.2.1]
          exact rz_regions_max a st c a1 st1 ids hreg

theorem rz_ensureMeta_max (a : Alloc) (st : TxAlloc) (k : Nat) (a' : Alloc) (st' : TxAlloc)
    (hov : st.overflow = false) (hr : ensureMeta a st k = some (a', st')) : a'.maxPages = a.maxPages := by
  unfold ensureMeta at hr
  dsimp only at hr
  rw [hov] at hr
  split at hr
  · simp only [Option.some.injEq, Prod.mk.injEq] at hr
    obtain ⟨rfl, -⟩ := hr
    rfl
  · split at hr
    · rename_i r hg
      simp only [Option.some.injEq] at hr
      subst hr
      exact rz_tryGrow_max a st _ a' st' hg
    · exact rz_tryGrow_max a st _ a' st' hr

theorem rz_metaAllocRegions_max (a : Alloc) (st : TxAlloc) (k : Nat) (a' : Alloc) (st' : TxAlloc) (ids : List Nat)
    (hov : st.overflow = false) (hr : metaAllocRegions a st k = some (a', st', ids)) : a'.maxPages = a.maxPages := by
  unfold metaAllocRegions at hr
  split at hr
  · cases hr
  · rename_i a1 st1 he
    have k1 := rz_ensureMeta_max a st k a1 st1 hov he
    dsimp only at hr
    split at hr
    · cases hr
    · simp only [Option.some.injEq, Prod.mk.injEq] at hr
      obtain ⟨rfl, -, -⟩ := hr
      exact k1

theorem rz_commit_max (a : Alloc) (cs : AllocCommit) : (a.commit cs).maxPages = a.maxPages := by
  unfold Alloc.commit; split <;> rfl

theorem rz_releaseTx_max (f : FileSt) : f.releaseTx.1.alloc.maxPages = f.alloc.maxPages := by
  unfold FileSt.releaseTx
  dsimp only
  cases hc : fileCommitAlloc f.alloc (f.alloc.beginTx false 0) true with
  | none => rfl
  | some r =>
    obtain ⟨a1, st1, cs⟩ := r
    dsimp only
    rw [rz_commit_max]
    obtain ⟨-, hstep⟩ := fileCommitAlloc_some f.alloc _ a1 st1 cs hc
    rcases hstep with ⟨ha, -, -⟩ | ⟨k, -, hr⟩
    · rw [ha]
    · exact rz_metaAllocRegions_max f.alloc _ k a1 st1 _ rfl hr

theorem rz_shrink_max (f : FileSt) (n : Nat) : (f.resizeShrink n).1.alloc.maxPages = n := by
  unfold FileSt.resizeShrink
  dsimp only
  split
  · have hf := rz_releaseTx_max ({ f with alloc := { f.alloc with maxPages := n }, txid := f.txid + 1 } : FileSt)
    generalize ({ f with alloc := { f.alloc with maxPages := n }, txid := f.txid + 1 } : FileSt).releaseTx = r at hf
    obtain ⟨f2, res⟩ := r
    cases res <;> exact hf
  · rfl

theorem rz_grow_max (f : FileSt) (n : Nat) : (f.resizeGrow n).alloc.maxPages = n := by
  unfold FileSt.resizeGrow
  exact (absorb_keeps _).2.2.2.1

/-- the in-memory limit after `Open`: the new limit, unless nothing was to be done -/
theorem rz_resizeWith_max (f : FileSt) (k : RKind) (n : Nat) :
    (f.resizeWith k n).1.alloc.maxPages = (if k = .same then f.alloc.maxPages else n) := by
  cases k
  · exact (absorb_keeps _).2.2.2.1
  · exact rz_openAt_max f n _
  · exact rz_grow_max _ n
  · exact rz_shrink_max _ n
  · exact rz_shrink_max _ n

theorem rkindPages_same (old n : Nat) (h : rkindPages old n = .same) : n = old := by
  unfold rkindPages at h
  split at h
  · split at h
    · omega
    · cases h
  · split at h
    · assumption
    · split at h <;> cases h

theorem rz_resize_max (f : FileSt) (n : Nat) : (f.resize n).alloc.maxPages = n := by
  unfold FileSt.resize
  rw [rz_resizeWith_max]
  split
  · rename_i h; exact (rkindPages_same _ _ h).symm
  · rfl

/-! ### reopening after the update changes nothing -/

theorem rz_noGap_absorb (a : Alloc) : NoGap a.absorbOverflow := by
  unfold Alloc.absorbOverflow NoGap
  split
  · left; exact Nat.le_refl _
  · rename_i hc
    show a.mta.endMarker ≤ a.data.endMarker ∨ (0 < a.maxPages ∧ a.maxPages ≤ a.data.endMarker)
    omega

/-- `absorbOverflow` does not change the larger of the two end markers -/
theorem rz_absorb_max (a : Alloc) :
    max a.absorbOverflow.data.endMarker a.absorbOverflow.mta.endMarker = max a.data.endMarker a.mta.endMarker := by
  unfold Alloc.absorbOverflow
  split
  · rename_i hc
    show max a.mta.endMarker a.mta.endMarker = max a.data.endMarker a.mta.endMarker
    omega
  · rfl

/-- a state without a gap whose statistic is the one `reportOpen` computes is a fixed point of reopening -/
theorem rz_reopen_fix (f : FileSt) (hg : NoGap f.alloc) (hs : f.statData = f.openStat) : f.reopen = f := by
  rw [reopen_ws f hg, ← hs]
  exact ws_self f

theorem rz_reopen_openStat (f : FileSt) : f.reopen.openStat = f.openStat := by
  obtain ⟨k1, k2, k3, -, -, -⟩ := absorb_keeps f.alloc
  unfold FileSt.openStat
  rw [rz_reopen_alloc, rz_absorb_max, k1, k3]

theorem rz_reopen_stat (f : FileSt) : f.reopen.statData = f.openStat := rfl

/-- reopening twice is reopening once -/
theorem rz_reopen_reopen (f : FileSt) : f.reopen.reopen = f.reopen :=
  rz_reopen_fix _ (rz_noGap_absorb _) (by rw [rz_reopen_openStat]; rfl)

/-- the statistic after `doGrowFile` is the one a reopen computes -/
theorem rz_grow_reopen (g : FileSt) (n : Nat) (hs : g.statData = g.openStat) : (g.resizeGrow n).reopen = g.resizeGrow n := by
  apply rz_reopen_fix
  · exact rz_noGap_absorb _
  · obtain ⟨k1, k2, k3, -, -, -⟩ := absorb_keeps ({ g.alloc with maxPages := n } : Alloc)
    show g.statData = _
    rw [hs]
    unfold FileSt.openStat FileSt.resizeGrow
    dsimp only
    rw [rz_absorb_max, k1, k3]

theorem rz_releaseTx_done_noGap (f : FileSt) (f2 : FileSt) (he : RelPre f.alloc)
    (hr : f.releaseTx = (f2, .done)) : NoGap f2.alloc := by
  unfold FileSt.releaseTx at hr
  dsimp only at hr
  cases hc : fileCommitAlloc f.alloc (f.alloc.beginTx false 0) true with
  | none => rw [hc] at hr; simp at hr
  | some r =>
    obtain ⟨a1, st1, cs⟩ := r
    rw [hc] at hr
    simp only [Prod.mk.injEq, and_true] at hr
    subst hr
    obtain ⟨hcs, hra⟩ := rz_release_alloc f.alloc a1 st1 cs he hc
    generalize cs.allocRegions = regs at hcs hra
    subst hcs
    have hpos := he.pos
    have hfull := he.full
    have hde := hra.de
    have hmx := hra.mx
    have hme1 : a1.mta.endMarker ≤ a1.data.endMarker := by
      have := hra.ok2.noOv
      have := hra.ok.dEnd
      have e1 : (a1.wm f.alloc.data.endMarker).maxPages = f.alloc.data.endMarker := rfl
      have e2 : (a1.wm f.alloc.data.endMarker).mta.endMarker = a1.mta.endMarker := rfl
      have e3 : (a1.wm f.alloc.data.endMarker).data.endMarker = a1.data.endMarker := rfl
      omega
    obtain ⟨-, -, c3, -, -, -, -⟩ := rz_commitState a1 st1 regs hra.fd hra.fm hme1 hra.ok.ascD hra.ok.ascM hra.ok.dRange
      (fun y hy => ⟨(hra.ok.mOK y hy).1, (hra.ok.mOK y hy).2.1⟩) hra.ok.dEnd
    have c3' := c3 (by omega)
    unfold NoGap
    right
    show 0 < (a1.commit (commitState a1 st1 regs)).maxPages ∧
      (a1.commit (commitState a1 st1 regs)).maxPages ≤ (a1.commit (commitState a1 st1 regs)).data.endMarker
    rw [rz_commit_eq]
    show 0 < a1.maxPages ∧ a1.maxPages ≤ (commitState a1 st1 regs).dataEnd
    omega

theorem rz_releaseTx_not_done (f : FileSt) (f2 : FileSt) (res : ReleaseRes) (hw : WFR f.alloc)
    (hx : ∀ x ∈ f.alloc.mta.free, x < f.alloc.data.endMarker)
    (hr : f.releaseTx = (f2, res)) (hnd : res ≠ .done) : f2 = f := by
  unfold FileSt.releaseTx at hr
  dsimp only at hr
  cases hc : fileCommitAlloc f.alloc (f.alloc.beginTx false 0) true with
  | none =>
    rw [hc] at hr
    simp only [Prod.mk.injEq] at hr
    rw [← hr.1, rz_rollback_fresh f.alloc hw hx false 0]
  | some r =>
    obtain ⟨a1, st1, cs⟩ := r
    rw [hc] at hr
    simp only [Prod.mk.injEq] at hr
    exact absurd hr.2.symm hnd

/-- reopening the state `shrinkFile` leaves changes nothing -/
theorem rz_shrink_reopen {g : FileSt} {live : List Nat} {n : Nat} (he : ShrinkPre g live n)
    (hme : g.alloc.mta.endMarker ≤ g.alloc.data.endMarker) (hs : g.statData = g.openStat) (hn : 0 < n) :
    (g.resizeShrink n).1.reopen = (g.resizeShrink n).1 := by
  have h1 : EngInvR ({ g with alloc := { g.alloc with maxPages := n }, txid := g.txid + 1 } : FileSt) live := he.inv
  have hfix1 : ({ g with alloc := { g.alloc with maxPages := n }, txid := g.txid + 1 } : FileSt).reopen =
      ({ g with alloc := { g.alloc with maxPages := n }, txid := g.txid + 1 } : FileSt) :=
    rz_reopen_fix _ (Or.inl hme) hs
  unfold FileSt.resizeShrink
  dsimp only
  split
  · rename_i hcan
    have hfull : n ≤ g.alloc.data.endMarker := by
      simp only [canRelease, Bool.or_eq_true, Bool.and_eq_true, decide_eq_true_eq] at hcan
      rcases hcan with hc | hc
      · exact Nat.le_of_lt hc.2
      · have : n < g.alloc.mta.endMarker := hc.2
        omega
    have hpre : RelPre ({ g with alloc := { g.alloc with maxPages := n }, txid := g.txid + 1 } : FileSt).alloc :=
      ⟨h1.wfr, hme, hn, hfull, he.ends⟩
    cases hrt : ({ g with alloc := { g.alloc with maxPages := n }, txid := g.txid + 1 } : FileSt).releaseTx with
    | mk f2 res =>
      cases res
      · rw [rz_releaseTx_not_done _ f2 _ h1.wfr (fun x hx => by have := (h1.wfr.metaRange x hx).2.1; exact Nat.lt_of_lt_of_le this hme) hrt (by simp)]
        exact hfix1
      · rw [rz_releaseTx_not_done _ f2 _ h1.wfr (fun x hx => by have := (h1.wfr.metaRange x hx).2.1; exact Nat.lt_of_lt_of_le this hme) hrt (by simp)]
        exact hfix1
      · exact rz_reopen_fix _ (rz_releaseTx_done_noGap _ f2 hpre hrt) rfl
  · exact hfix1

/-- reopening the state `Open` with a max-size update leaves changes nothing -/
theorem rz_resizeWith_reopen {f : FileSt} {live : List Nat} (he : EngInv f live) (k : RKind) (n : Nat)
    (hk : k.pre f n) :
    (f.resizeWith k n).1.reopen = (f.resizeWith k n).1 := by
  cases k
  · exact rz_reopen_reopen f
  · exact rz_reopen_reopen _
  · exact rz_grow_reopen _ n (by rw [rz_reopen_openStat]; rfl)
  · obtain ⟨h1, h2⟩ := hk
    exact rz_shrink_reopen (ShrinkPre.ofEngInv (engInv_reopen he) n) (rz_reopen_ends he h1)
      (by rw [rz_reopen_openStat]; rfl) h2
  · obtain ⟨h1, h2⟩ := hk
    exact rz_shrink_reopen (rz_openAt_shrinkPre he n) (rz_openAt_ends f n (by omega))
      (by unfold FileSt.openAt; rw [rz_reopen_openStat]; rfl) h1

/-! ### the extent of the file does not grow -/

theorem rz_releaseTx_extent (f : FileSt) (he : RelPre f.alloc)
    (hx : ∀ x ∈ f.alloc.mta.free, x < f.alloc.data.endMarker) :
    f.releaseTx.1.alloc.data.endMarker ≤ f.alloc.data.endMarker ∧
    f.releaseTx.1.alloc.mta.endMarker ≤ f.alloc.data.endMarker := by
  unfold FileSt.releaseTx
  dsimp only
  cases hc : fileCommitAlloc f.alloc (f.alloc.beginTx false 0) true with
  | none =>
    dsimp only
    rw [rz_rollback_fresh f.alloc he.wfr hx false 0]
    exact ⟨Nat.le_refl _, he.hme⟩
  | some r =>
    obtain ⟨a1, st1, cs⟩ := r
    dsimp only
    obtain ⟨hcs, hra⟩ := rz_release_alloc f.alloc a1 st1 cs he hc
    generalize cs.allocRegions = regs at hcs hra
    subst hcs
    have hde := hra.de
    have hme1 : a1.mta.endMarker ≤ a1.data.endMarker := by
      have := hra.ok2.noOv
      have := hra.ok.dEnd
      have e1 : (a1.wm f.alloc.data.endMarker).maxPages = f.alloc.data.endMarker := rfl
      have e2 : (a1.wm f.alloc.data.endMarker).mta.endMarker = a1.mta.endMarker := rfl
      have e3 : (a1.wm f.alloc.data.endMarker).data.endMarker = a1.data.endMarker := rfl
      omega
    obtain ⟨e1, e2⟩ := commitState_ends a1 st1 regs
    rw [rz_commit_eq]
    show (commitState a1 st1 regs).dataEnd ≤ f.alloc.data.endMarker ∧ (commitState a1 st1 regs).metaEnd ≤ f.alloc.data.endMarker
    omega

theorem rz_shrink_extent {g : FileSt} {live : List Nat} {n : Nat} (he : ShrinkPre g live n)
    (hme : g.alloc.mta.endMarker ≤ g.alloc.data.endMarker) (hn : 0 < n) :
    (g.resizeShrink n).1.alloc.data.endMarker ≤ g.alloc.data.endMarker ∧
    (g.resizeShrink n).1.alloc.mta.endMarker ≤ g.alloc.data.endMarker := by
  have h1 : EngInvR ({ g with alloc := { g.alloc with maxPages := n }, txid := g.txid + 1 } : FileSt) live := he.inv
  unfold FileSt.resizeShrink
  dsimp only
  split
  · rename_i hcan
    have hfull : n ≤ g.alloc.data.endMarker := by
      simp only [canRelease, Bool.or_eq_true, Bool.and_eq_true, decide_eq_true_eq] at hcan
      rcases hcan with hc | hc
      · exact Nat.le_of_lt hc.2
      · have : n < g.alloc.mta.endMarker := hc.2
        omega
    have hpre : RelPre ({ g with alloc := { g.alloc with maxPages := n }, txid := g.txid + 1 } : FileSt).alloc :=
      ⟨h1.wfr, hme, hn, hfull, he.ends⟩
    have h2 := rz_releaseTx_extent _ hpre
      (fun x hx => by have := (h1.wfr.metaRange x hx).2.1; exact Nat.lt_of_lt_of_le this hme)
    generalize ({ g with alloc := { g.alloc with maxPages := n }, txid := g.txid + 1 } : FileSt).releaseTx = r at h2
    obtain ⟨f2, res⟩ := r
    cases res <;> exact h2
  · exact ⟨Nat.le_refl _, hme⟩

/-- the end markers after the update never lie above the larger of the end markers before -/
theorem rz_resizeWith_extent {f : FileSt} {live : List Nat} (he : EngInv f live) (k : RKind) (n : Nat)
    (hk : k.pre f n) :
    (f.resizeWith k n).1.alloc.data.endMarker ≤ max f.alloc.data.endMarker f.alloc.mta.endMarker ∧
    (f.resizeWith k n).1.alloc.mta.endMarker ≤ max f.alloc.data.endMarker f.alloc.mta.endMarker := by
  have ab : ∀ a : Alloc, a.absorbOverflow.data.endMarker ≤ max a.data.endMarker a.mta.endMarker ∧
      a.absorbOverflow.mta.endMarker = a.mta.endMarker := by
    intro a
    have h1 := rz_absorb_max a
    have h2 : a.absorbOverflow.mta = a.mta := (absorb_keeps a).2.1
    rw [h2] at h1
    exact ⟨by omega, by rw [h2]⟩
  cases k
  · show f.alloc.absorbOverflow.data.endMarker ≤ _ ∧ f.alloc.absorbOverflow.mta.endMarker ≤ _
    have := ab f.alloc; omega
  · have := ab ({ f.alloc with maxPages := n, data := { f.alloc.data with endMarker := f.alloc.data.endMarker } } : Alloc)
    exact ⟨this.1, by rw [show (f.resizeWith RKind.bound n).1.alloc.mta.endMarker = _ from this.2]; exact Nat.le_max_right _ _⟩
  · have h1 := ab f.alloc
    have h2 := ab ({ f.reopen.alloc with maxPages := n } : Alloc)
    have e : ({ f.reopen.alloc with maxPages := n } : Alloc).data.endMarker = f.alloc.absorbOverflow.data.endMarker := rfl
    have e' : ({ f.reopen.alloc with maxPages := n } : Alloc).mta.endMarker = f.alloc.absorbOverflow.mta.endMarker := rfl
    rw [e, e'] at h2
    show ({ f.reopen.alloc with maxPages := n } : Alloc).absorbOverflow.data.endMarker ≤ _ ∧
      ({ f.reopen.alloc with maxPages := n } : Alloc).absorbOverflow.mta.endMarker ≤ _
    omega
  · obtain ⟨k1, k2⟩ := hk
    have h1 := ab f.alloc
    have h2 := rz_shrink_extent (ShrinkPre.ofEngInv (engInv_reopen he) n) (rz_reopen_ends he k1) k2
    have e : f.reopen.alloc.data.endMarker = f.alloc.absorbOverflow.data.endMarker := rfl
    rw [e] at h2
    show (f.reopen.resizeShrink n).1.alloc.data.endMarker ≤ _ ∧ (f.reopen.resizeShrink n).1.alloc.mta.endMarker ≤ _
    omega
  · obtain ⟨k1, k2⟩ := hk
    have h1 := ab ({ f.alloc with maxPages := n, data := { f.alloc.data with endMarker := f.alloc.data.endMarker } } : Alloc)
    have h2 := rz_shrink_extent (rz_openAt_shrinkPre he n) (rz_openAt_ends f n (by omega)) k1
    have e : (f.openAt n f.alloc.data.endMarker).alloc.data.endMarker =
        ({ f.alloc with maxPages := n, data := { f.alloc.data with endMarker := f.alloc.data.endMarker } } : Alloc).absorbOverflow.data.endMarker := rfl
    rw [e] at h2
    have h1' : ({ f.alloc with maxPages := n, data := { f.alloc.data with endMarker := f.alloc.data.endMarker } } : Alloc).absorbOverflow.data.endMarker ≤
        max f.alloc.data.endMarker f.alloc.mta.endMarker := h1.1
    show ((f.openAt n f.alloc.data.endMarker).resizeShrink n).1.alloc.data.endMarker ≤ _ ∧
      ((f.openAt n f.alloc.data.endMarker).resizeShrink n).1.alloc.mta.endMarker ≤ _
    omega

/-! ### the release is maximal for the data area -/

theorem rz_releaseTx_done (f f2 : FileSt) (he : RelPre f.alloc) (hr : f.releaseTx = (f2, .done)) :
    ∃ a1 st1 regs, RelAlloc f.alloc a1 st1 regs ∧ a1.mta.endMarker ≤ a1.data.endMarker ∧
      f2.alloc = a1.commit (commitState a1 st1 regs) := by
  unfold FileSt.releaseTx at hr
  dsimp only at hr
  cases hc : fileCommitAlloc f.alloc (f.alloc.beginTx false 0) true with
  | none => rw [hc] at hr; simp at hr
  | some r =>
    obtain ⟨a1, st1, cs⟩ := r
    rw [hc] at hr
    simp only [Prod.mk.injEq, and_true] at hr
    subst hr
    obtain ⟨hcs, hra⟩ := rz_release_alloc f.alloc a1 st1 cs he hc
    generalize cs.allocRegions = regs at hcs hra
    subst hcs
    refine ⟨a1, st1, regs, hra, ?_, rfl⟩
    have hde := hra.de
    have := hra.ok2.noOv
    have := hra.ok.dEnd
    have e1 : (a1.wm f.alloc.data.endMarker).maxPages = f.alloc.data.endMarker := rfl
    have e2 : (a1.wm f.alloc.data.endMarker).mta.endMarker = a1.mta.endMarker := rfl
    have e3 : (a1.wm f.alloc.data.endMarker).data.endMarker = a1.data.endMarker := rfl
    omega

/-- after a successful release transaction the last free region of the data area does not end at the data
    end marker any more, or the data end marker is within the limit: nothing more can be released there -/
theorem rz_releaseTx_maximal (f f2 : FileSt) (he : RelPre f.alloc) (hr : f.releaseTx = (f2, .done)) :
    canRelease f2.alloc.data f.alloc.maxPages = false := by
  obtain ⟨a1, st1, regs, hra, hme1, hf2⟩ := rz_releaseTx_done f f2 he hr
  have e1 := rz_dataEnd1 a1 st1 hme1
  have eD : dataRel a1 st1 = releaseOverflow a1.data.free a1.maxPages a1.data.endMarker := by
    unfold dataRel; rw [e1, hra.fd, unionIds_nil_left]
  have hdata : f2.alloc.data = { endMarker := a1.data.endMarker - (releaseOverflow a1.data.free a1.maxPages a1.data.endMarker).2,
                                 free := (releaseOverflow a1.data.free a1.maxPages a1.data.endMarker).1 } := by
    rw [hf2, rz_commit_eq, commitState_eq]
    dsimp only
    rw [e1, eD]
  obtain ⟨-, h2, -, h4⟩ := releaseOverflow_decomp a1.data.free a1.maxPages a1.data.endMarker
  have hmx := hra.mx
  cases hcan : canRelease f2.alloc.data f.alloc.maxPages with
  | false => rfl
  | true =>
    exfalso
    rw [hdata] at hcan
    simp only [canRelease, Bool.and_eq_true, beq_iff_eq, decide_eq_true_eq] at hcan
    obtain ⟨hl, hlt⟩ := hcan
    unfold lastEnd at hl
    cases hg : (releaseOverflow a1.data.free a1.maxPages a1.data.endMarker).1.getLast? with
    | none => rw [hg] at hl; dsimp only at hl; omega
    | some y =>
      rw [hg] at hl
      dsimp only at hl
      obtain ⟨ys, hys⟩ := List.getLast?_eq_some_iff.mp hg
      have hpos := he.pos
      exact h4 (by omega) y ys hys ⟨hl, by omega⟩

theorem rz_shrink_maximal {g : FileSt} {live : List Nat} {n : Nat} (he : ShrinkPre g live n)
    (hme : g.alloc.mta.endMarker ≤ g.alloc.data.endMarker) (hn : 0 < n)
    (hd : (g.resizeShrink n).2 = .done) : canRelease (g.resizeShrink n).1.alloc.data n = false := by
  have h1 : EngInvR ({ g with alloc := { g.alloc with maxPages := n }, txid := g.txid + 1 } : FileSt) live := he.inv
  unfold FileSt.resizeShrink at hd ⊢
  dsimp only at hd ⊢
  split at hd
  · rename_i hcan
    rw [if_pos hcan]
    have hfull : n ≤ g.alloc.data.endMarker := by
      simp only [canRelease, Bool.or_eq_true, Bool.and_eq_true, decide_eq_true_eq] at hcan
      rcases hcan with hc | hc
      · exact Nat.le_of_lt hc.2
      · have : n < g.alloc.mta.endMarker := hc.2
        omega
    have hpre : RelPre ({ g with alloc := { g.alloc with maxPages := n }, txid := g.txid + 1 } : FileSt).alloc :=
      ⟨h1.wfr, hme, hn, hfull, he.ends⟩
    cases hrt : ({ g with alloc := { g.alloc with maxPages := n }, txid := g.txid + 1 } : FileSt).releaseTx with
    | mk f2 res =>
      rw [hrt] at hd
      cases res
      · cases hd
      · cases hd
      · exact rz_releaseTx_maximal _ f2 hpre hrt
  · cases hd

/-! ### opening again from the header the update leaves -/

def Alloc.setDE (a : Alloc) (d : Nat) : Alloc := { a with data := { a.data with endMarker := d } }

/-- the data end marker `absorbOverflow` computes -/
def absDE (mx d me : Nat) : Nat := if d < me ∧ (mx = 0 ∨ d < mx) then me else d

theorem absorb_setDE (a : Alloc) :
    a.absorbOverflow = a.setDE (absDE a.maxPages a.data.endMarker a.mta.endMarker) := by
  unfold Alloc.absorbOverflow absDE Alloc.setDE
  split <;> rfl

/-- absorbing under the old limit first does not change what is absorbed under a raised / removed limit -/
theorem absDE_grow (old n d me : Nat) (hn : n = 0 ∨ (0 < old ∧ old ≤ n)) :
    absDE n (absDE old d me) me = absDE n d me := by
  unfold absDE
  split <;> split <;> (try split) <;> omega

theorem fileSt_upd_eq (F : FileSt) (a : Alloc) (s : Nat) (ha : a = F.alloc) (hs : s = F.statData) :
    ({ F with alloc := a, statData := s } : FileSt) = F := by
  subst ha hs; rfl

/-- opening a state with its own limit and data end marker is reopening it -/
theorem rz_openAt_self (F : FileSt) (m : Nat) (h : m = F.alloc.maxPages) :
    F.openAt m F.alloc.data.endMarker = F.reopen := by
  subst h; rfl

/-- grow: the header keeps the old data end marker (`initTxMaxSize` copies the header) and carries the new
    limit; an instance opened from it computes the state of the instance that performed the update -/
theorem rz_grow_from_header (f : FileSt) (n : Nat) (hn : n = 0 ∨ (0 < f.alloc.maxPages ∧ f.alloc.maxPages ≤ n)) :
    (f.reopen.resizeGrow n).openAt n f.alloc.data.endMarker = f.reopen.resizeGrow n := by
  have hF : (f.reopen.resizeGrow n).alloc = (f.alloc.wm n).setDE
      (absDE n (absDE f.alloc.maxPages f.alloc.data.endMarker f.alloc.mta.endMarker) f.alloc.mta.endMarker) := by
    show ((f.alloc.absorbOverflow).wm n).absorbOverflow = _
    rw [absorb_setDE f.alloc, absorb_setDE]
    rfl
  have hX : ((f.reopen.resizeGrow n).openAt n f.alloc.data.endMarker).alloc = (f.alloc.wm n).setDE
      (absDE n f.alloc.data.endMarker f.alloc.mta.endMarker) := by
    show (((f.reopen.resizeGrow n).alloc.wm n).setDE f.alloc.data.endMarker).absorbOverflow = _
    rw [hF, absorb_setDE]
    rfl
  have hfix : (f.reopen.resizeGrow n).openAt n f.alloc.data.endMarker =
      { f.reopen.resizeGrow n with alloc := ((f.reopen.resizeGrow n).openAt n f.alloc.data.endMarker).alloc,
                                   statData := ((f.reopen.resizeGrow n).openAt n f.alloc.data.endMarker).statData } := rfl
  rw [hfix]
  apply fileSt_upd_eq
  · rw [hX, hF, absDE_grow _ _ _ _ hn]
  · show max f.alloc.data.endMarker (f.reopen.resizeGrow n).alloc.mta.endMarker - 2 - (f.reopen.resizeGrow n).alloc.metaTotal -
      (f.reopen.resizeGrow n).alloc.data.free.length = f.openStat
    rw [hF]
    rfl

theorem rz_shrink_not_done {g : FileSt} {live : List Nat} {n : Nat} (he : ShrinkPre g live n)
    (hme : g.alloc.mta.endMarker ≤ g.alloc.data.endMarker)
    (hnd : (g.resizeShrink n).2 ≠ .done) :
    (g.resizeShrink n).1 = { g with alloc := { g.alloc with maxPages := n }, txid := g.txid + 1 } := by
  have h1 : EngInvR ({ g with alloc := { g.alloc with maxPages := n }, txid := g.txid + 1 } : FileSt) live := he.inv
  unfold FileSt.resizeShrink at hnd ⊢
  dsimp only at hnd ⊢
  split
  · rename_i hcan
    rw [if_pos hcan] at hnd
    cases hrt : ({ g with alloc := { g.alloc with maxPages := n }, txid := g.txid + 1 } : FileSt).releaseTx with
    | mk f2 res =>
      rw [hrt] at hnd
      cases res
      · exact rz_releaseTx_not_done _ f2 _ h1.wfr (fun x hx => by have := (h1.wfr.metaRange x hx).2.1; exact Nat.lt_of_lt_of_le this hme) hrt (by simp)
      · exact rz_releaseTx_not_done _ f2 _ h1.wfr (fun x hx => by have := (h1.wfr.metaRange x hx).2.1; exact Nat.lt_of_lt_of_le this hme) hrt (by simp)
      · exact absurd rfl hnd
  · rfl

/-- shrink: if the release transaction committed, the header carries the in-memory end markers; otherwise it
    keeps the data end marker `d0` it had, which is the in-memory one if reading the header absorbed nothing.
    In both cases an instance opened from the header computes the state of the instance that performed
    the update. -/
theorem rz_shrink_from_header_gen {g : FileSt} {live : List Nat} {n : Nat} (hp : ShrinkPre g live n)
    (hme : g.alloc.mta.endMarker ≤ g.alloc.data.endMarker) (hs : g.statData = g.openStat) (hn : 0 < n) (d0 : Nat)
    (hc : (g.resizeShrink n).2 = .done ∨ g.alloc.data.endMarker = d0) :
    (g.resizeShrink n).1.openAt n (hdrDataEndAfter d0 (g.resizeShrink n)) = (g.resizeShrink n).1 := by
  have hre := rz_shrink_reopen hp hme hs hn
  have hde : hdrDataEndAfter d0 (g.resizeShrink n) = (g.resizeShrink n).1.alloc.data.endMarker := by
    unfold hdrDataEndAfter
    cases hres : (g.resizeShrink n).2 with
    | done => rfl
    | notRun =>
      rcases hc with hc | hc
      · rw [hres] at hc; cases hc
      · dsimp only
        have := rz_shrink_not_done hp hme (by rw [hres]; simp)
        rw [this, ← hc]
    | failed =>
      rcases hc with hc | hc
      · rw [hres] at hc; cases hc
      · dsimp only
        have := rz_shrink_not_done hp hme (by rw [hres]; simp)
        rw [this, ← hc]
  rw [hde, rz_openAt_self _ n (rz_shrink_max _ n).symm]
  exact hre

theorem rz_shrink_from_header {f : FileSt} {live : List Nat} (he : EngInv f live) (n : Nat)
    (hold : 0 < f.alloc.maxPages) (hn : 0 < n)
    (hc : (f.resizeWith .shrink n).2 = .done ∨ f.alloc.mta.endMarker ≤ f.alloc.data.endMarker) :
    (f.resizeWith .shrink n).1.openAt n (hdrDataEndAfter f.alloc.data.endMarker (f.resizeWith .shrink n)) =
      (f.resizeWith .shrink n).1 := by
  apply rz_shrink_from_header_gen (ShrinkPre.ofEngInv (engInv_reopen he) n) (rz_reopen_ends he hold)
    (by rw [rz_reopen_openStat]; rfl) hn
  rcases hc with hc | hc
  · exact Or.inl hc
  · right
    show f.alloc.absorbOverflow.data.endMarker = f.alloc.data.endMarker
    rw [absorb_id _ (Or.inl hc)]

/-- the same when a file without limit gets one (`boundShrink`) -/
theorem rz_boundShrink_from_header {f : FileSt} {live : List Nat} (he : EngInv f live) (n : Nat) (hn : 0 < n)
    (hg : f.alloc.mta.endMarker ≤ f.alloc.data.endMarker ∨ f.alloc.data.endMarker < n)
    (hc : (f.resizeWith .boundShrink n).2 = .done ∨ f.alloc.mta.endMarker ≤ f.alloc.data.endMarker) :
    (f.resizeWith .boundShrink n).1.openAt n (hdrDataEndAfter f.alloc.data.endMarker (f.resizeWith .boundShrink n)) =
      (f.resizeWith .boundShrink n).1 := by
  apply rz_shrink_from_header_gen (rz_openAt_shrinkPre he n) (rz_openAt_ends f n (by omega))
    (by unfold FileSt.openAt; rw [rz_reopen_openStat]; rfl) hn
  rcases hc with hc | hc
  · exact Or.inl hc
  · right
    have := absorb_id ({ f.alloc with maxPages := n, data := { f.alloc.data with endMarker := f.alloc.data.endMarker } } : Alloc) (Or.inl hc)
    show ({ f.alloc with maxPages := n, data := { f.alloc.data with endMarker := f.alloc.data.endMarker } } : Alloc).absorbOverflow.data.endMarker = f.alloc.data.endMarker
    rw [this]

/-! ### the txid -/

theorem rz_releaseTx_txid (f : FileSt) : f.txid ≤ f.releaseTx.1.txid := by
  unfold FileSt.releaseTx
  dsimp only
  split
  · exact Nat.le_refl _
  · exact Nat.le_succ _

/-- `shrinkFile` commits at least the header-only transaction -/
theorem rz_shrink_txid (g : FileSt) (n : Nat) : g.txid + 1 ≤ (g.resizeShrink n).1.txid := by
  unfold FileSt.resizeShrink
  dsimp only
  split
  · have hf := rz_releaseTx_txid ({ g with alloc := { g.alloc with maxPages := n }, txid := g.txid + 1 } : FileSt)
    generalize ({ g with alloc := { g.alloc with maxPages := n }, txid := g.txid + 1 } : FileSt).releaseTx = r at hf
    obtain ⟨f2, res⟩ := r
    cases res <;> exact hf
  · exact Nat.le_refl _

end TxVerif
