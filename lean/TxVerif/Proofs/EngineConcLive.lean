/-
  The concurrent engine semantics (Model/EngineConc.lean): what a step changes (`stepW_frame`, `stepR_frame`: the
  committed state changes only at the switch, and the switch happens only while no read transaction is open), the
  invariant `EngInvO` along schedules, absence of deadlock and termination.
-/
import TxVerif.Proofs.EngineConc
namespace TxVerif

/-! ### what a step changes -/

/-- a step of the writer is either THE SWITCH of a successful commit — no read transaction is open, the version counter
    goes up, the new committed state is the result of the sequential commit of the transaction — or it leaves version,
    owned pages and the abstract store of the last commit alone, and the committed state up to the disk content of
    pages no owned page is read from (`SameCommitted`: allocator, mapping, mapping pages, root, txid, statistic equal) -/
theorem stepW_frame (s s' : EState) (hi : ECInv s) (h : s.stepW = some s') :
    (s'.ver = s.ver + 1 ∧ (∀ r ∈ s.rds, r.snap = none) ∧ s'.rds = s.rds ∧ s'.wlog = s.wlog ++ [.committed] ∧
      ∃ w rest f2 tx2 ws, s.wprog = w :: rest ∧
        flushList (w.t.run (s.com, s.live)).f (w.t.run (s.com, s.live)).tx w.t.order = .ok (f2, tx2, ws) ∧
        tx2.unflushed = [] ∧ (commitAfterFlush f2 tx2).2.1 = .ok ∧ s'.com = (commitAfterFlush f2 tx2).1 ∧
        s'.live = (w.t.run (s.com, s.live)).cur ∧ s'.lastσ = (w.t.run (s.com, s.live)).σ) ∨
    (s'.ver = s.ver ∧ s'.live = s.live ∧ s'.lastσ = s.lastσ ∧ s'.rds = s.rds ∧
      (s'.com = s.com ∨ SameCommitted s.com s.live s'.com) ∧
      (s'.wlog = s.wlog ∨ ∃ o, o ≠ WOut.committed ∧ s'.wlog = s.wlog ++ [o])) := by
  have hw := hi.w
  unfold EWInv at hw
  unfold EState.stepW at h
  cases hp : s.wprog with
  | nil => rw [hp] at h; cases h
  | cons w rest =>
    rw [hp] at h
    dsimp only at h
    cases hpc : s.wpc with
    | idle =>
      rw [hpc] at h
      dsimp only at h
      split at h
      · cases h
      · simp only [Option.some.injEq] at h
        subst h
        exact Or.inr ⟨rfl, rfl, rfl, rfl, Or.inl rfl, Or.inl rfl⟩
    | active r ops =>
      rw [hpc] at h hw
      obtain ⟨w', rest', done, hp', hdone, hr⟩ := hw
      rw [hp] at hp'
      cases hp'
      cases ops with
      | cons op ops =>
        simp only [Option.some.injEq] at h
        subst h
        exact Or.inr ⟨rfl, rfl, rfl, rfl, Or.inl rfl, Or.inl rfl⟩
      | nil =>
        rw [List.append_nil] at hdone
        subst hdone
        dsimp only at h
        split at h
        · simp only [Option.some.injEq] at h
          subst h
          refine Or.inr ⟨rfl, rfl, rfl, rfl, Or.inr ?_, Or.inr ⟨.rolledBack, by decide, rfl⟩⟩
          rw [hr]
          exact sameCommittedU_of_abort s.com s.live hi.he _ _ _ _
        · simp only [Option.some.injEq] at h
          subst h
          exact Or.inr ⟨rfl, rfl, rfl, rfl, Or.inl rfl, Or.inl rfl⟩
    | pending r =>
      rw [hpc] at h hw
      obtain ⟨w', rest', hp', hr⟩ := hw
      rw [hp] at hp'
      cases hp'
      dsimp only at h
      subst hr
      cases hfl : flushList (w.t.run (s.com, s.live)).f (w.t.run (s.com, s.live)).tx w.t.order with
      | error e =>
        rw [hfl] at h
        simp only [Option.some.injEq] at h
        subst h
        exact Or.inr ⟨rfl, rfl, rfl, rfl, Or.inr (sameCommittedU_of_abort s.com s.live hi.he _ _ _ _),
          Or.inr ⟨.failed, by decide, rfl⟩⟩
      | ok q =>
        obtain ⟨f2, tx2, ws⟩ := q
        rw [hfl] at h
        dsimp only at h
        split at h
        · rename_i hall
          split at h
          · simp only [Option.some.injEq] at h
            subst h
            exact Or.inr ⟨rfl, rfl, rfl, rfl, Or.inl rfl, Or.inl rfl⟩
          · rename_i hfail
            simp only [Option.some.injEq] at h
            subst h
            exact Or.inr ⟨rfl, rfl, rfl, rfl,
              Or.inr (sameCommittedU_of_failed s.com s.live hi.he _ _ _ _ _ f2 tx2 ws hfl hall hfail),
              Or.inr ⟨.failed, by decide, rfl⟩⟩
        · simp only [Option.some.injEq] at h
          subst h
          exact Or.inr ⟨rfl, rfl, rfl, rfl,
            Or.inr (sameCommittedU_of_abort_after_flush s.com s.live hi.he _ _ _ _ _ f2 tx2 ws hfl),
            Or.inr ⟨.failed, by decide, rfl⟩⟩
    | waitExcl F cur σ =>
      rw [hpc] at h hw
      obtain ⟨w', rest', f2, tx2, ws, hp', hfl, hall, hok, hF, hcur, hσ⟩ := hw
      rw [hp] at hp'
      cases hp'
      dsimp only at h
      split at h
      · cases h
      · rename_i hsh
        simp only [Option.some.injEq] at h
        subst h
        have hs0 : openCount s.rds = 0 := by
          have := hi.shared
          have hsh' : s.lock.shared = 0 := by
            false_or_by_contra
            rename_i hne
            exact hsh hne
          omega
        exact Or.inl ⟨rfl, openCount_zero s.rds hs0, rfl, rfl, w, rest, f2, tx2, ws, rfl, hfl, hall, hok, hF, hcur, hσ⟩

/-- a step of a reader changes nothing but that reader's thread state and the shared count -/
theorem stepR_frame (s s' : EState) (i : Nat) (h : s.step (i + 1) = some s') :
    s'.com = s.com ∧ s'.live = s.live ∧ s'.ver = s.ver ∧ s'.lastσ = s.lastσ ∧ s'.wpc = s.wpc ∧ s'.wprog = s.wprog ∧
    s'.wlog = s.wlog ∧ s'.curFile = s.curFile := by
  rw [step_succ] at h
  cases hget : s.rds[i]? with
  | none => rw [hget] at h; cases h
  | some r =>
    rw [hget] at h
    dsimp only at h
    cases hst : r.step s with
    | none => rw [hst] at h; cases h
    | some q =>
      rw [hst] at h
      simp only [Option.some.injEq] at h
      subst h
      exact ⟨rfl, rfl, rfl, rfl, rfl, rfl, rfl, rfl⟩

/-! ### `EngInvO` along schedules -/

/-- if the committed state satisfies the stronger invariant `EngInvO`, it does so after every step -/
theorem step_engInvO (s s' : EState) (t : Nat) (hi : ECInv s) (ho : EngInvO s.com s.live) (h : s.step t = some s') :
    EngInvO s'.com s'.live := by
  cases t with
  | zero =>
    rcases stepW_frame s s' hi h with ⟨-, -, -, -, w, rest, f2, tx2, ws, -, hfl, hall, hok, hc, hl, -⟩ |
      ⟨-, hl, -, -, hc, -⟩
    · rw [hc, hl]
      exact c03o_commit_invariant s.com s.live ho _ _ _ _ _ f2 tx2 ws hfl hall hok
    · rw [hl]
      rcases hc with hc | hc
      · rw [hc]; exact ho
      · exact Ov.sameCommitted_engInv ho hc
  | succ i =>
    obtain ⟨h1, h2, -⟩ := stepR_frame s s' i h
    rw [h1, h2]; exact ho

theorem run_engInvO : ∀ (sched : List Nat) (s : EState), ECInv s → EngInvO s.com s.live →
    EngInvO (s.run sched).com (s.run sched).live := by
  intro sched
  induction sched with
  | nil => intro s _ ho; exact ho
  | cons t ts ih =>
    intro s hi ho
    unfold EState.run
    cases hs : s.step t with
    | none => exact ih s hi ho
    | some s' => exact ih s' (step_cinv s s' t hi hs) (step_engInvO s s' t hi ho hs)

/-! ### no deadlock -/

/-- an open reader can always take a step -/
theorem rstep_open (s : EState) (r : RTh) (sn : Snap) (h : r.snap = some sn) : (r.step s).isSome = true := by
  unfold RTh.step
  rw [h]
  cases r.prog with
  | nil => rfl
  | cons op p => cases op <;> rfl

/-- a reader that is not finished can take a step unless it waits for a pending commit -/
theorem rstep_nopending (s : EState) (r : RTh) (hp : s.lock.pending = false)
    (hn : ¬ (r.prog = [] ∧ r.snap = none)) : (r.step s).isSome = true := by
  cases hs : r.snap with
  | some sn => exact rstep_open s r sn hs
  | none =>
    unfold RTh.step
    rw [hs]
    cases hpr : r.prog with
    | nil => exact absurd ⟨hpr, hs⟩ hn
    | cons op p =>
      cases op with
      | begin => simp [hp]
      | read id => rfl
      | close => rfl

theorem step_of_rstep (s : EState) (r : RTh) (hr : r ∈ s.rds) (h : (r.step s).isSome = true) :
    ∃ t, (s.step t).isSome = true := by
  obtain ⟨i, hi⟩ := List.getElem?_of_mem hr
  refine ⟨i + 1, ?_⟩
  rw [step_succ, hi]
  dsimp only
  cases hst : r.step s with
  | none => rw [hst] at h; cases h
  | some q => rfl

/-- **no deadlock**: in every state satisfying the invariant in which not everything is finished some thread can step -/
theorem cinv_no_deadlock (s : EState) (hi : ECInv s) (hfin : s.finished = false) : ∃ t, (s.step t).isSome = true := by
  have hw := hi.w
  unfold EWInv at hw
  cases hp : s.wprog with
  | cons w rest =>
    cases hpc : s.wpc with
    | idle =>
      refine ⟨0, ?_⟩
      show (s.stepW).isSome = true
      unfold EState.stepW
      rw [hp, hpc]
      have : s.lock.reserved = false := by rw [hi.res, hpc]; rfl
      simp [this]
    | active r ops =>
      refine ⟨0, ?_⟩
      show (s.stepW).isSome = true
      unfold EState.stepW
      rw [hp, hpc]
      cases ops with
      | cons op ops => rfl
      | nil => dsimp only; split <;> rfl
    | pending r =>
      refine ⟨0, ?_⟩
      show (s.stepW).isSome = true
      unfold EState.stepW
      rw [hp, hpc]
      dsimp only
      split
      · rfl
      · split
        · split <;> rfl
        · rfl
    | waitExcl F cur σ =>
      by_cases hsh : s.lock.shared = 0
      · refine ⟨0, ?_⟩
        show (s.stepW).isSome = true
        unfold EState.stepW
        rw [hp, hpc]
        simp [hsh]
      · -- the commit waits for an open read transaction: that reader can step
        have : openCount s.rds ≠ 0 := by rw [← hi.shared]; exact hsh
        obtain ⟨r, hr, sn, hsn⟩ := openCount_pos s.rds this
        exact step_of_rstep s r hr (rstep_open s r sn hsn)
  | nil =>
    -- the writer is finished: some reader is not, and nothing is pending
    have hidle : s.wpc = .idle := by
      cases hpc : s.wpc with
      | idle => rfl
      | active r ops => rw [hpc] at hw; obtain ⟨w, rest, _, h, _⟩ := hw; rw [hp] at h; cases h
      | pending r => rw [hpc] at hw; obtain ⟨w, rest, h, _⟩ := hw; rw [hp] at h; cases h
      | waitExcl F cur σ => rw [hpc] at hw; obtain ⟨w, rest, _, _, _, h, _⟩ := hw; rw [hp] at h; cases h
    have hpend : s.lock.pending = false := by rw [hi.pend, hidle]; rfl
    unfold EState.finished at hfin
    rw [hp] at hfin
    simp only [List.isEmpty_nil, Bool.true_and, List.all_eq_false] at hfin
    obtain ⟨r, hr, hnf⟩ := hfin
    apply step_of_rstep s r hr
    apply rstep_nopending s r hpend
    rintro ⟨h1, h2⟩
    apply hnf
    rw [h1, h2]; rfl

/-! ### termination -/

def txCost (w : WTxn) : Nat := w.t.ops.length + 4

def progCost (l : List WTxn) : Nat := (l.map txCost).sum

/-- steps the writer still has to take -/
def muW (s : EState) : Nat :=
  match s.wpc with
  | .idle => progCost s.wprog
  | .active _ ops => ops.length + 3 + progCost s.wprog.tail
  | .pending _ => 2 + progCost s.wprog.tail
  | .waitExcl _ _ _ => 1 + progCost s.wprog.tail

def muR (r : RTh) : Nat := 2 * r.prog.length + r.isOpen

/-- steps still to be taken -/
def emu (s : EState) : Nat := muW s + (s.rds.map muR).sum

theorem sum_map_set (g : RTh → Nat) : ∀ (l : List RTh) (i : Nat) (r r' : RTh), l[i]? = some r →
    ((l.set i r').map g).sum + g r = (l.map g).sum + g r' := by
  intro l
  induction l with
  | nil => intro i r r' h; simp at h
  | cons x xs ih =>
    intro i r r' h
    cases i with
    | zero =>
      simp only [List.getElem?_cons_zero, Option.some.injEq] at h
      subst h
      simp only [List.set_cons_zero, List.map_cons, List.sum_cons]
      omega
    | succ j =>
      simp only [List.getElem?_cons_succ] at h
      have := ih j r r' h
      simp only [List.set_cons_succ, List.map_cons, List.sum_cons] at this ⊢
      omega

theorem rstep_mu (s : EState) (r r' : RTh) (l' : LockSt) (h : r.step s = some (r', l')) : muR r' < muR r := by
  unfold RTh.step at h
  split at h
  · cases h
  · rename_i sn hp hs
    simp only [Option.some.injEq, Prod.mk.injEq] at h
    obtain ⟨rfl, -⟩ := h
    simp only [muR, RTh.isOpen, hs, hp]
    simp
  · rename_i p hp hs
    split at h
    · cases h
    · simp only [Option.some.injEq, Prod.mk.injEq] at h
      obtain ⟨rfl, -⟩ := h
      simp only [muR, RTh.isOpen, hs, hp, List.length_cons]
      simp; omega
  all_goals
    rename_i hp hs
    simp only [Option.some.injEq, Prod.mk.injEq] at h
    obtain ⟨rfl, -⟩ := h
    simp only [muR, RTh.isOpen, hs, hp, List.length_cons]
    simp <;> omega

theorem stepW_mu (s s' : EState) (h : s.stepW = some s') : muW s' < muW s ∧ s'.rds = s.rds := by
  unfold EState.stepW at h
  cases hp : s.wprog with
  | nil => rw [hp] at h; cases h
  | cons w rest =>
    rw [hp] at h
    dsimp only at h
    have hc : progCost (w :: rest) = w.t.ops.length + 4 + progCost rest := by
      simp [progCost, txCost]
    cases hpc : s.wpc with
    | idle =>
      rw [hpc] at h
      dsimp only at h
      split at h
      · cases h
      · simp only [Option.some.injEq] at h
        subst h
        simp only [muW, hpc, hp, List.tail_cons, hc]
        exact ⟨by omega, trivial⟩
    | active r ops =>
      rw [hpc] at h
      cases ops with
      | cons op ops =>
        simp only [Option.some.injEq] at h
        subst h
        simp only [muW, hpc, hp, List.tail_cons, List.length_cons]
        exact ⟨by omega, trivial⟩
      | nil =>
        dsimp only at h
        split at h
        · simp only [Option.some.injEq] at h
          subst h
          simp only [muW, hpc, EState.endTx, hp, List.tail_cons, List.length_nil]
          exact ⟨by omega, trivial⟩
        · simp only [Option.some.injEq] at h
          subst h
          simp only [muW, hpc, hp, List.tail_cons, List.length_nil]
          exact ⟨by omega, trivial⟩
    | pending r =>
      rw [hpc] at h
      dsimp only at h
      split at h
      · simp only [Option.some.injEq] at h
        subst h
        simp only [muW, hpc, EState.endTx, hp, List.tail_cons]
        exact ⟨by omega, trivial⟩
      · split at h
        · split at h
          · simp only [Option.some.injEq] at h
            subst h
            simp only [muW, hpc, hp, List.tail_cons]
            exact ⟨by omega, trivial⟩
          · simp only [Option.some.injEq] at h
            subst h
            simp only [muW, hpc, EState.endTx, hp, List.tail_cons]
            exact ⟨by omega, trivial⟩
        · simp only [Option.some.injEq] at h
          subst h
          simp only [muW, hpc, EState.endTx, hp, List.tail_cons]
          exact ⟨by omega, trivial⟩
    | waitExcl F cur σ =>
      rw [hpc] at h
      dsimp only at h
      split at h
      · cases h
      · simp only [Option.some.injEq] at h
        subst h
        simp only [muW, hpc, hp, List.tail_cons]
        exact ⟨by omega, trivial⟩

/-- every step decreases the measure -/
theorem estep_mu (s s' : EState) (t : Nat) (h : s.step t = some s') : emu s' < emu s := by
  cases t with
  | zero =>
    obtain ⟨h1, h2⟩ := stepW_mu s s' h
    unfold emu
    rw [h2]; omega
  | succ i =>
    have hf := stepR_frame s s' i h
    rw [step_succ] at h
    cases hget : s.rds[i]? with
    | none => rw [hget] at h; cases h
    | some r =>
      rw [hget] at h
      dsimp only at h
      cases hst : r.step s with
      | none => rw [hst] at h; cases h
      | some q =>
        obtain ⟨r', l'⟩ := q
        rw [hst] at h
        simp only [Option.some.injEq] at h
        have h1 := rstep_mu s r r' l' hst
        have h2 := sum_map_set muR s.rds i r r' hget
        have hw : muW s' = muW s := by
          unfold muW; rw [hf.2.2.2.2.1, hf.2.2.2.2.2.1]
        have hr : s'.rds = s.rds.set i r' := by rw [← h]
        unfold emu
        rw [hw, hr]
        omega

/-- the number of steps a schedule really takes (a scheduled thread that cannot step is skipped) -/
def EState.effSteps : EState → List Nat → Nat
  | _, [] => 0
  | s, t :: ts =>
    match s.step t with
    | some s' => EState.effSteps s' ts + 1
    | none => EState.effSteps s ts

theorem ec_effSteps_le : ∀ (sched : List Nat) (s : EState), s.effSteps sched ≤ emu s := by
  intro sched
  induction sched with
  | nil => intro s; simp [EState.effSteps]
  | cons t ts ih =>
    intro s
    simp only [EState.effSteps]
    cases hs : s.step t with
    | none => exact ih s
    | some s' =>
      simp only
      have := estep_mu s s' t hs
      have := ih s'
      omega

end TxVerif
