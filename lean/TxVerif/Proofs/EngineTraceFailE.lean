/-
  C08 for the engine model, lemmas part E: histories of transactions with I/O outcomes. State ids along a
  history, the reach sets `histReachF`, acceptance of the trace of a history.
-/
import TxVerif.Proofs.EngineTraceFailD
namespace TxVerif

theorem engRunF_cons (x : EngFS) (t : TxnF) (ts : List TxnF) : engRunF x (t :: ts) = engRunF (engNextF x t) ts := rfl

theorem engRunF_snoc (x : EngFS) (ts : List TxnF) (t : TxnF) : engRunF x (ts ++ [t]) = engNextF (engRunF x ts) t := by
  unfold engRunF; rw [List.foldl_append]; rfl

/-- what one transaction does to the ghost data: either the committed state stays (same state id, same reach
    set; a state id is consumed exactly if a header was written), or the transaction commits -/
theorem engNextF_ids {x : EngFS} (fok : FOk x) (t : TxnF) :
    FOk (engNextF x t) ∧
    (((engNextF x t).sid = x.sid ∧ engReach (engNextF x t).e = engReach x.e ∧
        (engNextF x t).nsid = (if hdrAttempt x t then x.nsid + 1 else x.nsid)) ∨
     (hdrAttempt x t = true ∧ (engNextF x t).sid = x.nsid ∧ (engNextF x t).nsid = x.nsid + 1 ∧
        (engNextF x t).e = engNext x.e t.t)) := by
  by_cases hc : t.t.t.commits (x.e.f, x.e.live)
  · have hcb := commitsB_of _ _ hc
    cases ho : t.out with
    | normal =>
      obtain ⟨ok', htx, -⟩ := engOk_next_commit fok.ok t.t hc
      have enx : engNextF x t = { e := engNext x.e t.t, prev := (x.e.f.txid, x.sid), sid := x.nsid, nsid := x.nsid + 1 } := by
        unfold engNextF; rw [hcb, ho]; simp only [if_true]
      rw [enx]
      refine ⟨⟨ok', by show x.nsid < x.nsid + 1; omega, by show x.e.f.txid < (engNext x.e t.t).f.txid; rw [htx]; omega⟩,
        Or.inr ⟨by simp [hdrAttempt, hcb, ho], rfl, rfl, rfl⟩⟩
    | dataSyncFail k after =>
      have hne : t.out ≠ .normal := by rw [ho]; intro h; cases h
      obtain ⟨ok', hreach, htx, -, -, -⟩ := engRestored_ok fok t hc hne
      have enx : engNextF x t = { x with e := engRestored x t } := by
        unfold engNextF; rw [hcb, ho]; simp only [if_true]
      rw [enx]
      refine ⟨⟨ok', fok.ids, by show x.prev.1 < (engRestored x t).f.txid; rw [htx]; exact fok.prev⟩,
        Or.inl ⟨rfl, hreach, by simp [hdrAttempt, hcb, ho]⟩⟩
    | finalSyncFail k =>
      have hne : t.out ≠ .normal := by rw [ho]; intro h; cases h
      obtain ⟨ok', hreach, htx, -, -, -⟩ := engRestored_ok fok t hc hne
      have enx : engNextF x t = { x with e := engRestored x t, nsid := x.nsid + 1 } := by
        unfold engNextF; rw [hcb, ho]; simp only [if_true]
      rw [enx]
      refine ⟨⟨ok', by show x.sid < x.nsid + 1; have := fok.ids; omega,
        by show x.prev.1 < (engRestored x t).f.txid; rw [htx]; exact fok.prev⟩,
        Or.inl ⟨rfl, hreach, by simp [hdrAttempt, hcb, ho]⟩⟩
    | finalSyncGiveUp k =>
      have hne : t.out ≠ .normal := by rw [ho]; intro h; cases h
      obtain ⟨ok', hreach, htx, -, -, -⟩ := engRestored_ok fok t hc hne
      have enx : engNextF x t = { x with e := engRestored x t, nsid := x.nsid + 1 } := by
        unfold engNextF; rw [hcb, ho]; simp only [if_true]
      rw [enx]
      refine ⟨⟨ok', by show x.sid < x.nsid + 1; have := fok.ids; omega,
        by show x.prev.1 < (engRestored x t).f.txid; rw [htx]; exact fok.prev⟩,
        Or.inl ⟨rfl, hreach, by simp [hdrAttempt, hcb, ho]⟩⟩
  · have hcb := commitsB_not _ _ hc
    obtain ⟨ok', hreach, htx, -⟩ := engOk_next_abort fok.ok t.t hc
    have enx : engNextF x t = { x with e := engNext x.e t.t } := by
      unfold engNextF; rw [hcb]; simp
    rw [enx]
    refine ⟨⟨ok', fok.ids, by show x.prev.1 < (engNext x.e t.t).f.txid; rw [htx]; exact fok.prev⟩,
      Or.inl ⟨rfl, hreach, by simp [hdrAttempt, hcb]⟩⟩

theorem fok_run {x : EngFS} (fok : FOk x) (ts : List TxnF) : FOk (engRunF x ts) := by
  induction ts generalizing x with
  | nil => exact fok
  | cons t ts ih => exact ih (engNextF_ids fok t).1

/-- state ids along a history: the committed state id stays (with the reach set) or moves to an id that was
    unused before; unused ids stay unused -/
theorem engRunF_ids {x : EngFS} (fok : FOk x) (ts : List TxnF) :
    (((engRunF x ts).sid = x.sid ∧ engReach (engRunF x ts).e = engReach x.e) ∨ x.nsid ≤ (engRunF x ts).sid) ∧
    x.nsid ≤ (engRunF x ts).nsid := by
  induction ts generalizing x with
  | nil => exact ⟨Or.inl ⟨rfl, rfl⟩, Nat.le_refl _⟩
  | cons t ts ih =>
    rw [engRunF_cons]
    obtain ⟨fok', hs⟩ := engNextF_ids fok t
    obtain ⟨i1, i2⟩ := ih fok'
    have hids := fok.ids
    rcases hs with ⟨s1, s2, s3⟩ | ⟨-, s1, s2, -⟩
    · have hn : x.nsid ≤ (engNextF x t).nsid := by rw [s3]; split <;> omega
      refine ⟨?_, by omega⟩
      rcases i1 with ⟨a, b⟩ | a
      · exact Or.inl ⟨a.trans s1, b.trans s2⟩
      · exact Or.inr (by omega)
    · refine ⟨Or.inr ?_, by omega⟩
      rcases i1 with ⟨a, -⟩ | a
      · omega
      · omega

/-- `reachOf` gives the reach set of every committed state of the history and of the state of every commit
    attempt that wrote a header -/
def FReachOK (reachOf : Nat → List (Nat × Hash)) (x : EngFS) (ts : List TxnF) : Prop :=
  ∀ k, k ≤ ts.length →
    reachOf (engRunF x (ts.take k)).sid = engReach (engRunF x (ts.take k)).e ∧
    ∀ hk : k < ts.length, hdrAttempt (engRunF x (ts.take k)) ts[k] = true →
      reachOf (engRunF x (ts.take k)).nsid = engReach (engNext (engRunF x (ts.take k)).e ts[k].t)

theorem histReachF_unfold (x : EngFS) (t : TxnF) (ts : List TxnF) (q : Nat) :
    histReachF x (t :: ts) q =
      if q = x.sid then engReach x.e
      else if hdrAttempt x t = true ∧ q = x.nsid then engReach (engNext x.e t.t)
      else histReachF (engNextF x t) ts q := by
  rw [histReachF]
  by_cases h1 : q = x.sid
  · simp [h1]
  · simp only [h1, if_false, Bool.and_eq_true, beq_iff_eq]

/-- **`histReachF` is the reach set of the states of the history** -/
theorem histReachF_spec {x : EngFS} (fok : FOk x) (ts : List TxnF) : FReachOK (histReachF x ts) x ts := by
  induction ts generalizing x with
  | nil =>
    intro k hk
    have : k = 0 := by simpa using hk
    subst this
    refine ⟨?_, fun hk => absurd hk (by simp)⟩
    show histReachF x [] x.sid = engReach x.e
    simp [histReachF]
  | cons t ts ih =>
    intro k hk
    have hids := fok.ids
    cases k with
    | zero =>
      refine ⟨by show histReachF x (t :: ts) x.sid = engReach x.e; rw [histReachF_unfold]; simp, ?_⟩
      intro _ hatt
      show histReachF x (t :: ts) x.nsid = engReach (engNext x.e t.t)
      have hatt' : hdrAttempt x t = true := hatt
      rw [histReachF_unfold]
      have : ¬ (x.nsid = x.sid) := by omega
      simp [this, hatt']
    | succ k =>
      have hk' : k ≤ ts.length := by simp only [List.length_cons] at hk; omega
      obtain ⟨fok', hs⟩ := engNextF_ids fok t
      obtain ⟨i1, i2⟩ := ih fok' k hk'
      obtain ⟨m1, m2⟩ := engRunF_ids fok' (ts.take k)
      simp only [List.take_succ_cons, engRunF_cons]
      have hids' := fok'.ids
      refine ⟨?_, ?_⟩
      · rw [histReachF_unfold]
        rcases hs with ⟨s1, s2, s3⟩ | ⟨s0, s1, s2, s3⟩
        · rcases m1 with ⟨a, b⟩ | a
          · rw [if_pos (a.trans s1), b, s2]
          · have hn : x.nsid ≤ (engNextF x t).nsid := by rw [s3]; split <;> omega
            rw [if_neg (by omega), if_neg ?_]
            · exact i1
            · rintro ⟨hatt, he⟩
              rw [s3, if_pos hatt] at a
              omega
        · rcases m1 with ⟨a, b⟩ | a
          · rw [if_neg (by omega), if_pos ⟨s0, a.trans s1⟩, b, s3]
          · rw [if_neg (by omega), if_neg (by rintro ⟨-, he⟩; omega)]
            exact i1
      · intro hk2 hatt
        have hk3 : k < ts.length := by simp only [List.length_cons] at hk2; omega
        have hatt' : hdrAttempt (engRunF (engNextF x t) (ts.take k)) ts[k] = true := by
          simpa only [List.getElem_cons_succ] using hatt
        have hn : x.nsid ≤ (engNextF x t).nsid ∧ (hdrAttempt x t = true → x.nsid + 1 ≤ (engNextF x t).nsid) := by
          rcases hs with ⟨-, -, s3⟩ | ⟨-, -, s2, -⟩
          · rw [s3]; constructor
            · split <;> omega
            · intro h; rw [if_pos h]; omega
          · omega
        show histReachF x (t :: ts) _ = engReach (engNext _ ((t :: ts)[k + 1]).t)
        rw [histReachF_unfold, if_neg (by omega), if_neg ?_]
        · simp only [List.getElem_cons_succ]
          exact i2 hk3 hatt'
        · rintro ⟨h1, h2⟩
          have := hn.2 h1
          omega

theorem freachOK_tail {reachOf : Nat → List (Nat × Hash)} {x : EngFS} {t : TxnF} {ts : List TxnF}
    (h : FReachOK reachOf x (t :: ts)) : FReachOK reachOf (engNextF x t) ts := by
  intro k hk
  obtain ⟨a, b⟩ := h (k + 1) (by simp only [List.length_cons]; omega)
  simp only [List.take_succ_cons, engRunF_cons] at a b
  refine ⟨a, fun hk2 hatt => ?_⟩
  have := b (by simp only [List.length_cons]; omega) (by simpa only [List.getElem_cons_succ] using hatt)
  simpa only [List.getElem_cons_succ] using this

theorem freachOK_take {reachOf : Nat → List (Nat × Hash)} {x : EngFS} {ts : List TxnF}
    (h : FReachOK reachOf x ts) (j : Nat) : FReachOK reachOf x (ts.take j) := by
  intro k hk
  have hk' : k ≤ j ∧ k ≤ ts.length := by rw [List.length_take] at hk; omega
  have e : (ts.take j).take k = ts.take k := by rw [List.take_take]; congr 1; omega
  rw [e]
  obtain ⟨a, b⟩ := h k hk'.2
  refine ⟨a, fun hk2 hatt => ?_⟩
  have hk3 : k < ts.length := by rw [List.length_take] at hk2; omega
  have e2 : (ts.take j)[k] = ts[k] := by simp
  rw [e2] at hatt ⊢
  exact b hk3 hatt

/-- the trace of a disciplined history is accepted from any configuration that represents its first state -/
theorem et_historyF_accepted (reachOf : Nat → List (Nat × Hash)) (ts : List TxnF) : ∀ (x : EngFS) (c : OCfg),
    FOk x → FRep x c → FReachOK reachOf x ts → (∀ t ∈ ts, t.disciplined = true) →
    ∃ c', c.run reachOf (histTraceF x ts) = some c' ∧ FRep (engRunF x ts) c' := by
  induction ts with
  | nil => intro x c _ rep _ _; exact ⟨c, rfl, rep⟩
  | cons t ts ih =>
    intro x c fok rep hr hd
    obtain ⟨h0, h1⟩ := hr 0 (Nat.zero_le _)
    obtain ⟨c1, r1, rep1, fok1⟩ := et_txnF_accepted reachOf fok c rep t (hd t List.mem_cons_self) h0
      (fun hatt => h1 (by simp) hatt)
    obtain ⟨c2, r2, rep2⟩ := ih (engNextF x t) c1 fok1 rep1 (freachOK_tail hr)
      (fun t' ht' => hd t' (List.mem_cons_of_mem _ ht'))
    exact ⟨c2, orun_append_some reachOf _ _ _ _ _ r1 r2, rep2⟩

theorem histTraceF_append (a b : List TxnF) : ∀ x : EngFS,
    histTraceF x (a ++ b) = histTraceF x a ++ histTraceF (engRunF x a) b := by
  induction a with
  | nil => intro x; rfl
  | cons t a ih =>
    intro x
    show engTraceF x t ++ histTraceF (engNextF x t) (a ++ b) = (engTraceF x t ++ histTraceF (engNextF x t) a) ++ _
    rw [ih, List.append_assoc]; rfl

/-! ### which states a configuration of the fault-aware acceptor can name -/

/-- the state is the committed one, the pending one (header in flight / failed commit), or named by a commit
    header of the trace -/
def ONamed (c : OCfg) (tr : List FOp) (st : Nat) : Prop :=
  st = c.base.aSt ∨ c.pendingSt = some st ∨ ∃ s t, FOp.op (TOp.hdr s t st) ∈ tr

theorem onamed_step (reachOf : Nat → List (Nat × Hash)) (c c1 : OCfg) (op : FOp) (tr : List FOp)
    (h : c.step reachOf op = some c1) (q : Nat) (hq : ONamed c1 tr q) : ONamed c (op :: tr) q := by
  have hmem : (∃ s t, FOp.op (TOp.hdr s t q) ∈ tr) → ONamed c (op :: tr) q := by
    rintro ⟨s, t, hm⟩; exact Or.inr (Or.inr ⟨s, t, List.mem_cons_of_mem _ hm⟩)
  -- a step that keeps the committed state id and the pending state
  have keep : c1.base.aSt = c.base.aSt → c1.pendingSt = c.pendingSt → ONamed c (op :: tr) q := by
    intro e1 e2
    rcases hq with h1 | h1 | h1
    · exact Or.inl (h1.trans e1)
    · exact Or.inr (Or.inl (e2 ▸ h1))
    · exact hmem h1
  rcases c with ⟨b, ph⟩
  have hidem : ∀ s t st, (⟨b, ph⟩ : OCfg).idemRestore s t st = some c1 →
      c1.base.aSt = b.aSt ∧ c1.pendingSt = (⟨b, ph⟩ : OCfg).pendingSt := by
    intro s t st hh
    unfold OCfg.idemRestore at hh
    cases ph with
    | normal =>
      simp only at hh
      split at hh
      · cases hh; exact ⟨rfl, rfl⟩
      · cases hh
    | failed _ _ => cases hh
    | restoring _ _ => cases hh
  have hrest : ∀ s t st, (⟨b, ph⟩ : OCfg).restoreStep s t st = some c1 →
      c1.base.aSt = b.aSt ∧ c1.pendingSt = (⟨b, ph⟩ : OCfg).pendingSt := by
    intro s t st hh
    unfold OCfg.restoreStep at hh
    cases ph with
    | failed _ _ =>
      simp only at hh
      split at hh
      · cases hh; exact ⟨rfl, rfl⟩
      · cases hh
    | normal => cases hh
    | restoring _ _ => cases hh
  have hbase : ∀ o b1, b.step reachOf o = some b1 → c1 = ⟨b1, .normal⟩ → ph = .normal →
      (∀ s t st, o ≠ TOp.hdr s t st) → o ≠ TOp.sync → ONamed ⟨b, ph⟩ (op :: tr) q := by
    intro o b1 hb e1 e2 hnh hns
    subst e1 e2
    apply keep
    · cases o with
      | write p hh => simp only [Cfg.step] at hb; split at hb <;> cases hb; rfl
      | trunc n => simp only [Cfg.step] at hb; split at hb <;> cases hb; rfl
      | hdr s t st => exact absurd rfl (hnh s t st)
      | sync => exact absurd rfl hns
    · cases o with
      | write p hh => simp only [Cfg.step] at hb; split at hb <;> cases hb; rfl
      | trunc n => simp only [Cfg.step] at hb; split at hb <;> cases hb; rfl
      | hdr s t st => exact absurd rfl (hnh s t st)
      | sync => exact absurd rfl hns
  cases op with
  | op o =>
    cases o with
    | write p hh =>
      cases ph with
      | normal =>
        simp only [OCfg.step, Option.map_eq_some_iff] at h
        obtain ⟨b1, hb, rfl⟩ := h
        exact hbase _ b1 hb rfl rfl (fun _ _ _ e => by cases e) (fun e => by cases e)
      | failed _ _ => simp [OCfg.step] at h
      | restoring _ _ => simp [OCfg.step] at h
    | trunc n =>
      cases ph with
      | normal =>
        simp only [OCfg.step, Option.map_eq_some_iff] at h
        obtain ⟨b1, hb, rfl⟩ := h
        exact hbase _ b1 hb rfl rfl (fun _ _ _ e => by cases e) (fun e => by cases e)
      | failed _ _ => simp [OCfg.step] at h
      | restoring _ _ => simp [OCfg.step] at h
    | hdr s t st =>
      cases ph with
      | normal =>
        simp only [OCfg.step] at h
        cases hb : b.step reachOf (.hdr s t st) with
        | some b1 =>
          rw [hb] at h; cases h
          simp only [Cfg.step] at hb
          split at hb
          · cases hb
            rcases hq with h1 | h1 | h1
            · exact Or.inl h1
            · simp only [OCfg.pendingSt, Option.some.injEq] at h1
              subst h1
              exact Or.inr (Or.inr ⟨s, t, List.mem_cons_self⟩)
            · exact hmem h1
          · cases hb
        | none =>
          rw [hb] at h
          obtain ⟨e1, e2⟩ := hidem s t st h
          exact keep e1 e2
      | failed _ _ =>
        simp only [OCfg.step] at h
        obtain ⟨e1, e2⟩ := hrest s t st h
        exact keep e1 e2
      | restoring _ _ => simp [OCfg.step] at h
    | sync =>
      cases ph with
      | normal =>
        simp only [OCfg.step, Option.map_eq_some_iff] at h
        obtain ⟨b1, hb, rfl⟩ := h
        simp only [Cfg.step] at hb
        cases hi : b.inflight with
        | none =>
          rw [hi] at hb; cases hb
          exact keep rfl (by simp [OCfg.pendingSt, hi])
        | some st0 =>
          rw [hi] at hb; cases hb
          rcases hq with h1 | h1 | h1
          · exact Or.inr (Or.inl (by simp only [OCfg.pendingSt]; rw [hi, h1]))
          · simp [OCfg.pendingSt] at h1
          · exact hmem h1
      | failed _ _ =>
        simp only [OCfg.step, Option.some.injEq] at h; subst h
        exact keep rfl rfl
      | restoring st' pv =>
        simp only [OCfg.step, Option.some.injEq] at h; subst h
        rcases hq with h1 | h1 | h1
        · exact Or.inl h1
        · simp [OCfg.pendingSt] at h1
        · exact hmem h1
  | syncFail =>
    cases ph with
    | normal =>
      simp only [OCfg.step] at h
      cases hi : b.inflight with
      | none => rw [hi] at h; cases h; exact keep rfl rfl
      | some st' =>
        rw [hi] at h; cases h
        exact keep rfl (by simp [OCfg.pendingSt, hi])
    | failed _ _ => simp only [OCfg.step, Option.some.injEq] at h; subst h; exact keep rfl rfl
    | restoring _ _ => simp only [OCfg.step, Option.some.injEq] at h; subst h; exact keep rfl rfl
  | restore s t st =>
    cases ph with
    | normal =>
      simp only [OCfg.step] at h
      obtain ⟨e1, e2⟩ := hidem s t st h
      exact keep e1 e2
    | failed _ _ =>
      simp only [OCfg.step] at h
      obtain ⟨e1, e2⟩ := hrest s t st h
      exact keep e1 e2
    | restoring _ _ => simp [OCfg.step] at h

/-- a pending state was pending before or its header is written by the step -/
theorem opending_step (reachOf : Nat → List (Nat × Hash)) (c c1 : OCfg) (op : FOp)
    (h : c.step reachOf op = some c1) (q : Nat) (hq : c1.pendingSt = some q) :
    c.pendingSt = some q ∨ ∃ s t, op = FOp.op (TOp.hdr s t q) := by
  rcases c with ⟨b, ph⟩
  have hidem : ∀ s t st, (⟨b, ph⟩ : OCfg).idemRestore s t st = some c1 →
      c1.pendingSt = (⟨b, ph⟩ : OCfg).pendingSt := by
    intro s t st hh
    unfold OCfg.idemRestore at hh
    cases ph with
    | normal =>
      simp only at hh
      split at hh
      · cases hh; rfl
      · cases hh
    | failed _ _ => cases hh
    | restoring _ _ => cases hh
  have hrest : ∀ s t st, (⟨b, ph⟩ : OCfg).restoreStep s t st = some c1 →
      c1.pendingSt = (⟨b, ph⟩ : OCfg).pendingSt := by
    intro s t st hh
    unfold OCfg.restoreStep at hh
    cases ph with
    | failed _ _ =>
      simp only at hh
      split at hh
      · cases hh; rfl
      · cases hh
    | normal => cases hh
    | restoring _ _ => cases hh
  cases op with
  | op o =>
    cases o with
    | write p hh =>
      cases ph with
      | normal =>
        simp only [OCfg.step, Option.map_eq_some_iff] at h
        obtain ⟨b1, hb, rfl⟩ := h
        simp only [Cfg.step] at hb
        split at hb
        · cases hb; exact Or.inl hq
        · cases hb
      | failed _ _ => simp [OCfg.step] at h
      | restoring _ _ => simp [OCfg.step] at h
    | trunc n =>
      cases ph with
      | normal =>
        simp only [OCfg.step, Option.map_eq_some_iff] at h
        obtain ⟨b1, hb, rfl⟩ := h
        simp only [Cfg.step] at hb
        split at hb
        · cases hb; exact Or.inl hq
        · cases hb
      | failed _ _ => simp [OCfg.step] at h
      | restoring _ _ => simp [OCfg.step] at h
    | hdr s t st =>
      cases ph with
      | normal =>
        simp only [OCfg.step] at h
        cases hb : b.step reachOf (.hdr s t st) with
        | some b1 =>
          rw [hb] at h; cases h
          simp only [Cfg.step] at hb
          split at hb
          · cases hb
            simp only [OCfg.pendingSt, Option.some.injEq] at hq
            subst hq
            exact Or.inr ⟨s, t, rfl⟩
          · cases hb
        | none =>
          rw [hb] at h
          exact Or.inl ((hidem s t st h) ▸ hq)
      | failed _ _ =>
        simp only [OCfg.step] at h
        exact Or.inl ((hrest s t st h) ▸ hq)
      | restoring _ _ => simp [OCfg.step] at h
    | sync =>
      cases ph with
      | normal =>
        simp only [OCfg.step, Option.map_eq_some_iff] at h
        obtain ⟨b1, hb, rfl⟩ := h
        simp only [Cfg.step] at hb
        cases hi : b.inflight with
        | none => rw [hi] at hb; cases hb; simp [OCfg.pendingSt] at hq
        | some st0 => rw [hi] at hb; cases hb; simp [OCfg.pendingSt] at hq
      | failed _ _ =>
        simp only [OCfg.step, Option.some.injEq] at h; subst h
        exact Or.inl hq
      | restoring st' pv =>
        simp only [OCfg.step, Option.some.injEq] at h; subst h
        simp [OCfg.pendingSt] at hq
  | syncFail =>
    cases ph with
    | normal =>
      simp only [OCfg.step] at h
      cases hi : b.inflight with
      | none => rw [hi] at h; cases h; exact Or.inl hq
      | some st' =>
        rw [hi] at h; cases h
        left
        simp only [OCfg.pendingSt] at hq ⊢
        rw [hi]; exact hq
    | failed _ _ => simp only [OCfg.step, Option.some.injEq] at h; subst h; exact Or.inl hq
    | restoring _ _ => simp only [OCfg.step, Option.some.injEq] at h; subst h; exact Or.inl hq
  | restore s t st =>
    cases ph with
    | normal =>
      simp only [OCfg.step] at h
      exact Or.inl ((hidem s t st h) ▸ hq)
    | failed _ _ =>
      simp only [OCfg.step] at h
      exact Or.inl ((hrest s t st h) ▸ hq)
    | restoring _ _ => simp [OCfg.step] at h

theorem orun_pending (reachOf : Nat → List (Nat × Hash)) (tr : List FOp) : ∀ c c' : OCfg,
    c.run reachOf tr = some c' → ∀ q, c'.pendingSt = some q →
    c.pendingSt = some q ∨ ∃ s t, FOp.op (TOp.hdr s t q) ∈ tr := by
  induction tr with
  | nil => intro c c' h q hq; simp [OCfg.run] at h; subst h; exact Or.inl hq
  | cons op tr ih =>
    intro c c' h q hq
    simp only [OCfg.run] at h
    cases hs : c.step reachOf op with
    | none => rw [hs] at h; cases h
    | some c1 =>
      rw [hs] at h
      rcases ih c1 c' h q hq with h1 | ⟨s, t, hm⟩
      · rcases opending_step reachOf c c1 op hs q h1 with h2 | ⟨s, t, rfl⟩
        · exact Or.inl h2
        · exact Or.inr ⟨s, t, List.mem_cons_self⟩
      · exact Or.inr ⟨s, t, List.mem_cons_of_mem _ hm⟩

theorem orun_named (reachOf : Nat → List (Nat × Hash)) (tr : List FOp) : ∀ c c' : OCfg,
    c.run reachOf tr = some c' → ONamed c tr c'.base.aSt ∧ ∀ st, c'.pendingSt = some st → ONamed c tr st := by
  induction tr with
  | nil =>
    intro c c' h
    simp [OCfg.run] at h; subst h
    exact ⟨Or.inl rfl, fun st hs => Or.inr (Or.inl hs)⟩
  | cons op tr ih =>
    intro c c' h
    simp only [OCfg.run] at h
    cases hs : c.step reachOf op with
    | none => rw [hs] at h; cases h
    | some c1 =>
      rw [hs] at h
      obtain ⟨i1, i2⟩ := ih c1 c' h
      exact ⟨onamed_step reachOf c c1 op tr hs _ i1, fun st hst => onamed_step reachOf c c1 op tr hs _ (i2 st hst)⟩

end TxVerif
