/-
  PORT of Proofs/EngineTraceT.lean to the lifetime invariant `EngInvU` (namespace `TxVerif.LT`; the lemmas of
  namespace `Ov` replaced by those of namespace `U`, Proofs/Lifetime*.lean). Original header:
-/
/-
  Lemmas for C01 over the engine model, part T (tracking): which pages of the file are IN SYNC with the
  model's disk inside a transaction. Needed to show that the defined pages `dfn` of the next committed state
  contain every owned page the transaction wrote and every defined page it kept
  (Props/C01EngineDfn.lean): the page a flushed page was written to, the target of every copy-back, and
  the physical pages of the defined pages of the committed state are in sync.
-/
import TxVerif.Proofs.LifeTraceC
namespace TxVerif.LT

/-- the file holds at page `x` the hash of what the model's disk holds there -/
def InSync (pg : Nat → Option Hash) (f : FileSt) (x : Nat) : Prop := pg x = some (f.diskAt x).hash

/-- being in sync is stable along a trace that follows the disk -/
theorem inSync_mono {pg pg' : Nat → Option Hash} {f f' : FileSt} (h : EtSync pg f pg' f') (x : Nat)
    (hx : InSync pg f x) : InSync pg' f' x := by
  unfold InSync at hx ⊢
  rcases h x with h1 | ⟨h1, h2⟩
  · exact h1
  · rw [h1, h2]; exact hx

theorem inSync_write (pg : Nat → Option Hash) (f' : FileSt) (w : Nat) :
    InSync (tracePages [TOp.write w (f'.diskAt w).hash] pg) f' w := by
  simp [InSync, tracePages, applyPg]

/-- what is tracked inside a transaction that began in `f0`, `D` = the defined pages of `f0` -/
structure EtTrack (f0 : FileSt) (D : List Nat) (pg : Nat → Option Hash) (f : FileSt) (tx : TxSt) (cur : List Nat) :
    Prop where
  fl : ∀ j p, Assoc.get? tx.pages j = some p → p.flushed = true → InSync pg f p.ondisk
  wf : ∀ k ∈ tx.walFree, InSync pg f k ∨ k ∉ cur
  d : ∀ id ∈ D, InSync pg f (f0.physOf id)

theorem etTrack_sync {f0 : FileSt} {D : List Nat} {pg pg' : Nat → Option Hash} {f f' : FileSt} {tx : TxSt}
    {cur : List Nat} (h : EtTrack f0 D pg f tx cur) (hs : EtSync pg f pg' f') : EtTrack f0 D pg' f' tx cur :=
  ⟨fun j p hp hf => inSync_mono hs _ (h.fl j p hp hf),
   fun k hk => (h.wf k hk).imp (inSync_mono hs _) id,
   fun id hid => inSync_mono hs _ (h.d id hid)⟩

/-- the transaction state changes without a new flushed page and without a new released overwrite page -/
theorem etTrack_frame {f0 : FileSt} {D : List Nat} {pg : Nat → Option Hash} {f : FileSt} {tx tx' : TxSt}
    {cur cur' : List Nat} (h : EtTrack f0 D pg f tx cur)
    (hp : ∀ j p', Assoc.get? tx'.pages j = some p' → p'.flushed = true → Assoc.get? tx.pages j = some p')
    (hw : ∀ k ∈ tx'.walFree, (k ∈ tx.walFree ∧ (k ∉ cur → k ∉ cur')) ∨ k ∉ cur') : EtTrack f0 D pg f tx' cur' := by
  refine ⟨fun j p' hj hf => h.fl j p' (hp j p' hj hf) hf, ?_, h.d⟩
  intro k hk
  rcases hw k hk with ⟨h1, h2⟩ | h1
  · exact (h.wf k h1).imp id h2
  · exact Or.inr h1

theorem etTrack_setPage {f0 : FileSt} {D : List Nat} {pg : Nat → Option Hash} {f : FileSt} {tx : TxSt}
    {cur : List Nat} (h : EtTrack f0 D pg f tx cur) (p : PageSt) (hfl : p.flushed = false) :
    EtTrack f0 D pg f (tx.setPage p) cur := by
  apply etTrack_frame h
  · intro j p' hj hf
    unfold TxSt.setPage at hj
    simp only at hj
    by_cases e : j = p.id
    · subst e
      rw [Assoc.get?_set_self] at hj
      cases hj
      rw [hfl] at hf; cases hf
    · rw [Assoc.get?_set_ne _ _ _ _ e] at hj; exact hj
  · intro k hk
    exact Or.inl ⟨hk, fun h => h⟩

theorem etTrack_getPage {f0 : FileSt} {D : List Nat} {pg : Nat → Option Hash} {f : FileSt} {tx : TxSt}
    {cur : List Nat} (h : EtTrack f0 D pg f tx cur) (id : Nat) (tx1 : TxSt) (p : PageSt)
    (hg : getPage f tx id = .ok (tx1, p)) : EtTrack f0 D pg f tx1 cur := by
  rcases getPage_cases f tx tx1 id p hg with ⟨-, -, rfl⟩ | ⟨-, hp, rfl⟩
  · exact h
  · have := etTrack_setPage h p (by rw [hp])
    have e : tx.setPage p = { tx with pages := Assoc.set tx.pages id p } := by
      unfold TxSt.setPage; rw [hp]
    rw [e] at this; exact this

/-- only the pages and the released overwrite pages of the transaction state matter -/
theorem etTrack_congr {f0 : FileSt} {D : List Nat} {pg : Nat → Option Hash} {f : FileSt} {tx tx' : TxSt}
    {cur : List Nat} (h : EtTrack f0 D pg f tx cur) (e1 : tx'.pages = tx.pages) (e2 : tx'.walFree = tx.walFree) :
    EtTrack f0 D pg f tx' cur :=
  ⟨fun j p hp hf => h.fl j p (e1 ▸ hp) hf, fun k hk => h.wf k (e2 ▸ hk), h.d⟩

theorem etTrack_disk {f0 : FileSt} {D : List Nat} {pg : Nat → Option Hash} {f f' : FileSt} {tx : TxSt}
    {cur : List Nat} (h : EtTrack f0 D pg f tx cur) (e : f'.disk = f.disk) : EtTrack f0 D pg f' tx cur :=
  etTrack_sync h (etSync_disk_eq pg f f' e)

/-! ### flush -/

theorem et_doFlush_struct (f : FileSt) (tx : TxSt) (p : PageSt) (f' : FileSt) (tx' : TxSt) (w : Nat)
    (h : doFlush f tx p = .ok (f', tx', some w)) :
    (∀ j, j ≠ p.id → Assoc.get? tx'.pages j = Assoc.get? tx.pages j) ∧
    (∀ p', Assoc.get? tx'.pages p.id = some p' → p'.ondisk = w) ∧
    (∀ k ∈ tx'.walFree, k ∈ tx.walFree ∨ k = w) := by
  unfold doFlush at h
  split at h
  · simp at h
  · dsimp only at h
    split at h
    · cases h
    · rename_i f1 tx1 p1 hstep
      simp only [Except.ok.injEq, Prod.mk.injEq, Option.some.injEq] at h
      obtain ⟨rfl, rfl, rfl⟩ := h
      have key : tx1.pages = tx.pages ∧ p1.id = p.id ∧ ∀ k ∈ tx1.walFree, k ∈ tx.walFree ∨ k = p1.ondisk := by
        split at hstep
        · simp only [Except.ok.injEq, Prod.mk.injEq] at hstep
          obtain ⟨rfl, rfl, rfl⟩ := hstep; exact ⟨rfl, rfl, fun k hk => Or.inl hk⟩
        · split at hstep
          · split at hstep
            · cases hstep
            · simp only [Except.ok.injEq, Prod.mk.injEq] at hstep
              obtain ⟨rfl, rfl, rfl⟩ := hstep; exact ⟨rfl, rfl, fun k hk => Or.inl hk⟩
          · simp only [Except.ok.injEq, Prod.mk.injEq] at hstep
            obtain ⟨rfl, rfl, rfl⟩ := hstep
            refine ⟨rfl, rfl, fun k hk => ?_⟩
            simp only [freeWalId, mem_insertId] at hk
            rcases hk with hk | hk
            · exact Or.inr hk
            · exact Or.inl hk
      obtain ⟨k1, k2, k3⟩ := key
      refine ⟨?_, ?_, ?_⟩
      · intro j hj
        unfold TxSt.setPage
        simp only
        rw [Assoc.get?_set_ne _ _ _ _ (by rw [k2]; exact hj), k1]
      · intro p' hp'
        unfold TxSt.setPage at hp'
        simp only at hp'
        rw [← k2, Assoc.get?_set_self] at hp'
        cases hp'; rfl
      · intro k hk
        exact k3 k hk

theorem etTrack_doFlush {f0 : FileSt} {D : List Nat} {pg : Nat → Option Hash} {f : FileSt} {tx : TxSt}
    {cur : List Nat} (h : EtTrack f0 D pg f tx cur) (p : PageSt) (f' : FileSt) (tx' : TxSt) (w : Option Nat)
    (hw : doFlush f tx p = .ok (f', tx', w)) :
    EtTrack f0 D (tracePages (writeOpt f' w) pg) f' tx' cur := by
  cases w with
  | none =>
    obtain ⟨rfl, rfl⟩ := et_doFlush_none f tx p f' tx' hw
    exact h
  | some w =>
    obtain ⟨-, -, d2⟩ := et_doFlush_some f tx p f' tx' w hw
    obtain ⟨s1, s2, s3⟩ := et_doFlush_struct f tx p f' tx' w hw
    have hsync := etSync_write pg f f' w d2
    have hw' : InSync (tracePages (writeOpt f' (some w)) pg) f' w := inSync_write pg f' w
    have h1 := etTrack_sync h hsync
    refine ⟨?_, ?_, h1.d⟩
    · intro j p' hj hf
      by_cases e : j = p.id
      · subst e
        rw [s2 p' hj]; exact hw'
      · rw [s1 j e] at hj
        exact h1.fl j p' hj hf
    · intro k hk
      rcases s3 k hk with hk | rfl
      · exact h1.wf k hk
      · exact Or.inl hw'

theorem etTrack_flushList {f0 : FileSt} {D : List Nat} {cur : List Nat} (ids : List Nat) :
    ∀ (pg : Nat → Option Hash) (f : FileSt) (tx : TxSt), EtTrack f0 D pg f tx cur →
    ∀ (f' : FileSt) (tx' : TxSt) (ws : List (Nat × Nat)), flushList f tx ids = .ok (f', tx', ws) →
    EtTrack f0 D (tracePages (flushListT f tx ids) pg) f' tx' cur := by
  induction ids with
  | nil =>
    intro pg f tx h f' tx' ws hw
    simp only [flushList, Except.ok.injEq, Prod.mk.injEq] at hw
    obtain ⟨rfl, rfl, -⟩ := hw
    exact h
  | cons id ids ih =>
    intro pg f tx h f' tx' ws hw
    unfold flushList at hw
    unfold flushListT
    cases hg : Assoc.get? tx.pages id with
    | none => simp [hg] at hw
    | some p =>
      simp only [hg] at hw
      cases hf : doFlush f tx p with
      | error e => simp [hf] at hw
      | ok r =>
        obtain ⟨f1, tx1, w⟩ := r
        simp only [hf] at hw
        cases hr : flushList f1 tx1 ids with
        | error e => simp [hr] at hw
        | ok r2 =>
          obtain ⟨f2, tx2, ws2⟩ := r2
          simp only [hr, Except.ok.injEq, Prod.mk.injEq] at hw
          obtain ⟨rfl, rfl, -⟩ := hw
          simp only [hf]
          rw [tracePages_append]
          exact ih _ f1 tx1 (etTrack_doFlush h p f1 tx1 w hf) f2 tx2 ws2 hr

/-! ### checkpoint -/

theorem etTrack_ckptList {f0 : FileSt} {D : List Nat} {cur : List Nat} (l : List (Nat × Nat)) :
    ∀ (s : FileSt × TxSt) (pg : Nat → Option Hash), EtTrack f0 D pg s.1 s.2 cur →
    EtTrack f0 D (tracePages (ckptListT s l) pg) (l.foldl ckptOne s).1 (l.foldl ckptOne s).2 cur := by
  induction l with
  | nil => intro s pg h; exact h
  | cons e l ih =>
    intro s pg h
    have hself : (ckptOne s e).1.diskAt e.1 = s.1.diskAt e.2 := diskAt_set_self s.1 _ _
    have hne : ∀ q, q ≠ e.1 → (ckptOne s e).1.diskAt q = s.1.diskAt q := fun q hq => diskAt_set_ne s.1 _ _ _ hq
    have hs := etSync_write pg s.1 (ckptOne s e).1 e.1 hne
    have hw := inSync_write pg (ckptOne s e).1 e.1
    rw [hself] at hs hw
    have h1 := etTrack_sync h hs
    have h2 : EtTrack f0 D (tracePages [TOp.write e.1 (s.1.diskAt e.2).hash] pg) (ckptOne s e).1 (ckptOne s e).2 cur := by
      refine ⟨fun j p hp hf => h1.fl j p hp hf, ?_, h1.d⟩
      intro k hk
      simp only [ckptOne, freeWalId, mem_insertId] at hk
      rcases hk with rfl | hk
      · exact Or.inl hw
      · exact h1.wf k hk
    have := ih (ckptOne s e) _ h2
    rw [List.foldl_cons]
    exact this

theorem et_doCheckpoint_snd (f : FileSt) (tx : TxSt) :
    (doCheckpoint f tx).2.1.pages = (if tx.checkpoint then tx else ((ckptTodo f tx).foldl ckptOne (f, tx)).2).pages ∧
    (doCheckpoint f tx).2.1.walFree = (if tx.checkpoint then tx else ((ckptTodo f tx).foldl ckptOne (f, tx)).2).walFree := by
  unfold doCheckpoint
  by_cases hc : tx.checkpoint = true
  · simp [hc]
  · simp only [hc]
    by_cases he : (ckptTodo f tx).isEmpty = true
    · simp only [he, if_true]
      rw [List.isEmpty_iff] at he
      rw [he]; exact ⟨rfl, rfl⟩
    · simp only [he]
      exact ⟨rfl, rfl⟩

theorem etTrack_doCheckpoint {f0 : FileSt} {D : List Nat} {pg : Nat → Option Hash} {f : FileSt} {tx : TxSt}
    {cur : List Nat} (h : EtTrack f0 D pg f tx cur) :
    EtTrack f0 D (tracePages (doCheckpointT f tx) pg) (doCheckpoint f tx).1 (doCheckpoint f tx).2.1 cur := by
  obtain ⟨e1, e2⟩ := et_doCheckpoint_snd f tx
  rw [et_doCheckpoint_fst]
  unfold doCheckpointT
  by_cases hc : tx.checkpoint = true
  · simp only [hc, if_true] at e1 e2 ⊢
    exact etTrack_congr h e1 e2
  · simp only [hc] at e1 e2 ⊢
    exact etTrack_congr (etTrack_ckptList (ckptTodo f tx) (f, tx) pg h) e1 e2

/-! ### the operations of a transaction -/

theorem etTrack_txWrite {f0 : FileSt} {D : List Nat} {pg : Nat → Option Hash} {f : FileSt} {tx : TxSt}
    {cur : List Nat} (h : EtTrack f0 D pg f tx cur) (id : Nat) (mode : WMode) (s : Nat) (tx' : TxSt)
    (hw : txWrite f tx id mode s = .ok tx') : EtTrack f0 D pg f tx' cur := by
  unfold txWrite at hw
  cases hg : getPage f tx id with
  | error e => simp [hg, bind, Except.bind] at hw
  | ok r =>
    obtain ⟨tx1, p⟩ := r
    simp only [hg, bind, Except.bind] at hw
    have h1 := etTrack_getPage h id tx1 p hg
    cases hcw : pageCanWrite p with
    | error e => simp [hcw] at hw
    | ok u =>
      simp only [hcw] at hw
      obtain ⟨-, hfl⟩ := pageCanWrite_ok p hcw
      obtain ⟨-, -, -, -, l5, -⟩ := loadBytes_fields f p
      cases mode with
      | full =>
        simp only [pure, Except.pure, Except.ok.injEq] at hw
        subst hw
        exact etTrack_setPage h1 _ hfl
      | lo =>
        simp only [pure, Except.pure, Except.ok.injEq] at hw
        subst hw
        exact etTrack_setPage h1 _ (l5.trans hfl)
      | hi =>
        simp only [pure, Except.pure, Except.ok.injEq] at hw
        subst hw
        exact etTrack_setPage h1 _ (l5.trans hfl)

theorem etTrack_txLoad {f0 : FileSt} {D : List Nat} {pg : Nat → Option Hash} {f : FileSt} {tx : TxSt}
    {cur : List Nat} (h : EtTrack f0 D pg f tx cur) (id : Nat) (tx' : TxSt)
    (hw : txLoad f tx id = .ok tx') : EtTrack f0 D pg f tx' cur := by
  unfold txLoad at hw
  cases hg : getPage f tx id with
  | error e => simp [hg, bind, Except.bind] at hw
  | ok r =>
    obtain ⟨tx1, p⟩ := r
    simp only [hg, bind, Except.bind] at hw
    have h1 := etTrack_getPage h id tx1 p hg
    cases hcw : pageCanWrite p with
    | error e => simp [hcw] at hw
    | ok u =>
      simp only [hcw, pure, Except.pure, Except.ok.injEq] at hw
      subst hw
      obtain ⟨-, hfl⟩ := pageCanWrite_ok p hcw
      obtain ⟨-, -, -, -, l5, -⟩ := loadBytes_fields f p
      exact etTrack_setPage h1 _ (l5.trans hfl)

theorem etTrack_txRead {f0 : FileSt} {D : List Nat} {pg : Nat → Option Hash} {f : FileSt} {tx : TxSt}
    {cur : List Nat} (h : EtTrack f0 D pg f tx cur) (id : Nat) (tx' : TxSt) (c : Content)
    (hw : txRead f tx id = .ok (tx', c)) : EtTrack f0 D pg f tx' cur := by
  unfold txRead at hw
  cases hg : getPage f tx id with
  | error e => simp [hg, bind, Except.bind] at hw
  | ok r =>
    obtain ⟨tx1, p⟩ := r
    simp only [hg, bind, Except.bind] at hw
    have h1 := etTrack_getPage h id tx1 p hg
    cases hb : p.bytes with
    | some b =>
      simp only [hb, pure, Except.pure, Except.ok.injEq, Prod.mk.injEq] at hw
      rw [← hw.1]; exact h1
    | none =>
      simp only [hb] at hw
      split at hw
      · cases hw
      · simp only [pure, Except.pure, Except.ok.injEq, Prod.mk.injEq] at hw
        rw [← hw.1]; exact h1

theorem etTrack_txAlloc {f0 : FileSt} {live : List Nat} {D : List Nat} {pg : Nat → Option Hash} {f : FileSt}
    {tx : TxSt} {cur : List Nat} (he : U.EngInv f0 live) (hi : U.TxInv f0 live f tx cur)
    (h : EtTrack f0 D pg f tx cur) (n : Nat) (f' : FileSt) (tx' : TxSt) (ids : List Nat)
    (hw : txAlloc f tx n = .ok (f', tx', ids)) : EtTrack f0 D pg f' tx' (cur ++ ids) := by
  obtain ⟨-, -, hfresh⟩ := U.alloc_fresh_tx he hi n f' tx' ids hw
  have hd := et_txAlloc_disk f tx n f' tx' ids hw
  unfold txAlloc at hw
  cases hr : dataAllocRegions f.alloc tx.ta n with
  | none => simp [hr] at hw
  | some r =>
    obtain ⟨a, ta, ids'⟩ := r
    simp only [hr, Except.ok.injEq, Prod.mk.injEq] at hw
    obtain ⟨-, rfl, rfl⟩ := hw
    apply etTrack_frame (etTrack_disk h hd)
    · intro j p' hj hf
      simp only at hj
      rw [get?_foldl_newPages] at hj
      split at hj
      · cases hj; cases hf
      · exact hj
    · intro k hk
      refine Or.inl ⟨hk, fun hn hc => ?_⟩
      rcases List.mem_append.mp hc with hc | hc
      · exact hn hc
      · obtain ⟨w, hw⟩ := hi.wfree k hk
        exact (hfresh k hc).2.2.1 (he.mapKey k w hw)

theorem etTrack_txFree {f0 : FileSt} {live : List Nat} {D : List Nat} {pg : Nat → Option Hash} {f : FileSt}
    {tx : TxSt} {cur : List Nat} (hi : U.TxInv f0 live f tx cur) (h : EtTrack f0 D pg f tx cur) (id : Nat)
    (hid : id ∈ cur) (f' : FileSt) (tx' : TxSt) (hw : txFree f tx id = .ok (f', tx')) :
    EtTrack f0 D pg f' tx' (cur.filter (fun x => x != id)) := by
  have hd := et_txFree_disk f tx id f' tx' hw
  unfold txFree at hw
  cases hg : getPage f tx id with
  | error e => simp [hg, bind, Except.bind] at hw
  | ok r =>
    obtain ⟨tx1, p⟩ := r
    obtain ⟨h1, hget, -, -⟩ := U.txinv_getPage hi id hid tx1 p hg
    have t1 := etTrack_getPage h id tx1 p hg
    have hpid := (h1.pg id p hget).id
    cases hcw : pageCanWrite p with
    | error e => simp [hg, bind, Except.bind, hcw] at hw
    | ok u =>
      obtain ⟨-, hfl⟩ := pageCanWrite_ok p hcw
      cases hdy : p.dirty with
      | true => simp [hg, bind, Except.bind, hcw, hdy] at hw
      | false =>
        simp only [hg, bind, Except.bind, hcw, hdy, Bool.false_eq_true, if_false, pure, Except.pure,
          Except.ok.injEq, Prod.mk.injEq] at hw
        obtain ⟨-, rfl⟩ := hw
        apply etTrack_frame (etTrack_disk t1 hd)
        · intro j p' hj hf
          unfold TxSt.setPage at hj
          simp only at hj
          by_cases e : j = p.id
          · subst e
            rw [Assoc.get?_set_self] at hj
            cases hj
            simp only at hf
            rw [hfl] at hf; cases hf
          · rw [Assoc.get?_set_ne _ _ _ _ e] at hj
            split at hj
            · exact hj
            · exact hj
        · intro k hk
          have hk' : k = id ∨ k ∈ tx1.walFree := by
            unfold TxSt.setPage at hk
            simp only at hk
            split at hk
            · simp only [freeWalId, mem_insertId] at hk
              rcases hk with hk | hk
              · exact Or.inl (hk.trans hpid)
              · exact Or.inr hk
            · exact Or.inr hk
          rcases hk' with rfl | hk'
          · right
            intro hc
            have := (List.mem_filter.mp hc).2
            simp at this
          · exact Or.inl ⟨hk', fun hn hc => hn (List.mem_filter.mp hc).1⟩

/-- one client operation keeps the tracked pages in sync -/
theorem etTrack_step {f0 : FileSt} {live : List Nat} {D : List Nat} (he : U.EngInv f0 live) (s : ERunSt)
    (op : EOp) (hr : U.RunInv f0 live s) (pg : Nat → Option Hash) (h : EtTrack f0 D pg s.f s.tx s.cur) :
    EtTrack f0 D (tracePages (op.trace s) pg) (op.step s).f (op.step s).tx (op.step s).cur := by
  cases op with
  | alloc n =>
    simp only [EOp.trace, EOp.step]
    split
    · rename_i f tx ids hw
      exact etTrack_txAlloc he hr.tx h n f tx ids hw
    · exact h
  | write id mode st =>
    simp only [EOp.trace, EOp.step]
    split
    · split
      · rename_i tx hw; exact etTrack_txWrite h id mode st tx hw
      · exact h
    · exact h
  | load id =>
    simp only [EOp.trace, EOp.step]
    split
    · split
      · rename_i tx hw; exact etTrack_txLoad h id tx hw
      · exact h
    · exact h
  | read id =>
    simp only [EOp.trace, EOp.step]
    split
    · split
      · rename_i tx c hw; exact etTrack_txRead h id tx c hw
      · exact h
    · exact h
  | free id =>
    simp only [EOp.trace, EOp.step]
    split
    · rename_i hid
      split
      · rename_i f tx hw; exact etTrack_txFree hr.tx h id hid f tx hw
      · exact h
    · exact h
  | flushPage id =>
    simp only [EOp.trace, EOp.step]
    by_cases hid : id ∈ s.cur
    · simp only [hid, if_true]
      cases hfp : flushPageOp s.f s.tx id with
      | error e => exact h
      | ok r =>
        obtain ⟨f', tx', w⟩ := r
        dsimp only
        unfold flushPageOp at hfp
        cases hg : getPage s.f s.tx id with
        | error e => simp [hg, bind, Except.bind] at hfp
        | ok r1 =>
          obtain ⟨tx1, p⟩ := r1
          simp only [hg, bind, Except.bind] at hfp
          cases hcw : pageCanWrite p with
          | error e => simp [hcw] at hfp
          | ok u =>
            simp only [hcw] at hfp
            exact etTrack_doFlush (etTrack_getPage h id tx1 p hg) p f' tx' w hfp
    · simp only [hid, if_false]
      exact h
  | flushAll order =>
    simp only [EOp.trace, EOp.step]
    cases hfl : flushList s.f s.tx order with
    | error e => exact h
    | ok r =>
      obtain ⟨f', tx', ws⟩ := r
      dsimp only
      exact etTrack_flushList order pg s.f s.tx h f' tx' ws hfl
  | checkpoint =>
    simp only [EOp.trace, EOp.step]
    exact etTrack_doCheckpoint h

theorem etTrack_ops {f0 : FileSt} {live : List Nat} {D : List Nat} (he : U.EngInv f0 live) (ops : List EOp) :
    ∀ (s : ERunSt) (pg : Nat → Option Hash), U.RunInv f0 live s → EtTrack f0 D pg s.f s.tx s.cur →
    EtTrack f0 D (tracePages (opsTrace s ops) pg) (runEOps s ops).f (runEOps s ops).tx (runEOps s ops).cur := by
  induction ops with
  | nil => intro s pg _ h; exact h
  | cons op ops ih =>
    intro s pg hr h
    unfold opsTrace
    rw [tracePages_append]
    exact ih (op.step s) _ (U.runinv_step he s op hr) (etTrack_step he s op hr pg h)

/-- the start of a transaction: nothing flushed, nothing released; the defined pages are in sync -/
theorem etTrack_start (f0 : FileSt) (D : List Nat) (pg : Nat → Option Hash) (live : List Nat) (ov : Bool)
    (g wl : Nat) (hd : ∀ id ∈ D, InSync pg f0 (f0.physOf id)) :
    EtTrack f0 D pg (ERunSt.start f0 live ov g wl).f (ERunSt.start f0 live ov g wl).tx
      (ERunSt.start f0 live ov g wl).cur :=
  ⟨fun j p hp _ => by simp [ERunSt.start, FileSt.beginTx, Assoc.get?] at hp,
   fun k hk => by simp [ERunSt.start, FileSt.beginTx] at hk, hd⟩

/-- the checkpoint of a commit -/
theorem etTrack_cPhase1 {f0 : FileSt} {D : List Nat} {pg : Nat → Option Hash} {f : FileSt} {tx : TxSt}
    {cur : List Nat} (h : EtTrack f0 D pg f tx cur) :
    EtTrack f0 D (tracePages (if commitCkpt f tx then doCheckpointT f tx else []) pg)
      (cPhase1 f tx).1 (cPhase1 f tx).2.1 cur := by
  rw [et_commitCkpt]
  unfold cPhase1
  cases hc : cCkpt f tx with
  | true => simp only [if_true]; exact etTrack_doCheckpoint h
  | false => simp only [Bool.false_eq_true, if_false]; exact h

/-! ### a page once written stays dirty until the end of the transaction -/

def DirtyAt (tx : TxSt) (id : Nat) : Prop := ∃ p, Assoc.get? tx.pages id = some p ∧ p.dirty = true

theorem dirtyAt_setPage_ne (tx : TxSt) (q : PageSt) (id : Nat) (h : DirtyAt tx id) (hne : q.id ≠ id) :
    DirtyAt (tx.setPage q) id := by
  obtain ⟨p, hp, hd⟩ := h
  refine ⟨p, ?_, hd⟩
  unfold TxSt.setPage
  simp only
  rw [Assoc.get?_set_ne _ _ _ _ (fun e => hne e.symm)]; exact hp

theorem dirtyAt_setPage_self (tx : TxSt) (q : PageSt) (hd : q.dirty = true) : DirtyAt (tx.setPage q) q.id :=
  ⟨q, by unfold TxSt.setPage; exact Assoc.get?_set_self _ _ _, hd⟩

theorem dirtyAt_getPage (f : FileSt) (tx tx1 : TxSt) (k : Nat) (p : PageSt) (hg : getPage f tx k = .ok (tx1, p))
    (id : Nat) (h : DirtyAt tx id) : DirtyAt tx1 id := by
  rcases getPage_cases f tx tx1 k p hg with ⟨-, -, rfl⟩ | ⟨hn, -, rfl⟩
  · exact h
  · obtain ⟨q, hq, hd⟩ := h
    refine ⟨q, ?_, hd⟩
    simp only
    have : id ≠ k := by intro e; subst e; rw [hn] at hq; cases hq
    rw [Assoc.get?_set_ne _ _ _ _ this]; exact hq

/-- the page `getPage` returns for a page that is dirty is that dirty page -/
theorem dirtyAt_getPage_self (f : FileSt) (tx tx1 : TxSt) (k : Nat) (p : PageSt)
    (hg : getPage f tx k = .ok (tx1, p)) (h : DirtyAt tx k) : p.dirty = true := by
  rcases getPage_cases f tx tx1 k p hg with ⟨hp, -, -⟩ | ⟨hn, -, -⟩
  · obtain ⟨q, hq, hd⟩ := h
    rw [hp] at hq; cases hq; exact hd
  · obtain ⟨q, hq, -⟩ := h
    rw [hn] at hq; cases hq

theorem getPage_id {f0 : FileSt} {live : List Nat} {f : FileSt} {tx : TxSt} {cur : List Nat}
    (h : U.TxInv f0 live f tx cur) (k : Nat) (tx1 : TxSt) (p : PageSt) (hg : getPage f tx k = .ok (tx1, p)) :
    p.id = k := by
  rcases getPage_cases f tx tx1 k p hg with ⟨hp, -, -⟩ | ⟨-, hp, -⟩
  · exact (h.pg k p hp).id
  · rw [hp]

/-- a successful write leaves the page dirty -/
theorem dirtyAt_txWrite_self {f0 : FileSt} {live : List Nat} {f : FileSt} {tx : TxSt} {cur : List Nat}
    (h : U.TxInv f0 live f tx cur) (id : Nat) (mode : WMode) (s : Nat) (tx' : TxSt)
    (hw : txWrite f tx id mode s = .ok tx') : DirtyAt tx' id := by
  unfold txWrite at hw
  cases hg : getPage f tx id with
  | error e => simp [hg, bind, Except.bind] at hw
  | ok r =>
    obtain ⟨tx1, p⟩ := r
    simp only [hg, bind, Except.bind] at hw
    have hpid := getPage_id h id tx1 p hg
    cases hcw : pageCanWrite p with
    | error e => simp [hcw] at hw
    | ok u =>
      simp only [hcw] at hw
      obtain ⟨l1, -, -, -, -, -⟩ := loadBytes_fields f p
      cases mode with
      | full =>
        simp only [pure, Except.pure, Except.ok.injEq] at hw
        subst hw
        have := dirtyAt_setPage_self tx1 (setDirty { p with bytes := some (Content.full id s) }) rfl
        rw [show (setDirty { p with bytes := some (Content.full id s) }).id = id from hpid] at this
        exact this
      | lo =>
        simp only [pure, Except.pure, Except.ok.injEq] at hw
        subst hw
        have := dirtyAt_setPage_self tx1
          (setDirty { loadBytes f p with bytes := some { (loadBytes f p).bytes.getD {} with lo := (id, s) } }) rfl
        rw [show (setDirty { loadBytes f p with bytes := some { (loadBytes f p).bytes.getD {} with lo := (id, s) } }).id
          = id from l1.trans hpid] at this
        exact this
      | hi =>
        simp only [pure, Except.pure, Except.ok.injEq] at hw
        subst hw
        have := dirtyAt_setPage_self tx1
          (setDirty { loadBytes f p with bytes := some { (loadBytes f p).bytes.getD {} with hi := (id, s) } }) rfl
        rw [show (setDirty { loadBytes f p with bytes := some { (loadBytes f p).bytes.getD {} with hi := (id, s) } }).id
          = id from l1.trans hpid] at this
        exact this

theorem dirtyAt_txWrite {f0 : FileSt} {live : List Nat} {f : FileSt} {tx : TxSt} {cur : List Nat}
    (h : U.TxInv f0 live f tx cur) (k : Nat) (mode : WMode) (s : Nat) (tx' : TxSt)
    (hw : txWrite f tx k mode s = .ok tx') (id : Nat) (hd : DirtyAt tx id) : DirtyAt tx' id := by
  by_cases e : k = id
  · subst e; exact dirtyAt_txWrite_self h k mode s tx' hw
  · unfold txWrite at hw
    cases hg : getPage f tx k with
    | error e => simp [hg, bind, Except.bind] at hw
    | ok r =>
      obtain ⟨tx1, p⟩ := r
      simp only [hg, bind, Except.bind] at hw
      have hpid := getPage_id h k tx1 p hg
      have h1 := dirtyAt_getPage f tx tx1 k p hg id hd
      cases hcw : pageCanWrite p with
      | error e => simp [hcw] at hw
      | ok u =>
        simp only [hcw] at hw
        obtain ⟨l1, -, -, -, -, -⟩ := loadBytes_fields f p
        cases mode with
        | full =>
          simp only [pure, Except.pure, Except.ok.injEq] at hw
          subst hw
          exact dirtyAt_setPage_ne tx1 _ id h1 (by show p.id ≠ id; rw [hpid]; exact e)
        | lo =>
          simp only [pure, Except.pure, Except.ok.injEq] at hw
          subst hw
          exact dirtyAt_setPage_ne tx1 _ id h1 (by show (loadBytes f p).id ≠ id; rw [l1, hpid]; exact e)
        | hi =>
          simp only [pure, Except.pure, Except.ok.injEq] at hw
          subst hw
          exact dirtyAt_setPage_ne tx1 _ id h1 (by show (loadBytes f p).id ≠ id; rw [l1, hpid]; exact e)

theorem dirtyAt_txLoad {f0 : FileSt} {live : List Nat} {f : FileSt} {tx : TxSt} {cur : List Nat}
    (h : U.TxInv f0 live f tx cur) (k : Nat) (tx' : TxSt) (hw : txLoad f tx k = .ok tx') (id : Nat)
    (hd : DirtyAt tx id) : DirtyAt tx' id := by
  unfold txLoad at hw
  cases hg : getPage f tx k with
  | error e => simp [hg, bind, Except.bind] at hw
  | ok r =>
    obtain ⟨tx1, p⟩ := r
    simp only [hg, bind, Except.bind] at hw
    have hpid := getPage_id h k tx1 p hg
    have h1 := dirtyAt_getPage f tx tx1 k p hg id hd
    cases hcw : pageCanWrite p with
    | error e => simp [hcw] at hw
    | ok u =>
      simp only [hcw, pure, Except.pure, Except.ok.injEq] at hw
      subst hw
      obtain ⟨l1, -, -, -, -, l6⟩ := loadBytes_fields f p
      by_cases e : k = id
      · subst e
        have hdp := dirtyAt_getPage_self f tx tx1 k p hg hd
        have := dirtyAt_setPage_self tx1 (loadBytes f p) (l6.trans hdp)
        rw [l1, hpid] at this; exact this
      · exact dirtyAt_setPage_ne tx1 _ id h1 (by rw [l1, hpid]; exact e)

theorem dirtyAt_txRead (f : FileSt) (tx : TxSt) (k : Nat) (tx' : TxSt) (c : Content)
    (hw : txRead f tx k = .ok (tx', c)) (id : Nat) (hd : DirtyAt tx id) : DirtyAt tx' id := by
  unfold txRead at hw
  cases hg : getPage f tx k with
  | error e => simp [hg, bind, Except.bind] at hw
  | ok r =>
    obtain ⟨tx1, p⟩ := r
    simp only [hg, bind, Except.bind] at hw
    have h1 := dirtyAt_getPage f tx tx1 k p hg id hd
    cases hb : p.bytes with
    | some b =>
      simp only [hb, pure, Except.pure, Except.ok.injEq, Prod.mk.injEq] at hw
      rw [← hw.1]; exact h1
    | none =>
      simp only [hb] at hw
      split at hw
      · cases hw
      · simp only [pure, Except.pure, Except.ok.injEq, Prod.mk.injEq] at hw
        rw [← hw.1]; exact h1

theorem dirtyAt_txFree {f0 : FileSt} {live : List Nat} {f : FileSt} {tx : TxSt} {cur : List Nat}
    (h : U.TxInv f0 live f tx cur) (k : Nat) (f' : FileSt) (tx' : TxSt) (hw : txFree f tx k = .ok (f', tx'))
    (id : Nat) (hd : DirtyAt tx id) : DirtyAt tx' id := by
  unfold txFree at hw
  cases hg : getPage f tx k with
  | error e => simp [hg, bind, Except.bind] at hw
  | ok r =>
    obtain ⟨tx1, p⟩ := r
    have hpid := getPage_id h k tx1 p hg
    have h1 := dirtyAt_getPage f tx tx1 k p hg id hd
    cases hcw : pageCanWrite p with
    | error e => simp [hg, bind, Except.bind, hcw] at hw
    | ok u =>
      cases hdy : p.dirty with
      | true => simp [hg, bind, Except.bind, hcw, hdy] at hw
      | false =>
        simp only [hg, bind, Except.bind, hcw, hdy, Bool.false_eq_true, if_false, pure, Except.pure,
          Except.ok.injEq, Prod.mk.injEq] at hw
        obtain ⟨-, rfl⟩ := hw
        have hne : k ≠ id := by
          intro e; subst e
          have := dirtyAt_getPage_self f tx tx1 k p hg hd
          rw [hdy] at this; cases this
        apply dirtyAt_setPage_ne _ _ id _ (by show p.id ≠ id; rw [hpid]; exact hne)
        obtain ⟨q, hq, hqd⟩ := h1
        refine ⟨q, ?_, hqd⟩
        split
        · exact hq
        · exact hq

theorem dirtyAt_txAlloc {f0 : FileSt} {live : List Nat} {f : FileSt} {tx : TxSt} {cur : List Nat}
    (he : U.EngInv f0 live) (h : U.TxInv f0 live f tx cur) (n : Nat) (f' : FileSt) (tx' : TxSt) (ids : List Nat)
    (hw : txAlloc f tx n = .ok (f', tx', ids)) (id : Nat) (hd : DirtyAt tx id) : DirtyAt tx' id := by
  obtain ⟨-, -, hfresh⟩ := U.alloc_fresh_tx he h n f' tx' ids hw
  obtain ⟨p, hp, hdp⟩ := hd
  have hcur : id ∈ cur := by
    have ho := h.pg id p hp
    apply ho.inCur
    cases hf : p.freed with
    | false => rfl
    | true => have := ho.freedClean hf; rw [hdp] at this; cases this
  unfold txAlloc at hw
  cases hr : dataAllocRegions f.alloc tx.ta n with
  | none => simp [hr] at hw
  | some r =>
    obtain ⟨a, ta, ids'⟩ := r
    simp only [hr, Except.ok.injEq, Prod.mk.injEq] at hw
    obtain ⟨-, rfl, rfl⟩ := hw
    refine ⟨p, ?_, hdp⟩
    simp only
    rw [get?_foldl_newPages]
    have : id ∉ ids' := fun hc => (hfresh id hc).2.1 hcur
    simp only [this, if_false]
    exact hp

theorem et_doFlush_dirty (f : FileSt) (tx : TxSt) (p : PageSt) (f' : FileSt) (tx' : TxSt) (w : Nat)
    (h : doFlush f tx p = .ok (f', tx', some w)) :
    ∃ p', Assoc.get? tx'.pages p.id = some p' ∧ p'.dirty = p.dirty := by
  unfold doFlush at h
  split at h
  · simp at h
  · dsimp only at h
    split at h
    · cases h
    · rename_i f1 tx1 p1 hstep
      simp only [Except.ok.injEq, Prod.mk.injEq, Option.some.injEq] at h
      obtain ⟨rfl, rfl, rfl⟩ := h
      have key : p1.id = p.id ∧ p1.dirty = p.dirty := by
        split at hstep
        · simp only [Except.ok.injEq, Prod.mk.injEq] at hstep
          obtain ⟨rfl, rfl, rfl⟩ := hstep; exact ⟨rfl, rfl⟩
        · split at hstep
          · split at hstep
            · cases hstep
            · simp only [Except.ok.injEq, Prod.mk.injEq] at hstep
              obtain ⟨rfl, rfl, rfl⟩ := hstep; exact ⟨rfl, rfl⟩
          · simp only [Except.ok.injEq, Prod.mk.injEq] at hstep
            obtain ⟨rfl, rfl, rfl⟩ := hstep; exact ⟨rfl, rfl⟩
      refine ⟨{ p1 with flushed := true }, ?_, key.2⟩
      unfold TxSt.setPage
      simp only
      rw [← key.1]; exact Assoc.get?_set_self _ _ _

theorem dirtyAt_doFlush (f : FileSt) (tx : TxSt) (k : Nat) (p : PageSt) (hget : Assoc.get? tx.pages k = some p)
    (hpid : p.id = k) (f' : FileSt) (tx' : TxSt) (w : Option Nat) (hw : doFlush f tx p = .ok (f', tx', w))
    (id : Nat) (hd : DirtyAt tx id) : DirtyAt tx' id := by
  cases w with
  | none => obtain ⟨-, rfl⟩ := et_doFlush_none f tx p f' tx' hw; exact hd
  | some w =>
    obtain ⟨s1, -, -⟩ := et_doFlush_struct f tx p f' tx' w hw
    obtain ⟨p', hp', hdp'⟩ := et_doFlush_dirty f tx p f' tx' w hw
    by_cases e : id = k
    · subst e
      obtain ⟨q, hq, hqd⟩ := hd
      rw [hget] at hq; cases hq
      rw [hpid] at hp'
      exact ⟨p', hp', hdp'.trans hqd⟩
    · obtain ⟨q, hq, hqd⟩ := hd
      exact ⟨q, by rw [s1 id (by rw [hpid]; exact e)]; exact hq, hqd⟩

theorem dirtyAt_flushList {f0 : FileSt} {live : List Nat} {cur : List Nat} (he : U.EngInv f0 live)
    (ids : List Nat) : ∀ (f : FileSt) (tx : TxSt), U.TxInv f0 live f tx cur →
    ∀ (f' : FileSt) (tx' : TxSt) (ws : List (Nat × Nat)), flushList f tx ids = .ok (f', tx', ws) →
    ∀ id, DirtyAt tx id → DirtyAt tx' id := by
  induction ids with
  | nil =>
    intro f tx _ f' tx' ws hw id hd
    simp only [flushList, Except.ok.injEq, Prod.mk.injEq] at hw
    obtain ⟨-, rfl, -⟩ := hw
    exact hd
  | cons k ids ih =>
    intro f tx h f' tx' ws hw id hd
    unfold flushList at hw
    cases hg : Assoc.get? tx.pages k with
    | none => simp [hg] at hw
    | some p =>
      simp only [hg] at hw
      cases hf : doFlush f tx p with
      | error e => simp [hf] at hw
      | ok r =>
        obtain ⟨f1, tx1, w⟩ := r
        simp only [hf] at hw
        obtain ⟨h1, -⟩ := U.txinv_doFlush he h k p hg f1 tx1 w hf
        cases hr : flushList f1 tx1 ids with
        | error e => simp [hr] at hw
        | ok r2 =>
          obtain ⟨f2, tx2, ws2⟩ := r2
          simp only [hr, Except.ok.injEq, Prod.mk.injEq] at hw
          obtain ⟨rfl, rfl, -⟩ := hw
          exact ih f1 tx1 h1 f2 tx2 ws2 hr id
            (dirtyAt_doFlush f tx k p hg (h.pg k p hg).id f1 tx1 w hf id hd)

theorem dirtyAt_step {f0 : FileSt} {live : List Nat} (he : U.EngInv f0 live) (s : ERunSt) (op : EOp)
    (hr : U.RunInv f0 live s) (id : Nat) (hd : DirtyAt s.tx id) : DirtyAt (op.step s).tx id := by
  cases op with
  | alloc n =>
    simp only [EOp.step]
    split
    · rename_i f tx ids hw; exact dirtyAt_txAlloc he hr.tx n f tx ids hw id hd
    · exact hd
  | write k mode st =>
    simp only [EOp.step]
    split
    · split
      · rename_i tx hw; exact dirtyAt_txWrite hr.tx k mode st tx hw id hd
      · exact hd
    · exact hd
  | load k =>
    simp only [EOp.step]
    split
    · split
      · rename_i tx hw; exact dirtyAt_txLoad hr.tx k tx hw id hd
      · exact hd
    · exact hd
  | read k =>
    simp only [EOp.step]
    split
    · split
      · rename_i tx c hw; exact dirtyAt_txRead s.f s.tx k tx c hw id hd
      · exact hd
    · exact hd
  | free k =>
    simp only [EOp.step]
    split
    · split
      · rename_i f tx hw; exact dirtyAt_txFree hr.tx k f tx hw id hd
      · exact hd
    · exact hd
  | flushPage k =>
    simp only [EOp.step]
    by_cases hid : k ∈ s.cur
    · simp only [hid, if_true]
      cases hfp : flushPageOp s.f s.tx k with
      | error e => exact hd
      | ok r =>
        obtain ⟨f', tx', w⟩ := r
        dsimp only
        unfold flushPageOp at hfp
        cases hg : getPage s.f s.tx k with
        | error e => simp [hg, bind, Except.bind] at hfp
        | ok r1 =>
          obtain ⟨tx1, p⟩ := r1
          simp only [hg, bind, Except.bind] at hfp
          obtain ⟨h1, hget, -, -⟩ := U.txinv_getPage hr.tx k hid tx1 p hg
          cases hcw : pageCanWrite p with
          | error e => simp [hcw] at hfp
          | ok u =>
            simp only [hcw] at hfp
            exact dirtyAt_doFlush s.f tx1 k p hget (h1.pg k p hget).id f' tx' w hfp id
              (dirtyAt_getPage s.f s.tx tx1 k p hg id hd)
    · simp only [hid, if_false]
      exact hd
  | flushAll order =>
    simp only [EOp.step]
    cases hfl : flushList s.f s.tx order with
    | error e => exact hd
    | ok r =>
      obtain ⟨f', tx', ws⟩ := r
      dsimp only
      exact dirtyAt_flushList he order s.f s.tx hr.tx f' tx' ws hfl id hd
  | checkpoint =>
    simp only [EOp.step]
    obtain ⟨-, hpg, -⟩ := U.txinv_doCheckpoint he hr.tx
    obtain ⟨p, hp, hdp⟩ := hd
    exact ⟨p, by rw [hpg]; exact hp, hdp⟩

theorem dirtyAt_ops {f0 : FileSt} {live : List Nat} (he : U.EngInv f0 live) (ops : List EOp) :
    ∀ (s : ERunSt), U.RunInv f0 live s → ∀ id, DirtyAt s.tx id → DirtyAt (runEOps s ops).tx id := by
  induction ops with
  | nil => intro s _ id hd; exact hd
  | cons op ops ih =>
    intro s hr id hd
    exact ih (op.step s) (U.runinv_step he s op hr) id (dirtyAt_step he s op hr id hd)

/-! ### at the commit -/

/-- once everything is flushed: the physical page the new mapping sends an owned page to is in sync, if
    the page was defined before or was written by this transaction -/
theorem etTrack_tgt {f0 : FileSt} {live : List Nat} {D : List Nat} {pg : Nat → Option Hash} {f : FileSt}
    {tx : TxSt} {cur : List Nat} (h : U.TxInv f0 live f tx cur) (hfl : AllFlushed tx)
    (tr : EtTrack f0 D pg f tx cur) (id : Nat) (hid : id ∈ cur)
    (hcase : id ∈ D ∨ ∃ p, Assoc.get? tx.pages id = some p ∧ p.dirty = true) :
    InSync pg f (tgt f0 tx id) := by
  -- a page that is not dirty has no new overwrite page
  have hclean : (∀ p, Assoc.get? tx.pages id = some p → p.dirty = false) → id ∈ D →
      InSync pg f (tgt f0 tx id) := by
    intro hnd hD
    have hwn : Assoc.get? tx.walNew id = none := by
      cases hw : Assoc.get? tx.walNew id with
      | none => rfl
      | some w =>
        obtain ⟨-, -, -, -, p, hp, hpf⟩ := h.wn id w hw
        have := ((h.pg id p hp).flDirty hpf).1
        rw [hnd p hp] at this; cases this
    unfold tgt
    rw [hwn]
    by_cases hf : id ∈ tx.walFree
    · simp only [hf, if_true]
      rcases tr.wf id hf with h1 | h1
      · exact h1
      · exact absurd hid h1
    · simp only [hf, if_false]
      exact tr.d id hD
  cases hp : Assoc.get? tx.pages id with
  | none =>
    rcases hcase with hD | ⟨p, hp', -⟩
    · exact hclean (fun p hp' => by rw [hp] at hp'; cases hp') hD
    · rw [hp] at hp'; cases hp'
  | some p =>
    cases hd : p.dirty with
    | true =>
      have hf := hfl id p hp hd
      rw [← ((h.pg id p hp).fl hf).1]
      exact tr.fl id p hp hf
    | false =>
      rcases hcase with hD | ⟨p', hp', hd'⟩
      · exact hclean (fun p' hp' => by rw [hp] at hp'; cases hp'; exact hd) hD
      · rw [hp] at hp'; cases hp'; rw [hd] at hd'; cases hd'

/-- … and so is, after a successful commit, the physical page the committed mapping sends it to -/
theorem etTrack_commit {f0 : FileSt} {live : List Nat} {D : List Nat} {pg : Nat → Option Hash} {f : FileSt}
    {tx : TxSt} {cur : List Nat} (he : U.EngInv f0 live) (h : U.TxInv f0 live f tx cur) (hfl : AllFlushed tx)
    (hok : (commitAfterFlush f tx).2.1 = .ok) (tr : EtTrack f0 D pg f tx cur) (id : Nat) (hid : id ∈ cur)
    (hcase : id ∈ D ∨ ∃ p, Assoc.get? tx.pages id = some p ∧ p.dirty = true) :
    InSync (tracePages (if commitCkpt f tx then doCheckpointT f tx else []) pg) (commitAfterFlush f tx).1
      ((commitAfterFlush f tx).1.physOf id) := by
  obtain ⟨h1, hpg, -, -⟩ := U.commit_phase1 he h hfl
  have hfl1 : AllFlushed (cPhase1 f tx).2.1 := by intro k p hp; rw [hpg] at hp; exact hfl k p hp
  have ck := et_commit_ok he h hfl hok
  have t1 := etTrack_cPhase1 tr
  have hcase1 : id ∈ D ∨ ∃ p, Assoc.get? (cPhase1 f tx).2.1.pages id = some p ∧ p.dirty = true := by
    rw [hpg]; exact hcase
  have key := etTrack_tgt h1 hfl1 t1 id hid hcase1
  have hphys : (commitAfterFlush f tx).1.physOf id = tgt f0 (cPhase1 f tx).2.1 id := by
    rw [← newMapAt_tgt]
    unfold FileSt.physOf
    rw [ck.map id]
  unfold InSync at key ⊢
  rw [hphys, key]
  unfold FileSt.diskAt
  rw [ck.disk]

end TxVerif.LT
