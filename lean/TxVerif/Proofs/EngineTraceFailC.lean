/-
  C08 for the engine model, lemmas part C: the engine side of the failing commits. The page writes before
  the data sync (`engWall`), the state after a commit that failed late (`commitLateFail` restores the
  committed state), the invariant `FOk` of the committed states with the ghost data of the fault model,
  and the acceptance of the trace of one transaction with any disciplined I/O outcome.
-/
import TxVerif.Proofs.EngineTraceFailB
namespace TxVerif

/-! ### the writes before the data sync -/

theorem engWall_eq {e : EngCS} {t : TxnE} {W : List TOp} (cf : EtCommitFacts e t W) :
    engWall e t = W ++ etWalW (txnFlags (e.f, e.live) t.t) (runTxnO (e.f, e.live) t.t).1 ++
      etFlW (txnFlags (e.f, e.live) t.t) (runTxnO (e.f, e.live) t.t).1 := by
  unfold engWall
  have e1 : engTrace e t =
      (W ++ etWalW (txnFlags (e.f, e.live) t.t) (runTxnO (e.f, e.live) t.t).1 ++
        etFlW (txnFlags (e.f, e.live) t.t) (runTxnO (e.f, e.live) t.t).1) ++
      ([TOp.sync, TOp.hdr (1 - e.slot) (runTxnO (e.f, e.live) t.t).1.txid (runTxnO (e.f, e.live) t.t).1.txid, TOp.sync] ++
        truncT (runTxnO (e.f, e.live) t.t).1 t.trunc) := by
    rw [cf.trace, List.append_assoc]
  have hall : ∀ op ∈ W ++ etWalW (txnFlags (e.f, e.live) t.t) (runTxnO (e.f, e.live) t.t).1 ++
      etFlW (txnFlags (e.f, e.live) t.t) (runTxnO (e.f, e.live) t.t).1, TOp.isWrite op = true := by
    intro op hop
    obtain ⟨w, h, rfl, -⟩ := cf.free op hop
    rfl
  rw [e1, List.takeWhile_append_of_pos hall]
  simp [TOp.isWrite]

/-- everything known about the writes of a committing transaction, in terms of `engWall` -/
structure EtWallFacts (e : EngCS) (t : TxnE) : Prop where
  free : EtAllFree e.f e.live (engWall e t)
  txid : (engNext e t).f.txid = e.f.txid + 1
  intact : ∀ p h, (p, h) ∈ engReach (engNext e t) → tracePages (engWall e t) e.pages p = some h
  pages : (engNext e t).pages = tracePages (truncT (engNext e t).f t.trunc) (tracePages (engWall e t) e.pages)

theorem et_wall_facts {e : EngCS} (ok : EngOk e) (t : TxnE) (hc : t.t.commits (e.f, e.live)) : EtWallFacts e t := by
  obtain ⟨W, cf⟩ := et_commit_facts ok t hc
  obtain ⟨ok', htx, -⟩ := engOk_next_commit ok t hc
  have hw := engWall_eq cf
  have hpg := et_commit_pages cf
  have hFal : (runTxnO (e.f, e.live) t.t).1 = (engNext e t).f := by rw [engNext_of_commits e t hc]
  refine ⟨by rw [hw]; exact cf.free, htx, ?_, ?_⟩
  · intro p h hm
    rw [hw]
    rcases (engReach_mem _ p h).mp hm with ⟨id, hid, rfl, rfl⟩ | ⟨hq, rfl⟩ | ⟨hq, rfl⟩
    · have := ok'.data id hid
      rw [engNext_pages, hpg] at this
      rw [← hFal] at this ⊢
      exact truncT_pages_some _ _ _ _ _ this
    · rw [← hFal] at hq ⊢; exact cf.wal p hq
    · rw [← hFal] at hq
      have := cf.fl p hq
      rw [this, engNext_of_commits e t hc]
  · rw [engNext_pages, hpg, hw, hFal]

/-! ### the state after a late failure -/

theorem commitLateFail_disk (f : FileSt) (tx : TxSt) : (commitLateFail f tx).disk = (cPhase1 f tx).1.disk := by
  unfold commitLateFail
  split
  · rfl
  · split <;> rfl

theorem commitLateFail_hdr (f : FileSt) (tx : TxSt) : SameHdr f (commitLateFail f tx) := by
  have h1 := et_cPhase1_hdr f tx
  unfold commitLateFail
  split
  · exact sameHdr_trans h1 ⟨rfl, rfl, rfl, rfl⟩
  · split
    · exact sameHdr_trans h1 ⟨rfl, rfl, rfl, rfl⟩
    · exact sameHdr_trans h1 ⟨rfl, rfl, rfl, rfl⟩

/-- a commit that had allocated everything and then failed (data sync or final sync) restores the committed
    state: allocator, mapping, header fields exactly, every owned page reads as before -/
theorem commitLateFail_same {f0 : FileSt} {live : List Nat} {f : FileSt} {tx : TxSt} {cur : List Nat}
    (he : Ov.EngInv f0 live) (h : Ov.TxInv f0 live f tx cur) (hh : SameHdr f0 f) (hfl : AllFlushed tx) :
    SameCommitted f0 live (commitLateFail f tx) := by
  obtain ⟨h1, -, -, -⟩ := Ov.commit_phase1 he h hfl
  have hhdr := sameHdr_trans hh (commitLateFail_hdr f tx)
  have mk : ∀ (a : Alloc) (ta : TxAlloc), Ov.Inv f0.alloc a ta →
      (txAbort { (cPhase1 f tx).1 with alloc := a } { cTx3 f tx with ta := ta }).alloc = f0.alloc ∧
      (txAbort { (cPhase1 f tx).1 with alloc := a } { cTx3 f tx with ta := ta }).walMap = f0.walMap := by
    intro a ta hinv
    obtain ⟨-, r2, r3, -⟩ := Ov.abort_core (f := { (cPhase1 f tx).1 with alloc := a })
      (tx := { cTx3 f tx with ta := ta }) he h1.sameMap h1.sameWP hinv h1.r0
    exact ⟨r2, r3⟩
  have hdisk : ∀ id ∈ live, (commitLateFail f tx).diskAt (f0.physOf id) = f0.diskAt (f0.physOf id) := by
    intro id hid
    have := h1.r0 id hid
    unfold FileSt.diskAt at this ⊢
    rw [commitLateFail_disk]; exact this
  have pa0 := Ov.pa_init h1
  have halloc : (commitLateFail f tx).alloc = f0.alloc ∧ (commitLateFail f tx).walMap = f0.walMap := by
    unfold commitLateFail
    cases hr : cWalRes f tx with
    | none =>
      dsimp only
      obtain ⟨-, r2, r3, -⟩ := Ov.abort_core (f := (cPhase1 f tx).1) (tx := cTx3 f tx) he h1.sameMap h1.sameWP
        (Ov.inv_cTx3 h1) h1.r0
      exact ⟨r2, r3⟩
    | some r =>
      obtain ⟨a, ta, regs⟩ := r
      dsimp only
      have pa1 : Ov.PA f0 (cPhase1 f tx).1 a ta regs (cTx3 f tx).ta := by
        rcases cWalRes_cases f tx a ta regs hr with ⟨n, hn⟩ | ⟨rfl, rfl, rfl⟩
        · exact (Ov.pa_step he pa0 n a ta regs hn).1
        · exact pa0
      cases hc : fileCommitAlloc a ta (cAllocUpd f tx || !regs.isEmpty) with
      | none => dsimp only; exact mk a ta pa1.hinv
      | some r2 =>
        obtain ⟨a2, ta2, cs⟩ := r2
        dsimp only
        have hdl : ∀ x ∈ ta.data.freed, a.maxPages = 0 ∨ x < a.maxPages := by
          intro x hx
          rw [pa1.hdf, (cTx3_facts f tx).2.1] at hx
          rw [pa1.hinv.cfgMax]
          exact (h1.dfreed x hx).2.2.1
        rcases Ov.fileCommit_shape a ta _ a2 ta2 cs hc pa1.hok f0.alloc he.wf pa1.hinv hdl with
          ⟨-, rfl, rfl, -⟩ | ⟨-, regs2, hstep, -⟩
        · exact mk a2 ta2 pa1.hinv
        · rcases hstep with ⟨n, hn⟩ | ⟨rfl, rfl, rfl⟩
          · exact mk a2 ta2 (Ov.pa_step he pa1 n a2 ta2 regs2 hn).1.hinv
          · exact mk a2 ta2 pa1.hinv
  exact ⟨halloc.1, halloc.2, hhdr, hdisk⟩

/-- the transaction level: a committing transaction whose commit fails late leaves the committed state -/
theorem runTxnLate_restored (s : FileSt × List Nat) (he : EngInvO s.1 s.2) (t : TxnO) (hc : t.commits s) :
    RestoredO s.1 s.2 (runTxnLate s t).1 ∧ (runTxnLate s t).2 = s.2 := by
  obtain ⟨f2, tx2, ws, hfl, hall, -⟩ := hc
  have hr := Ov.runinv_ops he t.ops _ (runInvO_start s.1 s.2 he t.overflow t.growPct t.walLimit)
  obtain ⟨h2, -⟩ := Ov.txinv_flushList he t.order _ _ hr.tx f2 tx2 ws hfl
  have hh : SameHdr s.1 f2 := sameHdr_trans (runOps_hdr t.ops (ERunSt.start s.1 s.2 t.overflow t.growPct t.walLimit))
    (flushList_hdr t.order _ _ _ _ _ hfl)
  have e : runTxnLate s t = (commitLateFail f2 tx2, s.2) := by
    unfold runTxnLate; rw [hfl]
  rw [e]
  exact ⟨restoredO_of_same he (commitLateFail_same he h2 hh (allFlushed_of_unflushed tx2 hall)), rfl⟩

theorem runTxnLate_same (s : FileSt × List Nat) (he : EngInvO s.1 s.2) (t : TxnO) (hc : t.commits s) :
    SameCommitted s.1 s.2 (runTxnLate s t).1 := by
  obtain ⟨f2, tx2, ws, hfl, hall, -⟩ := hc
  have hr := Ov.runinv_ops he t.ops _ (runInvO_start s.1 s.2 he t.overflow t.growPct t.walLimit)
  obtain ⟨h2, -⟩ := Ov.txinv_flushList he t.order _ _ hr.tx f2 tx2 ws hfl
  have hh : SameHdr s.1 f2 := sameHdr_trans (runOps_hdr t.ops (ERunSt.start s.1 s.2 t.overflow t.growPct t.walLimit))
    (flushList_hdr t.order _ _ _ _ _ hfl)
  have e : runTxnLate s t = (commitLateFail f2 tx2, s.2) := by
    unfold runTxnLate; rw [hfl]
  rw [e]
  exact commitLateFail_same he h2 hh (allFlushed_of_unflushed tx2 hall)

/-! ### committed states restored after a failure -/

/-- a committed state whose engine part is restored and whose file kept the pages of the reach set -/
theorem engOk_restored {e : EngCS} (ok : EngOk e) (F : FileSt) (live' : List Nat) (pg' : Nat → Option Hash)
    (hr : RestoredO e.f e.live F) (hl : live' = e.live)
    (hk : ∀ p ∈ reachPages (engReach e), pg' p = e.pages p) :
    EngOk { e with f := F, live := live', pages := pg' } ∧
    engReach { e with f := F, live := live', pages := pg' } = engReach e := by
  obtain ⟨ra, rm, rw_, -, -, -, -, rr, ri⟩ := hr
  subst hl
  have hphys := physOf_congr e.f F rm
  refine ⟨⟨ri, ok.slot, ok.sub, ?_, ?_, ?_⟩, ?_⟩
  · intro id hid
    show pg' (F.physOf id) = some (F.readPage id).hash
    rw [hphys, rr id (ok.sub id hid), hk _ ((engReach_pages_mem e _).mpr (Or.inl ⟨id, hid, rfl⟩))]
    exact ok.data id hid
  · intro p hp
    show pg' p = some (mapHash F.walMap)
    have hp' : p ∈ e.f.walPages := rw_ ▸ hp
    rw [rm, hk _ ((engReach_pages_mem e _).mpr (Or.inr (Or.inl hp')))]
    exact ok.wal p hp'
  · intro p hp
    show pg' p = some e.flh
    have hp' : p ∈ e.f.alloc.freelistPages := ra ▸ hp
    rw [hk _ ((engReach_pages_mem e _).mpr (Or.inr (Or.inr hp')))]
    exact ok.fl p hp'
  · unfold engReach
    dsimp only
    rw [rm, rw_, ra]
    congr 2
    apply List.map_congr_left
    intro id hid
    rw [hphys, rr id (ok.sub id hid)]

/-- operations that do not change a page of the reach set: clear writes and truncates, header writes, syncs -/
def PgClear (reach : List (Nat × Hash)) (op : TOp) : Prop :=
  ClearOf reach op ∨ (∃ s t st, op = TOp.hdr s t st) ∨ op = TOp.sync

theorem pgClear_pages (reach : List (Nat × Hash)) (tr : List TOp) (h : ∀ op ∈ tr, PgClear reach op)
    (pg : Nat → Option Hash) (p : Nat) (hp : p ∈ reachPages reach) : tracePages tr pg p = pg p := by
  apply tracePages_other
  intro op hop
  rcases h op hop with h1 | ⟨s, t, st, rfl⟩ | rfl
  · cases op with
    | write q hh =>
      simp only [ClearOf] at h1
      simp only [opHits]
      intro e1; exact h1 (e1 ▸ hp)
    | trunc n =>
      simp only [ClearOf] at h1
      simp only [opHits]
      have := h1 p hp; omega
    | hdr _ _ _ => simp [opHits]
    | sync => simp [opHits]
  · simp [opHits]
  · simp [opHits]

end TxVerif
