/-
  C08 for the engine model, lemmas part A: the fault-aware acceptor `OCfg.run` on the pieces the traces of
  the engine model are made of (runs of clear writes, failing and succeeding syncs in the normal phase, the
  idempotent restore P1, a whole commit, a commit whose final sync fails with its restore path F2').
  `FCore` is the relation between a configuration and the data of a committed state it represents.
-/
import TxVerif.Proofs.EngineTraceFail
namespace TxVerif

theorem orun_append (reachOf : Nat → List (Nat × Hash)) (a b : List FOp) : ∀ c : OCfg,
    c.run reachOf (a ++ b) = (c.run reachOf a).bind (fun c' => c'.run reachOf b) := by
  induction a with
  | nil => intro c; rfl
  | cons op a ih =>
    intro c
    simp only [List.cons_append, OCfg.run]
    cases hs : c.step reachOf op with
    | none => rfl
    | some c1 => exact ih c1

theorem orun_append_some (reachOf : Nat → List (Nat × Hash)) (a b : List FOp) (c c1 c2 : OCfg)
    (h1 : c.run reachOf a = some c1) (h2 : c1.run reachOf b = some c2) : c.run reachOf (a ++ b) = some c2 := by
  rw [orun_append, h1]; exact h2

theorem orun_prefix_some (reachOf : Nat → List (Nat × Hash)) (a b : List FOp) (c c' : OCfg)
    (h : c.run reachOf (a ++ b) = some c') : ∃ c1, c.run reachOf a = some c1 ∧ c1.run reachOf b = some c' := by
  rw [orun_append] at h
  cases h1 : c.run reachOf a with
  | none => rw [h1] at h; cases h
  | some c1 => rw [h1] at h; exact ⟨c1, rfl, h⟩

/-- operations of Model/Crash.lean accepted by `Cfg.run` are accepted in the normal phase -/
theorem orun_ops (reachOf : Nat → List (Nat × Hash)) (c : OCfg) (hp : c.phase = .normal) (tr : List TOp) (b' : Cfg)
    (h : c.base.run reachOf tr = some b') : c.run reachOf (tr.map .op) = some { base := b', phase := .normal } := by
  have := orun_lift reachOf tr c.base b' h
  rcases c with ⟨b, ph⟩
  simp only at hp; subst hp
  exact this

/-! ### the file content behind a configuration -/

theorem ostep_flat (reachOf : Nat → List (Nat × Hash)) (c c' : OCfg) (op : FOp) (h : c.step reachOf op = some c') :
    c'.base.flat = op.tops.foldl applyOp c.base.flat := by
  rcases c with ⟨b, ph⟩
  have hidem : ∀ s t st, (⟨b, ph⟩ : OCfg).idemRestore s t st = some c' →
      c'.base.flat = applyOp b.flat (TOp.hdr s t st) := by
    intro s t st hh
    unfold OCfg.idemRestore at hh
    cases ph with
    | normal =>
      simp only at hh
      split at hh
      · cases hh; simp [Cfg.flat, List.foldl_append]
      · cases hh
    | failed _ _ => cases hh
    | restoring _ _ => cases hh
  have hrest : ∀ s t st, (⟨b, ph⟩ : OCfg).restoreStep s t st = some c' →
      c'.base.flat = applyOp b.flat (TOp.hdr s t st) := by
    intro s t st hh
    unfold OCfg.restoreStep at hh
    cases ph with
    | failed _ _ =>
      simp only at hh
      split at hh
      · cases hh; simp [Cfg.flat, List.foldl_append]
      · cases hh
    | normal => cases hh
    | restoring _ _ => cases hh
  have hbase : ∀ o b1, b.step reachOf o = some b1 → b1.flat = applyOp b.flat o :=
    fun o b1 hb => step_flat reachOf b b1 o hb
  cases op with
  | op o =>
    cases o with
    | write p hh =>
      cases ph with
      | normal =>
        simp only [OCfg.step, Option.map_eq_some_iff] at h
        obtain ⟨b1, hb, rfl⟩ := h
        simp only [FOp.tops, List.foldl_cons, List.foldl_nil]
        exact hbase _ _ hb
      | failed _ _ => simp [OCfg.step] at h
      | restoring _ _ => simp [OCfg.step] at h
    | trunc n =>
      cases ph with
      | normal =>
        simp only [OCfg.step, Option.map_eq_some_iff] at h
        obtain ⟨b1, hb, rfl⟩ := h
        simp only [FOp.tops, List.foldl_cons, List.foldl_nil]
        exact hbase _ _ hb
      | failed _ _ => simp [OCfg.step] at h
      | restoring _ _ => simp [OCfg.step] at h
    | hdr s t st =>
      simp only [FOp.tops, List.foldl_cons, List.foldl_nil]
      cases ph with
      | normal =>
        simp only [OCfg.step] at h
        cases hb : b.step reachOf (.hdr s t st) with
        | some b1 => rw [hb] at h; cases h; exact hbase _ _ hb
        | none => rw [hb] at h; exact hidem s t st h
      | failed _ _ => simp only [OCfg.step] at h; exact hrest s t st h
      | restoring _ _ => simp [OCfg.step] at h
    | sync =>
      simp only [FOp.tops, List.foldl_cons, List.foldl_nil, applyOp]
      cases ph with
      | normal =>
        simp only [OCfg.step, Option.map_eq_some_iff] at h
        obtain ⟨b1, hb, rfl⟩ := h
        have := hbase _ _ hb
        simpa [applyOp] using this
      | failed _ _ => simp only [OCfg.step, Option.some.injEq] at h; subst h; simp [Cfg.flat]
      | restoring _ _ => simp only [OCfg.step, Option.some.injEq] at h; subst h; simp [Cfg.flat]
  | syncFail =>
    simp only [FOp.tops, List.foldl_nil]
    cases ph with
    | normal =>
      simp only [OCfg.step] at h
      cases hi : b.inflight with
      | none => rw [hi] at h; cases h; rfl
      | some st' => rw [hi] at h; cases h; rfl
    | failed _ _ => simp only [OCfg.step, Option.some.injEq] at h; subst h; rfl
    | restoring _ _ => simp only [OCfg.step, Option.some.injEq] at h; subst h; rfl
  | restore s t st =>
    simp only [FOp.tops, List.foldl_cons, List.foldl_nil]
    cases ph with
    | normal => simp only [OCfg.step] at h; exact hidem s t st h
    | failed _ _ => simp only [OCfg.step] at h; exact hrest s t st h
    | restoring _ _ => simp [OCfg.step] at h

theorem orun_flat (reachOf : Nat → List (Nat × Hash)) (tr : List FOp) : ∀ c c' : OCfg,
    c.run reachOf tr = some c' → c'.base.flat = (tr.flatMap FOp.tops).foldl applyOp c.base.flat := by
  induction tr with
  | nil => intro c c' h; simp [OCfg.run] at h; subst h; rfl
  | cons op tr ih =>
    intro c c' h
    simp only [OCfg.run] at h
    cases hs : c.step reachOf op with
    | none => rw [hs] at h; cases h
    | some c1 =>
      rw [hs] at h
      rw [ih c1 c' h, ostep_flat reachOf c c1 op hs, List.flatMap_cons, List.foldl_append]

/-- the page contents of the file behind the configuration follow the trace -/
theorem orun_pages (reachOf : Nat → List (Nat × Hash)) (tr : List FOp) (c c' : OCfg)
    (h : c.run reachOf tr = some c') (pg : Nat → Option Hash) (hpg : ∀ p, c.base.flat.pages p = pg p) :
    ∀ p, c'.base.flat.pages p = ftracePages tr pg p := by
  intro p
  rw [orun_flat reachOf tr c c' h, foldl_applyOp_pages_eq]
  exact tracePages_congr _ _ _ hpg p

end TxVerif
