/-
  PORT of Proofs/EngineTraceB.lean to the lifetime invariant `EngInvU` (namespace `TxVerif.LT`; the lemmas of
  namespace `Ov` replaced by those of namespace `U`, Proofs/Lifetime*.lean). Original header:
-/
/-
  Lemmas for C01 over the engine model, part B: what the engine writes inside a transaction.
  Every write target is a page the committed state does not depend on (`EtFree`): a page that was not in
  use when the transaction began, or an owned page the committed state reads through the mapping.
  Next to it the model's disk follows the trace (`EtSync`).
-/
import TxVerif.Proofs.EngineTraceA
import TxVerif.Props.Lifetime
namespace TxVerif.LT

open Ov in
/-- pages a transaction may write to: not in use in the committed state `f0`, or an owned page that the
    committed state reads from its overwrite page -/
def EtFree (f0 : FileSt) (live : List Nat) (p : Nat) : Prop :=
  ¬ InUse f0.alloc p ∨ (p ∈ live ∧ ∃ w, Assoc.get? f0.walMap p = some w)

/-- a trace of writes to such pages only -/
def EtAllFree (f0 : FileSt) (live : List Nat) (tr : List TOp) : Prop :=
  ∀ op ∈ tr, ∃ w h, op = TOp.write w h ∧ EtFree f0 live w

theorem etAllFree_nil (f0 : FileSt) (live : List Nat) : EtAllFree f0 live [] := fun _ h => nomatch h

theorem etAllFree_append {f0 : FileSt} {live : List Nat} {a b : List TOp} (ha : EtAllFree f0 live a)
    (hb : EtAllFree f0 live b) : EtAllFree f0 live (a ++ b) := by
  intro op hop
  rcases List.mem_append.mp hop with h | h
  · exact ha op h
  · exact hb op h

/-- the model's disk and the file follow each other along a trace: `pg`/`f` before, `pg'`/`f'` after.
    Every page is either in sync (the file holds the hash of the model's content) or untouched on both
    sides. -/
def EtSync (pg : Nat → Option Hash) (f : FileSt) (pg' : Nat → Option Hash) (f' : FileSt) : Prop :=
  ∀ p, pg' p = some (f'.diskAt p).hash ∨ (pg' p = pg p ∧ f'.diskAt p = f.diskAt p)

theorem etSync_refl (pg : Nat → Option Hash) (f : FileSt) : EtSync pg f pg f := fun _ => Or.inr ⟨rfl, rfl⟩

theorem etSync_trans {pg0 pg1 pg2 : Nat → Option Hash} {f0 f1 f2 : FileSt} (h1 : EtSync pg0 f0 pg1 f1)
    (h2 : EtSync pg1 f1 pg2 f2) : EtSync pg0 f0 pg2 f2 := by
  intro p
  rcases h2 p with h | ⟨a, b⟩
  · exact Or.inl h
  · rcases h1 p with h | ⟨c, d⟩
    · left; rw [a, b]; exact h
    · right; exact ⟨a.trans c, b.trans d⟩

/-- one write of the model's content -/
theorem etSync_write (pg : Nat → Option Hash) (f f' : FileSt) (w : Nat)
    (hd : ∀ q, q ≠ w → f'.diskAt q = f.diskAt q) :
    EtSync pg f (tracePages [TOp.write w (f'.diskAt w).hash] pg) f' := by
  intro p
  by_cases e : p = w
  · left; subst e; simp [tracePages, applyPg]
  · right; exact ⟨by simp [tracePages, applyPg, e], hd p e⟩

theorem etSync_same_disk (pg : Nat → Option Hash) (f f' : FileSt) (hd : ∀ q, f'.diskAt q = f.diskAt q) :
    EtSync pg f pg f' := fun p => Or.inr ⟨rfl, hd p⟩

/-! ### `doFlush` -/

theorem et_doFlush_none (f : FileSt) (tx : TxSt) (p : PageSt) (f' : FileSt) (tx' : TxSt)
    (h : doFlush f tx p = .ok (f', tx', none)) : f' = f ∧ tx' = tx := by
  unfold doFlush at h
  split at h
  · simp only [Except.ok.injEq, Prod.mk.injEq] at h
    exact ⟨h.1.symm, h.2.1.symm⟩
  · dsimp only at h
    split at h
    · cases h
    · simp at h

theorem et_doFlush_some (f : FileSt) (tx : TxSt) (p : PageSt) (f' : FileSt) (tx' : TxSt) (w : Nat)
    (h : doFlush f tx p = .ok (f', tx', some w)) :
    (∃ p', Assoc.get? tx'.pages p.id = some p' ∧ p'.flushed = true ∧ p'.ondisk = w) ∧
    f'.diskAt w = p.bytes.getD {} ∧ ∀ q, q ≠ w → f'.diskAt q = f.diskAt q := by
  unfold doFlush at h
  split at h
  · simp at h
  · dsimp only at h
    split at h
    · cases h
    · rename_i f1 tx1 p1 hstep
      simp only [Except.ok.injEq, Prod.mk.injEq, Option.some.injEq] at h
      obtain ⟨rfl, rfl, rfl⟩ := h
      have key : f1.disk = f.disk ∧ p1.id = p.id ∧ p1.bytes = p.bytes := by
        split at hstep
        · simp only [Except.ok.injEq, Prod.mk.injEq] at hstep
          obtain ⟨rfl, rfl, rfl⟩ := hstep; exact ⟨rfl, rfl, rfl⟩
        · split at hstep
          · split at hstep
            · cases hstep
            · simp only [Except.ok.injEq, Prod.mk.injEq] at hstep
              obtain ⟨rfl, rfl, rfl⟩ := hstep; exact ⟨rfl, rfl, rfl⟩
          · simp only [Except.ok.injEq, Prod.mk.injEq] at hstep
            obtain ⟨rfl, rfl, rfl⟩ := hstep; exact ⟨rfl, rfl, rfl⟩
      obtain ⟨k1, k2, k3⟩ := key
      refine ⟨⟨{ p1 with flushed := true }, ?_, rfl, rfl⟩, ?_, ?_⟩
      · unfold TxSt.setPage
        simp only
        rw [← k2]; exact Assoc.get?_set_self _ _ _
      · rw [← k3]; exact diskAt_set_self f1 _ _
      · intro q hq
        rw [diskAt_set_ne f1 _ _ _ hq]
        unfold FileSt.diskAt; rw [k1]

/-- the page a flushed page of the transaction was written to is free in the committed state -/
theorem et_flushed_free {f0 : FileSt} {live : List Nat} {f : FileSt} {tx : TxSt} {cur : List Nat}
    (h : U.TxInv f0 live f tx cur) (k : Nat) (p : PageSt)
    (hp : Assoc.get? tx.pages k = some p) (hfl : p.flushed = true) : EtFree f0 live p.ondisk := by
  have ho := h.pg k p hp
  obtain ⟨e1, -, e3⟩ := ho.fl hfl
  have hfr := (ho.flDirty hfl).2
  cases hn : p.new_ with
  | true =>
    obtain ⟨n1, n2, -⟩ := ho.newOk hfr hn
    left; rw [n1]; exact n2
  | false =>
    have hne := e3 hn
    rw [e1]
    unfold tgt at hne ⊢
    cases hw : Assoc.get? tx.walNew k with
    | some w =>
      dsimp only
      left; exact (h.wn k w hw).1
    | none =>
      simp only [hw] at hne ⊢
      by_cases hf : k ∈ tx.walFree
      · simp only [hf, if_true]
        right; exact ⟨ho.oldOk hfr hn, h.wfree k hf⟩
      · simp only [hf, if_false] at hne
        exact absurd rfl hne

/-- one `doFlush` inside a transaction: the write (if any) goes to a free page, the disk follows -/
theorem et_doFlush {f0 : FileSt} {live : List Nat} {f : FileSt} {tx : TxSt} {cur : List Nat}
    (he : U.EngInv f0 live) (h : U.TxInv f0 live f tx cur) (id : Nat) (p : PageSt)
    (hget : Assoc.get? tx.pages id = some p) (f' : FileSt) (tx' : TxSt) (w : Option Nat)
    (hw : doFlush f tx p = .ok (f', tx', w)) (pg : Nat → Option Hash) :
    EtAllFree f0 live (writeOpt f' w) ∧ EtSync pg f (tracePages (writeOpt f' w) pg) f' := by
  obtain ⟨h2, -⟩ := U.txinv_doFlush he h id p hget f' tx' w hw
  cases w with
  | none =>
    obtain ⟨rfl, rfl⟩ := et_doFlush_none f tx p f' tx' hw
    exact ⟨etAllFree_nil _ _, etSync_refl _ _⟩
  | some w =>
    obtain ⟨⟨p', g1, g2, g3⟩, -, d2⟩ := et_doFlush_some f tx p f' tx' w hw
    have hpid : p.id = id := (h.pg id p hget).id
    rw [hpid] at g1
    have hfree := et_flushed_free h2 id p' g1 g2
    rw [g3] at hfree
    refine ⟨?_, etSync_write pg f f' w d2⟩
    intro op hop
    simp only [writeOpt, List.mem_singleton] at hop
    exact ⟨w, _, hop, hfree⟩

/-- `flushList`: all writes (also those issued before a failure) go to free pages -/
theorem et_flushListT_free {f0 : FileSt} {live : List Nat} {cur : List Nat} (he : U.EngInv f0 live)
    (ids : List Nat) : ∀ (f : FileSt) (tx : TxSt), U.TxInv f0 live f tx cur →
    EtAllFree f0 live (flushListT f tx ids) := by
  induction ids with
  | nil => intro f tx _; exact etAllFree_nil _ _
  | cons id ids ih =>
    intro f tx h
    unfold flushListT
    cases hg : Assoc.get? tx.pages id with
    | none => exact etAllFree_nil _ _
    | some p =>
      dsimp only
      cases hf : doFlush f tx p with
      | error e => exact etAllFree_nil _ _
      | ok r =>
        obtain ⟨f1, tx1, w⟩ := r
        dsimp only
        obtain ⟨h1, -⟩ := U.txinv_doFlush he h id p hg f1 tx1 w hf
        exact etAllFree_append (et_doFlush he h id p hg f1 tx1 w hf (fun _ => none)).1 (ih f1 tx1 h1)

/-- a successful `flushList`: the disk follows the trace -/
theorem et_flushListT_sync {f0 : FileSt} {live : List Nat} {cur : List Nat} (he : U.EngInv f0 live)
    (ids : List Nat) : ∀ (f : FileSt) (tx : TxSt) (pg : Nat → Option Hash), U.TxInv f0 live f tx cur →
    ∀ (f' : FileSt) (tx' : TxSt) (ws : List (Nat × Nat)), flushList f tx ids = .ok (f', tx', ws) →
    EtSync pg f (tracePages (flushListT f tx ids) pg) f' := by
  induction ids with
  | nil =>
    intro f tx pg _ f' tx' ws hw
    simp only [flushList, Except.ok.injEq, Prod.mk.injEq] at hw
    obtain ⟨rfl, rfl, -⟩ := hw
    exact etSync_refl _ _
  | cons id ids ih =>
    intro f tx pg h f' tx' ws hw
    unfold flushList at hw
    unfold flushListT
    cases hg : Assoc.get? tx.pages id with
    | none => simp [hg] at hw
    | some p =>
      simp only [hg] at hw
      cases hf : doFlush f tx p with
      | error e => simp [hf] at hw
      | ok r =>
        obtain ⟨f1, tx1, w⟩ := r
        simp only [hf] at hw
        obtain ⟨h1, -⟩ := U.txinv_doFlush he h id p hg f1 tx1 w hf
        cases hr : flushList f1 tx1 ids with
        | error e => simp [hr] at hw
        | ok r2 =>
          obtain ⟨f2, tx2, ws2⟩ := r2
          simp only [hr, Except.ok.injEq, Prod.mk.injEq] at hw
          obtain ⟨rfl, rfl, -⟩ := hw
          simp only [hf]
          rw [tracePages_append]
          exact etSync_trans (et_doFlush he h id p hg f1 tx1 w hf pg).2 (ih f1 tx1 _ h1 f2 tx2 ws2 hr)

/-! ### checkpoint -/

theorem et_ckptListT {f0 : FileSt} {live : List Nat} (he : U.EngInv f0 live) (l : List (Nat × Nat)) :
    ∀ (s : FileSt × TxSt) (pg : Nat → Option Hash), (∀ e ∈ l, Assoc.get? f0.walMap e.1 = some e.2) →
    EtAllFree f0 live (ckptListT s l) ∧ EtSync pg s.1 (tracePages (ckptListT s l) pg) (l.foldl ckptOne s).1 := by
  induction l with
  | nil => intro s pg _; exact ⟨etAllFree_nil _ _, etSync_refl _ _⟩
  | cons e l ih =>
    intro s pg hl
    obtain ⟨i1, i2⟩ := ih (ckptOne s e) (tracePages [TOp.write e.1 (s.1.diskAt e.2).hash] pg)
      (fun x hx => hl x (List.mem_cons_of_mem _ hx))
    have hm := hl e List.mem_cons_self
    have hself : (ckptOne s e).1.diskAt e.1 = s.1.diskAt e.2 := diskAt_set_self s.1 _ _
    have hne : ∀ q, q ≠ e.1 → (ckptOne s e).1.diskAt q = s.1.diskAt q := fun q hq => diskAt_set_ne s.1 _ _ _ hq
    have hs := etSync_write pg s.1 (ckptOne s e).1 e.1 hne
    rw [hself] at hs
    unfold ckptListT
    refine ⟨?_, ?_⟩
    · intro op hop
      rcases List.mem_cons.mp hop with hop | hop
      · exact ⟨e.1, _, hop, Or.inr ⟨he.mapKey e.1 e.2 hm, e.2, hm⟩⟩
      · exact i1 op hop
    · rw [List.foldl_cons]
      have : tracePages (TOp.write e.1 (s.1.diskAt e.2).hash :: ckptListT (ckptOne s e) l) pg =
          tracePages (ckptListT (ckptOne s e) l) (tracePages [TOp.write e.1 (s.1.diskAt e.2).hash] pg) := rfl
      rw [this]
      exact etSync_trans hs i2

theorem et_ckptTodo_map {f0 : FileSt} {live : List Nat} {f : FileSt} {tx : TxSt} {cur : List Nat}
    (he : U.EngInv f0 live) (h : U.TxInv f0 live f tx cur) :
    ∀ e ∈ ckptTodo f tx, Assoc.get? f0.walMap e.1 = some e.2 := by
  intro e hm
  unfold ckptTodo at hm
  rw [h.sameMap] at hm
  exact Assoc.get?_of_mem f0.walMap he.keys e.1 e.2 (List.mem_filter.mp hm).1

theorem et_doCheckpoint_fst (f : FileSt) (tx : TxSt) :
    (doCheckpoint f tx).1 = if tx.checkpoint then f else ((ckptTodo f tx).foldl ckptOne (f, tx)).1 := by
  unfold doCheckpoint
  by_cases hc : tx.checkpoint = true
  · simp [hc]
  · simp only [hc]
    by_cases he : (ckptTodo f tx).isEmpty = true
    · simp only [he, if_true]
      rw [List.isEmpty_iff] at he
      rw [he]; rfl
    · simp only [he]
      rfl

/-- `doCheckpoint`: the copy-backs go to owned pages that are read through the mapping -/
theorem et_doCheckpoint {f0 : FileSt} {live : List Nat} {f : FileSt} {tx : TxSt} {cur : List Nat}
    (he : U.EngInv f0 live) (h : U.TxInv f0 live f tx cur) (pg : Nat → Option Hash) :
    EtAllFree f0 live (doCheckpointT f tx) ∧
    EtSync pg f (tracePages (doCheckpointT f tx) pg) (doCheckpoint f tx).1 := by
  rw [et_doCheckpoint_fst]
  unfold doCheckpointT
  by_cases hc : tx.checkpoint = true
  · simp only [hc, if_true]
    exact ⟨etAllFree_nil _ _, etSync_refl _ _⟩
  · simp only [hc]
    exact et_ckptListT he (ckptTodo f tx) (f, tx) pg (et_ckptTodo_map he h)

/-! ### the operations of a transaction -/

theorem et_txAlloc_disk (f : FileSt) (tx : TxSt) (n : Nat) (f' : FileSt) (tx' : TxSt) (ids : List Nat)
    (hw : txAlloc f tx n = .ok (f', tx', ids)) : f'.disk = f.disk := by
  unfold txAlloc at hw
  cases hr : dataAllocRegions f.alloc tx.ta n with
  | none => simp [hr] at hw
  | some r =>
    obtain ⟨a, ta, ids'⟩ := r
    simp only [hr, Except.ok.injEq, Prod.mk.injEq] at hw
    obtain ⟨rfl, -, -⟩ := hw
    rfl

theorem et_txFree_disk (f : FileSt) (tx : TxSt) (id : Nat) (f' : FileSt) (tx' : TxSt)
    (hw : txFree f tx id = .ok (f', tx')) : f'.disk = f.disk := by
  unfold txFree at hw
  cases hg : getPage f tx id with
  | error e => simp [hg, bind, Except.bind] at hw
  | ok r =>
    obtain ⟨tx1, p⟩ := r
    cases hcw : pageCanWrite p with
    | error e => simp [hg, bind, Except.bind, hcw] at hw
    | ok u =>
      cases hd : p.dirty with
      | true => simp [hg, bind, Except.bind, hcw, hd] at hw
      | false =>
        simp only [hg, bind, Except.bind, hcw, hd, Bool.false_eq_true, if_false, pure, Except.pure,
          Except.ok.injEq, Prod.mk.injEq] at hw
        obtain ⟨rfl, -⟩ := hw
        rfl

theorem etSync_disk_eq (pg : Nat → Option Hash) (f f' : FileSt) (hd : f'.disk = f.disk) : EtSync pg f pg f' :=
  etSync_same_disk pg f f' (fun q => by unfold FileSt.diskAt; rw [hd])

/-- one client operation: its writes go to free pages, the disk follows -/
theorem et_step {f0 : FileSt} {live : List Nat} (he : U.EngInv f0 live) (s : ERunSt) (op : EOp)
    (h : U.RunInv f0 live s) (pg : Nat → Option Hash) :
    EtAllFree f0 live (op.trace s) ∧ EtSync pg s.f (tracePages (op.trace s) pg) (op.step s).f := by
  cases op with
  | alloc n =>
    refine ⟨etAllFree_nil _ _, ?_⟩
    simp only [EOp.trace, EOp.step]
    split
    · rename_i f tx ids hr
      exact etSync_disk_eq pg s.f f (et_txAlloc_disk _ _ _ _ _ _ hr)
    · exact etSync_refl _ _
  | write id mode st =>
    refine ⟨etAllFree_nil _ _, ?_⟩
    simp only [EOp.trace, EOp.step]
    split
    · split
      · exact etSync_refl _ _
      · exact etSync_refl _ _
    · exact etSync_refl _ _
  | load id =>
    refine ⟨etAllFree_nil _ _, ?_⟩
    simp only [EOp.trace, EOp.step]
    split
    · split
      · exact etSync_refl _ _
      · exact etSync_refl _ _
    · exact etSync_refl _ _
  | read id =>
    refine ⟨etAllFree_nil _ _, ?_⟩
    simp only [EOp.trace, EOp.step]
    split
    · split
      · exact etSync_refl _ _
      · exact etSync_refl _ _
    · exact etSync_refl _ _
  | free id =>
    refine ⟨etAllFree_nil _ _, ?_⟩
    simp only [EOp.trace, EOp.step]
    split
    · split
      · rename_i f tx hr
        exact etSync_disk_eq pg s.f f (et_txFree_disk _ _ _ _ _ hr)
      · exact etSync_refl _ _
    · exact etSync_refl _ _
  | flushPage id =>
    simp only [EOp.trace, EOp.step]
    by_cases hid : id ∈ s.cur
    · simp only [hid, if_true]
      cases hfp : flushPageOp s.f s.tx id with
      | error e => exact ⟨etAllFree_nil _ _, etSync_refl _ _⟩
      | ok r =>
        obtain ⟨f', tx', w⟩ := r
        dsimp only
        unfold flushPageOp at hfp
        cases hg : getPage s.f s.tx id with
        | error e => simp [hg, bind, Except.bind] at hfp
        | ok r1 =>
          obtain ⟨tx1, p⟩ := r1
          simp only [hg, bind, Except.bind] at hfp
          obtain ⟨h1, hget, -, -⟩ := U.txinv_getPage h.tx id hid tx1 p hg
          cases hcw : pageCanWrite p with
          | error e => simp [hcw] at hfp
          | ok u =>
            simp only [hcw] at hfp
            exact et_doFlush he h1 id p hget f' tx' w hfp pg
    · simp only [hid, if_false]
      exact ⟨etAllFree_nil _ _, etSync_refl _ _⟩
  | flushAll order =>
    simp only [EOp.trace, EOp.step]
    cases hfl : flushList s.f s.tx order with
    | error e => exact ⟨etAllFree_nil _ _, etSync_refl _ _⟩
    | ok r =>
      obtain ⟨f', tx', ws⟩ := r
      dsimp only
      exact ⟨et_flushListT_free he order s.f s.tx h.tx, et_flushListT_sync he order s.f s.tx pg h.tx f' tx' ws hfl⟩
  | checkpoint =>
    simp only [EOp.trace, EOp.step]
    exact et_doCheckpoint he h.tx pg

/-- an operation list -/
theorem et_ops {f0 : FileSt} {live : List Nat} (he : U.EngInv f0 live) (ops : List EOp) :
    ∀ (s : ERunSt) (pg : Nat → Option Hash), U.RunInv f0 live s →
    EtAllFree f0 live (opsTrace s ops) ∧ EtSync pg s.f (tracePages (opsTrace s ops) pg) (runEOps s ops).f := by
  induction ops with
  | nil => intro s pg _; exact ⟨etAllFree_nil _ _, etSync_refl _ _⟩
  | cons op ops ih =>
    intro s pg h
    obtain ⟨a1, a2⟩ := et_step he s op h pg
    obtain ⟨b1, b2⟩ := ih (op.step s) (tracePages (op.trace s) pg) (U.runinv_step he s op h)
    unfold opsTrace
    rw [tracePages_append]
    exact ⟨etAllFree_append a1 b1, etSync_trans a2 b2⟩

end TxVerif.LT
