/-
  Helper lemmas for C10 (reopen) over histories with the overflow area (`TxnO` / `runHistoryO` of
  Props/C03History.lean, invariant `EngInvO` = `Ov.EngInv`).  Proofs/RefineReopen.lean re-run where the
  invariants are involved; the lemmas about `FileSt.ws` (another statistic), `NoGap`, `GapOK`, `g_*` there
  do not mention the invariants and are reused.

    * `Ov.engInv_reopen`     reopening keeps `Ov.EngInv` — unconditionally (the data end marker may now be
                             raised above the limit, which `Ov.EngInv` allows)
    * `runHistoryO_ws`       a history on a state with another statistic
    * `runTxnO_noGap`        which transactions keep `NoGap`: every transaction without the overflow flag, and
                             every transaction on a bounded file whose data area reaches the limit
                             (`FullData`); NOT an overflow transaction on a bounded file that is not full
                             (counterexample: Props/C10History.lean)
-/
import TxVerif.Proofs.RefineReopen
import TxVerif.Props.C03History
namespace TxVerif

/-! ### the invariant does not mention the statistic; reopening keeps it -/

theorem Ov.engInv_ws {f : FileSt} {live : List Nat} (h : Ov.EngInv f live) (n : Nat) : Ov.EngInv (f.ws n) live :=
  Ov.engInv_congr h rfl rfl rfl

/-- reopening keeps the invariant of a committed state — also when `absorbOverflow` raises the data end
    marker over a gap (to the meta end marker, possibly above the page limit) -/
theorem Ov.engInv_reopen {f : FileSt} {live : List Nat} (h : Ov.EngInv f live) : Ov.EngInv f.reopen live := by
  obtain ⟨k1, k2, k3, k4, k5, k6⟩ := absorb_keeps f.alloc
  have ea : f.reopen.alloc = f.alloc.absorbOverflow := rfl
  have ei : f.reopen.internal = f.internal := by
    unfold FileSt.internal; rw [ea, k5]; rfl
  have hend : f.alloc.absorbOverflow.data.endMarker = f.alloc.data.endMarker ∨
      (f.alloc.absorbOverflow.data.endMarker = f.alloc.mta.endMarker ∧
        f.alloc.data.endMarker < f.alloc.mta.endMarker) := by
    unfold Alloc.absorbOverflow
    split
    · rename_i hc; exact Or.inr ⟨rfl, hc.1⟩
    · exact Or.inl rfl
  have hcfg : Ov.HdrCfg f.reopen.alloc → Ov.HdrCfg f.alloc := by
    intro hc; unfold Ov.HdrCfg at hc ⊢; rw [ea, k4] at hc; exact hc
  refine ⟨⟨?_, ?_, ?_, ?_, ?_, ?_, ?_, ?_⟩, ?_, h.keys, ?_, h.mapKey, h.mapInj, ?_, ei ▸ h.intNodup, ?_, ?_, ?_, ?_⟩
  · rw [ea, k1]; exact h.wf.ascData
  · rw [ea, k2]; exact h.wf.ascMeta
  · rw [ea, k1]; intro x hx; have := h.wf.dataRange x hx; omega
  · rw [ea, k2, k4]; intro x hx; have := h.wf.metaRange x hx; omega
  · rw [ea, k1, k2]; exact h.wf.disj
  · rw [ea]; have := h.wf.dataEnd; omega
  · rw [ea, k1, k4]; exact h.wf.limit
  · rw [ea, k2, k3]; exact h.wf.total
  · rw [ea, k2, k4]; have := h.ends; omega
  · intro id hid
    obtain ⟨a, b, c⟩ := h.liveOk id hid
    exact ⟨a, by rw [ea]; omega, inUse_absorb _ _ c⟩
  · intro x hx
    rw [ei] at hx
    obtain ⟨a, b, c⟩ := h.intOk x hx
    exact ⟨fun hc => a (hcfg hc), inUse_absorb _ _ b, c⟩
  · rw [ei, ea, k2, k3]; exact h.total
  · rw [ea, k4]; exact h.liveLim
  · intro hc; rw [ea, k2]; exact h.hdr (hcfg hc)
  · rw [ea, k4]; exact h.lim2

/-! ### histories with another statistic -/

theorem runTxnO_ws (s : FileSt × List Nat) (n : Nat) (t : TxnO) :
    ∃ m, runTxnO (s.1.ws n, s.2) t = ((runTxnO s t).1.ws m, (runTxnO s t).2) := by
  have e : runEOps (ERunSt.start (s.1.ws n) s.2 t.overflow t.growPct t.walLimit) t.ops =
      (runEOps (ERunSt.start s.1 s.2 t.overflow t.growPct t.walLimit) t.ops).ws n := by
    rw [start_ws, run_ws]
  unfold runTxnO TxnO.run
  dsimp only
  rw [e]
  generalize runEOps (ERunSt.start s.1 s.2 t.overflow t.growPct t.walLimit) t.ops = r
  rw [show (r.ws n).f = r.f.ws n from rfl, show (r.ws n).tx = r.tx from rfl, show (r.ws n).cur = r.cur from rfl,
    flushList_ws]
  cases flushList r.f r.tx t.order with
  | error e => exact ⟨n, rfl⟩
  | ok q =>
    obtain ⟨f2, tx2, ws⟩ := q
    simp only [mapF]
    by_cases hall : tx2.unflushed = []
    · simp only [hall, if_true]
      obtain ⟨m, e2, -⟩ := commit_ws f2 n tx2
      rw [e2]
      by_cases hok : (commitAfterFlush f2 tx2).2.1 = .ok
      · simp only [hok, if_true]; exact ⟨m, rfl⟩
      · simp only [hok, if_false]; exact ⟨m, rfl⟩
    · simp only [hall, if_false]; exact ⟨n, rfl⟩

theorem runHistoryO_ws (ts : List TxnO) : ∀ (s : FileSt × List Nat) (n : Nat),
    ∃ m, runHistoryO (s.1.ws n, s.2) ts = ((runHistoryO s ts).1.ws m, (runHistoryO s ts).2) := by
  induction ts with
  | nil => intro s n; exact ⟨n, rfl⟩
  | cons t ts ih =>
    intro s n
    obtain ⟨m, e⟩ := runTxnO_ws s n t
    show ∃ m, runHistoryO (runTxnO (s.1.ws n, s.2) t) ts = ((runHistoryO (runTxnO s t) ts).1.ws m, _)
    rw [e]
    exact ih (runTxnO s t) m

theorem runHistoryO_append (s : FileSt × List Nat) (a b : List TxnO) :
    runHistoryO s (a ++ b) = runHistoryO (runHistoryO s a) b := by
  unfold runHistoryO; rw [List.foldl_append]

/-! ### which transactions keep `NoGap` -/

/-- the data area of a bounded file reaches (or exceeds) the page limit -/
def FullData (a : Alloc) : Prop := 0 < a.maxPages ∧ a.maxPages ≤ a.data.endMarker

instance (a : Alloc) : Decidable (FullData a) := by unfold FullData; exact inferInstance

theorem fullData_noGap {a : Alloc} (h : FullData a) : NoGap a := Or.inr h

/-- the release of overflow pages never lowers the data end marker below the limit -/
theorem relShape_full (c : Alloc) (h : FullData c) : FullData (Ov.relShape c) := by
  obtain ⟨-, -, h3, -⟩ := releaseOverflow_decomp c.mta.free c.maxPages c.mta.endMarker
  unfold FullData Ov.relShape at *
  dsimp only
  refine ⟨h.1, ?_⟩
  split
  · rename_i hc; exact (h3 hc.1).2
  · exact h.2

/-- … and creates no gap if there was none -/
theorem relShape_noGap_of_le (c : Alloc) (h : c.mta.endMarker ≤ c.data.endMarker) : NoGap (Ov.relShape c) := by
  unfold NoGap Ov.relShape
  dsimp only
  left
  split <;> omega

theorem Ov.step_gap {f0 : FileSt} {live : List Nat} (s : ERunSt) (op : EOp) (h : Ov.RunInv f0 live s)
    (hov : s.tx.ta.overflow = false) (hm : f0.alloc.mta.endMarker ≤ f0.alloc.data.endMarker)
    (hg : GapOK f0.alloc.data.endMarker s.f.alloc) : GapOK f0.alloc.data.endMarker (op.step s).f.alloc := by
  cases op with
  | alloc n =>
    simp only [EOp.step]
    split
    · rename_i f tx ids hr; exact txAlloc_gap _ _ _ _ _ _ _ hr hg
    · exact hg
  | write id mode st =>
    simp only [EOp.step]
    split
    · split <;> exact hg
    · exact hg
  | load id =>
    simp only [EOp.step]
    split
    · split <;> exact hg
    · exact hg
  | read id =>
    simp only [EOp.step]
    split
    · split <;> exact hg
    · exact hg
  | free id =>
    simp only [EOp.step]
    split
    · split
      · rename_i f tx hr
        exact txFree_gap _ _ _ _ _ _ hr hg (Nat.le_of_eq h.tx.inv.dEnd0.symm) (by rw [h.tx.inv.mEnd0]; exact hm)
      · exact hg
    · exact hg
  | flushPage id =>
    simp only [EOp.step]
    split
    · split
      · rename_i f tx w hr; exact flushPageOp_gap _ _ _ _ _ _ _ hr hg hov
      · exact hg
    · exact hg
  | flushAll order =>
    simp only [EOp.step]
    split
    · rename_i f tx ws hr; exact flushList_gap _ _ _ _ _ _ _ hr hg hov
    · exact hg
  | checkpoint =>
    simp only [EOp.step]
    rw [doCheckpoint_alloc]; exact hg

theorem Ov.run_gap {f0 : FileSt} {live : List Nat} (he : Ov.EngInv f0 live) (ops : List EOp) :
    ∀ (s : ERunSt), Ov.RunInv f0 live s → s.tx.ta.overflow = false →
    f0.alloc.mta.endMarker ≤ f0.alloc.data.endMarker → GapOK f0.alloc.data.endMarker s.f.alloc →
    GapOK f0.alloc.data.endMarker (runEOps s ops).f.alloc := by
  induction ops with
  | nil => intro s _ _ _ hg; exact hg
  | cons op ops ih =>
    intro s h hov hm hg
    exact ih (op.step s) (Ov.runinv_step he s op h) ((step_ovf s op).trans hov) hm (Ov.step_gap s op h hov hm hg)

/-- the allocator after a successful commit: the state `a2` the commit's own allocations lead to (still
    related to the begin of the transaction by `Ov.Inv`), or `relShape (commitShape a2 …)` -/
theorem Ov.commit_final_alloc {f0 : FileSt} {live : List Nat} {f : FileSt} {tx : TxSt} {cur : List Nat}
    (he : Ov.EngInv f0 live) (h : Ov.TxInv f0 live f tx cur) (hfl : AllFlushed tx)
    (hok : (commitAfterFlush f tx).2.1 = .ok) :
    ∃ a2 ta2, Ov.Inv f0.alloc a2 ta2 ∧
      (∀ d0, tx.ta.overflow = false → GapOK d0 f.alloc → GapOK d0 a2) ∧
      ((commitAfterFlush f tx).1.alloc = a2 ∨
        ∃ regs2, (commitAfterFlush f tx).1.alloc = Ov.relShape (commitShape a2 ta2 regs2)) := by
  obtain ⟨h1, -, -, -⟩ := Ov.commit_phase1 he h hfl
  rw [commitAfterFlush_eq] at hok ⊢
  unfold commitAfterFlush' at hok ⊢
  dsimp only at hok ⊢
  cases hr : cWalRes f tx with
  | none => rw [hr] at hok; cases hok
  | some r =>
    obtain ⟨a, ta, regs⟩ := r
    rw [hr] at hok
    dsimp only at hok ⊢
    cases hc : fileCommitAlloc a ta (cAllocUpd f tx || !regs.isEmpty) with
    | none => rw [hc] at hok; cases hok
    | some r2 =>
      obtain ⟨a2, ta2, cs⟩ := r2
      dsimp only
      have pa0 := Ov.pa_init h1
      have hov3 : (cTx3 f tx).ta.overflow = tx.ta.overflow := by
        rw [(cTx3_spec f tx).1, (metaFreeIds_spec _ _).2.2.1, (metaFreeIds_spec _ _).2.2.1]
        exact cPhase1_ovf f tx
      have pa1 : Ov.PA f0 (cPhase1 f tx).1 a ta regs (cTx3 f tx).ta ∧ ta.overflow = tx.ta.overflow ∧
          (∀ d0, tx.ta.overflow = false → GapOK d0 f.alloc → GapOK d0 a) := by
        rcases cWalRes_cases f tx a ta regs hr with ⟨n, hn⟩ | ⟨rfl, rfl, rfl⟩
        · refine ⟨(Ov.pa_step he pa0 n a ta regs hn).1, (metaAllocRegions_st _ _ n a ta regs hn).2.2.2.trans hov3, ?_⟩
          intro d0 hov hg
          exact g_metaAllocRegions d0 _ _ n a ta regs (by rw [cPhase1_alloc]; exact hg) (hov3.trans hov) hn
        · exact ⟨pa0, hov3, fun d0 _ hg => by rw [cPhase1_alloc]; exact hg⟩
      have hdl : ∀ x ∈ ta.data.freed, a.maxPages = 0 ∨ x < a.maxPages := by
        intro x hx
        rw [pa1.1.hdf, (cTx3_facts f tx).2.1] at hx
        rw [pa1.1.hinv.cfgMax]
        exact (h1.dfreed x hx).2.2.1
      rcases Ov.fileCommit_shape a ta _ a2 ta2 cs hc pa1.1.hok f0.alloc he.wf pa1.1.hinv hdl with
        ⟨hu, rfl, rfl, hcm⟩ | ⟨-, regs2, hstep, hcm⟩
      · exact ⟨a2, ta2, pa1.1.hinv, pa1.2.2, Or.inl hcm⟩
      · refine ⟨a2, ta2, ?_, ?_, Or.inr ⟨regs2, hcm⟩⟩
        · rcases hstep with ⟨n, hn⟩ | ⟨rfl, rfl, rfl⟩
          · exact (Ov.pa_step he pa1.1 n a2 ta2 regs2 hn).1.hinv
          · exact pa1.1.hinv
        · intro d0 hov hg
          rcases hstep with ⟨n, hn⟩ | ⟨rfl, rfl, rfl⟩
          · exact g_metaAllocRegions d0 a ta n a2 ta2 regs2 (pa1.2.2 d0 hov hg) (pa1.2.1.trans hov) hn
          · exact pa1.2.2 d0 hov hg

/-- a successful commit of a transaction without the overflow flag creates no gap -/
theorem Ov.commit_gap {f0 : FileSt} {live : List Nat} {f : FileSt} {tx : TxSt} {cur : List Nat}
    (he : Ov.EngInv f0 live) (h : Ov.TxInv f0 live f tx cur) (hfl : AllFlushed tx) (hov : tx.ta.overflow = false)
    (hok : (commitAfterFlush f tx).2.1 = .ok) (d0 : Nat) (hg : GapOK d0 f.alloc) :
    NoGap (commitAfterFlush f tx).1.alloc := by
  obtain ⟨a2, ta2, -, h2, h3⟩ := Ov.commit_final_alloc he h hfl hok
  have hg2 := h2 d0 hov hg
  rcases h3 with e | ⟨regs2, e⟩
  · rw [e]; exact gapOK_noGap hg2
  · rw [e]; exact relShape_noGap_of_le _ hg2.1

/-- a successful commit (any overflow flag) on a bounded file whose data area reaches the limit leaves the
    data end marker at or above the limit -/
theorem Ov.commit_full {f0 : FileSt} {live : List Nat} {f : FileSt} {tx : TxSt} {cur : List Nat}
    (he : Ov.EngInv f0 live) (h : Ov.TxInv f0 live f tx cur) (hfl : AllFlushed tx)
    (hok : (commitAfterFlush f tx).2.1 = .ok) (hf : FullData f0.alloc) :
    FullData (commitAfterFlush f tx).1.alloc := by
  obtain ⟨a2, ta2, h1, -, h3⟩ := Ov.commit_final_alloc he h hfl hok
  have hf2 : FullData a2 := by
    unfold FullData at hf ⊢
    rw [h1.cfgMax]
    exact ⟨hf.1, Nat.le_trans hf.2 h1.dEndLe⟩
  rcases h3 with e | ⟨regs2, e⟩
  · rw [e]; exact hf2
  · rw [e]; exact relShape_full _ hf2

/-- **which transactions keep `NoGap`**: from a committed state satisfying the invariant and without gap,
    every outcome (commit, failed commit, rollback) of a transaction `t` leaves a state without gap if `t`
    does not use the overflow flag, or if the data area of the (bounded) file reaches the page limit when
    `t` begins. (For an overflow transaction on a bounded file that is not full this is false.) -/
theorem runTxnO_noGap (s : FileSt × List Nat) (he : EngInvO s.1 s.2) (hg : NoGap s.1.alloc) (t : TxnO)
    (hc : t.overflow = false ∨ FullData s.1.alloc) : NoGap (runTxnO s t).1.alloc := by
  have hr := Ov.runinv_ops he t.ops _ (runInvO_start s.1 s.2 he t.overflow t.growPct t.walLimit)
  unfold runTxnO TxnO.run
  dsimp only
  split
  · rw [(Ov.abort_spec he hr.tx).2.1]; exact hg
  · rename_i f2 tx2 ws hfl
    obtain ⟨h2, -⟩ := Ov.txinv_flushList he t.order _ _ hr.tx f2 tx2 ws hfl
    split
    · rename_i hall
      split
      · rename_i hok
        by_cases hfull : FullData s.1.alloc
        · exact fullData_noGap (Ov.commit_full he h2 (allFlushed_of_unflushed tx2 hall) hok hfull)
        · have hov : t.overflow = false := hc.resolve_right hfull
          have hm : s.1.alloc.mta.endMarker ≤ s.1.alloc.data.endMarker := by
            unfold NoGap at hg; unfold FullData at hfull
            rcases hg with hg | hg
            · exact hg
            · exact absurd hg hfull
          have hov0 : (ERunSt.start s.1 s.2 t.overflow t.growPct t.walLimit).tx.ta.overflow = false := hov
          have hgr := Ov.run_gap he t.ops _ (runInvO_start s.1 s.2 he t.overflow t.growPct t.walLimit) hov0 hm
            ⟨hm, Or.inr hm⟩
          have hovr := (runOps_ovf t.ops (ERunSt.start s.1 s.2 t.overflow t.growPct t.walLimit)).trans hov0
          have hg2 := flushList_gap _ t.order _ _ f2 tx2 ws hfl hgr hovr
          have hov2 : tx2.ta.overflow = false := (flushList_ovf t.order _ _ f2 tx2 ws hfl).trans hovr
          exact Ov.commit_gap he h2 (allFlushed_of_unflushed tx2 hall) hov2 hok _ hg2
      · rename_i hfail
        rw [((Ov.commit_data he h2 (allFlushed_of_unflushed tx2 hall)).2 hfail).2.1]; exact hg
    · rw [(Ov.abort_spec he h2).2.1]; exact hg

/-- a full bounded file stays full: no transaction outcome lowers the data end marker below the limit -/
theorem runTxnO_full (s : FileSt × List Nat) (he : EngInvO s.1 s.2) (hf : FullData s.1.alloc) (t : TxnO) :
    FullData (runTxnO s t).1.alloc := by
  have hr := Ov.runinv_ops he t.ops _ (runInvO_start s.1 s.2 he t.overflow t.growPct t.walLimit)
  unfold runTxnO TxnO.run
  dsimp only
  split
  · rw [(Ov.abort_spec he hr.tx).2.1]; exact hf
  · rename_i f2 tx2 ws hfl
    obtain ⟨h2, -⟩ := Ov.txinv_flushList he t.order _ _ hr.tx f2 tx2 ws hfl
    split
    · rename_i hall
      split
      · rename_i hok
        exact Ov.commit_full he h2 (allFlushed_of_unflushed tx2 hall) hok hf
      · rename_i hfail
        rw [((Ov.commit_data he h2 (allFlushed_of_unflushed tx2 hall)).2 hfail).2.1]; exact hf
    · rw [(Ov.abort_spec he h2).2.1]; exact hf

/-- every transaction of the history that uses the overflow flag begins on a bounded file whose data area
    reaches the page limit (the situation the overflow area is made for) -/
def OvOnFull : FileSt × List Nat → List TxnO → Prop
  | _, [] => True
  | s, t :: ts => (t.overflow = false ∨ FullData s.1.alloc) ∧ OvOnFull (runTxnO s t) ts

instance : ∀ (s : FileSt × List Nat) (ts : List TxnO), Decidable (OvOnFull s ts)
  | _, [] => isTrue trivial
  | s, t :: ts =>
    have := instDecidableOvOnFull (runTxnO s t) ts
    by unfold OvOnFull; exact inferInstance

theorem ovOnFull_cons (s : FileSt × List Nat) (t : TxnO) (ts : List TxnO) :
    OvOnFull s (t :: ts) ↔ (t.overflow = false ∨ FullData s.1.alloc) ∧ OvOnFull (runTxnO s t) ts := Iff.rfl

theorem ovOnFull_append (ts1 ts2 : List TxnO) : ∀ (s : FileSt × List Nat),
    OvOnFull s (ts1 ++ ts2) ↔ OvOnFull s ts1 ∧ OvOnFull (runHistoryO s ts1) ts2 := by
  induction ts1 with
  | nil => intro s; exact ⟨fun h => ⟨trivial, h⟩, fun h => h.2⟩
  | cons t ts ih =>
    intro s
    rw [List.cons_append, ovOnFull_cons, ovOnFull_cons, ih (runTxnO s t)]
    show _ ↔ (_ ∧ OvOnFull (runTxnO s t) ts) ∧ OvOnFull (runHistoryO (runTxnO s t) ts) ts2
    constructor
    · rintro ⟨a, b, c⟩; exact ⟨⟨a, b⟩, c⟩
    · rintro ⟨⟨a, b⟩, c⟩; exact ⟨a, b, c⟩

/-- `NoGap` (together with the invariant) along a history in which overflow transactions only run on a full
    bounded file -/
theorem runHistoryO_noGap (ts : List TxnO) : ∀ (s : FileSt × List Nat), EngInvO s.1 s.2 → NoGap s.1.alloc →
    OvOnFull s ts → NoGap (runHistoryO s ts).1.alloc := by
  induction ts with
  | nil => intro s _ hg _; exact hg
  | cons t ts ih =>
    intro s he hg ho
    exact ih (runTxnO s t) (runTxnO_inv s he t) (runTxnO_noGap s he hg t ho.1) ho.2

end TxVerif
