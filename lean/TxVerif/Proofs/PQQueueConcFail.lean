/-
  Failing flush transactions on the whole-queue model: the simulation facts a step relation with failing
  transactions needs (Model/PQWriterFail.lean: `failFlush`, oracle `FlushOutcome`).

  A flush transaction that fails (at `BeginWrite`, at the allocation, or at its commit) leaves the file as it was
  and the write buffer as `failFlush` leaves it (`SameBuf`: same pages, dirty flags, counters; only page ids
  assigned and taken back).  Hence, for the specification:
  * a `Write` whose flush failed appended nothing, an explicit `Flush` that failed did nothing:
    the queue state stays related to the SAME specification state (`sim_flush_failed`);
  * a `Next` whose flush failed has finished its event in the buffer: related to the specification state with
    the event appended and nothing more flushed (`sim_next_failed`);
  * a failed ACK changes nothing.
  (Used today by the drivers' replay of `err:oom` calls - Model/PQQueueDriver.lean, Model/PQQueueConcDriver.lean
  `producerFault` - whose state updates are exactly the ones proved related here.  The two-thread step relation
  of Model/PQQueueConc.lean and its linearizability theorem do not contain failing steps yet.)
-/
import TxVerif.Proofs.PQQueueSim2
import TxVerif.Proofs.PQWriterFail
namespace TxVerif

/-- replacing the writer state by one with the same buffer contents and the same file keeps the invariant -/
theorem QInv_sameBuf (c : QCfg) (q : PQState) (a : ASpec) (w' : WState) (hI : QInv c q a) (e : SameBuf q.w w') :
    QInv c { q with w := w' } a := by
  refine ⟨BufInv_of_same c.S 0 q.w w' a.events a.cur hI.w e, ?_, ?_, hI.sz, ?_, ?_⟩
  · show w'.tailId = a.flushed; rw [e.tailId]; exact hI.fl
  · show w'.activeEventCount + a.flushed = a.events.length; rw [e.count]; exact hI.cnt
  · have := HInv_setW c.S a.events a.flushed a.acked q w' q.r e.persisted hI.h
    exact this
  · have h := hI.r
    show RInv c.P c.S a.events a.flushed a.acked w'.persisted.length q.r a
    rw [e.persisted]; exact h

/-- **A failed flush (explicit, or the automatic flush of a `Write`) is a no-op for the specification.** -/
theorem sim_flush_failed (c : QCfg) (q : PQState) (a : ASpec) (o : FlushOutcome) (hI : QInv c q a) :
    QInv c { q with w := failFlush o q.w } a :=
  QInv_sameBuf c q a _ hI (failFlush_same o q.w)

/-- **A `Next` whose automatic flush failed has finished its event** (in the buffer; nothing more is flushed). -/
theorem sim_next_failed (c : QCfg) (hP : 64 ≤ c.P) (q : PQState) (a : ASpec) (o : FlushOutcome) (hI : QInv c q a)
    (hne : a.cur ≠ []) (hsz : a.cur.length < 2 ^ 32) :
    QInv c { q with w := failFlush o (q.w.nextCore c.S) } { a with events := a.events ++ [a.cur], cur := [] } := by
  have h1 := BufInv_nextCore c.S 0 (c.S_add hP).2 q.w a.events a.cur hI.w
  obtain ⟨t1, t2⟩ := nextCore_fields c.S q.w
  have hpers : (q.w.nextCore c.S).persisted = q.w.persisted := rfl
  have hext : ∀ e ∈ [a.cur], 0 < e.length ∧ e.length < 2 ^ 32 := by
    intro e he
    simp only [List.mem_singleton] at he
    subst he
    exact ⟨List.length_pos_iff.mpr hne, hsz⟩
  have := afterWriter_inv c hP q a hI (q.w.nextCore c.S) [a.cur] [] none h1 (by rw [t1, hI.fl]; exact Nat.le_refl _)
    (by rw [t1, t2, hI.fl]; have := hI.cnt; simp; omega) hext (by rw [t1, hI.fl]; simp)
  have heq : q.afterWriter (q.w.nextCore c.S) none = { q with w := q.w.nextCore c.S } := by
    simp [PQState.afterWriter, t1, hpers, QHdr.flush]
  rw [heq, t1, hI.fl] at this
  have h2 := QInv_sameBuf c { q with w := q.w.nextCore c.S } _ (failFlush o (q.w.nextCore c.S)) this
    (failFlush_same o (q.w.nextCore c.S))
  exact h2

end TxVerif
