/-
  Helpers for the two-thread queue model (Model/PQQueueConc.lean): producer calls are simulated also while the
  consumer's read session is open; an ACK plan stays applicable while the producer commits flushes.
-/
import TxVerif.Model.PQQueueConc
import TxVerif.Props.PQQueueCrash
namespace TxVerif

/-! ## producer calls do not look at the reader -/

def PQState.setTx (q : PQState) (b : Bool) : PQState := { q with r := { q.r with inTx := b } }

theorem QInv_setTx (c : QCfg) (q : PQState) (a : ASpec) (b : Bool) (hI : QInv c q a) :
    QInv c (q.setTx b) { a with inRead := b } :=
  QInv_setR c q a _ _ hI rfl rfl rfl rfl ⟨rfl, hI.r.bytes, hI.r.cons, hI.r.endId, hI.r.cur⟩

theorem step_setTx (c : QCfg) (q : PQState) (b : Bool) (op : QOp) (hop : op.isProducer = true) :
    (q.setTx b).step c op = ((q.step c op).1.setTx b, (q.step c op).2) ∧
    (q.setTx b).autoFlush c op = q.autoFlush c op ∧ (q.step c op).1.r = q.r := by
  cases op <;> simp [QOp.isProducer] at hop <;> exact ⟨rfl, rfl, rfl⟩

/-- producer calls are simulated whether or not a read session is open -/
theorem sim_pstep (c : QCfg) (hP : 64 ≤ c.P) (q : PQState) (a a' : ASpec) (o : QOut) (op : QOp)
    (hop : op.isProducer = true) (hI : QInv c q a) (hs : a.pstep op (q.autoFlush c op) = some (a', o)) :
    (q.step c op).2 = o ∧ QInv c (q.step c op).1 a' := by
  simp only [ASpec.pstep, Option.map_eq_some_iff, Prod.mk.injEq] at hs
  obtain ⟨r1, hr1, he1, he2⟩ := hs
  obtain ⟨t1, t2, t3⟩ := step_setTx c q false op hop
  rw [← t2] at hr1
  obtain ⟨e1, hI1⟩ := queue_sim_step c hP (q.setTx false) _ r1.1 r1.2 op (QInv_setTx c q a false hI) hr1
  rw [t1] at e1 hI1
  refine ⟨by rw [← he2]; exact e1, ?_⟩
  have := QInv_setTx c _ r1.1 a.inRead hI1
  rw [← he1]
  have hq : ((q.step c op).1.setTx false).setTx a.inRead = (q.step c op).1 := by
    have h1 : (q.step c op).1.r.inTx = a.inRead := by rw [t3]; exact hI.r.inTx
    cases hq : (q.step c op).1 with
    | mk w hdr hp rp iu r tf ta tfr =>
      rw [hq] at h1
      simp only [PQState.setTx]
      cases r
      simp_all
  rw [hq] at this
  exact this

/-- what a producer call does to the specification state -/
theorem pstep_facts (a a' : ASpec) (op : QOp) (fl : Bool) (o : QOut) (hop : op.isProducer = true)
    (hF : a.flushed ≤ a.events.length) (hs : a.pstep op fl = some (a', o)) :
    a'.acked = a.acked ∧ a'.consumed = a.consumed ∧ a'.left = a.left ∧ a'.inRead = a.inRead ∧
    a.flushed ≤ a'.flushed ∧ ∃ ext, a'.events = a.events ++ ext := by
  simp only [ASpec.pstep, Option.map_eq_some_iff, Prod.mk.injEq] at hs
  obtain ⟨r1, hr1, he1, _⟩ := hs
  rw [← he1]
  cases op <;> simp [QOp.isProducer] at hop <;> simp only [ASpec.step, ASpec.doFlush] at hr1 <;>
    (repeat' split at hr1) <;> simp only [Option.some.injEq, reduceCtorEq] at hr1 <;>
    (try (subst hr1; refine ⟨rfl, rfl, rfl, rfl, ?_, ?_⟩ <;>
      first | exact ⟨[a.cur], rfl⟩ | exact ⟨[], (List.append_nil _).symm⟩ | exact Nat.le_refl _ | exact hF | (simp; omega)))

/-! ## ACK: plan, then apply -/

/-- the sequential `ack` is plan + apply in one state -/
theorem ack_decomp (c : QCfg) (q : PQState) (n : Nat) (hn : n ≠ 0) :
    q.ack c n = match q.ackPlanI c n with
      | .error e => (q, .err e)
      | .ok p => (q.ackApply n p, .ok) := by
  simp only [PQState.ack, PQState.ackPlanI, hn, if_false]
  split
  · rfl
  · split
    · rfl
    · split
      · simp [PQState.ackApply, QHdr.ack, hn]
      · cases hai : ackInit c.P (q.from q.headPos.1) (q.hdr.startId + n) with
        | none => rfl
        | some st => simp [PQState.ackApply, QHdr.ack, hn]

/-- what is needed of a plan when it is applied: established when the plan is made (`planOK_init`), kept while
    the producer commits flushes (`planOK_grow`) -/
structure PlanOK (c : QCfg) (q : PQState) (a : ASpec) (n : Nat) (p : AckPlanI) : Prop where
  hn : n ≠ 0
  hle : a.acked + n ≤ a.flushed
  hidx : p.headIdx = q.headPos.1 + p.freed
  hlt : p.headIdx < q.w.persisted.length
  head : ∃ K', q.w.persisted[p.headIdx]? = some K' ∧ K'.off = p.headOff ∧ K'.off ≠ 0 ∧ K'.first = p.headId
  hid : p.headId < a.acked + n
  rd : AtB c.S a.events q.w.persisted.length (a.acked + n) (p.readIdx, p.readOff)
  rid : p.readId = a.acked + n
  hge : (qhdr c.S a.events (a.acked + n - 1)).1 ≤ p.headIdx

theorem planOK_init (c : QCfg) (hP : 64 ≤ c.P) (q : PQState) (a : ASpec) (n : Nat) (p : AckPlanI)
    (hI : QInv c q a) (hn : n ≠ 0) (hp : q.ackPlanI c n = .ok p) : PlanOK c q a n p := by
  have hH := hI.h
  simp only [PQState.ackPlanI] at hp
  split at hp
  · cases hp
  rename_i hne
  split at hp
  · cases hp
  rename_i hmany
  rw [hH.tail, hH.start] at hmany
  have hFpos : 0 < a.flushed := by omega
  obtain ⟨hS, h4⟩ := c.S_add hP
  have hsz : ∀ e ∈ a.events, e.length < 2 ^ 32 := fun e he => (hI.sz e he).2
  obtain ⟨K, k1, k2, k3, k4, k5⟩ := hH.head hFpos
  obtain ⟨hnc, st, hst, hlt, K', g1, g2, g3, g4, g5, g7, g8, g6⟩ :=
    ack_plan_C c.P c.S hS h4 a.events a.flushed q.w.persisted hI.crel hI.fle hFpos hsz q.headPos.1 K k1 k3
      (a.acked + n) (by omega) (by omega)
  simp only [hH.start, PQState.from, hnc, Bool.false_eq_true, if_false, hst] at hp
  simp only [Except.ok.injEq] at hp
  rw [← hp]
  exact ⟨hn, by omega, rfl, hlt, ⟨K', g1, g2, g3, g4⟩, by rw [← g4]; exact g8 (by rw [k4]; omega), g6, rfl,
    ack_head_ge c.P c.S hS h4 a.events a.flushed q.w.persisted hI.crel hI.fle hsz _ K' g1 g3 (a.acked + n)
      (by omega) (by omega) g7⟩

/-- a plan stays applicable when the producer makes more events durable -/
theorem planOK_grow (c : QCfg) (q q' : PQState) (a a' : ASpec) (n : Nat) (p : AckPlanI)
    (hI : QInv c q a) (hI' : QInv c q' a') (hpl : PlanOK c q a n p)
    (hhead : q'.headPos = q.headPos) (hack : a'.acked = a.acked) (hfl : a.flushed ≤ a'.flushed)
    (hev : ∃ ext, a'.events = a.events ++ ext) : PlanOK c q' a' n p := by
  obtain ⟨ext, hext⟩ := hev
  have hC := hI.crel
  have hC' := hI'.crel
  rw [hext] at hC'
  have hF' := hI'.fle
  rw [hext] at hF'
  have hCe : CRel c.S (a.events ++ ext) a.flushed q.w.persisted := (CRel_take c.S _ ext _ _ hI.fle).mpr hC
  have hlen := CRel_length_mono c.S (a.events ++ ext) a.flushed a'.flushed _ _ hCe hC' hfl hF'
  obtain ⟨K', k1, k2, k3, k4⟩ := hpl.head
  obtain ⟨K'', g1, g2, g3⟩ := chain_grow c.S (a.events ++ ext) a.flushed a'.flushed _ _ hCe hC' hfl hF' _ K' k1 k3
  refine ⟨hpl.hn, by rw [hack]; have := hpl.hle; omega, by rw [hhead]; exact hpl.hidx, by have := hpl.hlt; omega,
    ⟨K'', g1, by rw [g2]; exact k2, by rw [g2]; exact k3, by rw [g3]; exact k4⟩, by rw [hack]; exact hpl.hid, ?_,
    by rw [hack]; exact hpl.rid, ?_⟩
  · rw [hack, hext]
    exact AtB_mono c.S a.events ext _ _ _ _ hpl.rd (by have := hpl.hle; have := hI.fle; omega) hlen
  · rw [hack, hext, (qpos_take c.S a.events ext (a.acked + n - 1) (by have := hpl.hle; have := hI.fle; omega)).2.1]
    exact hpl.hge

/-- **applying a (possibly stale) plan** is simulated by the specification's `ack n` -/
theorem sim_ackApply (c : QCfg) (q : PQState) (a a' : ASpec) (o : QOut) (fl : Bool) (n : Nat) (p : AckPlanI)
    (hI : QInv c q a) (hpl : PlanOK c q a n p) (hs : a.step (.ack n) fl = some (a', o)) :
    o = .ok ∧ QInv c (q.ackApply n p) a' := by
  have hH := hI.h
  have hn := hpl.hn
  have hle := hpl.hle
  simp only [ASpec.step, hn, if_false] at hs
  have hF0 : a.flushed ≠ 0 := by omega
  have hmany : ¬ n > a.flushed - a.acked := by omega
  simp only [hF0, hmany, if_false] at hs
  by_cases hr : a.inRead = true
  · simp [hr] at hs
  have hr' : a.inRead = false := by simpa using hr
  simp only [hr', Bool.false_eq_true, if_false] at hs
  by_cases hcon : a.acked + n > a.consumed + (if a.left = 0 then 0 else 1)
  · simp [hcon] at hs
  simp only [hcon, if_false, Option.some.injEq, Prod.mk.injEq] at hs
  obtain ⟨hs1, hs2⟩ := hs
  subst hs1 hs2
  have hFpos : 0 < a.flushed := by omega
  obtain ⟨K', g1, g2, g3, g4⟩ := hpl.head
  refine ⟨rfl, hI.w, hI.fl, hI.cnt, hI.sz, ?_, ?_⟩
  · refine ⟨hH.tail, ?_, hH.tailSet, by simp [PQState.ackApply, hFpos], fun _ => hFpos, ?_, ?_, ?_, hH.totF,
      by simp only [PQState.ackApply]; rw [hH.totA], by simp only; omega, ?_, ?_⟩
    · simp only [PQState.ackApply, QHdr.startId, if_true]; exact hpl.rid
    · intro _
      simp only [PQState.ackApply, if_true]
      exact hpl.rd
    · intro _
      simp only [PQState.ackApply]
      exact ⟨K', g1, g2, g3, g4, by have := hpl.hid; omega⟩
    · simp only [PQState.ackApply]
      have := hH.inuse
      have := hpl.hidx
      have := hpl.hlt
      omega
    · simp only [PQState.ackApply]
      left
      exact hpl.hid
    · right
      exact hpl.hge
  · have hR := hI.r
    refine ⟨hR.inTx.trans hr', hR.bytes, hR.cons, hR.endId, ?_⟩
    have hc := hR.cur
    show (match q.r.cur with | none => _ | some x => _)
    cases hcc : q.r.cur with
    | none =>
      rw [hcc] at hc
      simp only at hc
      exfalso
      rw [hc.1, hc.2] at hcon
      simp at hcon
      omega
    | some x =>
      rw [hcc] at hc
      simp only at hc ⊢
      exact hc

end TxVerif
