/-
  The vfs trace of the engine model WITH FAILING SYNCS (C08 for the engine model): the outcomes of a commit
  that fails at or after its data sync, in the vocabulary of Model/CrashFailOpt.lean (`FOp`).
  Executable definitions only; the lemmas are in Proofs/EngineTraceFailA.lean ff. Everything of
  Proofs/EngineTrace.lean (fault free traces, `EngCS`, `engTrace`, `engNext`) stays as it is and is reused.

  The implementation (tx.go `tryCommitChanges`, write.go: the background writer skips every write and sync
  after the first error until a sync carrying the reset flag was processed):
    data sync fails     the header write and the final sync are skipped by the writer; `writeSync.Wait` reports
                        the error; `restoreMeta` writes the SAVED OLD contents of the inactive slot back (a
                        header write that changes nothing: rule P1) and syncs (reset flag); `rollbackChanges`
                        syncs once more if that sync failed too, rolls the allocator back, truncates.
                        Vfs log: page writes, `sf`, header(old), `s`/`sf` …, truncate.
    final sync fails    the new header is written, the final sync fails; `restoreMeta` writes the old contents
                        of that slot back and syncs; `rollbackChanges` syncs once more if that failed; then the
                        allocator is rolled back, the file truncated. Vfs log: page writes, `s`, header(new),
                        `sf`, header(old), `s` | `sf s` | `sf sf` (the last one is the DOCUMENTED DEVIATION: the
                        engine goes on although no sync has succeeded since the restore; `OCfg.step` does not
                        accept what follows, see `FOutcome.finalSyncGiveUp`).
  In both cases the engine state afterwards is the state before the transaction (`commitLateFail`: the rollback
  of everything, including the internal pages the commit had already allocated).

  State ids: a failed attempt and the next successful commit use the SAME transaction id, so the state id of
  a header is a separate counter here (`EngFS.sid` / `nsid`), as in the harness' traces.
-/
import TxVerif.Proofs.EngineTraceG
import TxVerif.Props.C08CrashOpt
namespace TxVerif

/-- the engine state after a commit that passed all allocations (it would have succeeded) but whose data
    sync or final sync failed: `rollbackChanges` from the state in which the commit had allocated its
    internal pages -/
def commitLateFail (f : FileSt) (tx : TxSt) : FileSt :=
  match cWalRes f tx with
  | none => txAbort (cPhase1 f tx).1 (cTx3 f tx)
  | some (a, ta, regs) =>
    match fileCommitAlloc a ta (cAllocUpd f tx || !regs.isEmpty) with
    | none => txAbort { (cPhase1 f tx).1 with alloc := a } { cTx3 f tx with ta := ta }
    | some (a2, ta2, _) => txAbort { (cPhase1 f tx).1 with alloc := a2 } { cTx3 f tx with ta := ta2 }

/-- the committed state and the owned pages after a transaction whose commit failed late -/
def runTxnLate (s : FileSt × List Nat) (t : TxnO) : FileSt × List Nat :=
  match flushList (t.run s).f (t.run s).tx t.order with
  | .ok (f2, tx2, _) => (commitLateFail f2 tx2, s.2)
  | .error _ => runTxnO s t

/-- what the I/O layer does to a commit that the engine model lets succeed -/
inductive FOutcome
  | normal                                     -- no failing sync
  | dataSyncFail (k : Nat) (after : List Bool) -- the data sync fails (`k + 1` failing syncs), the inactive slot is
                                               -- rewritten with its own contents, syncs with the given outcomes follow
  | finalSyncFail (k : Nat)                    -- header written, final sync fails, restore, `k` failing syncs, a sync succeeds
  | finalSyncGiveUp (k : Nat)                  -- DEVIATION: as before, but the engine goes on after `k` failing syncs
                                               -- without any successful one (the implementation: k = 2)
  deriving Repr, DecidableEq, Inhabited

/-- a transaction of a history with its I/O outcome (which matters only if the engine model commits it) -/
structure TxnF where
  t : TxnE
  out : FOutcome := .normal

/-- a committed state with the ghost data of the fault model: contents of the inactive slot, state ids -/
structure EngFS where
  e : EngCS
  prev : Nat × Nat        -- (txid, state id) the inactive header slot durably holds
  sid : Nat               -- state id of the committed state
  nsid : Nat              -- next unused state id

def TOp.isWrite : TOp → Bool
  | .write _ _ => true
  | _ => false

/-- the page writes of a transaction up to its first sync (for a committing transaction: everything it
    writes before the data sync) -/
def engWall (e : EngCS) (t : TxnE) : List TOp := (engTrace e t).takeWhile TOp.isWrite

/-- the operations of Model/Crash.lean an operation of the fault model stands for (its effect on the file) -/
def FOp.tops : FOp → List TOp
  | .op o => [o]
  | .syncFail => []
  | .restore s t st => [TOp.hdr s t st]

def ftracePages (tr : List FOp) (pg : Nat → Option Hash) : Nat → Option Hash := tracePages (tr.flatMap FOp.tops) pg

def syncOf (b : Bool) : FOp := if b then .op .sync else .syncFail

/-- the trace of one transaction with its I/O outcome -/
def engTraceF (x : EngFS) (t : TxnF) : List FOp :=
  if t.t.t.commitsB (x.e.f, x.e.live) then
    match t.out with
    | .normal =>
      (engWall x.e t.t ++ [TOp.sync, TOp.hdr (1 - x.e.slot) (engNext x.e t.t).f.txid x.nsid, TOp.sync] ++
        truncT (engNext x.e t.t).f t.t.trunc).map .op
    | .dataSyncFail k after =>
      (engWall x.e t.t).map .op ++ List.replicate (k + 1) FOp.syncFail ++
        [FOp.restore (1 - x.e.slot) x.prev.1 x.prev.2] ++ after.map syncOf ++
        (truncT (runTxnLate (x.e.f, x.e.live) t.t.t).1 t.t.trunc).map .op
    | .finalSyncFail k =>
      (engWall x.e t.t ++ [TOp.sync, TOp.hdr (1 - x.e.slot) (engNext x.e t.t).f.txid x.nsid]).map .op ++
        [FOp.syncFail, FOp.restore (1 - x.e.slot) x.prev.1 x.prev.2] ++ List.replicate k FOp.syncFail ++
        [FOp.op .sync] ++ (truncT (runTxnLate (x.e.f, x.e.live) t.t.t).1 t.t.trunc).map .op
    | .finalSyncGiveUp k =>
      (engWall x.e t.t ++ [TOp.sync, TOp.hdr (1 - x.e.slot) (engNext x.e t.t).f.txid x.nsid]).map .op ++
        [FOp.syncFail, FOp.restore (1 - x.e.slot) x.prev.1 x.prev.2] ++ List.replicate k FOp.syncFail ++
        (truncT (runTxnLate (x.e.f, x.e.live) t.t.t).1 t.t.trunc).map .op
  else (engTrace x.e t.t).map .op

/-- does the transaction write a commit header (consuming a state id) -/
def hdrAttempt (x : EngFS) (t : TxnF) : Bool :=
  t.t.t.commitsB (x.e.f, x.e.live) &&
    (match t.out with | .dataSyncFail _ _ => false | _ => true)

/-- the committed state (with ghost data) after a failed late commit: the engine state is rolled back, the
    file keeps what was written -/
def engRestored (x : EngFS) (t : TxnF) : EngCS :=
  { x.e with f := (runTxnLate (x.e.f, x.e.live) t.t.t).1, live := (runTxnLate (x.e.f, x.e.live) t.t.t).2,
             pages := ftracePages (engTraceF x t) x.e.pages }

def engNextF (x : EngFS) (t : TxnF) : EngFS :=
  if t.t.t.commitsB (x.e.f, x.e.live) then
    match t.out with
    | .normal => { e := engNext x.e t.t, prev := (x.e.f.txid, x.sid), sid := x.nsid, nsid := x.nsid + 1 }
    | .dataSyncFail _ _ => { x with e := engRestored x t }
    | .finalSyncFail _ => { x with e := engRestored x t, nsid := x.nsid + 1 }
    | .finalSyncGiveUp _ => { x with e := engRestored x t, nsid := x.nsid + 1 }
  else { x with e := engNext x.e t.t }

def engRunF (x : EngFS) (ts : List TxnF) : EngFS := ts.foldl engNextF x

def histTraceF (x : EngFS) : List TxnF → List FOp
  | [] => []
  | t :: ts => engTraceF x t ++ histTraceF (engNextF x t) ts

/-- reach sets by state id: the committed states of the history and the states of the commit attempts whose
    final sync failed (they are never committed, but their header may be found after a crash) -/
def histReachF (x : EngFS) : List TxnF → Nat → List (Nat × Hash)
  | [], q => if q = x.sid then engReach x.e else []
  | t :: ts, q =>
    if q = x.sid then engReach x.e
    else if hdrAttempt x t && q == x.nsid then engReach (engNext x.e t.t)
    else histReachF (engNextF x t) ts q

/-- the configuration of the crash model that represents a committed state: everything durable, the active
    slot holds (txid, state id), the other slot its previous contents -/
def EngFS.cfg (x : EngFS) : Cfg :=
  { durable := { pages := x.e.pages,
                 slots := fun k => if k = x.e.slot then some (x.e.f.txid, x.sid)
                                   else if k = 1 - x.e.slot then some x.prev else none },
    pending := [], aSlot := x.e.slot, aTx := x.e.f.txid, aSt := x.sid, inflight := none }

/-- a committed state of the model taken as a file: state id = transaction id, the other slot holds the
    header of the transaction before -/
def EngFS.ofFile (f : FileSt) (live : List Nat) (slot : Nat) : EngFS :=
  { e := EngCS.ofFile f live slot, prev := (f.txid - 1, f.txid - 1), sid := f.txid, nsid := f.txid + 1 }

/-- the outcome is one the discipline covers: not the documented deviation -/
def TxnF.disciplined (t : TxnF) : Bool := match t.out with | .finalSyncGiveUp _ => false | _ => true

end TxVerif
