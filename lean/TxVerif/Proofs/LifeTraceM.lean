/-
  C14 crash safety, lemmas: the micro steps of a lifetime (Proofs/LifeTrace.lean). Close + reopen and the
  in-memory open under a limit change nothing on file; the header-only transaction `initTxMaxSize` is accepted
  although no sync precedes it (everything pending is clear of the state it names, whose pages are those of the
  committed state); the release transaction writes fresh free-list pages, syncs, then writes its header.
-/
import TxVerif.Proofs.LifeTraceG
import TxVerif.Proofs.LifeTrace
namespace TxVerif.LT

/-- the two states have the same content on file, as far as the reach set is concerned -/
structure SameFile (f f' : FileSt) : Prop where
  disk : f'.disk = f.disk
  walMap : f'.walMap = f.walMap
  walPages : f'.walPages = f.walPages
  fl : f'.alloc.freelistPages = f.alloc.freelistPages

theorem sameFile_absorbP (f : FileSt) : SameFile f f.absorbP := by
  obtain ⟨-, -, -, -, k5, -, k7, k8, k9, -⟩ := absorbP_keeps f
  exact ⟨k9, k7, k8, k5⟩

theorem sameFile_trans {a b c : FileSt} (h1 : SameFile a b) (h2 : SameFile b c) : SameFile a c :=
  ⟨h2.disk.trans h1.disk, h2.walMap.trans h1.walMap, h2.walPages.trans h1.walPages, h2.fl.trans h1.fl⟩

theorem sameFile_reopenP (f : FileSt) : SameFile f f.reopenP := by
  have h := sameFile_absorbP f
  exact ⟨h.disk, h.walMap, h.walPages, h.fl⟩

theorem sameFile_openAt (f : FileSt) (n d : Nat) : SameFile f (f.openAt n d) := by
  have h := sameFile_reopenP
    ({ f with alloc := { f.alloc with maxPages := n, data := { f.alloc.data with endMarker := d } } } : FileSt)
  exact ⟨h.disk, h.walMap, h.walPages, h.fl⟩

theorem sameFile_limitTx (f : FileSt) (n : Nat) : SameFile f (f.limitTx n) := by
  have h := sameFile_absorbP ({ f with alloc := { f.alloc with maxPages := n }, txid := f.txid + 1 } : FileSt)
  exact ⟨h.disk, h.walMap, h.walPages, h.fl⟩

theorem limitTx_txid (f : FileSt) (n : Nat) : (f.limitTx n).txid = f.txid + 1 := by
  unfold FileSt.limitTx
  rw [(absorbP_keeps _).2.2.2.2.2.2.2.2.2.2.1]

theorem openAt_txid (f : FileSt) (n d : Nat) : (f.openAt n d).txid = f.txid := by
  unfold FileSt.openAt
  rw [rz_reopen_txid]

/-- a committed state whose engine part changed in memory only (or by a header-only transaction) -/
theorem engOk_sameFile {e : EngCS} (ok : EngOk e) (F : FileSt) (hs : SameFile e.f F) (hi : EngInvU F e.live)
    (s' : Nat) (hs' : s' ≤ 1) :
    EngOk { e with f := F, slot := s' } ∧ engReach { e with f := F, slot := s' } = engReach e := by
  have hphys : ∀ id, F.physOf id = e.f.physOf id := fun id => physOf_congr e.f F hs.walMap id
  have hread : ∀ id, F.readPage id = e.f.readPage id := by
    intro id
    unfold FileSt.readPage FileSt.diskAt
    rw [hphys, hs.disk]
  refine ⟨⟨hi, hs', ok.sub, ?_, ?_, ?_⟩, ?_⟩
  · intro id hid
    show e.pages (F.physOf id) = some (F.readPage id).hash
    rw [hphys, hread]; exact ok.data id hid
  · intro p hp
    show e.pages p = some (mapHash F.walMap)
    rw [hs.walMap]; exact ok.wal p (hs.walPages ▸ hp)
  · intro p hp
    show e.pages p = some e.flh
    exact ok.fl p (hs.fl ▸ hp)
  · unfold engReach
    dsimp only
    rw [hs.walMap, hs.walPages, hs.fl]
    congr 2
    apply List.map_congr_left
    intro id _
    rw [hphys, hread]

theorem clearOf_pendClearB (reach : List (Nat × Hash)) (op : TOp) (h : ClearOf reach op) : pendClearB reach op = true := by
  cases op with
  | write p hh => simpa [pendClearB, ClearOf] using h
  | trunc n => simpa [pendClearB, ClearOf] using h
  | hdr _ _ _ => simp [ClearOf] at h
  | sync => simp [ClearOf] at h

/-- pending operations clear of a reach set leave its pages as they durably are -/
theorem flat_pages_clear (c : Cfg) (reach : List (Nat × Hash)) (hq : ∀ op ∈ c.pending, ClearOf reach op)
    (p : Nat) (h : Hash) (hp : (p, h) ∈ reach) : c.flat.pages p = c.durable.pages p :=
  foldl_applyOp_pages c.pending c.durable p (fun op hop => clearOf_not_touches reach op (hq op hop) p h hp)

/-- **the header-only transaction** (`initTxMaxSize`): header into the inactive slot with the next transaction
    id, naming a state with the reach set of the committed one, WITHOUT a sync before it; then the sync -/
theorem run_limit (reachOf : Nat → List (Nat × Hash)) {e : EngCS} (ok : EngOk e) (c : Cfg) (rep : EngRep e c)
    (st : Nat) (hr : reachOf st = engReach e) :
    ∃ c', c.run reachOf [TOp.hdr (1 - e.slot) (e.f.txid + 1) st, TOp.sync] = some c' ∧
      c'.inflight = none ∧ c'.aSlot = 1 - e.slot ∧ c'.aTx = e.f.txid + 1 ∧ c'.aSt = st ∧ c'.pending = [] ∧
      ∀ p, c'.flat.pages p = e.pages p := by
  have hpc : c.pending.all (pendClearB (reachOf st)) = true := by
    rw [List.all_eq_true]
    intro op hop
    rw [hr]; exact clearOf_pendClearB _ op (rep.quiet op hop)
  have hib : intactB reachOf c.durable.pages st = true := by
    apply intactB_of
    intro p h hm
    rw [hr] at hm
    rw [← flat_pages_clear c (engReach e) rep.quiet p h hm, rep.pages]
    exact engReach_intact ok p h hm
  refine ⟨{ durable := (c.pending ++ [TOp.hdr (1 - e.slot) (e.f.txid + 1) st]).foldl applyOp c.durable, pending := [],
            aSlot := 1 - c.aSlot, aTx := c.aTx + 1, aSt := st, inflight := none }, ?_, rfl, ?_, ?_, rfl, rfl, ?_⟩
  · simp [Cfg.run, Cfg.step, rep.infl, hpc, hib, rep.slot, rep.tx]
  · show 1 - c.aSlot = _; rw [rep.slot]
  · show c.aTx + 1 = _; rw [rep.tx]
  · intro p
    have := rep.pages p
    simp only [Cfg.flat, List.foldl_append, List.foldl_cons, List.foldl_nil, applyOp] at this ⊢
    exact this

/-! ### the release transaction -/

/-- what `initTxReleaseRegions` does to the file state: it fails and leaves the state as it is, or it commits a
    state with the same disk, mapping and mapping pages, the next transaction id, and NEW free-list pages none
    of which was in use before -/
theorem releaseTx_facts {f : FileSt} {live : List Nat} (he : EngInvU f live) :
    (f.releaseTx.2 = .failed ∧ f.releaseTx.1 = f) ∨
    (f.releaseTx.2 = .done ∧ f.releaseTx.1.disk = f.disk ∧ f.releaseTx.1.walMap = f.walMap ∧
      f.releaseTx.1.walPages = f.walPages ∧ f.releaseTx.1.txid = f.txid + 1 ∧
      ∀ x ∈ f.releaseTx.1.alloc.freelistPages, ¬ InUse f.alloc x) := by
  have hinv0 := U.inv_init f.alloc he.wf false 0
  unfold FileSt.releaseTx
  dsimp only
  cases hc : fileCommitAlloc f.alloc (f.alloc.beginTx false 0) true with
  | none =>
    left
    dsimp only
    refine ⟨rfl, ?_⟩
    rw [U.rollback_of_inv f.alloc f.alloc _ he.wf hinv0]
  | some r =>
    obtain ⟨a1, st1, cs⟩ := r
    right
    dsimp only
    refine ⟨rfl, rfl, rfl, rfl, rfl, ?_⟩
    rcases U.fileCommit_shape f.alloc _ true a1 st1 cs hc with ⟨hu, -⟩ | ⟨-, regs2, hstep, hcm⟩
    · cases hu
    · intro x hx
      have hx' : x ∈ (a1.commit cs).freelistPages := hx
      rw [hcm] at hx'
      have hx2 : x ∈ regs2 := hx'
      rcases hstep with ⟨n, hn⟩ | ⟨-, -, rfl⟩
      · obtain ⟨-, -, f3, -⟩ := U.fr_metaAllocRegions f.alloc _ n a1 st1 regs2 (U.eng_aok f live he) hn
        exact (f3 x hx2).1
      · cases hx2

theorem releaseStep_facts {f : FileSt} {live : List Nat} (he : EngInvU f live) (n : Nat) :
    ((f.releaseStep n).2 ≠ .done ∧ (f.releaseStep n).1 = f) ∨
    ((f.releaseStep n).2 = .done ∧ (f.releaseStep n).1.disk = f.disk ∧ (f.releaseStep n).1.walMap = f.walMap ∧
      (f.releaseStep n).1.walPages = f.walPages ∧ (f.releaseStep n).1.txid = f.txid + 1 ∧
      ∀ x ∈ (f.releaseStep n).1.alloc.freelistPages, ¬ InUse f.alloc x) := by
  have h := releaseTx_facts he
  unfold FileSt.releaseStep
  split
  · generalize f.releaseTx = r at h
    obtain ⟨f2, res⟩ := r
    cases res with
    | notRun => rcases h with ⟨h1, -⟩ | ⟨h1, -⟩ <;> cases h1
    | failed =>
      rcases h with ⟨-, h2⟩ | ⟨h1, -⟩
      · left; exact ⟨by simp, h2⟩
      · cases h1
    | done =>
      rcases h with ⟨h1, -⟩ | ⟨-, a, b, c, d, e⟩
      · cases h1
      · right; exact ⟨rfl, a, b, c, d, e⟩
  · left; exact ⟨by simp, rfl⟩

/-! ### one micro step -/

/-- the file content changes, the pages of the reach set do not -/
theorem engOk_pages {e : EngCS} (ok : EngOk e) (pg' : Nat → Option Hash)
    (hk : ∀ p ∈ reachPages (engReach e), pg' p = e.pages p) :
    EngOk { e with pages := pg' } ∧ engReach { e with pages := pg' } = engReach e := by
  refine ⟨⟨ok.inv, ok.slot, ok.sub, ?_, ?_, ?_⟩, rfl⟩
  · intro id hid
    show pg' (e.f.physOf id) = _
    rw [hk _ ((engReach_pages_mem e _).mpr (Or.inl ⟨id, hid, rfl⟩))]; exact ok.data id hid
  · intro p hp
    show pg' p = _
    rw [hk _ ((engReach_pages_mem e _).mpr (Or.inr (Or.inl hp)))]; exact ok.wal p hp
  · intro p hp
    show pg' p = _
    rw [hk _ ((engReach_pages_mem e _).mpr (Or.inr (Or.inr hp)))]; exact ok.fl p hp

/-- the released state: everything known about it -/
structure ReleaseDone (e : EngCS) (n : Nat) (f2 : FileSt) : Prop where
  inv : EngInvU f2 e.live
  disk : f2.disk = e.f.disk
  walMap : f2.walMap = e.f.walMap
  walPages : f2.walPages = e.f.walPages
  txid : f2.txid = e.f.txid + 1
  fresh : ∀ x ∈ f2.alloc.freelistPages, ¬ InUse e.f.alloc x

/-- the state after a committed release transaction, with its ghost data -/
def relCS (e : EngCS) (f2 : FileSt) : EngCS :=
  { e with f := f2, slot := 1 - e.slot, flh := f2.flHash,
           pages := tracePages (f2.alloc.freelistPages.map (fun p => TOp.write p f2.flHash) ++
             [TOp.sync, TOp.hdr (1 - e.slot) f2.txid f2.txid, TOp.sync]) e.pages }

theorem relCS_facts {e : EngCS} (ok : EngOk e) (n : Nat) (f2 : FileSt) (rd : ReleaseDone e n f2) :
    EngOk (relCS e f2) ∧
    EtAllFree e.f e.live (f2.alloc.freelistPages.map (fun p => TOp.write p f2.flHash)) ∧
    ∀ p h, (p, h) ∈ engReach (relCS e f2) →
      tracePages (f2.alloc.freelistPages.map (fun p => TOp.write p f2.flHash)) e.pages p = some h := by
  have hfree := etAllFree_writes e.f e.live f2.alloc.freelistPages f2.flHash rd.fresh
  have hphys : ∀ id, f2.physOf id = e.f.physOf id := fun id => physOf_congr e.f f2 rd.walMap id
  have hread : ∀ id, f2.readPage id = e.f.readPage id := by
    intro id
    unfold FileSt.readPage FileSt.diskAt
    rw [hphys, rd.disk]
  have hkeep : ∀ p, InUse e.f.alloc p →
      tracePages (f2.alloc.freelistPages.map (fun p => TOp.write p f2.flHash)) e.pages p = e.pages p := by
    intro p hu
    apply tracePages_other
    intro op hop
    obtain ⟨x, hx, rfl⟩ := List.mem_map.mp hop
    simp only [opHits]
    intro e1; exact rd.fresh x hx (e1 ▸ hu)
  have hW : ∀ p h, (p, h) ∈ engReach (relCS e f2) →
      tracePages (f2.alloc.freelistPages.map (fun p => TOp.write p f2.flHash)) e.pages p = some h := by
    intro p h hm
    rcases (engReach_mem _ p h).mp hm with ⟨id, hid, rfl, rfl⟩ | ⟨hq, rfl⟩ | ⟨hq, rfl⟩
    · show tracePages _ e.pages (f2.physOf id) = some (f2.readPage id).hash
      rw [hphys, hread, hkeep _ (U.eng_phys e.f e.live ok.inv id (ok.sub id hid)).1]
      exact ok.data id hid
    · have hq' : p ∈ e.f.walPages := rd.walPages ▸ hq
      show tracePages _ e.pages p = some (mapHash f2.walMap)
      rw [rd.walMap, hkeep _ (ok.inv.intOk p ((mem_internal e.f p).mpr (Or.inr (Or.inl hq')))).1]
      exact ok.wal p hq'
    · exact tracePages_writes_same _ _ _ p hq
  refine ⟨⟨rd.inv, by show 1 - e.slot ≤ 1; omega, ok.sub, ?_, ?_, ?_⟩, hfree, hW⟩
  · intro id hid
    have := hW _ _ ((engReach_mem (relCS e f2) _ _).mpr (Or.inl ⟨id, hid, rfl, rfl⟩))
    show tracePages _ e.pages _ = _
    rw [tracePages_append]
    exact this
  · intro p hp
    have := hW _ _ ((engReach_mem (relCS e f2) _ _).mpr (Or.inr (Or.inl ⟨hp, rfl⟩)))
    show tracePages _ e.pages _ = _
    rw [tracePages_append]
    exact this
  · intro p hp
    have := hW _ _ ((engReach_mem (relCS e f2) _ _).mpr (Or.inr (Or.inr ⟨hp, rfl⟩)))
    show tracePages _ e.pages _ = _
    rw [tracePages_append]
    exact this

theorem release_done_of {e : EngCS} (ok : EngOk e) (n : Nat) (f2 : FileSt)
    (h : e.f.releaseStep n = (f2, .done)) : ReleaseDone e n f2 := by
  have hi := U.engInv_releaseStep ok.inv n
  rcases releaseStep_facts ok.inv n with ⟨h1, -⟩ | ⟨-, a, b, c, d, fr⟩
  · rw [h] at h1; exact absurd rfl h1
  · rw [h] at hi a b c d fr
    exact ⟨hi, a, b, c, d, fr⟩

theorem release_not_done_of {e : EngCS} (ok : EngOk e) (n : Nat) (f2 : FileSt) (r : ReleaseRes)
    (h : e.f.releaseStep n = (f2, r)) (hr : r ≠ .done) : f2 = e.f := by
  rcases releaseStep_facts ok.inv n with ⟨-, h2⟩ | ⟨h1, -⟩
  · rw [h] at h2; exact h2
  · rw [h] at h1; exact absurd h1 hr

/-- what a micro step does to the committed state: the invariant holds again; the transaction id stays (then
    the reach set stays as well) or grows by one -/
theorem mstep_ok {e : EngCS} (ok : EngOk e) (m : MStep) (hv : m.valid) :
    EngOk (mNext e m) ∧
    (((mNext e m).f.txid = e.f.txid ∧ engReach (mNext e m) = engReach e) ∨ (mNext e m).f.txid = e.f.txid + 1) := by
  cases m with
  | txn t =>
    by_cases hc : t.t.commits (e.f, e.live)
    · obtain ⟨a, b, -⟩ := engOk_next_commit ok t hc
      exact ⟨a, Or.inr b⟩
    · obtain ⟨a, b, c, -⟩ := engOk_next_abort ok t hc
      exact ⟨a, Or.inl ⟨c, b⟩⟩
  | reopen =>
    obtain ⟨a, b⟩ := engOk_sameFile ok e.f.reopenP (sameFile_reopenP e.f) (U.engInv_reopenP ok.inv) e.slot ok.slot
    exact ⟨a, Or.inl ⟨rz_reopen_txid e.f, b⟩⟩
  | openAt n =>
    obtain ⟨a, b⟩ := engOk_sameFile ok (e.f.openAt n e.f.alloc.data.endMarker) (sameFile_openAt e.f n _)
      (U.engInv_openAt ok.inv n hv) e.slot ok.slot
    exact ⟨a, Or.inl ⟨openAt_txid e.f n _, b⟩⟩
  | limit n =>
    obtain ⟨a, -⟩ := engOk_sameFile ok (e.f.limitTx n) (sameFile_limitTx e.f n) (U.engInv_limitTx ok.inv n hv)
      (1 - e.slot) (by omega)
    exact ⟨a, Or.inr (limitTx_txid e.f n)⟩
  | release n tr =>
    cases hrs : e.f.releaseStep n with
    | mk f2 r =>
      cases r with
      | done =>
        have rd := release_done_of ok n f2 hrs
        have e1 : mNext e (.release n tr) = relCS e f2 := by
          unfold mNext mTrace relCS; simp only [hrs]
        rw [e1]
        exact ⟨(relCS_facts ok n f2 rd).1, Or.inr rd.txid⟩
      | failed =>
        have hf := release_not_done_of ok n f2 .failed hrs (by simp)
        have e1 : mNext e (.release n tr) = { e with f := f2, pages := tracePages (truncT f2 tr) e.pages } := by
          unfold mNext mTrace; simp only [hrs]
        rw [e1, hf]
        obtain ⟨a, b⟩ := engOk_pages ok (tracePages (truncT e.f tr) e.pages) (fun p hp =>
          truncT_pages _ _ _ _ (inUse_lt_mEnd (engReach_inUse ok p hp).1))
        exact ⟨a, Or.inl ⟨rfl, b⟩⟩
      | notRun =>
        have hf := release_not_done_of ok n f2 .notRun hrs (by simp)
        have e1 : mNext e (.release n tr) = { e with f := f2 } := by
          unfold mNext; simp only [hrs]
        rw [e1, hf]
        exact ⟨ok, Or.inl ⟨rfl, rfl⟩⟩

/-- **one micro step is accepted**: from every configuration representing the committed state, the trace of the
    step is accepted by `Cfg.run` and ends in a configuration representing the next committed state -/
theorem mstep_accepted (reachOf : Nat → List (Nat × Hash)) {e : EngCS} (ok : EngOk e) (c : Cfg) (rep : EngRep e c)
    (m : MStep) (hv : m.valid) (h0 : reachOf e.f.txid = engReach e)
    (h1 : reachOf (mNext e m).f.txid = engReach (mNext e m)) :
    ∃ c', c.run reachOf (mTrace e m) = some c' ∧ EngRep (mNext e m) c' := by
  cases m with
  | txn t => exact et_txn_accepted reachOf ok c rep t h0 h1
  | reopen =>
    obtain ⟨-, b⟩ := engOk_sameFile ok e.f.reopenP (sameFile_reopenP e.f) (U.engInv_reopenP ok.inv) e.slot ok.slot
    refine ⟨c, rfl, ⟨rep.infl, rep.slot, ?_, ?_, rep.pages, ?_⟩⟩
    · show c.aTx = e.f.reopenP.txid; rw [rz_reopen_txid]; exact rep.tx
    · show c.aSt = e.f.reopenP.txid; rw [rz_reopen_txid]; exact rep.st
    · intro op hop; show ClearOf (engReach { e with f := e.f.reopenP }) op
      rw [show engReach { e with f := e.f.reopenP } = engReach e from b]; exact rep.quiet op hop
  | openAt n =>
    obtain ⟨-, b⟩ := engOk_sameFile ok (e.f.openAt n e.f.alloc.data.endMarker) (sameFile_openAt e.f n _)
      (U.engInv_openAt ok.inv n hv) e.slot ok.slot
    refine ⟨c, rfl, ⟨rep.infl, rep.slot, ?_, ?_, rep.pages, ?_⟩⟩
    · show c.aTx = (e.f.openAt n _).txid; rw [openAt_txid]; exact rep.tx
    · show c.aSt = (e.f.openAt n _).txid; rw [openAt_txid]; exact rep.st
    · intro op hop; show ClearOf (engReach { e with f := e.f.openAt n e.f.alloc.data.endMarker }) op
      rw [show engReach { e with f := e.f.openAt n e.f.alloc.data.endMarker } = engReach e from b]
      exact rep.quiet op hop
  | limit n =>
    obtain ⟨-, b⟩ := engOk_sameFile ok (e.f.limitTx n) (sameFile_limitTx e.f n) (U.engInv_limitTx ok.inv n hv)
      (1 - e.slot) (by omega)
    have hr : reachOf (e.f.txid + 1) = engReach e := by
      have : (mNext e (.limit n)).f.txid = e.f.txid + 1 := limitTx_txid e.f n
      rw [this] at h1
      rw [h1]; exact b
    obtain ⟨c', hrun, i1, i2, i3, i4, i5, i6⟩ := run_limit reachOf ok c rep (e.f.txid + 1) hr
    refine ⟨c', hrun, ⟨i1, i2, ?_, ?_, i6, ?_⟩⟩
    · show c'.aTx = (e.f.limitTx n).txid; rw [limitTx_txid]; exact i3
    · show c'.aSt = (e.f.limitTx n).txid; rw [limitTx_txid]; exact i4
    · intro op hop; rw [i5] at hop; cases hop
  | release n tr =>
    cases hrs : e.f.releaseStep n with
    | mk f2 r =>
      cases r with
      | done =>
        have rd := release_done_of ok n f2 hrs
        have e1 : mNext e (.release n tr) = relCS e f2 := by
          unfold mNext mTrace relCS; simp only [hrs]
        have e2 : mTrace e (.release n tr) = f2.alloc.freelistPages.map (fun p => TOp.write p f2.flHash) ++
            [TOp.sync, TOp.hdr (1 - e.slot) f2.txid f2.txid, TOp.sync] ++ [] := by
          unfold mTrace; simp only [hrs, List.append_nil]
        obtain ⟨ok2, hfree, hW⟩ := relCS_facts ok n f2 rd
        rw [e1] at h1 ⊢
        rw [e2]
        have h1' : reachOf f2.txid = engReach (relCS e f2) := h1
        obtain ⟨c', hrun, i1, i2, i3, i4, i5⟩ := run_commit reachOf c rep.infl _
          (by rw [rep.st, h0]; exact etAllFree_clear ok _ hfree) (1 - e.slot) f2.txid (by rw [← rep.slot])
          (by rw [rep.tx]; exact rd.txid)
          (by
            intro p h hm
            rw [h1'] at hm
            rw [tracePages_congr _ _ _ rep.pages p]
            exact hW p h hm) [] (fun _ h => nomatch h)
        refine ⟨c', hrun, ⟨i1, ?_, ?_, ?_, ?_, ?_⟩⟩
        · rw [i2, rep.slot]; rfl
        · rw [i3, rep.tx]; exact rd.txid.symm
        · rw [i4]; rfl
        · intro p
          rw [run_flat reachOf _ c c' hrun, foldl_applyOp_pages_eq]
          show _ = tracePages _ e.pages p
          rw [List.append_nil]
          exact tracePages_congr _ _ _ rep.pages p
        · intro op hop; rw [i5] at hop; cases hop
      | failed =>
        have hf := release_not_done_of ok n f2 .failed hrs (by simp)
        have e1 : mNext e (.release n tr) = { e with f := f2, pages := tracePages (truncT f2 tr) e.pages } := by
          unfold mNext mTrace; simp only [hrs]
        have e2 : mTrace e (.release n tr) = truncT f2 tr := by unfold mTrace; simp only [hrs]
        rw [e1, e2, hf]
        have hcl : ∀ op ∈ truncT e.f tr, ClearOf (engReach e) op :=
          truncT_clear _ _ _ (fun p hp => inUse_lt_mEnd (engReach_inUse ok p hp).1)
        have hrun := run_clear reachOf (truncT e.f tr) c rep.infl (by rw [rep.st, h0]; exact hcl)
        refine ⟨_, hrun, ⟨rep.infl, rep.slot, rep.tx, rep.st, ?_, ?_⟩⟩
        · intro p
          rw [run_flat reachOf _ c _ hrun, foldl_applyOp_pages_eq]
          exact tracePages_congr _ _ _ rep.pages p
        · intro op hop
          rcases List.mem_append.mp hop with h | h
          · exact rep.quiet op h
          · exact hcl op h
      | notRun =>
        have hf := release_not_done_of ok n f2 .notRun hrs (by simp)
        have e1 : mNext e (.release n tr) = { e with f := f2 } := by
          unfold mNext; simp only [hrs]
        have e2 : mTrace e (.release n tr) = [] := by unfold mTrace; simp only [hrs]
        rw [e1, e2, hf]
        exact ⟨c, rfl, rep⟩

end TxVerif.LT
