/-
  Crash points in the queue model (Model/PQQueue.lean: `PQState.crash`, `QCOp`): a crash keeps the simulation
  invariant `QInv` for the specification state `ASpec.crash` (unflushed events dropped, new reader behind the
  ACKed events), hence every operation with crash points is simulated.
-/
import TxVerif.Proofs.PQQueueSim2
namespace TxVerif

theorem qW_take_prefix (S : Nat) (evs : List (List UInt8)) (F k : Nat) (hk : k ≤ F) (hF : F ≤ evs.length) :
    qW S (evs.take F) k = qW S evs k ∧ qc S (evs.take F) k = qc S evs k := by
  have hl : k ≤ (evs.take F).length := by rw [List.length_take]; omega
  have := qW_take S (evs.take F) (evs.drop F) k hl
  rw [List.take_append_drop] at this
  exact ⟨this.1.symm, this.2.symm⟩

theorem AtB_take (S : Nat) (evs : List (List UInt8)) (F n k : Nat) (c : Nat × Nat) (hk : k ≤ F)
    (hF : F ≤ evs.length) (h : AtB S evs n k c) : AtB S (evs.take F) n k c := by
  obtain ⟨e1, e2⟩ := qW_take_prefix S evs F k hk hF
  simp only [AtB, qpos, qpad, e1, e2]
  exact h

theorem HInv_crash (S : Nat) (evs : List (List UInt8)) (F A : Nat) (q : PQState) (w' : WState) (r' : RState)
    (hp : w'.persisted = q.w.persisted) (hF : F ≤ evs.length) (h : HInv S evs F A q) :
    HInv S (evs.take F) F A { q with w := w', r := r' } := by
  refine ⟨h.tail, h.start, h.tailSet, h.headSet, h.readSet, ?_, ?_, ?_, h.totF, h.totA, h.le, h.headLt, ?_⟩
  · intro h0
    have := AtB_take S evs F _ A _ h.le hF (h.startPos h0)
    simp only [hp]; exact this
  · intro h0; have := h.head h0; simp only [hp]; exact this
  · have := h.inuse; simp only [hp]; exact this
  · rcases h.headGe with h0 | h0
    · exact Or.inl h0
    · right
      obtain ⟨e1, e2⟩ := qW_take_prefix S evs F (A - 1) (by have := h.le; omega) hF
      simp only [qhdr, qpad, qpos, e1, e2]
      exact h0

/-- **A crash is simulated**: opening the queue from the file after a crash gives a state related to the
    specification state in which the unflushed events are gone. -/
theorem sim_crash (c : QCfg) (hP : 64 ≤ c.P) (q : PQState) (a : ASpec) (hI : QInv c q a) :
    QInv c (q.crash c) a.crash := by
  have hF := hI.fle
  obtain ⟨p1, p2, p3, p4⟩ := reopen_fields c.S c.pages q.w
  have hlen : (a.events.take a.flushed).length = a.flushed := by rw [List.length_take]; omega
  have hw : BufInv c.S 0 (q.w.reopen c.S c.pages) (a.events.take a.flushed) [] := by
    refine BufInv_reopen_of c.S c.pages (c.S_add hP).2 q.w (a.events.take a.flushed) ?_ ?_ ?_
    · have := hI.w.vis
      rw [hI.fl] at this ⊢
      simp only [Nat.sub_zero, List.take_take, Nat.min_self] at this ⊢
      exact this
    · have := hI.w.tailOff_eq
      rw [hI.fl] at this ⊢
      simp only [Nat.sub_zero, List.take_take, Nat.min_self] at this ⊢
      exact this
    · rw [hI.fl, hlen]
  refine ⟨hw, by show (q.w.reopen c.S c.pages).tailId = a.flushed; rw [p2, hI.fl], ?_, ?_, ?_, ?_⟩
  · show (q.w.reopen c.S c.pages).activeEventCount + a.flushed = (a.events.take a.flushed).length
    rw [p4, hlen]; omega
  · intro e he; exact hI.sz e (List.mem_of_mem_take he)
  · exact HInv_crash c.S a.events a.flushed a.acked q _ _ p1 hF hI.h
  · exact ⟨rfl, rfl, hI.h.le, Nat.zero_le _, ⟨rfl, rfl⟩⟩

end TxVerif
