/-
  C14 crash safety, lemmas: lists of micro steps and whole lifetimes. The reach sets `mHistReach` are those of
  the committed states passed; the trace is accepted; headers name states of the lifetime; the decomposition of
  `resize` into micro steps computes `FileSt.resize`.
-/
import TxVerif.Proofs.LifeTraceM
namespace TxVerif.LT

theorem mRun_cons (e : EngCS) (m : MStep) (ms : List MStep) : mRun e (m :: ms) = mRun (mNext e m) ms := rfl

theorem mRun_append (e : EngCS) (a b : List MStep) : mRun e (a ++ b) = mRun (mRun e a) b := by
  unfold mRun; rw [List.foldl_append]

theorem mHistTrace_append (a b : List MStep) : ∀ e : EngCS,
    mHistTrace e (a ++ b) = mHistTrace e a ++ mHistTrace (mRun e a) b := by
  induction a with
  | nil => intro e; rfl
  | cons m a ih =>
    intro e
    show mTrace e m ++ mHistTrace (mNext e m) (a ++ b) = (mTrace e m ++ mHistTrace (mNext e m) a) ++ _
    rw [ih, List.append_assoc]; rfl

theorem engOk_mrun {e : EngCS} (ok : EngOk e) (ms : List MStep) (hv : ∀ m ∈ ms, m.valid) : EngOk (mRun e ms) := by
  induction ms generalizing e with
  | nil => exact ok
  | cons m ms ih =>
    exact ih (mstep_ok ok m (hv m List.mem_cons_self)).1 (fun x hx => hv x (List.mem_cons_of_mem _ hx))

theorem mRun_txid {e : EngCS} (ok : EngOk e) (ms : List MStep) (hv : ∀ m ∈ ms, m.valid) :
    e.f.txid ≤ (mRun e ms).f.txid ∧ ((mRun e ms).f.txid = e.f.txid → engReach (mRun e ms) = engReach e) := by
  induction ms generalizing e with
  | nil => exact ⟨Nat.le_refl _, fun _ => rfl⟩
  | cons m ms ih =>
    rw [mRun_cons]
    obtain ⟨ok1, hs⟩ := mstep_ok ok m (hv m List.mem_cons_self)
    obtain ⟨i1, i2⟩ := ih ok1 (fun x hx => hv x (List.mem_cons_of_mem _ hx))
    rcases hs with ⟨a, b⟩ | a
    · exact ⟨by omega, fun h => by rw [i2 (by omega), b]⟩
    · exact ⟨by omega, fun h => by omega⟩

/-- `reachOf` gives the reach set of every committed state passed -/
def MReachOK (reachOf : Nat → List (Nat × Hash)) (e : EngCS) (ms : List MStep) : Prop :=
  ∀ k, k ≤ ms.length → reachOf (mRun e (ms.take k)).f.txid = engReach (mRun e (ms.take k))

theorem mHistReach_spec {e : EngCS} (ok : EngOk e) (ms : List MStep) (hv : ∀ m ∈ ms, m.valid) :
    MReachOK (mHistReach e ms) e ms := by
  induction ms generalizing e with
  | nil =>
    intro k _
    simp only [List.take_nil]
    show mHistReach e [] e.f.txid = engReach e
    simp [mHistReach]
  | cons m ms ih =>
    intro k hk
    cases k with
    | zero =>
      show mHistReach e (m :: ms) e.f.txid = engReach e
      simp [mHistReach]
    | succ k =>
      simp only [List.take_succ_cons, mRun_cons]
      have hk' : k ≤ ms.length := by simp only [List.length_cons] at hk; omega
      obtain ⟨ok1, hs⟩ := mstep_ok ok m (hv m List.mem_cons_self)
      have hv1 : ∀ x ∈ ms, x.valid := fun x hx => hv x (List.mem_cons_of_mem _ hx)
      obtain ⟨m1, m2⟩ := mRun_txid ok1 (ms.take k) (fun x hx => hv1 x (List.mem_of_mem_take hx))
      unfold mHistReach
      by_cases heq : (mRun (mNext e m) (ms.take k)).f.txid = e.f.txid
      · rw [if_pos heq]
        rcases hs with ⟨a, b⟩ | a
        · rw [m2 (by omega), b]
        · omega
      · rw [if_neg heq]
        exact ih ok1 hv1 k hk'

theorem mreachOK_tail {reachOf : Nat → List (Nat × Hash)} {e : EngCS} {m : MStep} {ms : List MStep}
    (h : MReachOK reachOf e (m :: ms)) : MReachOK reachOf (mNext e m) ms := by
  intro k hk
  have := h (k + 1) (by simp only [List.length_cons]; omega)
  simpa only [List.take_succ_cons, mRun_cons] using this

theorem mreachOK_take {reachOf : Nat → List (Nat × Hash)} {e : EngCS} {ms : List MStep}
    (h : MReachOK reachOf e ms) (j : Nat) : MReachOK reachOf e (ms.take j) := by
  intro k hk
  have hk' : k ≤ j ∧ k ≤ ms.length := by rw [List.length_take] at hk; omega
  have e1 : (ms.take j).take k = ms.take k := by rw [List.take_take]; congr 1; omega
  rw [e1]
  exact h k hk'.2

theorem m_history_accepted (reachOf : Nat → List (Nat × Hash)) (ms : List MStep) : ∀ (e : EngCS) (c : Cfg),
    EngOk e → EngRep e c → (∀ m ∈ ms, m.valid) → MReachOK reachOf e ms →
    ∃ c', c.run reachOf (mHistTrace e ms) = some c' ∧ EngRep (mRun e ms) c' := by
  induction ms with
  | nil => intro e c _ rep _ _; exact ⟨c, rfl, rep⟩
  | cons m ms ih =>
    intro e c ok rep hv hr
    have h0 : reachOf e.f.txid = engReach e := hr 0 (Nat.zero_le _)
    have h1 : reachOf (mNext e m).f.txid = engReach (mNext e m) := by
      have := hr 1 (by simp)
      simpa [mRun, List.take] using this
    obtain ⟨c1, r1, rep1⟩ := mstep_accepted reachOf ok c rep m (hv m List.mem_cons_self) h0 h1
    obtain ⟨c2, r2, rep2⟩ := ih (mNext e m) c1 (mstep_ok ok m (hv m List.mem_cons_self)).1 rep1
      (fun x hx => hv x (List.mem_cons_of_mem _ hx)) (mreachOK_tail hr)
    exact ⟨c2, cfgRun_append_some reachOf _ _ _ _ _ r1 r2, rep2⟩

/-- the only header a micro step writes names the next committed state by its transaction id -/
theorem mTrace_hdr {e : EngCS} (ok : EngOk e) (m : MStep) (s tx st : Nat) (hm : TOp.hdr s tx st ∈ mTrace e m) :
    st = (mNext e m).f.txid ∧ (mNext e m).f.txid = e.f.txid + 1 := by
  cases m with
  | txn t =>
    obtain ⟨hc, h2, -⟩ := engTrace_hdr ok t s tx st hm
    exact ⟨h2, (engOk_next_commit ok t hc).2.1⟩
  | reopen => cases hm
  | openAt n => cases hm
  | limit n =>
    simp only [mTrace, List.mem_cons, TOp.hdr.injEq, List.not_mem_nil, or_false] at hm
    rcases hm with hm | hm
    · exact ⟨by rw [hm.2.2]; exact (limitTx_txid e.f n).symm, limitTx_txid e.f n⟩
    · cases hm
  | release n tr =>
    cases hrs : e.f.releaseStep n with
    | mk f2 r =>
      cases r with
      | done =>
        have rd := release_done_of ok n f2 hrs
        have e1 : mNext e (.release n tr) = relCS e f2 := by
          unfold mNext mTrace relCS; simp only [hrs]
        unfold mTrace at hm
        simp only [hrs, List.mem_append, List.mem_map, List.mem_cons, TOp.hdr.injEq, List.not_mem_nil, or_false] at hm
        rw [e1]
        rcases hm with ⟨x, -, hx⟩ | hm | hm | hm
        · cases hx
        · cases hm
        · exact ⟨hm.2.2, rd.txid⟩
        · cases hm
      | failed =>
        unfold mTrace at hm
        simp only [hrs] at hm
        cases tr with
        | none => cases hm
        | some k => simp [truncT] at hm
      | notRun =>
        unfold mTrace at hm
        simp only [hrs] at hm
        cases hm

theorem mHistTrace_hdr (ms : List MStep) : ∀ {e : EngCS}, EngOk e → (∀ m ∈ ms, m.valid) → ∀ (s tx st : Nat),
    TOp.hdr s tx st ∈ mHistTrace e ms → ∃ j, j ≤ ms.length ∧ st = (mRun e (ms.take j)).f.txid := by
  induction ms with
  | nil => intro e _ _ s tx st hm; cases hm
  | cons m ms ih =>
    intro e ok hv s tx st hm
    unfold mHistTrace at hm
    rcases List.mem_append.mp hm with hm | hm
    · obtain ⟨h2, -⟩ := mTrace_hdr ok m s tx st hm
      exact ⟨1, by simp, by simpa [mRun, List.take] using h2⟩
    · obtain ⟨j, hj, h2⟩ := ih (mstep_ok ok m (hv m List.mem_cons_self)).1
        (fun x hx => hv x (List.mem_cons_of_mem _ hx)) s tx st hm
      exact ⟨j + 1, by simp only [List.length_cons]; omega, by simpa only [List.take_succ_cons, mRun_cons] using h2⟩

/-! ### steps of a lifetime -/

/-- a step of a lifetime is valid if its new limit covers the header pages (`LStep.valid`) -/
theorem stepMicro_valid (f : FileSt) (s : LStepE) (hv : s.erase.valid) : ∀ m ∈ stepMicro f s, m.valid := by
  cases s with
  | txn t => intro m hm; simp only [stepMicro, List.mem_singleton] at hm; subst hm; trivial
  | reopen => intro m hm; simp only [stepMicro, List.mem_singleton] at hm; subst hm; trivial
  | resize n tr =>
    have hn : n = 0 ∨ 2 ≤ n := hv
    intro m hm
    simp only [stepMicro] at hm
    split at hm <;> simp only [List.mem_cons, List.not_mem_nil, or_false] at hm
    · subst hm; trivial
    · subst hm; exact hn
    · rcases hm with rfl | rfl
      · trivial
      · exact hn
    · rcases hm with rfl | rfl | rfl
      · trivial
      · exact hn
      · trivial
    · rcases hm with rfl | rfl | rfl
      · exact hn
      · exact hn
      · trivial

theorem mNext_release_f (e : EngCS) (n : Nat) (tr : Option Nat) :
    (mNext e (.release n tr)).f = (e.f.releaseStep n).1 ∧ (mNext e (.release n tr)).live = e.live ∧
    (mNext e (.release n tr)).dfn = e.dfn := by
  cases hrs : e.f.releaseStep n with
  | mk f2 r => cases r <;> simp only [mNext, hrs] <;> exact ⟨trivial, trivial, trivial⟩

/-- the micro steps of a step compute the step of `runLife` -/
theorem stepMicro_state (e : EngCS) (s : LStepE) :
    ((mRun e (stepMicro e.f s)).f, (mRun e (stepMicro e.f s)).live) = runLStep (e.f, e.live) s.erase := by
  cases s with
  | txn t => exact engNext_state e t
  | reopen => rfl
  | resize n tr =>
    show _ = ((e.f.resize n), e.live)
    unfold FileSt.resize FileSt.resizeWith
    cases hk : rkindPages e.f.alloc.maxPages n with
    | same =>
      rw [show stepMicro e.f (.resize n tr) = [.reopen] by simp only [stepMicro, hk]]; rfl
    | bound =>
      rw [show stepMicro e.f (.resize n tr) = [.openAt n] by simp only [stepMicro, hk]]; rfl
    | grow =>
      rw [show stepMicro e.f (.resize n tr) = [.reopen, .limit n] by simp only [stepMicro, hk]]; rfl
    | shrink =>
      rw [show stepMicro e.f (.resize n tr) = [.reopen, .limit n, .release n tr] by simp only [stepMicro, hk]]
      show ((mNext (mNext (mNext e .reopen) (.limit n)) (.release n tr)).f,
        (mNext (mNext (mNext e .reopen) (.limit n)) (.release n tr)).live) = _
      obtain ⟨a, b, -⟩ := mNext_release_f (mNext (mNext e .reopen) (.limit n)) n tr
      rw [a, b]; rfl
    | boundShrink =>
      rw [show stepMicro e.f (.resize n tr) = [.openAt n, .limit n, .release n tr] by simp only [stepMicro, hk]]
      show ((mNext (mNext (mNext e (.openAt n)) (.limit n)) (.release n tr)).f,
        (mNext (mNext (mNext e (.openAt n)) (.limit n)) (.release n tr)).live) = _
      obtain ⟨a, b, -⟩ := mNext_release_f (mNext (mNext e (.openAt n)) (.limit n)) n tr
      rw [a, b]; rfl

theorem lifeMicro_valid (steps : List LStepE) : ∀ (e : EngCS), (∀ s ∈ steps, s.erase.valid) →
    ∀ m ∈ lifeMicro e steps, m.valid := by
  induction steps with
  | nil => intro e _ m hm; cases hm
  | cons s ss ih =>
    intro e hv m hm
    unfold lifeMicro at hm
    rcases List.mem_append.mp hm with h | h
    · exact stepMicro_valid e.f s (hv s List.mem_cons_self) m h
    · exact ih _ (fun x hx => hv x (List.mem_cons_of_mem _ hx)) m h

theorem lifeRun_cons (e : EngCS) (s : LStepE) (ss : List LStepE) :
    lifeRun e (s :: ss) = lifeRun (mRun e (stepMicro e.f s)) ss := by
  show mRun e (stepMicro e.f s ++ lifeMicro (mRun e (stepMicro e.f s)) ss) = _
  rw [mRun_append]; rfl

theorem lifeMicro_append (a b : List LStepE) : ∀ e : EngCS,
    lifeMicro e (a ++ b) = lifeMicro e a ++ lifeMicro (lifeRun e a) b := by
  induction a with
  | nil => intro e; rfl
  | cons s a ih =>
    intro e
    show stepMicro e.f s ++ lifeMicro _ (a ++ b) = (stepMicro e.f s ++ lifeMicro _ a) ++ lifeMicro (lifeRun e (s :: a)) b
    rw [ih, lifeRun_cons, List.append_assoc]

theorem lifeTrace_append (a b : List LStepE) (e : EngCS) :
    lifeTrace e (a ++ b) = lifeTrace e a ++ lifeTrace (lifeRun e a) b := by
  unfold lifeTrace
  rw [lifeMicro_append, mHistTrace_append]
  rfl

/-- **the committed states of a lifetime with ghost data are those of `runLife`** (Props/Lifetime.lean) -/
theorem lifeRun_state (steps : List LStepE) : ∀ e : EngCS,
    ((lifeRun e steps).f, (lifeRun e steps).live) = runLife (e.f, e.live) (steps.map LStepE.erase) := by
  induction steps with
  | nil => intro e; rfl
  | cons s ss ih =>
    intro e
    rw [lifeRun_cons, ih]
    show runLife _ _ = runLife (runLStep (e.f, e.live) s.erase) (ss.map LStepE.erase)
    rw [stepMicro_state]

/-! ### the frame of the micro steps that are not transactions -/

/-- reopen, open under a limit, the header-only transaction and the release transaction change no page
    content, no mapping, and neither the owned nor the defined pages -/
theorem mstep_frame {e : EngCS} (ok : EngOk e) (m : MStep) (hm : m.isTxn = false) :
    (mNext e m).live = e.live ∧ (mNext e m).dfn = e.dfn ∧
    (∀ id, (mNext e m).f.physOf id = e.f.physOf id) ∧ (∀ id, (mNext e m).f.readPage id = e.f.readPage id) := by
  have key : ∀ F : FileSt, F.disk = e.f.disk → F.walMap = e.f.walMap →
      (∀ id, F.physOf id = e.f.physOf id) ∧ (∀ id, F.readPage id = e.f.readPage id) := by
    intro F hd hw
    have hp : ∀ id, F.physOf id = e.f.physOf id := fun id => physOf_congr e.f F hw id
    refine ⟨hp, fun id => ?_⟩
    unfold FileSt.readPage FileSt.diskAt
    rw [hp, hd]
  cases m with
  | txn t => cases hm
  | reopen =>
    have h := sameFile_reopenP e.f
    exact ⟨rfl, rfl, key _ h.disk h.walMap⟩
  | openAt n =>
    have h := sameFile_openAt e.f n e.f.alloc.data.endMarker
    exact ⟨rfl, rfl, key _ h.disk h.walMap⟩
  | limit n =>
    have h := sameFile_limitTx e.f n
    exact ⟨rfl, rfl, key _ h.disk h.walMap⟩
  | release n tr =>
    obtain ⟨a, b, c⟩ := mNext_release_f e n tr
    refine ⟨b, c, ?_⟩
    rw [a]
    rcases releaseStep_facts ok.inv n with ⟨-, h2⟩ | ⟨-, d, w, -⟩
    · rw [h2]; exact ⟨fun _ => rfl, fun _ => rfl⟩
    · exact key _ d w

theorem mrun_frame (ms : List MStep) : ∀ {e : EngCS}, EngOk e → (∀ m ∈ ms, m.valid) → (∀ m ∈ ms, m.isTxn = false) →
    (mRun e ms).live = e.live ∧ (mRun e ms).dfn = e.dfn ∧
    (∀ id, (mRun e ms).f.physOf id = e.f.physOf id) ∧ (∀ id, (mRun e ms).f.readPage id = e.f.readPage id) := by
  induction ms with
  | nil => intro e _ _ _; exact ⟨rfl, rfl, fun _ => rfl, fun _ => rfl⟩
  | cons m ms ih =>
    intro e ok hv hn
    obtain ⟨a, b, c, d⟩ := mstep_frame ok m (hn m List.mem_cons_self)
    obtain ⟨a', b', c', d'⟩ := ih (mstep_ok ok m (hv m List.mem_cons_self)).1
      (fun x hx => hv x (List.mem_cons_of_mem _ hx)) (fun x hx => hn x (List.mem_cons_of_mem _ hx))
    rw [mRun_cons]
    exact ⟨a'.trans a, b'.trans b, fun id => (c' id).trans (c id), fun id => (d' id).trans (d id)⟩

theorem stepMicro_resize_noTxn (f : FileSt) (n : Nat) (tr : Option Nat) :
    ∀ m ∈ stepMicro f (.resize n tr), m.isTxn = false := by
  intro m hm
  simp only [stepMicro] at hm
  split at hm <;> simp only [List.mem_cons, List.not_mem_nil, or_false] at hm
  · subst hm; rfl
  · subst hm; rfl
  · rcases hm with rfl | rfl <;> rfl
  · rcases hm with rfl | rfl | rfl <;> rfl
  · rcases hm with rfl | rfl | rfl <;> rfl

/-- the transaction ids of the states a resize passes: the one before, the next (after `initTxMaxSize`), the
    one after that (after a committed release) -/
theorem resize_txids {e : EngCS} (ok : EngOk e) (n : Nat) (tr : Option Nat) (hn : n = 0 ∨ 2 ≤ n) (j : Nat) :
    (mRun e ((stepMicro e.f (.resize n tr)).take j)).f.txid = e.f.txid ∨
    (mRun e ((stepMicro e.f (.resize n tr)).take j)).f.txid = e.f.txid + 1 ∨
    (mRun e ((stepMicro e.f (.resize n tr)).take j)).f.txid = e.f.txid + 2 := by
  have h0 : ∀ m0, (m0 = MStep.reopen ∨ m0 = MStep.openAt n) → EngOk (mNext e m0) ∧ (mNext e m0).f.txid = e.f.txid := by
    intro m0 hm0
    rcases hm0 with rfl | rfl
    · exact ⟨(mstep_ok ok .reopen trivial).1, rz_reopen_txid e.f⟩
    · exact ⟨(mstep_ok ok (.openAt n) hn).1, openAt_txid e.f n _⟩
  have key : ∀ m0, (m0 = MStep.reopen ∨ m0 = MStep.openAt n) → ∀ rest, (rest = [] ∨ rest = [MStep.limit n] ∨
      rest = [MStep.limit n, MStep.release n tr]) →
      (mRun e ((m0 :: rest).take j)).f.txid = e.f.txid ∨ (mRun e ((m0 :: rest).take j)).f.txid = e.f.txid + 1 ∨
      (mRun e ((m0 :: rest).take j)).f.txid = e.f.txid + 2 := by
    intro m0 hm0 rest hrest
    obtain ⟨ok1, t1⟩ := h0 m0 hm0
    have t2 : (mNext (mNext e m0) (.limit n)).f.txid = e.f.txid + 1 := by
      rw [← t1]; exact limitTx_txid _ n
    have ok2 := (mstep_ok ok1 (.limit n) hn).1
    have t3 := (mstep_ok ok2 (.release n tr) trivial).2
    match j with
    | 0 => left; rfl
    | 1 =>
      left
      rcases hrest with rfl | rfl | rfl <;> exact t1
    | 2 =>
      rcases hrest with rfl | rfl | rfl
      · left; exact t1
      · right; left; exact t2
      · right; left; exact t2
    | k + 3 =>
      rcases hrest with rfl | rfl | rfl
      · left; exact t1
      · right; left; exact t2
      · have e3 : mRun e (List.take (k + 3) [m0, MStep.limit n, MStep.release n tr]) =
            mNext (mNext (mNext e m0) (.limit n)) (.release n tr) := by
          simp [List.take, mRun]
        rw [e3]
        rcases t3 with ⟨a, -⟩ | a
        · right; left; rw [a]; exact t2
        · right; right; rw [a, t2]
  cases hk : rkindPages e.f.alloc.maxPages n with
  | same =>
    rw [show stepMicro e.f (.resize n tr) = [.reopen] by simp only [stepMicro, hk]]
    exact key .reopen (Or.inl rfl) [] (Or.inl rfl)
  | bound =>
    rw [show stepMicro e.f (.resize n tr) = [.openAt n] by simp only [stepMicro, hk]]
    exact key (.openAt n) (Or.inr rfl) [] (Or.inl rfl)
  | grow =>
    rw [show stepMicro e.f (.resize n tr) = [.reopen, .limit n] by simp only [stepMicro, hk]]
    exact key .reopen (Or.inl rfl) _ (Or.inr (Or.inl rfl))
  | shrink =>
    rw [show stepMicro e.f (.resize n tr) = [.reopen, .limit n, .release n tr] by simp only [stepMicro, hk]]
    exact key .reopen (Or.inl rfl) _ (Or.inr (Or.inr rfl))
  | boundShrink =>
    rw [show stepMicro e.f (.resize n tr) = [.openAt n, .limit n, .release n tr] by simp only [stepMicro, hk]]
    exact key (.openAt n) (Or.inr rfl) _ (Or.inr (Or.inr rfl))

end TxVerif.LT
