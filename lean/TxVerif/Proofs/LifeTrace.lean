/-
  The vfs trace of whole file LIFETIMES of the engine model: write transactions (Proofs/EngineTrace.lean),
  close + reopen, and `Open` with `FlagUpdMaxSize` (Model/Resize.lean), in the vocabulary of Model/Crash.lean.
  Executable definitions only; lemmas: Proofs/LifeTrace[B-G].lean (ports of the transaction lemmas to the
  lifetime invariant `EngInvU`), Proofs/LifeTraceM.lean, Proofs/LifeTraceH.lean.

  The implementation (file.go):
    close + reopen      writes nothing (`File.Close`, `openWith` → `newFile`: header and free lists are read,
                        `absorbOverflowArea` runs in memory)
    `initTxMaxSize`     the header-only transaction of `growFile` and `shrinkFile`: `prepareMetaBuffer` (txid + 1),
                        new limit and adjusted data end marker, `syncNewMeta` = header into the inactive slot +
                        sync. NO page is written and NO sync precedes the header: what earlier transactions left
                        pending (writes of rolled back transactions, a truncate) is still pending then.
    `initTxReleaseRegions`  `fileCommitAlloc` (may fail for lack of meta pages: rollback, possibly with the
                        truncate of `rollbackChanges`), `fileCommitSerialize` (writes the new free-list pages),
                        `writer.Sync` (the data sync IS there, as in `tryCommitChangesToFile`), header, sync.
  A resize is decomposed into micro steps (`MStep`): reopen / openAt, limit, release - exactly the composition
  `FileSt.resizeWith` of Model/Resize.lean (`lifeRun_state`).  State ids are transaction ids: the state after
  `initTxMaxSize` has its own id (txid + 1), the released state the next one.
-/
import TxVerif.Proofs.EngineTrace
import TxVerif.Props.Lifetime
namespace TxVerif

/-- one step of a lifetime with the oracles of the file-system layer: the closing truncate of a transaction
    (`TxnE`), the truncate of the rollback of a failing release transaction -/
inductive LStepE
  | txn (t : TxnE)
  | reopen
  | resize (n : Nat) (trunc : Option Nat)

def LStepE.erase : LStepE → LStep
  | .txn t => .txn t.t
  | .reopen => .reopen
  | .resize n _ => .resize n

/-- micro steps: what a lifetime is made of at the level of the file -/
inductive MStep
  | txn (t : TxnE)                              -- a write transaction
  | reopen                                      -- close + open: `reopenP`, in memory
  | openAt (n : Nat)                            -- open of a header without limit under the limit `n`, in memory
  | limit (n : Nat)                             -- `initTxMaxSize`
  | release (n : Nat) (trunc : Option Nat)      -- step 3 of `shrinkFile`: `initTxReleaseRegions` if regions can be released

/-- new limits cover the two header pages -/
def MStep.valid : MStep → Prop
  | .openAt n => n = 0 ∨ 2 ≤ n
  | .limit n => n = 0 ∨ 2 ≤ n
  | _ => True

def MStep.isTxn : MStep → Bool
  | .txn _ => true
  | _ => false

/-- the trace of a micro step in the committed state `e` -/
def mTrace (e : EngCS) : MStep → List TOp
  | .txn t => engTrace e t
  | .reopen => []
  | .openAt _ => []
  | .limit _ => [TOp.hdr (1 - e.slot) (e.f.txid + 1) (e.f.txid + 1), TOp.sync]
  | .release n tr =>
    match e.f.releaseStep n with
    | (f2, .done) =>
      f2.alloc.freelistPages.map (fun p => TOp.write p f2.flHash) ++
        [TOp.sync, TOp.hdr (1 - e.slot) f2.txid f2.txid, TOp.sync]
    | (f2, .failed) => truncT f2 tr
    | (_, .notRun) => []

/-- the committed state (with ghost data) after a micro step -/
def mNext (e : EngCS) (m : MStep) : EngCS :=
  match m with
  | .txn t => engNext e t
  | .reopen => { e with f := e.f.reopenP }
  | .openAt n => { e with f := e.f.openAt n e.f.alloc.data.endMarker }
  | .limit n => { e with f := e.f.limitTx n, slot := 1 - e.slot }
  | .release n tr =>
    match e.f.releaseStep n with
    | (f2, .done) => { e with f := f2, slot := 1 - e.slot, flh := f2.flHash,
                              pages := tracePages (mTrace e (.release n tr)) e.pages }
    | (f2, .failed) => { e with f := f2, pages := tracePages (mTrace e (.release n tr)) e.pages }
    | (f2, .notRun) => { e with f := f2 }

def mRun (e : EngCS) (ms : List MStep) : EngCS := ms.foldl mNext e

def mHistTrace (e : EngCS) : List MStep → List TOp
  | [] => []
  | m :: ms => mTrace e m ++ mHistTrace (mNext e m) ms

/-- reach sets by state id (transaction id) along a list of micro steps -/
def mHistReach (e : EngCS) : List MStep → Nat → List (Nat × Hash)
  | [], st => if st = e.f.txid then engReach e else []
  | m :: ms, st => if st = e.f.txid then engReach e else mHistReach (mNext e m) ms st

/-- the micro steps of one step of a lifetime in the state `f` (the decision of `openWith`) -/
def stepMicro (f : FileSt) : LStepE → List MStep
  | .txn t => [.txn t]
  | .reopen => [.reopen]
  | .resize n tr =>
    match rkindPages f.alloc.maxPages n with
    | .same => [.reopen]
    | .bound => [.openAt n]
    | .grow => [.reopen, .limit n]
    | .shrink => [.reopen, .limit n, .release n tr]
    | .boundShrink => [.openAt n, .limit n, .release n tr]

def lifeMicro (e : EngCS) : List LStepE → List MStep
  | [] => []
  | s :: ss => stepMicro e.f s ++ lifeMicro (mRun e (stepMicro e.f s)) ss

/-- the committed state after a lifetime, its trace, its reach sets -/
def lifeRun (e : EngCS) (steps : List LStepE) : EngCS := mRun e (lifeMicro e steps)
def lifeTrace (e : EngCS) (steps : List LStepE) : List TOp := mHistTrace e (lifeMicro e steps)
def lifeReach (e : EngCS) (steps : List LStepE) : Nat → List (Nat × Hash) := mHistReach e (lifeMicro e steps)

/-- the trace of one step of a lifetime in the state `e` -/
def stepTrace (e : EngCS) (s : LStepE) : List TOp := mHistTrace e (stepMicro e.f s)

end TxVerif
