/-
  The invariant of the concurrent engine semantics (Model/EngineConc.lean) and its preservation by every step of
  every thread.  All facts about the writer are obtained from the SEQUENTIAL theorems (Props/Lifetime.lean, invariant
  `EngInvU`): the writer's private state is characterised exactly as a prefix of the sequential run of its
  transaction on the committed state (`EWInv`), so `U.runinv_ops`, `U.txinv_flushList`, `U.commit_phase1`,
  `sameCommittedU_of_*`, `c03u_*` apply at every step.
-/
import TxVerif.Model.EngineConc
import TxVerif.Props.Lifetime
namespace TxVerif

/-! ### the shared lock counts the open read transactions -/

def RTh.isOpen (r : RTh) : Nat := if r.snap.isSome then 1 else 0

def openCount (rds : List RTh) : Nat := (rds.map RTh.isOpen).sum

theorem openCount_set : ∀ (l : List RTh) (i : Nat) (r r' : RTh), l[i]? = some r →
    openCount (l.set i r') + r.isOpen = openCount l + r'.isOpen := by
  intro l
  induction l with
  | nil => intro i r r' h; simp at h
  | cons x xs ih =>
    intro i r r' h
    cases i with
    | zero =>
      simp only [List.getElem?_cons_zero, Option.some.injEq] at h
      subst h
      simp only [openCount, List.set_cons_zero, List.map_cons, List.sum_cons]
      omega
    | succ j =>
      simp only [List.getElem?_cons_succ] at h
      have := ih j r r' h
      simp only [openCount, List.set_cons_succ, List.map_cons, List.sum_cons] at this ⊢
      omega

theorem openCount_zero (l : List RTh) (h : openCount l = 0) : ∀ r ∈ l, r.snap = none := by
  induction l with
  | nil => intro r hr; cases hr
  | cons x xs ih =>
    simp only [openCount, List.map_cons, List.sum_cons] at h
    intro r hr
    rcases List.mem_cons.mp hr with e | e
    · subst e
      have h0 : r.isOpen = 0 := by omega
      unfold RTh.isOpen at h0
      cases hs : r.snap with
      | none => rfl
      | some sn => rw [hs] at h0; simp at h0
    · exact ih (by unfold openCount; omega) r e

theorem openCount_pos (l : List RTh) (h : openCount l ≠ 0) : ∃ r ∈ l, ∃ sn, r.snap = some sn := by
  induction l with
  | nil => simp [openCount] at h
  | cons x xs ih =>
    cases hs : x.snap with
    | some sn => exact ⟨x, List.mem_cons_self, sn, hs⟩
    | none =>
      have : openCount xs ≠ 0 := by
        simp only [openCount, List.map_cons, List.sum_cons, RTh.isOpen, hs] at h
        simpa [openCount] using h
      obtain ⟨r, hr, sn, hsn⟩ := ih this
      exact ⟨r, List.mem_cons_of_mem _ hr, sn, hsn⟩

theorem openCount_pos_of_mem (l : List RTh) (r : RTh) (hr : r ∈ l) (h : r.isOpen = 1) : 0 < openCount l := by
  induction l with
  | nil => cases hr
  | cons x xs ih =>
    simp only [openCount, List.map_cons, List.sum_cons]
    rcases List.mem_cons.mp hr with e | e
    · subst e; omega
    · have := ih e; unfold openCount at this; omega

/-! ### the invariant -/

def WPc.holdsRes : WPc → Bool
  | .idle => false
  | _ => true

def WPc.isPending : WPc → Bool
  | .pending _ => true
  | .waitExcl _ _ _ => true
  | _ => false

/-- the writer's private state is a point of the sequential run of the transaction in progress on the committed state -/
def EWInv (s : EState) : Prop :=
  match s.wpc with
  | .idle => True
  | .active r ops => ∃ w rest done, s.wprog = w :: rest ∧ done ++ ops = w.t.ops ∧
      r = runEOps (ERunSt.start s.com s.live w.t.overflow w.t.growPct w.t.walLimit) done
  | .pending r => ∃ w rest, s.wprog = w :: rest ∧ r = w.t.run (s.com, s.live)
  | .waitExcl F cur σ => ∃ w rest f2 tx2 ws, s.wprog = w :: rest ∧
      flushList (w.t.run (s.com, s.live)).f (w.t.run (s.com, s.live)).tx w.t.order = .ok (f2, tx2, ws) ∧
      tx2.unflushed = [] ∧ (commitAfterFlush f2 tx2).2.1 = .ok ∧ F = (commitAfterFlush f2 tx2).1 ∧
      cur = (w.t.run (s.com, s.live)).cur ∧ σ = (w.t.run (s.com, s.live)).σ

/-- an open snapshot and the committed state: no commit completed since the snapshot was taken, the client owns the
    same pages, mapping / root / data end are those of the committed state, and the committed state's disk still
    holds the snapshot's content of every owned page -/
structure Agree (sn : Snap) (s : EState) : Prop where
  ver : sn.ver = s.ver
  live : sn.live = s.live
  map : sn.f.walMap = s.com.walMap
  root : sn.f.root = s.com.root
  de : sn.f.alloc.data.endMarker = s.com.alloc.data.endMarker
  disk : ∀ id ∈ s.live, s.com.diskAt (sn.f.physOf id) = sn.f.diskAt (sn.f.physOf id)

structure ECInv (s : EState) : Prop where
  he : EngInvU s.com s.live
  w : EWInv s
  res : s.lock.reserved = s.wpc.holdsRes
  pend : s.lock.pending = s.wpc.isPending
  shared : s.lock.shared = openCount s.rds
  agree : ∀ r ∈ s.rds, ∀ sn, r.snap = some sn → Agree sn s
  logOk : ∀ r ∈ s.rds, ∀ e ∈ r.log, e.owned = true → e.got = e.exp ∧ ∀ c, e.sigma = some c → e.got = c
  logTx : ∀ r ∈ s.rds, (∀ e ∈ r.log, e.tx ≤ r.ntx ∧ ∀ sn, r.snap = some sn → e.tx = r.ntx → e.exp = sn.f.readPage e.id) ∧
    ∀ e1 ∈ r.log, ∀ e2 ∈ r.log, e1.tx = e2.tx → e1.id = e2.id → e1.exp = e2.exp
  pub : ∀ id ∈ s.live, ∀ c, s.lastσ id = some c → s.com.readPage id = c

theorem cinv_init (com : FileSt) (live : List Nat) (he : EngInvU com live) (wprog : List WTxn)
    (rprogs : List (List ROp)) : ECInv (EState.init com live wprog rprogs) := by
  refine ⟨he, trivial, rfl, rfl, ?_, ?_, ?_, ?_, ?_⟩
  · show 0 = openCount (rprogs.map fun p => ({ prog := p } : RTh))
    induction rprogs with
    | nil => rfl
    | cons p ps ih =>
      simp only [openCount, List.map_cons, List.sum_cons] at ih ⊢
      rw [← ih]; rfl
  · intro r hr sn hsn
    simp only [EState.init, List.mem_map] at hr
    obtain ⟨p, -, rfl⟩ := hr
    cases hsn
  · intro r hr e he'
    simp only [EState.init, List.mem_map] at hr
    obtain ⟨p, -, rfl⟩ := hr
    cases he'
  · intro r hr
    simp only [EState.init, List.mem_map] at hr
    obtain ⟨p, -, rfl⟩ := hr
    exact ⟨fun e he' => absurd he' List.not_mem_nil, fun e1 h1 => absurd h1 List.not_mem_nil⟩
  · intro id _ c hc
    simp only [EState.init, Option.some.injEq] at hc
    exact hc

/-! ### what the writer's disk writes leave alone -/

/-- the commit (successful or not) changes no physical page an owned page of the committed state is read from:
    the checkpoint copy-back — the only disk write of `commitAfterFlush` in this model — writes to original pages
    that are shadowed by the committed mapping -/
theorem U.commit_disk {f0 : FileSt} {live : List Nat} {f : FileSt} {tx : TxSt} {cur : List Nat}
    (he : U.EngInv f0 live) (h : U.TxInv f0 live f tx cur) (hfl : AllFlushed tx) :
    ∀ id ∈ live, (commitAfterFlush f tx).1.diskAt (f0.physOf id) = f0.diskAt (f0.physOf id) := by
  obtain ⟨h1, -, -, -⟩ := U.commit_phase1 he h hfl
  have hd : (commitAfterFlush f tx).1.disk = (cPhase1 f tx).1.disk := by
    rw [commitAfterFlush_eq]
    unfold commitAfterFlush'
    dsimp only
    split
    · rfl
    · split <;> rfl
  intro id hid
  have := h1.r0 id hid
  unfold FileSt.diskAt at this ⊢
  rw [hd]; exact this

/-- **the disk under a running writer**: in every state, every physical page an owned page of the committed state is
    read from holds on the CURRENT disk what it holds in the committed state -/
theorem cur_r0 (s : EState) (hi : ECInv s) :
    ∀ id ∈ s.live, s.curFile.diskAt (s.com.physOf id) = s.com.diskAt (s.com.physOf id) := by
  have hw := hi.w
  unfold EWInv at hw
  unfold EState.curFile
  cases hpc : s.wpc with
  | idle => intro id _; rfl
  | active r ops =>
    rw [hpc] at hw
    obtain ⟨w, rest, done, -, -, hr⟩ := hw
    subst hr
    exact (U.runinv_ops hi.he done _ (runInvU_start s.com s.live hi.he _ _ _)).tx.r0
  | pending r =>
    rw [hpc] at hw
    obtain ⟨w, rest, -, hr⟩ := hw
    subst hr
    exact (U.runinv_ops hi.he w.t.ops _ (runInvU_start s.com s.live hi.he _ _ _)).tx.r0
  | waitExcl F cur σ =>
    rw [hpc] at hw
    obtain ⟨w, rest, f2, tx2, ws, -, hfl, hall, -, hF, -, -⟩ := hw
    subst hF
    have hr := U.runinv_ops hi.he w.t.ops _ (runInvU_start s.com s.live hi.he w.t.overflow w.t.growPct w.t.walLimit)
    obtain ⟨h2, -⟩ := U.txinv_flushList hi.he w.t.order _ _ hr.tx f2 tx2 ws hfl
    exact U.commit_disk hi.he h2 (allFlushed_of_unflushed tx2 hall)

/-- what an open reader reads for an owned page is the content of the page in its snapshot — and in the committed state -/
theorem read_ok (s : EState) (hi : ECInv s) (sn : Snap) (ha : Agree sn s) (id : Nat) (hid : id ∈ s.live) :
    s.curFile.diskAt (sn.f.physOf id) = sn.f.readPage id ∧ sn.f.readPage id = s.com.readPage id := by
  have hp : sn.f.physOf id = s.com.physOf id := by unfold FileSt.physOf; rw [ha.map]
  have h1 := cur_r0 s hi id hid
  have h2 := ha.disk id hid
  unfold FileSt.readPage
  rw [hp] at h2 ⊢
  exact ⟨h1.trans h2, h2.symm⟩

/-! ### steps of the writer -/

theorem agree_congr {sn : Snap} {s s' : EState} (ha : Agree sn s) (hc : s'.com = s.com) (hl : s'.live = s.live)
    (hv : s'.ver = s.ver) : Agree sn s' :=
  ⟨ha.ver.trans hv.symm, ha.live.trans hl.symm, hc ▸ ha.map, hc ▸ ha.root, hc ▸ ha.de, by rw [hc, hl]; exact ha.disk⟩

/-- a transaction that ends without commit leaves every open snapshot valid -/
theorem agree_of_same {sn : Snap} {s s' : EState} (ha : Agree sn s) (hl : s'.live = s.live) (hv : s'.ver = s.ver)
    (hs : SameCommitted s.com s.live s'.com) : Agree sn s' := by
  have hp : ∀ id, sn.f.physOf id = s.com.physOf id := by intro id; unfold FileSt.physOf; rw [ha.map]
  refine ⟨ha.ver.trans hv.symm, ha.live.trans hl.symm, ha.map.trans hs.walMap.symm, ha.root.trans hs.hdr.1.symm,
    by rw [hs.alloc]; exact ha.de, ?_⟩
  intro id hid
  rw [hl] at hid
  have h1 := hs.disk id hid
  have h2 := ha.disk id hid
  rw [hp id] at h2 ⊢
  exact h1.trans h2

/-- the end of a write transaction without commit -/
theorem endTx_cinv (s : EState) (hi : ECInv s) (com' : FileSt) (o : WOut) (hs : SameCommitted s.com s.live com') :
    ECInv (s.endTx com' o) := by
  refine ⟨U.sameCommitted_engInv hi.he hs, trivial, rfl, rfl, hi.shared, ?_, hi.logOk, hi.logTx, ?_⟩
  · intro r hr sn hsn
    exact agree_of_same (hi.agree r hr sn hsn) rfl rfl hs
  · intro id hid c hc
    show com'.readPage id = c
    rw [sameCommitted_read hs id hid]
    exact hi.pub id hid c hc

theorem stepW_cinv (s s' : EState) (hi : ECInv s) (h : s.stepW = some s') : ECInv s' := by
  have hw := hi.w
  unfold EWInv at hw
  unfold EState.stepW at h
  cases hp : s.wprog with
  | nil => rw [hp] at h; cases h
  | cons w rest =>
    rw [hp] at h
    dsimp only at h
    cases hpc : s.wpc with
    | idle =>
      rw [hpc] at h
      dsimp only at h
      split at h
      · cases h
      · simp only [Option.some.injEq] at h
        subst h
        refine ⟨hi.he, ?_, rfl, ?_, hi.shared, fun r hr sn hsn => agree_congr (hi.agree r hr sn hsn) rfl rfl rfl,
          hi.logOk, hi.logTx, hi.pub⟩
        · show EWInv _
          unfold EWInv
          exact ⟨w, rest, [], rfl, rfl, rfl⟩
        · show s.lock.pending = false
          rw [hi.pend, hpc]; rfl
    | active r ops =>
      rw [hpc] at h hw
      obtain ⟨w', rest', done, hp', hdone, hr⟩ := hw
      rw [hp] at hp'
      cases hp'
      cases ops with
      | cons op ops =>
        simp only [Option.some.injEq] at h
        subst h
        refine ⟨hi.he, ?_, ?_, ?_, hi.shared, fun r hr sn hsn => agree_congr (hi.agree r hr sn hsn) rfl rfl rfl,
          hi.logOk, hi.logTx, hi.pub⟩
        · show EWInv _
          unfold EWInv
          refine ⟨w, rest, done ++ [op], rfl, by rw [List.append_assoc]; exact hdone, ?_⟩
          rw [runOps_append, ← hr]; rfl
        · show s.lock.reserved = true
          rw [hi.res, hpc]; rfl
        · show s.lock.pending = false
          rw [hi.pend, hpc]; rfl
      | nil =>
        rw [List.append_nil] at hdone
        subst hdone
        dsimp only at h
        split at h
        · simp only [Option.some.injEq] at h
          subst h
          rw [hr]
          exact endTx_cinv s hi _ _ (sameCommittedU_of_abort s.com s.live hi.he _ _ _ _)
        · simp only [Option.some.injEq] at h
          subst h
          refine ⟨hi.he, ?_, ?_, rfl, hi.shared, fun r hr sn hsn => agree_congr (hi.agree r hr sn hsn) rfl rfl rfl,
            hi.logOk, hi.logTx, hi.pub⟩
          · show EWInv _
            unfold EWInv
            exact ⟨w, rest, rfl, hr⟩
          · show s.lock.reserved = true
            rw [hi.res, hpc]; rfl
    | pending r =>
      rw [hpc] at h hw
      obtain ⟨w', rest', hp', hr⟩ := hw
      rw [hp] at hp'
      cases hp'
      dsimp only at h
      subst hr
      cases hfl : flushList (w.t.run (s.com, s.live)).f (w.t.run (s.com, s.live)).tx w.t.order with
      | error e =>
        rw [hfl] at h
        simp only [Option.some.injEq] at h
        subst h
        exact endTx_cinv s hi _ _ (sameCommittedU_of_abort s.com s.live hi.he _ _ _ _)
      | ok q =>
        obtain ⟨f2, tx2, ws⟩ := q
        rw [hfl] at h
        dsimp only at h
        split at h
        · rename_i hall
          split at h
          · rename_i hok
            simp only [Option.some.injEq] at h
            subst h
            refine ⟨hi.he, ?_, ?_, ?_, hi.shared,
              fun r hr sn hsn => agree_congr (hi.agree r hr sn hsn) rfl rfl rfl, hi.logOk, hi.logTx, hi.pub⟩
            · show EWInv _
              unfold EWInv
              exact ⟨w, rest, f2, tx2, ws, rfl, hfl, hall, hok, rfl, rfl, rfl⟩
            · show s.lock.reserved = true
              rw [hi.res, hpc]; rfl
            · show s.lock.pending = true
              rw [hi.pend, hpc]; rfl
          · rename_i hfail
            simp only [Option.some.injEq] at h
            subst h
            exact endTx_cinv s hi _ _
              (sameCommittedU_of_failed s.com s.live hi.he _ _ _ _ _ f2 tx2 ws hfl hall hfail)
        · simp only [Option.some.injEq] at h
          subst h
          exact endTx_cinv s hi _ _
            (sameCommittedU_of_abort_after_flush s.com s.live hi.he _ _ _ _ _ f2 tx2 ws hfl)
    | waitExcl F cur σ =>
      rw [hpc] at h hw
      obtain ⟨w', rest', f2, tx2, ws, hp', hfl, hall, hok, hF, hcur, hσ⟩ := hw
      rw [hp] at hp'
      cases hp'
      dsimp only at h
      split at h
      · cases h
      · rename_i hsh
        simp only [Option.some.injEq] at h
        subst h
        have hs0 : openCount s.rds = 0 := by
          have := hi.shared
          have hsh' : s.lock.shared = 0 := by
            false_or_by_contra
            rename_i hne
            exact hsh hne
          omega
        subst hF hcur hσ
        refine ⟨c03u_commit_invariant s.com s.live hi.he _ _ _ _ _ f2 tx2 ws hfl hall hok, trivial, rfl, rfl,
          hi.shared, ?_, hi.logOk, hi.logTx, ?_⟩
        · intro r hr sn hsn
          rw [openCount_zero s.rds hs0 r hr] at hsn
          cases hsn
        · intro id hid c hc
          exact c03u_commit_publishes s.com s.live hi.he _ _ _ _ _ f2 tx2 ws hfl hall hok id hid c hc

/-! ### steps of a reader -/

theorem reader_cinv (s : EState) (hi : ECInv s) (i : Nat) (r r' : RTh) (l' : LockSt) (hget : s.rds[i]? = some r)
    (hres : l'.reserved = s.lock.reserved) (hpend : l'.pending = s.lock.pending)
    (hsh : l'.shared + r.isOpen = s.lock.shared + r'.isOpen)
    (hsn : ∀ sn, r'.snap = some sn → Agree sn s)
    (hlog : ∀ e ∈ r'.log, e.owned = true → e.got = e.exp ∧ ∀ c, e.sigma = some c → e.got = c)
    (hlogTx : (∀ e ∈ r'.log, e.tx ≤ r'.ntx ∧ ∀ sn, r'.snap = some sn → e.tx = r'.ntx → e.exp = sn.f.readPage e.id) ∧
      ∀ e1 ∈ r'.log, ∀ e2 ∈ r'.log, e1.tx = e2.tx → e1.id = e2.id → e1.exp = e2.exp) :
    ECInv { s with rds := s.rds.set i r', lock := l' } := by
  refine ⟨hi.he, hi.w, hres.trans hi.res, hpend.trans hi.pend, ?_, ?_, ?_, ?_, hi.pub⟩
  · show l'.shared = openCount (s.rds.set i r')
    have := openCount_set s.rds i r r' hget
    have := hi.shared
    omega
  · intro x hx sn hsn'
    rcases List.mem_or_eq_of_mem_set hx with hx | hx
    · exact agree_congr (hi.agree x hx sn hsn') rfl rfl rfl
    · subst hx
      exact agree_congr (hsn sn hsn') rfl rfl rfl
  · intro x hx
    rcases List.mem_or_eq_of_mem_set hx with hx | hx
    · exact hi.logOk x hx
    · subst hx; exact hlog
  · intro x hx
    rcases List.mem_or_eq_of_mem_set hx with hx | hx
    · exact hi.logTx x hx
    · subst hx; exact hlogTx

theorem step_succ (s : EState) (i : Nat) : s.step (i + 1) =
    (match s.rds[i]? with
     | none => none
     | some r =>
       match r.step s with
       | none => none
       | some (r', l') => some { s with rds := s.rds.set i r', lock := l' }) := rfl

theorem stepR_cinv (s s' : EState) (i : Nat) (hi : ECInv s) (h : s.step (i + 1) = some s') : ECInv s' := by
  rw [step_succ] at h
  cases hget : s.rds[i]? with
  | none => rw [hget] at h; cases h
  | some r =>
    rw [hget] at h
    dsimp only at h
    have hmem : r ∈ s.rds := List.mem_of_getElem? hget
    cases hst : r.step s with
    | none => rw [hst] at h; cases h
    | some q =>
      obtain ⟨r', l'⟩ := q
      rw [hst] at h
      simp only [Option.some.injEq] at h
      subst h
      unfold RTh.step at hst
      split at hst
      · cases hst
      · -- deferred close
        rename_i sn hp hs
        simp only [Option.some.injEq, Prod.mk.injEq] at hst
        obtain ⟨rfl, rfl⟩ := hst
        have h2 : r.isOpen = 1 := by unfold RTh.isOpen; rw [hs]; rfl
        have hpos : 0 < s.lock.shared := by
          have h1 := hi.shared
          have hx := openCount_pos_of_mem s.rds r hmem h2
          omega
        refine reader_cinv s hi i r _ _ hget (by rfl) (by rfl) ?_ ?_ ?_ ?_
        · show s.lock.shared - 1 + r.isOpen = s.lock.shared + 0
          omega
        · intro sn' h'; cases h'
        · exact hi.logOk r hmem
        · obtain ⟨t1, t2⟩ := hi.logTx r hmem
          exact ⟨fun e he => ⟨(t1 e he).1, fun sn h' => nomatch h'⟩, t2⟩
      · -- begin
        rename_i p hp hs
        split at hst
        · cases hst
        · simp only [Option.some.injEq, Prod.mk.injEq] at hst
          obtain ⟨rfl, rfl⟩ := hst
          refine reader_cinv s hi i r _ _ hget (by rfl) (by rfl) ?_ ?_ ?_ ?_
          · show s.lock.shared + 1 + r.isOpen = s.lock.shared + 1
            have h2 : r.isOpen = 0 := by unfold RTh.isOpen; rw [hs]; rfl
            omega
          · intro sn' h'
            simp only [Option.some.injEq] at h'
            subst h'
            exact ⟨rfl, rfl, rfl, rfl, rfl, fun _ _ => rfl⟩
          · exact hi.logOk r hmem
          · obtain ⟨t1, t2⟩ := hi.logTx r hmem
            refine ⟨fun e he => ⟨?_, ?_⟩, t2⟩
            · have := (t1 e he).1
              show e.tx ≤ r.ntx + 1
              omega
            · intro sn _ h'
              have := (t1 e he).1
              have h'' : e.tx = r.ntx + 1 := h'
              omega
      · -- begin inside a transaction
        rename_i p sn hp hs
        simp only [Option.some.injEq, Prod.mk.injEq] at hst
        obtain ⟨rfl, rfl⟩ := hst
        refine reader_cinv s hi i r _ _ hget (by rfl) (by rfl) ?_ ?_ ?_ ?_
        · show s.lock.shared + r.isOpen = s.lock.shared + r.isOpen
          rfl
        · intro sn' h'; exact hi.agree r hmem sn' h'
        · exact hi.logOk r hmem
        · exact hi.logTx r hmem
      · -- read
        rename_i id p sn hp hs
        simp only [Option.some.injEq, Prod.mk.injEq] at hst
        obtain ⟨rfl, rfl⟩ := hst
        have ha := hi.agree r hmem sn hs
        refine reader_cinv s hi i r _ _ hget (by rfl) (by rfl) ?_ ?_ ?_ ?_
        · show s.lock.shared + r.isOpen = s.lock.shared + r.isOpen
          rfl
        · intro sn' h'; exact hi.agree r hmem sn' h'
        · intro e he
          rcases List.mem_append.mp he with he | he
          · exact hi.logOk r hmem e he
          · simp only [List.mem_singleton] at he
            subst he
            intro ho
            have hid : id ∈ s.live := by
              have : sn.live.contains id = true := ho
              rw [ha.live] at this
              simpa using this
            obtain ⟨r1, r2⟩ := read_ok s hi sn ha id hid
            refine ⟨r1, ?_⟩
            intro c hc
            have := hi.pub id hid c hc
            show s.curFile.diskAt (sn.f.physOf id) = c
            rw [r1, r2]; exact this
        · obtain ⟨t1, t2⟩ := hi.logTx r hmem
          have hnew : ∀ e ∈ r.log, e.tx = r.ntx → e.id = id → e.exp = sn.f.readPage id := by
            intro e he h1 h2
            rw [← h2]; exact (t1 e he).2 sn hs h1
          refine ⟨?_, ?_⟩
          · intro e he
            rcases List.mem_append.mp he with he | he
            · exact t1 e he
            · simp only [List.mem_singleton] at he
              subst he
              refine ⟨Nat.le_refl _, ?_⟩
              intro sn' h' _
              have : sn' = sn := by
                have h'' : r.snap = some sn' := h'
                rw [hs] at h''
                exact (Option.some.inj h'').symm
              rw [this]
          · intro e1 h1 e2 h2 htx hid
            rcases List.mem_append.mp h1 with h1 | h1 <;> rcases List.mem_append.mp h2 with h2 | h2
            · exact t2 e1 h1 e2 h2 htx hid
            · simp only [List.mem_singleton] at h2
              subst h2
              exact hnew e1 h1 htx hid
            · simp only [List.mem_singleton] at h1
              subst h1
              exact (hnew e2 h2 htx.symm hid.symm).symm
            · simp only [List.mem_singleton] at h1 h2
              rw [h1, h2]
      · -- read outside a transaction
        rename_i id p hp hs
        simp only [Option.some.injEq, Prod.mk.injEq] at hst
        obtain ⟨rfl, rfl⟩ := hst
        refine reader_cinv s hi i r _ _ hget (by rfl) (by rfl) ?_ ?_ ?_ ?_
        · show s.lock.shared + r.isOpen = s.lock.shared + r.isOpen
          rfl
        · intro sn' h'; exact hi.agree r hmem sn' h'
        · exact hi.logOk r hmem
        · exact hi.logTx r hmem
      · -- close
        rename_i p sn hp hs
        simp only [Option.some.injEq, Prod.mk.injEq] at hst
        obtain ⟨rfl, rfl⟩ := hst
        have h2 : r.isOpen = 1 := by unfold RTh.isOpen; rw [hs]; rfl
        have hpos : 0 < s.lock.shared := by
          have h1 := hi.shared
          have hx := openCount_pos_of_mem s.rds r hmem h2
          omega
        refine reader_cinv s hi i r _ _ hget (by rfl) (by rfl) ?_ ?_ ?_ ?_
        · show s.lock.shared - 1 + r.isOpen = s.lock.shared + 0
          omega
        · intro sn' h'; cases h'
        · exact hi.logOk r hmem
        · obtain ⟨t1, t2⟩ := hi.logTx r hmem
          exact ⟨fun e he => ⟨(t1 e he).1, fun sn h' => nomatch h'⟩, t2⟩
      · -- close outside a transaction
        rename_i p hp hs
        simp only [Option.some.injEq, Prod.mk.injEq] at hst
        obtain ⟨rfl, rfl⟩ := hst
        refine reader_cinv s hi i r _ _ hget (by rfl) (by rfl) ?_ ?_ ?_ ?_
        · show s.lock.shared + r.isOpen = s.lock.shared + r.isOpen
          rfl
        · intro sn' h'; exact hi.agree r hmem sn' h'
        · exact hi.logOk r hmem
        · exact hi.logTx r hmem

theorem step_cinv (s s' : EState) (t : Nat) (hi : ECInv s) (h : s.step t = some s') : ECInv s' := by
  cases t with
  | zero => exact stepW_cinv s s' hi h
  | succ i => exact stepR_cinv s s' i hi h

theorem run_cinv : ∀ (sched : List Nat) (s : EState), ECInv s → ECInv (s.run sched) := by
  intro sched
  induction sched with
  | nil => intro s hi; exact hi
  | cons t ts ih =>
    intro s hi
    unfold EState.run
    cases hs : s.step t with
    | none => exact ih s hi
    | some s' => exact ih s' (step_cinv s s' t hi hs)

end TxVerif
