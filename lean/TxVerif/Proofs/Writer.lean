import TxVerif.Model.Writer

/-
  Proofs about the background writer model: sorting each batch STABLY by page
  id does not change which write to a page is executed last, so after all
  batches every page holds the last write scheduled for it.
-/
namespace TxVerif

/-! ### applyWrites / lastWrite -/

theorem applyWrites_cons {γ} (d : WDisk γ) (w : Nat × γ) (ws : List (Nat × γ)) :
    applyWrites d (w :: ws) = applyWrites (applyWrite d w) ws := rfl

theorem applyWrites_append {γ} (d : WDisk γ) (as bs : List (Nat × γ)) :
    applyWrites d (as ++ bs) = applyWrites (applyWrites d as) bs := by
  simp [applyWrites, List.foldl_append]

theorem lastWrite_nil {γ} (p : Nat) : lastWrite ([] : List (Nat × γ)) p = none := rfl

theorem lastWrite_cons {γ} (w : Nat × γ) (ws : List (Nat × γ)) (p : Nat) :
    lastWrite (w :: ws) p = (lastWrite ws p).or (if w.1 = p then some w.2 else none) := by
  unfold lastWrite
  rw [List.reverse_cons, List.find?_append]
  cases h : ws.reverse.find? (fun x => x.1 == p) with
  | some x => simp
  | none =>
    by_cases hw : w.1 = p
    · have hb : (w.1 == p) = true := by simp [hw]
      simp [List.find?, hw]
    · have hb : (w.1 == p) = false := by simp [hw]
      simp [List.find?, hw, hb]

/-- applying writes in order: a page holds the last write to it, or its old content -/
theorem applyWrites_eq_lastWrite {γ} (ws : List (Nat × γ)) (d : WDisk γ) (p : Nat) :
    applyWrites d ws p = (lastWrite ws p).or (d p) := by
  induction ws generalizing d with
  | nil => simp [applyWrites, lastWrite_nil]
  | cons w ws ih =>
    rw [applyWrites_cons, ih, lastWrite_cons]
    cases lastWrite ws p with
    | some x => simp
    | none =>
      by_cases hw : w.1 = p
      · simp [applyWrite, hw]
      · have : ¬ p = w.1 := fun h => hw h.symm
        simp [applyWrite, hw, this]

/-! ### filtering the writes to one page -/

theorem filterId_cons_eq {γ} (w : Nat × γ) (ws : List (Nat × γ)) (p : Nat) (h : w.1 = p) :
    (w :: ws).filter (fun v => v.1 == p) = w :: ws.filter (fun v => v.1 == p) := by
  simp [h]

theorem filterId_cons_ne {γ} (w : Nat × γ) (ws : List (Nat × γ)) (p : Nat) (h : ¬ w.1 = p) :
    (w :: ws).filter (fun v => v.1 == p) = ws.filter (fun v => v.1 == p) := by
  simp [h]

/-- `lastWrite` only looks at the writes to page `p` -/
theorem lastWrite_filter {γ} (ws : List (Nat × γ)) (p : Nat) :
    lastWrite (ws.filter (fun w => w.1 == p)) p = lastWrite ws p := by
  induction ws with
  | nil => rfl
  | cons w ws ih =>
    by_cases hw : w.1 = p
    · rw [filterId_cons_eq w ws p hw, lastWrite_cons, lastWrite_cons, ih]
    · rw [filterId_cons_ne w ws p hw, lastWrite_cons, ih]
      simp [hw]

/-! ### insertion into a sorted list -/

theorem insertById_perm {γ} (w : Nat × γ) (acc : List (Nat × γ)) :
    (insertById w acc).Perm (w :: acc) := by
  induction acc with
  | nil => exact List.Perm.refl _
  | cons x xs ih =>
    unfold insertById
    split
    · exact List.Perm.refl _
    · exact (List.Perm.cons x ih).trans (List.Perm.swap w x xs)

theorem insertById_sorted {γ} (w : Nat × γ) (acc : List (Nat × γ))
    (h : acc.Pairwise (fun a b => a.1 ≤ b.1)) :
    (insertById w acc).Pairwise (fun a b => a.1 ≤ b.1) := by
  induction acc with
  | nil => simp [insertById]
  | cons x xs ih =>
    rw [List.pairwise_cons] at h
    unfold insertById
    split
    · next hlt =>
      rw [List.pairwise_cons]
      refine ⟨?_, List.pairwise_cons.2 h⟩
      intro b hb
      rcases List.mem_cons.1 hb with rfl | hb
      · exact Nat.le_of_lt hlt
      · exact Nat.le_trans (Nat.le_of_lt hlt) (h.1 b hb)
    · next hnlt =>
      rw [List.pairwise_cons]
      refine ⟨?_, ih h.2⟩
      intro b hb
      rcases List.mem_cons.1 ((insertById_perm w xs).mem_iff.1 hb) with rfl | hb
      · exact Nat.le_of_not_lt hnlt
      · exact h.1 b hb

/-- in a sorted list whose head is above `p`, nothing is a write to `p` -/
theorem filter_eq_nil_of_lt {γ} (p : Nat) (x : Nat × γ) (xs : List (Nat × γ))
    (h : ∀ b ∈ xs, x.1 ≤ b.1) (hp : p < x.1) :
    (x :: xs).filter (fun w => w.1 == p) = [] := by
  rw [List.filter_eq_nil_iff]
  intro b hb
  rcases List.mem_cons.1 hb with rfl | hb
  · simp; omega
  · have := h b hb
    simp; omega

theorem insertById_filter {γ} (w : Nat × γ) (acc : List (Nat × γ)) (p : Nat)
    (h : acc.Pairwise (fun a b => a.1 ≤ b.1)) :
    (insertById w acc).filter (fun v => v.1 == p) =
      if w.1 = p then acc.filter (fun v => v.1 == p) ++ [w] else acc.filter (fun v => v.1 == p) := by
  induction acc with
  | nil => by_cases hw : w.1 = p <;> simp [insertById, hw]
  | cons x xs ih =>
    rw [List.pairwise_cons] at h
    unfold insertById
    split
    · next hlt =>
      by_cases hw : w.1 = p
      · have hnil : (x :: xs).filter (fun v => v.1 == p) = [] :=
          filter_eq_nil_of_lt p x xs h.1 (hw ▸ hlt)
        rw [filterId_cons_eq w _ p hw, hnil, if_pos hw]
        rfl
      · rw [filterId_cons_ne w _ p hw, if_neg hw]
    · next hnlt =>
      by_cases hx : x.1 = p
      · rw [filterId_cons_eq x _ p hx, filterId_cons_eq x _ p hx, ih h.2]
        split <;> simp
      · rw [filterId_cons_ne x _ p hx, filterId_cons_ne x _ p hx, ih h.2]

/-! ### the fold, with a generalised accumulator -/

theorem foldInsert_sorted {γ} (ws acc : List (Nat × γ))
    (h : acc.Pairwise (fun a b => a.1 ≤ b.1)) :
    (ws.foldl (fun acc w => insertById w acc) acc).Pairwise (fun a b => a.1 ≤ b.1) := by
  induction ws generalizing acc with
  | nil => exact h
  | cons w ws ih => exact ih _ (insertById_sorted w acc h)

theorem foldInsert_filter {γ} (ws acc : List (Nat × γ)) (p : Nat)
    (h : acc.Pairwise (fun a b => a.1 ≤ b.1)) :
    (ws.foldl (fun acc w => insertById w acc) acc).filter (fun v => v.1 == p) =
      acc.filter (fun v => v.1 == p) ++ ws.filter (fun v => v.1 == p) := by
  induction ws generalizing acc with
  | nil => simp
  | cons w ws ih =>
    rw [List.foldl_cons, ih _ (insertById_sorted w acc h), insertById_filter w acc p h]
    by_cases hw : w.1 = p
    · rw [if_pos hw, filterId_cons_eq w ws p hw, List.append_assoc]
      rfl
    · rw [if_neg hw, filterId_cons_ne w ws p hw]

theorem foldInsert_perm {γ} (ws acc : List (Nat × γ)) :
    (ws.foldl (fun acc w => insertById w acc) acc).Perm (acc ++ ws) := by
  induction ws generalizing acc with
  | nil => simp
  | cons w ws ih =>
    rw [List.foldl_cons]
    refine (ih _).trans ?_
    refine ((insertById_perm w acc).append_right ws).trans ?_
    exact (List.perm_middle (l₁ := acc) (a := w) (l₂ := ws)).symm

/-! ### the stable sort -/

/-- the stable sort keeps, for every page, the writes to that page in queue order -/
theorem stableSort_filter {γ} (ws : List (Nat × γ)) (p : Nat) :
    (stableSortById ws).filter (fun w => w.1 == p) = ws.filter (fun w => w.1 == p) := by
  unfold stableSortById
  rw [foldInsert_filter ws [] p List.Pairwise.nil]
  rfl

theorem stableSort_sorted {γ} (ws : List (Nat × γ)) :
    (stableSortById ws).Pairwise (fun a b => a.1 ≤ b.1) :=
  foldInsert_sorted ws [] List.Pairwise.nil

theorem stableSort_perm {γ} (ws : List (Nat × γ)) : (stableSortById ws).Perm ws := by
  have := foldInsert_perm ws []
  simpa [stableSortById] using this

theorem lastWrite_stableSort {γ} (ws : List (Nat × γ)) (p : Nat) :
    lastWrite (stableSortById ws) p = lastWrite ws p := by
  rw [← lastWrite_filter (stableSortById ws), stableSort_filter, lastWrite_filter]

/-- sorting a batch stably by page id does not change the final content of any page -/
theorem applyWrites_stableSort {γ} (ws : List (Nat × γ)) (d : WDisk γ) (p : Nat) :
    applyWrites d (stableSortById ws) p = applyWrites d ws p := by
  rw [applyWrites_eq_lastWrite, applyWrites_eq_lastWrite, lastWrite_stableSort]

/-! ### the writer -/

/-- writer_order: however the queue is cut into batches, after the writer has executed
    all of them every page holds the LAST write scheduled for it -/
theorem writer_order {γ} (batches : List (List (Nat × γ))) (d : WDisk γ) (p : Nat) :
    runBatches d batches p = applyWrites d batches.flatten p := by
  induction batches generalizing d with
  | nil => rfl
  | cons b bs ih =>
    have hb : applyWrites d (stableSortById b) = applyWrites d b :=
      funext (applyWrites_stableSort b d)
    show runBatches (applyWrites d (stableSortById b)) bs p = _
    rw [ih, hb, List.flatten_cons, applyWrites_append]

theorem writer_order_last {γ} (batches : List (List (Nat × γ))) (d : WDisk γ) (p : Nat) :
    runBatches d batches p = (lastWrite batches.flatten p).or (d p) := by
  rw [writer_order, applyWrites_eq_lastWrite]

/-! ### why stability matters (go-txfile: `sort.Slice` → `sort.SliceStable`) -/

/-- a sort by id that is not stable: equal ids end up in reverse queue order -/
def insertByIdRev {γ} (w : Nat × γ) : List (Nat × γ) → List (Nat × γ)
  | [] => [w]
  | x :: xs => if w.1 ≤ x.1 then w :: x :: xs else x :: insertByIdRev w xs

def unstableSortById {γ} (ws : List (Nat × γ)) : List (Nat × γ) :=
  ws.foldl (fun acc w => insertByIdRev w acc) []

/-- with the unstable sort two queued writes to one page are swapped: the older content wins -/
example : applyWrites (fun _ => none) (unstableSortById [(5, "OLD"), (5, "NEW")]) 5 = some "OLD" := by
  decide

example : applyWrites (fun _ => none) (stableSortById [(5, "OLD"), (5, "NEW")]) 5 = some "NEW" := by
  decide

end TxVerif

