/-
  Lemmas for C01 over the engine model, part A: the hashes (injectivity of the content hash) and general
  facts about the acceptor `Cfg.run` (runs of clear writes, concatenation, the file content an accepted run
  leaves behind).
-/
import TxVerif.Proofs.EngineTrace
namespace TxVerif

/-! ### the content hash is injective -/

theorem et_tri_step (s : Nat) : (s + 1) * (s + 1 + 1) / 2 = s * (s + 1) / 2 + (s + 1) := by
  have : (s + 1) * (s + 1 + 1) = s * (s + 1) + 2 * (s + 1) := by
    simp only [Nat.add_mul, Nat.mul_add, Nat.mul_one, Nat.one_mul]; omega
  rw [this, Nat.add_mul_div_left _ _ (by omega : 0 < 2)]

theorem et_tri_mono (s t : Nat) (h : s < t) : s * (s + 1) / 2 + s < t * (t + 1) / 2 := by
  induction t with
  | zero => omega
  | succ t ih =>
    rw [et_tri_step]
    by_cases e : s = t
    · subst e; omega
    · have := ih (by omega); omega

theorem natPair_inj (a b c d : Nat) (h : natPair a b = natPair c d) : a = c ∧ b = d := by
  unfold natPair at h
  have hs : a + b = c + d := by
    rcases Nat.lt_trichotomy (a + b) (c + d) with hlt | heq | hgt
    · have := et_tri_mono (a + b) (c + d) hlt; omega
    · exact heq
    · have := et_tri_mono (c + d) (a + b) hgt; omega
  rw [hs] at h
  omega

theorem contentHash_inj (c d : Content) (h : c.hash = d.hash) : c = d := by
  have h1 : natPair (natPair c.lo.1 c.lo.2) (natPair c.hi.1 c.hi.2) =
      natPair (natPair d.lo.1 d.lo.2) (natPair d.hi.1 d.hi.2) :=
    Nat.eq_of_mul_eq_mul_left (by omega : 0 < 3) h
  obtain ⟨h2, h3⟩ := natPair_inj _ _ _ _ h1
  obtain ⟨a1, a2⟩ := natPair_inj _ _ _ _ h2
  obtain ⟨b1, b2⟩ := natPair_inj _ _ _ _ h3
  obtain ⟨⟨l1, l2⟩, ⟨u1, u2⟩⟩ := c
  obtain ⟨⟨m1, m2⟩, ⟨v1, v2⟩⟩ := d
  simp only at a1 a2 b1 b2
  subst a1 a2 b1 b2
  rfl

/-- the three kinds of pages never share a hash -/
theorem hash_kinds (c : Content) (m : Assoc Nat) (d1 d2 : List Nat) :
    c.hash ≠ mapHash m ∧ c.hash ≠ flHash d1 d2 ∧ mapHash m ≠ flHash d1 d2 := by
  refine ⟨?_, ?_, ?_⟩
  · intro e
    have e' : 3 * natPair (natPair c.lo.1 c.lo.2) (natPair c.hi.1 c.hi.2) =
      3 * hashNats (m.map fun e => natPair e.1 e.2) + 1 := e
    omega
  · intro e
    have e' : 3 * natPair (natPair c.lo.1 c.lo.2) (natPair c.hi.1 c.hi.2) =
      3 * natPair (hashNats d1) (hashNats d2) + 2 := e
    omega
  · intro e
    have e' : 3 * hashNats (m.map fun e => natPair e.1 e.2) + 1 =
      3 * natPair (hashNats d1) (hashNats d2) + 2 := e
    omega

/-! ### pages of an image under a trace -/

theorem applyOp_pages_eq (i : Img) (op : TOp) : (applyOp i op).pages = applyPg i.pages op := by
  cases op <;> rfl

theorem foldl_applyOp_pages_eq (ops : List TOp) : ∀ i : Img, (ops.foldl applyOp i).pages = tracePages ops i.pages := by
  induction ops with
  | nil => intro i; rfl
  | cons op ops ih =>
    intro i
    rw [List.foldl_cons, ih]
    unfold tracePages
    rw [List.foldl_cons, applyOp_pages_eq]

theorem tracePages_append (a b : List TOp) (pg : Nat → Option Hash) :
    tracePages (a ++ b) pg = tracePages b (tracePages a pg) := by
  unfold tracePages; rw [List.foldl_append]

theorem tracePages_congr (tr : List TOp) : ∀ (pg pg' : Nat → Option Hash), (∀ p, pg p = pg' p) →
    ∀ p, tracePages tr pg p = tracePages tr pg' p := by
  intro pg pg' h
  have : pg = pg' := funext h
  subst this
  intro p; rfl

/-- the page the operation writes / cuts -/
def opHits : TOp → Nat → Prop
  | .write p _, q => q = p
  | .trunc n, q => n ≤ q
  | _, _ => False

theorem applyPg_other (pg : Nat → Option Hash) (op : TOp) (q : Nat) (h : ¬ opHits op q) : applyPg pg op q = pg q := by
  cases op with
  | write p hh => simp only [opHits] at h; simp [applyPg, h]
  | trunc n => simp only [opHits] at h; simp [applyPg, h]
  | hdr _ _ _ => rfl
  | sync => rfl

theorem tracePages_other (tr : List TOp) : ∀ (pg : Nat → Option Hash) (q : Nat), (∀ op ∈ tr, ¬ opHits op q) →
    tracePages tr pg q = pg q := by
  induction tr with
  | nil => intro pg q _; rfl
  | cons op tr ih =>
    intro pg q h
    unfold tracePages
    rw [List.foldl_cons]
    show tracePages tr (applyPg pg op) q = pg q
    rw [ih _ _ (fun o ho => h o (List.mem_cons_of_mem _ ho)), applyPg_other _ _ _ (h _ List.mem_cons_self)]

/-- a list of writes that all carry the hash `h`: every page among the targets ends with `h` -/
theorem tracePages_writes_same (ps : List Nat) (h : Hash) : ∀ (pg : Nat → Option Hash) (q : Nat), q ∈ ps →
    tracePages (ps.map (fun p => TOp.write p h)) pg q = some h := by
  induction ps with
  | nil => intro pg q hq; cases hq
  | cons p ps ih =>
    intro pg q hq
    unfold tracePages
    rw [List.map_cons, List.foldl_cons]
    show tracePages (ps.map (fun p => TOp.write p h)) (applyPg pg (TOp.write p h)) q = some h
    by_cases hin : q ∈ ps
    · exact ih _ q hin
    · have hqp : q = p := by
        rcases List.mem_cons.mp hq with e | e
        · exact e
        · exact absurd e hin
      rw [tracePages_other]
      · simp [applyPg, hqp]
      · intro op hop
        obtain ⟨x, hx, rfl⟩ := List.mem_map.mp hop
        simp only [opHits]
        intro e; exact hin (e ▸ hx)

/-! ### the acceptor on concatenations and on runs of clear writes -/

theorem cfgRun_append (reachOf : Nat → List (Nat × Hash)) (a b : List TOp) : ∀ c : Cfg,
    c.run reachOf (a ++ b) = (c.run reachOf a).bind (fun c' => c'.run reachOf b) := by
  induction a with
  | nil => intro c; rfl
  | cons op a ih =>
    intro c
    simp only [List.cons_append, Cfg.run]
    cases hs : c.step reachOf op with
    | none => rfl
    | some c1 => exact ih c1

theorem cfgRun_append_some (reachOf : Nat → List (Nat × Hash)) (a b : List TOp) (c c1 c2 : Cfg)
    (h1 : c.run reachOf a = some c1) (h2 : c1.run reachOf b = some c2) : c.run reachOf (a ++ b) = some c2 := by
  rw [cfgRun_append, h1]; exact h2

/-- operations the acceptor lets pass while nothing is in flight: writes and truncates clear of the
    committed state -/
theorem run_clear (reachOf : Nat → List (Nat × Hash)) (ws : List TOp) : ∀ c : Cfg, c.inflight = none →
    (∀ op ∈ ws, ClearOf (reachOf c.aSt) op) →
    c.run reachOf ws = some { c with pending := c.pending ++ ws } := by
  induction ws with
  | nil => intro c _ _; simp [Cfg.run]
  | cons op ws ih =>
    intro c hi hcl
    have h1 := hcl op List.mem_cons_self
    have hstep : c.step reachOf op = some { c with pending := c.pending ++ [op] } := by
      cases op with
      | write p hh =>
        simp only [ClearOf] at h1
        simp [Cfg.step, hi, h1]
      | trunc n =>
        simp only [ClearOf] at h1
        simp only [Cfg.step, hi, Option.isNone_none, Bool.true_and]
        have : (reachPages (reachOf c.aSt)).all (· < n) = true := by
          rw [List.all_eq_true]; intro x hx; simpa using h1 x hx
        rw [this]; rfl
      | hdr _ _ _ => simp [ClearOf] at h1
      | sync => simp [ClearOf] at h1
    simp only [Cfg.run, hstep]
    have := ih { c with pending := c.pending ++ [op] } hi (fun o ho => hcl o (List.mem_cons_of_mem _ ho))
    rw [this]
    simp [List.append_assoc]

/-- the file content once everything pending is applied -/
def Cfg.flat (c : Cfg) : Img := c.pending.foldl applyOp c.durable

theorem step_flat (reachOf : Nat → List (Nat × Hash)) (c c' : Cfg) (op : TOp) (h : c.step reachOf op = some c') :
    c'.flat = applyOp c.flat op := by
  cases op with
  | write p hh =>
    simp only [Cfg.step] at h
    split at h
    · cases h; simp [Cfg.flat, List.foldl_append]
    · cases h
  | trunc n =>
    simp only [Cfg.step] at h
    split at h
    · cases h; simp [Cfg.flat, List.foldl_append]
    · cases h
  | hdr s t st =>
    simp only [Cfg.step] at h
    split at h
    · cases h; simp [Cfg.flat, List.foldl_append]
    · cases h
  | sync =>
    simp only [Cfg.step] at h
    cases hi : c.inflight with
    | none => rw [hi] at h; cases h; simp [Cfg.flat, applyOp]
    | some st => rw [hi] at h; cases h; simp [Cfg.flat, applyOp]

theorem run_flat (reachOf : Nat → List (Nat × Hash)) (tr : List TOp) : ∀ c c' : Cfg,
    c.run reachOf tr = some c' → c'.flat = tr.foldl applyOp c.flat := by
  induction tr with
  | nil => intro c c' h; simp [Cfg.run] at h; subst h; rfl
  | cons op tr ih =>
    intro c c' h
    simp only [Cfg.run] at h
    cases hs : c.step reachOf op with
    | none => rw [hs] at h; cases h
    | some c1 =>
      rw [hs] at h
      rw [ih c1 c' h, step_flat reachOf c c1 op hs, List.foldl_cons]

end TxVerif
