/-
  PORT of Proofs/EngineTraceF.lean to the lifetime invariant `EngInvU` (namespace `TxVerif.LT`; the lemmas of
  namespace `Ov` replaced by those of namespace `U`, Proofs/Lifetime*.lean). Original header:
-/
/-
  Lemmas for C01 over the engine model, part F: histories. The reach sets `histReach` of a history are
  those of its committed states; the trace of a history is accepted; headers in the trace name states of
  the history.
-/
import TxVerif.Proofs.LifeTraceE
namespace TxVerif.LT

theorem engRun_cons (e : EngCS) (t : TxnE) (ts : List TxnE) : engRun e (t :: ts) = engRun (engNext e t) ts := rfl

theorem engRun_snoc (e : EngCS) (ts : List TxnE) (t : TxnE) : engRun e (ts ++ [t]) = engNext (engRun e ts) t := by
  unfold engRun; rw [List.foldl_append]; rfl

theorem engOk_run {e : EngCS} (ok : EngOk e) (ts : List TxnE) : EngOk (engRun e ts) := by
  induction ts generalizing e with
  | nil => exact ok
  | cons t ts ih => exact ih (engOk_next ok t)

/-- transaction ids only grow; while the id stays the same the reach set stays the same -/
theorem engRun_txid {e : EngCS} (ok : EngOk e) (ts : List TxnE) :
    e.f.txid ≤ (engRun e ts).f.txid ∧ ((engRun e ts).f.txid = e.f.txid → engReach (engRun e ts) = engReach e) := by
  induction ts generalizing e with
  | nil => exact ⟨Nat.le_refl _, fun _ => rfl⟩
  | cons t ts ih =>
    rw [engRun_cons]
    obtain ⟨i1, i2⟩ := ih (engOk_next ok t)
    by_cases hc : t.t.commits (e.f, e.live)
    · obtain ⟨-, htx, -⟩ := engOk_next_commit ok t hc
      exact ⟨by omega, fun h => by omega⟩
    · obtain ⟨-, hr, htx, -⟩ := engOk_next_abort ok t hc
      refine ⟨by omega, fun h => ?_⟩
      rw [i2 (by omega), hr]

/-- `reachOf` gives the reach set of every committed state of the history -/
def HistReachOK (reachOf : Nat → List (Nat × Hash)) (e : EngCS) (ts : List TxnE) : Prop :=
  ∀ k, k ≤ ts.length → reachOf (engRun e (ts.take k)).f.txid = engReach (engRun e (ts.take k))

/-- **`histReach` is the reach set of the committed states**: for the state after the first `k` transactions
    of the history, `histReach` at its transaction id is its reach set -/
theorem histReach_spec {e : EngCS} (ok : EngOk e) (ts : List TxnE) : HistReachOK (histReach e ts) e ts := by
  induction ts generalizing e with
  | nil =>
    intro k _
    simp only [List.take_nil]
    show histReach e [] e.f.txid = engReach e
    simp [histReach]
  | cons t ts ih =>
    intro k hk
    cases k with
    | zero =>
      show histReach e (t :: ts) e.f.txid = engReach e
      simp [histReach]
    | succ k =>
      simp only [List.take_succ_cons, engRun_cons]
      have hk' : k ≤ ts.length := by simp only [List.length_cons] at hk; omega
      have ok1 := engOk_next ok t
      obtain ⟨m1, m2⟩ := engRun_txid ok1 (ts.take k)
      unfold histReach
      by_cases heq : (engRun (engNext e t) (ts.take k)).f.txid = e.f.txid
      · rw [if_pos heq]
        by_cases hc : t.t.commits (e.f, e.live)
        · obtain ⟨-, htx, -⟩ := engOk_next_commit ok t hc
          omega
        · obtain ⟨-, hr, htx, -⟩ := engOk_next_abort ok t hc
          rw [m2 (by omega), hr]
      · rw [if_neg heq]
        exact ih ok1 k hk'

/-- the trace of a history is accepted from any configuration that represents its first state, under any
    `reachOf` that gives the reach sets of its committed states -/
theorem et_history_accepted (reachOf : Nat → List (Nat × Hash)) (ts : List TxnE) : ∀ (e : EngCS) (c : Cfg),
    EngOk e → EngRep e c → HistReachOK reachOf e ts →
    ∃ c', c.run reachOf (histTrace e ts) = some c' ∧ EngRep (engRun e ts) c' := by
  induction ts with
  | nil => intro e c _ rep _; exact ⟨c, rfl, rep⟩
  | cons t ts ih =>
    intro e c ok rep hr
    have h0 : reachOf e.f.txid = engReach e := hr 0 (Nat.zero_le _)
    have h1 : reachOf (engNext e t).f.txid = engReach (engNext e t) := by
      have := hr 1 (by simp)
      simpa [engRun, List.take] using this
    obtain ⟨c1, r1, rep1⟩ := et_txn_accepted reachOf ok c rep t h0 h1
    have hr1 : HistReachOK reachOf (engNext e t) ts := by
      intro k hk
      have := hr (k + 1) (by simp only [List.length_cons]; omega)
      simpa only [List.take_succ_cons, engRun_cons] using this
    obtain ⟨c2, r2, rep2⟩ := ih (engNext e t) c1 (engOk_next ok t) rep1 hr1
    exact ⟨c2, cfgRun_append_some reachOf _ _ _ _ _ r1 r2, rep2⟩

/-! ### which states a configuration can name -/

/-- the state `st` is the committed one, the one in flight, or named by a header of the trace -/
def Named (c : Cfg) (tr : List TOp) (st : Nat) : Prop :=
  st = c.aSt ∨ c.inflight = some st ∨ ∃ s t, TOp.hdr s t st ∈ tr

theorem named_step (reachOf : Nat → List (Nat × Hash)) (c c1 : Cfg) (op : TOp) (tr : List TOp)
    (h : c.step reachOf op = some c1) (x : Nat) (hx : Named c1 tr x) : Named c (op :: tr) x := by
  have hmem : (∃ s t, TOp.hdr s t x ∈ tr) → Named c (op :: tr) x := by
    rintro ⟨s, t, hm⟩; exact Or.inr (Or.inr ⟨s, t, List.mem_cons_of_mem _ hm⟩)
  cases op with
  | write p hh =>
    simp only [Cfg.step] at h
    split at h
    · cases h
      rcases hx with h1 | h1 | h1
      · exact Or.inl h1
      · exact Or.inr (Or.inl h1)
      · exact hmem h1
    · cases h
  | trunc n =>
    simp only [Cfg.step] at h
    split at h
    · cases h
      rcases hx with h1 | h1 | h1
      · exact Or.inl h1
      · exact Or.inr (Or.inl h1)
      · exact hmem h1
    · cases h
  | hdr s t st =>
    simp only [Cfg.step] at h
    split at h
    · cases h
      rcases hx with h1 | h1 | h1
      · exact Or.inl h1
      · simp only [Option.some.injEq] at h1
        subst h1
        exact Or.inr (Or.inr ⟨s, t, List.mem_cons_self⟩)
      · exact hmem h1
    · cases h
  | sync =>
    simp only [Cfg.step] at h
    cases hi : c.inflight with
    | none =>
      rw [hi] at h; cases h
      rcases hx with h1 | h1 | h1
      · exact Or.inl h1
      · simp at h1
      · exact hmem h1
    | some st0 =>
      rw [hi] at h; cases h
      rcases hx with h1 | h1 | h1
      · exact Or.inr (Or.inl (by rw [h1]; exact hi))
      · simp at h1
      · exact hmem h1

theorem run_named (reachOf : Nat → List (Nat × Hash)) (tr : List TOp) : ∀ c c' : Cfg,
    c.run reachOf tr = some c' → Named c tr c'.aSt ∧ ∀ st, c'.inflight = some st → Named c tr st := by
  induction tr with
  | nil =>
    intro c c' h
    simp [Cfg.run] at h; subst h
    exact ⟨Or.inl rfl, fun st hs => Or.inr (Or.inl hs)⟩
  | cons op tr ih =>
    intro c c' h
    simp only [Cfg.run] at h
    cases hs : c.step reachOf op with
    | none => rw [hs] at h; cases h
    | some c1 =>
      rw [hs] at h
      obtain ⟨i1, i2⟩ := ih c1 c' h
      exact ⟨named_step reachOf c c1 op tr hs _ i1, fun st hst => named_step reachOf c c1 op tr hs _ (i2 st hst)⟩

/-- a header in flight was in flight before or was written by the trace -/
theorem run_inflight (reachOf : Nat → List (Nat × Hash)) (tr : List TOp) : ∀ c c' : Cfg,
    c.run reachOf tr = some c' → ∀ st, c'.inflight = some st → c.inflight = some st ∨ ∃ s t, TOp.hdr s t st ∈ tr := by
  induction tr with
  | nil =>
    intro c c' h st hst
    simp [Cfg.run] at h; subst h
    exact Or.inl hst
  | cons op tr ih =>
    intro c c' h st hst
    simp only [Cfg.run] at h
    cases hs : c.step reachOf op with
    | none => rw [hs] at h; cases h
    | some c1 =>
      rw [hs] at h
      rcases ih c1 c' h st hst with h1 | ⟨s, t, hm⟩
      · cases op with
        | write p hh =>
          simp only [Cfg.step] at hs
          split at hs
          · cases hs; exact Or.inl h1
          · cases hs
        | trunc n =>
          simp only [Cfg.step] at hs
          split at hs
          · cases hs; exact Or.inl h1
          · cases hs
        | hdr s t st' =>
          simp only [Cfg.step] at hs
          split at hs
          · cases hs
            simp only [Option.some.injEq] at h1
            subst h1
            exact Or.inr ⟨s, t, List.mem_cons_self⟩
          · cases hs
        | sync =>
          simp only [Cfg.step] at hs
          cases hi : c.inflight with
          | none => rw [hi] at hs; cases hs; simp at h1
          | some st0 => rw [hi] at hs; cases hs; simp at h1
      · exact Or.inr ⟨s, t, List.mem_cons_of_mem _ hm⟩

theorem run_named_inflight (reachOf : Nat → List (Nat × Hash)) (tr : List TOp) (c c' : Cfg)
    (h : c.run reachOf tr = some c') (hi : c.inflight = none) (st : Nat) (hst : c'.inflight = some st) :
    ∃ s t, TOp.hdr s t st ∈ tr := by
  rcases run_inflight reachOf tr c c' h st hst with h1 | h1
  · rw [hi] at h1; cases h1
  · exact h1

/-- the only header in the trace of a transaction is that of its commit; it names the next committed state
    by its transaction id -/
theorem engTrace_hdr {e : EngCS} (ok : EngOk e) (t : TxnE) (s tx st : Nat)
    (hm : TOp.hdr s tx st ∈ engTrace e t) :
    t.t.commits (e.f, e.live) ∧ st = (engNext e t).f.txid ∧ tx = st := by
  by_cases hc : t.t.commits (e.f, e.live)
  · obtain ⟨W, cf⟩ := et_commit_facts ok t hc
    rw [cf.trace] at hm
    have hF : (runTxnO (e.f, e.live) t.t).1 = (engNext e t).f := by rw [engNext_of_commits e t hc]
    rcases List.mem_append.mp hm with hm | hm
    · rcases List.mem_append.mp hm with hm | hm
      · obtain ⟨w, h, e1, -⟩ := cf.free _ hm
        cases e1
      · simp only [List.mem_cons, List.not_mem_nil, or_false] at hm
        rcases hm with hm | hm | hm
        · cases hm
        · simp only [TOp.hdr.injEq] at hm
          obtain ⟨-, h2, h3⟩ := hm
          rw [← hF]
          exact ⟨hc, h3, h2.trans h3.symm⟩
        · cases hm
    · cases ht : t.trunc with
      | none => rw [ht] at hm; cases hm
      | some n =>
        rw [ht] at hm
        simp only [truncT, List.mem_singleton] at hm
        cases hm
  · obtain ⟨hclear, -, -, -⟩ := et_abort_facts ok t hc
    have := hclear _ hm
    simp [ClearOf] at this

/-- every header in the trace of a history names the committed state after some number of its transactions -/
theorem histTrace_hdr (ts : List TxnE) : ∀ {e : EngCS}, EngOk e → ∀ (s tx st : Nat),
    TOp.hdr s tx st ∈ histTrace e ts → ∃ j, j ≤ ts.length ∧ st = (engRun e (ts.take j)).f.txid := by
  induction ts with
  | nil => intro e _ s tx st hm; cases hm
  | cons t ts ih =>
    intro e ok s tx st hm
    unfold histTrace at hm
    rcases List.mem_append.mp hm with hm | hm
    · obtain ⟨-, h2, -⟩ := engTrace_hdr ok t s tx st hm
      exact ⟨1, by simp, by simpa [engRun, List.take] using h2⟩
    · obtain ⟨j, hj, h2⟩ := ih (engOk_next ok t) s tx st hm
      exact ⟨j + 1, by simp only [List.length_cons]; omega, by simpa only [List.take_succ_cons, engRun_cons] using h2⟩

/-! ### a committed state of the model as a starting point -/

theorem engOk_ofFile (f : FileSt) (live : List Nat) (slot : Nat) (he : EngInvU f live) (hs : slot ≤ 1) :
    EngOk (EngCS.ofFile f live slot) := by
  have hnd := he.intNodup
  unfold FileSt.internal at hnd
  rw [List.nodup_append, List.nodup_append] at hnd
  obtain ⟨⟨-, -, hvw⟩, -, hvf⟩ := hnd
  refine ⟨he, hs, fun _ h => h, ?_, ?_, ?_⟩
  · intro id hid
    show engImg f f.flHash (f.physOf id) = some (f.readPage id).hash
    have hnw : f.physOf id ∉ f.walPages ∧ f.physOf id ∉ f.alloc.freelistPages := by
      cases hg : Assoc.get? f.walMap id with
      | none =>
        rw [physOf_none f id hg]
        constructor
        · intro hc; exact (he.intOk id ((mem_internal f id).mpr (Or.inr (Or.inl hc)))).2 hid
        · intro hc; exact (he.intOk id ((mem_internal f id).mpr (Or.inr (Or.inr hc)))).2 hid
      | some w =>
        rw [physOf_some f id w hg]
        have hv : w ∈ f.walMap.map (·.2) := List.mem_map.mpr ⟨(id, w), Assoc.mem_of_get? _ _ _ hg, rfl⟩
        constructor
        · intro hc; exact hvw w hv w hc rfl
        · intro hc; exact hvf w (List.mem_append_left _ hv) w hc rfl
    unfold engImg
    simp only [hnw.1, hnw.2, if_false]
    rfl
  · intro p hp
    show engImg f f.flHash p = _
    have hp' : p ∈ f.walPages := hp
    unfold engImg
    simp only [hp', if_true]
    rfl
  · intro p hp0
    show engImg f f.flHash p = _
    have hp : p ∈ f.alloc.freelistPages := hp0
    have hnw : p ∉ f.walPages := fun hc => hvf p (List.mem_append_right _ hc) p hp rfl
    unfold engImg
    simp only [hnw, hp, if_false, if_true]
    rfl

/-- the configuration of a committed state is a safe starting point of the crash model -/
theorem engCfg_safe (reachOf : Nat → List (Nat × Hash)) {e : EngCS} (ok : EngOk e)
    (h0 : reachOf e.f.txid = engReach e) : Safe reachOf e.cfg := by
  have hs := ok.slot
  refine ⟨hs, by simp [EngCS.cfg], ?_, ?_, ?_, ?_⟩
  · intro t s h
    have hne : ¬ (1 - e.slot = e.slot) := by omega
    simp [EngCS.cfg, hne] at h
  · intro p h hm
    show e.pages p = some h
    have hm' : (p, h) ∈ reachOf e.f.txid := hm
    rw [h0] at hm'
    exact engReach_intact ok p h hm'
  · intro _ op hop; simp [EngCS.cfg] at hop
  · intro st hst; simp [EngCS.cfg] at hst

end TxVerif.LT
