/-
  PORT of Proofs/EngineTraceD.lean to the lifetime invariant `EngInvU` (namespace `TxVerif.LT`; the lemmas of
  namespace `Ov` replaced by those of namespace `U`, Proofs/Lifetime*.lean). Original header:
-/
/-
  Lemmas for C01 over the engine model, part D: one transaction. The shape of its trace (writes to free
  pages, then - only if it commits - the internal pages, sync, header, sync), the invariant `EngOk` of the
  committed states with their ghost data, the relation `EngRep` between a committed state and a
  configuration of the acceptor, and the acceptance of the trace of one transaction.
-/
import TxVerif.Proofs.LifeTraceT
namespace TxVerif.LT

/-- facts about the committed state `F'` a committing transaction produces -/
structure EtTxnOk (s : FileSt × List Nat) (t : TxnO) : Prop where
  txid : (runTxnO s t).1.txid = s.1.txid + 1
  walNew : (txnFlags s t).1 = true → ∀ x ∈ (runTxnO s t).1.walPages, ¬ InUse s.1.alloc x
  flNew : (txnFlags s t).2 = true → ∀ x ∈ (runTxnO s t).1.alloc.freelistPages, ¬ InUse s.1.alloc x
  walOld : (txnFlags s t).1 = false →
    (runTxnO s t).1.walPages = s.1.walPages ∧ (runTxnO s t).1.walMap = s.1.walMap
  flOld : (txnFlags s t).2 = false → (runTxnO s t).1.alloc.freelistPages = s.1.alloc.freelistPages

/-- the transaction wrote the page `id`: after its final flush the page is dirty -/
def TxnDirty (s : FileSt × List Nat) (t : TxnO) (id : Nat) : Prop :=
  ∃ f2 tx2 ws p, flushList (t.run s).f (t.run s).tx t.order = .ok (f2, tx2, ws) ∧
    Assoc.get? tx2.pages id = some p ∧ p.dirty = true

/-- the shape of the trace of one transaction: writes to pages the committed state does not depend on,
    followed - exactly if the transaction commits - by the end of the commit -/
theorem et_txn_shape (s : FileSt × List Nat) (he : EngInvU s.1 s.2) (slot : Nat) (t : TxnO)
    (pg : Nat → Option Hash) (D : List Nat) :
    ∃ W, EtAllFree s.1 s.2 W ∧
      ((¬ t.commits s ∧ txnTraceCore slot s t = W) ∨
       (t.commits s ∧ txnTraceCore slot s t = W ++ commitTailF slot (txnFlags s t) (runTxnO s t).1 ∧
         EtSync pg s.1 (tracePages W pg) (runTxnO s t).1 ∧ EtTxnOk s t ∧
         ((∀ id ∈ D, InSync pg s.1 (s.1.physOf id)) → ∀ id ∈ (runTxnO s t).2, (id ∈ D ∨ TxnDirty s t id) →
           InSync (tracePages W pg) (runTxnO s t).1 ((runTxnO s t).1.physOf id)))) := by
  have hr := U.runinv_ops he t.ops _ (runInvU_start s.1 s.2 he t.overflow t.growPct t.walLimit)
  obtain ⟨a1, a2⟩ := et_ops he t.ops _ pg (runInvU_start s.1 s.2 he t.overflow t.growPct t.walLimit)
  have b1 := et_flushListT_free he t.order (t.run s).f (t.run s).tx hr.tx
  have hh0 : SameHdr s.1 (t.run s).f := runOps_hdr t.ops (ERunSt.start s.1 s.2 t.overflow t.growPct t.walLimit)
  unfold txnTraceCore
  cases hfl : flushList (t.run s).f (t.run s).tx t.order with
  | error e =>
    refine ⟨_, etAllFree_append a1 b1, Or.inl ⟨?_, by simp⟩⟩
    rintro ⟨f2, tx2, ws, h1, -⟩
    rw [hfl] at h1; cases h1
  | ok r =>
    obtain ⟨f2, tx2, ws⟩ := r
    dsimp only
    obtain ⟨h2, -⟩ := U.txinv_flushList he t.order _ _ hr.tx f2 tx2 ws hfl
    have b2 := et_flushListT_sync he t.order (t.run s).f (t.run s).tx
      (tracePages (opsTrace (ERunSt.start s.1 s.2 t.overflow t.growPct t.walLimit) t.ops) pg) hr.tx f2 tx2 ws hfl
    by_cases hall : tx2.unflushed = []
    · simp only [hall, if_true]
      obtain ⟨c1, c2⟩ := et_cPhase1 he h2
        (tracePages (flushListT (t.run s).f (t.run s).tx t.order)
          (tracePages (opsTrace (ERunSt.start s.1 s.2 t.overflow t.growPct t.walLimit) t.ops) pg))
      unfold commitT
      by_cases hok : (commitAfterFlush f2 tx2).2.1 = .ok
      · simp only [hok, if_true]
        refine ⟨_, etAllFree_append (etAllFree_append a1 b1) c1, Or.inr ⟨⟨f2, tx2, ws, hfl, hall, hok⟩, ?_, ?_, ?_, ?_⟩⟩
        · have hfg : txnFlags s t = commitFlags f2 tx2 := by unfold txnFlags; rw [hfl]
          rw [hfg, runTxnO_of_commits s t f2 tx2 ws hfl hall hok]
          simp only [List.append_assoc]
        · rw [runTxnO_of_commits s t f2 tx2 ws hfl hall hok, tracePages_append, tracePages_append]
          exact etSync_trans (etSync_trans a2 b2) c2
        · have hfg : txnFlags s t = commitFlags f2 tx2 := by unfold txnFlags; rw [hfl]
          have ck := et_commit_ok he h2 (allFlushed_of_unflushed tx2 hall) hok
          have hh : SameHdr s.1 (cPhase1 f2 tx2).1 :=
            sameHdr_trans (sameHdr_trans hh0 (flushList_hdr t.order _ _ _ _ _ hfl)) (et_cPhase1_hdr f2 tx2)
          have hrt := runTxnO_of_commits s t f2 tx2 ws hfl hall hok
          refine ⟨?_, ?_, ?_, ?_, ?_⟩
          · rw [hrt]; show (commitAfterFlush f2 tx2).1.txid = _; rw [ck.txid, hh.2.1]
          · rw [hfg, hrt]; exact ck.walNew
          · rw [hfg, hrt]; exact ck.flNew
          · rw [hfg, hrt]; exact ck.walOld
          · rw [hfg, hrt]; exact ck.flOld
        · intro hD id hid hcase
          have hrt := runTxnO_of_commits s t f2 tx2 ws hfl hall hok
          rw [hrt] at hid ⊢
          have t0 := etTrack_start s.1 D pg s.2 t.overflow t.growPct t.walLimit hD
          have t1 := etTrack_ops he t.ops _ pg (runInvU_start s.1 s.2 he t.overflow t.growPct t.walLimit) t0
          have t2 := etTrack_flushList t.order _ _ _ t1 f2 tx2 ws hfl
          have hcase2 : id ∈ D ∨ ∃ p, Assoc.get? tx2.pages id = some p ∧ p.dirty = true := by
            rcases hcase with h | ⟨f2', tx2', ws', p, e1, e2, e3⟩
            · exact Or.inl h
            · rw [hfl] at e1
              simp only [Except.ok.injEq, Prod.mk.injEq] at e1
              obtain ⟨-, rfl, -⟩ := e1
              exact Or.inr ⟨p, e2, e3⟩
          have := etTrack_commit he h2 (allFlushed_of_unflushed tx2 hall) hok t2 id hid hcase2
          rw [tracePages_append, tracePages_append]
          exact this
      · simp only [hok, if_false, List.append_nil]
        refine ⟨_, etAllFree_append (etAllFree_append a1 b1) c1, Or.inl ⟨?_, rfl⟩⟩
        rintro ⟨f2', tx2', ws', h1, -, h3⟩
        rw [hfl] at h1
        simp only [Except.ok.injEq, Prod.mk.injEq] at h1
        obtain ⟨rfl, rfl, -⟩ := h1
        exact hok h3
    · simp only [hall, if_false, List.append_nil]
      refine ⟨_, etAllFree_append a1 b1, Or.inl ⟨?_, rfl⟩⟩
      rintro ⟨f2', tx2', ws', h1, h3, -⟩
      rw [hfl] at h1
      simp only [Except.ok.injEq, Prod.mk.injEq] at h1
      obtain ⟨rfl, rfl, -⟩ := h1
      exact hall h3

/-! ### committed states with ghost data -/

/-- invariant of a committed state with its ghost data: the engine invariant, and the file holds what the
    reach set says (defined pages at their physical page, mapping pages, free-list pages) -/
structure EngOk (e : EngCS) : Prop where
  inv : EngInvU e.f e.live
  slot : e.slot ≤ 1
  sub : ∀ id ∈ e.dfn, id ∈ e.live
  data : ∀ id ∈ e.dfn, e.pages (e.f.physOf id) = some (e.f.readPage id).hash
  wal : ∀ p ∈ e.f.walPages, e.pages p = some (mapHash e.f.walMap)
  fl : ∀ p ∈ e.f.alloc.freelistPages, e.pages p = some e.flh

theorem engReach_mem (e : EngCS) (p : Nat) (h : Hash) :
    (p, h) ∈ engReach e ↔
      (∃ id ∈ e.dfn, p = e.f.physOf id ∧ h = (e.f.readPage id).hash) ∨
      (p ∈ e.f.walPages ∧ h = mapHash e.f.walMap) ∨ (p ∈ e.f.alloc.freelistPages ∧ h = e.flh) := by
  unfold engReach
  simp only [List.mem_append, List.mem_map, Prod.mk.injEq]
  constructor
  · rintro ((⟨id, hid, rfl, rfl⟩ | ⟨q, hq, rfl, rfl⟩) | ⟨q, hq, rfl, rfl⟩)
    · exact Or.inl ⟨id, hid, rfl, rfl⟩
    · exact Or.inr (Or.inl ⟨hq, rfl⟩)
    · exact Or.inr (Or.inr ⟨hq, rfl⟩)
  · rintro (⟨id, hid, rfl, rfl⟩ | ⟨hq, rfl⟩ | ⟨hq, rfl⟩)
    · exact Or.inl (Or.inl ⟨id, hid, rfl, rfl⟩)
    · exact Or.inl (Or.inr ⟨p, hq, rfl, rfl⟩)
    · exact Or.inr ⟨p, hq, rfl, rfl⟩

theorem engReach_pages_mem (e : EngCS) (p : Nat) :
    p ∈ reachPages (engReach e) ↔
      (∃ id ∈ e.dfn, p = e.f.physOf id) ∨ p ∈ e.f.walPages ∨ p ∈ e.f.alloc.freelistPages := by
  unfold reachPages
  rw [List.mem_map]
  constructor
  · rintro ⟨⟨q, h⟩, hm, rfl⟩
    rcases (engReach_mem e q h).mp hm with ⟨id, hid, e1, -⟩ | ⟨hq, -⟩ | ⟨hq, -⟩
    · exact Or.inl ⟨id, hid, e1⟩
    · exact Or.inr (Or.inl hq)
    · exact Or.inr (Or.inr hq)
  · rintro (⟨id, hid, rfl⟩ | hq | hq)
    · exact ⟨(_, _), (engReach_mem e _ _).mpr (Or.inl ⟨id, hid, rfl, rfl⟩), rfl⟩
    · exact ⟨(_, _), (engReach_mem e _ _).mpr (Or.inr (Or.inl ⟨hq, rfl⟩)), rfl⟩
    · exact ⟨(_, _), (engReach_mem e _ _).mpr (Or.inr (Or.inr ⟨hq, rfl⟩)), rfl⟩

/-- the file of a committed state holds its reach set -/
theorem engReach_intact {e : EngCS} (ok : EngOk e) (p : Nat) (h : Hash) (hm : (p, h) ∈ engReach e) :
    e.pages p = some h := by
  rcases (engReach_mem e p h).mp hm with ⟨id, hid, rfl, rfl⟩ | ⟨hq, rfl⟩ | ⟨hq, rfl⟩
  · exact ok.data id hid
  · exact ok.wal p hq
  · exact ok.fl p hq

/-- the pages of the reach set are in use, and none of them is an owned page that is read through the
    mapping -/
theorem engReach_inUse {e : EngCS} (ok : EngOk e) (p : Nat) (hp : p ∈ reachPages (engReach e)) :
    InUse e.f.alloc p ∧ (p ∈ e.live → Assoc.get? e.f.walMap p = none) := by
  rcases (engReach_pages_mem e p).mp hp with ⟨id, hid, rfl⟩ | hq | hq
  · have hl := ok.sub id hid
    obtain ⟨u1, u2⟩ := U.eng_phys e.f e.live ok.inv id hl
    refine ⟨u1, fun hpl => ?_⟩
    have e1 := u2 hpl
    rw [e1]
    cases hg : Assoc.get? e.f.walMap id with
    | none => rfl
    | some w =>
      rw [physOf_some e.f id w hg] at e1
      exact absurd (e1 ▸ hl) (U.eng_val e.f e.live ok.inv id w hg).2.2
  · have := ok.inv.intOk p ((mem_internal e.f p).mpr (Or.inr (Or.inl hq)))
    exact ⟨this.1, fun hl => absurd hl this.2⟩
  · have := ok.inv.intOk p ((mem_internal e.f p).mpr (Or.inr (Or.inr hq)))
    exact ⟨this.1, fun hl => absurd hl this.2⟩

theorem etFree_clear {e : EngCS} (ok : EngOk e) (w : Nat) (hf : EtFree e.f e.live w) :
    w ∉ reachPages (engReach e) := by
  intro hp
  obtain ⟨u1, u2⟩ := engReach_inUse ok w hp
  rcases hf with h | ⟨hl, v, hv⟩
  · exact h u1
  · rw [u2 hl] at hv; cases hv

theorem etAllFree_clear {e : EngCS} (ok : EngOk e) (W : List TOp) (hW : EtAllFree e.f e.live W) :
    ∀ op ∈ W, ClearOf (engReach e) op := by
  intro op hop
  obtain ⟨w, h, rfl, hf⟩ := hW op hop
  exact etFree_clear ok w hf

/-- writes to free pages leave the pages of the reach set alone -/
theorem etAllFree_pages {e : EngCS} (ok : EngOk e) (W : List TOp) (hW : EtAllFree e.f e.live W)
    (pg : Nat → Option Hash) (p : Nat) (hp : p ∈ reachPages (engReach e)) : tracePages W pg p = pg p := by
  apply tracePages_other
  intro op hop
  obtain ⟨w, h, rfl, hf⟩ := hW op hop
  simp only [opHits]
  intro e1
  exact etFree_clear ok w hf (e1 ▸ hp)

/-! ### the step of a history -/

theorem engNext_of_not_commits (e : EngCS) (t : TxnE) (h : ¬ t.t.commits (e.f, e.live)) :
    engNext e t = { e with f := (runTxnO (e.f, e.live) t.t).1, live := (runTxnO (e.f, e.live) t.t).2,
                           pages := tracePages (engTrace e t) e.pages } := by
  have : t.t.commitsB (e.f, e.live) = false := by
    cases hb : t.t.commitsB (e.f, e.live) with
    | false => rfl
    | true => exact absurd ((commits_iff _ _).mpr hb) h
  unfold engNext
  simp only [this, Bool.false_eq_true, if_false]

theorem engNext_of_commits (e : EngCS) (t : TxnE) (h : t.t.commits (e.f, e.live)) :
    engNext e t =
      { f := (runTxnO (e.f, e.live) t.t).1, live := (runTxnO (e.f, e.live) t.t).2, slot := 1 - e.slot,
        dfn := (runTxnO (e.f, e.live) t.t).2.filter (fun id =>
          tracePages (engTrace e t) e.pages ((runTxnO (e.f, e.live) t.t).1.physOf id) ==
            some ((runTxnO (e.f, e.live) t.t).1.readPage id).hash),
        flh := if (txnFlags (e.f, e.live) t.t).2 then (runTxnO (e.f, e.live) t.t).1.flHash else e.flh,
        pages := tracePages (engTrace e t) e.pages } := by
  have : t.t.commitsB (e.f, e.live) = true := (commits_iff _ _).mp h
  unfold engNext
  simp only [this, if_true]

/-- the truncate at the end of a transaction stays above everything in use -/
theorem truncT_pages (F' : FileSt) (o : Option Nat) (pg : Nat → Option Hash) (p : Nat)
    (hp : p < F'.alloc.mta.endMarker) : tracePages (truncT F' o) pg p = pg p := by
  cases o with
  | none => rfl
  | some n =>
    simp only [truncT, tracePages, List.foldl_cons, List.foldl_nil, applyPg]
    have : ¬ (max n (max F'.alloc.data.endMarker F'.alloc.mta.endMarker) ≤ p) := by omega
    simp [this]

theorem truncT_pages_some (F' : FileSt) (o : Option Nat) (pg : Nat → Option Hash) (p : Nat) (h : Hash)
    (hp : tracePages (truncT F' o) pg p = some h) : pg p = some h := by
  cases o with
  | none => exact hp
  | some n =>
    simp only [truncT, tracePages, List.foldl_cons, List.foldl_nil, applyPg] at hp
    split at hp
    · cases hp
    · exact hp

theorem truncT_clear (F' : FileSt) (o : Option Nat) (reach : List (Nat × Hash))
    (h : ∀ p ∈ reachPages reach, p < F'.alloc.mta.endMarker) : ∀ op ∈ truncT F' o, ClearOf reach op := by
  cases o with
  | none => intro op hop; cases hop
  | some n =>
    intro op hop
    simp only [truncT, List.mem_singleton] at hop
    subst hop
    simp only [ClearOf]
    intro p hp
    have := h p hp
    omega

theorem inUse_lt_mEnd {a : Alloc} {x : Nat} (h : InUse a x) : x < a.mta.endMarker := h.2.2.1

/-! ### a transaction that does not commit -/

/-- what is known about a transaction that does not commit: its trace consists of writes and a truncate
    that are clear of the committed state, the committed state is restored -/
theorem et_abort_facts {e : EngCS} (ok : EngOk e) (t : TxnE) (hn : ¬ t.t.commits (e.f, e.live)) :
    (∀ op ∈ engTrace e t, ClearOf (engReach e) op) ∧
    (∀ p ∈ reachPages (engReach e), tracePages (engTrace e t) e.pages p = e.pages p) ∧
    RestoredU e.f e.live (runTxnO (e.f, e.live) t.t).1 ∧ (runTxnO (e.f, e.live) t.t).2 = e.live := by
  obtain ⟨r1, r2, -⟩ := runTxnO_of_not_commitsU (e.f, e.live) ok.inv t.t hn
  obtain ⟨W, hW, ⟨-, htr⟩ | ⟨hc, -⟩⟩ := et_txn_shape (e.f, e.live) ok.inv e.slot t.t e.pages []
  · have hlt : ∀ p ∈ reachPages (engReach e), p < (runTxnO (e.f, e.live) t.t).1.alloc.mta.endMarker := by
      intro p hp
      rw [r1.1]
      exact inUse_lt_mEnd (engReach_inUse ok p hp).1
    refine ⟨?_, ?_, r1, r2⟩
    · intro op hop
      unfold engTrace at hop
      rw [htr] at hop
      rcases List.mem_append.mp hop with h | h
      · exact etAllFree_clear ok W hW op h
      · exact truncT_clear _ _ _ hlt op h
    · intro p hp
      unfold engTrace
      rw [htr, tracePages_append, truncT_pages _ _ _ _ (hlt p hp)]
      exact etAllFree_pages ok W hW e.pages p hp
  · exact absurd hc hn

theorem physOf_congr (f f' : FileSt) (h : f'.walMap = f.walMap) (id : Nat) : f'.physOf id = f.physOf id := by
  unfold FileSt.physOf; rw [h]

theorem engOk_next_abort {e : EngCS} (ok : EngOk e) (t : TxnE) (hn : ¬ t.t.commits (e.f, e.live)) :
    EngOk (engNext e t) ∧ engReach (engNext e t) = engReach e ∧ (engNext e t).f.txid = e.f.txid ∧
    (engNext e t).slot = e.slot := by
  obtain ⟨-, hk, r1, r2⟩ := et_abort_facts ok t hn
  obtain ⟨ra, rm, rw_, -, rt, -, -, rr, ri⟩ := r1
  rw [engNext_of_not_commits e t hn]
  have hphys := physOf_congr e.f (runTxnO (e.f, e.live) t.t).1 rm
  refine ⟨⟨?_, ok.slot, ?_, ?_, ?_, ?_⟩, ?_, rt, rfl⟩
  · show EngInvU _ (runTxnO (e.f, e.live) t.t).2
    rw [r2]; exact ri
  · intro id hid
    show id ∈ (runTxnO (e.f, e.live) t.t).2
    rw [r2]; exact ok.sub id hid
  · intro id hid
    show tracePages (engTrace e t) e.pages ((runTxnO (e.f, e.live) t.t).1.physOf id) =
      some ((runTxnO (e.f, e.live) t.t).1.readPage id).hash
    rw [hphys, rr id (ok.sub id hid),
      hk _ ((engReach_pages_mem e _).mpr (Or.inl ⟨id, hid, rfl⟩))]
    exact ok.data id hid
  · intro p hp
    show tracePages (engTrace e t) e.pages p = some (mapHash (runTxnO (e.f, e.live) t.t).1.walMap)
    have hp' : p ∈ e.f.walPages := rw_ ▸ hp
    rw [rm, hk _ ((engReach_pages_mem e _).mpr (Or.inr (Or.inl hp')))]
    exact ok.wal p hp'
  · intro p hp
    show tracePages (engTrace e t) e.pages p = some e.flh
    have hp' : p ∈ e.f.alloc.freelistPages := ra ▸ hp
    rw [hk _ ((engReach_pages_mem e _).mpr (Or.inr (Or.inr hp')))]
    exact ok.fl p hp'
  · unfold engReach
    dsimp only
    rw [rm, rw_, ra]
    congr 2
    apply List.map_congr_left
    intro id hid
    rw [hphys, rr id (ok.sub id hid)]

end TxVerif.LT
