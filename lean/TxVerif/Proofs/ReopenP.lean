/-
  Helper lemmas for C10 with the PRECISE absorb rule (Model/AbsorbP.lean: `FileSt.needAbsorb`,
  `FileSt.absorbP`, `FileSt.reopenP`).

    * bridge to the old rule: `reopenP f = f.reopen` when `needAbsorb f`, `reopenP f = f.ws f.openStat` when not;
      `needAbsorb f` implies the old absorb condition
    * `NoLowMeta f := f.needAbsorb = false` (no meta page in [data end, min(meta end, limit))) is a CONSEQUENCE of
      the invariant of a committed state (`Ov.EngInv`, hence of `EngInv`): every meta page — free meta page,
      free-list page, mapping page, overwrite page — satisfies `x < data.endMarker ∨ maxPages ≤ x` (`InUse`,
      `Ov.WF.metaRange`). So no separate preservation proof is needed: `c03_history` carries it along every
      history with any overflow flags, bounded or not.
    * `absorbP_no_collision`: after `absorbP`, under ANY limit, no meta page lies in [data end, limit).
-/
import TxVerif.Model.AbsorbP
import TxVerif.Proofs.RefineReopenOv
namespace TxVerif

/-! ### `needAbsorb` as a proposition -/

theorem needAbsorb_iff (f : FileSt) :
    f.needAbsorb = true ↔ f.alloc.data.endMarker < f.alloc.mta.endMarker ∧
      ∃ p ∈ f.metaPages, f.alloc.data.endMarker ≤ p ∧ p < f.alloc.mta.endMarker ∧
        (f.alloc.maxPages = 0 ∨ p < f.alloc.maxPages) := by
  unfold FileSt.needAbsorb
  simp only [Bool.and_eq_true, decide_eq_true_eq, List.any_eq_true, Bool.or_eq_true, beq_iff_eq]
  constructor
  · rintro ⟨h1, p, hp, ⟨h2, h3⟩, h4⟩
    exact ⟨h1, p, hp, h2, h3, h4⟩
  · rintro ⟨h1, p, hp, h2, h3, h4⟩
    exact ⟨h1, p, hp, ⟨h2, h3⟩, h4⟩

/-- the precise rule fires only where the old rule (`Alloc.absorbOverflow`) fired -/
theorem needAbsorb_old (f : FileSt) (h : f.needAbsorb = true) :
    f.alloc.data.endMarker < f.alloc.mta.endMarker ∧
    (f.alloc.maxPages = 0 ∨ f.alloc.data.endMarker < f.alloc.maxPages) := by
  obtain ⟨h1, p, -, h2, -, h4⟩ := (needAbsorb_iff f).mp h
  exact ⟨h1, by omega⟩

/-- no meta page lies behind the data end marker and in front of the limit (or anywhere behind it, without
    limit): the precise rule leaves the data end marker alone -/
def NoLowMeta (f : FileSt) : Prop := f.needAbsorb = false

instance (f : FileSt) : Decidable (NoLowMeta f) := by unfold NoLowMeta; exact inferInstance

theorem noLowMeta_iff (f : FileSt) :
    NoLowMeta f ↔ (f.alloc.mta.endMarker ≤ f.alloc.data.endMarker ∨
      ∀ p ∈ f.metaPages, f.alloc.data.endMarker ≤ p → p < f.alloc.mta.endMarker →
        0 < f.alloc.maxPages ∧ f.alloc.maxPages ≤ p) := by
  unfold NoLowMeta
  rw [← Bool.not_eq_true, needAbsorb_iff]
  constructor
  · intro h
    by_cases hd : f.alloc.mta.endMarker ≤ f.alloc.data.endMarker
    · exact Or.inl hd
    · right
      intro p hp h2 h3
      false_or_by_contra
      rename_i hc
      exact h ⟨by omega, p, hp, h2, h3, by omega⟩
  · rintro (h | h) ⟨h1, p, hp, h2, h3, h4⟩
    · omega
    · have := h p hp h2 h3; omega

/-! ### bridge to the old rule -/

theorem absorbP_of_need (f : FileSt) (h : f.needAbsorb = true) :
    f.absorbP = { f with alloc := f.alloc.absorbOverflow } := by
  obtain ⟨h1, h2⟩ := needAbsorb_old f h
  unfold FileSt.absorbP Alloc.absorbOverflow
  rw [if_pos h, if_pos ⟨h1, h2⟩]

theorem absorbP_of_not (f : FileSt) (h : f.needAbsorb = false) : f.absorbP = f := by
  unfold FileSt.absorbP
  rw [h]; rfl

/-- where the precise rule fires, the precise close + open is the old one -/
theorem reopenP_eq_reopen (f : FileSt) (h : f.needAbsorb = true) : f.reopenP = f.reopen := by
  unfold FileSt.reopenP FileSt.reopen
  rw [absorbP_of_need f h]

/-- where it does not fire, close + open only recomputes the statistic -/
theorem reopenP_eq_ws (f : FileSt) (h : NoLowMeta f) : f.reopenP = f.ws f.openStat := by
  unfold FileSt.reopenP FileSt.ws FileSt.openStat
  rw [absorbP_of_not f h]

/-- `reopenP` is one of the two -/
theorem reopenP_cases (f : FileSt) : f.reopenP = f.reopen ∨ f.reopenP = f.ws f.openStat := by
  cases h : f.needAbsorb with
  | true => exact Or.inl (reopenP_eq_reopen f h)
  | false => exact Or.inr (reopenP_eq_ws f h)

/-! ### the invariant implies `NoLowMeta` -/

/-- every meta page of a committed state lies below the meta end marker, and below the data end marker or at /
    beyond the limit -/
theorem metaPages_ok {f : FileSt} {live : List Nat} (he : Ov.EngInv f live) (p : Nat) (hp : p ∈ f.metaPages) :
    p < f.alloc.mta.endMarker ∧ (p < f.alloc.data.endMarker ∨ (0 < f.alloc.maxPages ∧ f.alloc.maxPages ≤ p)) := by
  unfold FileSt.metaPages at hp
  rw [List.mem_append, List.mem_append, List.mem_append] at hp
  have hint : ∀ x ∈ f.internal, x < f.alloc.mta.endMarker ∧
      (x < f.alloc.data.endMarker ∨ (0 < f.alloc.maxPages ∧ f.alloc.maxPages ≤ x)) := by
    intro x hx
    have := (he.intOk x hx).2.1
    exact ⟨this.2.2.1, this.2.2.2⟩
  rcases hp with ((hp | hp) | hp) | hp
  · exact he.wf.metaRange p hp
  · exact hint p ((mem_internal f p).mpr (Or.inr (Or.inr hp)))
  · exact hint p ((mem_internal f p).mpr (Or.inr (Or.inl hp)))
  · exact hint p ((mem_internal f p).mpr (Or.inl hp))

/-- **the invariant of a committed state implies `NoLowMeta`** -/
theorem noLowMeta_of_engInvO {f : FileSt} {live : List Nat} (he : Ov.EngInv f live) : NoLowMeta f := by
  rw [noLowMeta_iff]
  right
  intro p hp h2 _
  have := (metaPages_ok he p hp).2
  omega

/-! ### after `absorbP` the end of the data area is clear of meta pages, under any limit -/

theorem absorbP_metaPages (f : FileSt) : f.absorbP.metaPages = f.metaPages := by
  unfold FileSt.absorbP
  split <;> rfl

/-- **no collision**: after `absorbP` — whatever the page limit is, in particular after it was raised or
    removed — every meta page at or behind the data end marker lies at or beyond the limit. The only
    hypothesis: meta pages lie below the meta end marker (limit independent; `metaPages_ok`). -/
theorem absorbP_no_collision (f : FileSt) (hm : ∀ p ∈ f.metaPages, p < f.alloc.mta.endMarker) :
    ∀ p ∈ f.absorbP.metaPages, f.absorbP.alloc.data.endMarker ≤ p →
      0 < f.absorbP.alloc.maxPages ∧ f.absorbP.alloc.maxPages ≤ p := by
  intro p hp hd
  rw [absorbP_metaPages] at hp
  have hlt := hm p hp
  cases h : f.needAbsorb with
  | true =>
    have e : f.absorbP.alloc.data.endMarker = f.alloc.mta.endMarker := by
      unfold FileSt.absorbP; rw [if_pos h]
    rw [e] at hd; omega
  | false =>
    rw [absorbP_of_not f h] at hd ⊢
    rcases (noLowMeta_iff f).mp h with h1 | h1
    · omega
    · exact h1 p hp hd hlt

end TxVerif
