/-
  Helper lemmas for the refinement of the queue model `PQState` (Model/PQQueue.lean) to the abstract FIFO
  specification `ASpec`: cursor arithmetic of the reader, positions of the event boundaries in the page
  chain, reading one event at its position, ACK planning at explicit positions.
-/
import TxVerif.Model.PQQueue
import TxVerif.Proofs.PQWriter
import TxVerif.Props.C12Ack
namespace TxVerif

/-! ## cursor arithmetic of `readData` -/

/-- cursor movement of reading `n` bytes at page offset `off`: (pages advanced, new offset) -/
def advPos (P : Nat) : Nat → Nat → Nat × Nat
  | off, 0 => (0, off)
  | off, n + 1 =>
    if P - off = 0 then ((advPos P 29 n).1 + 1, (advPos P 29 n).2) else advPos P (off + 1) n

theorem readData_pos (P : Nat) : ∀ (n : Nat) (l : List QPage) (off : Nat) (r : List UInt8 × List QPage × Nat),
    readData P l off n = some r →
    r.2.1 = l.drop (advPos P off n).1 ∧ r.2.2 = (advPos P off n).2 ∧ r.1.length = n := by
  intro n
  induction n with
  | zero =>
    intro l off r h
    simp only [readData, Option.some.injEq] at h
    subst h
    simp [advPos]
  | succ n ih =>
    intro l off r h
    rw [readData] at h
    by_cases h0 : P - off = 0
    · simp only [h0, if_true] at h
      cases hl : l.tail with
      | nil => rw [hl] at h; simp at h
      | cons q qs =>
        rw [hl] at h
        simp only at h
        cases hb : q.payload[28 - 28]? with
        | none => rw [hb] at h; simp at h
        | some b =>
          rw [hb] at h
          simp only [Option.map_eq_some_iff] at h
          obtain ⟨r0, hr0, e⟩ := h
          obtain ⟨i1, i2, i3⟩ := ih (q :: qs) 29 r0 hr0
          subst e
          have hd : l.drop 1 = q :: qs := by rw [← hl]; simp
          simp only [advPos, h0, if_true]
          refine ⟨?_, i2, by simp [i3]⟩
          rw [i1, Nat.add_comm, ← List.drop_drop, hd]
    · simp only [h0, if_false] at h
      cases l with
      | nil => simp at h
      | cons q qs =>
        simp only at h
        cases hb : q.payload[off - 28]? with
        | none => rw [hb] at h; simp at h
        | some b =>
          rw [hb] at h
          simp only [Option.map_eq_some_iff] at h
          obtain ⟨r0, hr0, e⟩ := h
          obtain ⟨i1, i2, i3⟩ := ih (q :: qs) (off + 1) r0 hr0
          subst e
          simp only [advPos, h0, if_false]
          exact ⟨i1, i2, by simp [i3]⟩

/-- reading `a + b` bytes = reading `a` bytes, then `b` bytes at the cursor reached -/
theorem readData_split (P : Nat) : ∀ (a b : Nat) (l : List QPage) (off : Nat),
    readData P l off (a + b) =
      (readData P l off a).bind fun r => (readData P r.2.1 r.2.2 b).map fun r' => (r.1 ++ r'.1, r'.2) := by
  intro a
  induction a with
  | zero =>
    intro b l off
    simp only [Nat.zero_add, readData, Option.bind_some, List.nil_append]
    cases readData P l off b <;> rfl
  | succ a ih =>
    intro b l off
    have e : a + 1 + b = (a + b) + 1 := by omega
    rw [e, readData_succ, readData_succ]
    generalize (if P - off = 0 then l.tail else l) = m
    generalize (if P - off = 0 then 28 else off) = o
    cases m with
    | nil => simp [readStep]
    | cons q qs =>
      simp only [readStep]
      cases q.payload[o - 28]? with
      | none => simp
      | some x =>
        simp only
        rw [ih b (q :: qs) (o + 1)]
        cases readData P (q :: qs) (o + 1) a with
        | none => simp
        | some r =>
          simp only [Option.bind_some, Option.map_some]
          cases readData P r.2.1 r.2.2 b <;> simp

/-- `readEventAt` = `ReadEventHeader`, then the data -/
theorem readEventAt_eq (P : Nat) (pages : List QPage) (o : Nat) :
    readEventAt P pages o = (readHdr pages o).bind fun L => readData P pages (o + 4) L := by
  cases pages with
  | nil => simp [readEventAt, readHdr]
  | cons q qs =>
    simp only [readEventAt, readHdr]
    split <;> simp

theorem advPos_add (P : Nat) : ∀ (a b off : Nat),
    advPos P off (a + b) = ((advPos P off a).1 + (advPos P (advPos P off a).2 b).1, (advPos P (advPos P off a).2 b).2) := by
  intro a
  induction a with
  | zero => intro b off; simp [advPos]
  | succ a ih =>
    intro b off
    have e : a + 1 + b = (a + b) + 1 := by omega
    rw [e]
    simp only [advPos]
    by_cases h0 : P - off = 0
    · simp only [h0, if_true]
      rw [ih b 29]
      simp only [Prod.mk.injEq, and_true]
      omega
    · simp only [h0, if_false]
      exact ih b (off + 1)

/-! ## positions of the event boundaries

  `evs` = all finished events (index = event id); the first `F` of them are flushed.  The chain written for
  the first `k` events is `qW k ++ [qc k]` (`writeEvents` from a fresh page): complete pages and the current
  page.  The boundary in front of event `k` (= behind event `k - 1`) is the end of `qc k`. -/

/-- complete pages after the first `k` events -/
def qW (S : Nat) (evs : List (List UInt8)) (k : Nat) : List QPage := gW S 0 (evs.take k)
/-- current page after the first `k` events -/
def qc (S : Nat) (evs : List (List UInt8)) (k : Nat) : QPage := gc S 0 (evs.take k)
/-- cursor (page index, offset) at the end of event `k - 1` -/
def qpos (S : Nat) (evs : List (List UInt8)) (k : Nat) : Nat × Nat :=
  ((qW S evs k).length, 28 + (qc S evs k).payload.length)
/-- the header of event `k` does not fit behind event `k - 1`: it starts the next page -/
def qpad (S : Nat) (evs : List (List UInt8)) (k : Nat) : Prop := S - (qc S evs k).payload.length < 4

instance (S : Nat) (evs : List (List UInt8)) (k : Nat) : Decidable (qpad S evs k) := by unfold qpad; infer_instance

/-- position of the header of event `k` -/
def qhdr (S : Nat) (evs : List (List UInt8)) (k : Nat) : Nat × Nat :=
  if qpad S evs k then ((qW S evs k).length + 1, 28) else qpos S evs k

theorem take_succ_getElem {α : Type} (l : List α) (k : Nat) (hk : k < l.length) :
    l.take (k + 1) = l.take k ++ [l[k]] := by
  rw [List.take_add_one, List.getElem?_eq_getElem hk]; rfl

theorem qW_succ (S : Nat) (evs : List (List UInt8)) (k : Nat) (hk : k < evs.length) :
    qW S evs (k + 1) = qW S evs k ++ (writeEvent S (qc S evs k) k evs[k]).1 ∧
    qc S evs (k + 1) = (writeEvent S (qc S evs k) k evs[k]).2 := by
  have hl : (evs.take k).length = k := by rw [List.length_take]; omega
  simp only [qW, qc, gW, gc, take_succ_getElem evs k hk, writeEvents_append, hl, Nat.zero_add, writeEvents,
    List.append_nil]
  trivial

theorem qc_len (S : Nat) (h4 : 4 ≤ S) (evs : List (List UInt8)) (k : Nat) : (qc S evs k).payload.length ≤ S :=
  writeEvents_len S h4 _ _ _ (by simp)

theorem qW_mono (S : Nat) (evs : List (List UInt8)) (k : Nat) (hk : k < evs.length) :
    (qW S evs k).length ≤ (qW S evs (k + 1)).length := by
  rw [(qW_succ S evs k hk).1]; simp

/-- the chain on disk for `F` flushed events: the complete pages and the last page, which may hold more
    bytes behind the tail offset -/
def CRel (S : Nat) (evs : List (List UInt8)) (F : Nat) (C : List QPage) : Prop :=
  (F = 0 ∧ C = []) ∨ (0 < F ∧ ∃ p, C = qW S evs F ++ [p] ∧ PExt (qc S evs F) p)

theorem PExt.toExt {c p : QPage} (h : PExt c p) : Ext c p :=
  ⟨h.2.2.2, fun _ => ⟨h.2.2.1, h.1⟩⟩

theorem CRel_of_BufInv (S : Nat) (s : WState) (evs : List (List UInt8)) (cur : List UInt8)
    (h : BufInv S 0 s evs cur) : CRel S evs s.tailId s.persisted := by
  have hv := h.vis
  simp only [Nat.sub_zero] at hv
  have hle := h.tail_le
  by_cases h0 : s.tailId = 0
  · left
    rw [h0] at hv
    have : s.visible = [] := by rw [hv]; simp [layoutS]
    have hl := congrArg List.length this
    simp only [WState.visible, cutAt_length, List.length_nil] at hl
    exact ⟨h0, List.length_eq_zero_iff.mp hl⟩
  · right
    refine ⟨by omega, ?_⟩
    have hne : evs.take s.tailId ≠ [] := by
      intro hh
      have := congrArg List.length hh
      simp only [List.length_take, List.length_nil] at this
      omega
    rw [layoutS_ne S 0 _ hne] at hv
    rcases cutAt_shape s.persisted s.tailOff with ⟨e1, e2⟩ | ⟨xs, p, e1, e2⟩
    · simp only [WState.visible] at hv
      rw [e2] at hv
      simp at hv
    · simp only [WState.visible] at hv
      rw [e2] at hv
      obtain ⟨a, b⟩ := concat_inj hv
      refine ⟨p, by rw [e1, a]; rfl, ?_⟩
      show PExt (gc S 0 (evs.take s.tailId)) p
      rw [← b]
      exact ⟨rfl, rfl, rfl, List.take_prefix _ _⟩

theorem CRel_length (S : Nat) (evs : List (List UInt8)) (F : Nat) (C : List QPage) (h : CRel S evs F C) :
    C.length = if F = 0 then 0 else (qW S evs F).length + 1 := by
  rcases h with ⟨h0, hC⟩ | ⟨h0, p, hC, _⟩
  · simp [h0, hC]
  · have : F ≠ 0 := by omega
    simp [this, hC]

/-- the pages behind the ones completed by `rest`, with an extended last page, start with a later stage of
    the current page -/
theorem writeEvents_head_ext (S : Nat) (rest : List (List UInt8)) (cur : QPage) (id : Nat) (p : QPage)
    (hp : PExt (writeEvents S cur id rest).2 p) :
    ∃ h t, (writeEvents S cur id rest).1 ++ [p] = h :: t ∧ Ext cur h := by
  obtain ⟨h0, t0, e0, hx⟩ := layoutFrom_head S rest cur id
  rw [layoutFrom_eq_writeEvents] at e0
  cases hw : (writeEvents S cur id rest).1 with
  | nil =>
    rw [hw] at e0
    simp only [List.nil_append, List.cons.injEq] at e0
    refine ⟨p, [], rfl, ?_⟩
    rw [← e0.1] at hx
    exact Ext.trans hx hp.toExt
  | cons x xs =>
    rw [hw] at e0
    simp only [List.cons_append, List.cons.injEq] at e0
    refine ⟨x, xs ++ [p], rfl, ?_⟩
    rw [e0.1]; exact hx

/-- the chain from the boundary in front of event `k < F`: the pages of event `k`, then a later stage `h` of
    the page the event ends in -/
theorem chain_at (S : Nat) (evs : List (List UInt8)) (F : Nat) (C : List QPage) (hC : CRel S evs F C)
    (hF : F ≤ evs.length) (k : Nat) (hk : k < F) :
    ∃ h t, C.drop (qW S evs k).length = (writeEvent S (qc S evs k) k (evs[k]'(by omega))).1 ++ h :: t ∧
      Ext (writeEvent S (qc S evs k) k (evs[k]'(by omega))).2 h ∧
      h :: t = C.drop (qW S evs (k + 1)).length := by
  have hkl : k < evs.length := by omega
  rcases hC with ⟨h0, _⟩ | ⟨_, p, hCe, hp⟩
  · omega
  -- evs.take F = evs.take (k+1) ++ rest
  have hsplit : evs.take F = evs.take (k + 1) ++ (evs.take F).drop (k + 1) := by
    have := (List.take_append_drop (k + 1) (evs.take F)).symm
    rwa [List.take_take, Nat.min_eq_left (by omega)] at this
  have hl : (evs.take (k + 1)).length = k + 1 := by rw [List.length_take]; omega
  obtain ⟨s1, s2⟩ := qW_succ S evs k hkl
  have hWF : qW S evs F = qW S evs (k + 1) ++
      (writeEvents S (qc S evs (k + 1)) (k + 1) ((evs.take F).drop (k + 1))).1 := by
    simp only [qW, qc, gW, gc]
    rw [hsplit, writeEvents_append, hl, Nat.zero_add, ← hsplit]
  have hcF : qc S evs F = (writeEvents S (qc S evs (k + 1)) (k + 1) ((evs.take F).drop (k + 1))).2 := by
    simp only [qc, gc]
    rw [hsplit, writeEvents_append, hl, Nat.zero_add, ← hsplit]
  rw [hcF] at hp
  obtain ⟨h, t, e1, hx⟩ := writeEvents_head_ext S _ (qc S evs (k + 1)) (k + 1) p hp
  refine ⟨h, t, ?_, by rw [← s2]; exact hx, ?_⟩
  · rw [hCe, hWF, s1, List.append_assoc, List.append_assoc, List.drop_left, e1]
  · rw [hCe, hWF, List.append_assoc, List.drop_left, e1]

/-! ## reading one event at its boundary -/

/-- `Reader.Next` + `Reader.Read` at the end of the writer's page `cur`, where event `id` = `e` was written:
    the header position (next page, offset 28, if the header did not fit), the size, the bytes and the cursor
    behind them -/
theorem event_read (P S : Nat) (hS : S + 28 = P) (h4 : 4 ≤ S) (cur : QPage) (id : Nat)
    (e : List UInt8) (h : QPage) (t : List QPage) (hlen : cur.payload.length ≤ S) (hsz : e.length < 2 ^ 32)
    (hx : Ext (writeEvent S cur id e).2 h) :
    let L := (writeEvent S cur id e).1 ++ h :: t
    let d := if S - cur.payload.length < 4 then 1 else 0
    let ho := if S - cur.payload.length < 4 then 28 else 28 + cur.payload.length
    nextHdrPosId P L (28 + cur.payload.length) id = some (L.drop d, ho) ∧
    nextHdrPosId P (L.drop d) ho id = some (L.drop d, ho) ∧
    readHdr (L.drop d) ho = some e.length ∧
    readData P (L.drop d) (ho + 4) e.length = some (e, h :: t, 28 + (writeEvent S cur id e).2.payload.length) := by
  intro L d ho
  have hre := readEvent_writeEvent P S hS h4 cur id e h t hlen hsz hx
  have hpos : nextHdrPosId P L (28 + cur.payload.length) id = some (L.drop d, ho) ∧
      nextHdrPos P L (28 + cur.payload.length) = some (L.drop d, ho) := by
    by_cases hp : S - cur.payload.length < 4
    · have hxp := hx
      rw [writeEvent_pad S cur id e hp] at hxp
      obtain ⟨q, qs, e1, hq⟩ := appendData_head S _ e h t hxp
      have hq2 := hq.2 (commitHdr_off_ne _ _ _)
      have hqoff : q.off = 28 := by rw [hq2.1, commitHdr_off_fresh]
      have hqf : q.first = id := by rw [hq2.2]; simp [commitHdr]
      have hL : L = { cur with payload := cur.payload ++ List.replicate (S - cur.payload.length) 0 } :: q :: qs := by
        show (writeEvent S cur id e).1 ++ h :: t = _
        rw [writeEvent_pad S cur id e hp]
        simp only [List.cons_append, e1]
      have hP : P - (28 + cur.payload.length) < 4 := by omega
      simp only [d, ho, hp, if_true]
      rw [hL]
      simp [nextHdrPosId, nextHdrPos, hP, hqoff, hqf]
    · have hP : ¬ (P - (28 + cur.payload.length) < 4) := by omega
      simp only [d, ho, hp, if_false]
      simp [nextHdrPosId, nextHdrPos, hP]
  have hpos2 : nextHdrPosId P (L.drop d) ho id = some (L.drop d, ho) := by
    have : ¬ (P - ho < 4) := by
      simp only [ho]; split <;> omega
    simp [nextHdrPosId, this]
  refine ⟨hpos.1, hpos2, ?_⟩
  have hre' : readEventAt P (L.drop d) ho = some (e, h :: t, 28 + (writeEvent S cur id e).2.payload.length) := by
    have := hre
    rw [readEvent] at this
    change (nextHdrPos P L (28 + cur.payload.length)).bind _ = _ at this
    rw [hpos.2] at this
    exact this
  rw [readEventAt_eq] at hre'
  cases hh : readHdr (L.drop d) ho with
  | none => rw [hh] at hre'; simp at hre'
  | some n =>
    rw [hh] at hre'
    simp only [Option.bind_some] at hre'
    have hn := (readData_pos P n _ _ _ hre').2.2
    simp only at hn
    subst hn
    exact ⟨rfl, hre'⟩

/-- **Reading event `k < F` from the chain on disk**: from the boundary position `qpos k` the reader's page
    advance lands on the header position `qhdr k` (also from `qhdr k` itself), the header holds the size of
    event `k`, and reading the data returns the bytes of event `k` and ends at `qpos (k + 1)`. -/
theorem chain_read (P S : Nat) (hS : S + 28 = P) (h4 : 4 ≤ S) (evs : List (List UInt8)) (F : Nat)
    (C : List QPage) (hC : CRel S evs F C) (hF : F ≤ evs.length) (k : Nat) (hk : k < F)
    (hsz : ∀ e ∈ evs, e.length < 2 ^ 32) :
    nextHdrPosId P (C.drop (qpos S evs k).1) (qpos S evs k).2 k = some (C.drop (qhdr S evs k).1, (qhdr S evs k).2) ∧
    nextHdrPosId P (C.drop (qhdr S evs k).1) (qhdr S evs k).2 k = some (C.drop (qhdr S evs k).1, (qhdr S evs k).2) ∧
    readHdr (C.drop (qhdr S evs k).1) (qhdr S evs k).2 = some (evs[k]'(by omega)).length ∧
    readData P (C.drop (qhdr S evs k).1) ((qhdr S evs k).2 + 4) (evs[k]'(by omega)).length =
      some (evs[k]'(by omega), C.drop (qpos S evs (k + 1)).1, (qpos S evs (k + 1)).2) := by
  have hkl : k < evs.length := by omega
  obtain ⟨h, t, e1, hx, e2⟩ := chain_at S evs F C hC hF k hk
  have := event_read P S hS h4 (qc S evs k) k evs[k] h t (qc_len S h4 evs k) (hsz _ (List.getElem_mem hkl)) hx
  simp only at this
  rw [← e1, List.drop_drop] at this
  have hq2 : (qpos S evs (k + 1)).2 = 28 + (writeEvent S (qc S evs k) k evs[k]).2.payload.length := by
    simp only [qpos]; rw [(qW_succ S evs k hkl).2]
  have hd : (qW S evs k).length + (if S - (qc S evs k).payload.length < 4 then 1 else 0) = (qhdr S evs k).1 := by
    simp only [qhdr, qpad, qpos]; by_cases hp : S - (qc S evs k).payload.length < 4 <;> simp [hp]
  have ho : (if S - (qc S evs k).payload.length < 4 then 28 else 28 + (qc S evs k).payload.length) = (qhdr S evs k).2 := by
    simp only [qhdr, qpad, qpos]; by_cases hp : S - (qc S evs k).payload.length < 4 <;> simp [hp]
  rw [hd, ho, e2, ← hq2] at this
  exact this

/-- the position behind `b` data bytes of event `k` -/
def qmid (P S : Nat) (evs : List (List UInt8)) (k b : Nat) : Nat × Nat :=
  ((qhdr S evs k).1 + (advPos P ((qhdr S evs k).2 + 4) b).1, (advPos P ((qhdr S evs k).2 + 4) b).2)

/-- reading the bytes `b … b + n` of event `k` -/
theorem chain_read_mid (P S : Nat) (hS : S + 28 = P) (h4 : 4 ≤ S) (evs : List (List UInt8)) (F : Nat)
    (C : List QPage) (hC : CRel S evs F C) (hF : F ≤ evs.length) (k : Nat) (hk : k < F)
    (hsz : ∀ e ∈ evs, e.length < 2 ^ 32) (b n : Nat) (hbn : b + n ≤ (evs[k]'(by omega)).length) :
    readData P (C.drop (qmid P S evs k b).1) (qmid P S evs k b).2 n =
      some (((evs[k]'(by omega)).drop b).take n, C.drop (qmid P S evs k (b + n)).1, (qmid P S evs k (b + n)).2) ∧
    qmid P S evs k (evs[k]'(by omega)).length = qpos S evs (k + 1) := by
  have hkl : k < evs.length := by omega
  obtain ⟨_, _, _, hrd⟩ := chain_read P S hS h4 evs F C hC hF k hk hsz
  have hend : qmid P S evs k evs[k].length = qpos S evs (k + 1) := by
    obtain ⟨p1, p2, _⟩ := readData_pos P _ _ _ _ hrd
    simp only at p1 p2
    simp only [qmid]
    have hlen : (C.drop (qhdr S evs k).1).length = C.length - (qhdr S evs k).1 := List.length_drop
    -- compare the lengths of the two descriptions of the rest of the chain
    rw [List.drop_drop] at p1
    have hl := congrArg List.length p1
    simp only [List.length_drop] at hl
    have hne : (C.drop (qpos S evs (k + 1)).1) ≠ [] := by
      obtain ⟨h, t, _, _, e2⟩ := chain_at S evs F C hC hF k hk
      simp only [qpos]; rw [← e2]; simp
    have hlt : (qpos S evs (k + 1)).1 < C.length := by
      have := List.length_pos_iff.mpr hne
      simp only [List.length_drop] at this
      omega
    apply Prod.ext
    · simp only; omega
    · simp only; exact p2.symm
  refine ⟨?_, hend⟩
  -- split the read of the whole event into b, n, rest
  have e3 : evs[k].length = b + (n + (evs[k].length - b - n)) := by omega
  have hrd' := hrd
  rw [e3, readData_split] at hrd'
  cases h1 : readData P (C.drop (qhdr S evs k).1) ((qhdr S evs k).2 + 4) b with
  | none => rw [h1] at hrd'; simp at hrd'
  | some r1 =>
    rw [h1] at hrd'
    simp only [Option.bind_some] at hrd'
    obtain ⟨p1, p2, p3⟩ := readData_pos P _ _ _ _ h1
    rw [readData_split] at hrd'
    have hm1 : C.drop (qmid P S evs k b).1 = r1.2.1 := by
      rw [p1, List.drop_drop]; rfl
    have hm2 : (qmid P S evs k b).2 = r1.2.2 := by rw [p2]; rfl
    rw [hm1, hm2]
    cases h2 : readData P r1.2.1 r1.2.2 n with
    | none => rw [h2] at hrd'; simp at hrd'
    | some r2 =>
      rw [h2] at hrd'
      obtain ⟨s1, s2, s3⟩ := readData_pos P _ _ _ _ h2
      simp only [Option.bind_some, Option.map_eq_some_iff] at hrd'
      obtain ⟨x, hx, hxe⟩ := hrd'
      obtain ⟨r3, h3, hr3⟩ := hx
      obtain ⟨t1, t2, t3⟩ := readData_pos P _ _ _ _ h3
      subst hr3
      simp only [Prod.mk.injEq] at hxe
      have hbytes : r2.1 = (evs[k].drop b).take n := by
        have := hxe.1
        rw [← this]
        simp [p3, s3]
      have hq : qmid P S evs k (b + n) = ((qmid P S evs k b).1 + (advPos P (qmid P S evs k b).2 n).1,
          (advPos P (qmid P S evs k b).2 n).2) := by
        simp only [qmid]
        rw [advPos_add]
        apply Prod.ext
        · simp only; omega
        · rfl
      have : r2 = ((evs[k].drop b).take n, C.drop (qmid P S evs k (b + n)).1, (qmid P S evs k (b + n)).2) := by
        apply Prod.ext
        · exact hbytes
        · apply Prod.ext
          · simp only
            rw [s1, hq, ← hm1, List.drop_drop, hm2]
          · simp only
            rw [s2, hq, hm2]
      rw [this]

/-! ## the chain when more events are flushed -/

theorem qW_take (S : Nat) (evs ext : List (List UInt8)) (k : Nat) (hk : k ≤ evs.length) :
    qW S (evs ++ ext) k = qW S evs k ∧ qc S (evs ++ ext) k = qc S evs k := by
  simp only [qW, qc, List.take_append_of_le_length hk]
  trivial

theorem qpos_take (S : Nat) (evs ext : List (List UInt8)) (k : Nat) (hk : k ≤ evs.length) :
    qpos S (evs ++ ext) k = qpos S evs k ∧ qhdr S (evs ++ ext) k = qhdr S evs k ∧
    (qpad S (evs ++ ext) k ↔ qpad S evs k) := by
  simp only [qpos, qhdr, qpad, (qW_take S evs ext k hk).1, (qW_take S evs ext k hk).2]
  exact ⟨trivial, trivial, trivial⟩

theorem qmid_take (P S : Nat) (evs ext : List (List UInt8)) (k b : Nat) (hk : k ≤ evs.length) :
    qmid P S (evs ++ ext) k b = qmid P S evs k b := by
  simp only [qmid, (qpos_take S evs ext k hk).2.1]

/-- the pages completed by the first `k` events stay, the page they end in is extended -/
theorem chain_from (S : Nat) (evs : List (List UInt8)) (F : Nat) (C : List QPage) (hC : CRel S evs F C)
    (hF : F ≤ evs.length) (k : Nat) (hk : k ≤ F) (hF0 : 0 < F) :
    ∃ h t, C = qW S evs k ++ h :: t ∧ Ext (qc S evs k) h := by
  rcases hC with ⟨h0, _⟩ | ⟨_, p, hCe, hp⟩
  · omega
  have hsplit : evs.take F = evs.take k ++ (evs.take F).drop k := by
    have := (List.take_append_drop k (evs.take F)).symm
    rwa [List.take_take, Nat.min_eq_left hk] at this
  have hl : (evs.take k).length = k := by rw [List.length_take]; omega
  have hWF : qW S evs F = qW S evs k ++ (writeEvents S (qc S evs k) k ((evs.take F).drop k)).1 := by
    simp only [qW, qc, gW, gc]
    rw [hsplit, writeEvents_append, hl, Nat.zero_add, ← hsplit]
  have hcF : qc S evs F = (writeEvents S (qc S evs k) k ((evs.take F).drop k)).2 := by
    simp only [qc, gc]
    rw [hsplit, writeEvents_append, hl, Nat.zero_add, ← hsplit]
  rw [hcF] at hp
  obtain ⟨h, t, e1, hx⟩ := writeEvents_head_ext S _ (qc S evs k) k p hp
  exact ⟨h, t, by rw [hCe, hWF, List.append_assoc, e1], hx⟩

theorem qW_length_mono (S : Nat) (evs : List (List UInt8)) : ∀ (d k : Nat), k + d ≤ evs.length →
    (qW S evs k).length ≤ (qW S evs (k + d)).length := by
  intro d
  induction d with
  | zero => intro k _; exact Nat.le_refl _
  | succ d ih =>
    intro k h
    have := ih k (by omega)
    have h2 := qW_mono S evs (k + d) (by omega)
    rw [← Nat.add_assoc]
    omega

theorem CRel_length_mono (S : Nat) (evs : List (List UInt8)) (F F' : Nat) (C C' : List QPage)
    (hC : CRel S evs F C) (hC' : CRel S evs F' C') (hFF : F ≤ F') (hF' : F' ≤ evs.length) :
    C.length ≤ C'.length := by
  rw [CRel_length S evs F C hC, CRel_length S evs F' C' hC']
  by_cases h0 : F = 0
  · simp [h0]
  · have : F' ≠ 0 := by omega
    simp only [h0, this, if_false]
    have := qW_length_mono S evs (F' - F) F (by omega)
    have e : F + (F' - F) = F' := by omega
    rw [e] at this
    omega

/-- a page with an event header keeps its position, `off` and `first` when more events are flushed -/
theorem chain_grow (S : Nat) (evs : List (List UInt8)) (F F' : Nat) (C C' : List QPage)
    (hC : CRel S evs F C) (hC' : CRel S evs F' C') (hFF : F ≤ F') (hF' : F' ≤ evs.length)
    (i : Nat) (K : QPage) (hK : C[i]? = some K) (hoff : K.off ≠ 0) :
    ∃ K', C'[i]? = some K' ∧ K'.off = K.off ∧ K'.first = K.first := by
  rcases hC with ⟨h0, hCe⟩ | ⟨h0, p, hCe, hp⟩
  · rw [hCe] at hK; simp at hK
  obtain ⟨h, t, e1, hx⟩ := chain_from S evs F' C' hC' hF' F hFF (by omega)
  rw [hCe] at hK
  rw [e1]
  by_cases hi : i < (qW S evs F).length
  · rw [List.getElem?_append_left hi] at hK ⊢
    exact ⟨K, hK, rfl, rfl⟩
  · rw [List.getElem?_append_right (by omega)] at hK ⊢
    cases hd : i - (qW S evs F).length with
    | zero =>
      rw [hd] at hK
      simp only [List.getElem?_cons_zero, Option.some.injEq] at hK ⊢
      subst hK
      have ho : (qc S evs F).off ≠ 0 := by rw [← hp.2.2.1]; exact hoff
      have := hx.2 ho
      exact ⟨h, rfl, by rw [this.1, hp.2.2.1], by rw [this.2, hp.1]⟩
    | succ j => rw [hd] at hK; simp at hK

/-- the first page of a non-empty queue starts with the header of event 0 -/
theorem chain_first_page (S : Nat) (h4 : 4 ≤ S) (evs : List (List UInt8)) (F : Nat) (C : List QPage)
    (hC : CRel S evs F C) (hF : F ≤ evs.length) (hF0 : 0 < F) :
    ∃ K, C[0]? = some K ∧ K.off = 28 ∧ K.first = 0 := by
  obtain ⟨h, t, e1, hx, _⟩ := chain_at S evs F C hC hF 0 hF0
  have hq0 : qc S evs 0 = QPage.fresh := rfl
  have hW0 : qW S evs 0 = [] := rfl
  rw [hW0, hq0] at e1
  rw [hq0] at hx
  simp only [List.length_nil, List.drop_zero] at e1
  obtain ⟨q, qs, e2, _, hq⟩ := writeEvent_head S QPage.fresh 0 (evs[0]'(by omega)) h t hx
  have hnp : ¬ (S - QPage.fresh.payload.length < 4) := by simp; omega
  have hq2 := (hq hnp).2 (commitHdr_off_ne _ _ _)
  refine ⟨q, by rw [e1, e2]; rfl, by rw [hq2.1, commitHdr_off_fresh], by rw [hq2.2]; simp [commitHdr]⟩

end TxVerif
