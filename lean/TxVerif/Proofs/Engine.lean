import TxVerif.Model.Engine
namespace TxVerif

theorem Assoc.get?_set_self {β} (m : Assoc β) (k : Nat) (v : β) : (m.set k v).get? k = some v := by
  induction m with
  | nil => simp [Assoc.set, Assoc.get?]
  | cons x m ih =>
    obtain ⟨k', v'⟩ := x
    simp only [Assoc.set]
    split
    · simp [Assoc.get?]
    · split
      · simp [Assoc.get?]
      · rename_i h1 h2
        have hne : (k' == k) = false := by simp; omega
        simp only [Assoc.get?, List.find?_cons, hne] at ih ⊢
        exact ih

theorem Assoc.get?_set_ne {β} (m : Assoc β) (k j : Nat) (v : β) (h : j ≠ k) : (m.set k v).get? j = m.get? j := by
  induction m with
  | nil =>
    have : (k == j) = false := by simp; omega
    simp [Assoc.set, Assoc.get?, this]
  | cons x m ih =>
    obtain ⟨k', v'⟩ := x
    simp only [Assoc.set]
    have hkj : (k == j) = false := by simp; omega
    split
    · simp [Assoc.get?, hkj]
    · split
      · rename_i _ he
        subst he
        simp [Assoc.get?, List.find?_cons, hkj]
      · simp only [Assoc.get?, List.find?_cons] at ih ⊢
        cases hk : (k' == j) <;> simp [ih]

end TxVerif
