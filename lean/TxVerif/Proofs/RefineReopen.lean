/-
  Helper lemmas for C10 (reopen) and C02 (reader frame) at the level of the engine model.

  * `FileSt.ws f n`: the file state `f` with another value of the derived statistic `statData`.
    No operation inside a transaction reads the statistic, the commit only adds to it, so every
    operation commutes with `ws` (exact equalities, no invariant needed).
  * `NoGap a`: the condition under which `Alloc.absorbOverflow` is the identity.
  * `FileSt.reopen` = `ws` of the recomputed statistic when `NoGap` holds.
-/
import TxVerif.Proofs.RefineMore
import TxVerif.Props.C03Refine
import TxVerif.Props.C10
namespace TxVerif

/-! ### the file state with another statistic -/

/-- the same file state with another value of `statData` -/
def FileSt.ws (f : FileSt) (n : Nat) : FileSt := { f with statData := n }

theorem ws_self (f : FileSt) : f.ws f.statData = f := rfl
theorem ws_ws (f : FileSt) (n m : Nat) : (f.ws n).ws m = f.ws m := rfl
theorem ws_readPage (f : FileSt) (n id : Nat) : (f.ws n).readPage id = f.readPage id := rfl

theorem getPage_ws (f : FileSt) (n : Nat) (tx : TxSt) (id : Nat) : getPage (f.ws n) tx id = getPage f tx id := rfl
theorem loadBytes_ws (f : FileSt) (n : Nat) (p : PageSt) : loadBytes (f.ws n) p = loadBytes f p := rfl
theorem txWrite_ws (f : FileSt) (n : Nat) (tx : TxSt) (id : Nat) (mode : WMode) (s : Nat) :
    txWrite (f.ws n) tx id mode s = txWrite f tx id mode s := rfl
theorem txLoad_ws (f : FileSt) (n : Nat) (tx : TxSt) (id : Nat) : txLoad (f.ws n) tx id = txLoad f tx id := rfl
theorem txRead_ws (f : FileSt) (n : Nat) (tx : TxSt) (id : Nat) : txRead (f.ws n) tx id = txRead f tx id := rfl

/-- mapping the file component of a result -/
def mapF {α : Type} (g : FileSt → FileSt) : Except Err (FileSt × α) → Except Err (FileSt × α)
  | .error e => .error e
  | .ok (f, x) => .ok (g f, x)

theorem txAlloc_ws (f : FileSt) (n : Nat) (tx : TxSt) (k : Nat) :
    txAlloc (f.ws n) tx k = mapF (·.ws n) (txAlloc f tx k) := by
  unfold txAlloc
  show (match dataAllocRegions f.alloc tx.ta k with | none => _ | some (a, ta, ids) => _) =
    mapF _ (match dataAllocRegions f.alloc tx.ta k with | none => _ | some (a, ta, ids) => _)
  cases dataAllocRegions f.alloc tx.ta k with
  | none => rfl
  | some r => rfl

theorem txFree_ws (f : FileSt) (n : Nat) (tx : TxSt) (id : Nat) :
    txFree (f.ws n) tx id = mapF (·.ws n) (txFree f tx id) := by
  unfold txFree
  rw [getPage_ws]
  cases hg : getPage f tx id with
  | error e => rfl
  | ok r =>
    obtain ⟨tx1, p⟩ := r
    simp only [bind, Except.bind]
    cases pageCanWrite p with
    | error e => rfl
    | ok u =>
      cases hd : p.dirty with
      | true => rfl
      | false => rfl

theorem doFlush_ws (f : FileSt) (n : Nat) (tx : TxSt) (p : PageSt) :
    doFlush (f.ws n) tx p = mapF (·.ws n) (doFlush f tx p) := by
  obtain ⟨pid, pond, pb, pn, pfr, pfl, pc, pdirty⟩ := p
  unfold doFlush
  cases pdirty with
  | false => simp only [Bool.not_false, Bool.true_or, if_true]; rfl
  | true =>
    cases pfl with
    | true => simp only [Bool.not_true, Bool.or_true, if_true]; rfl
    | false =>
      simp only [Bool.not_true, Bool.or_self, Bool.false_eq_true, if_false]
      cases pn with
      | true => simp only [if_true]; rfl
      | false =>
        simp only [Bool.false_eq_true, if_false]
        by_cases heq : pid = pond
        · subst heq
          simp only [if_true]
          rw [show (f.ws n).alloc = f.alloc from rfl]
          cases hwa : walAlloc f.alloc tx.ta with
          | none => rfl
          | some r => rfl
        · simp only [heq, if_false]; rfl

theorem flushList_ws (ids : List Nat) : ∀ (f : FileSt) (n : Nat) (tx : TxSt),
    flushList (f.ws n) tx ids = mapF (·.ws n) (flushList f tx ids) := by
  induction ids with
  | nil => intro f n tx; rfl
  | cons id ids ih =>
    intro f n tx
    unfold flushList
    cases hg : Assoc.get? tx.pages id with
    | none => rfl
    | some p =>
      simp only []
      rw [doFlush_ws]
      cases hf : doFlush f tx p with
      | error e => rfl
      | ok r =>
        obtain ⟨f1, tx1, w⟩ := r
        simp only [mapF]
        rw [ih f1 n tx1]
        cases hr : flushList f1 tx1 ids with
        | error e => rfl
        | ok r2 => rfl

theorem flushPageOp_ws (f : FileSt) (n : Nat) (tx : TxSt) (id : Nat) :
    flushPageOp (f.ws n) tx id = mapF (·.ws n) (flushPageOp f tx id) := by
  unfold flushPageOp
  rw [getPage_ws]
  cases hg : getPage f tx id with
  | error e => rfl
  | ok r =>
    obtain ⟨tx1, p⟩ := r
    simp only [bind, Except.bind]
    cases pageCanWrite p with
    | error e => rfl
    | ok u => exact doFlush_ws f n tx1 p

theorem ckptFold_ws (l : Assoc Nat) : ∀ (f : FileSt) (n : Nat) (tx : TxSt),
    l.foldl ckptOne (f.ws n, tx) = ((l.foldl ckptOne (f, tx)).1.ws n, (l.foldl ckptOne (f, tx)).2) := by
  induction l with
  | nil => intro f n tx; rfl
  | cons e l ih =>
    intro f n tx
    rw [List.foldl_cons, List.foldl_cons]
    exact ih (ckptOne (f, tx) e).1 n (ckptOne (f, tx) e).2

theorem doCheckpoint_ws (f : FileSt) (n : Nat) (tx : TxSt) :
    doCheckpoint (f.ws n) tx = ((doCheckpoint f tx).1.ws n, (doCheckpoint f tx).2) := by
  unfold doCheckpoint
  rw [show ckptTodo (f.ws n) tx = ckptTodo f tx from rfl]
  split
  · rfl
  · split
    · rfl
    · rw [ckptFold_ws]

/-! ### a running transaction with another statistic -/

def ERunSt.ws (s : ERunSt) (n : Nat) : ERunSt := { s with f := s.f.ws n }

theorem step_ws (s : ERunSt) (n : Nat) (op : EOp) : op.step (s.ws n) = (op.step s).ws n := by
  obtain ⟨f, tx, cur, σ⟩ := s
  cases op with
  | alloc k =>
    simp only [EOp.step, ERunSt.ws]
    rw [txAlloc_ws]
    cases txAlloc f tx k with
    | error e => rfl
    | ok r => rfl
  | write id mode st =>
    simp only [EOp.step, ERunSt.ws]
    rw [txWrite_ws]
    by_cases hid : id ∈ cur
    · simp only [hid, if_true]
      cases txWrite f tx id mode st with
      | error e => rfl
      | ok r => rfl
    · simp only [hid, if_false]
  | load id =>
    simp only [EOp.step, ERunSt.ws]
    rw [txLoad_ws]
    by_cases hid : id ∈ cur
    · simp only [hid, if_true]
      cases txLoad f tx id with
      | error e => rfl
      | ok r => rfl
    · simp only [hid, if_false]
  | read id =>
    simp only [EOp.step, ERunSt.ws]
    rw [txRead_ws]
    by_cases hid : id ∈ cur
    · simp only [hid, if_true]
      cases txRead f tx id with
      | error e => rfl
      | ok r => rfl
    · simp only [hid, if_false]
  | free id =>
    simp only [EOp.step, ERunSt.ws]
    rw [txFree_ws]
    by_cases hid : id ∈ cur
    · simp only [hid, if_true]
      cases txFree f tx id with
      | error e => rfl
      | ok r => rfl
    · simp only [hid, if_false]
  | flushPage id =>
    simp only [EOp.step, ERunSt.ws]
    rw [flushPageOp_ws]
    by_cases hid : id ∈ cur
    · simp only [hid, if_true]
      cases flushPageOp f tx id with
      | error e => rfl
      | ok r => rfl
    · simp only [hid, if_false]
  | flushAll order =>
    simp only [EOp.step, ERunSt.ws]
    rw [flushList_ws]
    cases flushList f tx order with
    | error e => rfl
    | ok r => rfl
  | checkpoint =>
    simp only [EOp.step, ERunSt.ws]
    rw [doCheckpoint_ws]

theorem run_ws (ops : List EOp) : ∀ (s : ERunSt) (n : Nat), runEOps (s.ws n) ops = (runEOps s ops).ws n := by
  induction ops with
  | nil => intro s n; rfl
  | cons op ops ih =>
    intro s n
    show runEOps (op.step (s.ws n)) ops = (runEOps (op.step s) ops).ws n
    rw [step_ws, ih]

theorem start_ws (f : FileSt) (n : Nat) (live : List Nat) (ov : Bool) (g wl : Nat) :
    ERunSt.start (f.ws n) live ov g wl = (ERunSt.start f live ov g wl).ws n := rfl

theorem txAbort_ws (f : FileSt) (n : Nat) (tx : TxSt) : txAbort (f.ws n) tx = (txAbort f tx).ws n := rfl

/-! ### the commit with another statistic -/

theorem cPhase1_ws (f : FileSt) (n : Nat) (tx : TxSt) :
    cPhase1 (f.ws n) tx = ((cPhase1 f tx).1.ws n, (cPhase1 f tx).2) := by
  unfold cPhase1
  rw [show cCkpt (f.ws n) tx = cCkpt f tx from rfl]
  split
  · exact doCheckpoint_ws f n tx
  · rfl

/-- the commit does not read the statistic: same outcome, same copied pages, the same resulting file
    state up to the statistic; a failing commit leaves the statistic alone -/
theorem commit_ws (f : FileSt) (n : Nat) (tx : TxSt) :
    ∃ m, commitAfterFlush (f.ws n) tx = ((commitAfterFlush f tx).1.ws m, (commitAfterFlush f tx).2) ∧
      ((commitAfterFlush f tx).2.1 ≠ .ok → m = n) := by
  have e1 := cPhase1_ws f n tx
  have c1 : cWalUpd (f.ws n) tx = cWalUpd f tx := rfl
  have c2 : cNewWal (f.ws n) tx = cNewWal f tx := by
    unfold cNewWal; rw [e1]; rfl
  have c3 : cTx3 (f.ws n) tx = cTx3 f tx := by
    unfold cTx3; rw [e1, c1]; rfl
  have c4 : cAllocUpd (f.ws n) tx = cAllocUpd f tx := by
    unfold cAllocUpd; rw [e1, c1]; rfl
  have c5 : cWalRes (f.ws n) tx = cWalRes f tx := by
    unfold cWalRes; rw [e1, c1, c2, c3]; rfl
  rw [commitAfterFlush_eq, commitAfterFlush_eq]
  unfold commitAfterFlush'
  rw [c1, c2, c3, c4, c5, e1]
  cases cWalRes f tx with
  | none => exact ⟨n, rfl, fun _ => rfl⟩
  | some r =>
    obtain ⟨a, ta, regs⟩ := r
    dsimp only
    cases fileCommitAlloc a ta (cAllocUpd f tx || !regs.isEmpty) with
    | none => exact ⟨n, rfl, fun _ => rfl⟩
    | some r2 =>
      obtain ⟨a2, ta2, cs⟩ := r2
      exact ⟨n + ta2.sAlloc - (ta2.sFreed + ta2.sToMeta), rfl, fun h => absurd rfl h⟩

/-! ### reopen -/

/-- no overflow area the data area could grow into: the meta end marker is not above the data end
    marker, or the file is at (or over) its page limit. Exactly the condition under which
    `absorbOverflow` (and so reopening) does not move the data end marker. -/
def NoGap (a : Alloc) : Prop :=
  a.mta.endMarker ≤ a.data.endMarker ∨ (0 < a.maxPages ∧ a.maxPages ≤ a.data.endMarker)

instance (a : Alloc) : Decidable (NoGap a) := by unfold NoGap; exact inferInstance

theorem absorb_id_iff (a : Alloc) : a.absorbOverflow = a ↔ NoGap a := by
  constructor
  · intro h
    unfold Alloc.absorbOverflow at h
    unfold NoGap
    split at h
    · rename_i hc
      have := congrArg (fun x => x.data.endMarker) h
      dsimp only at this
      omega
    · rename_i hc; omega
  · exact absorb_id a

/-- the statistic `reportOpen` computes -/
def FileSt.openStat (f : FileSt) : Nat :=
  max f.alloc.data.endMarker f.alloc.mta.endMarker - 2 - f.alloc.metaTotal - f.alloc.data.free.length

/-- without a gap, reopening only recomputes the statistic -/
theorem reopen_ws (f : FileSt) (h : NoGap f.alloc) : f.reopen = f.ws f.openStat := by
  unfold FileSt.reopen FileSt.ws FileSt.openStat
  rw [absorb_id f.alloc h]

/-- the invariant of a committed state does not mention the statistic -/
theorem engInv_ws {f : FileSt} {live : List Nat} (h : EngInv f live) (n : Nat) : EngInv (f.ws n) live :=
  engInv_congr h rfl rfl rfl

theorem inUse_absorb (a : Alloc) (x : Nat) (h : InUse a x) : InUse a.absorbOverflow x := by
  obtain ⟨k1, k2, k3, k4, k5, k6⟩ := absorb_keeps a
  obtain ⟨h1, h2, h3, h4⟩ := h
  refine ⟨k1 ▸ h1, k2 ▸ h2, k2 ▸ h3, ?_⟩
  rw [k4]
  rcases h4 with h4 | h4
  · exact Or.inl (by omega)
  · exact Or.inr h4

/-- reopening keeps the invariant of a committed state — also when `absorbOverflow` raises the data end
    marker over a gap: the data end marker then becomes the meta end marker, which `EngInv.noOv` keeps
    below the page limit -/
theorem engInv_reopen {f : FileSt} {live : List Nat} (h : EngInv f live) : EngInv f.reopen live := by
  obtain ⟨k1, k2, k3, k4, k5, k6⟩ := absorb_keeps f.alloc
  have ea : f.reopen.alloc = f.alloc.absorbOverflow := rfl
  have ei : f.reopen.internal = f.internal := by
    unfold FileSt.internal; rw [ea, k5]; rfl
  have hend : f.alloc.absorbOverflow.data.endMarker = f.alloc.data.endMarker ∨
      (f.alloc.absorbOverflow.data.endMarker = f.alloc.mta.endMarker ∧
        f.alloc.data.endMarker < f.alloc.mta.endMarker) := by
    unfold Alloc.absorbOverflow
    split
    · rename_i hc; exact Or.inr ⟨rfl, hc.1⟩
    · exact Or.inl rfl
  have hnoOv := h.noOv
  refine ⟨⟨?_, ?_, ?_, ?_, ?_, ?_, ?_, ?_⟩, ?_, h.keys, ?_, h.mapKey, h.mapInj, ?_, ei ▸ h.intNodup, ?_, ?_⟩
  · rw [ea, k1]; exact h.wf.ascData
  · rw [ea, k2]; exact h.wf.ascMeta
  · rw [ea, k1]; intro x hx; have := h.wf.dataRange x hx; omega
  · rw [ea, k2, k4]; intro x hx; have := h.wf.metaRange x hx; omega
  · rw [ea, k1, k2]; exact h.wf.disj
  · rw [ea]; have := h.wf.dataEnd; omega
  · rw [ea, k4]; have := h.wf.limit; omega
  · rw [ea, k2, k3]; exact h.wf.total
  · rw [ea, k2]; have := h.ends; omega
  · intro id hid
    obtain ⟨a, b, c⟩ := h.liveOk id hid
    exact ⟨a, by rw [ea]; omega, inUse_absorb _ _ c⟩
  · intro x hx
    rw [ei] at hx
    obtain ⟨a, b, c⟩ := h.intOk x hx
    exact ⟨a, inUse_absorb _ _ b, c⟩
  · rw [ei, ea, k2, k3]; exact h.total
  · rw [ea, k2, k4]; exact h.noOv

/-! ### histories with another statistic -/

theorem runTxn_ws (s : FileSt × List Nat) (n : Nat) (t : Txn) :
    ∃ m, runTxn (s.1.ws n, s.2) t = ((runTxn s t).1.ws m, (runTxn s t).2) := by
  have e : runEOps (ERunSt.start (s.1.ws n) s.2 false t.growPct t.walLimit) t.ops =
      (runEOps (ERunSt.start s.1 s.2 false t.growPct t.walLimit) t.ops).ws n := by
    rw [start_ws, run_ws]
  unfold runTxn
  dsimp only
  rw [e]
  generalize runEOps (ERunSt.start s.1 s.2 false t.growPct t.walLimit) t.ops = r
  rw [show (r.ws n).f = r.f.ws n from rfl, show (r.ws n).tx = r.tx from rfl, show (r.ws n).cur = r.cur from rfl,
    flushList_ws]
  cases flushList r.f r.tx t.order with
  | error e => exact ⟨n, rfl⟩
  | ok q =>
    obtain ⟨f2, tx2, ws⟩ := q
    simp only [mapF]
    by_cases hall : tx2.unflushed = []
    · simp only [hall, if_true]
      obtain ⟨m, e2, -⟩ := commit_ws f2 n tx2
      rw [e2]
      by_cases hok : (commitAfterFlush f2 tx2).2.1 = .ok
      · simp only [hok, if_true]; exact ⟨m, rfl⟩
      · simp only [hok, if_false]; exact ⟨m, rfl⟩
    · simp only [hall, if_false]; exact ⟨n, rfl⟩

theorem runHistory_ws (ts : List Txn) : ∀ (s : FileSt × List Nat) (n : Nat),
    ∃ m, runHistory (s.1.ws n, s.2) ts = ((runHistory s ts).1.ws m, (runHistory s ts).2) := by
  induction ts with
  | nil => intro s n; exact ⟨n, rfl⟩
  | cons t ts ih =>
    intro s n
    obtain ⟨m, e⟩ := runTxn_ws s n t
    show ∃ m, runHistory (runTxn (s.1.ws n, s.2) t) ts = ((runHistory (runTxn s t) ts).1.ws m, _)
    rw [e]
    exact ih (runTxn s t) m

theorem runHistory_append (s : FileSt × List Nat) (a b : List Txn) :
    runHistory s (a ++ b) = runHistory (runHistory s a) b := by
  unfold runHistory; rw [List.foldl_append]

/-! ### transactions that do not use the overflow area never create a gap -/

/-- inside a transaction that began with data end marker `d0` and a meta end marker not above it: the
    meta end marker is not above the data end marker; it is equal to it unless it is still ≤ `d0` -/
def GapOK (d0 : Nat) (a : Alloc) : Prop :=
  a.mta.endMarker ≤ a.data.endMarker ∧ (a.mta.endMarker = a.data.endMarker ∨ a.mta.endMarker ≤ d0)

theorem gapOK_noGap {d0 : Nat} {a : Alloc} (h : GapOK d0 a) : NoGap a := Or.inl h.1

theorem g_regions (d0 : Nat) (a : Alloc) (st : TxAlloc) (n : Nat) (a' : Alloc) (st' : TxAlloc) (ids : List Nat)
    (hg : GapOK d0 a) (h : dataAllocRegions a st n = some (a', st', ids)) : GapOK d0 a' := by
  obtain ⟨k, rest, -, -, -, -, -, -, -, e2, -, e4, -⟩ := dataAllocRegions_spec a st n a' st' ids h
  obtain ⟨g1, g2⟩ := hg
  unfold GapOK
  rw [e2, e4]
  split <;> omega

theorem g_transfer (d0 : Nat) (a : Alloc) (st : TxAlloc) (ids : List Nat) (hg : GapOK d0 a) :
    GapOK d0 (transferToMeta a st ids).1 := hg

theorem g_continuous (d0 : Nat) (a : Alloc) (st : TxAlloc) (n : Nat) (a' : Alloc) (st' : TxAlloc) (ids : List Nat)
    (hg : GapOK d0 a) (h : dataAllocContinuous a st n = some (a', st', ids)) : GapOK d0 a' := by
  unfold dataAllocContinuous at h
  by_cases hav : a.dataAvail < n
  · rw [if_pos hav] at h; cases h
  rw [if_neg hav] at h
  cases hc : allocContinuous a.data.free n with
  | some p =>
      obtain ⟨taken, rest⟩ := p
      rw [hc] at h
      simp only [Option.some.injEq, Prod.mk.injEq] at h
      obtain ⟨ha, -, -⟩ := h
      subst ha
      exact hg
  | none =>
      simp only [hc] at h
      by_cases hroom : a.maxPages > 0 ∧ (if a.data.endMarker < a.maxPages then a.maxPages - a.data.endMarker else 0) < n
      · rw [if_pos hroom] at h; cases h
      · rw [if_neg hroom] at h
        simp only [Option.some.injEq, Prod.mk.injEq] at h
        obtain ⟨ha, -, -⟩ := h
        subst ha
        obtain ⟨g1, g2⟩ := hg
        unfold GapOK
        simp only [bumpMetaEnd_data, bumpMetaEnd_mta_end]
        omega

theorem g_tryGrow (d0 : Nat) (a : Alloc) (st : TxAlloc) (count : Nat) (a' : Alloc) (st' : TxAlloc)
    (hg : GapOK d0 a) (hr : tryGrow a st count false = some (a', st')) : GapOK d0 a' := by
  unfold tryGrow at hr
  dsimp only at hr
  by_cases hc0 : count = 0
  · rw [if_pos hc0] at hr
    simp only [Option.some.injEq, Prod.mk.injEq] at hr
    obtain ⟨ha, -⟩ := hr
    subst ha; exact hg
  · rw [if_neg hc0] at hr
    by_cases hav : a.dataAvail < count
    · rw [if_pos hav] at hr; simp at hr
    · rw [if_neg hav] at hr
      cases hcont : dataAllocContinuous a st count with
      | some p =>
        obtain ⟨a1, st1, ids⟩ := p
        rw [hcont] at hr
        simp only [Option.some.injEq] at hr
        have := g_transfer d0 a1 st1 ids (g_continuous d0 a st count a1 st1 ids hg hcont)
        rw [hr] at this; exact this
      | none =>
        rw [hcont] at hr
        cases hreg : dataAllocRegions a st count with
        | none => rw [hreg] at hr; cases hr
        | some p =>
          obtain ⟨a1, st1, ids⟩ := p
          rw [hreg] at hr
          simp only [Option.some.injEq] at hr
          have := g_transfer d0 a1 st1 ids (g_regions d0 a st count a1 st1 ids hg hreg)
          rw [hr] at this; exact this

theorem g_ensureMeta (d0 : Nat) (a : Alloc) (st : TxAlloc) (n : Nat) (a' : Alloc) (st' : TxAlloc)
    (hg : GapOK d0 a) (hov : st.overflow = false) (hr : ensureMeta a st n = some (a', st')) : GapOK d0 a' := by
  unfold ensureMeta at hr
  dsimp only at hr
  split at hr
  · simp only [Option.some.injEq, Prod.mk.injEq] at hr
    obtain ⟨ha, -⟩ := hr
    subst ha; exact hg
  · split at hr
    · rename_i r hgr
      simp only [Option.some.injEq] at hr
      subst hr
      exact g_tryGrow d0 a st _ a' st' hg hgr
    · rw [hov] at hr
      exact g_tryGrow d0 a st _ a' st' hg hr

theorem g_walAlloc (d0 : Nat) (a : Alloc) (st : TxAlloc) (a' : Alloc) (st' : TxAlloc) (w : Nat)
    (hg : GapOK d0 a) (hov : st.overflow = false) (hr : walAlloc a st = some (a', st', w)) : GapOK d0 a' := by
  unfold walAlloc at hr
  split at hr
  · cases hr
  · rename_i a1 st1 he
    have c1 := g_ensureMeta d0 a st 1 a1 st1 hg hov he
    split at hr
    · simp only [Option.some.injEq, Prod.mk.injEq] at hr
      obtain ⟨ha, -, -⟩ := hr
      subst ha
      exact c1
    · cases hr

theorem g_metaAllocRegions (d0 : Nat) (a : Alloc) (st : TxAlloc) (n : Nat) (a' : Alloc) (st' : TxAlloc)
    (ids : List Nat) (hg : GapOK d0 a) (hov : st.overflow = false)
    (hr : metaAllocRegions a st n = some (a', st', ids)) : GapOK d0 a' := by
  unfold metaAllocRegions at hr
  split at hr
  · cases hr
  · rename_i a1 st1 he
    have c1 := g_ensureMeta d0 a st n a1 st1 hg hov he
    dsimp only at hr
    split at hr
    · cases hr
    · simp only [Option.some.injEq, Prod.mk.injEq] at hr
      obtain ⟨ha, -, -⟩ := hr
      subst ha
      exact c1

theorem g_dataFree (d0 : Nat) (a : Alloc) (st : TxAlloc) (id : Nat) (hg : GapOK d0 a)
    (hd0 : d0 ≤ st.data.end0) (hm0 : st.mta.end0 ≤ d0) : GapOK d0 (dataFree a st id).1 := by
  rw [dataFree_eq]
  unfold dataFreeCore
  dsimp only
  have base : GapOK d0 { a with data := { a.data with free := insertId id a.data.free } } := hg
  split
  · exact hg
  · split
    · exact base
    · split
      · exact base
      · rename_i s c hl
        split
        · exact base
        · obtain ⟨g1, g2⟩ := hg
          unfold GapOK
          dsimp only
          split <;> split <;> omega

theorem txAlloc_gap (d0 : Nat) (f : FileSt) (tx : TxSt) (n : Nat) (f' : FileSt) (tx' : TxSt) (ids : List Nat)
    (hw : txAlloc f tx n = .ok (f', tx', ids)) (hg : GapOK d0 f.alloc) : GapOK d0 f'.alloc := by
  unfold txAlloc at hw
  cases hr : dataAllocRegions f.alloc tx.ta n with
  | none => simp [hr] at hw
  | some r =>
    obtain ⟨a, ta, ids'⟩ := r
    simp only [hr, Except.ok.injEq, Prod.mk.injEq] at hw
    obtain ⟨rfl, -, -⟩ := hw
    exact g_regions d0 f.alloc tx.ta n a ta ids' hg hr

theorem txFree_gap (d0 : Nat) (f : FileSt) (tx : TxSt) (id : Nat) (f' : FileSt) (tx' : TxSt)
    (hw : txFree f tx id = .ok (f', tx')) (hg : GapOK d0 f.alloc)
    (hd0 : d0 ≤ tx.ta.data.end0) (hm0 : tx.ta.mta.end0 ≤ d0) : GapOK d0 f'.alloc := by
  unfold txFree at hw
  cases hgp : getPage f tx id with
  | error e => simp [hgp, bind, Except.bind] at hw
  | ok r =>
    obtain ⟨tx1, p⟩ := r
    have hta := getPage_ta f tx tx1 id p hgp
    cases hcw : pageCanWrite p with
    | error e => simp [hgp, bind, Except.bind, hcw] at hw
    | ok u =>
      cases hd : p.dirty with
      | true => simp [hgp, bind, Except.bind, hcw, hd] at hw
      | false =>
        simp only [hgp, bind, Except.bind, hcw, hd, Bool.false_eq_true, if_false, pure, Except.pure,
          Except.ok.injEq, Prod.mk.injEq] at hw
        obtain ⟨rfl, -⟩ := hw
        exact g_dataFree d0 f.alloc tx1.ta id hg (hta ▸ hd0) (hta ▸ hm0)

theorem doFlush_gap (d0 : Nat) (f : FileSt) (tx : TxSt) (p : PageSt) (f' : FileSt) (tx' : TxSt) (w : Option Nat)
    (hw : doFlush f tx p = .ok (f', tx', w)) (hg : GapOK d0 f.alloc) (hov : tx.ta.overflow = false) :
    GapOK d0 f'.alloc := by
  obtain ⟨pid, pond, pb, pn, pfr, pfl, pc, pdirty⟩ := p
  unfold doFlush at hw
  cases pdirty with
  | false =>
    simp only [Bool.not_false, Bool.true_or, if_true, Except.ok.injEq, Prod.mk.injEq] at hw
    rw [← hw.1]; exact hg
  | true =>
    cases pfl with
    | true =>
      simp only [Bool.not_true, Bool.or_true, if_true, Except.ok.injEq, Prod.mk.injEq] at hw
      rw [← hw.1]; exact hg
    | false =>
      simp only [Bool.not_true, Bool.or_self, Bool.false_eq_true, if_false] at hw
      cases pn with
      | true =>
        simp only [if_true, Except.ok.injEq, Prod.mk.injEq] at hw
        rw [← hw.1]; exact hg
      | false =>
        simp only [Bool.false_eq_true, if_false] at hw
        by_cases heq : pid = pond
        · subst heq
          simp only [if_true] at hw
          cases hwa : walAlloc f.alloc tx.ta with
          | none => simp [hwa] at hw
          | some r =>
            obtain ⟨a, ta, w'⟩ := r
            simp only [hwa, Except.ok.injEq, Prod.mk.injEq] at hw
            rw [← hw.1]
            exact g_walAlloc d0 f.alloc tx.ta a ta w' hg hov hwa
        · simp only [heq, if_false, Except.ok.injEq, Prod.mk.injEq] at hw
          rw [← hw.1]; exact hg

theorem flushList_gap (d0 : Nat) (ids : List Nat) : ∀ (f : FileSt) (tx : TxSt) (f' : FileSt) (tx' : TxSt)
    (ws : List (Nat × Nat)), flushList f tx ids = .ok (f', tx', ws) → GapOK d0 f.alloc →
    tx.ta.overflow = false → GapOK d0 f'.alloc := by
  induction ids with
  | nil =>
    intro f tx f' tx' ws hw hg _
    simp only [flushList, Except.ok.injEq, Prod.mk.injEq] at hw
    rw [← hw.1]; exact hg
  | cons id ids ih =>
    intro f tx f' tx' ws hw hg hov
    unfold flushList at hw
    cases hgp : Assoc.get? tx.pages id with
    | none => simp [hgp] at hw
    | some p =>
      simp only [hgp] at hw
      cases hf : doFlush f tx p with
      | error e => simp [hf] at hw
      | ok r =>
        obtain ⟨f1, tx1, w⟩ := r
        simp only [hf] at hw
        cases hr : flushList f1 tx1 ids with
        | error e => simp [hr] at hw
        | ok r2 =>
          obtain ⟨f2, tx2, ws2⟩ := r2
          simp only [hr, Except.ok.injEq, Prod.mk.injEq] at hw
          rw [← hw.1]
          exact ih f1 tx1 f2 tx2 ws2 hr (doFlush_gap d0 f tx p f1 tx1 w hf hg hov)
            ((doFlush_ovf f tx p f1 tx1 w hf).trans hov)

theorem flushPageOp_gap (d0 : Nat) (f : FileSt) (tx : TxSt) (id : Nat) (f' : FileSt) (tx' : TxSt) (w : Option Nat)
    (hw : flushPageOp f tx id = .ok (f', tx', w)) (hg : GapOK d0 f.alloc) (hov : tx.ta.overflow = false) :
    GapOK d0 f'.alloc := by
  unfold flushPageOp at hw
  cases hgp : getPage f tx id with
  | error e => simp [hgp, bind, Except.bind] at hw
  | ok r =>
    obtain ⟨tx1, p⟩ := r
    simp only [hgp, bind, Except.bind] at hw
    cases hcw : pageCanWrite p with
    | error e => simp [hcw] at hw
    | ok u =>
      simp only [hcw] at hw
      exact doFlush_gap d0 f tx1 p f' tx' w hw hg ((congrArg (·.overflow) (getPage_ta f tx tx1 id p hgp)).trans hov)

theorem ckptFold_alloc (l : Assoc Nat) : ∀ (s : FileSt × TxSt), (l.foldl ckptOne s).1.alloc = s.1.alloc := by
  induction l with
  | nil => intro s; rfl
  | cons e l ih => intro s; rw [List.foldl_cons, ih]; rfl

theorem doCheckpoint_alloc (f : FileSt) (tx : TxSt) : (doCheckpoint f tx).1.alloc = f.alloc := by
  unfold doCheckpoint
  split
  · rfl
  · split
    · rfl
    · exact ckptFold_alloc _ (f, tx)

theorem step_gap {f0 : FileSt} {live : List Nat} (s : ERunSt) (op : EOp) (h : RunInv f0 live s)
    (hov : s.tx.ta.overflow = false) (hm : f0.alloc.mta.endMarker ≤ f0.alloc.data.endMarker)
    (hg : GapOK f0.alloc.data.endMarker s.f.alloc) : GapOK f0.alloc.data.endMarker (op.step s).f.alloc := by
  cases op with
  | alloc n =>
    simp only [EOp.step]
    split
    · rename_i f tx ids hr; exact txAlloc_gap _ _ _ _ _ _ _ hr hg
    · exact hg
  | write id mode st =>
    simp only [EOp.step]
    split
    · split <;> exact hg
    · exact hg
  | load id =>
    simp only [EOp.step]
    split
    · split <;> exact hg
    · exact hg
  | read id =>
    simp only [EOp.step]
    split
    · split <;> exact hg
    · exact hg
  | free id =>
    simp only [EOp.step]
    split
    · split
      · rename_i f tx hr
        exact txFree_gap _ _ _ _ _ _ hr hg (Nat.le_of_eq h.tx.inv.dEnd0.symm) (by rw [h.tx.inv.mEnd0]; exact hm)
      · exact hg
    · exact hg
  | flushPage id =>
    simp only [EOp.step]
    split
    · split
      · rename_i f tx w hr; exact flushPageOp_gap _ _ _ _ _ _ _ hr hg hov
      · exact hg
    · exact hg
  | flushAll order =>
    simp only [EOp.step]
    split
    · rename_i f tx ws hr; exact flushList_gap _ _ _ _ _ _ _ hr hg hov
    · exact hg
  | checkpoint =>
    simp only [EOp.step]
    rw [doCheckpoint_alloc]; exact hg

theorem run_gap {f0 : FileSt} {live : List Nat} (he : EngInv f0 live) (ops : List EOp) :
    ∀ (s : ERunSt), RunInv f0 live s → s.tx.ta.overflow = false →
    f0.alloc.mta.endMarker ≤ f0.alloc.data.endMarker → GapOK f0.alloc.data.endMarker s.f.alloc →
    GapOK f0.alloc.data.endMarker (runEOps s ops).f.alloc := by
  induction ops with
  | nil => intro s _ _ _ hg; exact hg
  | cons op ops ih =>
    intro s h hov hm hg
    exact ih (op.step s) (runinv_step he s op h) ((step_ovf s op).trans hov) hm (step_gap s op h hov hm hg)

/-- under `EngInv`, `NoGap` says that the meta end marker is not above the data end marker -/
theorem noGap_le {f : FileSt} {live : List Nat} (he : EngInv f live) (hg : NoGap f.alloc) :
    f.alloc.mta.endMarker ≤ f.alloc.data.endMarker := by
  have := he.noOv
  have := he.wf.limit
  unfold NoGap at hg
  omega

theorem cPhase1_alloc (f : FileSt) (tx : TxSt) : (cPhase1 f tx).1.alloc = f.alloc := by
  unfold cPhase1
  split
  · exact doCheckpoint_alloc f tx
  · rfl

/-- a successful commit of a transaction that does not use the overflow area keeps `GapOK` -/
theorem commit_gap {f0 : FileSt} {live : List Nat} {f : FileSt} {tx : TxSt} {cur : List Nat}
    (he : EngInv f0 live) (h : TxInv f0 live f tx cur) (hfl : AllFlushed tx) (hov : tx.ta.overflow = false)
    (hok : (commitAfterFlush f tx).2.1 = .ok) (d0 : Nat) (hg : GapOK d0 f.alloc) :
    GapOK d0 (commitAfterFlush f tx).1.alloc := by
  obtain ⟨h1, -, -, -⟩ := commit_phase1 he h hfl
  have hg1 : GapOK d0 (cPhase1 f tx).1.alloc := by rw [cPhase1_alloc]; exact hg
  rw [commitAfterFlush_eq] at hok ⊢
  unfold commitAfterFlush' at hok ⊢
  dsimp only at hok ⊢
  cases hr : cWalRes f tx with
  | none => rw [hr] at hok; cases hok
  | some r =>
    obtain ⟨a, ta, regs⟩ := r
    rw [hr] at hok
    dsimp only at hok ⊢
    cases hc : fileCommitAlloc a ta (cAllocUpd f tx || !regs.isEmpty) with
    | none => rw [hc] at hok; cases hok
    | some r2 =>
      obtain ⟨a2, ta2, cs⟩ := r2
      dsimp only
      have pa0 := pa_init h1 hov
      have pa1 : PA f0 (cPhase1 f tx).1 a ta regs (cTx3 f tx).ta ∧ GapOK d0 a := by
        rcases cWalRes_cases f tx a ta regs hr with ⟨n, hn⟩ | ⟨rfl, rfl, rfl⟩
        · exact ⟨(pa_step he pa0 n a ta regs hn).1, g_metaAllocRegions d0 _ _ n a ta regs hg1 pa0.hovf hn⟩
        · exact ⟨pa0, hg1⟩
      rcases fileCommit_shape a ta _ a2 ta2 cs hc pa1.1.hok pa1.1.hok2 pa1.1.hovf with
        ⟨hu, rfl, rfl, hcm⟩ | ⟨-, regs2, hstep, hcm⟩
      · show GapOK d0 (a2.commit cs)
        rw [hcm]; exact pa1.2
      · have hg2 : GapOK d0 a2 := by
          rcases hstep with ⟨n, hn⟩ | ⟨rfl, rfl, rfl⟩
          · exact g_metaAllocRegions d0 a ta n a2 ta2 regs2 pa1.2 pa1.1.hovf hn
          · exact pa1.2
        show GapOK d0 (a2.commit cs)
        rw [hcm]; exact hg2

/-- one transaction of a history keeps `NoGap` -/
theorem runTxn_noGap (s : FileSt × List Nat) (he : EngInv s.1 s.2) (hg : NoGap s.1.alloc) (t : Txn) :
    NoGap (runTxn s t).1.alloc := by
  have hr := runinv_ops he t.ops _ (runInv_start s.1 s.2 he false t.growPct t.walLimit)
  have hm := noGap_le he hg
  have hov0 : (ERunSt.start s.1 s.2 false t.growPct t.walLimit).tx.ta.overflow = false := rfl
  have hgr := run_gap he t.ops _ (runInv_start s.1 s.2 he false t.growPct t.walLimit) hov0 hm
    ⟨hm, Or.inr hm⟩
  have hovr := (runOps_ovf t.ops (ERunSt.start s.1 s.2 false t.growPct t.walLimit)).trans hov0
  unfold runTxn
  dsimp only
  split
  · rw [(abort_spec he hr.tx).2.1]; exact hg
  · rename_i f2 tx2 ws hfl
    obtain ⟨h2, -⟩ := txinv_flushList he t.order _ _ hr.tx f2 tx2 ws hfl
    have hg2 := flushList_gap _ t.order _ _ f2 tx2 ws hfl hgr hovr
    have hov2 : tx2.ta.overflow = false := (flushList_ovf t.order _ _ f2 tx2 ws hfl).trans hovr
    split
    · rename_i hall
      split
      · rename_i hok
        exact gapOK_noGap (commit_gap he h2 (allFlushed_of_unflushed tx2 hall) hov2 hok _ hg2)
      · rename_i hfail
        rw [((commit_data he h2 (allFlushed_of_unflushed tx2 hall)).2 hfail).2.1]; exact hg
    · rw [(abort_spec he h2).2.1]; exact hg

/-- `NoGap` along any history (together with the invariant) -/
theorem runHistory_noGap (ts : List Txn) : ∀ (s : FileSt × List Nat), EngInv s.1 s.2 → NoGap s.1.alloc →
    NoGap (runHistory s ts).1.alloc := by
  induction ts with
  | nil => intro s _ hg; exact hg
  | cons t ts ih => intro s he hg; exact ih (runTxn s t) (runTxn_inv s he t) (runTxn_noGap s he hg t)

end TxVerif
