/-
  PORT of Proofs/EngineTraceG.lean to the lifetime invariant `EngInvU` (namespace `TxVerif.LT`; the lemmas of
  namespace `Ov` replaced by those of namespace `U`, Proofs/Lifetime*.lean). Original header:
-/
/-
  Lemmas for C01 over the engine model, part G: the defined pages along histories; a transaction that
  contains a successful write of a page leaves it dirty (`TxnDirty`).
-/
import TxVerif.Proofs.LifeTraceF
namespace TxVerif.LT

/-- a successful write anywhere in the operation list, and a final flush that succeeds: the page is dirty
    when the transaction comes to its commit -/
theorem txnDirty_of_write (s : FileSt × List Nat) (he : EngInvU s.1 s.2) (t : TxnO) (pre post : List EOp)
    (id : Nat) (mode : WMode) (st : Nat) (tx' : TxSt)
    (hops : t.ops = pre ++ [EOp.write id mode st] ++ post)
    (hid : id ∈ (runEOps (ERunSt.start s.1 s.2 t.overflow t.growPct t.walLimit) pre).cur)
    (hw : txWrite (runEOps (ERunSt.start s.1 s.2 t.overflow t.growPct t.walLimit) pre).f
      (runEOps (ERunSt.start s.1 s.2 t.overflow t.growPct t.walLimit) pre).tx id mode st = .ok tx')
    (f2 : FileSt) (tx2 : TxSt) (ws : List (Nat × Nat))
    (hfl : flushList (t.run s).f (t.run s).tx t.order = .ok (f2, tx2, ws)) : TxnDirty s t id := by
  have hr1 := U.runinv_ops he pre _ (runInvU_start s.1 s.2 he t.overflow t.growPct t.walLimit)
  have hr2 := U.runinv_step he _ (EOp.write id mode st) hr1
  have hd1 : DirtyAt ((EOp.write id mode st).step
      (runEOps (ERunSt.start s.1 s.2 t.overflow t.growPct t.walLimit) pre)).tx id := by
    simp only [EOp.step, hid, if_true, hw]
    exact dirtyAt_txWrite_self hr1.tx id mode st tx' hw
  have e : t.run s = runEOps ((EOp.write id mode st).step
      (runEOps (ERunSt.start s.1 s.2 t.overflow t.growPct t.walLimit) pre)) post := by
    unfold TxnO.run
    rw [hops, runOps_append, runOps_append]; rfl
  have hd2 := dirtyAt_ops he post _ hr2 id hd1
  rw [← e] at hd2
  have hr3 : U.RunInv s.1 s.2 (t.run s) := by rw [e]; exact U.runinv_ops he post _ hr2
  obtain ⟨p, hp, hdp⟩ := dirtyAt_flushList he t.order _ _ hr3.tx f2 tx2 ws hfl id hd2
  exact ⟨f2, tx2, ws, p, hfl, hp, hdp⟩

/-- a defined page stays defined as long as the client owns it, whatever the transactions do -/
theorem engNext_dfn_mono {e : EngCS} (ok : EngOk e) (t : TxnE) (id : Nat) (hd : id ∈ e.dfn)
    (hl : id ∈ (engNext e t).live) : id ∈ (engNext e t).dfn := by
  by_cases hc : t.t.commits (e.f, e.live)
  · exact engNext_dfn_complete ok t hc id hl (Or.inl hd)
  · rw [engNext_of_not_commits e t hc]; exact hd

theorem engRun_dfn_mono (ts : List TxnE) : ∀ {e : EngCS}, EngOk e → ∀ id, id ∈ e.dfn →
    (∀ k, k ≤ ts.length → id ∈ (engRun e (ts.take k)).live) → id ∈ (engRun e ts).dfn := by
  induction ts with
  | nil => intro e _ id hd _; exact hd
  | cons t ts ih =>
    intro e ok id hd hl
    rw [engRun_cons]
    apply ih (engOk_next ok t) id
    · apply engNext_dfn_mono ok t id hd
      have := hl 1 (by simp)
      simpa [engRun, List.take] using this
    · intro k hk
      have := hl (k + 1) (by simp only [List.length_cons]; omega)
      simpa only [List.take_succ_cons, engRun_cons] using this

/-! ### the engine history is `runHistoryO`; traces of concatenated histories -/

theorem engNext_state (e : EngCS) (t : TxnE) : ((engNext e t).f, (engNext e t).live) = runTxnO (e.f, e.live) t.t := by
  unfold engNext
  dsimp only
  split <;> rfl

/-- the committed states of the history with ghost data are those of `runHistoryO` -/
theorem engRun_state (ts : List TxnE) : ∀ e : EngCS,
    ((engRun e ts).f, (engRun e ts).live) = runHistoryO (e.f, e.live) (ts.map (·.t)) := by
  induction ts with
  | nil => intro e; rfl
  | cons t ts ih =>
    intro e
    rw [engRun_cons, ih (engNext e t), engNext_state]
    rfl

theorem histTrace_append (a b : List TxnE) : ∀ e : EngCS,
    histTrace e (a ++ b) = histTrace e a ++ histTrace (engRun e a) b := by
  induction a with
  | nil => intro e; rfl
  | cons t a ih =>
    intro e
    show engTrace e t ++ histTrace (engNext e t) (a ++ b) = (engTrace e t ++ histTrace (engNext e t) a) ++ _
    rw [ih, List.append_assoc]; rfl

theorem cfgRun_prefix_some (reachOf : Nat → List (Nat × Hash)) (a b : List TOp) (c c' : Cfg)
    (h : c.run reachOf (a ++ b) = some c') : ∃ c1, c.run reachOf a = some c1 ∧ c1.run reachOf b = some c' := by
  rw [cfgRun_append] at h
  cases h1 : c.run reachOf a with
  | none => rw [h1] at h; cases h
  | some c1 => rw [h1] at h; exact ⟨c1, rfl, h⟩

theorem histReachOK_take {reachOf : Nat → List (Nat × Hash)} {e : EngCS} {ts : List TxnE}
    (h : HistReachOK reachOf e ts) (j : Nat) : HistReachOK reachOf e (ts.take j) := by
  intro k hk
  have hk' : k ≤ j ∧ k ≤ ts.length := by
    rw [List.length_take] at hk; omega
  have : (ts.take j).take k = ts.take k := by
    rw [List.take_take]; congr 1; omega
  rw [this]
  exact h k hk'.2

/-- **position**: once the traces of the first `j` transactions are complete, and while the trace of the next
    one is running (any number `m` of its operations issued), the configuration's committed state is the
    state after `j` transactions or - only if the next transaction commits - the state after `j + 1`; a
    header in flight is that of the state after `j + 1` -/
theorem et_position {e0 : EngCS} (ok : EngOk e0) (ts : List TxnE) (j : Nat) (hj : j < ts.length) (m : Nat) :
    ∃ ck, e0.cfg.run (histReach e0 ts)
        (histTrace e0 (ts.take j) ++ (engTrace (engRun e0 (ts.take j)) ts[j]).take m) = some ck ∧
      (ck.aSt = (engRun e0 (ts.take j)).f.txid ∨
        (ck.aSt = (engRun e0 (ts.take (j + 1))).f.txid ∧
          ts[j].t.commits ((engRun e0 (ts.take j)).f, (engRun e0 (ts.take j)).live))) ∧
      (∀ st, ck.inflight = some st → st = (engRun e0 (ts.take (j + 1))).f.txid ∧
        ts[j].t.commits ((engRun e0 (ts.take j)).f, (engRun e0 (ts.take j)).live)) := by
  have hok := histReach_spec ok ts
  -- the first j transactions
  obtain ⟨cj, hrunj, repj⟩ := et_history_accepted (histReach e0 ts) (ts.take j) e0 e0.cfg ok (engRep_cfg e0)
    (histReachOK_take hok j)
  have okj := engOk_run ok (ts.take j)
  -- the next one
  have e1 : engRun e0 (ts.take (j + 1)) = engNext (engRun e0 (ts.take j)) ts[j] := by
    rw [List.take_succ_eq_append_getElem hj, engRun_snoc]
  have h0 := hok j (by omega)
  have h1 := hok (j + 1) (by omega)
  rw [e1] at h1
  obtain ⟨c1, hrun1, -⟩ := et_txn_accepted (histReach e0 ts) okj cj repj ts[j] h0 h1
  have hsplit : engTrace (engRun e0 (ts.take j)) ts[j] =
      (engTrace (engRun e0 (ts.take j)) ts[j]).take m ++ (engTrace (engRun e0 (ts.take j)) ts[j]).drop m :=
    (List.take_append_drop m _).symm
  rw [hsplit] at hrun1
  obtain ⟨ck, hrunk, -⟩ := cfgRun_prefix_some _ _ _ _ _ hrun1
  obtain ⟨n1, -⟩ := run_named (histReach e0 ts) _ cj ck hrunk
  have hhdr : ∀ s t st, TOp.hdr s t st ∈ (engTrace (engRun e0 (ts.take j)) ts[j]).take m →
      st = (engRun e0 (ts.take (j + 1))).f.txid ∧
        ts[j].t.commits ((engRun e0 (ts.take j)).f, (engRun e0 (ts.take j)).live) := by
    intro s t st hm
    obtain ⟨g1, g2, -⟩ := engTrace_hdr okj ts[j] s t st (List.mem_of_mem_take hm)
    rw [e1]; exact ⟨g2, g1⟩
  refine ⟨ck, cfgRun_append_some _ _ _ _ _ _ hrunj hrunk, ?_, ?_⟩
  · rcases n1 with h | h | ⟨s, t, hm⟩
    · left; rw [h, repj.st]
    · rw [repj.infl] at h; cases h
    · right; exact hhdr s t _ hm
  · intro st hst
    obtain ⟨s, t, hm⟩ := run_named_inflight (histReach e0 ts) _ cj ck hrunk repj.infl st hst
    exact hhdr s t st hm

end TxVerif.LT
