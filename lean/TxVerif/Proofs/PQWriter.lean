/-
  Lemmas for C05 (writer side): the writer model of Model/PQWriter.lean refines `layout`.
  See Props/C05Writer.lean for the property theorems.
-/
import TxVerif.Model.PQWriter
import TxVerif.Props.C05Layout
namespace TxVerif

/-! ## `buffer.Append`: fuel, composition of chunks -/

/-- steps `appendFuel` needs -/
def need (S : Nat) (cur : QPage) (data : List UInt8) : Nat :=
  2 * data.length + (if S - cur.payload.length = 0 then 1 else 0)

theorem need_le (S : Nat) (cur : QPage) (data : List UInt8) : need S cur data ≤ 2 * data.length + 1 := by
  unfold need; split <;> omega

theorem length_pos_of_ne {α : Type} {l : List α} (h : l ≠ []) : 1 ≤ l.length := by
  cases l with
  | nil => exact absurd rfl h
  | cons a l => simp

theorem appendFuel_stable (S : Nat) (hS : 1 ≤ S) : ∀ (f1 f2 : Nat) (cur : QPage) (data : List UInt8),
    need S cur data ≤ f1 → need S cur data ≤ f2 →
    appendFuel S f1 cur data = appendFuel S f2 cur data := by
  intro f1
  induction f1 with
  | zero =>
    intro f2 cur data h1 _
    have : data = [] := by
      cases data with
      | nil => rfl
      | cons a l => simp [need] at h1
    subst this
    rw [appendFuel_nil, appendFuel_nil]
  | succ a ih =>
    intro f2 cur data h1 h2
    by_cases hd : data = []
    · subst hd; rw [appendFuel_nil, appendFuel_nil]
    have hl := length_pos_of_ne hd
    cases f2 with
    | zero => unfold need at h2; omega
    | succ b =>
      by_cases h0 : S - cur.payload.length = 0
      · rw [appendFuel_adv S a cur data hd h0, appendFuel_adv S b cur data hd h0]
        have hf : ¬ (S - QPage.fresh.payload.length = 0) := by simp; omega
        have hn : need S QPage.fresh data = 2 * data.length := by
          unfold need; rw [if_neg hf]; rfl
        have h1' : 2 * data.length + 1 ≤ a + 1 := by unfold need at h1; rw [if_pos h0] at h1; exact h1
        have h2' : 2 * data.length + 1 ≤ b + 1 := by unfold need at h2; rw [if_pos h0] at h2; exact h2
        have e := ih b QPage.fresh data (by rw [hn]; omega) (by rw [hn]; omega)
        rw [e]
      · rw [appendFuel_copy S a cur data hd h0, appendFuel_copy S b cur data hd h0]
        have hn : need S { cur with payload := cur.payload ++ data.take (S - cur.payload.length) }
            (data.drop (S - cur.payload.length)) ≤ 2 * data.length - 1 := by
          refine Nat.le_trans (need_le _ _ _) ?_
          simp only [List.length_drop]; omega
        unfold need at h1 h2
        simp only [h0, if_false] at h1 h2
        exact ih b _ _ (by omega) (by omega)

theorem appendFuel_append (S : Nat) (hS : 1 ≤ S) : ∀ (f : Nat) (cur : QPage) (d1 d2 : List UInt8),
    need S cur (d1 ++ d2) ≤ f →
    appendFuel S f cur (d1 ++ d2) =
      ((appendFuel S f cur d1).1 ++ (appendFuel S f (appendFuel S f cur d1).2 d2).1,
       (appendFuel S f (appendFuel S f cur d1).2 d2).2) := by
  intro f
  induction f with
  | zero =>
    intro cur d1 d2 h
    have : d1 ++ d2 = [] := by
      cases hh : d1 ++ d2 with
      | nil => rfl
      | cons a l => rw [hh] at h; simp [need] at h
    have h1 : d1 = [] := (List.append_eq_nil_iff.mp this).1
    have h2 : d2 = [] := (List.append_eq_nil_iff.mp this).2
    subst h1; subst h2; rfl
  | succ a ih =>
    intro cur d1 d2 h
    by_cases hd1 : d1 = []
    · subst hd1; simp [appendFuel_nil]
    have hl1 := length_pos_of_ne hd1
    have hd : d1 ++ d2 ≠ [] := by simp [hd1]
    have hlen : (d1 ++ d2).length = d1.length + d2.length := List.length_append
    by_cases h0 : S - cur.payload.length = 0
    · have h' : 2 * (d1.length + d2.length) + 1 ≤ a + 1 := by
        unfold need at h; rw [if_pos h0, hlen] at h; exact h
      have hf : ¬ (S - QPage.fresh.payload.length = 0) := by simp; omega
      have e := ih QPage.fresh d1 d2 (by unfold need; rw [if_neg hf, hlen]; omega)
      rw [appendFuel_adv S a cur (d1 ++ d2) hd h0, appendFuel_adv S a cur d1 hd1 h0, e]
      have st := appendFuel_stable S hS (a + 1) a (appendFuel S a QPage.fresh d1).2 d2
        (Nat.le_trans (need_le _ _ _) (by omega)) (Nat.le_trans (need_le _ _ _) (by omega))
      simp only [st, List.cons_append]
    · have h' : 2 * (d1.length + d2.length) ≤ a + 1 := by
        unfold need at h; rw [if_neg h0, hlen] at h; exact h
      rw [appendFuel_copy S a cur (d1 ++ d2) hd h0, appendFuel_copy S a cur d1 hd1 h0]
      by_cases hn : S - cur.payload.length ≤ d1.length
      · rw [List.take_append_of_le_length hn, List.drop_append_of_le_length hn]
        have e := ih { cur with payload := cur.payload ++ d1.take (S - cur.payload.length) }
          (d1.drop (S - cur.payload.length)) d2
          (Nat.le_trans (need_le _ _ _) (by simp only [List.length_append, List.length_drop]; omega))
        rw [e]
        have st := appendFuel_stable S hS (a + 1) a
          (appendFuel S a { cur with payload := cur.payload ++ d1.take (S - cur.payload.length) }
            (d1.drop (S - cur.payload.length))).2 d2
          (Nat.le_trans (need_le _ _ _) (by omega)) (Nat.le_trans (need_le _ _ _) (by omega))
        rw [st]
      · have hn' : d1.length ≤ S - cur.payload.length := by omega
        rw [List.take_of_length_le hn', List.drop_of_length_le hn', appendFuel_nil]
        simp only [List.nil_append]
        rw [List.take_append, List.drop_append, List.take_of_length_le hn', List.drop_of_length_le hn']
        by_cases hd2 : d2 = []
        · subst hd2; simp [appendFuel_nil]
        · have h0' : ¬ (S - ({ cur with payload := cur.payload ++ d1 } : QPage).payload.length = 0) := by
            simp only [List.length_append]; omega
          rw [appendFuel_copy S a _ d2 hd2 h0']
          simp only [List.length_append, List.nil_append, List.append_assoc]
          have : S - (cur.payload.length + d1.length) = S - cur.payload.length - d1.length := by omega
          rw [this]

theorem appendData_append (S : Nat) (hS : 1 ≤ S) (cur : QPage) (d1 d2 : List UInt8) :
    appendData S cur (d1 ++ d2) =
      ((appendData S cur d1).1 ++ (appendData S (appendData S cur d1).2 d2).1,
       (appendData S (appendData S cur d1).2 d2).2) := by
  unfold appendData
  have hlen : (d1 ++ d2).length = d1.length + d2.length := List.length_append
  rw [appendFuel_append S hS _ cur d1 d2 (need_le _ _ _)]
  have s1 := appendFuel_stable S hS (2 * (d1 ++ d2).length + 1) (2 * d1.length + 1) cur d1
    (Nat.le_trans (need_le _ _ _) (by omega)) (need_le _ _ _)
  rw [s1]
  have s2 := appendFuel_stable S hS (2 * (d1 ++ d2).length + 1) (2 * d2.length + 1)
    (appendFuel S (2 * d1.length + 1) cur d1).2 d2
    (Nat.le_trans (need_le _ _ _) (by omega)) (need_le _ _ _)
  rw [s2]

@[simp] theorem chain_mk (l : List QPage) (c : QPage) : chain (l, c) = l ++ [c] := rfl

theorem chain_appendData_append (S : Nat) (hS : 1 ≤ S) (cur : QPage) (d1 d2 : List UInt8) :
    chain (appendData S cur (d1 ++ d2)) =
      (appendData S cur d1).1 ++ chain (appendData S (appendData S cur d1).2 d2) := by
  rw [appendData_append S hS]; simp [chain]

theorem appendData_nil (S : Nat) (cur : QPage) : appendData S cur [] = ([], cur) := by
  unfold appendData; rw [appendFuel_nil]

/-- `f` changes header fields / bytes below offset `m` only -/
def HeadFn (m : Nat) (f : QPage → QPage) : Prop :=
  ∀ (p : QPage), m ≤ p.payload.length →
    (f p).payload.length = p.payload.length ∧
    ∀ x : List UInt8, f { p with payload := p.payload ++ x } = { f p with payload := (f p).payload ++ x }

theorem appendFuel_headFn (S m : Nat) (f : QPage → QPage) (hf : HeadFn m f) :
    ∀ (fuel : Nat) (cur : QPage) (data : List UInt8), m ≤ cur.payload.length →
      chain (appendFuel S fuel (f cur) data) = (chain (appendFuel S fuel cur data)).modifyHead f := by
  intro fuel
  induction fuel with
  | zero => intro cur data _; simp [appendFuel, chain]
  | succ a ih =>
    intro cur data hm
    by_cases hd : data = []
    · subst hd; simp [appendFuel_nil, chain]
    have hl := (hf cur hm).1
    by_cases h0 : S - cur.payload.length = 0
    · rw [appendFuel_adv S a cur data hd h0, appendFuel_adv S a (f cur) data hd (by rw [hl]; exact h0)]
      simp [chain]
    · rw [appendFuel_copy S a cur data hd h0, appendFuel_copy S a (f cur) data hd (by rw [hl]; exact h0)]
      rw [hl, ← (hf cur hm).2]
      exact ih _ _ (by simp only [List.length_append]; omega)

theorem appendData_headFn (S m : Nat) (f : QPage → QPage) (hf : HeadFn m f) (cur : QPage)
    (data : List UInt8) (hm : m ≤ cur.payload.length) :
    chain (appendData S (f cur) data) = (chain (appendData S cur data)).modifyHead f :=
  appendFuel_headFn S m f hf _ cur data hm

/-- `ReserveHdr`: 4 bytes reserved behind the bytes written so far -/
def withHdr0 (p : QPage) : QPage := { p with payload := p.payload ++ [0, 0, 0, 0] }

/-- what `Next` does to `eventHdrPage`: size into the reserved header, `CommitEvent` fields -/
def finishHdr (off sz id : Nat) (p : QPage) : QPage := commitMeta (setHdr p off sz) off id

theorem finishHdr_withHdr0 (hb : QPage) (sz id : Nat) :
    finishHdr (28 + hb.payload.length) sz id (withHdr0 hb) = commitHdr hb id sz := by
  simp [finishHdr, withHdr0, commitMeta, setHdr, commitHdr]

theorem finishHdr_headFn (n sz id : Nat) : HeadFn (n + 4) (finishHdr (28 + n) sz id) := by
  intro p hp
  have e : 28 + n - 28 = n := by omega
  refine ⟨?_, fun x => ?_⟩
  · simp only [finishHdr, commitMeta, setHdr, e, List.length_append, List.length_take,
      List.length_drop, le32_length]
    omega
  · simp only [finishHdr, commitMeta, setHdr, e]
    rw [List.take_append_of_le_length (by omega), List.drop_append_of_le_length (by omega)]
    simp

theorem chain_commit (S : Nat) (hb : QPage) (id : Nat) (e : List UInt8) :
    chain (appendData S (commitHdr hb id e.length) e) =
      (chain (appendData S (withHdr0 hb) e)).modifyHead (finishHdr (28 + hb.payload.length) e.length id) := by
  rw [← finishHdr_withHdr0]
  exact appendData_headFn S (hb.payload.length + 4) _ (finishHdr_headFn _ _ _) _ e
    (by simp [withHdr0])

theorem appendFuel_chain_head (S : Nat) : ∀ (fuel : Nat) (c : QPage) (d : List UInt8),
    ∃ x rest, chain (appendFuel S fuel c d) = { c with payload := c.payload ++ x } :: rest := by
  intro fuel
  induction fuel with
  | zero => intro c d; exact ⟨[], [], by simp [appendFuel, chain]⟩
  | succ a ih =>
    intro c d
    by_cases hd : d = []
    · subst hd; exact ⟨[], [], by simp [appendFuel_nil, chain]⟩
    by_cases h0 : S - c.payload.length = 0
    · rw [appendFuel_adv S a c d hd h0]
      exact ⟨[], _, by simp [chain]; rfl⟩
    · rw [appendFuel_copy S a c d hd h0]
      obtain ⟨x, rest, e⟩ := ih { c with payload := c.payload ++ d.take (S - c.payload.length) }
        (d.drop (S - c.payload.length))
      exact ⟨d.take (S - c.payload.length) ++ x, rest, by rw [e]; simp⟩

theorem appendData_chain_head (S : Nat) (c : QPage) (d : List UInt8) :
    ∃ x rest, chain (appendData S c d) = { c with payload := c.payload ++ x } :: rest :=
  appendFuel_chain_head S _ c d

/-! ## rendering, cutting at the tail -/

theorem render_full (S : Nat) (p : QPage) (h : p.payload.length = S) : render S p = p := by
  cases p; simp_all [render]

theorem map_render_full (S : Nat) (l : List QPage) (h : ∀ p ∈ l, p.payload.length = S) :
    l.map (render S) = l := by
  induction l with
  | nil => rfl
  | cons a l ih =>
    rw [List.map_cons, render_full S a (h a (by simp)), ih (fun p hp => h p (by simp [hp]))]

theorem cutAt_concat (xs : List QPage) (p : QPage) (off : Nat) :
    cutAt (xs ++ [p]) off = xs ++ [{ p with payload := p.payload.take (off - 28) }] := by
  induction xs with
  | nil => rfl
  | cons a l ih =>
    cases l with
    | nil => simp [cutAt]
    | cons b l => simp only [List.cons_append, cutAt] at ih ⊢; rw [ih]

/-- the rendered page cut where the page ended gives the page back -/
theorem cut_render (S : Nat) (c : QPage) (x : List UInt8) :
    ({ render S { c with payload := c.payload ++ x } with
        payload := (render S { c with payload := c.payload ++ x }).payload.take (28 + c.payload.length - 28) } : QPage) = c := by
  cases c; simp [render]

theorem cut_render_self (S : Nat) (c : QPage) :
    ({ render S c with payload := (render S c).payload.take (28 + c.payload.length - 28) } : QPage) = c := by
  cases c; simp [render]

theorem reserveHdr_pad_render (S : Nat) (c : QPage) (h : S - c.payload.length < 4) :
    reserveHdr S c = ([render S c], QPage.fresh) := by
  simp [reserveHdr, h, render]

theorem concat_inj {α : Type} {xs ys : List α} {a b : α} (h : xs ++ [a] = ys ++ [b]) : xs = ys ∧ a = b := by
  have := List.append_inj' h rfl
  exact ⟨this.1, by simpa using this.2⟩

/-! ## the specification side -/

theorem writeEvents_append (S : Nat) : ∀ (pre suf : List (List UInt8)) (cur : QPage) (id : Nat),
    writeEvents S cur id (pre ++ suf) =
      ((writeEvents S cur id pre).1 ++ (writeEvents S (writeEvents S cur id pre).2 (id + pre.length) suf).1,
       (writeEvents S (writeEvents S cur id pre).2 (id + pre.length) suf).2) := by
  intro pre
  induction pre with
  | nil => intro suf cur id; simp [writeEvents]
  | cons e es ih =>
    intro suf cur id
    have : id + 1 + es.length = id + (e :: es).length := by simp; omega
    simp only [List.cons_append, writeEvents, ih, this, List.append_assoc]

theorem writeEvents_full (S : Nat) (h4 : 4 ≤ S) : ∀ (evs : List (List UInt8)) (cur : QPage) (id : Nat),
    cur.payload.length ≤ S → ∀ p ∈ (writeEvents S cur id evs).1, p.payload.length = S := by
  intro evs
  induction evs with
  | nil => intro cur id _ p hp; simp [writeEvents] at hp
  | cons e es ih =>
    intro cur id hlen p hp
    simp only [writeEvents, List.mem_append] at hp
    rcases hp with hp | hp
    · exact writeEvent_full S h4 cur id e hlen p hp
    · exact ih _ _ (writeEvent_len S h4 cur id e hlen) p hp

/-! ## the invariant -/

/-- complete pages after the finished events `fin` (lazy header reservation, as in `layout`) -/
def gW (S id0 : Nat) (fin : List (List UInt8)) : List QPage := (writeEvents S QPage.fresh id0 fin).1
/-- current page after the finished events -/
def gc (S id0 : Nat) (fin : List (List UInt8)) : QPage := (writeEvents S QPage.fresh id0 fin).2
/-- the next header does not fit into the current page -/
def gpad (S id0 : Nat) (fin : List (List UInt8)) : Prop := S - (gc S id0 fin).payload.length < 4
/-- the page the next header goes to, before the reservation -/
def ghb (S id0 : Nat) (fin : List (List UInt8)) : QPage := (reserveHdr S (gc S id0 fin)).2

/-- `layout` with the payload size as parameter -/
def layoutS (S id0 : Nat) (evs : List (List UInt8)) : List QPage :=
  if evs.isEmpty then [] else layoutFrom S QPage.fresh id0 evs

theorem layout_eq_layoutS (P id0 : Nat) (evs : List (List UInt8)) : layout P id0 evs = layoutS (P - 28) id0 evs := rfl

theorem layoutS_ne (S id0 : Nat) (fin : List (List UInt8)) (h : fin ≠ []) :
    layoutS S id0 fin = gW S id0 fin ++ [gc S id0 fin] := by
  cases fin with
  | nil => exact absurd rfl h
  | cons e es => simp [layoutS, gW, gc, layoutFrom_eq_writeEvents]

def WState.hpDirty (s : WState) : Bool :=
  match s.ev with
  | [] => false
  | h :: _ => h.dirty

def WState.headAssigned (s : WState) : Bool :=
  match s.pre, s.ev with
  | x :: _, _ => x.assigned
  | [], h :: _ => h.assigned
  | [], [] => false

/-- Abstraction relation between a writer state and (finished events, bytes of the event in
    progress).  `D` = the pages already released from the buffer (all on disk). -/
structure BufInv (S id0 : Nat) (s : WState) (fin : List (List UInt8)) (cur : List UInt8) : Prop where
  ev_eq : s.ev.map (·.q) = chain (appendData S (withHdr0 (ghb S id0 fin)) cur)
  hdrOff_eq : s.hdrOff = 28 + (ghb S id0 fin).payload.length
  bytes_eq : s.eventBytes = cur.length
  id_eq : s.eventID = id0 + fin.length
  disk : ∃ D : List QPage,
    (D ++ s.pre.map (·.q)).map (render S) = gW S id0 fin ++ (reserveHdr S (gc S id0 fin)).1 ∧
    (s.headAssigned = true → s.persisted.dropLast = D.map (render S)) ∧
    (s.headAssigned = false → D = [] ∧ s.persisted = [])
  padlast : gpad S id0 fin → ∃ pre0 x, s.pre = pre0 ++ [x] ∧ x.q = gc S id0 fin
  vis : s.visible = layoutS S id0 (fin.take (s.tailId - id0))
  tail_ge : id0 ≤ s.tailId
  tail_le : s.tailId ≤ id0 + fin.length
  flags : (s.pre.length ≤ 1 ∧ (∀ p ∈ s.pre, p.dirty = false) ∧ s.hpDirty = false ∧
            s.tailId = id0 + fin.length) ∨
          (fin ≠ [] ∧ (∀ p ∈ s.pre, p.dirty = true) ∧ (s.hpDirty = true ↔ ¬ gpad S id0 fin))
  /-- the persisted tail offset is the end of the layout of the persisted events -/
  tailOff_eq : s.tailOff = if s.tailId = id0 then 0 else
    28 + (gc S id0 (fin.take (s.tailId - id0))).payload.length

theorem BufInv_init (S pages id0 : Nat) (h4 : 4 ≤ S) : BufInv S id0 (WState.init S pages id0) [] [] := by
  have hb : ghb S id0 [] = QPage.fresh := by
    have : ¬ S < 4 := by omega
    simp [ghb, gc, writeEvents, reserveHdr, this]
  have hp : ¬ gpad S id0 [] := by simp [gpad, gc, writeEvents]; omega
  refine ⟨?_, ?_, rfl, rfl, ⟨[], ?_, ?_, ?_⟩, fun h => absurd h hp, ?_, Nat.le_refl _, Nat.le_refl _, ?_, ?_⟩
  · rw [hb, appendData_nil]; rfl
  · rw [hb]; rfl
  · have : ¬ S < 4 := by omega
    simp [WState.init, gW, gc, writeEvents, reserveHdr, this]
  · intro h; simp [WState.init, WState.headAssigned, BPage.new] at h
  · intro _; exact ⟨rfl, rfl⟩
  · simp [WState.visible, WState.init, cutAt, layoutS]
  · left; simp [WState.init, WState.hpDirty, BPage.new]
  · simp [WState.init]

/-! ## `Append` keeps the invariant -/

theorem bufAppend_concat (S : Nat) (L : List BPage) (b : BPage) (p : List UInt8) :
    ∃ c' rest, chain (appendData S b.q p) = c' :: rest ∧
      bufAppend S (L ++ [b]) p = L ++ { b with q := c' } :: rest.map fun q => { BPage.new with q := q } := by
  obtain ⟨x, rest, e⟩ := appendData_chain_head S b.q p
  refine ⟨_, rest, e, ?_⟩
  simp only [bufAppend, List.getLast?_concat, e, List.dropLast_concat]

theorem bufAppend_q (S : Nat) (L : List BPage) (b : BPage) (p : List UInt8) :
    (bufAppend S (L ++ [b]) p).map (·.q) = L.map (·.q) ++ chain (appendData S b.q p) := by
  obtain ⟨c', rest, e, h⟩ := bufAppend_concat S L b p
  rw [h, e]; simp [Function.comp_def]

theorem bufAppend_head (S : Nat) (L : List BPage) (b : BPage) (p : List UInt8) :
    ∃ h t h2 t2, L ++ [b] = h :: t ∧ bufAppend S (L ++ [b]) p = h2 :: t2 ∧
      h2.dirty = h.dirty ∧ h2.assigned = h.assigned := by
  obtain ⟨c', rest, e, h⟩ := bufAppend_concat S L b p
  rw [h]
  cases L with
  | nil => exact ⟨b, [], _, _, rfl, rfl, rfl, rfl⟩
  | cons a L => exact ⟨a, L ++ [b], a, _, rfl, rfl, rfl, rfl⟩

/-- the buffer part of `Write` -/
def WState.appendS (S : Nat) (s : WState) (p : List UInt8) (a : Int) : WState :=
  { s with ev := bufAppend S s.ev p, avail := a, eventBytes := s.eventBytes + p.length }

theorem BufInv_append (S id0 : Nat) (hS : 1 ≤ S) (s : WState) (fin : List (List UInt8)) (cur p : List UInt8)
    (a : Int) (h : BufInv S id0 s fin cur) :
    BufInv S id0 (s.appendS S p a) fin (cur ++ p) := by
  have hev := h.ev_eq
  rcases List.eq_nil_or_concat s.ev with e0 | ⟨L, b, e0⟩
  · rw [e0] at hev; simp [chain] at hev
  rw [List.concat_eq_append] at e0
  rw [e0] at hev
  simp only [List.map_append, List.map_cons, List.map_nil, chain] at hev
  have hLb := concat_inj hev
  obtain ⟨hd, tl, hd2, tl2, e1, e2, e3, e4⟩ := bufAppend_head S L b p
  rw [e1] at e2
  have hdirty : (s.appendS S p a).hpDirty = s.hpDirty := by
    simp only [WState.hpDirty, WState.appendS, e0, e1, e2, e3]
  have hass : (s.appendS S p a).headAssigned = s.headAssigned := by
    simp only [WState.headAssigned, WState.appendS, e0, e1, e2]
    cases s.pre <;> simp [e4]
  refine ⟨?_, h.hdrOff_eq, ?_, h.id_eq, ?_, h.padlast, h.vis, h.tail_ge, h.tail_le, ?_, h.tailOff_eq⟩
  · show (bufAppend S s.ev p).map (·.q) = _
    rw [e0, bufAppend_q, chain_appendData_append S hS, hLb.1, hLb.2]
  · show s.eventBytes + p.length = (cur ++ p).length
    rw [h.bytes_eq, List.length_append]
  · rw [hass]; exact h.disk
  · rw [hdirty]; exact h.flags

/-! ## `flushBuffer` keeps the invariant and persists all finished events -/

theorem BufInv_ev_cons (S id0 : Nat) (s : WState) (fin : List (List UInt8)) (cur : List UInt8)
    (h : BufInv S id0 s fin cur) :
    ∃ hp post x, s.ev = hp :: post ∧
      hp.q = { ghb S id0 fin with payload := (ghb S id0 fin).payload ++ [0, 0, 0, 0] ++ x } := by
  obtain ⟨x, rest, e⟩ := appendData_chain_head S (withHdr0 (ghb S id0 fin)) cur
  have hev := h.ev_eq
  rw [e] at hev
  cases he : s.ev with
  | nil => rw [he] at hev; simp at hev
  | cons hp post =>
    rw [he] at hev
    simp only [List.map_cons, List.cons.injEq] at hev
    exact ⟨hp, post, x, rfl, by rw [hev.1]; simp [withHdr0]⟩

/-- `activeEventCount` is not part of the abstraction -/
theorem BufInv_count (S id0 : Nat) (s : WState) (fin : List (List UInt8)) (cur : List UInt8) (n : Nat)
    (h : BufInv S id0 s fin cur) : BufInv S id0 { s with activeEventCount := n } fin cur :=
  ⟨h.ev_eq, h.hdrOff_eq, h.bytes_eq, h.id_eq, h.disk, h.padlast, h.vis, h.tail_ge, h.tail_le, h.flags, h.tailOff_eq⟩

theorem BufInv_flush_clean (S id0 : Nat) (s : WState) (fin : List (List UInt8)) (cur : List UInt8)
    (h : BufInv S id0 s fin cur)
    (hc : s.pre.length ≤ 1 ∧ (∀ p ∈ s.pre, p.dirty = false) ∧ s.hpDirty = false ∧
            s.tailId = id0 + fin.length) :
    flushBuffer S s = { s with activeEventCount := 0 } := by
  obtain ⟨hp, post, x, e0, _⟩ := BufInv_ev_cons S id0 s fin cur h
  have hd : hp.dirty = false := by simpa [WState.hpDirty, e0] using hc.2.2.1
  unfold flushBuffer
  rw [e0]
  cases hpre : s.pre with
  | nil => simp [hd]
  | cons y ys =>
    have : y.dirty = false := hc.2.1 y (by rw [hpre]; simp)
    simp [this]

/-- `Pages`/`Reset` when `eventHdrPage` is dirty: everything up to and including it is flushed -/
theorem flushBuffer_hpDirty (S : Nat) (s : WState) (hp : BPage) (post : List BPage)
    (e0 : s.ev = hp :: post) (hd : hp.dirty = true) (hpre : ∀ p ∈ s.pre, p.dirty = true) :
    flushBuffer S s =
      { s with
        activeEventCount := 0
        persisted := (if s.headAssigned then s.persisted.dropLast else s.persisted) ++
          (s.pre ++ [hp]).map fun p => render S p.q
        tailOff := s.hdrOff
        tailId := s.eventID
        pre := []
        ev := { hp with dirty := false, assigned := true } :: post
        avail := s.avail + ((s.pre.map fun p => (p.q.payload.length : Int)).sum) } := by
  unfold flushBuffer
  rw [e0]
  cases hp0 : s.pre with
  | nil => simp [hd, WState.headAssigned, hp0, e0]
  | cons y ys =>
    have : y.dirty = true := hpre y (by rw [hp0]; simp)
    simp only [hd, this, WState.headAssigned, hp0, e0, List.getLast?_concat, List.dropLast_concat,
      Bool.not_true, if_true, Bool.false_eq_true, if_false]

/-- `Pages`/`Reset` when `eventHdrPage` is clean: the pages before it are flushed, the last of
    them stays in the buffer -/
theorem flushBuffer_hpClean (S : Nat) (s : WState) (hp : BPage) (post pre0 : List BPage) (x : BPage)
    (e0 : s.ev = hp :: post) (hd : hp.dirty = false) (e1 : s.pre = pre0 ++ [x])
    (hpre : ∀ p ∈ s.pre, p.dirty = true) :
    flushBuffer S s =
      { s with
        activeEventCount := 0
        persisted := (if s.headAssigned then s.persisted.dropLast else s.persisted) ++
          (pre0 ++ [x]).map fun p => render S p.q
        tailOff := 28 + x.q.payload.length
        tailId := s.eventID
        pre := [{ x with dirty := false, assigned := true }]
        avail := s.avail + ((pre0.map fun p => (p.q.payload.length : Int)).sum) } := by
  unfold flushBuffer
  rw [e0]
  have hh : ∃ y ys, pre0 ++ [x] = y :: ys ∧ y.dirty = true := by
    cases pre0 with
    | nil => exact ⟨x, [], rfl, hpre x (by rw [e1]; simp)⟩
    | cons y ys => exact ⟨y, ys ++ [x], rfl, hpre y (by rw [e1]; simp)⟩
  obtain ⟨y, ys, e2, hy⟩ := hh
  have e3 : s.pre = y :: ys := by rw [e1, e2]
  simp only [e3, hy, hd, WState.headAssigned]
  rw [← e2]
  simp

theorem keep_eq (S : Nat) (s : WState) (D : List QPage)
    (hD2 : s.headAssigned = true → s.persisted.dropLast = D.map (render S))
    (hD3 : s.headAssigned = false → D = [] ∧ s.persisted = []) :
    (if s.headAssigned then s.persisted.dropLast else s.persisted) = D.map (render S) := by
  cases hA : s.headAssigned with
  | true => simpa using hD2 hA
  | false => have := hD3 hA; simp [this.1, this.2]

/-- a page cut at page offset `off` -/
def cutPage (p : QPage) (off : Nat) : QPage := { p with payload := p.payload.take (off - 28) }

theorem cutAt_concat_cutPage (xs : List QPage) (p : QPage) (off : Nat) :
    cutAt (xs ++ [p]) off = xs ++ [cutPage p off] := cutAt_concat xs p off

theorem cutPage_render (S : Nat) (q c : QPage) (x : List UInt8) (h1 : q.first = c.first)
    (h2 : q.last = c.last) (h3 : q.off = c.off) (h4 : q.payload = c.payload ++ x) :
    cutPage (render S q) (28 + c.payload.length) = c := by
  cases q; cases c; simp_all [cutPage, render]

theorem BufInv_flush_A (S id0 : Nat) (s : WState) (fin : List (List UInt8)) (cur : List UInt8)
    (h : BufInv S id0 s fin cur)
    (hf : fin ≠ [] ∧ (∀ p ∈ s.pre, p.dirty = true) ∧ (s.hpDirty = true ↔ ¬ gpad S id0 fin))
    (hnp : ¬ gpad S id0 fin) :
    BufInv S id0 (flushBuffer S s) fin cur ∧ (flushBuffer S s).tailId = id0 + fin.length := by
  obtain ⟨hp, post, x, e0, hq⟩ := BufInv_ev_cons S id0 s fin cur h
  have hd : hp.dirty = true := by
    have := hf.2.2.mpr hnp
    simpa [WState.hpDirty, e0] using this
  have hr : reserveHdr S (gc S id0 fin) = ([], gc S id0 fin) := reserveHdr_nopad S _ hnp
  have hb : ghb S id0 fin = gc S id0 fin := by unfold ghb; rw [hr]
  obtain ⟨D, hD1, hD2, hD3⟩ := h.disk
  have hk := keep_eq S s D hD2 hD3
  rw [hr] at hD1
  simp only [List.append_nil] at hD1
  rw [flushBuffer_hpDirty S s hp post e0 hd hf.2.1, hk]
  refine ⟨⟨?_, h.hdrOff_eq, h.bytes_eq, h.id_eq, ⟨D ++ s.pre.map (·.q), ?_, ?_, ?_⟩,
    fun hh => absurd hh hnp, ?_, ?_, ?_, ?_, ?_⟩, h.id_eq⟩
  · rw [← h.ev_eq, e0]; rfl
  · rw [hr]; simpa using hD1
  · intro _
    show (_ ++ List.map _ (s.pre ++ [hp])).dropLast = _
    rw [List.map_append, ← List.append_assoc]
    simp
  · intro hh; simp [WState.headAssigned] at hh
  · show cutAt (_ ++ List.map _ (s.pre ++ [hp])) s.hdrOff = layoutS S id0 (fin.take (s.eventID - id0))
    have e1 : s.eventID - id0 = fin.length := by rw [h.id_eq]; omega
    rw [e1, List.take_length, layoutS_ne S id0 fin hf.1, List.map_append, ← List.append_assoc]
    simp only [List.map_cons, List.map_nil]
    rw [cutAt_concat_cutPage, h.hdrOff_eq, hb,
      cutPage_render S hp.q (gc S id0 fin) ([0, 0, 0, 0] ++ x) (by rw [hq, hb]) (by rw [hq, hb])
        (by rw [hq, hb]) (by rw [hq, hb]; simp)]
    have : List.map (render S) D ++ List.map (fun p => render S p.q) s.pre = gW S id0 fin := by
      rw [← hD1]; simp
    rw [this]
  · show id0 ≤ s.eventID
    rw [h.id_eq]; omega
  · show s.eventID ≤ _
    rw [h.id_eq]; omega
  · left
    exact ⟨by simp, by simp, by simp [WState.hpDirty], h.id_eq⟩
  · show s.hdrOff = if s.eventID = id0 then 0 else
      28 + (gc S id0 (fin.take (s.eventID - id0))).payload.length
    have e1 : s.eventID - id0 = fin.length := by rw [h.id_eq]; omega
    have e2 : ¬ (s.eventID = id0) := by
      have := length_pos_of_ne hf.1
      rw [h.id_eq]; omega
    rw [if_neg e2, e1, List.take_length, h.hdrOff_eq, hb]

theorem BufInv_flush_B (S id0 : Nat) (s : WState) (fin : List (List UInt8)) (cur : List UInt8)
    (h : BufInv S id0 s fin cur)
    (hf : fin ≠ [] ∧ (∀ p ∈ s.pre, p.dirty = true) ∧ (s.hpDirty = true ↔ ¬ gpad S id0 fin))
    (hpad : gpad S id0 fin) :
    BufInv S id0 (flushBuffer S s) fin cur ∧ (flushBuffer S s).tailId = id0 + fin.length := by
  obtain ⟨hp, post, _, e0, _⟩ := BufInv_ev_cons S id0 s fin cur h
  have hdd : s.hpDirty = false := by
    cases hh : s.hpDirty with
    | false => rfl
    | true => exact absurd hpad (hf.2.2.mp hh)
  have hd : hp.dirty = false := by simpa [WState.hpDirty, e0] using hdd
  obtain ⟨pre0, x, e1, hx⟩ := h.padlast hpad
  have hr : reserveHdr S (gc S id0 fin) = ([render S (gc S id0 fin)], QPage.fresh) :=
    reserveHdr_pad_render S _ hpad
  obtain ⟨D, hD1, hD2, hD3⟩ := h.disk
  have hk := keep_eq S s D hD2 hD3
  rw [hr, e1] at hD1
  have hD1' : List.map (render S) (D ++ pre0.map (·.q)) ++ [render S x.q] =
      gW S id0 fin ++ [render S (gc S id0 fin)] := by
    rw [← hD1]; simp
  have hW := (concat_inj hD1').1
  rw [flushBuffer_hpClean S s hp post pre0 x e0 hd e1 hf.2.1, hk]
  refine ⟨⟨h.ev_eq, h.hdrOff_eq, h.bytes_eq, h.id_eq, ⟨D ++ pre0.map (·.q), ?_, ?_, ?_⟩,
    fun _ => ⟨[], _, rfl, hx⟩, ?_, ?_, ?_, ?_, ?_⟩, h.id_eq⟩
  · rw [hr, ← hD1']; simp
  · intro _
    show (_ ++ List.map _ (pre0 ++ [x])).dropLast = _
    rw [List.map_append, ← List.append_assoc]
    simp
  · intro hh; simp [WState.headAssigned] at hh
  · show cutAt (_ ++ List.map _ (pre0 ++ [x])) (28 + x.q.payload.length) =
      layoutS S id0 (fin.take (s.eventID - id0))
    have e2 : s.eventID - id0 = fin.length := by rw [h.id_eq]; omega
    rw [e2, List.take_length, layoutS_ne S id0 fin hf.1, List.map_append, ← List.append_assoc]
    simp only [List.map_cons, List.map_nil]
    rw [cutAt_concat_cutPage, cutPage_render S x.q x.q [] rfl rfl rfl (by simp), hx]
    have : List.map (render S) D ++ List.map (fun p => render S p.q) pre0 = gW S id0 fin := by
      rw [← hW]; simp
    rw [this]
  · show id0 ≤ s.eventID
    rw [h.id_eq]; omega
  · show s.eventID ≤ _
    rw [h.id_eq]; omega
  · left
    refine ⟨by simp, by simp, ?_, h.id_eq⟩
    simpa [WState.hpDirty, e0] using hd
  · show 28 + x.q.payload.length = if s.eventID = id0 then 0 else
      28 + (gc S id0 (fin.take (s.eventID - id0))).payload.length
    have e2 : s.eventID - id0 = fin.length := by rw [h.id_eq]; omega
    have e3 : ¬ (s.eventID = id0) := by
      have := length_pos_of_ne hf.1
      rw [h.id_eq]; omega
    rw [if_neg e3, e2, List.take_length, hx]

theorem BufInv_flush (S id0 : Nat) (s : WState) (fin : List (List UInt8)) (cur : List UInt8)
    (h : BufInv S id0 s fin cur) :
    BufInv S id0 (flushBuffer S s) fin cur ∧ (flushBuffer S s).tailId = id0 + fin.length := by
  rcases h.flags with hc | hf
  · rw [BufInv_flush_clean S id0 s fin cur h hc]
    exact ⟨BufInv_count S id0 s fin cur 0 h, hc.2.2.2⟩
  · by_cases hpad : gpad S id0 fin
    · exact BufInv_flush_B S id0 s fin cur h hf hpad
    · exact BufInv_flush_A S id0 s fin cur h hf hpad

/-! ## `Next` -/

theorem ghost_next (S id0 : Nat) (fin : List (List UInt8)) (cur : List UInt8) :
    gW S id0 (fin ++ [cur]) = gW S id0 fin ++ (reserveHdr S (gc S id0 fin)).1 ++
        (appendData S (commitHdr (ghb S id0 fin) (id0 + fin.length) cur.length) cur).1 ∧
    gc S id0 (fin ++ [cur]) =
        (appendData S (commitHdr (ghb S id0 fin) (id0 + fin.length) cur.length) cur).2 := by
  unfold gW gc ghb
  rw [writeEvents_append]
  simp [writeEvents, writeEvent, gc]

theorem commitEvent_pre (s : WState) :
    (commitEvent s).1.map (·.q) = s.pre.map (·.q) ∧
    (commitEvent s).1.map (·.assigned) = s.pre.map (·.assigned) ∧
    (commitEvent s).1.length = s.pre.length := by
  unfold commitEvent
  cases s.pre with
  | nil => simp
  | cons x l =>
    cases l with
    | nil => simp [BPage.markDirty]
    | cons y l => simp

theorem commitEvent_pre_dirty (s : WState)
    (h : (s.pre.length ≤ 1) ∨ (∀ p ∈ s.pre, p.dirty = true)) :
    ∀ p ∈ (commitEvent s).1, p.dirty = true := by
  unfold commitEvent
  cases hp : s.pre with
  | nil => simp
  | cons x l =>
    cases l with
    | nil => simp [BPage.markDirty]
    | cons y l =>
      rcases h with h | h
      · rw [hp] at h; simp at h
      · rw [hp] at h; simpa using h

theorem commitEvent_ev (s : WState) :
    (commitEvent s).2.map (·.q) =
      (s.ev.map (·.q)).modifyHead (finishHdr s.hdrOff s.eventBytes s.eventID) ∧
    (commitEvent s).2.map (·.assigned) = s.ev.map (·.assigned) ∧
    ∀ p ∈ (commitEvent s).2, p.dirty = true := by
  unfold commitEvent
  cases s.ev with
  | nil => simp
  | cons a l =>
    refine ⟨?_, ?_, ?_⟩
    · simp [BPage.markDirty, finishHdr, Function.comp_def]
    · simp [BPage.markDirty, Function.comp_def]
    · intro p hp
      simp only [List.modifyHead_cons, List.map_cons, List.mem_cons, List.mem_map] at hp
      rcases hp with rfl | ⟨b, _, rfl⟩ <;> rfl

theorem ghb_len (S id0 : Nat) (h4 : 4 ≤ S) (fin : List (List UInt8)) :
    (ghb S id0 fin).payload.length + 4 ≤ S := by
  unfold ghb reserveHdr
  split
  · simpa using h4
  · simp only; omega

def hdA (l : List Bool) : Bool := l.head?.getD false

theorem headAssigned_eq (s : WState) : s.headAssigned = hdA ((s.pre ++ s.ev).map (·.assigned)) := by
  unfold WState.headAssigned hdA
  cases s.pre with
  | nil => cases s.ev <;> simp
  | cons x l => simp

theorem hdA_concat_false (l : List Bool) : hdA (l ++ [false]) = hdA l := by
  cases l <;> simp [hdA]

theorem reserveHdrBuf_concat (S : Nat) (pre L : List BPage) (b : BPage) :
    reserveHdrBuf S pre (L ++ [b]) =
      if S - b.q.payload.length < 4 then
        (pre ++ (L ++ [b]), { BPage.new with q := withHdr0 QPage.fresh }, 28)
      else (pre ++ L, { b with q := withHdr0 b.q }, 28 + b.q.payload.length) := by
  unfold reserveHdrBuf
  rw [List.getLast?_concat]
  simp only [List.dropLast_concat]
  by_cases h : S - b.q.payload.length < 4
  · simp [h, withHdr0, BPage.new]
  · simp [h, withHdr0]

theorem ghb_next (S : Nat) (c : QPage) :
    (reserveHdr S c).2 = if S - c.payload.length < 4 then QPage.fresh else c := by
  unfold reserveHdr; split <;> rfl

theorem commit_facts (S id0 : Nat) (s : WState) (fin : List (List UInt8)) (cur : List UInt8)
    (h : BufInv S id0 s fin cur) :
    ∃ L b, (commitEvent s).2 = L ++ [b] ∧
      L.map (·.q) = (appendData S (commitHdr (ghb S id0 fin) (id0 + fin.length) cur.length) cur).1 ∧
      b.q = (appendData S (commitHdr (ghb S id0 fin) (id0 + fin.length) cur.length) cur).2 ∧
      b.dirty = true ∧ (∀ p ∈ L, p.dirty = true) := by
  obtain ⟨hq1, _, hd1⟩ := commitEvent_ev s
  rw [h.ev_eq, h.hdrOff_eq, h.bytes_eq, h.id_eq, ← chain_commit] at hq1
  rcases List.eq_nil_or_concat (commitEvent s).2 with e0 | ⟨L, b, e0⟩
  · rw [e0] at hq1; simp [chain] at hq1
  rw [List.concat_eq_append] at e0
  rw [e0] at hq1 hd1
  simp only [List.map_append, List.map_cons, List.map_nil, chain] at hq1
  have := concat_inj hq1
  exact ⟨L, b, e0, this.1, this.2, hd1 b (by simp), fun p hp => hd1 p (by simp [hp])⟩

/-- state after `Next` when `ReserveHdr` had to start a new page -/
def nextAdv (s : WState) (pre : List BPage) : WState :=
  { s with pre := pre, ev := [{ BPage.new with q := withHdr0 QPage.fresh }], hdrOff := 28,
           avail := s.avail - 4, eventBytes := 0, eventID := s.eventID + 1,
           activeEventCount := s.activeEventCount + 1 }

/-- state after `Next` when the next header is reserved in the current page `b` -/
def nextStay (s : WState) (pre : List BPage) (b : BPage) : WState :=
  { s with pre := pre, ev := [{ b with q := withHdr0 b.q }], hdrOff := 28 + b.q.payload.length,
           avail := s.avail - 4, eventBytes := 0, eventID := s.eventID + 1,
           activeEventCount := s.activeEventCount + 1 }

theorem nextCore_eq (S : Nat) (s : WState) (L : List BPage) (b : BPage)
    (e0 : (commitEvent s).2 = L ++ [b]) :
    s.nextCore S =
      if S - b.q.payload.length < 4 then nextAdv s ((commitEvent s).1 ++ (L ++ [b]))
      else nextStay s ((commitEvent s).1 ++ L) b := by
  unfold WState.nextCore nextAdv nextStay
  simp only [e0, reserveHdrBuf_concat]
  split <;> rfl

theorem BufInv_nextCore (S id0 : Nat) (h4 : 4 ≤ S) (s : WState) (fin : List (List UInt8)) (cur : List UInt8)
    (h : BufInv S id0 s fin cur) : BufInv S id0 (s.nextCore S) (fin ++ [cur]) [] := by
  obtain ⟨L, b, e0, hL, hb, hbd, hLd⟩ := commit_facts S id0 s fin cur h
  obtain ⟨hpq, hpa, _⟩ := commitEvent_pre s
  obtain ⟨_, hea, _⟩ := commitEvent_ev s
  have hpd : ∀ p ∈ (commitEvent s).1, p.dirty = true :=
    commitEvent_pre_dirty s (h.flags.elim (fun c => Or.inl c.1) (fun c => Or.inr c.2.1))
  obtain ⟨hW', hc'⟩ := ghost_next S id0 fin cur
  have hfull : ∀ p ∈ L.map (·.q), p.payload.length = S := by
    rw [hL]
    exact appendData_full S _ cur (by
      have := ghb_len S id0 h4 fin
      simp [commitHdr, le32_length]; omega)
  have hLr : (L.map (·.q)).map (render S) = L.map (·.q) := map_render_full S _ hfull
  obtain ⟨D, hD1, hD2, hD3⟩ := h.disk
  have hcq : gc S id0 (fin ++ [cur]) = b.q := by rw [hc', hb]
  have hvis : (fin ++ [cur]).take (s.tailId - id0) = fin.take (s.tailId - id0) :=
    List.take_append_of_le_length (by have := h.tail_le; omega)
  have hass0 : ((commitEvent s).1 ++ (L ++ [b])).map (·.assigned) = (s.pre ++ s.ev).map (·.assigned) := by
    rw [← e0, List.map_append, hpa, hea, List.map_append]
  rw [nextCore_eq S s L b e0]
  by_cases hadv : S - b.q.payload.length < 4
  · rw [if_pos hadv]
    have hpad' : gpad S id0 (fin ++ [cur]) := by unfold gpad; rw [hcq]; exact hadv
    have hr := reserveHdr_pad_render S (gc S id0 (fin ++ [cur])) hpad'
    have hgb : ghb S id0 (fin ++ [cur]) = QPage.fresh := by unfold ghb; rw [hr]
    have hA : (nextAdv s ((commitEvent s).1 ++ (L ++ [b]))).headAssigned = s.headAssigned := by
      rw [headAssigned_eq, headAssigned_eq]
      show hdA (List.map _ (((commitEvent s).1 ++ (L ++ [b])) ++ [_])) = _
      rw [List.map_append, hass0]
      exact hdA_concat_false _
    refine ⟨?_, ?_, rfl, ?_, ⟨D, ?_, ?_, ?_⟩, fun _ => ⟨(commitEvent s).1 ++ L, b, ?_, hcq.symm⟩,
      ?_, h.tail_ge, ?_, Or.inr ⟨by simp, ?_, ?_⟩, ?_⟩
    · rw [hgb, appendData_nil]; rfl
    · rw [hgb]; rfl
    · show s.eventID + 1 = _
      rw [h.id_eq, List.length_append]; simp; omega
    · show List.map (render S) (D ++ List.map (·.q) ((commitEvent s).1 ++ (L ++ [b]))) = _
      have e : List.map (render S) (D ++ List.map (·.q) ((commitEvent s).1 ++ (L ++ [b]))) =
          List.map (render S) (D ++ s.pre.map (·.q)) ++
            ((L.map (·.q)).map (render S) ++ [render S b.q]) := by simp [hpq]
      rw [e, hD1, hLr, hL, hr, hW', hcq]; simp
    · intro hh; rw [hA] at hh; exact hD2 hh
    · intro hh; rw [hA] at hh; exact hD3 hh
    · show (commitEvent s).1 ++ (L ++ [b]) = _
      simp
    · show cutAt s.persisted s.tailOff = layoutS S id0 (List.take (s.tailId - id0) (fin ++ [cur]))
      rw [hvis]; exact h.vis
    · show s.tailId ≤ _
      have := h.tail_le; simp only [List.length_append, List.length_cons, List.length_nil]; omega
    · intro p hp
      rcases List.mem_append.mp hp with hp | hp
      · exact hpd p hp
      · rcases List.mem_append.mp hp with hp | hp
        · exact hLd p hp
        · simp at hp; rw [hp]; exact hbd
    · simp [WState.hpDirty, BPage.new, hpad', nextAdv]
    · show s.tailOff = if s.tailId = id0 then 0 else
        28 + (gc S id0 ((fin ++ [cur]).take (s.tailId - id0))).payload.length
      rw [hvis]; exact h.tailOff_eq
  · rw [if_neg hadv]
    have hnp' : ¬ gpad S id0 (fin ++ [cur]) := by unfold gpad; rw [hcq]; exact hadv
    have hr := reserveHdr_nopad S (gc S id0 (fin ++ [cur])) hnp'
    have hgb : ghb S id0 (fin ++ [cur]) = b.q := by unfold ghb; rw [hr, hcq]
    have hA : (nextStay s ((commitEvent s).1 ++ L) b).headAssigned = s.headAssigned := by
      rw [headAssigned_eq, headAssigned_eq, ← hass0]
      show hdA (List.map _ (((commitEvent s).1 ++ L) ++ [_])) = _
      simp
    refine ⟨?_, ?_, rfl, ?_, ⟨D, ?_, ?_, ?_⟩, fun hh => absurd hh hnp',
      ?_, h.tail_ge, ?_, Or.inr ⟨by simp, ?_, ?_⟩, ?_⟩
    · rw [hgb, appendData_nil]; rfl
    · rw [hgb]; rfl
    · show s.eventID + 1 = _
      rw [h.id_eq, List.length_append]; simp; omega
    · show List.map (render S) (D ++ List.map (·.q) ((commitEvent s).1 ++ L)) = _
      have e : List.map (render S) (D ++ List.map (·.q) ((commitEvent s).1 ++ L)) =
          List.map (render S) (D ++ s.pre.map (·.q)) ++ (L.map (·.q)).map (render S) := by simp [hpq]
      rw [e, hD1, hLr, hL, hr, hW']; simp
    · intro hh; rw [hA] at hh; exact hD2 hh
    · intro hh; rw [hA] at hh; exact hD3 hh
    · show cutAt s.persisted s.tailOff = layoutS S id0 (List.take (s.tailId - id0) (fin ++ [cur]))
      rw [hvis]; exact h.vis
    · show s.tailId ≤ _
      have := h.tail_le; simp only [List.length_append, List.length_cons, List.length_nil]; omega
    · intro p hp
      rcases List.mem_append.mp hp with hp | hp
      · exact hpd p hp
      · exact hLd p hp
    · simp [WState.hpDirty, nextStay, hbd, hnp']
    · show s.tailOff = if s.tailId = id0 then 0 else
        28 + (gc S id0 ((fin ++ [cur]).take (s.tailId - id0))).payload.length
      rw [hvis]; exact h.tailOff_eq

/-! ## every operation keeps the invariant -/

theorem BufInv_step (S id0 : Nat) (h4 : 4 ≤ S) (s : WState) (g : List (List UInt8) × List UInt8) (op : WOp)
    (h : BufInv S id0 s g.1 g.2) : BufInv S id0 (s.step S op) (gstep g op).1 (gstep g op).2 := by
  cases op with
  | write c =>
    show BufInv S id0 (s.write S c) g.1 (g.2 ++ c)
    have h1 : BufInv S id0 (if s.avail ≤ c.length then flushBuffer S s else s) g.1 g.2 := by
      split
      · exact (BufInv_flush S id0 s g.1 g.2 h).1
      · exact h
    exact BufInv_append S id0 (by omega) _ g.1 g.2 c _ h1
  | next =>
    show BufInv S id0 (s.next S) (g.1 ++ [g.2]) []
    have h1 := BufInv_nextCore S id0 h4 s g.1 g.2 h
    unfold WState.next
    by_cases hc : (s.nextCore S).avail ≤ 4
    · simp only [hc, if_true]; exact (BufInv_flush S id0 _ _ _ h1).1
    · simp only [hc, if_false]; exact h1
  | flush => exact (BufInv_flush S id0 s g.1 g.2 h).1

theorem BufInv_run (S id0 : Nat) (h4 : 4 ≤ S) : ∀ (ops : List WOp) (s : WState)
    (g : List (List UInt8) × List UInt8), BufInv S id0 s g.1 g.2 →
    BufInv S id0 (s.run S ops) (ops.foldl gstep g).1 (ops.foldl gstep g).2 := by
  intro ops
  induction ops with
  | nil => intro s g h; exact h
  | cons op ops ih =>
    intro s g h
    exact ih _ _ (BufInv_step S id0 h4 s g op h)

/-- reachable states satisfy the invariant for the events of the operation list -/
theorem BufInv_reach (S pages id0 : Nat) (h4 : 4 ≤ S) (ops : List WOp) :
    BufInv S id0 ((WState.init S pages id0).run S ops) (ghost ops).1 (ghost ops).2 :=
  BufInv_run S id0 h4 ops _ ([], []) (BufInv_init S pages id0 h4)

theorem run_append (S : Nat) (s : WState) (a b : List WOp) :
    s.run S (a ++ b) = (s.run S a).run S b := by
  simp [WState.run, List.foldl_append]

theorem ghost_append (a b : List WOp) : ghost (a ++ b) = b.foldl gstep (ghost a) := by
  simp [ghost, List.foldl_append]


/-! ## consequences of the invariant -/

theorem cutAt_length (l : List QPage) (off : Nat) : (cutAt l off).length = l.length := by
  rcases List.eq_nil_or_concat l with e | ⟨xs, p, e⟩
  · subst e; rfl
  · rw [List.concat_eq_append] at e; subst e; rw [cutAt_concat]; simp

theorem cutAt_shape (l : List QPage) (off : Nat) :
    (l = [] ∧ cutAt l off = []) ∨
    ∃ xs p, l = xs ++ [p] ∧ cutAt l off = xs ++ [{ p with payload := p.payload.take (off - 28) }] := by
  rcases List.eq_nil_or_concat l with e | ⟨xs, p, e⟩
  · subst e; exact Or.inl ⟨rfl, rfl⟩
  · rw [List.concat_eq_append] at e; subst e; exact Or.inr ⟨xs, p, rfl, cutAt_concat xs p off⟩

/-- the tail offset is the end of the last visible page -/
theorem BufInv_tailOff (S id0 : Nat) (s : WState) (fin : List (List UInt8)) (cur : List UInt8)
    (h : BufInv S id0 s fin cur) :
    (s.visible = [] ∧ s.tailOff = 0 ∧ s.tailId = id0) ∨
    (∃ xs p, s.visible = xs ++ [p] ∧ s.tailOff = 28 + p.payload.length ∧ s.tailId ≠ id0) := by
  have hv := h.vis
  have ht := h.tailOff_eq
  by_cases e : s.tailId = id0
  · left
    rw [e] at hv
    rw [if_pos e] at ht
    exact ⟨by rw [hv]; simp [layoutS], ht, e⟩
  · right
    rw [if_neg e] at ht
    have hne : fin.take (s.tailId - id0) ≠ [] := by
      intro hh
      have hl := congrArg List.length hh
      have := h.tail_ge; have := h.tail_le
      simp only [List.length_take, List.length_nil] at hl
      omega
    rw [layoutS_ne S id0 _ hne] at hv
    exact ⟨_, _, hv, ht, e⟩

/-- two writer states that have persisted the same events show the same pages and tail -/
theorem BufInv_flushed_eq (S id0 : Nat) (s1 s2 : WState) (fin : List (List UInt8)) (c1 c2 : List UInt8)
    (h1 : BufInv S id0 s1 fin c1) (h2 : BufInv S id0 s2 fin c2) (e : s1.tailId = s2.tailId) :
    s1.visible = s2.visible ∧ s1.tailPos = s2.tailPos := by
  have hv : s1.visible = s2.visible := by rw [h1.vis, h2.vis, e]
  have ho : s1.tailOff = s2.tailOff := by rw [h1.tailOff_eq, h2.tailOff_eq, e]
  have hl : s1.persisted.length = s2.persisted.length := by
    have := congrArg List.length hv
    simpa [WState.visible, cutAt_length] using this
  exact ⟨hv, by simp [WState.tailPos, hl, ho, e]⟩

/-! ## the events of an operation list -/

theorem foldl_gstep_chunks (chunks : List (List UInt8)) : ∀ g : List (List UInt8) × List UInt8,
    (chunks.map WOp.write).foldl gstep g = (g.1, g.2 ++ chunks.flatten) := by
  induction chunks with
  | nil => intro g; simp
  | cons c cs ih => intro g; simp [ih, gstep]

theorem ghost_chunks (a b : List WOp) (chunks : List (List UInt8)) :
    ghost (a ++ chunks.map WOp.write ++ b) = ghost (a ++ [.write chunks.flatten] ++ b) := by
  simp only [ghost_append, foldl_gstep_chunks]
  simp [gstep]

theorem ghost_flush_mid (a b : List WOp) : ghost (a ++ [.flush] ++ b) = ghost (a ++ b) := by
  simp only [ghost_append]
  simp [gstep]

/-- the calls without the `Flush` calls -/
def dropFlushes (ops : List WOp) : List WOp := ops.filter fun o => o != WOp.flush

theorem foldl_gstep_dropFlushes (ops : List WOp) : ∀ g : List (List UInt8) × List UInt8,
    (dropFlushes ops).foldl gstep g = ops.foldl gstep g := by
  induction ops with
  | nil => intro g; rfl
  | cons o os ih =>
    intro g
    cases o with
    | flush => simpa [dropFlushes, gstep] using ih g
    | next => simpa [dropFlushes] using ih (gstep g .next)
    | write c => simpa [dropFlushes] using ih (gstep g (.write c))

theorem ghost_dropFlushes (ops : List WOp) : ghost (dropFlushes ops) = ghost ops :=
  foldl_gstep_dropFlushes ops _


/-! ## the reader does not look behind the tail: more bytes in a page change nothing -/

/-- same header fields, the payload continues -/
def PExt (q q' : QPage) : Prop :=
  q'.first = q.first ∧ q'.last = q.last ∧ q'.off = q.off ∧ q.payload <+: q'.payload

def ExtPages : List QPage → List QPage → Prop
  | [], [] => True
  | q :: qs, q' :: qs' => PExt q q' ∧ ExtPages qs qs'
  | _, _ => False

theorem ExtPages_tail : ∀ (l l' : List QPage), ExtPages l l' → ExtPages l.tail l'.tail
  | [], [], _ => trivial
  | _ :: _, _ :: _, h => h.2
  | [], _ :: _, h => h.elim
  | _ :: _, [], h => h.elim

theorem ExtPages_cons_inv (q : QPage) (qs l' : List QPage) (h : ExtPages (q :: qs) l') :
    ∃ q' qs', l' = q' :: qs' ∧ PExt q q' ∧ ExtPages qs qs' := by
  cases l' with
  | nil => exact h.elim
  | cons q' qs' => exact ⟨q', qs', rfl, h.1, h.2⟩

theorem PExt_getElem (q q' : QPage) (h : PExt q q') (i : Nat) (b : UInt8)
    (hb : q.payload[i]? = some b) : q'.payload[i]? = some b := by
  obtain ⟨x, hx⟩ := h.2.2.2
  rw [← hx]
  have hi : i < q.payload.length := by
    rcases Nat.lt_or_ge i q.payload.length with h | h
    · exact h
    · rw [List.getElem?_eq_none h] at hb; cases hb
  rw [List.getElem?_append_left hi]; exact hb

/-- the copy step of `readData` on the page the cursor is in -/
def readStep (P : Nat) (m : List QPage) (o n : Nat) : Option (List UInt8 × List QPage × Nat) :=
  match m with
  | [] => none
  | q :: qs =>
    match q.payload[o - 28]? with
    | none => none
    | some b => (readData P (q :: qs) (o + 1) n).map fun r => (b :: r.1, r.2)

theorem readData_succ (P : Nat) (l : List QPage) (off n : Nat) :
    readData P l off (n + 1) =
      readStep P (if P - off = 0 then l.tail else l) (if P - off = 0 then 28 else off) n := by
  rw [readData]
  by_cases h : P - off = 0
  · simp only [h, if_true]; rfl
  · simp only [h, if_false]; rfl

theorem readData_mono (P : Nat) : ∀ (n : Nat) (l l' : List QPage) (off : Nat) (r : List UInt8 × List QPage × Nat),
    ExtPages l l' → readData P l off n = some r →
    ∃ l1', readData P l' off n = some (r.1, l1', r.2.2) ∧ ExtPages r.2.1 l1' := by
  intro n
  induction n with
  | zero =>
    intro l l' off r hx hr
    simp only [readData, Option.some.injEq] at hr
    subst hr
    exact ⟨l', by simp [readData], hx⟩
  | succ n ih =>
    intro l l' off r hx hr
    rw [readData_succ] at hr ⊢
    have hm : ExtPages (if P - off = 0 then l.tail else l) (if P - off = 0 then l'.tail else l') := by
      split
      · exact ExtPages_tail l l' hx
      · exact hx
    revert hr hm
    generalize (if P - off = 0 then l.tail else l) = m
    generalize (if P - off = 0 then l'.tail else l') = m'
    generalize (if P - off = 0 then 28 else off) = o
    intro hr hm
    cases m with
    | nil => simp [readStep] at hr
    | cons q qs =>
      obtain ⟨q', qs', e', hq, hqs⟩ := ExtPages_cons_inv q qs _ hm
      subst e'
      simp only [readStep] at hr ⊢
      cases hb : q.payload[o - 28]? with
      | none => rw [hb] at hr; simp at hr
      | some b =>
        rw [hb] at hr
        rw [PExt_getElem q q' hq _ b hb]
        simp only [Option.map_eq_some_iff] at hr
        obtain ⟨r0, hr0, e⟩ := hr
        obtain ⟨l1', h1, h2⟩ := ih (q :: qs) (q' :: qs') (o + 1) r0 ⟨hq, hqs⟩ hr0
        subst e
        exact ⟨l1', by simp [h1], h2⟩

theorem nextHdrPos_mono (P : Nat) (l l' : List QPage) (off : Nat) (st : List QPage × Nat)
    (hx : ExtPages l l') (h : nextHdrPos P l off = some st) :
    ∃ l1', nextHdrPos P l' off = some (l1', st.2) ∧ ExtPages st.1 l1' := by
  unfold nextHdrPos at h ⊢
  by_cases h4 : P - off < 4
  · simp only [h4, if_true] at h ⊢
    have hxt := ExtPages_tail l l' hx
    cases hl : l.tail with
    | nil => rw [hl] at h; simp at h
    | cons q qs =>
      rw [hl] at h hxt
      obtain ⟨q', qs', e', hq, hqs⟩ := ExtPages_cons_inv q qs _ hxt
      rw [e']
      simp only at h ⊢
      rw [hq.2.2.1]
      by_cases ho : q.off = 0
      · simp [ho] at h
      · simp only [ho, if_false, Option.some.injEq] at h ⊢
        subst h
        exact ⟨q' :: qs', rfl, hq, hqs⟩
  · simp only [h4, if_false, Option.some.injEq] at h ⊢
    subst h
    exact ⟨l', rfl, hx⟩

theorem readEventAt_mono (P : Nat) (l l' : List QPage) (o : Nat) (r : List UInt8 × List QPage × Nat)
    (hx : ExtPages l l') (h : readEventAt P l o = some r) :
    ∃ l1', readEventAt P l' o = some (r.1, l1', r.2.2) ∧ ExtPages r.2.1 l1' := by
  cases l with
  | nil => simp [readEventAt] at h
  | cons q qs =>
    obtain ⟨q', qs', e', hq, hqs⟩ := ExtPages_cons_inv q qs _ hx
    subst e'
    simp only [readEventAt] at h ⊢
    by_cases hl : ((q.payload.drop (o - 28)).take 4).length = 4
    · simp only [hl, if_true] at h
      obtain ⟨x, hxp⟩ := hq.2.2.2
      have hk : o - 28 ≤ q.payload.length := by
        simp only [List.length_take, List.length_drop] at hl; omega
      have e : (q'.payload.drop (o - 28)).take 4 = (q.payload.drop (o - 28)).take 4 := by
        rw [← hxp, List.drop_append_of_le_length hk, List.take_append_of_le_length]
        simp only [List.length_take, List.length_drop] at hl ⊢; omega
      rw [e]
      simp only [hl, if_true]
      exact readData_mono P _ (q :: qs) (q' :: qs') _ r ⟨hq, hqs⟩ h
    · simp only [hl, if_false] at h; cases h

theorem readEvent_mono (P : Nat) (l l' : List QPage) (off : Nat) (r : List UInt8 × List QPage × Nat)
    (hx : ExtPages l l') (h : readEvent P l off = some r) :
    ∃ l1', readEvent P l' off = some (r.1, l1', r.2.2) ∧ ExtPages r.2.1 l1' := by
  unfold readEvent at h ⊢
  cases hn : nextHdrPos P l off with
  | none => rw [hn] at h; simp at h
  | some st =>
    rw [hn] at h
    obtain ⟨l1', h1, h2⟩ := nextHdrPos_mono P l l' off st hx hn
    rw [h1]
    simp only [Option.bind_some] at h ⊢
    exact readEventAt_mono P _ _ _ r h2 h

theorem parseFrom_mono (P : Nat) : ∀ (n : Nat) (l l' : List QPage) (off : Nat) (evs : List (List UInt8)),
    ExtPages l l' → parseFrom P l off n = some evs → parseFrom P l' off n = some evs := by
  intro n
  induction n with
  | zero => intro l l' off evs _ h; simpa [parseFrom] using h
  | succ n ih =>
    intro l l' off evs hx h
    rw [parseFrom] at h ⊢
    cases hr : readEvent P l off with
    | none => rw [hr] at h; simp at h
    | some r =>
      obtain ⟨e, pgs, o⟩ := r
      rw [hr] at h
      obtain ⟨l1', h1, h2⟩ := readEvent_mono P l l' off _ hx hr
      rw [h1]
      simp only [Option.map_eq_some_iff] at h ⊢
      obtain ⟨a, ha, hae⟩ := h
      exact ⟨a, ih _ _ _ _ h2 ha, hae⟩

/-- what the reader delivers from a chain it also delivers from the chain with longer pages -/
theorem parseChain_mono (P : Nat) (l l' : List QPage) (n : Nat) (evs : List (List UInt8))
    (hx : ExtPages l l') (h : parseChain P l n = some evs) : parseChain P l' n = some evs := by
  cases l with
  | nil =>
    cases l' with
    | nil => exact h
    | cons _ _ => exact hx.elim
  | cons q qs =>
    obtain ⟨q', qs', e', hq, hqs⟩ := ExtPages_cons_inv q qs _ hx
    subst e'
    simp only [parseChain] at h ⊢
    rw [hq.2.2.1]
    exact parseFrom_mono P n (q :: qs) (q' :: qs') _ evs ⟨hq, hqs⟩ h

theorem PExt_refl (q : QPage) : PExt q q := ⟨rfl, rfl, rfl, List.prefix_refl _⟩

theorem cutAt_ext : ∀ (l : List QPage) (off : Nat), ExtPages (cutAt l off) l
  | [], _ => trivial
  | [_], _ => ⟨⟨rfl, rfl, rfl, List.take_prefix _ _⟩, trivial⟩
  | p :: q :: ps, off => ⟨PExt_refl p, cutAt_ext (q :: ps) off⟩

end TxVerif
