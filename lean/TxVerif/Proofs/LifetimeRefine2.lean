/-
  Part 2 of the lifetime refinement (see Proofs/LifetimeRefine1.lean): the commit.
  `relShape` now models BOTH releases of `fileCommitAlloc`: the free pages at the end of the meta area beyond the
  limit, and then the free pages at the end of the data area beyond the limit (`releaseOverflowPages` on the data
  list — it removes something only after the limit was lowered below the data end marker). `relShape_engInv`
  carries `U.EngInv` over both; `commit_engInv`: a successful commit re-establishes `U.EngInv` for every
  transaction begun in any `U.EngInv` state.
-/
import TxVerif.Proofs.LifetimeRefine1
import TxVerif.Proofs.RefineOv2
namespace TxVerif.U

/-! ### commit: the phases of `commitAfterFlush` -/

theorem commit_phase1 {f0 : FileSt} {live : List Nat} {f : FileSt} {tx : TxSt} {cur : List Nat}
    (he : EngInv f0 live) (h : TxInv f0 live f tx cur) (hfl : AllFlushed tx) :
    TxInv f0 live (cPhase1 f tx).1 (cPhase1 f tx).2.1 cur ∧ (cPhase1 f tx).2.1.pages = tx.pages ∧
    (∀ k, Assoc.get? (if cWalUpd f tx then cNewWal f tx else (cPhase1 f tx).1.walMap) k =
      newMapAt f0.walMap (cPhase1 f tx).2.1 k) ∧
    AscKeys (if cWalUpd f tx then cNewWal f tx else (cPhase1 f tx).1.walMap) := by
  cases hc : cCkpt f tx with
  | true =>
    have e1 : cPhase1 f tx = doCheckpoint f tx := by unfold cPhase1; rw [hc]; rfl
    have e2 : cWalUpd f tx = true := by unfold cWalUpd; rw [hc]; rfl
    have e3 : cNewWal f tx = (doCheckpoint f tx).2.1.walNew := by unfold cNewWal; rw [hc, e1]; rfl
    rw [e1, e2, e3]
    obtain ⟨h1, h2, h3⟩ := txinv_doCheckpoint he h
    refine ⟨h1, h2, ?_, h1.newKeys⟩
    intro k
    simp only [if_true]
    unfold newMapAt
    cases hw : Assoc.get? (doCheckpoint f tx).2.1.walNew k with
    | some w => rfl
    | none =>
      by_cases hf : k ∈ (doCheckpoint f tx).2.1.walFree
      · simp [hf]
      · simp only [hf, if_false]
        cases hm : Assoc.get? f0.walMap k with
        | none => rfl
        | some v =>
          rcases h3 k v hm with c | ⟨p, hp, hd, hu⟩
          · exact absurd c hf
          · have := hfl k p hp hd; rw [hu] at this; cases this
  | false =>
    have e1 : cPhase1 f tx = (f, tx, []) := by unfold cPhase1; rw [hc]; rfl
    have e2 : cWalUpd f tx = tx.walUpdated := by unfold cWalUpd; rw [hc]; rfl
    have e3 : cNewWal f tx = mappingUpdate f.walMap tx := by unfold cNewWal; rw [hc]; rfl
    rw [e1, e2, e3]
    refine ⟨h, rfl, ?_, ?_⟩
    · intro k
      cases hu : tx.walUpdated with
      | true =>
        simp only [if_true]
        rw [mappingUpdate_get? _ _ hu h.newKeys, h.sameMap]
      | false =>
        simp only [Bool.false_eq_true, if_false]
        unfold TxSt.walUpdated at hu
        simp only [Bool.or_eq_false_iff, Bool.not_eq_false', List.isEmpty_iff] at hu
        unfold newMapAt
        rw [hu.1, hu.2, h.sameMap]
        simp [Assoc.get?]
    · cases hu : tx.walUpdated with
      | true => simp only [if_true]; exact mappingUpdate_keys _ _ (h.sameMap ▸ he.keys)
      | false => simp only [Bool.false_eq_true, if_false]; exact h.sameMap ▸ he.keys

/-- once everything is flushed, what the transaction sees is on disk at the pages the new mapping points to -/
theorem view_on_disk {f0 : FileSt} {live : List Nat} {f : FileSt} {tx : TxSt} {cur : List Nat}
    (h : TxInv f0 live f tx cur) (hfl : AllFlushed tx) (id : Nat) (hid : id ∈ cur) (c : Content)
    (hv : txView f0 tx id = some c) : f.diskAt (tgt f0 tx id) = c := by
  unfold txView at hv
  cases hp : Assoc.get? tx.pages id with
  | none =>
    rw [hp] at hv
    simp only [Option.some.injEq] at hv
    rw [← hv]; exact (h.curNone id hid hp).2
  | some p =>
    rw [hp] at hv
    have ho := h.pg id p hp
    have hfr : p.freed = false := by
      cases hf : p.freed with
      | false => rfl
      | true => exact absurd hid (ho.notCur hf)
    unfold pView at hv
    cases hd : p.dirty with
    | true =>
      simp only [hd, if_true] at hv
      have := (ho.fl (hfl id p hp hd)).2.1
      rw [this, hv]; rfl
    | false =>
      simp only [hd, Bool.false_eq_true, if_false] at hv
      cases hn : p.new_ with
      | true => simp [hn] at hv
      | false =>
        simp only [hn, Bool.false_eq_true, if_false, Option.some.injEq] at hv
        rw [← hv]; exact (ho.cleanOld hfr hn hd).2

theorem inv_metaFreeIds (a0 a : Alloc) (ids : List Nat) : ∀ st, Inv a0 a st → Inv a0 a (metaFreeIds st ids) := by
  induction ids with
  | nil => intro st h; exact h
  | cons x xs ih =>
    intro st h
    unfold metaFreeIds
    rw [List.foldl_cons]
    exact ih _ (inv_metaFreeId a0 a st x h)

theorem inv_cTx3 {f0 : FileSt} {live : List Nat} {f : FileSt} {tx : TxSt} {cur : List Nat}
    (h1 : TxInv f0 live (cPhase1 f tx).1 (cPhase1 f tx).2.1 cur) :
    Inv f0.alloc (cPhase1 f tx).1.alloc (cTx3 f tx).ta := by
  rw [(cTx3_spec f tx).1]
  exact inv_metaFreeIds _ _ _ _ (inv_metaFreeIds _ _ _ _ h1.inv)

theorem inv_cWalRes {f0 : FileSt} {live : List Nat} {f : FileSt} {tx : TxSt} {cur : List Nat}
    (he : EngInv f0 live) (h1 : TxInv f0 live (cPhase1 f tx).1 (cPhase1 f tx).2.1 cur)
    (a : Alloc) (ta : TxAlloc) (regs : List Nat) (hr : cWalRes f tx = some (a, ta, regs)) :
    Inv f0.alloc a ta := by
  rcases cWalRes_cases f tx a ta regs hr with ⟨n, hn⟩ | ⟨rfl, rfl, -⟩
  · exact inv_metaAllocRegions f0.alloc _ _ _ a ta regs he.wf (inv_cTx3 h1) hn
  · exact inv_cTx3 h1

/-- commit, as far as contents are concerned: success publishes the transaction's view, failure restores
    the committed state -/
theorem commit_data {f0 : FileSt} {live : List Nat} {f : FileSt} {tx : TxSt} {cur : List Nat}
    (he : EngInv f0 live) (h : TxInv f0 live f tx cur) (hfl : AllFlushed tx) :
    ((commitAfterFlush f tx).2.1 = .ok →
      ∀ id ∈ cur, ∀ c, txView f0 tx id = some c → (commitAfterFlush f tx).1.readPage id = c) ∧
    ((commitAfterFlush f tx).2.1 ≠ .ok →
      EngInv (commitAfterFlush f tx).1 live ∧ (commitAfterFlush f tx).1.alloc = f0.alloc ∧
      (commitAfterFlush f tx).1.walMap = f0.walMap ∧
      ∀ id ∈ live, (commitAfterFlush f tx).1.readPage id = f0.readPage id) := by
  obtain ⟨h1, hpg, hmap, -⟩ := commit_phase1 he h hfl
  have hfl1 : AllFlushed (cPhase1 f tx).2.1 := by intro k p hp; rw [hpg] at hp; exact hfl k p hp
  rw [commitAfterFlush_eq]
  unfold commitAfterFlush'
  dsimp only
  cases hr : cWalRes f tx with
  | none =>
    dsimp only
    refine ⟨fun hc => (by cases hc), fun _ => ?_⟩
    exact abort_core he h1.sameMap h1.sameWP (inv_cTx3 h1) h1.r0
  | some r =>
    obtain ⟨a, ta, regs⟩ := r
    dsimp only
    have hinv := inv_cWalRes he h1 a ta regs hr
    cases hc : fileCommitAlloc a ta (cAllocUpd f tx || !regs.isEmpty) with
    | none =>
      dsimp only
      refine ⟨fun hc => (by cases hc), fun _ => ?_⟩
      exact abort_core (f := { (cPhase1 f tx).1 with alloc := a }) (tx := { cTx3 f tx with ta := ta }) he
        h1.sameMap h1.sameWP hinv h1.r0
    | some r2 =>
      obtain ⟨a2, ta2, cs⟩ := r2
      dsimp only
      refine ⟨fun _ => ?_, fun hc => absurd rfl hc⟩
      intro id hid c hv
      refine Eq.trans (readPage_newMap f0 _ (cPhase1 f tx).1 (cPhase1 f tx).2.1 id (hmap id) rfl) ?_
      apply view_on_disk h1 hfl1 id hid c
      rw [txView_pages f0 tx _ hpg]; exact hv

/-! ### list lemmas for the accounting of the meta area -/

/-! ### the allocator part of a successful commit -/


/-- what `releaseOverflow` does to an ascending list of ids below `e` -/
theorem release_facts (l : List Nat) (m e : Nat) (hasc : Asc l) (hlt : ∀ x ∈ l, x < e) :
    (releaseOverflow l m e).2 ≤ e ∧
    (0 < (releaseOverflow l m e).2 → 0 < m ∧ m ≤ e - (releaseOverflow l m e).2) ∧
    (releaseOverflow l m e).1.length + (releaseOverflow l m e).2 = l.length ∧ Asc (releaseOverflow l m e).1 ∧
    (∀ x ∈ (releaseOverflow l m e).1, x ∈ l ∧ x < e - (releaseOverflow l m e).2) ∧
    (∀ x, x < e → x ∉ l → x < e - (releaseOverflow l m e).2) := by
  obtain ⟨h1, h2, h3, -⟩ := releaseOverflow_decomp l m e
  have hlen := releaseOverflow_length l m e
  generalize (releaseOverflow l m e).2 = k at *
  generalize (releaseOverflow l m e).1 = keep at *
  rw [h1] at hasc
  unfold Asc at hasc
  rw [List.pairwise_append] at hasc
  refine ⟨h2, h3, hlen, hasc.1, ?_, ?_⟩
  · intro x hx
    have hxf : x ∈ l := by rw [h1]; exact List.mem_append_left _ hx
    refine ⟨hxf, ?_⟩
    by_cases hk : 0 < k
    · have : e - k ∈ idRange (e - k) k := by rw [mem_idRange]; omega
      exact hasc.2.2 x hx _ this
    · have := hlt x hxf; omega
  · intro x hx hn
    apply Nat.lt_of_not_le
    intro hge
    apply hn
    rw [h1, List.mem_append, mem_idRange]
    right; omega

/-- the allocator after `fileCommitAlloc` released the free pages at the end of the meta area beyond the limit
    (`releaseOverflowPages` on the meta list) and then the free pages at the end of the data area beyond the limit
    (on the data list; after the limit was lowered) -/
def relShape (c : Alloc) : Alloc :=
  let rm := releaseOverflow c.mta.free c.maxPages c.mta.endMarker
  let d1 := if rm.2 > 0 ∧ c.mta.endMarker > c.data.endMarker then c.mta.endMarker - rm.2 else c.data.endMarker
  let m1 := c.mta.endMarker - rm.2
  let rd := releaseOverflow c.data.free c.maxPages d1
  let d2 := d1 - rd.2
  let m2 := if rd.2 > 0 ∧ m1 ≤ d1 ∧ m1 ≥ d2 then d2 else m1
  { c with data := { endMarker := d2, free := rd.1 }, mta := { endMarker := m2, free := rm.1 },
           metaTotal := c.metaTotal - rm.2 }

theorem commitShape_of (a1 : Alloc) (st1 : TxAlloc) (regs : List Nat) :
    a1.commit
      (let newData := unionIds st1.data.freed a1.data.free
       let newMeta := unionIds st1.mta.freed a1.mta.free
       let dataEnd := a1.data.endMarker
       let metaEnd := a1.mta.endMarker
       let (metaList, ovf) := releaseOverflow newMeta a1.maxPages metaEnd
       let (dataEnd1, metaEnd1) :=
         if ovf > 0 then ((if metaEnd > dataEnd then metaEnd - ovf else dataEnd), metaEnd - ovf) else (dataEnd, metaEnd)
       let (dataList, dfreed) := releaseOverflow newData a1.maxPages dataEnd1
       let dataEnd2 := dataEnd1 - dfreed
       let metaEnd2 := if dfreed > 0 ∧ metaEnd1 ≤ dataEnd1 ∧ metaEnd1 ≥ dataEnd2 then dataEnd2 else metaEnd1
       { updated := true, allocRegions := regs, dataEnd := dataEnd2, metaEnd := metaEnd2,
         metaList := metaList, dataList := dataList, overflowFreed := ovf }) =
    relShape (commitShape a1 st1 regs) := by
  unfold relShape commitShape
  dsimp only
  generalize releaseOverflow (unionIds st1.mta.freed a1.mta.free) a1.maxPages a1.mta.endMarker = r
  obtain ⟨ml, ovf⟩ := r
  dsimp only
  by_cases ho : ovf > 0
  · by_cases hm : a1.mta.endMarker > a1.data.endMarker
    · simp only [ho, hm, if_true, and_self]
      generalize releaseOverflow (unionIds st1.data.freed a1.data.free) a1.maxPages (a1.mta.endMarker - ovf) = r2
      obtain ⟨dl, df⟩ := r2
      unfold Alloc.commit
      simp
    · simp only [ho, hm, if_true, if_false, and_false]
      generalize releaseOverflow (unionIds st1.data.freed a1.data.free) a1.maxPages a1.data.endMarker = r2
      obtain ⟨dl, df⟩ := r2
      unfold Alloc.commit
      simp
  · have : ovf = 0 := by omega
    subst this
    simp only [Nat.lt_irrefl, if_false, false_and, gt_iff_lt, Nat.sub_zero]
    generalize releaseOverflow (unionIds st1.data.freed a1.data.free) a1.maxPages a1.data.endMarker = r2
    obtain ⟨dl, df⟩ := r2
    unfold Alloc.commit
    simp

/-- what `relShape` does, given the well-formedness of the allocator: `k` meta pages and `j` data pages are
    released from the ends of the areas -/
theorem relShape_facts (c : Alloc) (hw : WF c) :
    ∃ k j keepM keepD d1, (relShape c).maxPages = c.maxPages ∧ (relShape c).freelistPages = c.freelistPages ∧
      (relShape c).data.free = keepD ∧ (relShape c).mta.free = keepM ∧
      d1 = (if k > 0 ∧ c.mta.endMarker > c.data.endMarker then c.mta.endMarker - k else c.data.endMarker) ∧
      (relShape c).data.endMarker = d1 - j ∧
      (relShape c).mta.endMarker = (if j > 0 ∧ c.mta.endMarker - k ≤ d1 ∧ c.mta.endMarker - k ≥ d1 - j then d1 - j
        else c.mta.endMarker - k) ∧
      (relShape c).metaTotal = c.metaTotal - k ∧
      k ≤ c.mta.endMarker ∧ (0 < k → 0 < c.maxPages ∧ c.maxPages ≤ c.mta.endMarker - k) ∧
      keepM.length + k = c.mta.free.length ∧ Asc keepM ∧
      (∀ x ∈ keepM, x ∈ c.mta.free ∧ x < c.mta.endMarker - k) ∧
      (∀ x, x < c.mta.endMarker → x ∉ c.mta.free → x < c.mta.endMarker - k) ∧
      j ≤ d1 ∧ (0 < j → 0 < c.maxPages ∧ c.maxPages ≤ d1 - j) ∧ Asc keepD ∧
      (∀ x ∈ keepD, x ∈ c.data.free ∧ x < d1 - j) ∧
      (∀ x, x < d1 → x ∉ c.data.free → x < d1 - j) := by
  obtain ⟨m1, m2, m3, m4, m5, m6⟩ := release_facts c.mta.free c.maxPages c.mta.endMarker hw.ascMeta
    (fun x hx => (hw.metaRange x hx).1)
  have hd1 : ∀ x ∈ c.data.free, x <
      (if (releaseOverflow c.mta.free c.maxPages c.mta.endMarker).2 > 0 ∧ c.mta.endMarker > c.data.endMarker
       then c.mta.endMarker - (releaseOverflow c.mta.free c.maxPages c.mta.endMarker).2 else c.data.endMarker) := by
    intro x hx
    split
    · exact m6 x (hw.limit x hx) (hw.disj x hx)
    · exact (hw.dataRange x hx).2
  obtain ⟨d1, d2, -, d4, d5, d6⟩ := release_facts c.data.free c.maxPages _ hw.ascData hd1
  exact ⟨_, _, _, _, _, rfl, rfl, rfl, rfl, rfl, rfl, rfl, rfl, m1, m2, m3, m4, m5, m6, d1, d2, d4, d5, d6⟩

theorem relShape_inUse (c : Alloc) (hw : WF c) (x : Nat) (hu : InUse c x) : InUse (relShape c) x := by
  obtain ⟨k, j, keepM, keepD, d1, e1, e2, e3, e4, ed, e5, e6, e7, k1, k2, k3, k4, k5, k6, j1, j2, j4, j5, j6⟩ :=
    relShape_facts c hw
  have hxM := k6 x hu.2.2.1 hu.2.1
  have hcl := hu.2.2.2
  have hxd : x < d1 → x < d1 - j := fun h => j6 x h hu.1
  refine ⟨by rw [e3]; exact fun hk => hu.1 (j5 x hk).1, by rw [e4]; exact fun hk => hu.2.1 (k5 x hk).1, ?_, ?_⟩
  · rw [e6]
    split
    · rename_i hc; exact hxd (by omega)
    · exact hxM
  · rw [e5, e1]
    by_cases hl : 0 < c.maxPages ∧ c.maxPages ≤ x
    · exact Or.inr hl
    · left
      have hxD : x < c.data.endMarker := by omega
      apply hxd
      rw [ed]; split <;> omega


/-- the release of free pages at the ends of the areas beyond the limit preserves the invariant -/
theorem relShape_engInv {F : FileSt} {live : List Nat} (h : EngInv F live) (F' : FileSt)
    (hA : F'.alloc = relShape F.alloc) (hM : F'.walMap = F.walMap) (hW : F'.walPages = F.walPages) :
    EngInv F' live := by
  obtain ⟨k, j, keepM, keepD, d1, e1, e2, e3, e4, ed, e5, e6, e7, k1, k2, k3, k4, k5, k6, j1, j2, j4, j5, j6⟩ :=
    relShape_facts F.alloc h.wf
  have hint : F'.internal = F.internal := by unfold FileSt.internal; rw [hA, hM, hW, e2]
  have hu := relShape_inUse F.alloc h.wf
  have hd := h.wf.dataEnd
  have hl2 := h.lim2
  -- the data end marker after the release of meta pages
  have hd1 : 2 ≤ d1 ∧ (0 < k ∧ F.alloc.mta.endMarker > F.alloc.data.endMarker → F.alloc.maxPages ≤ d1) ∧
      (¬ (0 < k ∧ F.alloc.mta.endMarker > F.alloc.data.endMarker) → d1 = F.alloc.data.endMarker) := by
    rw [ed]
    split
    · rename_i hc; have := k2 hc.1; exact ⟨by omega, fun _ => by omega, fun hn => absurd hc hn⟩
    · exact ⟨hd, fun hc => by rename_i hn; exact absurd hc hn, fun _ => rfl⟩
  have hd2 : 2 ≤ d1 - j := by
    by_cases hj : 0 < j
    · have := j2 hj; omega
    · have : j = 0 := by omega
      subst this; exact hd1.1
  refine ⟨⟨?_, ?_, ?_, ?_, ?_, ?_, ?_, ?_⟩, hM ▸ h.keys, ?_, ?_, ?_, ?_, hint ▸ h.intNodup, ?_, ?_⟩
  all_goals try rw [hA]
  · rw [e3]; exact j4
  · rw [e4]; exact k4
  · intro x hx
    rw [e3] at hx
    rw [e5]
    exact ⟨(h.wf.dataRange x (j5 x hx).1).1, (j5 x hx).2⟩
  · intro x hx
    rw [e4] at hx
    obtain ⟨hf, hlt⟩ := k5 x hx
    have h1 := h.wf.metaRange x hf
    have hnd : x ∉ F.alloc.data.free := fun hd' => h.wf.disj x hd' hf
    have hxd : x < d1 → x < d1 - j := fun hh => j6 x hh hnd
    rw [e6, e5, e1]
    constructor
    · split
      · rename_i hc; exact hxd (by omega)
      · exact hlt
    · by_cases hl : 0 < F.alloc.maxPages ∧ F.alloc.maxPages ≤ x
      · exact Or.inr hl
      · left
        have hxD : x < F.alloc.data.endMarker := by omega
        apply hxd
        rw [ed]; split <;> omega
  · intro x hx
    rw [e3] at hx
    rw [e4]
    exact fun hk => h.wf.disj x (j5 x hx).1 (k5 x hk).1
  · rw [e5]; exact hd2
  · intro x hx
    rw [e3] at hx
    obtain ⟨hf, hlt⟩ := j5 x hx
    have hxM := k6 x (h.wf.limit x hf) (h.wf.disj x hf)
    rw [e6]
    split
    · exact hlt
    · exact hxM
  · rw [e4, e7]; have := h.wf.total; omega
  · intro id hid
    obtain ⟨l1, l2, l3⟩ := h.liveOk id hid
    refine ⟨l1, ?_, hu id l3⟩
    rw [e5]
    apply j6 id _ l3.1
    rw [ed]
    split
    · exact k6 id l3.2.2.1 l3.2.1
    · exact l2
  · rw [hM]; exact h.mapKey
  · rw [hM]; exact h.mapInj
  · intro x hx
    rw [hint] at hx
    obtain ⟨i2, i3⟩ := h.intOk x hx
    exact ⟨hu x i2, i3⟩
  · rw [hint, e4, e7]; have := h.total; omega
  · rw [e1]; exact hl2


theorem fileCommit_shape (a : Alloc) (ta : TxAlloc) (upd : Bool) (a2 : Alloc) (ta2 : TxAlloc) (cs : AllocCommit)
    (hc : fileCommitAlloc a ta upd = some (a2, ta2, cs)) :
    (upd = false ∧ a2 = a ∧ ta2 = ta ∧ a2.commit cs = a) ∨
    (upd = true ∧ ∃ regs2, ((∃ n, metaAllocRegions a ta n = some (a2, ta2, regs2)) ∨
        (a2 = a ∧ ta2 = ta ∧ regs2 = [])) ∧ a2.commit cs = relShape (commitShape a2 ta2 regs2)) := by
  unfold fileCommitAlloc at hc
  cases upd with
  | false =>
    simp only [Bool.not_false, if_true, Option.some.injEq, Prod.mk.injEq] at hc
    obtain ⟨rfl, rfl, rfl⟩ := hc
    exact Or.inl ⟨rfl, rfl, rfl, rfl⟩
  | true =>
    right
    refine ⟨rfl, ?_⟩
    simp only [Bool.not_true, Bool.false_eq_true, if_false] at hc
    by_cases hn : predictFreelistPages a.pageSize [ta.data.freed, ta.mta.freed, a.data.free, a.mta.free] > 0
    · rw [if_pos hn] at hc
      cases hm : metaAllocRegions a ta
          (predictFreelistPages a.pageSize [ta.data.freed, ta.mta.freed, a.data.free, a.mta.free]) with
      | none => rw [hm] at hc; simp at hc
      | some r =>
        obtain ⟨a1, st1, regs⟩ := r
        rw [hm] at hc
        simp only [Option.map_some, Option.some.injEq, Prod.mk.injEq] at hc
        obtain ⟨rfl, rfl, rfl⟩ := hc
        exact ⟨regs, Or.inl ⟨_, hm⟩, commitShape_of a1 st1 regs⟩
    · rw [if_neg hn] at hc
      simp only [Option.some.injEq, Prod.mk.injEq] at hc
      obtain ⟨rfl, rfl, rfl⟩ := hc
      exact ⟨[], Or.inr ⟨rfl, rfl, rfl⟩, commitShape_of a ta []⟩

/-- everything known about the state right before the allocator commit (any overflow flag):
    `a2`/`ta2` the allocator state, `N` the internal pages allocated by the commit, `L` the old internal
    pages released by the commit, `M`/`WP`/`FL` the new mapping, mapping pages and free-list pages -/
structure PreCommit (f0 : FileSt) (live : List Nat) (f1 : FileSt) (tx1 : TxSt) (cur : List Nat)
    (a2 : Alloc) (ta2 : TxAlloc) (N L : List Nat) (M : Assoc Nat) (WP FL : List Nat) : Prop where
  he : EngInv f0 live
  h1 : TxInv f0 live f1 tx1 cur
  hinv : Inv f0.alloc a2 ta2
  hok : AOK a2
  hde : f1.alloc.data.endMarker ≤ a2.data.endMarker
  hkeep : ∀ x, InUse f1.alloc x → InUse a2 x
  hdf : ta2.data.freed = tx1.ta.data.freed
  hN : N.Nodup ∧ ∀ x ∈ N, ¬ InUse f1.alloc x ∧ InUse a2 x ∧ True
  hal : ∀ x, x ∈ ta2.mta.allocated ↔ x ∈ N ∨ x ∈ tx1.ta.mta.allocated
  hasc : Asc ta2.mta.allocated
  hL : ∀ x ∈ L, x ∈ f0.walPages ∨ x ∈ f0.alloc.freelistPages
  hmf : ∀ x, x ∈ ta2.mta.freed ↔ x ∈ L ∨ x ∈ tx1.ta.mta.freed
  hmfa : Asc ta2.mta.freed
  hM : ∀ k, Assoc.get? M k = newMapAt f0.walMap tx1 k
  hMk : AscKeys M
  hWP : WP.Nodup ∧ ∀ x ∈ WP, (x ∈ f0.walPages ∧ x ∉ L) ∨ x ∈ N
  hFL : FL.Nodup ∧ ∀ x ∈ FL, (x ∈ f0.alloc.freelistPages ∧ x ∉ L) ∨ x ∈ N
  hWF : ∀ x ∈ WP, x ∉ FL

section PreCommitFacts
variable {f0 : FileSt} {live : List Nat} {f1 : FileSt} {tx1 : TxSt} {cur : List Nat}
  {a2 : Alloc} {ta2 : TxAlloc} {N L : List Nat} {M : Assoc Nat} {WP FL : List Nat}

/-- pages freed by the transaction (data area) -/
theorem pc_dfreed (pc : PreCommit f0 live f1 tx1 cur a2 ta2 N L M WP FL) (x : Nat) (hx : x ∈ ta2.data.freed) :
    x ∉ cur ∧ 2 ≤ x ∧ InUse a2 x ∧ (x ∈ live ∨ ¬ InUse f0.alloc x) ∧ x ∉ ta2.mta.allocated ∧
    x < a2.data.endMarker := by
  rw [pc.hdf] at hx
  obtain ⟨d1, d2, d3, d4, d5, d6⟩ := pc.h1.dfreed x hx
  refine ⟨d1, d2, pc.hkeep x d4, d5, ?_, Nat.lt_of_lt_of_le d3 pc.hde⟩
  rw [pc.hal]
  intro hc
  rcases hc with hc | hc
  · exact (pc.hN.2 x hc).1 d4
  · exact d6 hc

/-- pages released from the meta area are old internal pages -/
theorem pc_mfreed (pc : PreCommit f0 live f1 tx1 cur a2 ta2 N L M WP FL) (x : Nat) (hx : x ∈ ta2.mta.freed) :
    x ∈ f0.internal ∧ True ∧ InUse f0.alloc x ∧ x ∉ live ∧ InUse a2 x := by
  have hin : x ∈ f0.internal := by
    rw [mem_internal]
    rcases (pc.hmf x).mp hx with h | h
    · exact Or.inr (pc.hL x h)
    · obtain ⟨k, hk, -⟩ := pc.h1.mfreed x h
      exact Or.inl ((mem_values pc.he.keys x).mpr ⟨k, hk⟩)
  obtain ⟨i2, i3⟩ := pc.he.intOk x hin
  exact ⟨hin, trivial, i2, i3, pc.hkeep x (pc.h1.keep x i2)⟩

/-- pages allocated in the meta area by the transaction or its commit -/
theorem pc_alloc (pc : PreCommit f0 live f1 tx1 cur a2 ta2 N L M WP FL) (x : Nat) (hx : x ∈ ta2.mta.allocated) :
    True ∧ InUse a2 x ∧ ¬ InUse f0.alloc x ∧ x ∉ cur := by
  rcases (pc.hal x).mp hx with h | h
  · obtain ⟨n1, n2, n3⟩ := pc.hN.2 x h
    exact ⟨n3, n2, fun hu => n1 (pc.h1.keep x hu), fun hc => n1 (pc.h1.curOk x hc).2.2.1⟩
  · obtain ⟨m1, m2, m3⟩ := pc.h1.mAlloc.2 x h
    exact ⟨trivial, pc.hkeep x m1, m2, m3⟩

end PreCommitFacts

section PreCommitFacts2
variable {f0 : FileSt} {live : List Nat} {f1 : FileSt} {tx1 : TxSt} {cur : List Nat}
  {a2 : Alloc} {ta2 : TxAlloc} {N L : List Nat} {M : Assoc Nat} {WP FL : List Nat}

/-- a page of the current set stays in use -/
theorem pc_cur (pc : PreCommit f0 live f1 tx1 cur a2 ta2 N L M WP FL) (k : Nat) (hk : k ∈ cur) :
    2 ≤ k ∧ k < a2.data.endMarker ∧ InUse (commitShape a2 ta2 FL) k := by
  obtain ⟨c1, c2, c3, c4⟩ := pc.h1.curOk k hk
  have hu := pc.hkeep k c3
  refine ⟨c1, Nat.lt_of_lt_of_le c2 pc.hde, inUse_commitShape a2 ta2 FL k hu ?_ ?_⟩
  · exact fun hd => (pc_dfreed pc k hd).1 hk
  · intro hm
    obtain ⟨-, -, m3, m4, -⟩ := pc_mfreed pc k hm
    rcases c4 with c4 | c4
    · exact m4 c4
    · exact c4 m3

/-- an old internal page that is not released: still in use, not owned by the client -/
theorem pc_kept (pc : PreCommit f0 live f1 tx1 cur a2 ta2 N L M WP FL) (x : Nat) (hx : x ∈ f0.internal)
    (hm : x ∉ ta2.mta.freed) :
    True ∧ InUse (commitShape a2 ta2 FL) x ∧ x ∉ cur ∧ InUse f0.alloc x := by
  obtain ⟨i2, i3⟩ := pc.he.intOk x hx
  have i1 : True := trivial
  have hnc : x ∉ cur := by
    intro hc
    rcases (pc.h1.curOk x hc).2.2.2 with c | c
    · exact i3 c
    · exact c i2
  refine ⟨i1, inUse_commitShape a2 ta2 FL x (pc.hkeep x (pc.h1.keep x i2)) ?_ hm, hnc, i2⟩
  intro hd
  rcases (pc_dfreed pc x hd).2.2.2.1 with c | c
  · exact i3 c
  · exact c i2

/-- a page allocated in the meta area: in use, not owned by the client -/
theorem pc_new (pc : PreCommit f0 live f1 tx1 cur a2 ta2 N L M WP FL) (x : Nat) (hx : x ∈ ta2.mta.allocated) :
    True ∧ InUse (commitShape a2 ta2 FL) x ∧ x ∉ cur ∧ ¬ InUse f0.alloc x := by
  obtain ⟨n1, n2, n3, n4⟩ := pc_alloc pc x hx
  refine ⟨n1, inUse_commitShape a2 ta2 FL x n2 ?_ ?_, n4, n3⟩
  · exact fun hd => (pc_dfreed pc x hd).2.2.2.2.1 hx
  · exact fun hm => n3 (pc_mfreed pc x hm).2.2.1

/-- the entries of the new mapping -/
theorem pc_map (pc : PreCommit f0 live f1 tx1 cur a2 ta2 N L M WP FL) (k w : Nat)
    (hk : Assoc.get? M k = some w) :
    k ∈ cur ∧ ((Assoc.get? tx1.walNew k = some w ∧ w ∈ ta2.mta.allocated) ∨
      (Assoc.get? f0.walMap k = some w ∧ k ∉ tx1.walFree ∧ w ∈ f0.internal ∧ w ∉ ta2.mta.freed)) := by
  rw [pc.hM] at hk
  unfold newMapAt at hk
  cases hw : Assoc.get? tx1.walNew k with
  | some w' =>
    rw [hw] at hk
    simp only [Option.some.injEq] at hk
    subst hk
    obtain ⟨-, w2, -, -, p, hp, hpf⟩ := pc.h1.wn k w' hw
    have ho := pc.h1.pg k p hp
    exact ⟨ho.inCur (ho.flDirty hpf).2, Or.inl ⟨rfl, (pc.hal w').mpr (Or.inr w2)⟩⟩
  | none =>
    rw [hw] at hk
    by_cases hf : k ∈ tx1.walFree
    · simp [hf] at hk
    · simp only [hf, if_false] at hk
      have hl := pc.he.mapKey k w hk
      have hc : k ∈ cur := by
        false_or_by_contra
        rename_i hn
        exact hf (pc.h1.gone k hl hn w hk)
      have hin : w ∈ f0.internal := by
        rw [mem_internal]; exact Or.inl ((mem_values pc.he.keys w).mpr ⟨k, hk⟩)
      refine ⟨hc, Or.inr ⟨hk, hf, hin, ?_⟩⟩
      intro hm
      rcases (pc.hmf w).mp hm with h | h
      · -- a mapping page or free-list page is not an overwrite page
        have hnd := pc.he.intNodup
        unfold FileSt.internal at hnd
        rw [List.append_assoc, List.nodup_append] at hnd
        have hv : w ∈ f0.walMap.map (·.2) := (mem_values pc.he.keys w).mpr ⟨k, hk⟩
        exact hnd.2.2 w hv w (List.mem_append.mpr (pc.hL w h)) rfl
      · obtain ⟨k', hk', hkf⟩ := pc.h1.mfreed w h
        have := pc.he.mapInj k k' w hk hk'
        exact hf (this ▸ hkf)

end PreCommitFacts2

section PreCommitFacts3
variable {f0 : FileSt} {live : List Nat} {f1 : FileSt} {tx1 : TxSt} {cur : List Nat}
  {a2 : Alloc} {ta2 : TxAlloc} {N L : List Nat} {M : Assoc Nat} {WP FL : List Nat}

/-- a mapping page or free-list page of the old state is not an overwrite page of the old state -/
theorem eng_int_disj {f : FileSt} {live : List Nat} (he : EngInv f live) (x : Nat)
    (hx : x ∈ f.walPages ∨ x ∈ f.alloc.freelistPages) : x ∉ f.walMap.map (·.2) := by
  intro hv
  have hnd := he.intNodup
  unfold FileSt.internal at hnd
  rw [List.append_assoc, List.nodup_append] at hnd
  exact hnd.2.2 x hv x (List.mem_append.mpr hx) rfl

theorem pc_oldpage (pc : PreCommit f0 live f1 tx1 cur a2 ta2 N L M WP FL) (x : Nat)
    (hx : x ∈ f0.walPages ∨ x ∈ f0.alloc.freelistPages) (hl : x ∉ L) :
    x ∈ f0.internal ∧ x ∉ ta2.mta.freed := by
  refine ⟨(mem_internal f0 x).mpr (Or.inr hx), ?_⟩
  intro hm
  rcases (pc.hmf x).mp hm with h | h
  · exact hl h
  · obtain ⟨k, hk, -⟩ := pc.h1.mfreed x h
    exact eng_int_disj pc.he x hx ((mem_values pc.he.keys x).mpr ⟨k, hk⟩)

/-- every internal page of the new state is a kept old internal page or a page allocated in the meta area -/
theorem pc_class (pc : PreCommit f0 live f1 tx1 cur a2 ta2 N L M WP FL) (x : Nat)
    (hx : x ∈ M.map (·.2) ++ WP ++ FL) :
    (x ∈ f0.internal ∧ x ∉ ta2.mta.freed) ∨ x ∈ ta2.mta.allocated := by
  rw [List.mem_append, List.mem_append] at hx
  rcases hx with (hx | hx) | hx
  · obtain ⟨k, hk⟩ := (mem_values pc.hMk x).mp hx
    rcases (pc_map pc k x hk).2 with h | h
    · exact Or.inr h.2
    · exact Or.inl ⟨h.2.2.1, h.2.2.2⟩
  · rcases pc.hWP.2 x hx with h | h
    · exact Or.inl (pc_oldpage pc x (Or.inl h.1) h.2)
    · exact Or.inr ((pc.hal x).mpr (Or.inl h))
  · rcases pc.hFL.2 x hx with h | h
    · exact Or.inl (pc_oldpage pc x (Or.inr h.1) h.2)
    · exact Or.inr ((pc.hal x).mpr (Or.inl h))

theorem pc_intOk (pc : PreCommit f0 live f1 tx1 cur a2 ta2 N L M WP FL) (x : Nat)
    (hx : x ∈ M.map (·.2) ++ WP ++ FL) :
    True ∧ InUse (commitShape a2 ta2 FL) x ∧ x ∉ cur := by
  rcases pc_class pc x hx with h | h
  · obtain ⟨k1, k2, k3, -⟩ := pc_kept pc x h.1 h.2
    exact ⟨k1, k2, k3⟩
  · obtain ⟨k1, k2, k3, -⟩ := pc_new pc x h
    exact ⟨k1, k2, k3⟩

theorem pc_mapInj (pc : PreCommit f0 live f1 tx1 cur a2 ta2 N L M WP FL) (k1 k2 w : Nat)
    (h1 : Assoc.get? M k1 = some w) (h2 : Assoc.get? M k2 = some w) : k1 = k2 := by
  rcases (pc_map pc k1 w h1).2 with a | a <;> rcases (pc_map pc k2 w h2).2 with b | b
  · exact pc.h1.wnInj k1 k2 w a.1 b.1
  · exact absurd (pc.he.intOk w b.2.2.1).1 (pc_alloc pc w a.2).2.2.1
  · exact absurd (pc.he.intOk w a.2.2.1).1 (pc_alloc pc w b.2).2.2.1
  · exact pc.he.mapInj k1 k2 w a.1 b.1

end PreCommitFacts3

section PreCommitFacts4
variable {f0 : FileSt} {live : List Nat} {f1 : FileSt} {tx1 : TxSt} {cur : List Nat}
  {a2 : Alloc} {ta2 : TxAlloc} {N L : List Nat} {M : Assoc Nat} {WP FL : List Nat}

/-- an overwrite page of the new mapping is neither a kept old mapping/free-list page nor a page allocated
    by the commit -/
theorem pc_val_ne_page (pc : PreCommit f0 live f1 tx1 cur a2 ta2 N L M WP FL) (x : Nat) (hx : x ∈ M.map (·.2))
    (hp : (x ∈ f0.walPages ∨ x ∈ f0.alloc.freelistPages) ∨ x ∈ N) : False := by
  obtain ⟨k, hk⟩ := (mem_values pc.hMk x).mp hx
  rcases (pc_map pc k x hk).2 with h | h
  · obtain ⟨w1, w2, -⟩ := pc.h1.wn k x h.1
    rcases hp with hp | hp
    · exact w1 (pc.he.intOk x ((mem_internal f0 x).mpr (Or.inr hp))).1
    · exact (pc.hN.2 x hp).1 (pc.h1.mAlloc.2 x w2).1
  · rcases hp with hp | hp
    · exact eng_int_disj pc.he x hp ((mem_values pc.he.keys x).mpr ⟨k, h.1⟩)
    · exact (pc.hN.2 x hp).1 (pc.h1.keep x (pc.he.intOk x h.2.2.1).1)

theorem pc_intNodup (pc : PreCommit f0 live f1 tx1 cur a2 ta2 N L M WP FL) : (M.map (·.2) ++ WP ++ FL).Nodup := by
  rw [List.nodup_append, List.nodup_append]
  refine ⟨⟨values_nodup M pc.hMk (pc_mapInj pc), pc.hWP.1, ?_⟩, pc.hFL.1, ?_⟩
  · intro x hx y hy e
    subst e
    apply pc_val_ne_page pc x hx
    rcases pc.hWP.2 x hy with h | h
    · exact Or.inl (Or.inl h.1)
    · exact Or.inr h
  · intro x hx y hy e
    subst e
    rcases List.mem_append.mp hx with hx | hx
    · apply pc_val_ne_page pc x hx
      rcases pc.hFL.2 x hy with h | h
      · exact Or.inl (Or.inr h.1)
      · exact Or.inr h
    · exact pc.hWF x hx hy

end PreCommitFacts4

section PreCommitFacts5
variable {f0 : FileSt} {live : List Nat} {f1 : FileSt} {tx1 : TxSt} {cur : List Nat}
  {a2 : Alloc} {ta2 : TxAlloc} {N L : List Nat} {M : Assoc Nat} {WP FL : List Nat}

/-- the accounting of the meta area after the commit -/
theorem pc_total (pc : PreCommit f0 live f1 tx1 cur a2 ta2 N L M WP FL) :
    (unionIds ta2.mta.freed a2.mta.free).length + (M.map (·.2) ++ WP ++ FL).length ≤ a2.metaTotal := by
  have t1 : (unionIds ta2.mta.freed a2.mta.free).length = ta2.mta.freed.length + a2.mta.free.length :=
    length_unionIds_of_disjoint _ _ (asc_nodup _ pc.hmfa) (fun x hx hf => (pc_mfreed pc x hx).2.2.2.2.2.1 hf)
  have t2 : (ta2.mta.freed ++ (M.map (·.2) ++ WP ++ FL)).length ≤ (f0.internal ++ ta2.mta.allocated).length := by
    apply nodup_subset_length
    · rw [List.nodup_append]
      refine ⟨asc_nodup _ pc.hmfa, pc_intNodup pc, ?_⟩
      intro x hx y hy e
      subst e
      rcases pc_class pc x hy with h | h
      · exact h.2 hx
      · exact (pc_alloc pc x h).2.2.1 (pc_mfreed pc x hx).2.2.1
    · intro x hx
      rw [List.mem_append] at hx ⊢
      rcases hx with hx | hx
      · exact Or.inl (pc_mfreed pc x hx).1
      · rcases pc_class pc x hx with h | h
        · exact Or.inl h.1
        · exact Or.inr h
  have t3 : (a2.mta.free ++ ta2.mta.allocated).length ≤
      (f0.alloc.mta.free ++ ta2.moveToMeta ++ ta2.fromOverflow).length := by
    apply nodup_subset_length
    · rw [List.nodup_append]
      refine ⟨asc_nodup _ pc.hok.ascM, asc_nodup _ pc.hasc, ?_⟩
      intro x hx y hy e
      subst e
      exact (pc_alloc pc x hy).2.1.2.1 hx
    · intro x hx
      rw [List.mem_append] at hx
      have := (pc.hinv.mIff x).mp hx
      rw [List.mem_append, List.mem_append]
      rcases this with h | h | h
      · exact Or.inl (Or.inl h)
      · exact Or.inl (Or.inr h)
      · exact Or.inr h
  have t4 := pc.hinv.total
  have t5 := pc.he.total
  simp only [List.length_append] at t2 t3 ⊢
  omega

end PreCommitFacts5

section PreCommitFacts6
variable {f0 : FileSt} {live : List Nat} {f1 : FileSt} {tx1 : TxSt} {cur : List Nat}
  {a2 : Alloc} {ta2 : TxAlloc} {N L : List Nat} {M : Assoc Nat} {WP FL : List Nat}

theorem pc_wf (pc : PreCommit f0 live f1 tx1 cur a2 ta2 N L M WP FL) : WF (commitShape a2 ta2 FL) := by
  refine ⟨asc_unionIds _ _ pc.hok.ascD, asc_unionIds _ _ pc.hok.ascM, ?_, ?_, ?_, pc.hok.dEnd, ?_, ?_⟩
  · intro x hx
    have hx' : x ∈ unionIds ta2.data.freed a2.data.free := hx
    rw [mem_unionIds] at hx'
    show 2 ≤ x ∧ x < a2.data.endMarker
    rcases hx' with h | h
    · obtain ⟨-, d2, -, -, -, d6⟩ := pc_dfreed pc x h
      exact ⟨d2, d6⟩
    · exact pc.hok.dRange x h
  · intro x hx
    have hx' : x ∈ unionIds ta2.mta.freed a2.mta.free := hx
    rw [mem_unionIds] at hx'
    show x < a2.mta.endMarker ∧ (x < a2.data.endMarker ∨ (0 < a2.maxPages ∧ a2.maxPages ≤ x))
    rcases hx' with h | h
    · obtain ⟨-, -, -, -, m5⟩ := pc_mfreed pc x h
      exact ⟨m5.2.2.1, m5.2.2.2⟩
    · exact (pc.hok.mOK x h).2
  · intro x hx
    have hx' : x ∈ unionIds ta2.data.freed a2.data.free := hx
    rw [mem_unionIds] at hx'
    show x ∉ unionIds ta2.mta.freed a2.mta.free
    rw [mem_unionIds]
    intro hm
    rcases hx' with h | h
    · obtain ⟨-, -, d3, d4, -⟩ := pc_dfreed pc x h
      rcases hm with hm | hm
      · obtain ⟨-, -, m3, m4, -⟩ := pc_mfreed pc x hm
        rcases d4 with d4 | d4
        · exact m4 d4
        · exact d4 m3
      · exact d3.2.1 hm
    · rcases hm with hm | hm
      · exact (pc_mfreed pc x hm).2.2.2.2.1 h
      · exact (pc.hok.mOK x hm).1 h
  · intro x hx
    have hx' : x ∈ unionIds ta2.data.freed a2.data.free := hx
    rw [mem_unionIds] at hx'
    show x < a2.mta.endMarker
    rcases hx' with h | h
    · exact (pc_dfreed pc x h).2.2.1.2.2.1
    · exact pc.hok.dfM x h
  · have := pc_total pc
    show (unionIds ta2.mta.freed a2.mta.free).length ≤ a2.metaTotal
    omega

theorem pc_engInv (pc : PreCommit f0 live f1 tx1 cur a2 ta2 N L M WP FL) (F : FileSt)
    (hA : F.alloc = commitShape a2 ta2 FL) (hMm : F.walMap = M) (hW : F.walPages = WP) : EngInv F cur := by
  have hint : F.internal = M.map (·.2) ++ WP ++ FL := by unfold FileSt.internal; rw [hA, hMm, hW]; rfl
  have hmx : (commitShape a2 ta2 FL).maxPages = f0.alloc.maxPages := pc.hinv.cfgMax
  refine ⟨hA ▸ pc_wf pc, hMm ▸ pc.hMk, ?_, ?_, ?_, ?_, hint ▸ pc_intNodup pc, ?_, ?_⟩
  · intro id hid
    rw [hA]
    exact pc_cur pc id hid
  · intro k w hk
    rw [hMm] at hk
    exact (pc_map pc k w hk).1
  · rw [hMm]; exact pc_mapInj pc
  · intro x hx
    rw [hint] at hx
    obtain ⟨i1, i2, i3⟩ := pc_intOk pc x hx
    rw [hA]
    exact ⟨i2, i3⟩
  · rw [hint, hA]; exact pc_total pc
  · rw [hA, hmx]; exact pc.he.lim2

end PreCommitFacts6

/-! ### the allocations of the commit itself -/

/-- allocator state during the commit: `N` are the pages the commit allocated so far, `ta3` the
    transaction's allocator state when the commit started allocating -/
structure PA (f0 f1 : FileSt) (a : Alloc) (ta : TxAlloc) (N : List Nat) (ta3 : TxAlloc) : Prop where
  hinv : Inv f0.alloc a ta
  hok : AOK a
  hde : f1.alloc.data.endMarker ≤ a.data.endMarker
  hkeep : ∀ x, InUse f1.alloc x → InUse a x
  hdf : ta.data.freed = ta3.data.freed
  hmf : ta.mta.freed = ta3.mta.freed
  hN : N.Nodup ∧ ∀ x ∈ N, ¬ InUse f1.alloc x ∧ InUse a x ∧ True
  hal : ∀ x, x ∈ ta.mta.allocated ↔ x ∈ N ∨ x ∈ ta3.mta.allocated
  hasc : Asc ta.mta.allocated

theorem pa_step {f0 f1 : FileSt} {live : List Nat} (he : EngInv f0 live) {a : Alloc} {ta : TxAlloc} {N : List Nat}
    {ta3 : TxAlloc} (h : PA f0 f1 a ta N ta3) (n : Nat) (a' : Alloc) (ta' : TxAlloc) (ids : List Nat)
    (hr : metaAllocRegions a ta n = some (a', ta', ids)) :
    PA f0 f1 a' ta' (N ++ ids) ta3 ∧ ids.Nodup ∧ ∀ x ∈ ids, x ∉ N := by
  obtain ⟨f1', f2', f3', f4'⟩ := fr_metaAllocRegions a ta n a' ta' ids h.hok hr
  have hdm := dm_metaAllocRegions a ta n a' ta' ids hr
  obtain ⟨s1, s2, s3, s4⟩ := metaAllocRegions_st a ta n a' ta' ids hr
  have hdisj : ∀ x ∈ ids, x ∉ N := fun x hx hn => (f3' x hx).1 (h.hN.2 x hn).2.1
  refine ⟨⟨inv_metaAllocRegions f0.alloc a ta n a' ta' ids he.wf h.hinv hr, f1', Nat.le_trans h.hde hdm,
    fun x hx => f2' x (h.hkeep x hx), s3.trans h.hdf, s2.trans h.hmf, ⟨?_, ?_⟩, ?_, ?_⟩,
    f4', hdisj⟩
  · rw [List.nodup_append]
    exact ⟨h.hN.1, f4', fun x hx y hy e => hdisj y hy (e ▸ hx)⟩
  · intro x hx
    rcases List.mem_append.mp hx with hx | hx
    · obtain ⟨n1, n2, n3⟩ := h.hN.2 x hx
      exact ⟨n1, f2' x n2, n3⟩
    · exact ⟨fun hu => (f3' x hx).1 (h.hkeep x hu), (f3' x hx).2, trivial⟩
  · intro x
    rw [s1, mem_unionIds, h.hal x, List.mem_append]
    constructor
    · rintro (h1 | h1 | h1)
      · exact Or.inl (Or.inr h1)
      · exact Or.inl (Or.inl h1)
      · exact Or.inr h1
    · rintro ((h1 | h1) | h1)
      · exact Or.inr (Or.inl h1)
      · exact Or.inl h1
      · exact Or.inr (Or.inr h1)
  · rw [s1]; exact asc_unionIds _ _ h.hasc

/-- the state in which the commit starts allocating -/
theorem pa_init {f0 : FileSt} {live : List Nat} {f : FileSt} {tx : TxSt} {cur : List Nat}
    (h1 : TxInv f0 live (cPhase1 f tx).1 (cPhase1 f tx).2.1 cur) :
    PA f0 (cPhase1 f tx).1 (cPhase1 f tx).1.alloc (cTx3 f tx).ta [] (cTx3 f tx).ta := by
  have hasc : Asc (cTx3 f tx).ta.mta.allocated := by
    rw [(cTx3_spec f tx).1, (metaFreeIds_spec _ _).1, (metaFreeIds_spec _ _).1]; exact h1.mAlloc.1
  exact ⟨inv_cTx3 h1, h1.aok, Nat.le_refl _, fun _ hx => hx, rfl, rfl,
    ⟨List.nodup_nil, fun _ hx => nomatch hx⟩, fun x => by simp, hasc⟩

theorem eng_pages {f : FileSt} {live : List Nat} (he : EngInv f live) :
    f.walPages.Nodup ∧ f.alloc.freelistPages.Nodup ∧ ∀ x ∈ f.walPages, x ∉ f.alloc.freelistPages := by
  have hnd := he.intNodup
  unfold FileSt.internal at hnd
  rw [List.nodup_append, List.nodup_append] at hnd
  refine ⟨hnd.1.2.1, hnd.2.1, ?_⟩
  intro x hx hy
  exact hnd.2.2 x (List.mem_append_right _ hx) x hy rfl

theorem cRel_sub {f0 : FileSt} {live : List Nat} {f : FileSt} {tx : TxSt} {cur : List Nat}
    (h1 : TxInv f0 live (cPhase1 f tx).1 (cPhase1 f tx).2.1 cur) (x : Nat) (hx : x ∈ cRel f tx) :
    (x ∈ f0.walPages ∧ cWalUpd f tx = true) ∨ (x ∈ f0.alloc.freelistPages ∧ cAllocUpd f tx = true) := by
  unfold cRel at hx
  rcases List.mem_append.mp hx with hx | hx
  · left
    cases hc : cWalUpd f tx with
    | false => rw [hc] at hx; simp at hx
    | true => rw [hc] at hx; simp only [if_true] at hx; exact ⟨h1.sameWP ▸ hx, rfl⟩
  · right
    cases hc : cAllocUpd f tx with
    | false => rw [hc] at hx; simp at hx
    | true => rw [hc] at hx; simp only [if_true] at hx; exact ⟨h1.inv.cfgFl ▸ hx, rfl⟩

theorem pc_of_pa {f0 : FileSt} {live : List Nat} {f : FileSt} {tx : TxSt} {cur : List Nat}
    (he : EngInv f0 live) (h1 : TxInv f0 live (cPhase1 f tx).1 (cPhase1 f tx).2.1 cur)
    {a2 : Alloc} {ta2 : TxAlloc} {N : List Nat}
    (pa : PA f0 (cPhase1 f tx).1 a2 ta2 N (cTx3 f tx).ta) (M : Assoc Nat)
    (hM : ∀ k, Assoc.get? M k = newMapAt f0.walMap (cPhase1 f tx).2.1 k) (hMk : AscKeys M) (WP FL : List Nat)
    (hWP : WP.Nodup ∧ ∀ x ∈ WP, (x ∈ f0.walPages ∧ x ∉ cRel f tx) ∨ x ∈ N)
    (hFL : FL.Nodup ∧ ∀ x ∈ FL, (x ∈ f0.alloc.freelistPages ∧ x ∉ cRel f tx) ∨ x ∈ N)
    (hWF : ∀ x ∈ WP, x ∉ FL) :
    PreCommit f0 live (cPhase1 f tx).1 (cPhase1 f tx).2.1 cur a2 ta2 N (cRel f tx) M WP FL := by
  obtain ⟨c1, c2, c3, c4⟩ := cTx3_facts f tx
  refine ⟨he, h1, pa.hinv, pa.hok, pa.hde, pa.hkeep, ?_, pa.hN, ?_, pa.hasc, ?_, ?_,
    ?_, hM, hMk, hWP, hFL, hWF⟩
  · rw [pa.hdf, c2]
  · intro x; rw [pa.hal x, c1]
  · intro x hx
    rcases cRel_sub h1 x hx with h | h
    · exact Or.inl h.1
    · exact Or.inr h.1
  · intro x; rw [pa.hmf, c3 x]
  · rw [pa.hmf]; exact c4 h1.mfAsc

theorem wp_ok {f0 : FileSt} {live : List Nat} {f : FileSt} {tx : TxSt} {cur : List Nat}
    (he : EngInv f0 live) (h1 : TxInv f0 live (cPhase1 f tx).1 (cPhase1 f tx).2.1 cur)
    (N regs : List Nat) (hregs : regs.Nodup) (hsub : ∀ x ∈ regs, x ∈ N) :
    (if cWalUpd f tx then regs else (cPhase1 f tx).1.walPages).Nodup ∧
    ∀ x ∈ (if cWalUpd f tx then regs else (cPhase1 f tx).1.walPages),
      (x ∈ f0.walPages ∧ x ∉ cRel f tx) ∨ x ∈ N := by
  cases hwu : cWalUpd f tx with
  | true => simp only [if_true]; exact ⟨hregs, fun x hx => Or.inr (hsub x hx)⟩
  | false =>
    simp only [Bool.false_eq_true, if_false]
    rw [h1.sameWP]
    refine ⟨(eng_pages he).1, fun x hx => Or.inl ⟨hx, ?_⟩⟩
    intro hc
    rcases cRel_sub h1 x hc with c | c
    · rw [hwu] at c; cases c.2
    · exact (eng_pages he).2.2 x hx c.1

/-- an old mapping page is not a page allocated by the commit -/
theorem old_not_new {f0 : FileSt} {live : List Nat} {f1 : FileSt} {tx1 : TxSt} {cur : List Nat}
    (he : EngInv f0 live) (h1 : TxInv f0 live f1 tx1 cur) {a2 : Alloc} {ta2 : TxAlloc} {N : List Nat}
    {ta3 : TxAlloc} (pa : PA f0 f1 a2 ta2 N ta3) (x : Nat)
    (hx : x ∈ f0.walPages ∨ x ∈ f0.alloc.freelistPages) : x ∉ N := by
  intro hn
  exact (pa.hN.2 x hn).1 (h1.keep x (he.intOk x ((mem_internal f0 x).mpr (Or.inr hx))).1)

/-- **commit re-establishes the invariant** for the pages the client owns now — for every transaction,
    with or without the overflow flag, begun in a committed state with or without overflow pages -/
theorem commit_engInv {f0 : FileSt} {live : List Nat} {f : FileSt} {tx : TxSt} {cur : List Nat}
    (he : EngInv f0 live) (h : TxInv f0 live f tx cur) (hfl : AllFlushed tx)
    (hok : (commitAfterFlush f tx).2.1 = .ok) : EngInv (commitAfterFlush f tx).1 cur := by
  obtain ⟨h1, -, hmap, hkeys⟩ := commit_phase1 he h hfl
  rw [commitAfterFlush_eq] at hok ⊢
  unfold commitAfterFlush' at hok ⊢
  dsimp only at hok ⊢
  cases hr : cWalRes f tx with
  | none => rw [hr] at hok; cases hok
  | some r =>
    obtain ⟨a, ta, regs⟩ := r
    rw [hr] at hok
    dsimp only at hok ⊢
    cases hc : fileCommitAlloc a ta (cAllocUpd f tx || !regs.isEmpty) with
    | none => rw [hc] at hok; cases hok
    | some r2 =>
      obtain ⟨a2, ta2, cs⟩ := r2
      dsimp only
      have pa0 := pa_init h1
      have pa1 : PA f0 (cPhase1 f tx).1 a ta regs (cTx3 f tx).ta ∧ regs.Nodup := by
        rcases cWalRes_cases f tx a ta regs hr with ⟨n, hn⟩ | ⟨rfl, rfl, rfl⟩
        · obtain ⟨p1, p2, -⟩ := pa_step he pa0 n a ta regs hn
          exact ⟨p1, p2⟩
        · exact ⟨pa0, List.nodup_nil⟩
      rcases fileCommit_shape a ta _ a2 ta2 cs hc with
        ⟨hu, rfl, rfl, hcm⟩ | ⟨-, regs2, hstep, hcm⟩
      · -- nothing to write for the allocator
        simp only [Bool.or_eq_false_iff, Bool.not_eq_false', List.isEmpty_iff] at hu
        obtain ⟨hu1, hu2⟩ := hu
        subst hu2
        obtain ⟨z1, z2⟩ := cAllocUpd_false f tx hu1
        have hid := commitShape_id a2 ta2 (pa1.1.hdf.trans z2) (pa1.1.hmf.trans z1)
        have hfl' : a2.freelistPages = f0.alloc.freelistPages := pa1.1.hinv.cfgFl
        have pc := pc_of_pa he h1 pa1.1 _ hmap hkeys _ a2.freelistPages
          (wp_ok he h1 [] [] List.nodup_nil (fun _ hx => hx)) (by
            rw [hfl']
            refine ⟨(eng_pages he).2.1, fun x hx => Or.inl ⟨hx, ?_⟩⟩
            intro hc
            rcases cRel_sub h1 x hc with c | c
            · exact (eng_pages he).2.2 x c.1 hx
            · rw [hu1] at c; cases c.2) (by
            intro x hx
            rw [hfl']
            cases hwu : cWalUpd f tx with
            | true => rw [hwu] at hx; simp at hx
            | false =>
              rw [hwu] at hx
              simp only [Bool.false_eq_true, if_false] at hx
              exact (eng_pages he).2.2 x (h1.sameWP ▸ hx))
        exact pc_engInv pc _ (hcm.trans hid.symm) rfl rfl
      · -- the free lists are written
        have pa2 : PA f0 (cPhase1 f tx).1 a2 ta2 (regs ++ regs2) (cTx3 f tx).ta ∧ regs2.Nodup ∧
            ∀ x ∈ regs2, x ∉ regs := by
          rcases hstep with ⟨n, hn⟩ | ⟨rfl, rfl, rfl⟩
          · exact pa_step he pa1.1 n a2 ta2 regs2 hn
          · rw [List.append_nil]; exact ⟨pa1.1, List.nodup_nil, fun _ hx => nomatch hx⟩
        have pc := pc_of_pa he h1 pa2.1 _ hmap hkeys _ regs2
          (wp_ok he h1 (regs ++ regs2) regs pa1.2 (fun x hx => List.mem_append_left _ hx))
          ⟨pa2.2.1, fun x hx => Or.inr (List.mem_append_right _ hx)⟩ (by
            intro x hx hx2
            cases hwu : cWalUpd f tx with
            | true =>
              rw [hwu] at hx
              simp only [if_true] at hx
              exact pa2.2.2 x hx2 hx
            | false =>
              rw [hwu] at hx
              simp only [Bool.false_eq_true, if_false] at hx
              exact old_not_new he h1 pa2.1 x (Or.inl (h1.sameWP ▸ hx)) (List.mem_append_right _ hx2))
        have e0 := pc_engInv pc
          { (cPhase1 f tx).1 with
            alloc := commitShape a2 ta2 regs2,
            walMap := if cWalUpd f tx then cNewWal f tx else (cPhase1 f tx).1.walMap,
            walPages := if cWalUpd f tx then regs else (cPhase1 f tx).1.walPages } rfl rfl rfl
        exact relShape_engInv e0 _ hcm rfl rfl

/-! ### the overflow flag of the transaction never changes -/

/-! ### the abstract store between operations that do not touch a page -/

theorem step_untouched {f0 : FileSt} {live : List Nat} (he : EngInv f0 live) (s : ERunSt) (h : RunInv f0 live s)
    (id : Nat) (hid : id ∈ s.cur) (op : EOp) (ht : op.touches id = false) :
    (op.step s).σ id = s.σ id ∧ id ∈ (op.step s).cur := by
  cases op with
  | alloc n =>
    simp only [EOp.step]
    split
    · rename_i f tx ids hr
      obtain ⟨-, h2, -⟩ := txinv_alloc he h.tx n f tx ids hr
      have : id ∉ ids := fun hc => (h2 id hc).1 hid
      exact ⟨by simp [this], List.mem_append_left _ hid⟩
    · exact ⟨rfl, hid⟩
  | write i mode st =>
    have hne : id ≠ i := by
      intro e; subst e; simp [EOp.touches] at ht
    simp only [EOp.step]
    split
    · split
      · exact ⟨by simp [hne], hid⟩
      · exact ⟨rfl, hid⟩
    · exact ⟨rfl, hid⟩
  | free i =>
    have hne : id ≠ i := by
      intro e; subst e; simp [EOp.touches] at ht
    simp only [EOp.step]
    split
    · split
      · exact ⟨rfl, (mem_filter_ne _ _ _).mpr ⟨hid, hne⟩⟩
      · exact ⟨rfl, hid⟩
    · exact ⟨rfl, hid⟩
  | load i => simp only [EOp.step]; split <;> (try split) <;> exact ⟨rfl, hid⟩
  | read i => simp only [EOp.step]; split <;> (try split) <;> exact ⟨rfl, hid⟩
  | flushPage i => simp only [EOp.step]; split <;> (try split) <;> exact ⟨rfl, hid⟩
  | flushAll order => simp only [EOp.step]; split <;> exact ⟨rfl, hid⟩
  | checkpoint => exact ⟨rfl, hid⟩

theorem runOps_untouched {f0 : FileSt} {live : List Nat} (he : EngInv f0 live) (ops : List EOp) (s : ERunSt)
    (h : RunInv f0 live s) (id : Nat) (hid : id ∈ s.cur) (ht : ∀ op ∈ ops, op.touches id = false) :
    (runEOps s ops).σ id = s.σ id ∧ id ∈ (runEOps s ops).cur := by
  induction ops generalizing s with
  | nil => exact ⟨rfl, hid⟩
  | cons op ops ih =>
    obtain ⟨h1, h2⟩ := step_untouched he s h id hid op (ht op List.mem_cons_self)
    obtain ⟨h3, h4⟩ := ih (op.step s) (runinv_step he s op h) h2 (fun o ho => ht o (List.mem_cons_of_mem _ ho))
    exact ⟨h3.trans h1, h4⟩


end TxVerif.U
