import TxVerif.Model.Crash
namespace TxVerif

def touches : TOp → Nat → Prop
  | .write p _, q => p = q
  | .trunc n, q => n ≤ q
  | _, _ => False

def isHdrOn : TOp → Nat → Prop
  | .hdr s _ _, k => s = k
  | _, _ => False

theorem applyOp_pages (d : Img) (op : TOp) (q : Nat) (h : ¬ touches op q) : (applyOp d op).pages q = d.pages q := by
  cases op <;> simp_all [applyOp, touches] <;> omega

theorem tearOp_pages (d : Img) (op : TOp) (q : Nat) (h : ¬ touches op q) : (tearOp d op).pages q = d.pages q := by
  cases op <;> simp_all [tearOp, applyOp, touches] <;> omega

theorem applyOp_slots (d : Img) (op : TOp) (k : Nat) (h : ¬ isHdrOn op k) : (applyOp d op).slots k = d.slots k := by
  cases op <;> simp_all [applyOp, isHdrOn] <;> omega

theorem tearOp_slots (d : Img) (op : TOp) (k : Nat) (h : ¬ isHdrOn op k) : (tearOp d op).slots k = d.slots k := by
  cases op <;> simp_all [tearOp, applyOp, isHdrOn] <;> omega

/-- pages no pending operation touches have their durable content in every crash image -/
theorem crashImg_pages {d : Img} {ops : List TOp} {i : Img} (hc : CrashImg d ops i) (q : Nat)
    (h : ∀ op ∈ ops, ¬ touches op q) : i.pages q = d.pages q := by
  induction hc with
  | nil d => rfl
  | keep _ ih =>
    rw [ih (fun o ho => h o (List.mem_cons_of_mem _ ho)), applyOp_pages _ _ _ (h _ (List.mem_cons_self))]
  | drop _ ih => exact ih (fun o ho => h o (List.mem_cons_of_mem _ ho))
  | tear _ ih =>
    rw [ih (fun o ho => h o (List.mem_cons_of_mem _ ho)), tearOp_pages _ _ _ (h _ (List.mem_cons_self))]

theorem crashImg_slots {d : Img} {ops : List TOp} {i : Img} (hc : CrashImg d ops i) (k : Nat)
    (h : ∀ op ∈ ops, ¬ isHdrOn op k) : i.slots k = d.slots k := by
  induction hc with
  | nil d => rfl
  | keep _ ih =>
    rw [ih (fun o ho => h o (List.mem_cons_of_mem _ ho)), applyOp_slots _ _ _ (h _ (List.mem_cons_self))]
  | drop _ ih => exact ih (fun o ho => h o (List.mem_cons_of_mem _ ho))
  | tear _ ih =>
    rw [ih (fun o ho => h o (List.mem_cons_of_mem _ ho)), tearOp_slots _ _ _ (h _ (List.mem_cons_self))]

theorem foldl_applyOp_pages (ops : List TOp) : ∀ (d : Img) (q : Nat), (∀ op ∈ ops, ¬ touches op q) →
    (ops.foldl applyOp d).pages q = d.pages q := by
  induction ops with
  | nil => intro d q _; rfl
  | cons op ops ih =>
    intro d q h
    rw [List.foldl_cons, ih _ _ (fun o ho => h o (List.mem_cons_of_mem _ ho)),
      applyOp_pages _ _ _ (h _ (List.mem_cons_self))]

theorem foldl_applyOp_slots (ops : List TOp) : ∀ (d : Img) (k : Nat), (∀ op ∈ ops, ¬ isHdrOn op k) →
    (ops.foldl applyOp d).slots k = d.slots k := by
  induction ops with
  | nil => intro d k _; rfl
  | cons op ops ih =>
    intro d k h
    rw [List.foldl_cons, ih _ _ (fun o ho => h o (List.mem_cons_of_mem _ ho)),
      applyOp_slots _ _ _ (h _ (List.mem_cons_self))]

/-- a pending write or truncate that stays clear of the committed state -/
def ClearOf (reach : List (Nat × Hash)) : TOp → Prop
  | .write p _ => p ∉ reachPages reach
  | .trunc n => ∀ p ∈ reachPages reach, p < n
  | _ => False

theorem clearOf_not_touches (reach : List (Nat × Hash)) (op : TOp) (h : ClearOf reach op) (p : Nat) (hh : Hash)
    (hp : (p, hh) ∈ reach) : ¬ touches op p := by
  have hm : p ∈ reachPages reach := List.mem_map.mpr ⟨(p, hh), hp, rfl⟩
  cases op with
  | write q _ =>
    simp only [ClearOf] at h
    simp only [touches]
    intro e; subst e; exact h hm
  | trunc n =>
    simp only [ClearOf] at h
    simp only [touches]
    have := h p hm; omega
  | hdr _ _ _ => simp [ClearOf] at h
  | sync => simp [ClearOf] at h

theorem clearOf_not_hdr (reach : List (Nat × Hash)) (op : TOp) (h : ClearOf reach op) (k : Nat) : ¬ isHdrOn op k := by
  cases op <;> simp_all [ClearOf, isHdrOn]

/-- the invariant of accepted traces -/
structure Safe (reachOf : Nat → List (Nat × Hash)) (c : Cfg) : Prop where
  slotLe : c.aSlot ≤ 1
  active : c.durable.slots c.aSlot = some (c.aTx, c.aSt)
  other : ∀ t s, c.durable.slots (1 - c.aSlot) = some (t, s) → t < c.aTx
  intact : ∀ p h, (p, h) ∈ reachOf c.aSt → c.durable.pages p = some h
  quiet : c.inflight = none → ∀ op ∈ c.pending, ClearOf (reachOf c.aSt) op
  infl : ∀ st, c.inflight = some st →
    c.pending = [.hdr (1 - c.aSlot) (c.aTx + 1) st] ∧ ∀ p h, (p, h) ∈ reachOf st → c.durable.pages p = some h

theorem intactB_spec (reachOf : Nat → List (Nat × Hash)) (pages : Nat → Option Hash) (st : Nat)
    (h : intactB reachOf pages st = true) : ∀ p hh, (p, hh) ∈ reachOf st → pages p = some hh := by
  intro p hh hm
  unfold intactB at h
  have := List.all_eq_true.mp h (p, hh) hm
  simpa using this

/-- the discipline preserves the invariant -/
theorem safe_step (reachOf : Nat → List (Nat × Hash)) (c c' : Cfg) (op : TOp) (hs : Safe reachOf c)
    (h : c.step reachOf op = some c') : Safe reachOf c' := by
  obtain ⟨h1, h2, h3, h4, h5, h6⟩ := hs
  cases op with
  | write p hh =>
    simp only [Cfg.step] at h
    split at h
    · rename_i hc
      simp only [Option.some.injEq] at h; subst h
      simp only [Bool.and_eq_true, Option.isNone_iff_eq_none, Bool.not_eq_true', List.contains_eq_mem,
        decide_eq_false_iff_not] at hc
      refine ⟨h1, h2, h3, h4, ?_, ?_⟩
      · intro _ o ho
        rcases List.mem_append.mp ho with ho | ho
        · exact h5 hc.1 o ho
        · simp at ho; subst ho; exact hc.2
      · intro st hst; simp [hc.1] at hst
    · simp at h
  | trunc n =>
    simp only [Cfg.step] at h
    split at h
    · rename_i hc
      simp only [Option.some.injEq] at h; subst h
      simp only [Bool.and_eq_true, Option.isNone_iff_eq_none, List.all_eq_true, decide_eq_true_eq] at hc
      refine ⟨h1, h2, h3, h4, ?_, ?_⟩
      · intro _ o ho
        rcases List.mem_append.mp ho with ho | ho
        · exact h5 hc.1 o ho
        · simp at ho; subst ho; exact hc.2
      · intro st hst; simp [hc.1] at hst
    · simp at h
  | hdr s t st =>
    simp only [Cfg.step] at h
    split at h
    · rename_i hc
      simp only [Option.some.injEq] at h; subst h
      simp only [Bool.and_eq_true, Option.isNone_iff_eq_none, List.isEmpty_iff, beq_iff_eq] at hc
      obtain ⟨⟨⟨⟨_, _⟩, hs1⟩, ht⟩, hint⟩ := hc
      refine ⟨h1, h2, h3, h4, ?_, ?_⟩
      · intro hn; simp at hn
      · intro st' hst'
        simp only [Option.some.injEq] at hst'
        subst hst' hs1 ht
        exact ⟨rfl, intactB_spec reachOf _ _ hint⟩
    · simp at h
  | sync =>
    simp only [Cfg.step] at h
    cases hi : c.inflight with
    | none =>
      simp only [hi, Option.some.injEq] at h; subst h
      have hq := h5 hi
      refine ⟨h1, ?_, ?_, ?_, ?_, ?_⟩
      · show (c.pending.foldl applyOp c.durable).slots c.aSlot = _
        rw [foldl_applyOp_slots _ _ _ (fun o ho => clearOf_not_hdr _ o (hq o ho) _)]; exact h2
      · intro t s
        show (c.pending.foldl applyOp c.durable).slots (1 - c.aSlot) = _ → _
        rw [foldl_applyOp_slots _ _ _ (fun o ho => clearOf_not_hdr _ o (hq o ho) _)]; exact h3 t s
      · intro p hh hm
        show (c.pending.foldl applyOp c.durable).pages p = _
        rw [foldl_applyOp_pages _ _ _ (fun o ho => clearOf_not_touches _ o (hq o ho) p hh hm)]; exact h4 p hh hm
      · intro _ o ho; simp at ho
      · intro st hst; simp at hst
    | some st =>
      simp only [hi, Option.some.injEq] at h; subst h
      obtain ⟨hp, hint⟩ := h6 st hi
      have hsl : 1 - (1 - c.aSlot) = c.aSlot := by omega
      refine ⟨by show 1 - c.aSlot ≤ 1; omega, ?_, ?_, ?_, ?_, ?_⟩
      · show (c.pending.foldl applyOp c.durable).slots (1 - c.aSlot) = _
        rw [hp]; simp [applyOp]
      · intro t s
        show (c.pending.foldl applyOp c.durable).slots (1 - (1 - c.aSlot)) = _ → _
        rw [hp, hsl]
        simp only [List.foldl_cons, List.foldl_nil, applyOp]
        have : ¬ (c.aSlot = 1 - c.aSlot) := by omega
        simp only [this, if_false, h2, Option.some.injEq, Prod.mk.injEq]
        intro ⟨e, _⟩; show t < c.aTx + 1; omega
      · intro p hh hm
        show (c.pending.foldl applyOp c.durable).pages p = _
        rw [hp]; simp only [List.foldl_cons, List.foldl_nil, applyOp]; exact hint p hh hm
      · intro _ o ho; simp at ho
      · intro st' hst'; simp at hst'

theorem safe_run (reachOf : Nat → List (Nat × Hash)) (ops : List TOp) : ∀ (c c' : Cfg), Safe reachOf c →
    c.run reachOf ops = some c' → Safe reachOf c' := by
  induction ops with
  | nil => intro c c' hs h; simp [Cfg.run] at h; subst h; exact hs
  | cons op ops ih =>
    intro c c' hs h
    simp only [Cfg.run] at h
    cases hst : c.step reachOf op with
    | none => simp [hst] at h
    | some c1 => simp only [hst] at h; exact ih c1 c' (safe_step reachOf c c1 op hs hst) h

/-- recovery on an image whose active slot holds (tx, st) and whose other slot is older or invalid -/
theorem recover_active (i : Img) (a : Nat) (ha : a ≤ 1) (tx st : Nat) (h1 : i.slots a = some (tx, st))
    (h2 : ∀ t s, i.slots (1 - a) = some (t, s) → t < tx) : recover i = some st := by
  have : a = 0 ∨ a = 1 := by omega
  rcases this with rfl | rfl
  · simp only [Nat.sub_zero] at h2
    unfold recover
    rw [h1]
    cases h : i.slots 1 with
    | none => rfl
    | some r => obtain ⟨t, s⟩ := r; have := h2 t s h; simp [this]
  · simp only [Nat.sub_self] at h2
    unfold recover
    rw [h1]
    cases h : i.slots 0 with
    | none => rfl
    | some r =>
      obtain ⟨t, s⟩ := r
      have := h2 t s h
      have hn : ¬ tx < t := by omega
      simp [hn]

/-- the image invariant: every crash image of a safe configuration recovers to the committed state
    or to the state of the commit in progress, and that state is complete -/
theorem safe_crash (reachOf : Nat → List (Nat × Hash)) (c : Cfg) (hs : Safe reachOf c) (i : Img)
    (hc : CrashImg c.durable c.pending i) :
    ∃ st, recover i = some st ∧ (st = c.aSt ∨ c.inflight = some st) ∧
      ∀ p h, (p, h) ∈ reachOf st → i.pages p = some h := by
  obtain ⟨h1, h2, h3, h4, h5, h6⟩ := hs
  cases hi : c.inflight with
  | none =>
    have hq := h5 hi
    have hsl : ∀ k, i.slots k = c.durable.slots k := fun k =>
      crashImg_slots hc k (fun o ho => clearOf_not_hdr _ o (hq o ho) k)
    refine ⟨c.aSt, ?_, Or.inl rfl, ?_⟩
    · exact recover_active i c.aSlot h1 c.aTx c.aSt (by rw [hsl]; exact h2) (by intro t s; rw [hsl]; exact h3 t s)
    · intro p hh hm
      rw [crashImg_pages hc p (fun o ho => clearOf_not_touches _ o (hq o ho) p hh hm)]
      exact h4 p hh hm
  | some st =>
    obtain ⟨hp, hint⟩ := h6 st hi
    rw [hp] at hc
    have hne : ¬ (c.aSlot = 1 - c.aSlot) := by omega
    -- the three fates of the single pending header write
    have hpages : ∀ q, i.pages q = c.durable.pages q := fun q =>
      crashImg_pages hc q (by intro o ho; simp at ho; subst ho; simp [touches])
    have hact : i.slots c.aSlot = some (c.aTx, c.aSt) := by
      rw [crashImg_slots hc c.aSlot (by intro o ho; simp at ho; subst ho; simp [isHdrOn]; omega)]; exact h2
    cases hc with
    | keep hc' =>
      cases hc'
      refine ⟨st, ?_, Or.inr rfl, fun p hh hm => by rw [hpages]; exact hint p hh hm⟩
      have hsl : 1 - (1 - c.aSlot) = c.aSlot := by omega
      apply recover_active _ (1 - c.aSlot) (by omega) (c.aTx + 1) st
      · simp [applyOp]
      · intro t s; rw [hsl]; simp only [applyOp, hne, if_false, h2, Option.some.injEq, Prod.mk.injEq]
        intro ⟨e, _⟩; omega
    | drop hc' =>
      cases hc'
      exact ⟨c.aSt, recover_active _ c.aSlot h1 c.aTx c.aSt h2 h3, Or.inl rfl, h4⟩
    | tear hc' =>
      cases hc'
      refine ⟨c.aSt, ?_, Or.inl rfl, fun p hh hm => by simp only [tearOp]; exact h4 p hh hm⟩
      apply recover_active _ c.aSlot h1 c.aTx c.aSt
      · simp only [tearOp, hne, if_false]; exact h2
      · intro t s; simp [tearOp]

end TxVerif
