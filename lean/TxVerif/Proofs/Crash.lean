import TxVerif.Model.Crash
namespace TxVerif

def touches : TOp → Nat → Prop
  | .write p _, q => p = q
  | .trunc n, q => n ≤ q
  | _, _ => False

def isHdrOn : TOp → Nat → Prop
  | .hdr s _ _, k => s = k
  | _, _ => False

theorem applyOp_pages (d : Img) (op : TOp) (q : Nat) (h : ¬ touches op q) : (applyOp d op).pages q = d.pages q := by
  cases op <;> simp_all [applyOp, touches] <;> omega

theorem tearOp_pages (d : Img) (op : TOp) (q : Nat) (h : ¬ touches op q) : (tearOp d op).pages q = d.pages q := by
  cases op <;> simp_all [tearOp, applyOp, touches] <;> omega

theorem applyOp_slots (d : Img) (op : TOp) (k : Nat) (h : ¬ isHdrOn op k) : (applyOp d op).slots k = d.slots k := by
  cases op <;> simp_all [applyOp, isHdrOn] <;> omega

theorem tearOp_slots (d : Img) (op : TOp) (k : Nat) (h : ¬ isHdrOn op k) : (tearOp d op).slots k = d.slots k := by
  cases op <;> simp_all [tearOp, applyOp, isHdrOn] <;> omega

/-- pages no pending operation touches have their durable content in every crash image -/
theorem crashImg_pages {d : Img} {ops : List TOp} {i : Img} (hc : CrashImg d ops i) (q : Nat)
    (h : ∀ op ∈ ops, ¬ touches op q) : i.pages q = d.pages q := by
  induction hc with
  | nil d => rfl
  | keep _ ih =>
    rw [ih (fun o ho => h o (List.mem_cons_of_mem _ ho)), applyOp_pages _ _ _ (h _ (List.mem_cons_self))]
  | drop _ ih => exact ih (fun o ho => h o (List.mem_cons_of_mem _ ho))
  | tear _ ih =>
    rw [ih (fun o ho => h o (List.mem_cons_of_mem _ ho)), tearOp_pages _ _ _ (h _ (List.mem_cons_self))]

theorem crashImg_slots {d : Img} {ops : List TOp} {i : Img} (hc : CrashImg d ops i) (k : Nat)
    (h : ∀ op ∈ ops, ¬ isHdrOn op k) : i.slots k = d.slots k := by
  induction hc with
  | nil d => rfl
  | keep _ ih =>
    rw [ih (fun o ho => h o (List.mem_cons_of_mem _ ho)), applyOp_slots _ _ _ (h _ (List.mem_cons_self))]
  | drop _ ih => exact ih (fun o ho => h o (List.mem_cons_of_mem _ ho))
  | tear _ ih =>
    rw [ih (fun o ho => h o (List.mem_cons_of_mem _ ho)), tearOp_slots _ _ _ (h _ (List.mem_cons_self))]

theorem foldl_applyOp_pages (ops : List TOp) : ∀ (d : Img) (q : Nat), (∀ op ∈ ops, ¬ touches op q) →
    (ops.foldl applyOp d).pages q = d.pages q := by
  induction ops with
  | nil => intro d q _; rfl
  | cons op ops ih =>
    intro d q h
    rw [List.foldl_cons, ih _ _ (fun o ho => h o (List.mem_cons_of_mem _ ho)),
      applyOp_pages _ _ _ (h _ (List.mem_cons_self))]

theorem foldl_applyOp_slots (ops : List TOp) : ∀ (d : Img) (k : Nat), (∀ op ∈ ops, ¬ isHdrOn op k) →
    (ops.foldl applyOp d).slots k = d.slots k := by
  induction ops with
  | nil => intro d k _; rfl
  | cons op ops ih =>
    intro d k h
    rw [List.foldl_cons, ih _ _ (fun o ho => h o (List.mem_cons_of_mem _ ho)),
      applyOp_slots _ _ _ (h _ (List.mem_cons_self))]

/-- a pending write or truncate that stays clear of the committed state -/
def ClearOf (reach : List (Nat × Hash)) : TOp → Prop
  | .write p _ => p ∉ reachPages reach
  | .trunc n => ∀ p ∈ reachPages reach, p < n
  | _ => False

theorem clearOf_not_touches (reach : List (Nat × Hash)) (op : TOp) (h : ClearOf reach op) (p : Nat) (hh : Hash)
    (hp : (p, hh) ∈ reach) : ¬ touches op p := by
  have hm : p ∈ reachPages reach := List.mem_map.mpr ⟨(p, hh), hp, rfl⟩
  cases op with
  | write q _ =>
    simp only [ClearOf] at h
    simp only [touches]
    intro e; subst e; exact h hm
  | trunc n =>
    simp only [ClearOf] at h
    simp only [touches]
    have := h p hm; omega
  | hdr _ _ _ => simp [ClearOf] at h
  | sync => simp [ClearOf] at h

theorem clearOf_not_hdr (reach : List (Nat × Hash)) (op : TOp) (h : ClearOf reach op) (k : Nat) : ¬ isHdrOn op k := by
  cases op <;> simp_all [ClearOf, isHdrOn]

theorem pendClearB_spec (reach : List (Nat × Hash)) (op : TOp) (h : pendClearB reach op = true) : ClearOf reach op := by
  cases op with
  | write p _ => simpa [pendClearB, ClearOf] using h
  | trunc n => simpa [pendClearB, ClearOf] using h
  | hdr _ _ _ => simp [pendClearB] at h
  | sync => simp [pendClearB] at h

/-- the invariant of accepted traces. While a header is in flight the pending list is that header
    write preceded by operations that stay clear of the committed AND of the new state -/
structure Safe (reachOf : Nat → List (Nat × Hash)) (c : Cfg) : Prop where
  slotLe : c.aSlot ≤ 1
  active : c.durable.slots c.aSlot = some (c.aTx, c.aSt)
  other : ∀ t s, c.durable.slots (1 - c.aSlot) = some (t, s) → t < c.aTx
  intact : ∀ p h, (p, h) ∈ reachOf c.aSt → c.durable.pages p = some h
  quiet : c.inflight = none → ∀ op ∈ c.pending, ClearOf (reachOf c.aSt) op
  infl : ∀ st, c.inflight = some st →
    (∃ old, c.pending = old ++ [.hdr (1 - c.aSlot) (c.aTx + 1) st] ∧
      ∀ op ∈ old, ClearOf (reachOf c.aSt) op ∧ ClearOf (reachOf st) op) ∧
    ∀ p h, (p, h) ∈ reachOf st → c.durable.pages p = some h

theorem intactB_spec (reachOf : Nat → List (Nat × Hash)) (pages : Nat → Option Hash) (st : Nat)
    (h : intactB reachOf pages st = true) : ∀ p hh, (p, hh) ∈ reachOf st → pages p = some hh := by
  intro p hh hm
  unfold intactB at h
  have := List.all_eq_true.mp h (p, hh) hm
  simpa using this

/-- recovery on an image whose active slot holds (tx, st) and whose other slot is older or invalid -/
theorem recover_active (i : Img) (a : Nat) (ha : a ≤ 1) (tx st : Nat) (h1 : i.slots a = some (tx, st))
    (h2 : ∀ t s, i.slots (1 - a) = some (t, s) → t < tx) : recover i = some st := by
  have : a = 0 ∨ a = 1 := by omega
  rcases this with rfl | rfl
  · simp only [Nat.sub_zero] at h2
    unfold recover
    rw [h1]
    cases h : i.slots 1 with
    | none => rfl
    | some r => obtain ⟨t, s⟩ := r; have := h2 t s h; simp [this]
  · simp only [Nat.sub_self] at h2
    unfold recover
    rw [h1]
    cases h : i.slots 0 with
    | none => rfl
    | some r =>
      obtain ⟨t, s⟩ := r
      have := h2 t s h
      have hn : ¬ tx < t := by omega
      simp [hn]

/-! ### images -/

/-- what the protocol guarantees about a (durable or crash) image: slot `a` holds the committed
    header `(tx, st)`, the other slot is invalid, older, or holds the header `(tx + 1, s)` of the
    attempt `g = some s`; the committed state and the attempted state are complete -/
structure ImgOk (reachOf : Nat → List (Nat × Hash)) (a tx st : Nat) (g : Option Nat) (d : Img) : Prop where
  active : d.slots a = some (tx, st)
  other : ∀ t s, d.slots (1 - a) = some (t, s) → t < tx ∨ (t = tx + 1 ∧ g = some s)
  intact : ∀ p h, (p, h) ∈ reachOf st → d.pages p = some h
  intactG : ∀ s, g = some s → ∀ p h, (p, h) ∈ reachOf s → d.pages p = some h

/-- a pending operation that keeps `ImgOk`: a page operation clear of the committed state and of the
    attempted state, or a header write into the other slot carrying an older header (restore) or
    the header of the attempt -/
def POk (reachOf : Nat → List (Nat × Hash)) (a tx st : Nat) (g : Option Nat) (op : TOp) : Prop :=
  (ClearOf (reachOf st) op ∧ ∀ s, g = some s → ClearOf (reachOf s) op) ∨
  ∃ t s, op = .hdr (1 - a) t s ∧ (t < tx ∨ (t = tx + 1 ∧ g = some s))

theorem imgOk_apply {reachOf : Nat → List (Nat × Hash)} {a tx st : Nat} {g : Option Nat} {d : Img} {op : TOp}
    (ha : a ≤ 1) (h : ImgOk reachOf a tx st g d) (hop : POk reachOf a tx st g op) :
    ImgOk reachOf a tx st g (applyOp d op) ∧ ImgOk reachOf a tx st g (tearOp d op) := by
  rcases hop with ⟨hcl, hclg⟩ | ⟨t, s, rfl, hts⟩
  · have hnh := fun k => clearOf_not_hdr _ op hcl k
    have hnt := fun p hh hm => clearOf_not_touches _ op hcl p hh hm
    have hntg := fun s hs p hh hm => clearOf_not_touches _ op (hclg s hs) p hh hm
    constructor
    · refine ⟨?_, ?_, ?_, ?_⟩
      · rw [applyOp_slots _ _ _ (hnh _)]; exact h.active
      · intro t s; rw [applyOp_slots _ _ _ (hnh _)]; exact h.other t s
      · intro p hh hm; rw [applyOp_pages _ _ _ (hnt p hh hm)]; exact h.intact p hh hm
      · intro s hs p hh hm; rw [applyOp_pages _ _ _ (hntg s hs p hh hm)]; exact h.intactG s hs p hh hm
    · refine ⟨?_, ?_, ?_, ?_⟩
      · rw [tearOp_slots _ _ _ (hnh _)]; exact h.active
      · intro t s; rw [tearOp_slots _ _ _ (hnh _)]; exact h.other t s
      · intro p hh hm; rw [tearOp_pages _ _ _ (hnt p hh hm)]; exact h.intact p hh hm
      · intro s hs p hh hm; rw [tearOp_pages _ _ _ (hntg s hs p hh hm)]; exact h.intactG s hs p hh hm
  · have hne : ¬ (a = 1 - a) := by omega
    constructor
    · refine ⟨?_, ?_, h.intact, h.intactG⟩
      · simp only [applyOp, hne, if_false]; exact h.active
      · intro t' s'
        simp only [applyOp, if_true, Option.some.injEq, Prod.mk.injEq]
        intro ⟨e1, e2⟩; subst e1 e2; exact hts
    · refine ⟨?_, ?_, h.intact, h.intactG⟩
      · simp only [tearOp, hne, if_false]; exact h.active
      · intro t' s'; simp [tearOp]

theorem imgOk_crash {reachOf : Nat → List (Nat × Hash)} {a tx st : Nat} {g : Option Nat} (ha : a ≤ 1)
    {d : Img} {ops : List TOp} {i : Img} (hc : CrashImg d ops i) (h : ImgOk reachOf a tx st g d)
    (hops : ∀ op ∈ ops, POk reachOf a tx st g op) : ImgOk reachOf a tx st g i := by
  induction hc with
  | nil d => exact h
  | keep _ ih =>
    exact ih (imgOk_apply ha h (hops _ List.mem_cons_self)).1 (fun o ho => hops o (List.mem_cons_of_mem _ ho))
  | drop _ ih => exact ih h (fun o ho => hops o (List.mem_cons_of_mem _ ho))
  | tear _ ih =>
    exact ih (imgOk_apply ha h (hops _ List.mem_cons_self)).2 (fun o ho => hops o (List.mem_cons_of_mem _ ho))

/-- a completed sync is one of the crash outcomes (everything kept) -/
theorem crashImg_foldl (ops : List TOp) : ∀ d : Img, CrashImg d ops (ops.foldl applyOp d) := by
  induction ops with
  | nil => intro d; exact .nil d
  | cons op ops ih => intro d; exact .keep (ih _)

/-- nothing kept is one of the crash outcomes too -/
theorem crashImg_none (ops : List TOp) : ∀ d : Img, CrashImg d ops d := by
  induction ops with
  | nil => intro d; exact .nil d
  | cons op ops ih => intro d; exact .drop (ih _)
/-- recovery on an `ImgOk` image: the committed state, or the attempt -/
theorem recover_imgOk {reachOf : Nat → List (Nat × Hash)} {a tx st : Nat} {g : Option Nat} (ha : a ≤ 1) {i : Img}
    (h : ImgOk reachOf a tx st g i) :
    ∃ r, recover i = some r ∧ (r = st ∨ g = some r) ∧ ∀ p hh, (p, hh) ∈ reachOf r → i.pages p = some hh := by
  cases ho : i.slots (1 - a) with
  | none =>
    exact ⟨st, recover_active i a ha tx st h.active (by intro t s e; rw [ho] at e; cases e), Or.inl rfl, h.intact⟩
  | some r =>
    obtain ⟨t, s⟩ := r
    rcases h.other t s ho with hlt | ⟨ht, hg⟩
    · refine ⟨st, recover_active i a ha tx st h.active ?_, Or.inl rfl, h.intact⟩
      intro t' s' e; rw [ho] at e; cases e; exact hlt
    · refine ⟨s, recover_active i (1 - a) (by omega) t s ho ?_, Or.inr hg, h.intactG s hg⟩
      have : 1 - (1 - a) = a := by omega
      intro t' s' e; rw [this, h.active] at e; cases e; omega

/-- an `ImgOk` image is a safe starting point (reopen after a crash or after closing the file) -/
theorem imgOk_restart {reachOf : Nat → List (Nat × Hash)} {a tx st : Nat} {g : Option Nat} (ha : a ≤ 1) {i : Img}
    (h : ImgOk reachOf a tx st g i) :
    ∃ a' tx' st', recover i = some st' ∧ (st' = st ∨ g = some st') ∧
      Safe reachOf { durable := i, pending := [], aSlot := a', aTx := tx', aSt := st', inflight := none } := by
  have hold : (∀ t s, i.slots (1 - a) = some (t, s) → t < tx) →
      ∃ a' tx' st', recover i = some st' ∧ (st' = st ∨ g = some st') ∧
        Safe reachOf { durable := i, pending := [], aSlot := a', aTx := tx', aSt := st', inflight := none } :=
    fun ho => ⟨a, tx, st, recover_active i a ha tx st h.active ho, Or.inl rfl,
      ⟨ha, h.active, ho, h.intact, (fun _ _ ho => by cases ho), nofun⟩⟩
  cases ho : i.slots (1 - a) with
  | none => exact hold (by intro t s e; rw [ho] at e; cases e)
  | some r =>
    obtain ⟨t, s⟩ := r
    rcases h.other t s ho with hlt | ⟨ht, hg⟩
    · exact hold (by intro t' s' e; rw [ho] at e; cases e; exact hlt)
    · have hsl : 1 - (1 - a) = a := by omega
      have hoth : ∀ t' s', i.slots (1 - (1 - a)) = some (t', s') → t' < t := by
        intro t' s' e; rw [hsl, h.active] at e; cases e; omega
      exact ⟨1 - a, t, s, recover_active i (1 - a) (by omega) t s ho hoth, Or.inr hg,
        ⟨by show 1 - a ≤ 1; omega, ho, hoth, h.intactG s hg, (fun _ _ ho => by cases ho), nofun⟩⟩

/-- the two valid headers of an `ImgOk` image never carry the same transaction id -/
theorem imgOk_no_tie {reachOf : Nat → List (Nat × Hash)} {a tx st : Nat} {g : Option Nat} (ha : a ≤ 1) {i : Img}
    (h : ImgOk reachOf a tx st g i) (t0 s0 t1 s1 : Nat) (h0 : i.slots 0 = some (t0, s0))
    (h1 : i.slots 1 = some (t1, s1)) : t0 ≠ t1 := by
  have : a = 0 ∨ a = 1 := by omega
  rcases this with rfl | rfl
  · have := h.active; rw [h0] at this; cases this
    rcases h.other t1 s1 h1 with h | ⟨h, _⟩ <;> omega
  · have := h.active; rw [h1] at this; cases this
    rcases h.other t0 s0 h0 with h | ⟨h, _⟩ <;> omega

/-! ### the invariant gives `ImgOk` of the durable image and `POk` of everything pending -/

theorem Safe.imgOk {reachOf : Nat → List (Nat × Hash)} {c : Cfg} (hs : Safe reachOf c) :
    ImgOk reachOf c.aSlot c.aTx c.aSt c.inflight c.durable :=
  ⟨hs.active, fun t s e => Or.inl (hs.other t s e), hs.intact, fun s h => (hs.infl s h).2⟩

theorem Safe.pok {reachOf : Nat → List (Nat × Hash)} {c : Cfg} (hs : Safe reachOf c) :
    ∀ op ∈ c.pending, POk reachOf c.aSlot c.aTx c.aSt c.inflight op := by
  cases hi : c.inflight with
  | none => intro op hop; exact Or.inl ⟨hs.quiet hi op hop, nofun⟩
  | some st =>
    obtain ⟨⟨old, hp, hold⟩, _⟩ := hs.infl st hi
    intro op hop
    rw [hp] at hop
    rcases List.mem_append.mp hop with hop | hop
    · refine Or.inl ⟨(hold op hop).1, ?_⟩
      intro s e; cases e; exact (hold op hop).2
    · simp only [List.mem_singleton] at hop; subst hop
      exact Or.inr ⟨_, _, rfl, Or.inr ⟨rfl, rfl⟩⟩

theorem Safe.crashOk {reachOf : Nat → List (Nat × Hash)} {c : Cfg} (hs : Safe reachOf c) {i : Img}
    (hc : CrashImg c.durable c.pending i) : ImgOk reachOf c.aSlot c.aTx c.aSt c.inflight i :=
  imgOk_crash hs.slotLe hc hs.imgOk hs.pok

/-- the discipline preserves the invariant -/
theorem safe_step (reachOf : Nat → List (Nat × Hash)) (c c' : Cfg) (op : TOp) (hs : Safe reachOf c)
    (h : c.step reachOf op = some c') : Safe reachOf c' := by
  have hok := hs.crashOk (crashImg_foldl c.pending c.durable)
  obtain ⟨h1, h2, h3, h4, h5, h6⟩ := hs
  cases op with
  | write p hh =>
    simp only [Cfg.step] at h
    split at h
    · rename_i hc
      simp only [Option.some.injEq] at h; subst h
      simp only [Bool.and_eq_true, Option.isNone_iff_eq_none, Bool.not_eq_true', List.contains_eq_mem,
        decide_eq_false_iff_not] at hc
      refine ⟨h1, h2, h3, h4, ?_, ?_⟩
      · intro _ o ho
        rcases List.mem_append.mp ho with ho | ho
        · exact h5 hc.1 o ho
        · simp at ho; subst ho; exact hc.2
      · intro st hst; simp [hc.1] at hst
    · simp at h
  | trunc n =>
    simp only [Cfg.step] at h
    split at h
    · rename_i hc
      simp only [Option.some.injEq] at h; subst h
      simp only [Bool.and_eq_true, Option.isNone_iff_eq_none, List.all_eq_true, decide_eq_true_eq] at hc
      refine ⟨h1, h2, h3, h4, ?_, ?_⟩
      · intro _ o ho
        rcases List.mem_append.mp ho with ho | ho
        · exact h5 hc.1 o ho
        · simp at ho; subst ho; exact hc.2
      · intro st hst; simp [hc.1] at hst
    · simp at h
  | hdr s t st =>
    simp only [Cfg.step] at h
    split at h
    · rename_i hc
      simp only [Option.some.injEq] at h; subst h
      simp only [Bool.and_eq_true, Option.isNone_iff_eq_none, List.all_eq_true, beq_iff_eq] at hc
      obtain ⟨⟨⟨⟨hi, hall⟩, hs1⟩, ht⟩, hint⟩ := hc
      refine ⟨h1, h2, h3, h4, ?_, ?_⟩
      · intro hn; simp at hn
      · intro st' hst'
        simp only [Option.some.injEq] at hst'
        subst hst' hs1 ht
        exact ⟨⟨c.pending, rfl, fun o ho => ⟨h5 hi o ho, pendClearB_spec _ o (hall o ho)⟩⟩,
          intactB_spec reachOf _ _ hint⟩
    · simp at h
  | sync =>
    simp only [Cfg.step] at h
    cases hi : c.inflight with
    | none =>
      simp only [hi, Option.some.injEq] at h; subst h
      have hq := h5 hi
      refine ⟨h1, ?_, ?_, ?_, ?_, ?_⟩
      · show (c.pending.foldl applyOp c.durable).slots c.aSlot = _
        rw [foldl_applyOp_slots _ _ _ (fun o ho => clearOf_not_hdr _ o (hq o ho) _)]; exact h2
      · intro t s
        show (c.pending.foldl applyOp c.durable).slots (1 - c.aSlot) = _ → _
        rw [foldl_applyOp_slots _ _ _ (fun o ho => clearOf_not_hdr _ o (hq o ho) _)]; exact h3 t s
      · intro p hh hm
        show (c.pending.foldl applyOp c.durable).pages p = _
        rw [foldl_applyOp_pages _ _ _ (fun o ho => clearOf_not_touches _ o (hq o ho) p hh hm)]; exact h4 p hh hm
      · intro _ o ho; simp at ho
      · intro st hst; simp at hst
    | some st =>
      simp only [hi, Option.some.injEq] at h; subst h
      rw [hi] at hok
      obtain ⟨⟨old, hp, _⟩, _⟩ := h6 st hi
      have hsl : 1 - (1 - c.aSlot) = c.aSlot := by omega
      refine ⟨by show 1 - c.aSlot ≤ 1; omega, ?_, ?_, ?_, ?_, ?_⟩
      · show (c.pending.foldl applyOp c.durable).slots (1 - c.aSlot) = _
        rw [hp, List.foldl_append]; simp [applyOp]
      · intro t s
        show (c.pending.foldl applyOp c.durable).slots (1 - (1 - c.aSlot)) = _ → _
        rw [hsl, hok.active]
        intro e; cases e; show c.aTx < c.aTx + 1; omega
      · exact hok.intactG st rfl
      · intro _ o ho; simp at ho
      · intro st' hst'; simp at hst'

theorem safe_run (reachOf : Nat → List (Nat × Hash)) (ops : List TOp) : ∀ (c c' : Cfg), Safe reachOf c →
    c.run reachOf ops = some c' → Safe reachOf c' := by
  induction ops with
  | nil => intro c c' hs h; simp [Cfg.run] at h; subst h; exact hs
  | cons op ops ih =>
    intro c c' hs h
    simp only [Cfg.run] at h
    cases hst : c.step reachOf op with
    | none => simp [hst] at h
    | some c1 => simp only [hst] at h; exact ih c1 c' (safe_step reachOf c c1 op hs hst) h

/-- the image invariant: every crash image of a safe configuration recovers to the committed state
    or to the state of the commit in progress, and that state is complete -/
theorem safe_crash (reachOf : Nat → List (Nat × Hash)) (c : Cfg) (hs : Safe reachOf c) (i : Img)
    (hc : CrashImg c.durable c.pending i) :
    ∃ st, recover i = some st ∧ (st = c.aSt ∨ c.inflight = some st) ∧
      ∀ p h, (p, h) ∈ reachOf st → i.pages p = some h :=
  recover_imgOk hs.slotLe (hs.crashOk hc)

end TxVerif
