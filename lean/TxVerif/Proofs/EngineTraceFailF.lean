/-
  C08 for the engine model, lemmas part F: the headers in the traces name commit attempts of the history;
  positions (after `j` complete transactions and any part of the next one); the starting configuration.
-/
import TxVerif.Proofs.EngineTraceFailE
namespace TxVerif

/-- the only commit header in the trace of a transaction is that of its commit attempt; it names the next
    unused state id -/
theorem engTraceF_hdr {x : EngFS} (fok : FOk x) (t : TxnF) (s tx st : Nat)
    (hm : FOp.op (TOp.hdr s tx st) ∈ engTraceF x t) : hdrAttempt x t = true ∧ st = x.nsid := by
  by_cases hc : t.t.t.commits (x.e.f, x.e.live)
  · have hcb := commitsB_of _ _ hc
    have wf := et_wall_facts fok.ok t.t hc
    have hW : ∀ s tx st, TOp.hdr s tx st ∉ engWall x.e t.t := by
      intro s tx st hin
      obtain ⟨w, h, e, -⟩ := wf.free _ hin
      cases e
    have hT : ∀ (R : FileSt) s tx st, TOp.hdr s tx st ∉ truncT R t.t.trunc := by
      intro R s tx st hin
      cases ht : t.t.trunc with
      | none => rw [ht] at hin; cases hin
      | some n => rw [ht] at hin; simp [truncT] at hin
    unfold engTraceF at hm
    rw [hcb] at hm
    simp only [if_true] at hm
    cases ho : t.out with
    | normal =>
      rw [ho] at hm
      simp only [List.map_append, List.mem_append, List.mem_map, FOp.op.injEq, exists_eq_right] at hm
      rcases hm with (hm | hm) | hm
      · exact absurd hm (hW _ _ _)
      · simp only [List.mem_cons, TOp.hdr.injEq, List.not_mem_nil, or_false] at hm
        rcases hm with hm | hm | hm
        · cases hm
        · exact ⟨by simp [hdrAttempt, hcb, ho], hm.2.2⟩
        · cases hm
      · exact absurd hm (hT _ _ _ _)
    | dataSyncFail k after =>
      rw [ho] at hm
      simp only [List.mem_append, List.mem_map, FOp.op.injEq, exists_eq_right] at hm
      rcases hm with (((hm | hm) | hm) | hm) | hm
      · exact absurd hm (hW _ _ _)
      · simp [List.mem_replicate] at hm
      · simp at hm
      · obtain ⟨b, -, hb⟩ := hm
        cases b <;> simp [syncOf] at hb
      · exact absurd hm (hT _ _ _ _)
    | finalSyncFail k =>
      rw [ho] at hm
      simp only [List.map_append, List.mem_append, List.mem_map, FOp.op.injEq, exists_eq_right] at hm
      rcases hm with ((((hm | hm) | hm) | hm) | hm) | hm
      · exact absurd hm (hW _ _ _)
      · simp only [List.mem_cons, TOp.hdr.injEq, List.not_mem_nil, or_false] at hm
        rcases hm with hm | hm
        · cases hm
        · exact ⟨by simp [hdrAttempt, hcb, ho], hm.2.2⟩
      · simp at hm
      · simp [List.mem_replicate] at hm
      · simp at hm
      · exact absurd hm (hT _ _ _ _)
    | finalSyncGiveUp k =>
      rw [ho] at hm
      simp only [List.map_append, List.mem_append, List.mem_map, FOp.op.injEq, exists_eq_right] at hm
      rcases hm with (((hm | hm) | hm) | hm) | hm
      · exact absurd hm (hW _ _ _)
      · simp only [List.mem_cons, TOp.hdr.injEq, List.not_mem_nil, or_false] at hm
        rcases hm with hm | hm
        · cases hm
        · exact ⟨by simp [hdrAttempt, hcb, ho], hm.2.2⟩
      · simp at hm
      · simp [List.mem_replicate] at hm
      · exact absurd hm (hT _ _ _ _)
  · have hcb := commitsB_not _ _ hc
    unfold engTraceF at hm
    rw [hcb] at hm
    simp only [Bool.false_eq_true, if_false, List.mem_map, FOp.op.injEq, exists_eq_right] at hm
    exact absurd (engTrace_hdr fok.ok t.t s tx st hm).1 hc

/-- every commit header in the trace of a history is that of the commit attempt of one of its transactions -/
theorem histTraceF_hdr (ts : List TxnF) : ∀ {x : EngFS}, FOk x → ∀ (s tx st : Nat),
    FOp.op (TOp.hdr s tx st) ∈ histTraceF x ts →
    ∃ j, ∃ hj : j < ts.length, hdrAttempt (engRunF x (ts.take j)) ts[j] = true ∧
      st = (engRunF x (ts.take j)).nsid := by
  induction ts with
  | nil => intro x _ s tx st hm; cases hm
  | cons t ts ih =>
    intro x fok s tx st hm
    unfold histTraceF at hm
    rcases List.mem_append.mp hm with hm | hm
    · obtain ⟨g1, g2⟩ := engTraceF_hdr fok t s tx st hm
      exact ⟨0, by simp, g1, g2⟩
    · obtain ⟨j, hj, g1, g2⟩ := ih (engNextF_ids fok t).1 s tx st hm
      refine ⟨j + 1, by simp only [List.length_cons]; omega, ?_, ?_⟩
      · simpa only [List.take_succ_cons, engRunF_cons, List.getElem_cons_succ] using g1
      · simpa only [List.take_succ_cons, engRunF_cons] using g2

/-- the starting configuration of a committed state represents it and is safe -/
theorem frep_cfg {x : EngFS} (fok : FOk x) : FRep x (OCfg.ofCfg x.cfg) := by
  have hs := fok.ok.slot
  have hne : ¬ (1 - x.e.slot = x.e.slot) := by omega
  refine ⟨rfl, rfl, rfl, rfl, rfl, fun _ => rfl, ?_, ?_, ?_, hs⟩
  · simp [OCfg.ofCfg, EngFS.cfg]
  · simp [OCfg.ofCfg, EngFS.cfg, hne]
  · intro op hop; simp [OCfg.ofCfg, EngFS.cfg] at hop

theorem fcfg_safe (reachOf : Nat → List (Nat × Hash)) {x : EngFS} (fok : FOk x) (h0 : reachOf x.sid = engReach x.e) :
    Safe reachOf x.cfg := by
  have hs := fok.ok.slot
  have hne : ¬ (1 - x.e.slot = x.e.slot) := by omega
  refine ⟨hs, by simp [EngFS.cfg], ?_, ?_, ?_, ?_⟩
  · intro t s h
    simp only [EngFS.cfg, hne, if_false, if_true, Option.some.injEq] at h
    have := fok.prev
    rw [h] at this
    exact this
  · intro p h hm
    show x.e.pages p = some h
    have hm' : (p, h) ∈ reachOf x.sid := hm
    rw [h0] at hm'
    exact engReach_intact fok.ok p h hm'
  · intro _ op hop; simp [EngFS.cfg] at hop
  · intro st hst; simp [EngFS.cfg] at hst

theorem fok_ofFile (f : FileSt) (live : List Nat) (slot : Nat) (he : EngInvO f live) (hs : slot ≤ 1)
    (ht : 0 < f.txid) : FOk (EngFS.ofFile f live slot) :=
  ⟨engOk_ofFile f live slot he hs, by show f.txid < f.txid + 1; omega, by show f.txid - 1 < f.txid; omega⟩

/-- **position**: after the complete traces of the first `j` transactions and any number `m` of the
    operations of the next one, the committed state of the configuration is the state after `j`
    transactions or - only after the commit of the next one - that commit's state; the pending state (header
    in flight, or a failed commit whose restore is not durable yet) is the state of the commit attempt of
    the next transaction -/
theorem et_positionF {x0 : EngFS} (fok : FOk x0) (ts : List TxnF) (hd : ∀ t ∈ ts, t.disciplined = true)
    (j : Nat) (hj : j < ts.length) (m : Nat) :
    ∃ ck, (OCfg.ofCfg x0.cfg).run (histReachF x0 ts)
        (histTraceF x0 (ts.take j) ++ (engTraceF (engRunF x0 (ts.take j)) ts[j]).take m) = some ck ∧
      (ck.base.aSt = (engRunF x0 (ts.take j)).sid ∨
        (ck.base.aSt = (engRunF x0 (ts.take j)).nsid ∧ hdrAttempt (engRunF x0 (ts.take j)) ts[j] = true)) ∧
      (∀ st, ck.pendingSt = some st →
        st = (engRunF x0 (ts.take j)).nsid ∧ hdrAttempt (engRunF x0 (ts.take j)) ts[j] = true) := by
  have hok := histReachF_spec fok ts
  obtain ⟨cj, hrunj, repj⟩ := et_historyF_accepted (histReachF x0 ts) (ts.take j) x0 (OCfg.ofCfg x0.cfg) fok
    (frep_cfg fok) (freachOK_take hok j) (fun t ht => hd t (List.mem_of_mem_take ht))
  have fokj := fok_run fok (ts.take j)
  obtain ⟨h0, h1⟩ := hok j (by omega)
  obtain ⟨c1, hrun1, -, -⟩ := et_txnF_accepted (histReachF x0 ts) fokj cj repj ts[j]
    (hd _ (List.getElem_mem hj)) h0 (fun hatt => h1 hj hatt)
  have hsplit : engTraceF (engRunF x0 (ts.take j)) ts[j] =
      (engTraceF (engRunF x0 (ts.take j)) ts[j]).take m ++ (engTraceF (engRunF x0 (ts.take j)) ts[j]).drop m :=
    (List.take_append_drop m _).symm
  rw [hsplit] at hrun1
  obtain ⟨ck, hrunk, -⟩ := orun_prefix_some _ _ _ _ _ hrun1
  obtain ⟨n1, -⟩ := orun_named (histReachF x0 ts) _ cj ck hrunk
  have hpend : cj.pendingSt = none := by
    rcases cj with ⟨b, ph⟩
    have h1 := repj.ph; have h2 := repj.infl
    simp only at h1 h2; subst h1
    exact h2
  have hname : ∀ st, ONamed cj ((engTraceF (engRunF x0 (ts.take j)) ts[j]).take m) st →
      st = (engRunF x0 (ts.take j)).sid ∨
      (st = (engRunF x0 (ts.take j)).nsid ∧ hdrAttempt (engRunF x0 (ts.take j)) ts[j] = true) := by
    intro st hn
    rcases hn with h | h | ⟨s, t, hm⟩
    · left; rw [h, repj.hst]
    · rw [hpend] at h; cases h
    · right
      obtain ⟨g1, g2⟩ := engTraceF_hdr fokj ts[j] s t st (List.mem_of_mem_take hm)
      exact ⟨g2, g1⟩
  refine ⟨ck, orun_append_some _ _ _ _ _ _ hrunj hrunk, hname _ n1, ?_⟩
  intro st hst
  rcases orun_pending (histReachF x0 ts) _ cj ck hrunk st hst with h | ⟨s, t, hm⟩
  · rw [hpend] at h; cases h
  · obtain ⟨g1, g2⟩ := engTraceF_hdr fokj ts[j] s t st (List.mem_of_mem_take hm)
    exact ⟨g2, g1⟩

end TxVerif
