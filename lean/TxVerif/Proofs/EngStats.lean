/-
  C11, last clause: the statistics are truthful. Helper lemmas.

  `FileStats.DataAllocated` (`FileSt.statData`) is maintained by the commit from three counters of the
  transaction's allocator state (tx.go `onCommit`, alloc.go `stats`):
      statData' = statData + sAlloc − (sFreed + sToMeta)
    sAlloc   data pages handed out by the data allocator (to the client, and to the meta area when it grows)
    sFreed   calls of `Page.Free`
    sToMeta  pages moved from the data area into the meta area (and — with the overflow flag — pages the
             meta area took from the overflow area, which never were data pages: see Props/C11Stats.lean)
  `SBal st st'`: a step keeps `sFreed` and moves `sAlloc` and `sToMeta` by the same amount (growth of the meta
  area without the overflow area). `SCnt live cur st`: the counter invariant inside a transaction,
      |cur| + sFreed + sToMeta = |live| + sAlloc   (and the owned pages are pairwise distinct).
  Nothing here needs a page limit.
-/
import TxVerif.Proofs.EngAccountU
namespace TxVerif

/-! ### the counters at the level of the allocator -/

/-- the step does not count a free, and counts as many pages moved to the meta area as it counts allocated -/
def SBal (st st' : TxAlloc) : Prop :=
  st'.sFreed = st.sFreed ∧ st'.sAlloc + st.sToMeta = st.sAlloc + st'.sToMeta

theorem sbal_refl (st : TxAlloc) : SBal st st := ⟨rfl, rfl⟩

theorem sbal_trans {a b c : TxAlloc} (h1 : SBal a b) (h2 : SBal b c) : SBal a c := by
  unfold SBal at *
  omega

theorem sbal_of_eq {st st' : TxAlloc} (e1 : st'.sAlloc = st.sAlloc) (e2 : st'.sFreed = st.sFreed)
    (e3 : st'.sToMeta = st.sToMeta) : SBal st st' := by
  unfold SBal; omega

theorem stats_regions (a : Alloc) (st : TxAlloc) (n : Nat) (a' : Alloc) (st' : TxAlloc) (ids : List Nat)
    (h : dataAllocRegions a st n = some (a', st', ids)) :
    st'.sAlloc = st.sAlloc + n ∧ st'.sFreed = st.sFreed ∧ st'.sToMeta = st.sToMeta ∧ ids.length = n := by
  obtain ⟨k, rest, hk, hn, -, -, -, hids, -, -, -, -, -, -, -, -, hst⟩ := dataAllocRegions_spec a st n a' st' ids h
  refine ⟨by rw [hst], by rw [hst], by rw [hst], ?_⟩
  rw [hids, List.length_append, List.length_take, length_idRange]; omega

theorem stats_continuous (a : Alloc) (st : TxAlloc) (n : Nat) (a' : Alloc) (st' : TxAlloc) (ids : List Nat)
    (hasc : Asc a.data.free) (h : dataAllocContinuous a st n = some (a', st', ids)) :
    st'.sAlloc = st.sAlloc + n ∧ st'.sFreed = st.sFreed ∧ st'.sToMeta = st.sToMeta ∧ ids.length = n := by
  unfold dataAllocContinuous at h
  by_cases hav : a.dataAvail < n
  · rw [if_pos hav] at h; cases h
  rw [if_neg hav] at h
  cases hc : allocContinuous a.data.free n with
  | some p =>
    obtain ⟨taken, rest⟩ := p
    rw [hc] at h
    simp only [Option.some.injEq, Prod.mk.injEq] at h
    obtain ⟨-, hst, hids⟩ := h
    subst hst hids
    obtain ⟨-, -, hl⟩ := allocContinuous_length a.data.free n hasc taken rest hc
    exact ⟨rfl, rfl, rfl, hl⟩
  | none =>
    simp only [hc] at h
    by_cases hroom : a.maxPages > 0 ∧ (if a.data.endMarker < a.maxPages then a.maxPages - a.data.endMarker else 0) < n
    · rw [if_pos hroom] at h; cases h
    · rw [if_neg hroom] at h
      simp only [Option.some.injEq, Prod.mk.injEq] at h
      obtain ⟨-, hst, hids⟩ := h
      subst hst hids
      exact ⟨rfl, rfl, rfl, length_idRange _ _⟩

theorem sbal_transfer (a : Alloc) (st0 st : TxAlloc) (ids : List Nat) (n : Nat) (hl : ids.length = n)
    (e1 : st.sAlloc = st0.sAlloc + n) (e2 : st.sFreed = st0.sFreed) (e3 : st.sToMeta = st0.sToMeta) :
    SBal st0 (transferToMeta a st ids).2 := by
  unfold SBal transferToMeta
  dsimp only
  omega

/-- growing the meta area out of the data area (no overflow area): as many pages counted moved as allocated -/
theorem sbal_tryGrow (a : Alloc) (st : TxAlloc) (count : Nat) (a' : Alloc) (st' : TxAlloc) (hasc : Asc a.data.free)
    (hr : tryGrow a st count false = some (a', st')) : SBal st st' := by
  unfold tryGrow at hr
  dsimp only at hr
  by_cases hc0 : count = 0
  · rw [if_pos hc0] at hr
    simp only [Option.some.injEq, Prod.mk.injEq] at hr
    rw [← hr.2]; exact sbal_refl st
  · rw [if_neg hc0] at hr
    by_cases hav : a.dataAvail < count
    · rw [if_pos hav] at hr; simp at hr
    · rw [if_neg hav] at hr
      cases hcont : dataAllocContinuous a st count with
      | some p =>
        obtain ⟨a1, st1, ids⟩ := p
        rw [hcont] at hr
        simp only [Option.some.injEq] at hr
        obtain ⟨s1, s2, s3, s4⟩ := stats_continuous a st count a1 st1 ids hasc hcont
        have := sbal_transfer a1 st st1 ids count s4 s1 s2 s3
        rw [hr] at this; exact this
      | none =>
        rw [hcont] at hr
        cases hreg : dataAllocRegions a st count with
        | none => rw [hreg] at hr; cases hr
        | some p =>
          obtain ⟨a1, st1, ids⟩ := p
          rw [hreg] at hr
          simp only [Option.some.injEq] at hr
          obtain ⟨s1, s2, s3, s4⟩ := stats_regions a st count a1 st1 ids hreg
          have := sbal_transfer a1 st st1 ids count s4 s1 s2 s3
          rw [hr] at this; exact this

theorem sbal_ensureMeta (a : Alloc) (st : TxAlloc) (n : Nat) (a' : Alloc) (st' : TxAlloc) (hasc : Asc a.data.free)
    (hov : st.overflow = false) (hr : ensureMeta a st n = some (a', st')) : SBal st st' := by
  unfold ensureMeta at hr
  dsimp only at hr
  rw [hov] at hr
  split at hr
  · simp only [Option.some.injEq, Prod.mk.injEq] at hr
    rw [← hr.2]; exact sbal_refl st
  · split at hr
    · rename_i r hg
      simp only [Option.some.injEq] at hr
      subst hr
      exact sbal_tryGrow a st _ a' st' hasc hg
    · exact sbal_tryGrow a st _ a' st' hasc hr

theorem sbal_walAlloc (a : Alloc) (st : TxAlloc) (a' : Alloc) (st' : TxAlloc) (w : Nat) (hasc : Asc a.data.free)
    (hov : st.overflow = false) (hr : walAlloc a st = some (a', st', w)) : SBal st st' := by
  unfold walAlloc at hr
  split at hr
  · cases hr
  · rename_i a1 st1 he
    have := sbal_ensureMeta a st 1 a1 st1 hasc hov he
    split at hr
    · simp only [Option.some.injEq, Prod.mk.injEq] at hr
      obtain ⟨-, hst, -⟩ := hr
      subst hst
      exact this
    · cases hr

theorem sbal_metaAllocRegions (a : Alloc) (st : TxAlloc) (n : Nat) (a' : Alloc) (st' : TxAlloc) (ids : List Nat)
    (hasc : Asc a.data.free) (hov : st.overflow = false) (hr : metaAllocRegions a st n = some (a', st', ids)) :
    SBal st st' := by
  unfold metaAllocRegions at hr
  split at hr
  · cases hr
  · rename_i a1 st1 he
    have := sbal_ensureMeta a st n a1 st1 hasc hov he
    dsimp only at hr
    split at hr
    · cases hr
    · simp only [Option.some.injEq, Prod.mk.injEq] at hr
      obtain ⟨-, hst, -⟩ := hr
      subst hst
      exact this

theorem sbal_metaFreeId (st : TxAlloc) (w : Nat) : SBal st (metaFreeId st w) := ⟨rfl, rfl⟩

theorem sbal_metaFreeIds (ids : List Nat) : ∀ (st : TxAlloc), SBal st (metaFreeIds st ids) := by
  induction ids with
  | nil => intro st; exact sbal_refl st
  | cons y ys ih =>
    intro st
    have e : metaFreeIds st (y :: ys) = metaFreeIds (metaFreeId st y) ys := rfl
    rw [e]
    exact sbal_trans (sbal_metaFreeId st y) (ih _)

/-- `Page.Free` counts one free -/
theorem stats_dataFree (a : Alloc) (st : TxAlloc) (id : Nat) :
    (dataFree a st id).2.sAlloc = st.sAlloc ∧ (dataFree a st id).2.sFreed = st.sFreed + 1 ∧
    (dataFree a st id).2.sToMeta = st.sToMeta := by
  rw [dataFree_eq]
  unfold dataFreeCore
  dsimp only
  split
  · exact ⟨rfl, rfl, rfl⟩
  · split
    · exact ⟨rfl, rfl, rfl⟩
    · split
      · exact ⟨rfl, rfl, rfl⟩
      · split <;> exact ⟨rfl, rfl, rfl⟩

/-! ### the counter invariant inside a transaction of the engine -/

/-- inside a write transaction that began with the client owning `live`: the pages owned now are pairwise
    distinct, and owned now + freed + moved to the meta area = owned at the begin + allocated -/
structure SCnt (live cur : List Nat) (st : TxAlloc) : Prop where
  nd : cur.Nodup
  cnt : cur.length + st.sFreed + st.sToMeta = live.length + st.sAlloc

theorem scnt_sbal {live cur : List Nat} {st st' : TxAlloc} (h : SCnt live cur st) (hb : SBal st st') :
    SCnt live cur st' := by
  refine ⟨h.nd, ?_⟩
  have := h.cnt
  unfold SBal at hb
  omega

theorem scnt_begin (f : FileSt) (live : List Nat) (hnd : live.Nodup) (ov : Bool) (g wl : Nat) :
    SCnt live live (f.beginTx ov g wl).ta := ⟨hnd, rfl⟩

theorem sbal_eff {f0 f f' : FileSt} {tx tx' : TxSt} (e : MetaEff f0 f tx f' tx') (hasc : Asc f.alloc.data.free)
    (hov : tx.ta.overflow = false) : SBal tx.ta tx'.ta := by
  cases e with
  | same e1 e2 e3 e4 => rw [e2]; exact sbal_refl _
  | take k w hk hw e3 e4 => exact sbal_walAlloc _ _ _ _ w hasc hov hw
  | release k w hm hk e1 e2 e3 e4 => rw [e2]; exact sbal_metaFreeId _ w

theorem length_filter_ne : ∀ (cur : List Nat) (id : Nat), cur.Nodup → id ∈ cur →
    (cur.filter (fun x => x != id)).length + 1 = cur.length := by
  intro cur
  induction cur with
  | nil => intro id _ h; cases h
  | cons y ys ih =>
    intro id hnd hid
    rw [List.nodup_cons] at hnd
    by_cases hy : y = id
    · subst hy
      have : ys.filter (fun x => x != y) = ys := by
        apply List.filter_eq_self.mpr
        intro x hx
        have : x ≠ y := fun e => hnd.1 (e ▸ hx)
        simp [this]
      simp [this]
    · have hid' : id ∈ ys := by
        rcases List.mem_cons.mp hid with e | e
        · exact absurd e.symm hy
        · exact e
      have := ih id hnd.2 hid'
      simp only [List.filter_cons, bne_iff_ne, ne_eq, hy, not_false_eq_true, if_true, List.length_cons]
      simpa using this

theorem scnt_alloc {f0 : FileSt} {live : List Nat} {f : FileSt} {tx : TxSt} {cur : List Nat}
    (he : EngInv f0 live) (hi : TxInv f0 live f tx cur) (h : SCnt live cur tx.ta) (n : Nat)
    (f' : FileSt) (tx' : TxSt) (ids : List Nat) (hw : txAlloc f tx n = .ok (f', tx', ids)) :
    SCnt live (cur ++ ids) tx'.ta := by
  obtain ⟨hl, hnd, hfr⟩ := alloc_fresh_tx he hi n f' tx' ids hw
  unfold txAlloc at hw
  cases hr : dataAllocRegions f.alloc tx.ta n with
  | none => simp [hr] at hw
  | some r =>
    obtain ⟨a, ta, ids'⟩ := r
    simp only [hr, Except.ok.injEq, Prod.mk.injEq] at hw
    obtain ⟨-, rfl, rfl⟩ := hw
    obtain ⟨s1, s2, s3, -⟩ := stats_regions _ _ _ _ _ _ hr
    refine ⟨?_, ?_⟩
    · rw [List.nodup_append]
      exact ⟨h.nd, hnd, fun x hx y hy e => (hfr y hy).2.1 (e ▸ hx)⟩
    · have := h.cnt
      show (cur ++ ids').length + ta.sFreed + ta.sToMeta = live.length + ta.sAlloc
      rw [List.length_append, s1, s2, s3, hl]; omega

theorem txFree_stats (f : FileSt) (tx : TxSt) (id : Nat) (f' : FileSt) (tx' : TxSt)
    (hw : txFree f tx id = .ok (f', tx')) :
    tx'.ta.sAlloc = tx.ta.sAlloc ∧ tx'.ta.sFreed = tx.ta.sFreed + 1 ∧ tx'.ta.sToMeta = tx.ta.sToMeta := by
  unfold txFree at hw
  cases hg : getPage f tx id with
  | error e => simp [hg, bind, Except.bind] at hw
  | ok r =>
    obtain ⟨tx1, p⟩ := r
    have hta := getPage_ta f tx tx1 id p hg
    cases hcw : pageCanWrite p with
    | error e => simp [hg, bind, Except.bind, hcw] at hw
    | ok u =>
      cases hd : p.dirty with
      | true => simp [hg, bind, Except.bind, hcw, hd] at hw
      | false =>
        simp only [hg, bind, Except.bind, hcw, hd, Bool.false_eq_true, if_false, pure, Except.pure,
          Except.ok.injEq, Prod.mk.injEq] at hw
        obtain ⟨-, rfl⟩ := hw
        have := stats_dataFree f.alloc tx1.ta id
        rw [← hta]
        split <;> exact this

theorem scnt_free {live cur : List Nat} {f : FileSt} {tx : TxSt} (h : SCnt live cur tx.ta) (id : Nat)
    (hid : id ∈ cur) (f' : FileSt) (tx' : TxSt) (hw : txFree f tx id = .ok (f', tx')) :
    SCnt live (cur.filter (fun x => x != id)) tx'.ta := by
  obtain ⟨s1, s2, s3⟩ := txFree_stats f tx id f' tx' hw
  refine ⟨h.nd.sublist List.filter_sublist, ?_⟩
  have := length_filter_ne cur id h.nd hid
  have := h.cnt
  rw [s1, s2, s3]; omega

theorem sbal_flushList {f0 : FileSt} {live : List Nat} {cur : List Nat} (he : EngInv f0 live) (ids : List Nat) :
    ∀ (f : FileSt) (tx : TxSt), TxInv f0 live f tx cur → tx.ta.overflow = false →
      ∀ (f' : FileSt) (tx' : TxSt) (ws : List (Nat × Nat)), flushList f tx ids = .ok (f', tx', ws) →
      SBal tx.ta tx'.ta := by
  induction ids with
  | nil =>
    intro f tx _ _ f' tx' ws hw
    simp only [flushList, Except.ok.injEq, Prod.mk.injEq] at hw
    obtain ⟨-, rfl, -⟩ := hw
    exact sbal_refl _
  | cons id ids ih =>
    intro f tx hi hov f' tx' ws hw
    unfold flushList at hw
    cases hg : Assoc.get? tx.pages id with
    | none => simp [hg] at hw
    | some p =>
      simp only [hg] at hw
      cases hf : doFlush f tx p with
      | error e => simp [hf] at hw
      | ok r =>
        obtain ⟨f1, tx1, w⟩ := r
        simp only [hf] at hw
        cases hr : flushList f1 tx1 ids with
        | error e => simp [hr] at hw
        | ok r2 =>
          obtain ⟨f2, tx2, ws2⟩ := r2
          simp only [hr, Except.ok.injEq, Prod.mk.injEq] at hw
          obtain ⟨-, rfl, -⟩ := hw
          have hE := doFlush_eff hi id p hg f1 tx1 w hf
          obtain ⟨hi1, -⟩ := txinv_doFlush he hi id p hg f1 tx1 w hf
          have hov1 : tx1.ta.overflow = false := (doFlush_ovf f tx p f1 tx1 w hf).trans hov
          exact sbal_trans (sbal_eff hE hi.aok.ascD hov) (ih f1 tx1 hi1 hov1 f2 tx2 ws2 hr)

theorem sbal_flushPageOp {f0 : FileSt} {live : List Nat} {f : FileSt} {tx : TxSt} {cur : List Nat}
    (hi : TxInv f0 live f tx cur) (hov : tx.ta.overflow = false) (id : Nat) (hid : id ∈ cur)
    (f' : FileSt) (tx' : TxSt) (w : Option Nat) (hw : flushPageOp f tx id = .ok (f', tx', w)) :
    SBal tx.ta tx'.ta := by
  unfold flushPageOp at hw
  cases hg : getPage f tx id with
  | error e => simp [hg, bind, Except.bind] at hw
  | ok r =>
    obtain ⟨tx1, p⟩ := r
    simp only [hg, bind, Except.bind] at hw
    obtain ⟨h1, hget, -, -⟩ := txinv_getPage hi id hid tx1 p hg
    have hta := getPage_ta f tx tx1 id p hg
    cases hcw : pageCanWrite p with
    | error e => simp [hcw] at hw
    | ok u =>
      simp only [hcw] at hw
      have hE := doFlush_eff h1 id p hget f' tx' w hw
      have := sbal_eff hE h1.aok.ascD (by rw [hta]; exact hov)
      rw [hta] at this; exact this

theorem sbal_ckptFold (l : Assoc Nat) : ∀ (s : FileSt × TxSt), SBal s.2.ta (l.foldl ckptOne s).2.ta := by
  induction l with
  | nil => intro s; exact sbal_refl _
  | cons e l ih =>
    intro s
    rw [List.foldl_cons]
    exact sbal_trans (sbal_metaFreeId s.2.ta e.2) (ih (ckptOne s e))

theorem sbal_doCheckpoint (f : FileSt) (tx : TxSt) : SBal tx.ta (doCheckpoint f tx).2.1.ta := by
  unfold doCheckpoint
  split
  · exact sbal_refl _
  · split
    · exact sbal_refl _
    · exact sbal_ckptFold _ (f, tx)

/-- every operation of a write transaction (overflow flag off) keeps the counter invariant -/
theorem scnt_step {f0 : FileSt} {live : List Nat} (he : EngInv f0 live) (s : ERunSt) (op : EOp)
    (hr : RunInv f0 live s) (hov : s.tx.ta.overflow = false) (h : SCnt live s.cur s.tx.ta) :
    SCnt live (op.step s).cur (op.step s).tx.ta := by
  cases op with
  | alloc n =>
    simp only [EOp.step]
    split
    · rename_i f tx ids hw
      exact scnt_alloc he hr.tx h n f tx ids hw
    · exact h
  | write id mode st =>
    simp only [EOp.step]
    split
    · split
      · rename_i tx hw
        show SCnt live s.cur tx.ta
        rw [(txWrite_ta _ _ _ _ _ _ hw).1]; exact h
      · exact h
    · exact h
  | load id =>
    simp only [EOp.step]
    split
    · split
      · rename_i tx hw
        show SCnt live s.cur tx.ta
        rw [(txLoad_ta _ _ _ _ hw).1]; exact h
      · exact h
    · exact h
  | read id =>
    simp only [EOp.step]
    split
    · split
      · rename_i tx c hw
        show SCnt live s.cur tx.ta
        rw [(txRead_ta _ _ _ _ _ hw).1]; exact h
      · exact h
    · exact h
  | free id =>
    simp only [EOp.step]
    split
    · rename_i hid
      split
      · rename_i f tx hw
        exact scnt_free h id hid f tx hw
      · exact h
    · exact h
  | flushPage id =>
    simp only [EOp.step]
    split
    · rename_i hid
      split
      · rename_i f tx w hw
        exact scnt_sbal h (sbal_flushPageOp hr.tx hov id hid f tx w hw)
      · exact h
    · exact h
  | flushAll order =>
    simp only [EOp.step]
    split
    · rename_i f tx ws hw
      exact scnt_sbal h (sbal_flushList he order s.f s.tx hr.tx hov f tx ws hw)
    · exact h
  | checkpoint =>
    simp only [EOp.step]
    exact scnt_sbal h (sbal_doCheckpoint s.f s.tx)

theorem scnt_ops {f0 : FileSt} {live : List Nat} (he : EngInv f0 live) (ops : List EOp) (s : ERunSt)
    (hr : RunInv f0 live s) (hov : s.tx.ta.overflow = false) (h : SCnt live s.cur s.tx.ta) :
    SCnt live (runEOps s ops).cur (runEOps s ops).tx.ta := by
  induction ops generalizing s with
  | nil => exact h
  | cons op ops ih =>
    exact ih _ (runinv_step he s op hr) ((step_ovf s op).trans hov) (scnt_step he s op hr hov h)

/-! ### the commit -/

theorem commitAfterFlush_ok_stat (f : FileSt) (tx : TxSt) (hok : (commitAfterFlush f tx).2.1 = .ok) :
    ∃ a ta regs a2 ta2 cs, cWalRes f tx = some (a, ta, regs) ∧
      fileCommitAlloc a ta (cAllocUpd f tx || !regs.isEmpty) = some (a2, ta2, cs) ∧
      (commitAfterFlush f tx).1.statData =
        (cPhase1 f tx).1.statData + ta2.sAlloc - (ta2.sFreed + ta2.sToMeta) := by
  rw [commitAfterFlush_eq] at hok ⊢
  unfold commitAfterFlush' at hok ⊢
  dsimp only at hok ⊢
  cases hr : cWalRes f tx with
  | none => rw [hr] at hok; cases hok
  | some r =>
    obtain ⟨a, ta, regs⟩ := r
    rw [hr] at hok
    dsimp only at hok ⊢
    cases hc : fileCommitAlloc a ta (cAllocUpd f tx || !regs.isEmpty) with
    | none => rw [hc] at hok; cases hok
    | some r2 =>
      obtain ⟨a2, ta2, cs⟩ := r2
      exact ⟨a, ta, regs, a2, ta2, cs, rfl, hc, rfl⟩

theorem cPhase1_statData (f : FileSt) (tx : TxSt) : (cPhase1 f tx).1.statData = f.statData := by
  unfold cPhase1
  split
  · exact (doCheckpoint_hdr f tx).2.2.1
  · rfl

/-- all allocator steps of a commit that does not use the overflow area keep the balance of the counters -/
theorem sbal_commit {f0 : FileSt} {live : List Nat} {f : FileSt} {tx : TxSt} {cur : List Nat}
    (he : EngInv f0 live) (hi : TxInv f0 live f tx cur) (hfl : AllFlushed tx) (hov : tx.ta.overflow = false)
    (a : Alloc) (ta : TxAlloc) (regs : List Nat) (a2 : Alloc) (ta2 : TxAlloc) (cs : AllocCommit) (upd : Bool)
    (hr : cWalRes f tx = some (a, ta, regs)) (hc : fileCommitAlloc a ta upd = some (a2, ta2, cs)) :
    SBal tx.ta ta2 := by
  obtain ⟨h1, -, -, -⟩ := commit_phase1 he hi hfl
  have pa0 := pa_init h1 hov
  have sb1 : SBal tx.ta (cPhase1 f tx).2.1.ta := by
    unfold cPhase1
    split
    · exact sbal_doCheckpoint f tx
    · exact sbal_refl _
  have sb2 : SBal (cPhase1 f tx).2.1.ta (cTx3 f tx).ta := by
    rw [(cTx3_spec f tx).1]
    exact sbal_trans (sbal_metaFreeIds _ _) (sbal_metaFreeIds _ _)
  have sb3 : SBal (cTx3 f tx).ta ta ∧ PA f0 (cPhase1 f tx).1 a ta regs (cTx3 f tx).ta := by
    rcases cWalRes_cases f tx a ta regs hr with ⟨n, hn⟩ | ⟨rfl, rfl, rfl⟩
    · exact ⟨sbal_metaAllocRegions _ _ n a ta regs pa0.hok.ascD pa0.hovf hn, (pa_step he pa0 n a ta regs hn).1⟩
    · exact ⟨sbal_refl _, pa0⟩
  have sb4 : SBal ta ta2 := by
    cases hu : upd with
    | false =>
      rw [hu] at hc
      simp only [fileCommitAlloc, Bool.not_false, if_true, Option.some.injEq, Prod.mk.injEq] at hc
      rw [← hc.2.1]; exact sbal_refl _
    | true =>
      rw [hu] at hc
      rcases (fileCommitAlloc_some a ta a2 ta2 cs hc).2 with ⟨-, hs, -⟩ | ⟨n, -, hn⟩
      · rw [hs]; exact sbal_refl _
      · exact sbal_metaAllocRegions a ta n a2 ta2 _ sb3.2.hok.ascD sb3.2.hovf hn
  exact sbal_trans sb1 (sbal_trans sb2 (sbal_trans sb3.1 sb4))

/-- **the commit keeps the statistic truthful**: if `DataAllocated` was the number of pages the client owned
    when the transaction began, it is the number of pages the client owns after the commit -/
theorem commit_statData {f0 : FileSt} {live : List Nat} {f : FileSt} {tx : TxSt} {cur : List Nat}
    (he : EngInv f0 live) (hi : TxInv f0 live f tx cur) (hfl : AllFlushed tx) (hov : tx.ta.overflow = false)
    (hs : f.statData = live.length) (h : SCnt live cur tx.ta) (hok : (commitAfterFlush f tx).2.1 = .ok) :
    (commitAfterFlush f tx).1.statData = cur.length := by
  obtain ⟨a, ta, regs, a2, ta2, cs, hr, hc, hst⟩ := commitAfterFlush_ok_stat f tx hok
  have sb := sbal_commit he hi hfl hov a ta regs a2 ta2 cs _ hr hc
  have := h.cnt
  rw [hst, cPhase1_statData, hs]
  unfold SBal at sb
  omega

end TxVerif
