/-
  An executable (Bool) version of `Ov.EngInv` and its soundness: `engInvB f live = true → Ov.EngInv f live`.
  Used to check the invariant on concrete states by `decide` (examples of Props/C03History.lean).
-/
import TxVerif.Proofs.RefineOv2
namespace TxVerif.Ov

def wfB (a : Alloc) : Bool :=
  ascB a.data.free && ascB a.mta.free &&
  a.data.free.all (fun x => decide (2 ≤ x) && decide (x < a.data.endMarker)) &&
  a.mta.free.all (fun x => decide (x < a.mta.endMarker) &&
    (decide (x < a.data.endMarker) || (decide (0 < a.maxPages) && decide (a.maxPages ≤ x)))) &&
  a.data.free.all (fun x => !a.mta.free.contains x) &&
  decide (2 ≤ a.data.endMarker) &&
  a.data.free.all (fun x => decide (a.maxPages = 0) || decide (x < a.maxPages)) &&
  decide (a.mta.free.length ≤ a.metaTotal)

theorem wfB_spec (a : Alloc) (h : wfB a = true) : WF a := by
  simp only [wfB, Bool.and_eq_true, List.all_eq_true, decide_eq_true_eq, Bool.or_eq_true,
    Bool.not_eq_true', List.contains_eq_mem, decide_eq_false_iff_not] at h
  obtain ⟨⟨⟨⟨⟨⟨⟨h1, h2⟩, h3⟩, h4⟩, h5⟩, h6⟩, h7⟩, h8⟩ := h
  exact ⟨asc_of_ascB _ h1, asc_of_ascB _ h2, h3, h4, h5, h6, h7, h8⟩

def inUseB (a : Alloc) (x : Nat) : Bool :=
  !a.data.free.contains x && !a.mta.free.contains x && decide (x < a.mta.endMarker) &&
  (decide (x < a.data.endMarker) || (decide (0 < a.maxPages) && decide (a.maxPages ≤ x)))

theorem inUseB_spec (a : Alloc) (x : Nat) (h : inUseB a x = true) : InUse a x := by
  simp only [inUseB, Bool.and_eq_true, Bool.not_eq_true', List.contains_eq_mem, decide_eq_false_iff_not,
    decide_eq_true_eq, Bool.or_eq_true] at h
  obtain ⟨⟨⟨h1, h2⟩, h3⟩, h4⟩ := h
  exact ⟨h1, h2, h3, h4⟩

def hdrCfgB (a : Alloc) : Bool := decide (a.maxPages = 0) || decide (2 < a.maxPages)

theorem hdrCfgB_spec (a : Alloc) : hdrCfgB a = true ↔ HdrCfg a := by
  simp [hdrCfgB, HdrCfg]

/-- the executable invariant -/
def engInvB (f : FileSt) (live : List Nat) : Bool :=
  wfB f.alloc &&
  (decide (f.alloc.data.endMarker ≤ f.alloc.mta.endMarker) || decide (f.alloc.data.endMarker ≤ 2) ||
    (decide (0 < f.alloc.maxPages) && decide (f.alloc.maxPages ≤ f.alloc.data.endMarker) &&
      decide (f.alloc.maxPages ≤ f.alloc.mta.endMarker))) &&
  ascB (f.walMap.map (·.1)) &&
  live.all (fun id => decide (2 ≤ id) && decide (id < f.alloc.data.endMarker) && inUseB f.alloc id) &&
  f.walMap.all (fun e => live.contains e.1) &&
  f.internal.all (fun x => (!hdrCfgB f.alloc || decide (2 ≤ x)) && inUseB f.alloc x && !live.contains x) &&
  decide f.internal.Nodup &&
  decide (f.alloc.mta.free.length + f.internal.length ≤ f.alloc.metaTotal) &&
  live.all (fun id => decide (f.alloc.maxPages = 0) || decide (id < f.alloc.maxPages)) &&
  (!hdrCfgB f.alloc || f.alloc.mta.free.all (fun x => decide (2 ≤ x))) &&
  (decide (f.alloc.maxPages = 0) || decide (2 ≤ f.alloc.maxPages))

theorem ascKeys_of_ascB (m : Assoc Nat) (h : ascB (m.map (·.1)) = true) : AscKeys m := by
  have := asc_of_ascB _ h
  unfold Asc at this
  rw [List.pairwise_map] at this
  exact this

/-- values without duplicates: the mapping is injective -/
theorem inj_of_values_nodup : ∀ (m : Assoc Nat), (m.map (·.2)).Nodup →
    ∀ k1 k2 w, (k1, w) ∈ m → (k2, w) ∈ m → k1 = k2 := by
  intro m
  induction m with
  | nil => intro _ k1 k2 w h1; cases h1
  | cons e m ih =>
    intro hn k1 k2 w h1 h2
    rw [List.map_cons, List.nodup_cons] at hn
    rcases List.mem_cons.mp h1 with h1 | h1 <;> rcases List.mem_cons.mp h2 with h2 | h2
    · have := h1.trans h2.symm
      simp only [Prod.mk.injEq] at this
      exact this.1
    · exfalso; apply hn.1
      rw [← h1]; exact List.mem_map.mpr ⟨(k2, w), h2, rfl⟩
    · exfalso; apply hn.1
      rw [← h2]; exact List.mem_map.mpr ⟨(k1, w), h1, rfl⟩
    · exact ih hn.2 k1 k2 w h1 h2

theorem engInvB_spec (f : FileSt) (live : List Nat) (h : engInvB f live = true) : EngInv f live := by
  simp only [engInvB, Bool.and_eq_true, List.all_eq_true, decide_eq_true_eq, Bool.or_eq_true,
    Bool.not_eq_true', List.contains_eq_mem, decide_eq_false_iff_not] at h
  obtain ⟨⟨⟨⟨⟨⟨⟨⟨⟨⟨h1, h2⟩, h3⟩, h4⟩, h5⟩, h6⟩, h7⟩, h8⟩, h9⟩, h10⟩, h11⟩ := h
  have hnd : (f.walMap.map (·.2)).Nodup := by
    have := h7
    unfold FileSt.internal at this
    rw [List.nodup_append, List.nodup_append] at this
    exact this.1.1
  refine ⟨wfB_spec _ h1, ?_, ascKeys_of_ascB _ h3, ?_, ?_, ?_, ?_, h7, h8, h9, ?_, h11⟩
  · rcases h2 with (h | h) | h
    · exact Or.inl h
    · exact Or.inr (Or.inl h)
    · exact Or.inr (Or.inr ⟨h.1.1, h.1.2, h.2⟩)
  · intro id hid
    have := h4 id hid
    exact ⟨this.1.1, this.1.2, inUseB_spec _ _ this.2⟩
  · intro k w hk
    exact h5 (k, w) (Assoc.mem_of_get? _ _ _ hk)
  · intro k1 k2 w hk1 hk2
    exact inj_of_values_nodup _ hnd k1 k2 w (Assoc.mem_of_get? _ _ _ hk1) (Assoc.mem_of_get? _ _ _ hk2)
  · intro x hx
    have := h6 x hx
    refine ⟨?_, inUseB_spec _ _ this.1.2, this.2⟩
    intro hc
    rcases this.1.1 with h | h
    · rw [(hdrCfgB_spec _).mpr hc] at h; cases h
    · exact h
  · intro hc
    rcases h10 with h | h
    · rw [(hdrCfgB_spec _).mpr hc] at h; cases h
    · exact h

end TxVerif.Ov
