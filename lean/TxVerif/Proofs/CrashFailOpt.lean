import TxVerif.Model.CrashFailOpt
import TxVerif.Proofs.CrashFail
namespace TxVerif

theorem Img.ext' (a b : Img) (hp : ∀ q, a.pages q = b.pages q) (hs : ∀ k, a.slots k = b.slots k) : a = b := by
  cases a; cases b
  simp only [Img.mk.injEq]
  exact ⟨funext hp, funext hs⟩

/-! ### applying a pending list over an image that already contains part of it -/

/-- the real image `d` differs from the known image `m` only where a pending operation writes -/
structure Near (d m : Img) (ops : List TOp) : Prop where
  pages : ∀ q, (∀ op ∈ ops, ¬ touches op q) → d.pages q = m.pages q
  slots : ∀ k, (∀ op ∈ ops, ¬ isHdrOn op k) → d.slots k = m.slots k

theorem near_refl (d : Img) (ops : List TOp) : Near d d ops := ⟨fun _ _ => rfl, fun _ _ => rfl⟩

theorem near_append {d m : Img} {ops : List TOp} (h : Near d m ops) (more : List TOp) : Near d m (ops ++ more) :=
  ⟨fun q hq => h.pages q (fun o ho => hq o (List.mem_append_left _ ho)),
   fun k hk => h.slots k (fun o ho => hk o (List.mem_append_left _ ho))⟩

theorem near_crash {d m i : Img} {ops : List TOp} (h : Near d m ops) (hc : CrashImg d ops i) : Near i m ops :=
  ⟨fun q hq => by rw [crashImg_pages hc q hq]; exact h.pages q hq,
   fun k hk => by rw [crashImg_slots hc k hk]; exact h.slots k hk⟩

/-- a completed sync over a `Near` image gives exactly the known image with the pending list applied -/
theorem near_sync {d m : Img} {ops : List TOp} (h : Near d m ops) : ops.foldl applyOp d = ops.foldl applyOp m := by
  apply Img.ext'
  · intro q
    apply foldl_pages_congr
    by_cases hq : ∃ op ∈ ops, touches op q
    · exact Or.inr hq
    · exact Or.inl (h.pages q (fun o ho ht => hq ⟨o, ho, ht⟩))
  · intro k
    apply foldl_slots_congr
    by_cases hk : ∃ op ∈ ops, isHdrOn op k
    · exact Or.inr hk
    · exact Or.inl (h.slots k (fun o ho ht => hk ⟨o, ho, ht⟩))

/-- **re-application is harmless**: applying the pending list, in order, over ANY crash image of
    that list (operations possibly applied before, header writes possibly torn) gives the same
    image as applying it to the old durable image -/
theorem reapply_crash (d i : Img) (ops : List TOp) (hc : CrashImg d ops i) :
    ops.foldl applyOp i = ops.foldl applyOp d :=
  near_sync (near_crash (near_refl d ops) hc)

/-- header writes that carry what the slot holds already do not change the slot -/
theorem foldl_idem_slots (ops : List TOp) (k : Nat) : ∀ (m : Img),
    (∀ op ∈ ops, ¬ isHdrOn op k ∨ ∃ t s, op = .hdr k t s ∧ m.slots k = some (t, s)) →
    (ops.foldl applyOp m).slots k = m.slots k := by
  induction ops with
  | nil => intro m _; rfl
  | cons op ops ih =>
    intro m h
    have h1 : (applyOp m op).slots k = m.slots k := by
      rcases h op List.mem_cons_self with hn | ⟨t, s, rfl, hm⟩
      · exact applyOp_slots _ _ _ hn
      · simp [applyOp, hm]
    simp only [List.foldl_cons]
    rw [ih (applyOp m op) ?_, h1]
    intro o ho
    rw [h1]
    exact h o (List.mem_cons_of_mem _ ho)

theorem foldl_hdr_pages (ops : List TOp) (q : Nat) (h : ∀ op ∈ ops, ¬ touches op q) (m : Img) :
    (ops.foldl applyOp m).pages q = m.pages q := foldl_applyOp_pages ops m q h

/-! ### the invariant -/

structure OSafe (reachOf : Nat → List (Nat × Hash)) (c : OCfg) (d : Img) : Prop where
  slotLe : c.base.aSlot ≤ 1
  img : ImgOk reachOf c.base.aSlot c.base.aTx c.base.aSt c.ghost d
  intactP : ∀ st, c.pendingSt = some st → ∀ p h, (p, h) ∈ reachOf st → d.pages p = some h
  /-- the real image is the known one except where pending operations write -/
  near : Near d c.base.durable c.base.pending
  mprev : c.phase = .normal → ∀ t s, c.base.durable.slots (1 - c.base.aSlot) = some (t, s) → t < c.base.aTx
  quiet : c.phase = .normal → c.base.inflight = none → ∀ op ∈ c.base.pending,
    ClearOf (reachOf c.base.aSt) op ∨
    ∃ t s, op = .hdr (1 - c.base.aSlot) t s ∧ c.base.durable.slots (1 - c.base.aSlot) = some (t, s)
  inflP : c.phase = .normal → ∀ st, c.base.inflight = some st →
    ∃ old, c.base.pending = old ++ [.hdr (1 - c.base.aSlot) (c.base.aTx + 1) st] ∧
      ∀ op ∈ old, ClearOf (reachOf c.base.aSt) op ∧ ClearOf (reachOf st) op
  failedP : ∀ st' prev, c.phase = .failed st' prev →
    (∀ op ∈ c.base.pending, op = .hdr (1 - c.base.aSlot) (c.base.aTx + 1) st' ∨
      (ClearOf (reachOf c.base.aSt) op ∧ ClearOf (reachOf st') op)) ∧
    ∀ t s, prev = some (t, s) → t < c.base.aTx
  restP : ∀ st' tp sp, c.phase = .restoring st' (tp, sp) → tp < c.base.aTx ∧
    ∃ l, c.base.pending = l ++ [.hdr (1 - c.base.aSlot) tp sp] ∧
      ∀ op ∈ l, op = .hdr (1 - c.base.aSlot) (c.base.aTx + 1) st' ∨
        (ClearOf (reachOf c.base.aSt) op ∧ ClearOf (reachOf st') op)

theorem oghost_pendingSt (c : OCfg) (s : Nat) (h : c.ghost = some s) : c.pendingSt = some s := by
  rcases c with ⟨b, ph⟩
  cases ph <;> simp_all [OCfg.ghost, OCfg.pendingSt]

theorem OSafe.imgP {reachOf : Nat → List (Nat × Hash)} {c : OCfg} {d : Img} (hs : OSafe reachOf c d) :
    ImgOk reachOf c.base.aSlot c.base.aTx c.base.aSt c.pendingSt d :=
  ⟨hs.img.active,
   fun t s e => (hs.img.other t s e).imp id (fun ⟨e1, e2⟩ => ⟨e1, oghost_pendingSt c s e2⟩),
   hs.img.intact, hs.intactP⟩

theorem OSafe.pok {reachOf : Nat → List (Nat × Hash)} {c : OCfg} {d : Img} (hs : OSafe reachOf c d) :
    ∀ op ∈ c.base.pending, POk reachOf c.base.aSlot c.base.aTx c.base.aSt c.pendingSt op := by
  rcases c with ⟨b, ph⟩
  cases ph with
  | normal =>
    cases hi : b.inflight with
    | none =>
      intro op hop
      rcases hs.quiet rfl hi op hop with hcl | ⟨t, s, rfl, hm⟩
      · exact Or.inl ⟨hcl, by intro s e; simp [OCfg.pendingSt, hi] at e⟩
      · exact Or.inr ⟨_, _, rfl, Or.inl (hs.mprev rfl t s hm)⟩
    | some st =>
      obtain ⟨old, hp, hold⟩ := hs.inflP rfl st hi
      intro op hop
      simp only at hp hold
      rw [hp] at hop
      rcases List.mem_append.mp hop with hop | hop
      · refine Or.inl ⟨(hold op hop).1, ?_⟩
        intro s e
        simp only [OCfg.pendingSt, hi, Option.some.injEq] at e
        subst e; exact (hold op hop).2
      · simp only [List.mem_singleton] at hop
        subst hop
        exact Or.inr ⟨_, _, rfl, Or.inr ⟨rfl, by simp [OCfg.pendingSt, hi]⟩⟩
  | failed st' prev =>
    intro op hop
    rcases (hs.failedP st' prev rfl).1 op hop with this | ⟨c1, c2⟩
    · subst this
      exact Or.inr ⟨_, _, rfl, Or.inr ⟨rfl, rfl⟩⟩
    · refine Or.inl ⟨c1, ?_⟩
      intro s e
      simp only [OCfg.pendingSt, Option.some.injEq] at e
      subst e; exact c2
  | restoring st' prev =>
    obtain ⟨tp, sp⟩ := prev
    obtain ⟨hlt, l, hp, hl⟩ := hs.restP st' tp sp rfl
    intro op hop
    simp only at hp
    rw [hp] at hop
    rcases List.mem_append.mp hop with hop | hop
    · rcases hl op hop with this | ⟨c1, c2⟩
      · subst this
        exact Or.inr ⟨_, _, rfl, Or.inr ⟨rfl, rfl⟩⟩
      · refine Or.inl ⟨c1, ?_⟩
        intro s e
        simp only [OCfg.pendingSt, Option.some.injEq] at e
        subst e; exact c2
    · simp only [List.mem_singleton] at hop
      subst hop
      exact Or.inr ⟨_, _, rfl, Or.inl hlt⟩

theorem OSafe.crashOk {reachOf : Nat → List (Nat × Hash)} {c : OCfg} {d i : Img} (hs : OSafe reachOf c d)
    (hc : CrashImg d c.base.pending i) : ImgOk reachOf c.base.aSlot c.base.aTx c.base.aSt c.pendingSt i :=
  imgOk_crash hs.slotLe hc hs.imgP hs.pok

/-- **the image invariant, optimistic semantics** -/
theorem osafe_crash (reachOf : Nat → List (Nat × Hash)) (c : OCfg) (d : Img) (hs : OSafe reachOf c d) (i : Img)
    (hc : CrashImg d c.base.pending i) :
    ∃ st, recover i = some st ∧ (st = c.base.aSt ∨ c.pendingSt = some st) ∧
      ∀ p h, (p, h) ∈ reachOf st → i.pages p = some h :=
  recover_imgOk hs.slotLe (hs.crashOk hc)

theorem osafe_idem (reachOf : Nat → List (Nat × Hash)) (c c' : OCfg) (d : Img) (s t st : Nat)
    (hs : OSafe reachOf c d) (h : c.idemRestore s t st = some c') : OSafe reachOf c' d := by
  rcases c with ⟨b, ph⟩
  cases ph with
  | failed st' prev => simp [OCfg.idemRestore] at h
  | restoring st' prev => simp [OCfg.idemRestore] at h
  | normal =>
    simp only [OCfg.idemRestore] at h
    split at h
    · rename_i hc
      simp only [Option.some.injEq] at h; subst h
      simp only [Bool.and_eq_true, Option.isNone_iff_eq_none, beq_iff_eq] at hc
      obtain ⟨⟨hi, rfl⟩, hm⟩ := hc
      refine ⟨hs.slotLe, hs.img, hs.intactP, near_append hs.near _, hs.mprev, ?_, ?_, nofun, nofun⟩
      · intro _ _ o ho
        rcases List.mem_append.mp ho with ho | ho
        · exact hs.quiet rfl hi o ho
        · simp only [List.mem_singleton] at ho; subst ho; exact Or.inr ⟨t, st, rfl, hm⟩
      · intro _ st'' hst; rw [show b.inflight = none from hi] at hst; cases hst
    · cases h

theorem osafe_restoreStep (reachOf : Nat → List (Nat × Hash)) (c c' : OCfg) (d : Img) (s t st : Nat)
    (hs : OSafe reachOf c d) (h : c.restoreStep s t st = some c') : OSafe reachOf c' d := by
  rcases c with ⟨b, ph⟩
  cases ph with
  | normal => simp [OCfg.restoreStep] at h
  | restoring st' prev => simp [OCfg.restoreStep] at h
  | failed st' prev =>
    simp only [OCfg.restoreStep] at h
    split at h
    · rename_i hc
      simp only [Option.some.injEq] at h; subst h
      simp only [Bool.and_eq_true, beq_iff_eq] at hc
      obtain ⟨rfl, hprev⟩ := hc
      obtain ⟨hall, hold⟩ := hs.failedP st' prev rfl
      refine ⟨hs.slotLe, hs.img, hs.intactP, near_append hs.near _, nofun, nofun, nofun, nofun, ?_⟩
      intro st'' tp sp hph
      cases hph
      exact ⟨hold t st hprev, b.pending, rfl, hall⟩
    · cases h

/-- **the optimistic discipline preserves the invariant** -/
theorem osafe_step (reachOf : Nat → List (Nat × Hash)) (c c' : OCfg) (d d' : Img) (op : FOp)
    (hs : OSafe reachOf c d) (h : c.step reachOf op = some c') (hd : DurStepOpt c d op d') : OSafe reachOf c' d' := by
  have hsyncOk : ∀ i, CrashImg d c.base.pending i →
      ImgOk reachOf c.base.aSlot c.base.aTx c.base.aSt c.pendingSt i := fun i hc => hs.crashOk hc
  have hexact : c.base.pending.foldl applyOp d = c.base.pending.foldl applyOp c.base.durable := near_sync hs.near
  rcases c with ⟨b, ph⟩
  simp only at hexact
  cases op with
  | op o =>
    cases o with
    | write p hh =>
      simp only [DurStepOpt] at hd; subst hd
      cases ph with
      | normal =>
        simp only [OCfg.step, Option.map_eq_some_iff] at h
        obtain ⟨b', hb, rfl⟩ := h
        simp only [Cfg.step] at hb
        split at hb
        · rename_i hc
          simp only [Option.some.injEq] at hb; subst hb
          simp only [Bool.and_eq_true, Option.isNone_iff_eq_none, Bool.not_eq_true', List.contains_eq_mem,
            decide_eq_false_iff_not] at hc
          refine ⟨hs.slotLe, hs.img, hs.intactP, near_append hs.near _, hs.mprev, ?_, ?_, nofun, nofun⟩
          · intro _ _ o ho
            rcases List.mem_append.mp ho with ho | ho
            · exact hs.quiet rfl hc.1 o ho
            · simp only [List.mem_singleton] at ho; subst ho; exact Or.inl hc.2
          · intro _ st hst; rw [show b.inflight = none from hc.1] at hst; cases hst
        · cases hb
      | failed st' prev => simp [OCfg.step] at h
      | restoring st' prev => simp [OCfg.step] at h
    | trunc n =>
      simp only [DurStepOpt] at hd; subst hd
      cases ph with
      | normal =>
        simp only [OCfg.step, Option.map_eq_some_iff] at h
        obtain ⟨b', hb, rfl⟩ := h
        simp only [Cfg.step] at hb
        split at hb
        · rename_i hc
          simp only [Option.some.injEq] at hb; subst hb
          simp only [Bool.and_eq_true, Option.isNone_iff_eq_none, List.all_eq_true, decide_eq_true_eq] at hc
          refine ⟨hs.slotLe, hs.img, hs.intactP, near_append hs.near _, hs.mprev, ?_, ?_, nofun, nofun⟩
          · intro _ _ o ho
            rcases List.mem_append.mp ho with ho | ho
            · exact hs.quiet rfl hc.1 o ho
            · simp only [List.mem_singleton] at ho; subst ho; exact Or.inl hc.2
          · intro _ st hst; rw [show b.inflight = none from hc.1] at hst; cases hst
        · cases hb
      | failed st' prev => simp [OCfg.step] at h
      | restoring st' prev => simp [OCfg.step] at h
    | hdr s t st =>
      simp only [DurStepOpt] at hd; subst hd
      cases ph with
      | normal =>
        simp only [OCfg.step] at h
        cases hb : b.step reachOf (.hdr s t st) with
        | none =>
          simp only [hb] at h
          exact osafe_idem reachOf _ _ _ s t st hs h
        | some b' =>
          simp only [hb, Option.some.injEq] at h; subst h
          simp only [Cfg.step] at hb
          split at hb
          · rename_i hc
            simp only [Option.some.injEq] at hb; subst hb
            simp only [Bool.and_eq_true, Option.isNone_iff_eq_none, List.all_eq_true, beq_iff_eq] at hc
            obtain ⟨⟨⟨⟨hi, hall⟩, rfl⟩, rfl⟩, hint⟩ := hc
            have hclr : ∀ o ∈ b.pending, ClearOf (reachOf st) o := fun o ho => pendClearB_spec _ o (hall o ho)
            have hnp := hs.near.pages
            simp only at hnp
            refine ⟨hs.slotLe, hs.img, ?_, near_append hs.near _, hs.mprev, ?_, ?_, nofun, nofun⟩
            · intro st'' hst p hh hm
              simp only [OCfg.pendingSt, Option.some.injEq] at hst; subst hst
              rw [hnp p (fun o ho => clearOf_not_touches _ o (hclr o ho) p hh hm)]
              exact intactB_spec reachOf _ _ hint p hh hm
            · intro _ hn; cases hn
            · intro _ st'' hst
              simp only [Option.some.injEq] at hst; subst hst
              refine ⟨b.pending, rfl, fun o ho => ⟨?_, hclr o ho⟩⟩
              rcases hs.quiet rfl hi o ho with hcl | ⟨t', s', rfl, _⟩
              · exact hcl
              · have := hclr _ ho; simp [ClearOf] at this
          · cases hb
      | failed st' prev =>
        simp only [OCfg.step] at h
        exact osafe_restoreStep reachOf _ _ _ s t st hs h
      | restoring st' prev => simp [OCfg.step] at h
    | sync =>
      simp only [DurStepOpt] at hd; subst hd
      have hok := hsyncOk _ (crashImg_foldl _ _)
      simp only at hok
      cases ph with
      | normal =>
        simp only [OCfg.step, Cfg.step] at h
        cases hi : b.inflight with
        | none =>
          simp only [hi, Option.map_some, Option.some.injEq] at h; subst h
          have hq := hs.quiet rfl hi
          simp only [OCfg.pendingSt, hi] at hok
          refine ⟨hs.slotLe, hok, ?_, ?_, ?_, ?_, ?_, nofun, nofun⟩
          · intro st hst; simp [OCfg.pendingSt] at hst
          · show Near (b.pending.foldl applyOp d) (b.pending.foldl applyOp b.durable) []
            rw [hexact]; exact near_refl _ _
          · intro _ t s
            show (b.pending.foldl applyOp b.durable).slots (1 - b.aSlot) = _ → _
            rw [foldl_idem_slots _ _ _ ?_]
            · exact hs.mprev rfl t s
            · intro o ho
              rcases hq o ho with hcl | hid
              · exact Or.inl (clearOf_not_hdr _ o hcl _)
              · exact Or.inr hid
          · intro _ _ o ho; cases ho
          · intro _ st hst; cases hst
        | some st =>
          simp only [hi, Option.map_some, Option.some.injEq] at h; subst h
          obtain ⟨old, hp, _⟩ := hs.inflP rfl st hi
          simp only at hp
          simp only [OCfg.pendingSt, hi] at hok
          have hsl : 1 - (1 - b.aSlot) = b.aSlot := by have := hs.slotLe; simp only at this; omega
          have hact : (b.pending.foldl applyOp d).slots b.aSlot = some (b.aTx, b.aSt) := hok.active
          have hslot : (b.pending.foldl applyOp d).slots (1 - b.aSlot) = some (b.aTx + 1, st) := by
            rw [hp, List.foldl_append]; simp [applyOp]
          have hoth : ∀ t s, (b.pending.foldl applyOp d).slots (1 - (1 - b.aSlot)) = some (t, s) → t < b.aTx + 1 := by
            intro t s e
            rw [hsl, hact] at e; cases e; omega
          refine ⟨by show 1 - b.aSlot ≤ 1; omega, ⟨hslot, ?_, hok.intactG st rfl, nofun⟩, ?_, ?_, ?_, ?_, ?_, nofun, nofun⟩
          · intro t s e; exact Or.inl (hoth t s e)
          · intro st' hst; simp [OCfg.pendingSt] at hst
          · show Near (b.pending.foldl applyOp d) (b.pending.foldl applyOp b.durable) []
            rw [hexact]; exact near_refl _ _
          · intro _ t s
            show (b.pending.foldl applyOp b.durable).slots (1 - (1 - b.aSlot)) = _ → _
            rw [← hexact]; exact hoth t s
          · intro _ _ o ho; cases ho
          · intro _ st' hst; cases hst
      | failed st' prev =>
        simp only [OCfg.step, Option.some.injEq] at h; subst h
        obtain ⟨_, hold⟩ := hs.failedP st' prev rfl
        simp only [OCfg.pendingSt] at hok
        refine ⟨hs.slotLe, hok, ?_, ?_, nofun, nofun, nofun, ?_, nofun⟩
        · intro st'' hst; simp only [OCfg.pendingSt, Option.some.injEq] at hst; subst hst; exact hok.intactG _ rfl
        · show Near (b.pending.foldl applyOp d) (b.pending.foldl applyOp b.durable) []
          rw [hexact]; exact near_refl _ _
        · intro st'' prev' hph
          cases hph
          exact ⟨(fun o ho => by cases ho), hold⟩
      | restoring st' prev =>
        obtain ⟨tp, sp⟩ := prev
        simp only [OCfg.step, Option.some.injEq] at h; subst h
        obtain ⟨hlt, l, hp, _⟩ := hs.restP st' tp sp rfl
        simp only at hp hlt
        simp only [OCfg.pendingSt] at hok
        have hslot : (b.pending.foldl applyOp d).slots (1 - b.aSlot) = some (tp, sp) := by
          rw [hp, List.foldl_append]; simp [applyOp]
        refine ⟨hs.slotLe, ⟨hok.active, ?_, hok.intact, nofun⟩, ?_, ?_, ?_, ?_, ?_, nofun, nofun⟩
        · intro t s e
          show t < b.aTx ∨ _
          have e' : (b.pending.foldl applyOp d).slots (1 - b.aSlot) = some (t, s) := e
          rw [hslot] at e'; cases e'; exact Or.inl hlt
        · intro st'' hst; simp [OCfg.pendingSt] at hst
        · show Near (b.pending.foldl applyOp d) (b.pending.foldl applyOp b.durable) []
          rw [hexact]; exact near_refl _ _
        · intro _ t s
          show (b.pending.foldl applyOp b.durable).slots (1 - b.aSlot) = _ → t < b.aTx
          rw [← hexact, hslot]
          intro e; cases e; exact hlt
        · intro _ _ o ho; cases ho
        · intro _ st'' hst; cases hst
  | syncFail =>
    simp only [DurStepOpt] at hd
    have hok := hsyncOk d' hd
    have hnear := near_crash hs.near hd
    simp only at hok hnear
    cases ph with
    | normal =>
      simp only [OCfg.step] at h
      cases hi : b.inflight with
      | none =>
        simp only [hi, Option.some.injEq] at h; subst h
        simp only [OCfg.pendingSt, hi] at hok
        refine ⟨hs.slotLe, hok, ?_, hnear, hs.mprev, hs.quiet, hs.inflP, nofun, nofun⟩
        intro st hst; simp [OCfg.pendingSt, hi] at hst
      | some st =>
        simp only [hi, Option.some.injEq] at h; subst h
        obtain ⟨old, hp, hold⟩ := hs.inflP rfl st hi
        simp only at hp hold
        simp only [OCfg.pendingSt, hi] at hok
        refine ⟨hs.slotLe, hok, ?_, hnear, nofun, nofun, nofun, ?_, nofun⟩
        · intro st'' hst; simp only [OCfg.pendingSt, Option.some.injEq] at hst; subst hst; exact hok.intactG _ rfl
        · intro st'' prev' hph
          cases hph
          refine ⟨?_, hs.mprev rfl⟩
          intro o ho
          show o = .hdr (1 - b.aSlot) (b.aTx + 1) st ∨ (ClearOf (reachOf b.aSt) o ∧ ClearOf (reachOf st) o)
          have ho' : o ∈ b.pending := ho
          rw [hp] at ho'
          rcases List.mem_append.mp ho' with ho' | ho'
          · exact Or.inr (hold o ho')
          · exact Or.inl (by simpa using ho')
    | failed st' prev =>
      simp only [OCfg.step, Option.some.injEq] at h; subst h
      simp only [OCfg.pendingSt] at hok
      refine ⟨hs.slotLe, hok, ?_, hnear, nofun, nofun, nofun, hs.failedP, nofun⟩
      intro st'' hst; simp only [OCfg.pendingSt, Option.some.injEq] at hst; subst hst; exact hok.intactG _ rfl
    | restoring st' prev =>
      simp only [OCfg.step, Option.some.injEq] at h; subst h
      simp only [OCfg.pendingSt] at hok
      refine ⟨hs.slotLe, hok, ?_, hnear, nofun, nofun, nofun, nofun, hs.restP⟩
      intro st'' hst; simp only [OCfg.pendingSt, Option.some.injEq] at hst; subst hst; exact hok.intactG _ rfl
  | restore s t st =>
    simp only [DurStepOpt] at hd; subst hd
    cases ph with
    | normal => simp only [OCfg.step] at h; exact osafe_idem reachOf _ _ _ s t st hs h
    | failed st' prev => simp only [OCfg.step] at h; exact osafe_restoreStep reachOf _ _ _ s t st hs h
    | restoring st' prev => simp [OCfg.step] at h

/-- after a COMPLETED sync the real durable image is exactly the one the acceptor holds -/
theorem sync_exact (reachOf : Nat → List (Nat × Hash)) (c c' : OCfg) (d d' : Img) (hs : OSafe reachOf c d)
    (h : c.step reachOf (.op .sync) = some c') (hd : DurStepOpt c d (.op .sync) d') : d' = c'.base.durable := by
  have hexact : c.base.pending.foldl applyOp d = c.base.pending.foldl applyOp c.base.durable := near_sync hs.near
  simp only [DurStepOpt] at hd; subst hd
  rw [hexact]
  rcases c with ⟨b, ph⟩
  cases ph with
  | normal =>
    simp only [OCfg.step, Cfg.step] at h
    cases hi : b.inflight with
    | none => simp only [hi, Option.map_some, Option.some.injEq] at h; subst h; rfl
    | some st => simp only [hi, Option.map_some, Option.some.injEq] at h; subst h; rfl
  | failed st' prev => simp only [OCfg.step, Option.some.injEq] at h; subst h; rfl
  | restoring st' prev => simp only [OCfg.step, Option.some.injEq] at h; subst h; rfl

/-! ### executions -/

theorem osafe_exec (reachOf : Nat → List (Nat × Hash)) {c c' : OCfg} {d d' : Img} {ops : List FOp}
    (hex : ExecOpt (OCfg.step reachOf) c d ops c' d') (hs : OSafe reachOf c d) : OSafe reachOf c' d' := by
  induction hex with
  | nil c d => exact hs
  | cons hst hd _ ih => exact ih (osafe_step reachOf _ _ _ _ _ hs hst hd)

theorem oexec_run (reachOf : Nat → List (Nat × Hash)) {c c' : OCfg} {d d' : Img} {ops : List FOp}
    (hex : ExecOpt (OCfg.step reachOf) c d ops c' d') : c.run reachOf ops = some c' := by
  induction hex with
  | nil c d => rfl
  | cons hst _ _ ih => simp only [OCfg.run, hst]; exact ih

theorem odurStep_total (c : OCfg) (d : Img) (op : FOp) : ∃ d', DurStepOpt c d op d' := by
  cases op with
  | op o => cases o <;> exact ⟨_, rfl⟩
  | syncFail => exact ⟨d, crashImg_none _ _⟩
  | restore s t st => exact ⟨_, rfl⟩

theorem oexec_of_run (reachOf : Nat → List (Nat × Hash)) (ops : List FOp) : ∀ (c c' : OCfg) (d : Img),
    c.run reachOf ops = some c' → ∃ d', ExecOpt (OCfg.step reachOf) c d ops c' d' := by
  induction ops with
  | nil => intro c c' d h; simp only [OCfg.run, Option.some.injEq] at h; subst h; exact ⟨d, .nil c d⟩
  | cons op ops ih =>
    intro c c' d h
    simp only [OCfg.run] at h
    cases hst : c.step reachOf op with
    | none => simp [hst] at h
    | some c1 =>
      simp only [hst] at h
      obtain ⟨d1, hd1⟩ := odurStep_total c d op
      obtain ⟨d', hex⟩ := ih c1 c' d1 h
      exact ⟨d', .cons hst hd1 hex⟩

theorem orun_prefix (reachOf : Nat → List (Nat × Hash)) (ops : List FOp) : ∀ (c c' : OCfg) (k : Nat),
    c.run reachOf ops = some c' → ∃ ck, c.run reachOf (ops.take k) = some ck := by
  induction ops with
  | nil => intro c c' k _; exact ⟨c, by simp [OCfg.run]⟩
  | cons op ops ih =>
    intro c c' k h
    cases k with
    | zero => exact ⟨c, by simp [OCfg.run]⟩
    | succ k =>
      simp only [OCfg.run] at h
      cases hst : c.step reachOf op with
      | none => simp [hst] at h
      | some c1 =>
        simp only [hst] at h
        obtain ⟨ck, hk⟩ := ih c1 c' k h
        exact ⟨ck, by simp [OCfg.run, hst, hk]⟩

/-! ### relation to Model/Crash.lean -/

theorem osafe_of_safe (reachOf : Nat → List (Nat × Hash)) (c : Cfg) (hs : Safe reachOf c) :
    OSafe reachOf (OCfg.ofCfg c) c.durable := by
  obtain ⟨h1, h2, h3, h4, h5, h6⟩ := hs
  refine ⟨h1, ⟨h2, fun t s e => Or.inl (h3 t s e), h4, nofun⟩, ?_, near_refl _ _, fun _ => h3,
    fun _ hi o ho => Or.inl (h5 hi o ho), fun _ st hst => (h6 st hst).1, nofun, nofun⟩
  intro st hst
  exact (h6 st hst).2

/-- right after a completed sync (nothing pending) in the normal phase, the invariant `Safe` of
    Model/Crash.lean holds of the acceptor's own configuration - whose image is the real one -/
theorem safe_of_osafe (reachOf : Nat → List (Nat × Hash)) (c : OCfg) (d : Img) (hs : OSafe reachOf c d)
    (hph : c.phase = .normal) (hp : c.base.pending = []) : d = c.base.durable ∧ Safe reachOf c.base := by
  rcases c with ⟨b, ph⟩
  simp only at hph hp; subst hph
  have hn := hs.near
  simp only at hn
  rw [hp] at hn
  have hd : d = b.durable :=
    Img.ext' _ _ (fun q => hn.pages q (by intro o ho; cases ho)) (fun k => hn.slots k (by intro o ho; cases ho))
  subst hd
  have hi : b.inflight = none := by
    cases hi : b.inflight with
    | none => rfl
    | some st =>
      obtain ⟨old, this, _⟩ := hs.inflP rfl st hi
      simp only at this; rw [hp] at this
      cases old <;> cases this
  refine ⟨rfl, hs.slotLe, hs.img.active, ?_, hs.img.intact, ?_, ?_⟩
  · intro t s e
    rcases hs.img.other t s e with h | ⟨_, h⟩
    · exact h
    · cases h
  · intro _ o ho; rw [hp] at ho; cases ho
  · intro st hst; rw [hi] at hst; cases hst

theorem ostep_lift (reachOf : Nat → List (Nat × Hash)) (c c' : Cfg) (op : TOp) (h : c.step reachOf op = some c') :
    (⟨c, .normal⟩ : OCfg).step reachOf (.op op) = some ⟨c', .normal⟩ := by
  cases op <;> simp [OCfg.step, h]

/-- every trace accepted by the discipline of Model/Crash.lean is accepted by the optimistic one -/
theorem orun_lift (reachOf : Nat → List (Nat × Hash)) (ops : List TOp) : ∀ (c c' : Cfg),
    c.run reachOf ops = some c' → (⟨c, .normal⟩ : OCfg).run reachOf (ops.map .op) = some ⟨c', .normal⟩ := by
  induction ops with
  | nil => intro c c' h; simp only [Cfg.run, Option.some.injEq] at h; subst h; rfl
  | cons op ops ih =>
    intro c c' h
    simp only [Cfg.run] at h
    cases hst : c.step reachOf op with
    | none => simp [hst] at h
    | some c1 =>
      simp only [hst] at h
      simp only [List.map_cons, OCfg.run, ostep_lift reachOf c c1 op hst]
      exact ih c1 c' h

/-! ### the committed header changes only when a commit completes -/

theorem cfg_step_tx (reachOf : Nat → List (Nat × Hash)) (c c' : Cfg) (op : TOp) (h : c.step reachOf op = some c') :
    (c'.aTx = c.aTx ∧ c'.aSt = c.aSt ∧ c'.aSlot = c.aSlot) ∨ c'.aTx = c.aTx + 1 := by
  cases op with
  | write p hh =>
    simp only [Cfg.step] at h
    split at h
    · simp only [Option.some.injEq] at h; subst h; exact Or.inl ⟨rfl, rfl, rfl⟩
    · cases h
  | trunc n =>
    simp only [Cfg.step] at h
    split at h
    · simp only [Option.some.injEq] at h; subst h; exact Or.inl ⟨rfl, rfl, rfl⟩
    · cases h
  | hdr s t st =>
    simp only [Cfg.step] at h
    split at h
    · simp only [Option.some.injEq] at h; subst h; exact Or.inl ⟨rfl, rfl, rfl⟩
    · cases h
  | sync =>
    simp only [Cfg.step] at h
    cases hi : c.inflight with
    | none => simp only [hi, Option.some.injEq] at h; subst h; exact Or.inl ⟨rfl, rfl, rfl⟩
    | some st => simp only [hi, Option.some.injEq] at h; subst h; exact Or.inr rfl

theorem ostep_tx (reachOf : Nat → List (Nat × Hash)) (c c' : OCfg) (op : FOp) (h : c.step reachOf op = some c') :
    (c'.base.aTx = c.base.aTx ∧ c'.base.aSt = c.base.aSt ∧ c'.base.aSlot = c.base.aSlot) ∨
      c'.base.aTx = c.base.aTx + 1 := by
  have hidem : ∀ s t st, c.idemRestore s t st = some c' →
      (c'.base.aTx = c.base.aTx ∧ c'.base.aSt = c.base.aSt ∧ c'.base.aSlot = c.base.aSlot) := by
    intro s t st hh
    rcases c with ⟨b, ph⟩
    cases ph <;> simp only [OCfg.idemRestore] at hh
    · split at hh
      · simp only [Option.some.injEq] at hh; subst hh; exact ⟨rfl, rfl, rfl⟩
      · cases hh
    · cases hh
    · cases hh
  have hrest : ∀ s t st, c.restoreStep s t st = some c' →
      (c'.base.aTx = c.base.aTx ∧ c'.base.aSt = c.base.aSt ∧ c'.base.aSlot = c.base.aSlot) := by
    intro s t st hh
    rcases c with ⟨b, ph⟩
    cases ph <;> simp only [OCfg.restoreStep] at hh
    · cases hh
    · split at hh
      · simp only [Option.some.injEq] at hh; subst hh; exact ⟨rfl, rfl, rfl⟩
      · cases hh
    · cases hh
  rcases c with ⟨b, ph⟩
  cases op with
  | op o =>
    cases ph with
    | normal =>
      cases o with
      | hdr s t st =>
        simp only [OCfg.step] at h
        cases hb : b.step reachOf (.hdr s t st) with
        | none => simp only [hb] at h; exact Or.inl (hidem s t st h)
        | some b' =>
          simp only [hb, Option.some.injEq] at h; subst h
          exact cfg_step_tx reachOf b b' _ hb
      | write p hh =>
        simp only [OCfg.step, Option.map_eq_some_iff] at h
        obtain ⟨b', hb, rfl⟩ := h
        exact cfg_step_tx reachOf b b' _ hb
      | trunc n =>
        simp only [OCfg.step, Option.map_eq_some_iff] at h
        obtain ⟨b', hb, rfl⟩ := h
        exact cfg_step_tx reachOf b b' _ hb
      | sync =>
        simp only [OCfg.step, Option.map_eq_some_iff] at h
        obtain ⟨b', hb, rfl⟩ := h
        exact cfg_step_tx reachOf b b' _ hb
    | failed st' prev =>
      cases o with
      | hdr s t st => simp only [OCfg.step] at h; exact Or.inl (hrest s t st h)
      | write p hh => simp [OCfg.step] at h
      | trunc n => simp [OCfg.step] at h
      | sync => simp only [OCfg.step, Option.some.injEq] at h; subst h; exact Or.inl ⟨rfl, rfl, rfl⟩
    | restoring st' prev =>
      cases o with
      | hdr s t st => simp [OCfg.step] at h
      | write p hh => simp [OCfg.step] at h
      | trunc n => simp [OCfg.step] at h
      | sync => simp only [OCfg.step, Option.some.injEq] at h; subst h; exact Or.inl ⟨rfl, rfl, rfl⟩
  | syncFail =>
    cases ph with
    | normal =>
      simp only [OCfg.step] at h
      cases hi : b.inflight with
      | none => simp only [hi, Option.some.injEq] at h; subst h; exact Or.inl ⟨rfl, rfl, rfl⟩
      | some st => simp only [hi, Option.some.injEq] at h; subst h; exact Or.inl ⟨rfl, rfl, rfl⟩
    | failed st' prev => simp only [OCfg.step, Option.some.injEq] at h; subst h; exact Or.inl ⟨rfl, rfl, rfl⟩
    | restoring st' prev => simp only [OCfg.step, Option.some.injEq] at h; subst h; exact Or.inl ⟨rfl, rfl, rfl⟩
  | restore s t st =>
    cases ph with
    | normal => simp only [OCfg.step] at h; exact Or.inl (hidem s t st h)
    | failed st' prev => simp only [OCfg.step] at h; exact Or.inl (hrest s t st h)
    | restoring st' prev => simp [OCfg.step] at h

/-- transaction ids never go back, and as long as the id is the same so are slot and state -/
theorem oexec_tx (reachOf : Nat → List (Nat × Hash)) {c c' : OCfg} {d d' : Img} {ops : List FOp}
    (hex : ExecOpt (OCfg.step reachOf) c d ops c' d') :
    c.base.aTx ≤ c'.base.aTx ∧
      (c'.base.aTx = c.base.aTx → c'.base.aSt = c.base.aSt ∧ c'.base.aSlot = c.base.aSlot) := by
  induction hex with
  | nil c d => exact ⟨Nat.le_refl _, fun _ => ⟨rfl, rfl⟩⟩
  | cons hst _ _ ih =>
    obtain ⟨hle, heq⟩ := ih
    rcases ostep_tx reachOf _ _ _ hst with ⟨e1, e2, e3⟩ | e1
    · refine ⟨by omega, fun e => ?_⟩
      obtain ⟨a, b⟩ := heq (by omega)
      exact ⟨a.trans e2, b.trans e3⟩
    · exact ⟨by omega, fun e => by omega⟩

end TxVerif
