/-
  Helper lemmas for the commit-level refinement of the engine model (Props/C03Refine.lean):
  association lists, the "page in use" frame of the allocator, the invariants `EngInv` (committed
  state) and `TxInv` (inside a write transaction) and their preservation.
-/
import TxVerif.Proofs.Engine
import TxVerif.Proofs.AllocFresh
namespace TxVerif

/-! ### association lists -/

theorem Assoc.get?_nil {β} (k : Nat) : Assoc.get? ([] : Assoc β) k = none := rfl

theorem Assoc.get?_cons {β} (e : Nat × β) (m : Assoc β) (k : Nat) :
    Assoc.get? (e :: m) k = if e.1 = k then some e.2 else Assoc.get? m k := by
  unfold Assoc.get?
  rw [List.find?_cons]
  by_cases h : e.1 = k
  · simp [h]
  · have : (e.1 == k) = false := by simpa using h
    simp [this, h]

/-- filtering with a predicate on keys -/
theorem Assoc.get?_filter {β} (m : Assoc β) (q : Nat → Bool) (k : Nat) :
    Assoc.get? (m.filter (fun e => q e.1)) k = if q k then Assoc.get? m k else none := by
  induction m with
  | nil => simp [Assoc.get?]
  | cons e m ih =>
    rw [List.filter_cons]
    by_cases he : q e.1
    · simp only [he, if_true]
      rw [Assoc.get?_cons, Assoc.get?_cons, ih]
      by_cases hk : e.1 = k
      · subst hk; simp [he]
      · simp [hk]
    · have he' : q e.1 = false := by simpa using he
      simp only [he', Bool.false_eq_true, if_false]
      rw [Assoc.get?_cons, ih]
      by_cases hk : e.1 = k
      · subst hk; simp [he']
      · simp [hk]

theorem Assoc.get?_erase {β} (m : Assoc β) (j k : Nat) :
    Assoc.get? (Assoc.erase m j) k = if k = j then none else Assoc.get? m k := by
  unfold Assoc.erase
  rw [Assoc.get?_filter m (fun x => x != j) k]
  by_cases h : k = j <;> simp [h]

theorem Assoc.mem_of_get? {β} (m : Assoc β) (k : Nat) (v : β) (h : Assoc.get? m k = some v) : (k, v) ∈ m := by
  induction m with
  | nil => simp [Assoc.get?] at h
  | cons e m ih =>
    rw [Assoc.get?_cons] at h
    by_cases hk : e.1 = k
    · simp only [hk, if_true, Option.some.injEq] at h
      subst hk; subst h
      exact List.mem_cons_self
    · simp only [hk, if_false] at h
      exact List.mem_cons_of_mem _ (ih h)

/-- keys strictly ascending -/
def AscKeys {β} (m : Assoc β) : Prop := m.Pairwise (fun a b => a.1 < b.1)

theorem Assoc.get?_of_mem {β} (m : Assoc β) (hm : AscKeys m) (k : Nat) (v : β) (h : (k, v) ∈ m) :
    Assoc.get? m k = some v := by
  induction m with
  | nil => cases h
  | cons e m ih =>
    unfold AscKeys at hm
    rw [List.pairwise_cons] at hm
    rw [Assoc.get?_cons]
    rcases List.mem_cons.mp h with h | h
    · subst h; simp
    · have := hm.1 _ h
      have hne : ¬ e.1 = k := by simp only at this; omega
      simp only [hne, if_false]
      exact ih hm.2 h

theorem ascKeys_filter {β} (m : Assoc β) (q : Nat × β → Bool) (hm : AscKeys m) : AscKeys (m.filter q) :=
  List.Pairwise.sublist List.filter_sublist hm

theorem mem_set {β} (m : Assoc β) (k : Nat) (v : β) (e : Nat × β) (h : e ∈ Assoc.set m k v) :
    e = (k, v) ∨ e ∈ m := by
  induction m with
  | nil => simp [Assoc.set] at h; exact Or.inl h
  | cons x m ih =>
    obtain ⟨k', v'⟩ := x
    simp only [Assoc.set] at h
    split at h
    · rcases List.mem_cons.mp h with h | h
      · exact Or.inl h
      · exact Or.inr h
    · split at h
      · rcases List.mem_cons.mp h with h | h
        · exact Or.inl h
        · exact Or.inr (List.mem_cons_of_mem _ h)
      · rcases List.mem_cons.mp h with h | h
        · exact Or.inr (h ▸ List.mem_cons_self)
        · rcases ih h with h | h
          · exact Or.inl h
          · exact Or.inr (List.mem_cons_of_mem _ h)

theorem ascKeys_set {β} (m : Assoc β) (k : Nat) (v : β) (hm : AscKeys m) : AscKeys (Assoc.set m k v) := by
  induction m with
  | nil => simp [Assoc.set, AscKeys]
  | cons x m ih =>
    obtain ⟨k', v'⟩ := x
    unfold AscKeys at hm ih ⊢
    rw [List.pairwise_cons] at hm
    simp only [Assoc.set]
    split
    · rename_i h1
      rw [List.pairwise_cons, List.pairwise_cons]
      refine ⟨?_, hm.1, hm.2⟩
      intro e he
      rcases List.mem_cons.mp he with he | he
      · subst he; exact h1
      · have := hm.1 e he; simp only at this ⊢; omega
    · split
      · rename_i h1 h2
        subst h2
        rw [List.pairwise_cons]
        exact ⟨hm.1, hm.2⟩
      · rename_i h1 h2
        rw [List.pairwise_cons]
        refine ⟨?_, ih hm.2⟩
        intro e he
        rcases mem_set m k v e he with he | he
        · subst he; simp only; omega
        · exact hm.1 e he


/-- `txAlloc` enters a fresh page record for every allocated id -/
theorem get?_foldl_newPages (ids : List Nat) (m : Assoc PageSt) (k : Nat) :
    Assoc.get? (ids.foldl (fun m id => Assoc.set m id ({ id, ondisk := id, new_ := true } : PageSt)) m) k =
      if k ∈ ids then some ({ id := k, ondisk := k, new_ := true } : PageSt) else Assoc.get? m k := by
  induction ids generalizing m with
  | nil => simp
  | cons x xs ih =>
    rw [List.foldl_cons, ih]
    by_cases hk : k ∈ xs
    · simp [hk]
    · by_cases hx : k = x
      · subst hx; simp [hk, Assoc.get?_set_self]
      · simp [hk, hx, Assoc.get?_set_ne _ _ _ _ hx]

/-- `mappingUpdate` enters the new overwrite pages over the kept entries -/
theorem get?_foldl_setPairs (l : Assoc Nat) (hl : AscKeys l) (m : Assoc Nat) (k : Nat) :
    Assoc.get? (l.foldl (fun m (e : Nat × Nat) => Assoc.set m e.1 e.2) m) k =
      match Assoc.get? l k with | some w => some w | none => Assoc.get? m k := by
  induction l generalizing m with
  | nil => simp [Assoc.get?]
  | cons e l ih =>
    unfold AscKeys at hl
    rw [List.pairwise_cons] at hl
    rw [List.foldl_cons, ih hl.2, Assoc.get?_cons]
    by_cases hk : e.1 = k
    · subst hk
      have hn : Assoc.get? l e.1 = none := by
        cases hg : Assoc.get? l e.1 with
        | none => rfl
        | some w => have := hl.1 _ (Assoc.mem_of_get? l _ _ hg); simp at this
      simp [hn, Assoc.get?_set_self]
    · have hk' : k ≠ e.1 := fun h => hk h.symm
      simp only [hk, if_false, Assoc.get?_set_ne _ _ _ _ hk']

theorem ascKeys_foldl_setPairs (l : Assoc Nat) (m : Assoc Nat) (hm : AscKeys m) :
    AscKeys (l.foldl (fun m (e : Nat × Nat) => Assoc.set m e.1 e.2) m) := by
  induction l generalizing m with
  | nil => exact hm
  | cons e l ih => rw [List.foldl_cons]; exact ih _ (ascKeys_set m _ _ hm)

theorem diskAt_set_self (f : FileSt) (x : Nat) (c : Content) :
    ({ f with disk := Assoc.set f.disk x c } : FileSt).diskAt x = c := by
  simp [FileSt.diskAt, Assoc.get?_set_self]

theorem diskAt_set_ne (f : FileSt) (x y : Nat) (c : Content) (h : y ≠ x) :
    ({ f with disk := Assoc.set f.disk x c } : FileSt).diskAt y = f.diskAt y := by
  simp [FileSt.diskAt, Assoc.get?_set_ne _ _ _ _ h]

/-! ### pages in use: the frame of the allocator operations -/

/-- a page that belongs to somebody: not in a free list, inside the file -/
def InUse (a : Alloc) (x : Nat) : Prop :=
  x ∉ a.data.free ∧ x ∉ a.mta.free ∧ x < a.mta.endMarker ∧
  (x < a.data.endMarker ∨ (0 < a.maxPages ∧ a.maxPages ≤ x))

/-- allocator facts that hold at every point inside a transaction -/
structure AOK (a : Alloc) : Prop where
  ascD : Asc a.data.free
  ascM : Asc a.mta.free
  dRange : ∀ x ∈ a.data.free, 2 ≤ x ∧ x < a.data.endMarker
  mOK : ∀ x ∈ a.mta.free, x ∉ a.data.free ∧ x < a.mta.endMarker ∧
    (x < a.data.endMarker ∨ (0 < a.maxPages ∧ a.maxPages ≤ x))
  ends : a.data.endMarker ≤ a.mta.endMarker ∨ a.data.endMarker ≤ 2
  dEnd : 2 ≤ a.data.endMarker
  limit : a.maxPages = 0 ∨ a.data.endMarker ≤ a.maxPages

theorem fr_regions (a : Alloc) (st : TxAlloc) (n : Nat) (a' : Alloc) (st' : TxAlloc) (ids : List Nat)
    (hok : AOK a) (h : dataAllocRegions a st n = some (a', st', ids)) :
    AOK a' ∧ (∀ x, InUse a x → InUse a' x) ∧
    (∀ x ∈ ids, ¬ InUse a x ∧ InUse a' x ∧ 2 ≤ x ∧ x < a'.data.endMarker) := by
  obtain ⟨k, rest, hk, hn, hrest, hlim, -, hids, e1, e2, e3, e4, e5, -, -, -, -⟩ :=
    dataAllocRegions_spec a st n a' st' ids h
  have htd := take_lt_drop a.data.free k hok.ascD
  have hme : a.mta.endMarker ≤ a'.mta.endMarker := by rw [e4]; split <;> omega
  have hme2 : 0 < rest → a.data.endMarker + rest ≤ a'.mta.endMarker := by
    intro hp; rw [e4]; simp only [hp, if_true]; omega
  have hends := hok.ends
  refine ⟨⟨?_, ?_, ?_, ?_, ?_, ?_, ?_⟩, ?_, ?_⟩
  · rw [e1]; exact asc_drop _ _ hok.ascD
  · rw [e3]; exact hok.ascM
  · intro x hx; rw [e1] at hx; rw [e2]
    have := hok.dRange x (List.mem_of_mem_drop hx); omega
  · intro x hx; rw [e3] at hx; rw [e1, e2, e5]
    have := hok.mOK x hx
    exact ⟨fun hd => this.1 (List.mem_of_mem_drop hd), by omega, by omega⟩
  · rw [e2]
    by_cases hp : 0 < rest
    · left; exact hme2 hp
    · have : rest = 0 := by omega
      subst this; omega
  · rw [e2]; have := hok.dEnd; omega
  · rw [e2, e5]; have := hok.limit; omega
  · intro x ⟨h1, h2, h3, h4⟩
    refine ⟨?_, by rw [e3]; exact h2, by omega, by rw [e2, e5]; omega⟩
    rw [e1]; exact fun hd => h1 (List.mem_of_mem_drop hd)
  · intro x hx
    subst hids
    rw [List.mem_append, mem_idRange] at hx
    rcases hx with hx | hx
    · have hf := List.mem_of_mem_take hx
      have hr := hok.dRange x hf
      refine ⟨fun hu => hu.1 hf, ⟨?_, ?_, by omega, by rw [e2]; omega⟩, hr.1, by rw [e2]; omega⟩
      · rw [e1]; intro hd; have := htd x hx x hd; omega
      · rw [e3]; intro hm; exact (hok.mOK x hm).1 hf
    · have hp : 0 < rest := by omega
      have := hme2 hp
      refine ⟨?_, ⟨?_, ?_, by omega, by rw [e2]; omega⟩, by have := hok.dEnd; omega, by rw [e2]; omega⟩
      · intro hu; have := hu.2.2.2; omega
      · rw [e1]; intro hd; have := hok.dRange x (List.mem_of_mem_drop hd); omega
      · rw [e3]; intro hm; have := (hok.mOK x hm).2.2; omega

theorem fr_transfer (a : Alloc) (st : TxAlloc) (ids : List Nat) (hok : AOK a) (hids : ∀ x ∈ ids, InUse a x) :
    AOK (transferToMeta a st ids).1 ∧
    ∀ x, InUse a x → x ∉ ids → InUse (transferToMeta a st ids).1 x := by
  unfold transferToMeta
  refine ⟨⟨hok.ascD, asc_unionIds _ _ hok.ascM, hok.dRange, ?_, hok.ends, hok.dEnd, hok.limit⟩, ?_⟩
  · intro x hx
    dsimp only at hx ⊢
    rw [mem_unionIds] at hx
    rcases hx with hx | hx
    · have := hids x hx; exact ⟨this.1, this.2.2.1, this.2.2.2⟩
    · exact hok.mOK x hx
  · intro x hu hx
    refine ⟨hu.1, ?_, hu.2.2.1, hu.2.2.2⟩
    dsimp only
    rw [mem_unionIds]
    exact fun h => h.elim hx hu.2.1

theorem fr_continuous (a : Alloc) (st : TxAlloc) (n : Nat) (a' : Alloc) (st' : TxAlloc) (ids : List Nat)
    (hok : AOK a) (h : dataAllocContinuous a st n = some (a', st', ids)) :
    AOK a' ∧ (∀ x, InUse a x → InUse a' x) ∧ (∀ x ∈ ids, ¬ InUse a x ∧ InUse a' x) := by
  unfold dataAllocContinuous at h
  by_cases hav : a.dataAvail < n
  · rw [if_pos hav] at h; cases h
  rw [if_neg hav] at h
  cases hc : allocContinuous a.data.free n with
  | some p =>
      obtain ⟨taken, rest⟩ := p
      rw [hc] at h
      simp only [Option.some.injEq, Prod.mk.injEq] at h
      obtain ⟨ha, -, hids⟩ := h
      subst ha hids
      obtain ⟨-, hsub, hrest, hasc⟩ := allocContinuous_spec a.data.free n hok.ascD taken rest hc
      have hends := hok.ends
      refine ⟨⟨hasc, hok.ascM, ?_, ?_, hok.ends, hok.dEnd, hok.limit⟩, ?_, ?_⟩
      · intro x hx; exact hok.dRange x ((hrest x).mp hx).1
      · intro x hx
        have := hok.mOK x hx
        exact ⟨fun hd => this.1 ((hrest x).mp hd).1, this.2⟩
      · intro x hu
        exact ⟨fun hd => hu.1 ((hrest x).mp hd).1, hu.2⟩
      · intro x hx
        have hf := hsub x hx
        have hr := hok.dRange x hf
        refine ⟨fun hu => hu.1 hf, ?_, ?_, by dsimp only; omega, Or.inl hr.2⟩
        · exact fun hd => ((hrest x).mp hd).2 hx
        · exact fun hm => (hok.mOK x hm).1 hf
  | none =>
      simp only [hc] at h
      by_cases hroom : a.maxPages > 0 ∧ (if a.data.endMarker < a.maxPages then a.maxPages - a.data.endMarker else 0) < n
      · rw [if_pos hroom] at h; cases h
      · rw [if_neg hroom] at h
        simp only [Option.some.injEq, Prod.mk.injEq] at h
        obtain ⟨ha, -, hids⟩ := h
        subst ha hids
        have hlim : a.maxPages = 0 ∨ n = 0 ∨ a.data.endMarker + n ≤ a.maxPages := by
          by_cases hm : a.maxPages = 0
          · exact Or.inl hm
          · right
            have hm' : a.maxPages > 0 := by omega
            simp only [hm', true_and] at hroom
            split at hroom <;> omega
        have hl := hok.limit
        have hd := hok.dEnd
        refine ⟨⟨?_, ?_, ?_, ?_, ?_, ?_, ?_⟩, ?_, ?_⟩
        all_goals try simp only [bumpMetaEnd_data, bumpMetaEnd_mta_free, bumpMetaEnd_mta_end, bumpMetaEnd_maxPages]
        · exact hok.ascD
        · exact hok.ascM
        · intro x hx; have := hok.dRange x hx; omega
        · intro x hx; have := hok.mOK x hx; exact ⟨this.1, by omega, by omega⟩
        · left; omega
        · omega
        · omega
        · intro x hu
          unfold InUse
          simp only [bumpMetaEnd_data, bumpMetaEnd_mta_free, bumpMetaEnd_mta_end, bumpMetaEnd_maxPages]
          exact ⟨hu.1, hu.2.1, by have := hu.2.2.1; omega, by have := hu.2.2.2; omega⟩
        · intro x hx
          rw [mem_idRange] at hx
          unfold InUse
          simp only [bumpMetaEnd_data, bumpMetaEnd_mta_free, bumpMetaEnd_mta_end, bumpMetaEnd_maxPages]
          refine ⟨fun hu => by have := hu.2.2.2; omega, ?_, ?_, by omega, by omega⟩
          · intro hf; have := hok.dRange x hf; omega
          · intro hm; have := (hok.mOK x hm).2.2; omega

theorem fr_ovStep (a : Alloc) (st : TxAlloc) (req : Nat) (hok : AOK a)
    (hfull : a.maxPages = 0 ∨ a.data.endMarker = a.maxPages) :
    AOK (ovStep a st req).1 ∧ ∀ x, InUse a x → InUse (ovStep a st req).1 x := by
  have e1 : (ovStep a st req).1.maxPages = a.maxPages := by unfold ovStep; dsimp only; split <;> rfl
  have e5 : (ovStep a st req).1.data.free = a.data.free := by unfold ovStep; dsimp only; split <;> rfl
  have e6 : (ovStep a st req).1.mta.free = unionIds (idRange a.mta.endMarker req) a.mta.free := by
    unfold ovStep; dsimp only; split <;> rfl
  have e7 : (ovStep a st req).1.mta.endMarker = a.mta.endMarker + req := by
    unfold ovStep; dsimp only; split <;> rfl
  have e8 : (ovStep a st req).1.data.endMarker =
      if a.maxPages = 0 ∧ a.data.endMarker < a.mta.endMarker + req then a.mta.endMarker + req
      else a.data.endMarker := by
    unfold ovStep; dsimp only; split <;> rfl
  have hge : a.data.endMarker ≤ (ovStep a st req).1.data.endMarker := by rw [e8]; split <;> omega
  have hends := hok.ends
  have hd := hok.dEnd
  have hl := hok.limit
  refine ⟨⟨?_, ?_, ?_, ?_, ?_, ?_, ?_⟩, ?_⟩
  · rw [e5]; exact hok.ascD
  · rw [e6]; exact asc_unionIds _ _ hok.ascM
  · intro x hx; rw [e5] at hx; have := hok.dRange x hx; omega
  · intro x hx
    rw [e6, mem_unionIds, mem_idRange] at hx
    rw [e5, e7, e1]
    rcases hx with hx | hx
    · refine ⟨?_, hx.2, ?_⟩
      · intro hf; have := hok.dRange x hf; omega
      · rw [e8]; split <;> omega
    · have := hok.mOK x hx
      exact ⟨this.1, by omega, by omega⟩
  · rw [e7, e8]; split <;> omega
  · omega
  · rw [e1, e8]; split <;> omega
  · intro x hu
    refine ⟨by rw [e5]; exact hu.1, ?_, by rw [e7]; have := hu.2.2.1; omega, by rw [e1]; have := hu.2.2.2; omega⟩
    rw [e6, mem_unionIds, mem_idRange]
    intro h
    rcases h with h | h
    · have := hu.2.2.1; omega
    · exact hu.2.1 h

theorem regions_all_full (a : Alloc) (st : TxAlloc) (a1 : Alloc) (st1 : TxAlloc) (ids : List Nat) (hok : AOK a)
    (h : dataAllocRegions a st a.dataAvail = some (a1, st1, ids)) :
    a1.maxPages = 0 ∨ a1.data.endMarker = a1.maxPages := by
  obtain ⟨k, rest, hk, hn, hrest, hlim, -, -, -, e2, -, -, e5, -⟩ := dataAllocRegions_spec a st _ a1 st1 ids h
  rw [e2, e5]
  have hl := hok.limit
  by_cases hm : a.maxPages = 0
  · exact Or.inl hm
  · right
    unfold Alloc.dataAvail at hn
    simp only [hm, if_false] at hn
    split at hn <;> omega

theorem fr_tryGrow (a : Alloc) (st : TxAlloc) (count : Nat) (wo : Bool) (a' : Alloc) (st' : TxAlloc)
    (hok : AOK a) (hr : tryGrow a st count wo = some (a', st')) :
    AOK a' ∧ ∀ x, InUse a x → InUse a' x := by
  unfold tryGrow at hr
  dsimp only at hr
  by_cases hc0 : count = 0
  · rw [if_pos hc0] at hr
    simp only [Option.some.injEq, Prod.mk.injEq] at hr
    obtain ⟨ha, -⟩ := hr
    subst ha
    exact ⟨hok, fun _ h => h⟩
  · rw [if_neg hc0] at hr
    by_cases hav : a.dataAvail < count
    · rw [if_pos hav] at hr
      cases hwo : wo with
      | false => rw [hwo] at hr; simp at hr
      | true =>
        rw [hwo] at hr
        simp only [Bool.not_true, Bool.false_eq_true, if_false] at hr
        cases hreg : dataAllocRegions a st a.dataAvail with
        | none => rw [hreg] at hr; cases hr
        | some p =>
          obtain ⟨a1, st1, ids⟩ := p
          rw [hreg] at hr
          obtain ⟨hok1, hk1, hids⟩ := fr_regions a st _ a1 st1 ids hok hreg
          have hfull := regions_all_full a st a1 st1 ids hok hreg
          have h2 : AOK (if ids.isEmpty then (a1, st1) else transferToMeta a1 st1 ids).1 ∧
              (∀ x, InUse a x → InUse (if ids.isEmpty then (a1, st1) else transferToMeta a1 st1 ids).1 x) ∧
              ((if ids.isEmpty then (a1, st1) else transferToMeta a1 st1 ids).1.maxPages = 0 ∨
               (if ids.isEmpty then (a1, st1) else transferToMeta a1 st1 ids).1.data.endMarker =
               (if ids.isEmpty then (a1, st1) else transferToMeta a1 st1 ids).1.maxPages) := by
            split
            · exact ⟨hok1, hk1, hfull⟩
            · obtain ⟨t1, t2⟩ := fr_transfer a1 st1 ids hok1 (fun x hx => (hids x hx).2.1)
              exact ⟨t1, fun x hu => t2 x (hk1 x hu) (fun hx => (hids x hx).1 hu), hfull⟩
          obtain ⟨o1, o2⟩ := fr_ovStep _ (if ids.isEmpty then (a1, st1) else transferToMeta a1 st1 ids).2
            (count - a.dataAvail) h2.1 h2.2.2
          simp only [Option.some.injEq, Prod.mk.injEq] at hr
          obtain ⟨ha, -⟩ := hr
          rw [← ha]
          exact ⟨o1, fun x hu => o2 x (h2.2.1 x hu)⟩
    · rw [if_neg hav] at hr
      cases hcont : dataAllocContinuous a st count with
      | some p =>
        obtain ⟨a1, st1, ids⟩ := p
        rw [hcont] at hr
        simp only [Option.some.injEq] at hr
        obtain ⟨hok1, hk1, hids⟩ := fr_continuous a st count a1 st1 ids hok hcont
        obtain ⟨t1, t2⟩ := fr_transfer a1 st1 ids hok1 (fun x hx => (hids x hx).2)
        rw [hr] at t1 t2
        exact ⟨t1, fun x hu => t2 x (hk1 x hu) (fun hx => (hids x hx).1 hu)⟩
      | none =>
        rw [hcont] at hr
        cases hreg : dataAllocRegions a st count with
        | none => rw [hreg] at hr; cases hr
        | some p =>
          obtain ⟨a1, st1, ids⟩ := p
          rw [hreg] at hr
          simp only [Option.some.injEq] at hr
          obtain ⟨hok1, hk1, hids⟩ := fr_regions a st _ a1 st1 ids hok hreg
          obtain ⟨t1, t2⟩ := fr_transfer a1 st1 ids hok1 (fun x hx => (hids x hx).2.1)
          rw [hr] at t1 t2
          exact ⟨t1, fun x hu => t2 x (hk1 x hu) (fun hx => (hids x hx).1 hu)⟩

theorem fr_ensureMeta (a : Alloc) (st : TxAlloc) (n : Nat) (a' : Alloc) (st' : TxAlloc)
    (hok : AOK a) (hr : ensureMeta a st n = some (a', st')) :
    AOK a' ∧ ∀ x, InUse a x → InUse a' x := by
  unfold ensureMeta at hr
  dsimp only at hr
  split at hr
  · simp only [Option.some.injEq, Prod.mk.injEq] at hr
    obtain ⟨ha, -⟩ := hr
    subst ha
    exact ⟨hok, fun _ h => h⟩
  · split at hr
    · rename_i r hg
      simp only [Option.some.injEq] at hr
      subst hr
      exact fr_tryGrow a st _ _ a' st' hok hg
    · exact fr_tryGrow a st _ _ a' st' hok hr

/-- taking pages out of the meta free list -/
theorem fr_metaTake (a : Alloc) (ids rest : List Nat) (hok : AOK a) (hasc : Asc rest)
    (hmem : ∀ x, x ∈ a.mta.free ↔ x ∈ ids ∨ x ∈ rest) (hdisj : ∀ x ∈ ids, x ∉ rest) :
    AOK { a with mta := { a.mta with free := rest } } ∧
    (∀ x, InUse a x → InUse { a with mta := { a.mta with free := rest } } x) ∧
    (∀ x ∈ ids, ¬ InUse a x ∧ InUse { a with mta := { a.mta with free := rest } } x) := by
  refine ⟨⟨hok.ascD, hasc, hok.dRange, ?_, hok.ends, hok.dEnd, hok.limit⟩, ?_, ?_⟩
  · intro x hx; exact hok.mOK x ((hmem x).mpr (Or.inr hx))
  · intro x hu
    exact ⟨hu.1, fun h => hu.2.1 ((hmem x).mpr (Or.inr h)), hu.2.2⟩
  · intro x hx
    have hf := (hmem x).mpr (Or.inl hx)
    have := hok.mOK x hf
    exact ⟨fun hu => hu.2.1 hf, this.1, hdisj x hx, this.2⟩

theorem fr_walAlloc (a : Alloc) (st : TxAlloc) (a' : Alloc) (st' : TxAlloc) (w : Nat)
    (hok : AOK a) (hr : walAlloc a st = some (a', st', w)) :
    AOK a' ∧ (∀ x, InUse a x → InUse a' x) ∧ ¬ InUse a w ∧ InUse a' w := by
  unfold walAlloc at hr
  split at hr
  · cases hr
  · rename_i a1 st1 he
    obtain ⟨hok1, hk1⟩ := fr_ensureMeta a st 1 a1 st1 hok he
    split at hr
    · rename_i id' rest hc
      simp only [Option.some.injEq, Prod.mk.injEq] at hr
      obtain ⟨ha, -, hw⟩ := hr
      subst ha hw
      obtain ⟨-, hsub, hrest, hasc⟩ := allocContinuous_spec a1.mta.free 1 hok1.ascM [id'] rest hc
      obtain ⟨t1, t2, t3⟩ := fr_metaTake a1 [id'] rest hok1 hasc (by
        intro x
        have h1 := hrest x
        have h2 := hsub x
        grind) (by intro x hx hr; exact ((hrest x).mp hr).2 hx)
      have t4 := t3 id' (by simp)
      exact ⟨t1, fun x hu => t2 x (hk1 x hu), fun hu => t4.1 (hk1 _ hu), t4.2⟩
    · cases hr

theorem fr_metaAllocRegions (a : Alloc) (st : TxAlloc) (n : Nat) (a' : Alloc) (st' : TxAlloc) (ids : List Nat)
    (hok : AOK a) (hr : metaAllocRegions a st n = some (a', st', ids)) :
    AOK a' ∧ (∀ x, InUse a x → InUse a' x) ∧ (∀ x ∈ ids, ¬ InUse a x ∧ InUse a' x) ∧ ids.Nodup := by
  unfold metaAllocRegions at hr
  split at hr
  · cases hr
  · rename_i a1 st1 he
    obtain ⟨hok1, hk1⟩ := fr_ensureMeta a st n a1 st1 hok he
    dsimp only at hr
    split at hr
    · cases hr
    · simp only [Option.some.injEq, Prod.mk.injEq] at hr
      obtain ⟨ha, -, hids⟩ := hr
      subst ha hids
      obtain ⟨t1, t2, t3⟩ := fr_metaTake a1 (a1.mta.free.drop (a1.mta.free.length - min n a1.mta.free.length))
        (a1.mta.free.take (a1.mta.free.length - min n a1.mta.free.length)) hok1 (asc_take _ _ hok1.ascM) (by
        intro x
        have := mem_take_or_drop a1.mta.free (a1.mta.free.length - min n a1.mta.free.length) x
        grind) (by
        intro x hx hx2
        exact take_drop_disjoint _ _ hok1.ascM x hx2 hx)
      exact ⟨t1, fun x hu => t2 x (hk1 x hu), fun x hx => ⟨fun hu => (t3 x hx).1 (hk1 x hu), (t3 x hx).2⟩,
        asc_nodup _ (asc_drop _ _ hok1.ascM)⟩

theorem fr_shrink (a : Alloc) (e0 m0 s c : Nat) (hok : AOK a) (he0 : e0 ≤ a.data.endMarker)
    (hl : lastRun a.data.free = some (s, c)) (he : ¬ s + c < a.data.endMarker) :
    AOK { a with
        data := { endMarker := if e0 > s then e0 else s,
                  free := removeRange a.data.free (if e0 > s then e0 else s) (s + c) },
        mta := { a.mta with
                 endMarker := if a.mta.endMarker = a.data.endMarker then max (if e0 > s then e0 else s) m0
                              else a.mta.endMarker } } ∧
    ∀ x, InUse a x → InUse { a with
        data := { endMarker := if e0 > s then e0 else s,
                  free := removeRange a.data.free (if e0 > s then e0 else s) (s + c) },
        mta := { a.mta with
                 endMarker := if a.mta.endMarker = a.data.endMarker then max (if e0 > s then e0 else s) m0
                              else a.mta.endMarker } } x := by
  obtain ⟨hc, hrun⟩ := lastRun_spec a.data.free hok.ascD s c hl
  have hs : s ∈ a.data.free := hrun s (Nat.le_refl _) (by omega)
  have hsr := hok.dRange s hs
  generalize hstart : (if e0 > s then e0 else s) = start
  have hst2 : s ≤ start := by rw [← hstart]; split <;> omega
  have hst3 : start ≤ a.data.endMarker := by rw [← hstart]; split <;> omega
  have hends := hok.ends
  have hl := hok.limit
  -- a page below the old end marker that is not free lies below the new end marker
  have key : ∀ x, x < a.data.endMarker → x ∉ a.data.free → x < start := by
    intro x h1 h2
    by_cases hx : s ≤ x
    · exact absurd (hrun x hx (by omega)) h2
    · omega
  refine ⟨⟨asc_removeRange _ _ _ hok.ascD, hok.ascM, ?_, ?_, ?_, ?_, ?_⟩, ?_⟩
  all_goals dsimp only
  · intro x hx
    rw [mem_removeRange] at hx
    have := hok.dRange x hx.1
    omega
  · intro x hx
    have h1 := hok.mOK x hx
    refine ⟨fun hr => h1.1 ((mem_removeRange _ _ _ _).mp hr).1, ?_, ?_⟩
    · split
      · rename_i heq
        have : x < start := key x (by omega) h1.1
        omega
      · exact h1.2.1
    · rcases h1.2.2 with h | h
      · exact Or.inl (key x h h1.1)
      · exact Or.inr h
  · split <;> omega
  · omega
  · omega
  · intro x hu
    refine ⟨fun hr => hu.1 ((mem_removeRange _ _ _ _).mp hr).1, hu.2.1, ?_, ?_⟩
    all_goals dsimp only
    · split
      · rename_i heq
        have : x < start := key x (by have := hu.2.2.1; omega) hu.1
        omega
      · exact hu.2.2.1
    · rcases hu.2.2.2 with h | h
      · exact Or.inl (key x h hu.1)
      · exact Or.inr h

theorem fr_freeInsert (a : Alloc) (id : Nat) (hok : AOK a) (hu : InUse a id) (h2 : 2 ≤ id)
    (hlt : id < a.data.endMarker) :
    AOK { a with data := { a.data with free := insertId id a.data.free } } ∧
    ∀ x, InUse a x → x ≠ id → InUse { a with data := { a.data with free := insertId id a.data.free } } x := by
  refine ⟨⟨asc_insertId _ _ hok.ascD, hok.ascM, ?_, ?_, hok.ends, hok.dEnd, hok.limit⟩, ?_⟩
  · intro x hx
    rcases (mem_insertId id x _).mp hx with e | e
    · subst e; exact ⟨h2, hlt⟩
    · exact hok.dRange x e
  · intro x hx
    have h1 := hok.mOK x hx
    refine ⟨?_, h1.2⟩
    intro hi
    rcases (mem_insertId id x _).mp hi with e | e
    · subst e; exact hu.2.1 hx
    · exact h1.1 e
  · intro x hx hne
    refine ⟨?_, hx.2⟩
    intro hi
    rcases (mem_insertId id x _).mp hi with e | e
    · exact hne e
    · exact hx.1 e

theorem fr_dataFree (a : Alloc) (st : TxAlloc) (id : Nat) (hok : AOK a) (hu : InUse a id) (h2 : 2 ≤ id)
    (hlt : id < a.data.endMarker) (he0 : st.data.end0 ≤ a.data.endMarker) :
    AOK (dataFree a st id).1 ∧ ∀ x, InUse a x → x ≠ id → InUse (dataFree a st id).1 x := by
  rw [dataFree_eq]
  unfold dataFreeCore
  dsimp only
  obtain ⟨hi1, hi2⟩ := fr_freeInsert a id hok hu h2 hlt
  split
  · exact ⟨hok, fun x h _ => h⟩
  · split
    · exact ⟨hi1, hi2⟩
    · split
      · exact ⟨hi1, hi2⟩
      · rename_i s c hl
        split
        · exact ⟨hi1, hi2⟩
        · rename_i hne
          obtain ⟨s1, s2⟩ := fr_shrink _ st.data.end0 st.mta.end0 s c hi1 he0 hl hne
          exact ⟨s1, fun x hx hn => s2 x (hi2 x hx hn)⟩

/-! ### the allocator without use of the overflow area -/

/-- additional allocator facts that hold as long as the overflow area is not used -/
structure AOK2 (a : Alloc) : Prop where
  noOv : a.maxPages = 0 ∨ a.mta.endMarker ≤ a.maxPages
  ends : a.data.endMarker ≤ a.mta.endMarker ∨ a.data.endMarker ≤ 2
  mGe2 : ∀ x ∈ a.mta.free, 2 ≤ x

theorem a2_regions (a : Alloc) (st : TxAlloc) (n : Nat) (a' : Alloc) (st' : TxAlloc) (ids : List Nat)
    (h2 : AOK2 a) (h : dataAllocRegions a st n = some (a', st', ids)) : AOK2 a' := by
  obtain ⟨k, rest, hk, hn, hrest, hlim, -, hids, e1, e2, e3, e4, e5, -, -, -, -⟩ :=
    dataAllocRegions_spec a st n a' st' ids h
  have := h2.noOv
  have := h2.ends
  refine ⟨?_, ?_, by rw [e3]; exact h2.mGe2⟩
  · rw [e4, e5]; split <;> omega
  · rw [e2, e4]; split <;> omega

theorem a2_transfer (a : Alloc) (st : TxAlloc) (ids : List Nat) (h2 : AOK2 a) (hids : ∀ x ∈ ids, 2 ≤ x) :
    AOK2 (transferToMeta a st ids).1 := by
  unfold transferToMeta
  refine ⟨h2.noOv, h2.ends, ?_⟩
  intro x hx
  dsimp only at hx
  rw [mem_unionIds] at hx
  rcases hx with hx | hx
  · exact hids x hx
  · exact h2.mGe2 x hx

theorem a2_continuous (a : Alloc) (st : TxAlloc) (n : Nat) (a' : Alloc) (st' : TxAlloc) (ids : List Nat)
    (hok : AOK a) (h2 : AOK2 a) (h : dataAllocContinuous a st n = some (a', st', ids)) :
    AOK2 a' ∧ ∀ x ∈ ids, 2 ≤ x := by
  unfold dataAllocContinuous at h
  by_cases hav : a.dataAvail < n
  · rw [if_pos hav] at h; cases h
  rw [if_neg hav] at h
  cases hc : allocContinuous a.data.free n with
  | some p =>
      obtain ⟨taken, rest⟩ := p
      rw [hc] at h
      simp only [Option.some.injEq, Prod.mk.injEq] at h
      obtain ⟨ha, -, hids⟩ := h
      subst ha hids
      obtain ⟨-, hsub, -, -⟩ := allocContinuous_spec a.data.free n hok.ascD taken rest hc
      exact ⟨⟨h2.noOv, h2.ends, h2.mGe2⟩, fun x hx => (hok.dRange x (hsub x hx)).1⟩
  | none =>
      simp only [hc] at h
      by_cases hroom : a.maxPages > 0 ∧ (if a.data.endMarker < a.maxPages then a.maxPages - a.data.endMarker else 0) < n
      · rw [if_pos hroom] at h; cases h
      · rw [if_neg hroom] at h
        simp only [Option.some.injEq, Prod.mk.injEq] at h
        obtain ⟨ha, -, hids⟩ := h
        subst ha hids
        have hlim : a.maxPages = 0 ∨ n = 0 ∨ a.data.endMarker + n ≤ a.maxPages := by
          by_cases hm : a.maxPages = 0
          · exact Or.inl hm
          · right
            have hm' : a.maxPages > 0 := by omega
            simp only [hm', true_and] at hroom
            split at hroom <;> omega
        have := h2.noOv
        have := h2.ends
        have := hok.dEnd
        have := hok.limit
        refine ⟨⟨?_, ?_, ?_⟩, ?_⟩
        all_goals try simp only [bumpMetaEnd_data, bumpMetaEnd_mta_free, bumpMetaEnd_mta_end, bumpMetaEnd_maxPages]
        · omega
        · omega
        · exact h2.mGe2
        · intro x hx; rw [mem_idRange] at hx; omega

theorem a2_tryGrow (a : Alloc) (st : TxAlloc) (count : Nat) (a' : Alloc) (st' : TxAlloc)
    (hok : AOK a) (h2 : AOK2 a) (hr : tryGrow a st count false = some (a', st')) : AOK2 a' := by
  unfold tryGrow at hr
  dsimp only at hr
  by_cases hc0 : count = 0
  · rw [if_pos hc0] at hr
    simp only [Option.some.injEq, Prod.mk.injEq] at hr
    obtain ⟨ha, -⟩ := hr
    subst ha; exact h2
  · rw [if_neg hc0] at hr
    by_cases hav : a.dataAvail < count
    · rw [if_pos hav] at hr; simp at hr
    · rw [if_neg hav] at hr
      cases hcont : dataAllocContinuous a st count with
      | some p =>
        obtain ⟨a1, st1, ids⟩ := p
        rw [hcont] at hr
        simp only [Option.some.injEq] at hr
        obtain ⟨c1, c2⟩ := a2_continuous a st count a1 st1 ids hok h2 hcont
        have := a2_transfer a1 st1 ids c1 c2
        rw [hr] at this; exact this
      | none =>
        rw [hcont] at hr
        cases hreg : dataAllocRegions a st count with
        | none => rw [hreg] at hr; cases hr
        | some p =>
          obtain ⟨a1, st1, ids⟩ := p
          rw [hreg] at hr
          simp only [Option.some.injEq] at hr
          have c1 := a2_regions a st count a1 st1 ids h2 hreg
          have c2 := (fr_regions a st count a1 st1 ids hok hreg).2.2
          have := a2_transfer a1 st1 ids c1 (fun x hx => (c2 x hx).2.2.1)
          rw [hr] at this; exact this

theorem a2_ensureMeta (a : Alloc) (st : TxAlloc) (n : Nat) (a' : Alloc) (st' : TxAlloc)
    (hok : AOK a) (h2 : AOK2 a) (hov : st.overflow = false) (hr : ensureMeta a st n = some (a', st')) :
    AOK2 a' := by
  unfold ensureMeta at hr
  dsimp only at hr
  split at hr
  · simp only [Option.some.injEq, Prod.mk.injEq] at hr
    obtain ⟨ha, -⟩ := hr
    subst ha; exact h2
  · split at hr
    · rename_i r hg
      simp only [Option.some.injEq] at hr
      subst hr
      exact a2_tryGrow a st _ a' st' hok h2 hg
    · rw [hov] at hr
      exact a2_tryGrow a st _ a' st' hok h2 hr

theorem a2_walAlloc (a : Alloc) (st : TxAlloc) (a' : Alloc) (st' : TxAlloc) (w : Nat)
    (hok : AOK a) (h2 : AOK2 a) (hov : st.overflow = false) (hr : walAlloc a st = some (a', st', w)) :
    AOK2 a' ∧ 2 ≤ w := by
  unfold walAlloc at hr
  split at hr
  · cases hr
  · rename_i a1 st1 he
    have c1 := a2_ensureMeta a st 1 a1 st1 hok h2 hov he
    have hok1 := (fr_ensureMeta a st 1 a1 st1 hok he).1
    split at hr
    · rename_i id' rest hc
      simp only [Option.some.injEq, Prod.mk.injEq] at hr
      obtain ⟨ha, -, hw⟩ := hr
      subst ha hw
      obtain ⟨-, hsub, hrest, -⟩ := allocContinuous_spec a1.mta.free 1 hok1.ascM [id'] rest hc
      exact ⟨⟨c1.noOv, c1.ends, fun x hx => c1.mGe2 x ((hrest x).mp hx).1⟩, c1.mGe2 id' (hsub id' (by simp))⟩
    · cases hr

theorem a2_metaAllocRegions (a : Alloc) (st : TxAlloc) (n : Nat) (a' : Alloc) (st' : TxAlloc) (ids : List Nat)
    (hok : AOK a) (h2 : AOK2 a) (hov : st.overflow = false) (hr : metaAllocRegions a st n = some (a', st', ids)) :
    AOK2 a' ∧ ∀ x ∈ ids, 2 ≤ x := by
  unfold metaAllocRegions at hr
  split at hr
  · cases hr
  · rename_i a1 st1 he
    have c1 := a2_ensureMeta a st n a1 st1 hok h2 hov he
    dsimp only at hr
    split at hr
    · cases hr
    · simp only [Option.some.injEq, Prod.mk.injEq] at hr
      obtain ⟨ha, -, hids⟩ := hr
      subst ha hids
      exact ⟨⟨c1.noOv, c1.ends, fun x hx => c1.mGe2 x (List.mem_of_mem_take hx)⟩,
        fun x hx => c1.mGe2 x (List.mem_of_mem_drop hx)⟩

theorem a2_dataFree (a : Alloc) (st : TxAlloc) (id : Nat) (hok : AOK a) (h2 : AOK2 a) (hu : InUse a id)
    (hid2 : 2 ≤ id) (hlt : id < a.data.endMarker)
    (he0 : st.data.end0 ≤ a.data.endMarker) (hm0 : a.maxPages = 0 ∨ st.mta.end0 ≤ a.maxPages) :
    AOK2 (dataFree a st id).1 := by
  rw [dataFree_eq]
  unfold dataFreeCore
  dsimp only
  have base : AOK2 { a with data := { a.data with free := insertId id a.data.free } } :=
    ⟨h2.noOv, h2.ends, h2.mGe2⟩
  split
  · exact h2
  · split
    · exact base
    · split
      · exact base
      · rename_i s c hl
        split
        · exact base
        · rename_i hne
          have hok1 := (fr_freeInsert a id hok hu hid2 hlt).1
          obtain ⟨hc, hrun⟩ := lastRun_spec _ hok1.ascD s c hl
          have hs := hok1.dRange s (hrun s (Nat.le_refl _) (by omega))
          have := h2.noOv
          have := h2.ends
          have := hok.limit
          dsimp only at hs hne ⊢
          refine ⟨?_, ?_, h2.mGe2⟩
          all_goals dsimp only
          · split <;> (try split) <;> omega
          · split <;> (try split) <;> omega

/-! ### the invariants -/

/-- the internal pages of a committed state: overwrite pages, pages of the serialised mapping and free lists -/
def FileSt.internal (f : FileSt) : List Nat := f.walMap.map (·.2) ++ f.walPages ++ f.alloc.freelistPages

/-- invariant of a committed state; `live` are the data pages the client owns -/
structure EngInv (f : FileSt) (live : List Nat) : Prop where
  wf : WF f.alloc
  -- second alternative: a file created without a meta area (`initMeta = 0`) before its first allocation
  ends : f.alloc.data.endMarker ≤ f.alloc.mta.endMarker ∨ f.alloc.data.endMarker ≤ 2
  keys : AscKeys f.walMap
  liveOk : ∀ id ∈ live, 2 ≤ id ∧ id < f.alloc.data.endMarker ∧ InUse f.alloc id
  mapKey : ∀ k w, Assoc.get? f.walMap k = some w → k ∈ live
  mapInj : ∀ k1 k2 w, Assoc.get? f.walMap k1 = some w → Assoc.get? f.walMap k2 = some w → k1 = k2
  intOk : ∀ x ∈ f.internal, 2 ≤ x ∧ InUse f.alloc x ∧ x ∉ live
  intNodup : f.internal.Nodup
  total : f.alloc.mta.free.length + f.internal.length ≤ f.alloc.metaTotal
  noOv : f.alloc.maxPages = 0 ∨ f.alloc.mta.endMarker ≤ f.alloc.maxPages

/-- the physical page a page id will be read from if the transaction commits now -/
def tgt (f0 : FileSt) (tx : TxSt) (id : Nat) : Nat :=
  match Assoc.get? tx.walNew id with
  | some w => w
  | none => if id ∈ tx.walFree then id else f0.physOf id

structure PageOK (f0 : FileSt) (live : List Nat) (f : FileSt) (tx : TxSt) (cur : List Nat) (k : Nat)
    (p : PageSt) : Prop where
  id : p.id = k
  freedClean : p.freed = true → p.dirty = false
  flDirty : p.flushed = true → p.dirty = true ∧ p.freed = false
  inCur : p.freed = false → k ∈ cur
  newOk : p.freed = false → p.new_ = true → p.ondisk = k ∧ ¬ InUse f0.alloc k ∧ tgt f0 tx k = k
  oldOk : p.freed = false → p.new_ = false → k ∈ live
  unfl : p.freed = false → p.new_ = false → p.flushed = false →
    p.ondisk = f0.physOf k ∧ Assoc.get? tx.walNew k = none
  fl : p.flushed = true → p.ondisk = tgt f0 tx k ∧ f.diskAt (tgt f0 tx k) = p.bytes.getD {} ∧
    (p.new_ = false → tgt f0 tx k ≠ f0.physOf k)
  dirtyB : p.dirty = true → p.bytes.isSome = true
  cleanOld : p.freed = false → p.new_ = false → p.dirty = false →
    (∀ b, p.bytes = some b → b = f0.readPage k) ∧ f.diskAt (tgt f0 tx k) = f0.readPage k
  cleanNew : p.new_ = true → p.dirty = false → p.bytes.getD {} = {}
  cachedB : p.cached = true → p.bytes.isSome = true
  notCur : p.freed = true → k ∉ cur

/-- invariant inside a write transaction that began in the committed state `f0` -/
structure TxInv (f0 : FileSt) (live : List Nat) (f : FileSt) (tx : TxSt) (cur : List Nat) : Prop where
  sameMap : f.walMap = f0.walMap
  sameWP : f.walPages = f0.walPages
  inv : Inv f0.alloc f.alloc tx.ta
  aok : AOK f.alloc
  keep : ∀ x, InUse f0.alloc x → InUse f.alloc x
  newKeys : AscKeys tx.walNew
  r0 : ∀ id ∈ live, f.diskAt (f0.physOf id) = f0.diskAt (f0.physOf id)
  pg : ∀ k p, Assoc.get? tx.pages k = some p → PageOK f0 live f tx cur k p
  curOk : ∀ k ∈ cur, 2 ≤ k ∧ (f0.alloc.maxPages = 0 ∨ k < f0.alloc.maxPages) ∧ InUse f.alloc k ∧
    (k ∈ live ∨ ¬ InUse f0.alloc k)
  curNone : ∀ k ∈ cur, Assoc.get? tx.pages k = none → k ∈ live ∧ f.diskAt (tgt f0 tx k) = f0.readPage k
  wn : ∀ k w, Assoc.get? tx.walNew k = some w →
    ¬ InUse f0.alloc w ∧ w ∈ tx.ta.mta.allocated ∧ k ∈ live ∧ Assoc.get? f0.walMap k = none ∧
    ∃ p, Assoc.get? tx.pages k = some p ∧ p.flushed = true
  wnInj : ∀ k1 k2 w, Assoc.get? tx.walNew k1 = some w → Assoc.get? tx.walNew k2 = some w → k1 = k2
  wfree : ∀ k ∈ tx.walFree, ∃ w, Assoc.get? f0.walMap k = some w
  ck : tx.checkpoint = true → ∀ k w, Assoc.get? f0.walMap k = some w →
    k ∈ tx.walFree ∨ ∃ p, Assoc.get? tx.pages k = some p ∧ p.dirty = true ∧ p.flushed = false
  dfreed : ∀ x ∈ tx.ta.data.freed, x ∉ cur ∧ 2 ≤ x ∧ (f0.alloc.maxPages = 0 ∨ x < f0.alloc.maxPages) ∧
    InUse f.alloc x ∧ (x ∈ live ∨ ¬ InUse f0.alloc x) ∧ x ∉ tx.ta.mta.allocated
  mfreed : ∀ x ∈ tx.ta.mta.freed, ∃ k, Assoc.get? f0.walMap k = some x ∧ k ∈ tx.walFree
  mfAsc : Asc tx.ta.mta.freed
  mAlloc : Asc tx.ta.mta.allocated ∧ ∀ x ∈ tx.ta.mta.allocated, InUse f.alloc x ∧ ¬ InUse f0.alloc x ∧ x ∉ cur
  ov2 : tx.ta.overflow = false → AOK2 f.alloc ∧ ∀ x ∈ tx.ta.mta.allocated, 2 ≤ x
  gone : ∀ k ∈ live, k ∉ cur → ∀ w, Assoc.get? f0.walMap k = some w → k ∈ tx.walFree

/-! ### consequences of `EngInv` -/

theorem eng_aok (f : FileSt) (live : List Nat) (h : EngInv f live) : AOK f.alloc :=
  ⟨h.wf.ascData, h.wf.ascMeta, h.wf.dataRange,
    fun x hx => ⟨fun hd => h.wf.disj x hd hx, (h.wf.metaRange x hx).2⟩, h.ends, h.wf.dataEnd, h.wf.limit⟩

theorem eng_val (f : FileSt) (live : List Nat) (h : EngInv f live) (k w : Nat)
    (hk : Assoc.get? f.walMap k = some w) : 2 ≤ w ∧ InUse f.alloc w ∧ w ∉ live := by
  apply h.intOk
  unfold FileSt.internal
  rw [List.mem_append, List.mem_append, List.mem_map]
  exact Or.inl (Or.inl ⟨(k, w), Assoc.mem_of_get? _ _ _ hk, rfl⟩)

theorem physOf_none (f : FileSt) (k : Nat) (h : Assoc.get? f.walMap k = none) : f.physOf k = k := by
  simp [FileSt.physOf, h]

theorem physOf_some (f : FileSt) (k w : Nat) (h : Assoc.get? f.walMap k = some w) : f.physOf k = w := by
  simp [FileSt.physOf, h]

/-- the physical page of a live page is in use; it is a live page only if it is the page itself -/
theorem eng_phys (f : FileSt) (live : List Nat) (h : EngInv f live) (k : Nat) (hk : k ∈ live) :
    InUse f.alloc (f.physOf k) ∧ (f.physOf k ∈ live → f.physOf k = k) := by
  cases hg : Assoc.get? f.walMap k with
  | none => rw [physOf_none f k hg]; exact ⟨(h.liveOk k hk).2.2, fun _ => rfl⟩
  | some w =>
    rw [physOf_some f k w hg]
    have := eng_val f live h k w hg
    exact ⟨this.2.1, fun hl => absurd hl this.2.2⟩

/-- `physOf` is injective on the live pages -/
theorem eng_phys_inj (f : FileSt) (live : List Nat) (h : EngInv f live) (k j : Nat) (hk : k ∈ live) (hj : j ∈ live)
    (he : f.physOf k = f.physOf j) : k = j := by
  cases hg : Assoc.get? f.walMap k with
  | none =>
    rw [physOf_none f k hg] at he
    have := (eng_phys f live h j hj).2 (he ▸ hk)
    omega
  | some w =>
    rw [physOf_some f k w hg] at he
    cases hg2 : Assoc.get? f.walMap j with
    | none =>
      rw [physOf_none f j hg2] at he
      exact absurd (he ▸ hj) (eng_val f live h k w hg).2.2
    | some w2 =>
      rw [physOf_some f j w2 hg2] at he
      subst he
      exact h.mapInj k j w hg hg2

theorem tgt_begin (f : FileSt) (ov : Bool) (g wl k : Nat) : tgt f (f.beginTx ov g wl) k = f.physOf k := by
  simp [tgt, FileSt.beginTx, Assoc.get?]

theorem txinv_begin (f : FileSt) (live : List Nat) (h : EngInv f live) (ov : Bool) (g wl : Nat) :
    TxInv f live f (f.beginTx ov g wl) live := by
  refine ⟨rfl, rfl, inv_init f.alloc h.wf ov g, eng_aok f live h, fun _ hx => hx, ?_, fun _ _ => rfl, ?_, ?_, ?_,
    ?_, ?_, ?_, ?_, ?_, ?_, ?_, ?_, ?_, ?_⟩
  · simp [FileSt.beginTx, AscKeys]
  · intro k p hp; simp [FileSt.beginTx, Assoc.get?] at hp
  · intro k hk
    have := h.liveOk k hk
    have hl := h.wf.limit
    exact ⟨this.1, by omega, this.2.2, Or.inl hk⟩
  · intro k hk _
    rw [tgt_begin]
    exact ⟨hk, rfl⟩
  · intro k w hk; simp [FileSt.beginTx, Assoc.get?] at hk
  · intro k1 k2 w hk; simp [FileSt.beginTx, Assoc.get?] at hk
  · intro k hk; simp [FileSt.beginTx] at hk
  · intro hc; simp [FileSt.beginTx] at hc
  · intro x hx; simp [FileSt.beginTx, Alloc.beginTx] at hx
  · intro x hx; simp [FileSt.beginTx, Alloc.beginTx] at hx
  · simp [FileSt.beginTx, Alloc.beginTx, asc_nil]
  · simp [FileSt.beginTx, Alloc.beginTx, asc_nil]
  · intro _
    exact ⟨⟨h.noOv, h.ends, fun x hx => (h.wf.metaRange x hx).1⟩, by simp [FileSt.beginTx, Alloc.beginTx]⟩
  · intro k hk hn; exact absurd hk hn

/-! ### moving `PageOK` between states -/

theorem pageOK_congr {f0 : FileSt} {live : List Nat} {f f' : FileSt} {tx tx' : TxSt} {cur cur' : List Nat}
    {k : Nat} {p : PageSt} (h : PageOK f0 live f tx cur k p)
    (ht : tgt f0 tx' k = tgt f0 tx k) (hw : Assoc.get? tx'.walNew k = Assoc.get? tx.walNew k)
    (hd : p.freed = false → f'.diskAt (tgt f0 tx k) = f.diskAt (tgt f0 tx k))
    (hc : p.freed = false → k ∈ cur → k ∈ cur') (hc2 : p.freed = true → k ∈ cur' → k ∈ cur) :
    PageOK f0 live f' tx' cur' k p := by
  refine ⟨h.id, h.freedClean, h.flDirty, fun hf => hc hf (h.inCur hf), ?_, h.oldOk, ?_, ?_, h.dirtyB, ?_, h.cleanNew, h.cachedB,
    fun hf hk => h.notCur hf (hc2 hf hk)⟩
  · intro hf hn; rw [ht]; exact h.newOk hf hn
  · intro hf hn hfl; rw [hw]; exact h.unfl hf hn hfl
  · intro hfl; rw [ht, hd (h.flDirty hfl).2]; exact h.fl hfl
  · intro hf hn hdy; rw [ht, hd hf]; exact h.cleanOld hf hn hdy

theorem tgt_congr (f0 : FileSt) (tx tx' : TxSt) (k : Nat) (hw : Assoc.get? tx'.walNew k = Assoc.get? tx.walNew k)
    (hf : k ∈ tx'.walFree ↔ k ∈ tx.walFree) : tgt f0 tx' k = tgt f0 tx k := by
  unfold tgt
  rw [hw]
  by_cases h : k ∈ tx.walFree
  · simp [h, hf.mpr h]
  · have : k ∉ tx'.walFree := fun h' => h (hf.mp h')
    simp [h, this]

theorem getPage_cases (f : FileSt) (tx tx1 : TxSt) (id : Nat) (p : PageSt) (h : getPage f tx id = .ok (tx1, p)) :
    (Assoc.get? tx.pages id = some p ∧ p.freed = false ∧ tx1 = tx) ∨
    (Assoc.get? tx.pages id = none ∧ p = { id, ondisk := f.physOf id } ∧
      tx1 = { tx with pages := Assoc.set tx.pages id p }) := by
  unfold getPage at h
  split at h
  · simp at h
  · split at h
    · simp at h
    · cases hpg : Assoc.get? tx.pages id with
      | none =>
        simp only [hpg, Except.ok.injEq, Prod.mk.injEq] at h
        obtain ⟨rfl, rfl⟩ := h
        exact Or.inr ⟨rfl, rfl, rfl⟩
      | some q =>
        simp only [hpg] at h
        split at h
        · simp at h
        · rename_i hq
          simp only [Except.ok.injEq, Prod.mk.injEq] at h
          obtain ⟨rfl, rfl⟩ := h
          exact Or.inl ⟨rfl, by simpa using hq, rfl⟩

theorem get?_setPage (tx : TxSt) (p' : PageSt) (k : Nat) :
    Assoc.get? (tx.setPage p').pages k = if k = p'.id then some p' else Assoc.get? tx.pages k := by
  unfold TxSt.setPage
  by_cases hk : k = p'.id
  · subst hk; simp [Assoc.get?_set_self]
  · simp [hk, Assoc.get?_set_ne _ _ _ _ hk]

/-- replacing one page record, everything else unchanged -/
theorem txinv_setPage {f0 : FileSt} {live : List Nat} {f : FileSt} {tx : TxSt} {cur : List Nat}
    (h : TxInv f0 live f tx cur) (p' : PageSt) (hp : PageOK f0 live f tx cur p'.id p')
    (hwn : ∀ w, Assoc.get? tx.walNew p'.id = some w → p'.flushed = true)
    (hck : ∀ q, Assoc.get? tx.pages p'.id = some q → q.dirty = true → q.flushed = false →
      p'.dirty = true ∧ p'.flushed = false) :
    TxInv f0 live f (tx.setPage p') cur := by
  refine ⟨h.sameMap, h.sameWP, h.inv, h.aok, h.keep, h.newKeys, h.r0, ?_, h.curOk, ?_, ?_, h.wnInj, h.wfree, ?_,
    h.dfreed, h.mfreed, h.mfAsc, h.mAlloc, h.ov2, h.gone⟩
  · intro k p hk
    rw [get?_setPage] at hk
    by_cases he : k = p'.id
    · simp only [he, if_true, Option.some.injEq] at hk
      subst hk; subst he
      exact pageOK_congr hp rfl rfl (fun _ => rfl) (fun _ hc => hc) (fun _ hc => hc)
    · simp only [he, if_false] at hk
      exact pageOK_congr (h.pg k p hk) rfl rfl (fun _ => rfl) (fun _ hc => hc) (fun _ hc => hc)
  · intro k hk hn
    rw [get?_setPage] at hn
    by_cases he : k = p'.id
    · simp [he] at hn
    · simp only [he, if_false] at hn
      exact h.curNone k hk hn
  · intro k w hk
    obtain ⟨h1, h2, h4, h5, q, hq, hqf⟩ := h.wn k w hk
    refine ⟨h1, h2, h4, h5, ?_⟩
    by_cases he : k = p'.id
    · exact ⟨p', by rw [get?_setPage]; simp [he], hwn w (he ▸ hk)⟩
    · exact ⟨q, by rw [get?_setPage]; simp [he, hq], hqf⟩
  · intro hc k w hk
    rcases h.ck hc k w hk with h1 | ⟨q, hq, hd, hf⟩
    · exact Or.inl h1
    · right
      by_cases he : k = p'.id
      · have := hck q (he ▸ hq) hd hf
        exact ⟨p', by rw [get?_setPage]; simp [he], this.1, this.2⟩
      · exact ⟨q, by rw [get?_setPage]; simp [he, hq], hd, hf⟩

theorem txinv_getPage {f0 : FileSt} {live : List Nat} {f : FileSt} {tx : TxSt} {cur : List Nat}
    (h : TxInv f0 live f tx cur) (id : Nat) (hid : id ∈ cur) (tx1 : TxSt) (p : PageSt)
    (hg : getPage f tx id = .ok (tx1, p)) :
    TxInv f0 live f tx1 cur ∧ Assoc.get? tx1.pages id = some p ∧ p.freed = false ∧
    (tx1 = tx ∨ (tx1 = tx.setPage p ∧ Assoc.get? tx.pages id = none ∧ p = { id, ondisk := f0.physOf id })) := by
  rcases getPage_cases f tx tx1 id p hg with ⟨h1, h2, h3⟩ | ⟨h1, h2, h3⟩
  · subst h3
    exact ⟨h, h1, h2, Or.inl rfl⟩
  · have hphys : f.physOf id = f0.physOf id := by unfold FileSt.physOf; rw [h.sameMap]
    rw [hphys] at h2
    subst h2
    have h3' : tx1 = tx.setPage { id, ondisk := f0.physOf id } := h3
    subst h3'
    have hcn := h.curNone id hid h1
    have hwn : Assoc.get? tx.walNew id = none := by
      cases hw : Assoc.get? tx.walNew id with
      | none => rfl
      | some w =>
        obtain ⟨-, -, -, -, q, hq, -⟩ := h.wn id w hw
        rw [h1] at hq; cases hq
    refine ⟨txinv_setPage h _ ?_ ?_ ?_, ?_, rfl, Or.inr ⟨rfl, h1, rfl⟩⟩
    · refine ⟨rfl, by simp, by simp, fun _ => hid, by simp, fun _ _ => hcn.1, fun _ _ _ => ⟨rfl, hwn⟩, by simp,
        by simp, fun _ _ _ => ⟨by simp, hcn.2⟩, by simp, by simp, by simp⟩
    · intro w hw; rw [hwn] at hw; cases hw
    · intro q hq; rw [h1] at hq; cases hq
    · rw [get?_setPage]; simp

theorem loadBytes_fields (f : FileSt) (p : PageSt) :
    (loadBytes f p).id = p.id ∧ (loadBytes f p).ondisk = p.ondisk ∧ (loadBytes f p).new_ = p.new_ ∧
    (loadBytes f p).freed = p.freed ∧ (loadBytes f p).flushed = p.flushed ∧ (loadBytes f p).dirty = p.dirty := by
  unfold loadBytes
  split
  · simp
  · split
    · simp
    · split <;> simp

/-! ### what the transaction sees -/

def pView (f0 : FileSt) (k : Nat) (p : PageSt) : Option Content :=
  if p.dirty then p.bytes else if p.new_ then none else some (f0.readPage k)

/-- the content of a page as seen by the transaction; `none`: a new page that was not written yet -/
def txView (f0 : FileSt) (tx : TxSt) (id : Nat) : Option Content :=
  match Assoc.get? tx.pages id with
  | none => some (f0.readPage id)
  | some p => pView f0 id p

theorem loadBytes_spec {f0 : FileSt} {live : List Nat} {f : FileSt} {tx : TxSt} {cur : List Nat}
    (h : TxInv f0 live f tx cur) (k : Nat) (p : PageSt) (hp : PageOK f0 live f tx cur k p)
    (hfl : p.flushed = false) (hfr : p.freed = false) :
    (loadBytes f p).bytes = some ((pView f0 k p).getD {}) := by
  unfold loadBytes pView
  by_cases hc : p.cached = true
  · simp only [hc, if_true]
    have := hp.cachedB hc
    cases hb : p.bytes with
    | none => rw [hb] at this; cases this
    | some b =>
      by_cases hd : p.dirty = true
      · simp [hd]
      · have hd' : p.dirty = false := by simpa using hd
        by_cases hn : p.new_ = true
        · have := hp.cleanNew hn hd'
          rw [hb] at this
          simp [hd', hn]; simpa using this
        · have hn' : p.new_ = false := by simpa using hn
          have := (hp.cleanOld hfr hn' hd').1 b hb
          simp [hd', hn', this]
  · simp only [hc, Bool.false_eq_true, if_false]
    by_cases hn : p.new_ = true
    · simp only [hn, if_true]
      by_cases hd : p.dirty = true
      · have := hp.dirtyB hd
        cases hb : p.bytes with
        | none => rw [hb] at this; cases this
        | some b => simp [hd]
      · have hd' : p.dirty = false := by simpa using hd
        have := hp.cleanNew hn hd'
        simp [hd', this]
    · have hn' : p.new_ = false := by simpa using hn
      simp only [hn', Bool.false_eq_true, if_false]
      by_cases hd : p.dirty = true
      · have := hp.dirtyB hd
        cases hb : p.bytes with
        | none => rw [hb] at this; cases this
        | some b => simp [hd]
      · have hd' : p.dirty = false := by simpa using hd
        simp only [hd', Bool.false_eq_true, if_false, Option.getD_some, Option.some.injEq]
        cases hb : p.bytes with
        | some b => exact (hp.cleanOld hfr hn' hd').1 b hb
        | none =>
          have hk := hp.oldOk hfr hn'
          rw [(hp.unfl hfr hn' hfl).1, h.r0 k hk]
          rfl

theorem loadBytes_cached (f : FileSt) (p : PageSt) : (loadBytes f p).cached = true := by
  unfold loadBytes
  split
  · assumption
  · split
    · rfl
    · split <;> rfl

/-- changing the buffer of an unflushed page -/
theorem pageOK_upd {f0 : FileSt} {live : List Nat} {f : FileSt} {tx : TxSt} {cur : List Nat} {k : Nat}
    {p q : PageSt} (hp : PageOK f0 live f tx cur k p) (hfl : p.flushed = false) (hfr : p.freed = false)
    (e1 : q.id = p.id) (e2 : q.ondisk = p.ondisk) (e3 : q.new_ = p.new_) (e4 : q.freed = false)
    (e5 : q.flushed = false) (b1 : q.dirty = true → q.bytes.isSome = true)
    (b2 : q.cached = true → q.bytes.isSome = true)
    (b3 : q.dirty = false → p.dirty = false ∧ (q.new_ = false → ∀ b, q.bytes = some b → b = f0.readPage k) ∧
      (q.new_ = true → q.bytes.getD {} = {})) : PageOK f0 live f tx cur k q := by
  refine ⟨e1.trans hp.id, by simp [e4], by simp [e5], fun _ => hp.inCur hfr, ?_, ?_, ?_, by simp [e5], b1, ?_, ?_, b2, by simp [e4]⟩
  · intro _ hn; rw [e2]; exact hp.newOk hfr (e3 ▸ hn)
  · intro _ hn; exact hp.oldOk hfr (e3 ▸ hn)
  · intro _ hn _; rw [e2]; exact hp.unfl hfr (e3 ▸ hn) hfl
  · intro _ hn hd
    have := b3 hd
    exact ⟨this.2.1 hn, (hp.cleanOld hfr (e3 ▸ hn) this.1).2⟩
  · intro hn hd; exact (b3 hd).2.2 hn

theorem pageOK_load {f0 : FileSt} {live : List Nat} {f : FileSt} {tx : TxSt} {cur : List Nat}
    (h : TxInv f0 live f tx cur) (k : Nat) (p : PageSt) (hp : PageOK f0 live f tx cur k p)
    (hfl : p.flushed = false) (hfr : p.freed = false) : PageOK f0 live f tx cur k (loadBytes f p) := by
  obtain ⟨l1, l2, l3, l4, l5, l6⟩ := loadBytes_fields f p
  have hb := loadBytes_spec h k p hp hfl hfr
  apply pageOK_upd hp hfl hfr l1 l2 l3 (l4.trans hfr) (l5.trans hfl)
  · intro _; simp [hb]
  · intro _; simp [hb]
  · intro hd
    rw [l6] at hd
    refine ⟨hd, ?_, ?_⟩
    · intro hn b hbb
      rw [l3] at hn
      rw [hb] at hbb
      simp [pView, hd, hn] at hbb
      exact hbb.symm
    · intro hn
      rw [l3] at hn
      rw [hb]
      simp [pView, hd, hn]

theorem txView_getPage {f0 : FileSt} {live : List Nat} {f : FileSt} {tx : TxSt} {cur : List Nat}
    (h : TxInv f0 live f tx cur) (id : Nat) (hid : id ∈ cur) (tx1 : TxSt) (p : PageSt)
    (hg : getPage f tx id = .ok (tx1, p)) (j : Nat) : txView f0 tx1 j = txView f0 tx j := by
  obtain ⟨-, -, -, h4⟩ := txinv_getPage h id hid tx1 p hg
  rcases h4 with h4 | ⟨h4, h5, h6⟩
  · rw [h4]
  · subst h4
    unfold txView
    rw [get?_setPage]
    by_cases hj : j = p.id
    · have : p.id = id := by rw [h6]
      rw [hj, this, h5]
      simp [h6, pView]
    · simp [hj]

theorem txView_setPage (f0 : FileSt) (tx : TxSt) (q : PageSt) (j : Nat) :
    txView f0 (tx.setPage q) j = if j = q.id then pView f0 q.id q else txView f0 tx j := by
  unfold txView
  rw [get?_setPage]
  by_cases hj : j = q.id
  · simp [hj]
  · simp [hj]

theorem pageCanWrite_ok (p : PageSt) (h : pageCanWrite p = .ok ()) : p.freed = false ∧ p.flushed = false := by
  unfold pageCanWrite at h
  split at h
  · cases h
  · rename_i hc
    simpa using hc

/-- abstract effect of the three ways of writing a page -/
def wr (mode : WMode) (id s : Nat) (old : Content) : Content :=
  match mode with
  | .full => Content.full id s
  | .lo => { old with lo := (id, s) }
  | .hi => { old with hi := (id, s) }

theorem txinv_write {f0 : FileSt} {live : List Nat} {f : FileSt} {tx : TxSt} {cur : List Nat}
    (h : TxInv f0 live f tx cur) (id : Nat) (hid : id ∈ cur) (mode : WMode) (s : Nat) (tx' : TxSt)
    (hw : txWrite f tx id mode s = .ok tx') :
    TxInv f0 live f tx' cur ∧ txView f0 tx' id = some (wr mode id s ((txView f0 tx id).getD {})) ∧
    ∀ j, j ≠ id → txView f0 tx' j = txView f0 tx j := by
  unfold txWrite at hw
  cases hg : getPage f tx id with
  | error e => simp [hg, bind, Except.bind] at hw
  | ok r =>
    obtain ⟨tx1, p⟩ := r
    simp only [hg, bind, Except.bind] at hw
    obtain ⟨h1, hget, hfr, -⟩ := txinv_getPage h id hid tx1 p hg
    have hv := txView_getPage h id hid tx1 p hg
    have hp := h1.pg id p hget
    have hpid := hp.id
    cases hcw : pageCanWrite p with
    | error e => simp [hcw] at hw
    | ok u =>
      simp only [hcw] at hw
      obtain ⟨-, hfl⟩ := pageCanWrite_ok p hcw
      obtain ⟨l1, l2, l3, l4, l5, l6⟩ := loadBytes_fields f p
      have hlb := loadBytes_spec h1 id p hp hfl hfr
      have hvp : txView f0 tx id = pView f0 id p := by rw [← hv id]; unfold txView; rw [hget]
      have hb : (loadBytes f p).bytes.getD {} = (pView f0 id p).getD {} := by rw [hlb]; rfl
      -- every variant stores a dirty, unflushed record `q` with a buffer
      have key : ∀ (q : PageSt) (c : Content), q.id = p.id → q.ondisk = p.ondisk → q.new_ = p.new_ →
          q.freed = false → q.flushed = false → q.dirty = true → q.bytes = some c →
          TxInv f0 live f (tx1.setPage q) cur ∧ txView f0 (tx1.setPage q) id = some c ∧
          ∀ j, j ≠ id → txView f0 (tx1.setPage q) j = txView f0 tx j := by
        intro q c e1 e2 e3 e4 e5 e6 e7
        have hqid : q.id = id := e1.trans hpid
        have hq : PageOK f0 live f tx1 cur q.id q := by
          rw [hqid]
          exact pageOK_upd hp hfl hfr e1 e2 e3 e4 e5 (fun _ => by simp [e7]) (fun _ => by simp [e7])
            (fun hd => by rw [e6] at hd; cases hd)
        refine ⟨txinv_setPage h1 q hq ?_ ?_, ?_, ?_⟩
        · intro w hwn
          obtain ⟨-, -, -, -, q', hq', hqf⟩ := h1.wn q.id w hwn
          rw [hqid, hget] at hq'
          cases hq'
          rw [hfl] at hqf; cases hqf
        · intro _ _ _ _; exact ⟨e6, e5⟩
        · rw [txView_setPage]; simp [hqid, pView, e6, e7]
        · intro j hj
          rw [txView_setPage]
          simp only [hqid, hj, if_false]
          exact hv j
      cases mode with
      | full =>
        simp only [pure, Except.pure, Except.ok.injEq] at hw
        subst hw
        exact key _ _ rfl rfl rfl hfr hfl rfl rfl
      | lo =>
        simp only [pure, Except.pure, Except.ok.injEq] at hw
        subst hw
        have := key (setDirty { loadBytes f p with bytes := some { (loadBytes f p).bytes.getD {} with lo := (id, s) } })
          _ l1 l2 l3 (l4.trans hfr) (l5.trans hfl) rfl rfl
        rw [hvp, ← hb]
        exact this
      | hi =>
        simp only [pure, Except.pure, Except.ok.injEq] at hw
        subst hw
        have := key (setDirty { loadBytes f p with bytes := some { (loadBytes f p).bytes.getD {} with hi := (id, s) } })
          _ l1 l2 l3 (l4.trans hfr) (l5.trans hfl) rfl rfl
        rw [hvp, ← hb]
        exact this

theorem txinv_load {f0 : FileSt} {live : List Nat} {f : FileSt} {tx : TxSt} {cur : List Nat}
    (h : TxInv f0 live f tx cur) (id : Nat) (hid : id ∈ cur) (tx' : TxSt) (hw : txLoad f tx id = .ok tx') :
    TxInv f0 live f tx' cur ∧ ∀ j, txView f0 tx' j = txView f0 tx j := by
  unfold txLoad at hw
  cases hg : getPage f tx id with
  | error e => simp [hg, bind, Except.bind] at hw
  | ok r =>
    obtain ⟨tx1, p⟩ := r
    simp only [hg, bind, Except.bind] at hw
    obtain ⟨h1, hget, hfr, -⟩ := txinv_getPage h id hid tx1 p hg
    have hv := txView_getPage h id hid tx1 p hg
    have hp := h1.pg id p hget
    cases hcw : pageCanWrite p with
    | error e => simp [hcw] at hw
    | ok u =>
      simp only [hcw, pure, Except.pure, Except.ok.injEq] at hw
      subst hw
      obtain ⟨-, hfl⟩ := pageCanWrite_ok p hcw
      obtain ⟨l1, l2, l3, l4, l5, l6⟩ := loadBytes_fields f p
      have hlb := loadBytes_spec h1 id p hp hfl hfr
      have hqid : (loadBytes f p).id = id := l1.trans hp.id
      have hq : PageOK f0 live f tx1 cur (loadBytes f p).id (loadBytes f p) := by
        rw [hqid]; exact pageOK_load h1 id p hp hfl hfr
      refine ⟨txinv_setPage h1 _ hq ?_ ?_, ?_⟩
      · intro w hwn
        obtain ⟨-, -, -, -, q', hq', hqf⟩ := h1.wn _ w hwn
        rw [hqid, hget] at hq'
        cases hq'
        rw [hfl] at hqf; cases hqf
      · intro q hq' hd hf
        rw [hqid, hget] at hq'
        cases hq'
        exact ⟨l6.trans hd, l5.trans hf⟩
      · intro j
        rw [txView_setPage, hqid]
        by_cases hj : j = id
        · subst hj
          rw [← hv j]
          simp only [if_true]
          unfold txView
          rw [hget]
          unfold pView
          rw [l6, l3]
          by_cases hd : p.dirty = true
          · have := hp.dirtyB hd
            simp only [hd, if_true]
            rw [hlb]
            unfold pView
            simp only [hd, if_true]
            cases hb : p.bytes with
            | none => rw [hb] at this; cases this
            | some b => rfl
          · simp [hd]
        · simp only [hj, if_false]; exact hv j

theorem txinv_read {f0 : FileSt} {live : List Nat} {f : FileSt} {tx : TxSt} {cur : List Nat}
    (h : TxInv f0 live f tx cur) (id : Nat) (hid : id ∈ cur) (tx' : TxSt) (c : Content)
    (hw : txRead f tx id = .ok (tx', c)) :
    TxInv f0 live f tx' cur ∧ (∀ j, txView f0 tx' j = txView f0 tx j) ∧
    ∀ c', txView f0 tx id = some c' → c = c' := by
  unfold txRead at hw
  cases hg : getPage f tx id with
  | error e => simp [hg, bind, Except.bind] at hw
  | ok r =>
    obtain ⟨tx1, p⟩ := r
    simp only [hg, bind, Except.bind] at hw
    obtain ⟨h1, hget, hfr, -⟩ := txinv_getPage h id hid tx1 p hg
    have hv := txView_getPage h id hid tx1 p hg
    have hp := h1.pg id p hget
    have hvp : txView f0 tx id = pView f0 id p := by rw [← hv id]; unfold txView; rw [hget]
    rw [hvp]
    cases hb : p.bytes with
    | some b =>
      simp only [hb, pure, Except.pure, Except.ok.injEq, Prod.mk.injEq] at hw
      obtain ⟨rfl, rfl⟩ := hw
      refine ⟨h1, hv, ?_⟩
      intro c' hc'
      unfold pView at hc'
      by_cases hd : p.dirty = true
      · simp only [hd, if_true, hb, Option.some.injEq] at hc'; exact hc'
      · have hd' : p.dirty = false := by simpa using hd
        by_cases hn : p.new_ = true
        · simp [hd', hn] at hc'
        · have hn' : p.new_ = false := by simpa using hn
          simp only [hd', hn', Bool.false_eq_true, if_false, Option.some.injEq] at hc'
          rw [← hc']
          exact (hp.cleanOld hfr hn' hd').1 _ hb
    | none =>
      simp only [hb] at hw
      split at hw
      · cases hw
      · rename_i hn
        have hn' : p.new_ = false := by simpa using hn
        simp only [pure, Except.pure, Except.ok.injEq, Prod.mk.injEq] at hw
        obtain ⟨rfl, rfl⟩ := hw
        refine ⟨h1, hv, ?_⟩
        intro c' hc'
        have hd' : p.dirty = false := by
          cases hd : p.dirty with
          | false => rfl
          | true => have := hp.dirtyB hd; rw [hb] at this; cases this
        have hfl : p.flushed = false := by
          cases hf : p.flushed with
          | false => rfl
          | true => have := (hp.flDirty hf).1; rw [hd'] at this; cases this
        unfold pView at hc'
        simp only [hd', hn', Bool.false_eq_true, if_false, Option.some.injEq] at hc'
        rw [← hc', (hp.unfl hfr hn' hfl).1, h1.r0 id (hp.oldOk hfr hn')]
        rfl

theorem cur_lt {f0 : FileSt} {live : List Nat} {f : FileSt} {tx : TxSt} {cur : List Nat}
    (h : TxInv f0 live f tx cur) (k : Nat) (hk : k ∈ cur) : k < f.alloc.data.endMarker := by
  obtain ⟨-, h2, h3, -⟩ := h.curOk k hk
  have := h.inv.cfgMax
  have := h3.2.2.2
  omega

/-- a page that is not live has no overwrite page -/
theorem tgt_fresh {f0 : FileSt} {live : List Nat} {f : FileSt} {tx : TxSt} {cur : List Nat}
    (he : EngInv f0 live) (h : TxInv f0 live f tx cur) (k : Nat) (hk : k ∉ live) :
    tgt f0 tx k = k ∧ Assoc.get? tx.walNew k = none := by
  have h1 : Assoc.get? tx.walNew k = none := by
    cases hw : Assoc.get? tx.walNew k with
    | none => rfl
    | some w => exact absurd (h.wn k w hw).2.2.1 hk
  have h2 : k ∉ tx.walFree := by
    intro hf
    obtain ⟨w, hw⟩ := h.wfree k hf
    exact hk (he.mapKey k w hw)
  have h3 : Assoc.get? f0.walMap k = none := by
    cases hw : Assoc.get? f0.walMap k with
    | none => rfl
    | some w => exact absurd (he.mapKey k w hw) hk
  refine ⟨?_, h1⟩
  unfold tgt
  simp [h1, h2, physOf_none f0 k h3]

theorem txinv_alloc {f0 : FileSt} {live : List Nat} {f : FileSt} {tx : TxSt} {cur : List Nat}
    (he : EngInv f0 live) (h : TxInv f0 live f tx cur) (n : Nat) (f' : FileSt) (tx' : TxSt) (ids : List Nat)
    (hw : txAlloc f tx n = .ok (f', tx', ids)) :
    TxInv f0 live f' tx' (cur ++ ids) ∧ (∀ x ∈ ids, x ∉ cur ∧ x ∉ live) ∧
    ∀ j, txView f0 tx' j = if j ∈ ids then none else txView f0 tx j := by
  unfold txAlloc at hw
  cases hr : dataAllocRegions f.alloc tx.ta n with
  | none => simp [hr] at hw
  | some r =>
    obtain ⟨a, ta, ids'⟩ := r
    simp only [hr, Except.ok.injEq, Prod.mk.injEq] at hw
    obtain ⟨rfl, rfl, rfl⟩ := hw
    obtain ⟨hok, hkeep, hids⟩ := fr_regions f.alloc tx.ta n a ta ids' h.aok hr
    have hinv := (inv_regions f0.alloc f.alloc tx.ta n a ta ids' he.wf h.inv hr).1
    obtain ⟨_, _, _, _, _, _, _, _, _, _, _, _, _, _, _, _, hst⟩ := dataAllocRegions_spec _ _ _ _ _ _ hr
    have hmta : ta.mta = tx.ta.mta := by rw [hst]
    have hdf : ta.data.freed = tx.ta.data.freed := by rw [hst]
    have hovf : ta.overflow = tx.ta.overflow := by rw [hst]
    have hnl : ∀ x ∈ ids', x ∉ live := fun x hx hl =>
      (hids x hx).1 (h.keep x (he.liveOk x hl).2.2)
    have hnc : ∀ x ∈ ids', x ∉ cur := fun x hx hc => (hids x hx).1 (h.curOk x hc).2.2.1
    have hpg : ∀ k, Assoc.get? (ids'.foldl (fun m id => Assoc.set m id ({ id, ondisk := id, new_ := true } : PageSt))
        tx.pages) k = if k ∈ ids' then some ({ id := k, ondisk := k, new_ := true } : PageSt)
        else Assoc.get? tx.pages k := get?_foldl_newPages ids' tx.pages
    have hl := hok.limit
    refine ⟨⟨h.sameMap, h.sameWP, hinv, hok, fun x hx => hkeep x (h.keep x hx), h.newKeys, h.r0, ?_, ?_, ?_, ?_,
      h.wnInj, h.wfree, ?_, ?_, ?_, ?_, ?_, ?_, ?_⟩, fun x hx => ⟨hnc x hx, hnl x hx⟩, ?_⟩
    · intro k p hk
      rw [hpg] at hk
      by_cases hki : k ∈ ids'
      · simp only [hki, if_true, Option.some.injEq] at hk
        subst hk
        have hnu : ¬ InUse f0.alloc k := fun hu => (hids k hki).1 (h.keep k hu)
        have ht := (tgt_fresh he h k (hnl k hki)).1
        exact ⟨rfl, by simp, by simp, fun _ => List.mem_append_right _ hki, fun _ _ => ⟨rfl, hnu, ht⟩, by simp,
          by simp, by simp, by simp, by simp, by simp, by simp, by simp⟩
      · simp only [hki, if_false] at hk
        refine pageOK_congr (h.pg k p hk) rfl rfl (fun _ => rfl) (fun _ hc => List.mem_append_left _ hc) ?_
        intro _ hc
        rcases List.mem_append.mp hc with hc | hc
        · exact hc
        · exact absurd hc hki
    · intro k hk
      rcases List.mem_append.mp hk with hk | hk
      · obtain ⟨c1, c2, c3, c4⟩ := h.curOk k hk
        exact ⟨c1, c2, hkeep k c3, c4⟩
      · obtain ⟨d1, d2, d3, d4⟩ := hids k hk
        have := h.inv.cfgMax
        have := hinv.cfgMax
        exact ⟨d3, by omega, d2, Or.inr (fun hu => d1 (h.keep k hu))⟩
    · intro k hk hn
      rw [hpg] at hn
      by_cases hki : k ∈ ids'
      · simp [hki] at hn
      · simp only [hki, if_false] at hn
        rcases List.mem_append.mp hk with hk | hk
        · exact h.curNone k hk hn
        · exact absurd hk hki
    · intro k w hk
      obtain ⟨w1, w2, w4, w5, q, hq, hqf⟩ := h.wn k w hk
      refine ⟨w1, hmta ▸ w2, w4, w5, q, ?_, hqf⟩
      · rw [hpg, if_neg (fun hc => hnl k hc w4)]; exact hq
    · intro hc k w hk
      rcases h.ck hc k w hk with h1 | ⟨q, hq, hd, hf⟩
      · exact Or.inl h1
      · refine Or.inr ⟨q, ?_, hd, hf⟩
        rw [hpg, if_neg (fun hc => hnl k hc (he.mapKey k w hk))]; exact hq
    · intro x hx
      rw [hdf] at hx
      obtain ⟨d1, d2, d3, d4, d5, d6⟩ := h.dfreed x hx
      refine ⟨fun hc => ?_, d2, d3, hkeep x d4, d5, ?_⟩
      · rcases List.mem_append.mp hc with hc | hc
        · exact d1 hc
        · exact (hids x hc).1 d4
      · show x ∉ ta.mta.allocated
        rw [hmta]; exact d6
    · rw [hmta]; exact h.mfreed
    · rw [hmta]; exact h.mfAsc
    · rw [hmta]
      refine ⟨h.mAlloc.1, fun x hx => ⟨hkeep x (h.mAlloc.2 x hx).1, (h.mAlloc.2 x hx).2.1, fun hc => ?_⟩⟩
      rcases List.mem_append.mp hc with hc | hc
      · exact (h.mAlloc.2 x hx).2.2 hc
      · exact (hids x hc).1 (h.mAlloc.2 x hx).1
    · intro hov
      have hov' : tx.ta.overflow = false := hovf ▸ hov
      refine ⟨a2_regions f.alloc tx.ta n a ta ids' (h.ov2 hov').1 hr, ?_⟩
      show ∀ x ∈ ta.mta.allocated, 2 ≤ x
      rw [hmta]; exact (h.ov2 hov').2
    · intro k hk hn w hw
      exact h.gone k hk (fun hc => hn (List.mem_append_left _ hc)) w hw
    · intro j
      unfold txView
      rw [hpg]
      by_cases hj : j ∈ ids' <;> simp [hj, pView]

/-! ### the part of `TxInv` that speaks about one page id -/

structure KeyOK (f0 : FileSt) (live : List Nat) (f : FileSt) (tx : TxSt) (cur : List Nat) (k : Nat) : Prop where
  pg : ∀ p, Assoc.get? tx.pages k = some p → PageOK f0 live f tx cur k p
  curNone : k ∈ cur → Assoc.get? tx.pages k = none → k ∈ live ∧ f.diskAt (tgt f0 tx k) = f0.readPage k
  wn : ∀ w, Assoc.get? tx.walNew k = some w →
    ¬ InUse f0.alloc w ∧ w ∈ tx.ta.mta.allocated ∧ k ∈ live ∧ Assoc.get? f0.walMap k = none ∧
    ∃ p, Assoc.get? tx.pages k = some p ∧ p.flushed = true
  ck : tx.checkpoint = true → ∀ w, Assoc.get? f0.walMap k = some w →
    k ∈ tx.walFree ∨ ∃ p, Assoc.get? tx.pages k = some p ∧ p.dirty = true ∧ p.flushed = false

theorem txinv_key {f0 : FileSt} {live : List Nat} {f : FileSt} {tx : TxSt} {cur : List Nat}
    (h : TxInv f0 live f tx cur) (k : Nat) : KeyOK f0 live f tx cur k :=
  ⟨h.pg k, h.curNone k, h.wn k, fun hc => h.ck hc k⟩

theorem keyOK_congr {f0 : FileSt} {live : List Nat} {f f' : FileSt} {tx tx' : TxSt} {cur cur' : List Nat} {k : Nat}
    (h : KeyOK f0 live f tx cur k)
    (e1 : Assoc.get? tx'.pages k = Assoc.get? tx.pages k) (e2 : Assoc.get? tx'.walNew k = Assoc.get? tx.walNew k)
    (e3 : k ∈ tx'.walFree ↔ k ∈ tx.walFree) (e4 : k ∈ cur → f'.diskAt (tgt f0 tx k) = f.diskAt (tgt f0 tx k))
    (e5 : k ∈ cur' ↔ k ∈ cur) (e6 : ∀ w ∈ tx.ta.mta.allocated, w ∈ tx'.ta.mta.allocated)
    (e7 : tx'.checkpoint = true → tx.checkpoint = true) : KeyOK f0 live f' tx' cur' k := by
  have ht := tgt_congr f0 tx tx' k e2 e3
  refine ⟨?_, ?_, ?_, ?_⟩
  · intro p hp
    rw [e1] at hp
    exact pageOK_congr (h.pg p hp) ht e2 (fun hf => e4 ((h.pg p hp).inCur hf)) (fun _ hc => e5.mpr hc)
      (fun _ hc => e5.mp hc)
  · intro hc hn
    rw [e1] at hn
    rw [ht, e4 (e5.mp hc)]
    exact h.curNone (e5.mp hc) hn
  · intro w hw
    rw [e2] at hw
    obtain ⟨w1, w2, w3, w4, w5⟩ := h.wn w hw
    exact ⟨w1, e6 w w2, w3, w4, by rw [e1]; exact w5⟩
  · intro hc w hw
    rcases h.ck (e7 hc) w hw with h1 | h1
    · exact Or.inl (e3.mpr h1)
    · exact Or.inr (by rw [e1]; exact h1)

theorem dataFree_st (a : Alloc) (st : TxAlloc) (id : Nat) :
    (dataFree a st id).2.mta = st.mta ∧
    (id ∈ st.data.new_ → (dataFree a st id).2.data.freed = st.data.freed) ∧
    (id ∉ st.data.new_ → (dataFree a st id).1 = a ∧ (dataFree a st id).2.data.freed = insertId id st.data.freed) := by
  rw [dataFree_eq]
  unfold dataFreeCore
  dsimp only
  by_cases hn : id ∈ st.data.new_
  · have hc : (!st.data.new_.contains id) = false := by simp [hn]
    rw [hc]
    simp only [Bool.false_eq_true, if_false]
    refine ⟨?_, fun _ => ?_, fun h => absurd hn h⟩
    all_goals (split; · rfl)
    all_goals (split; · rfl)
    all_goals (split <;> rfl)
  · have hc : (!st.data.new_.contains id) = true := by simp [hn]
    rw [hc]
    simp only [if_true]
    exact ⟨trivial, fun h => absurd h hn, fun _ => ⟨trivial, trivial⟩⟩

theorem dataFree_ovf (a : Alloc) (st : TxAlloc) (id : Nat) : (dataFree a st id).2.overflow = st.overflow := by
  rw [dataFree_eq]
  unfold dataFreeCore
  dsimp only
  split
  · rfl
  · split
    · rfl
    · split
      · rfl
      · split <;> rfl

/-- a current page is neither a page moved into the meta area nor an overflow page -/
theorem cur_not_moved {f0 : FileSt} {live : List Nat} {f : FileSt} {tx : TxSt} {cur : List Nat}
    (h : TxInv f0 live f tx cur) (k : Nat) (hk : k ∈ cur) :
    k ∉ tx.ta.moveToMeta ∧ k ∉ tx.ta.fromOverflow := by
  have hu := (h.curOk k hk).2.2.1
  have key : ¬ (k ∈ f.alloc.mta.free ∨ k ∈ tx.ta.mta.allocated) := by
    intro hc
    rcases hc with hc | hc
    · exact hu.2.1 hc
    · exact (h.mAlloc.2 k hc).2.2 hk
  have := h.inv.mIff k
  exact ⟨fun hm => key (this.mpr (Or.inr (Or.inl hm))), fun hm => key (this.mpr (Or.inr (Or.inr hm)))⟩

/-- a page in the transaction's list of new data pages was not in use when the transaction began -/
theorem new_not_live {f0 : FileSt} {live : List Nat} {f : FileSt} {tx : TxSt} {cur : List Nat}
    (he : EngInv f0 live) (h : TxInv f0 live f tx cur) (k : Nat) (hk : k ∈ cur) (hn : k ∈ tx.ta.data.new_) :
    k ∉ live := by
  intro hl
  rcases h.inv.newGe k hn with h1 | h1
  · have := (he.liveOk k hl).2.1; omega
  · exact (cur_not_moved h k hk).1 h1

/-- the allocator part of `Page.Free` -/
theorem free_alloc_part {f0 : FileSt} {live : List Nat} {f : FileSt} {tx : TxSt} {cur : List Nat}
    (he : EngInv f0 live) (h : TxInv f0 live f tx cur) (id : Nat) (hid : id ∈ cur) :
    Inv f0.alloc (dataFree f.alloc tx.ta id).1 (dataFree f.alloc tx.ta id).2 ∧
    AOK (dataFree f.alloc tx.ta id).1 ∧
    (∀ x, InUse f.alloc x → x ≠ id → InUse (dataFree f.alloc tx.ta id).1 x) ∧
    (∀ x, InUse f0.alloc x → InUse (dataFree f.alloc tx.ta id).1 x) ∧
    (dataFree f.alloc tx.ta id).2.mta = tx.ta.mta ∧
    (∀ x ∈ (dataFree f.alloc tx.ta id).2.data.freed,
      x ∈ tx.ta.data.freed ∨ (x = id ∧ (dataFree f.alloc tx.ta id).1 = f.alloc)) := by
  obtain ⟨c1, c2, c3, c4⟩ := h.curOk id hid
  have hlt := cur_lt h id hid
  obtain ⟨m1, m2⟩ := cur_not_moved h id hid
  have he0 : tx.ta.data.end0 ≤ f.alloc.data.endMarker := by
    rw [h.inv.dEnd0]; exact h.inv.dEndLe
  obtain ⟨s1, s2, s3⟩ := dataFree_st f.alloc tx.ta id
  obtain ⟨r1, r2⟩ := fr_dataFree f.alloc tx.ta id h.aok c3 c1 hlt he0
  refine ⟨inv_dataFree f0.alloc f.alloc tx.ta id h.inv hlt m1 m2, r1, r2, ?_, s1, ?_⟩
  · intro x hx
    by_cases hn : id ∈ tx.ta.data.new_
    · have hnl := new_not_live he h id hid hn
      have hne : x ≠ id := by
        intro e; subst e
        rcases c4 with c4 | c4
        · exact hnl c4
        · exact c4 hx
      exact r2 x (h.keep x hx) hne
    · rw [(s3 hn).1]; exact h.keep x hx
  · intro x hx
    by_cases hn : id ∈ tx.ta.data.new_
    · rw [s2 hn] at hx; exact Or.inl hx
    · rw [(s3 hn).2] at hx
      rcases (mem_insertId id x _).mp hx with e | e
      · exact Or.inr ⟨e, (s3 hn).1⟩
      · exact Or.inl e

/-- what the release of an overwrite page (if any) does to the transaction state -/
structure RelWal (f0 : FileSt) (T T2 : TxSt) (id : Nat) : Prop where
  pages : T2.pages = T.pages
  ckpt : T2.checkpoint = T.checkpoint
  mAlloc : T2.ta.mta.allocated = T.ta.mta.allocated
  data : T2.ta.data = T.ta.data
  wnOther : ∀ k, k ≠ id → Assoc.get? T2.walNew k = Assoc.get? T.walNew k
  wnSelf : Assoc.get? T2.walNew id = none
  wnKeys : AscKeys T.walNew → AscKeys T2.walNew
  wfOther : ∀ k, k ≠ id → (k ∈ T2.walFree ↔ k ∈ T.walFree)
  wfMono : ∀ k, k ∈ T.walFree → k ∈ T2.walFree
  wfSelf : id ∈ T2.walFree → id ∈ T.walFree ∨ ∃ w, Assoc.get? f0.walMap id = some w
  mf : ∀ x ∈ T2.ta.mta.freed, x ∈ T.ta.mta.freed ∨ (Assoc.get? f0.walMap id = some x ∧ id ∈ T2.walFree)
  mfAsc : Asc T.ta.mta.freed → Asc T2.ta.mta.freed
  inv : ∀ a0 a, Inv a0 a T.ta → Inv a0 a T2.ta
  ovf : T2.ta.overflow = T.ta.overflow

theorem relWal_none (f0 : FileSt) (T : TxSt) (id : Nat) (hw : Assoc.get? T.walNew id = none) :
    RelWal f0 T T id :=
  ⟨rfl, rfl, rfl, rfl, fun _ _ => rfl, hw, fun h => h, fun _ _ => Iff.rfl, fun _ h => h, fun h => Or.inl h,
    fun _ h => Or.inl h, fun h => h, fun _ _ h => h, rfl⟩

theorem relWal_free (f0 : FileSt) (T : TxSt) (id w : Nat) (hw : Assoc.get? f0.walMap id = some w) :
    RelWal f0 T (freeWalId T id w) id := by
  refine ⟨rfl, rfl, rfl, rfl, ?_, ?_, ?_, ?_, ?_, fun _ => Or.inr ⟨w, hw⟩, ?_, ?_, ?_, rfl⟩
  · intro k hk; simp [freeWalId, Assoc.get?_erase, hk]
  · simp [freeWalId, Assoc.get?_erase]
  · intro h; exact ascKeys_filter _ _ h
  · intro k hk; simp [freeWalId, mem_insertId, hk]
  · intro k hk; simp [freeWalId, mem_insertId, hk]
  · intro x hx
    simp only [freeWalId, metaFreeId, mem_insertId] at hx ⊢
    rcases hx with e | e
    · subst e; exact Or.inr ⟨hw, Or.inl trivial⟩
    · exact Or.inl e
  · intro h; exact asc_insertId _ _ h
  · intro a0 a h; exact inv_metaFreeId a0 a T.ta w h

/-- keys other than `id` are not affected by the release of the overwrite page of `id`, a new record for `id`,
    and changes of the disk elsewhere -/
theorem keyOK_other {f0 : FileSt} {live : List Nat} {f f' : FileSt} {tx T T2 : TxSt} {cur cur' : List Nat}
    {id k : Nat} (h : KeyOK f0 live f tx cur k) (hk : k ≠ id) (r : RelWal f0 T T2 id) (q : PageSt) (hq : q.id = id)
    (t1 : T.pages = tx.pages) (t2 : T.walNew = tx.walNew) (t3 : T.walFree = tx.walFree)
    (t4 : T.checkpoint = tx.checkpoint) (t5 : T.ta.mta.allocated = tx.ta.mta.allocated)
    (e4 : k ∈ cur → f'.diskAt (tgt f0 tx k) = f.diskAt (tgt f0 tx k)) (e5 : k ∈ cur' ↔ k ∈ cur) :
    KeyOK f0 live f' (T2.setPage q) cur' k := by
  apply keyOK_congr h
  · rw [get?_setPage, hq, if_neg hk, r.pages, t1]
  · show Assoc.get? T2.walNew k = _
    rw [r.wnOther k hk, t2]
  · show k ∈ T2.walFree ↔ _
    rw [r.wfOther k hk, t3]
  · exact e4
  · exact e5
  · intro w hw
    show w ∈ T2.ta.mta.allocated
    rw [r.mAlloc, t5]; exact hw
  · intro hc
    have : T2.checkpoint = true := hc
    rw [r.ckpt, t4] at this; exact this

theorem mem_filter_ne (cur : List Nat) (id k : Nat) : k ∈ cur.filter (fun x => x != id) ↔ k ∈ cur ∧ k ≠ id := by
  simp [List.mem_filter]

theorem txinv_free_core {f0 : FileSt} {live : List Nat} {f : FileSt} {tx : TxSt} {cur : List Nat}
    (he : EngInv f0 live) (h : TxInv f0 live f tx cur) (id : Nat) (hid : id ∈ cur) (p : PageSt)
    (hget : Assoc.get? tx.pages id = some p) (hfr : p.freed = false) (hfl : p.flushed = false)
    (hd : p.dirty = false) (T2 : TxSt)
    (r : RelWal f0 { tx with ta := (dataFree f.alloc tx.ta id).2 } T2 id)
    (hin : ∀ w, Assoc.get? f0.walMap id = some w → id ∈ T2.walFree) :
    TxInv f0 live { f with alloc := (dataFree f.alloc tx.ta id).1 } (T2.setPage { p with freed := true })
      (cur.filter (fun x => x != id)) := by
  obtain ⟨a1, a2, a3, a4, a5, a6⟩ := free_alloc_part he h id hid
  have hp := h.pg id p hget
  have hpid : ({ p with freed := true } : PageSt).id = id := hp.id
  have hmal : T2.ta.mta.allocated = tx.ta.mta.allocated := by rw [r.mAlloc]; exact congrArg (·.allocated) a5
  have hkeys : ∀ k, KeyOK f0 live { f with alloc := (dataFree f.alloc tx.ta id).1 }
      (T2.setPage { p with freed := true }) (cur.filter (fun x => x != id)) k := by
    intro k
    by_cases hk : k = id
    · subst hk
      refine ⟨?_, ?_, ?_, ?_⟩
      · intro q hq
        rw [get?_setPage, hpid] at hq
        simp only [if_true, Option.some.injEq] at hq
        subst hq
        exact ⟨by first | exact hp.id | rfl, fun _ => hd, by simp [hfl], by simp, by simp, by simp, by simp, by simp [hfl],
          by simp [hd], by simp, hp.cleanNew, hp.cachedB, fun _ hc => ((mem_filter_ne _ _ _).mp hc).2 rfl⟩
      · intro hc; rw [mem_filter_ne] at hc; exact absurd rfl hc.2
      · intro w hw
        have hw' : Assoc.get? T2.walNew k = some w := hw
        rw [r.wnSelf] at hw'; cases hw'
      · intro _ w hw; exact Or.inl (hin w hw)
    · exact keyOK_other (txinv_key h k) hk r _ hpid rfl rfl rfl rfl (congrArg (·.allocated) a5) (fun _ => rfl)
        (by rw [mem_filter_ne]; exact ⟨fun hc => hc.1, fun hc => ⟨hc, hk⟩⟩)
  refine ⟨h.sameMap, h.sameWP, r.inv _ _ a1, a2, a4, r.wnKeys h.newKeys, h.r0, fun k p => (hkeys k).pg p, ?_,
    fun k => (hkeys k).curNone, fun k => (hkeys k).wn, ?_, ?_, fun hc k => (hkeys k).ck hc, ?_, ?_,
    r.mfAsc (a5 ▸ h.mfAsc), ?_, ?_, ?_⟩
  · intro k hk
    rw [mem_filter_ne] at hk
    obtain ⟨c1, c2, c3, c4⟩ := h.curOk k hk.1
    exact ⟨c1, c2, a3 k c3 hk.2, c4⟩
  · intro k1 k2 w h1 h2
    have e1 : k1 ≠ id := fun e => by rw [e, show Assoc.get? (T2.setPage _).walNew id = none from r.wnSelf] at h1; cases h1
    have e2 : k2 ≠ id := fun e => by rw [e, show Assoc.get? (T2.setPage _).walNew id = none from r.wnSelf] at h2; cases h2
    exact h.wnInj k1 k2 w ((r.wnOther k1 e1) ▸ h1) ((r.wnOther k2 e2) ▸ h2)
  · intro k hk
    by_cases e : k = id
    · subst e
      rcases r.wfSelf hk with h1 | h1
      · exact h.wfree k h1
      · exact h1
    · exact h.wfree k ((r.wfOther k e).mp hk)
  · intro x hx
    have hx' : x ∈ (dataFree f.alloc tx.ta id).2.data.freed := by
      have : T2.ta.data = (dataFree f.alloc tx.ta id).2.data := r.data
      rw [← this]; exact hx
    rcases a6 x hx' with h1 | ⟨h1, h2⟩
    · obtain ⟨d1, d2, d3, d4, d5, d6⟩ := h.dfreed x h1
      have hne : x ≠ id := fun e => d1 (e ▸ hid)
      exact ⟨fun hc => d1 ((mem_filter_ne _ _ _).mp hc).1, d2, d3, a3 x d4 hne, d5, fun hc => d6 (hmal ▸ hc)⟩
    · subst h1
      obtain ⟨c1, c2, c3, c4⟩ := h.curOk x hid
      refine ⟨fun hc => ((mem_filter_ne _ _ _).mp hc).2 rfl, c1, c2, ?_, c4, ?_⟩
      · show InUse (dataFree f.alloc tx.ta x).1 x
        rw [h2]; exact c3
      · intro hc
        exact (h.mAlloc.2 x (hmal ▸ hc)).2.2 hid
  · intro x hx
    rcases r.mf x hx with h1 | h1
    · have h1' : x ∈ tx.ta.mta.freed := by rw [← a5]; exact h1
      obtain ⟨k, hk1, hk2⟩ := h.mfreed x h1'
      exact ⟨k, hk1, r.wfMono k hk2⟩
    · exact ⟨id, h1.1, h1.2⟩
  · refine ⟨hmal ▸ h.mAlloc.1, ?_⟩
    intro x hx
    have hx' : x ∈ tx.ta.mta.allocated := hmal ▸ hx
    obtain ⟨m1, m2, m3⟩ := h.mAlloc.2 x hx'
    have hne : x ≠ id := fun e => m3 (e ▸ hid)
    exact ⟨a3 x m1 hne, m2, fun hc => m3 ((mem_filter_ne _ _ _).mp hc).1⟩
  · intro hov
    have hov' : tx.ta.overflow = false := by
      have : T2.ta.overflow = tx.ta.overflow := r.ovf.trans (dataFree_ovf _ _ _)
      rw [← this]; exact hov
    obtain ⟨o1, o2⟩ := h.ov2 hov'
    obtain ⟨c1, c2, c3, c4⟩ := h.curOk id hid
    have he0 : tx.ta.data.end0 ≤ f.alloc.data.endMarker := by rw [h.inv.dEnd0]; exact h.inv.dEndLe
    have hm0 : f.alloc.maxPages = 0 ∨ tx.ta.mta.end0 ≤ f.alloc.maxPages := by
      rw [h.inv.mEnd0, h.inv.cfgMax]; exact he.noOv
    refine ⟨a2_dataFree f.alloc tx.ta id h.aok o1 c3 c1 (cur_lt h id hid) he0 hm0, ?_⟩
    intro x hx
    exact o2 x (hmal ▸ hx)
  · intro k hk hn w hw
    by_cases hkc : k ∈ cur
    · have : k = id := by
        false_or_by_contra
        exact hn ((mem_filter_ne _ _ _).mpr ⟨hkc, by assumption⟩)
      subst this
      exact hin w hw
    · exact r.wfMono k (h.gone k hk hkc w hw)

theorem txinv_free {f0 : FileSt} {live : List Nat} {f : FileSt} {tx : TxSt} {cur : List Nat}
    (he : EngInv f0 live) (h : TxInv f0 live f tx cur) (id : Nat) (hid : id ∈ cur) (f' : FileSt) (tx' : TxSt)
    (hw : txFree f tx id = .ok (f', tx')) :
    TxInv f0 live f' tx' (cur.filter (fun x => x != id)) ∧ ∀ j, j ≠ id → txView f0 tx' j = txView f0 tx j := by
  unfold txFree at hw
  cases hg : getPage f tx id with
  | error e => simp [hg, bind, Except.bind] at hw
  | ok r =>
    obtain ⟨tx1, p⟩ := r
    obtain ⟨h1, hget, hfr, -⟩ := txinv_getPage h id hid tx1 p hg
    have hv := txView_getPage h id hid tx1 p hg
    have hp := h1.pg id p hget
    cases hcw : pageCanWrite p with
    | error e => simp [hg, bind, Except.bind, hcw] at hw
    | ok u =>
      obtain ⟨-, hfl⟩ := pageCanWrite_ok p hcw
      cases hd : p.dirty with
      | true => simp [hg, bind, Except.bind, hcw, hd] at hw
      | false =>
        obtain ⟨pid, pond, pb, pn, pfr, pfl, pc, pdirty⟩ := p
        simp only at hd hfl hfr
        subst hd hfl hfr
        simp only [hg, bind, Except.bind, hcw, Bool.false_eq_true, if_false, pure, Except.pure,
          Except.ok.injEq, Prod.mk.injEq] at hw
        obtain ⟨rfl, rfl⟩ := hw
        have hwnone : Assoc.get? tx1.walNew id = none := by
          cases hwn : Assoc.get? tx1.walNew id with
          | none => rfl
          | some w =>
            obtain ⟨-, -, -, -, q, hq, hqf⟩ := h1.wn id w hwn
            rw [hget] at hq; cases hq; cases hqf
        have hold : ∀ w, Assoc.get? f0.walMap id = some w → pond = w ∧ w ≠ id := by
          intro w hw
          have hl := he.mapKey id w hw
          have hn : pn = false := by
            cases hn : pn with
            | false => rfl
            | true =>
              have := (hp.newOk rfl hn).2.1
              exact absurd (he.liveOk id hl).2.2 this
          refine ⟨by rw [← physOf_some f0 id w hw]; exact (hp.unfl rfl hn rfl).1, fun e => ?_⟩
          exact (eng_val f0 live he id w hw).2.2 (e ▸ hl)
        have hview : ∀ T2 : TxSt, T2.pages = tx1.pages → ∀ j, j ≠ id →
            txView f0 (T2.setPage
              { id := pid, ondisk := pond, bytes := pb, new_ := pn, freed := true, flushed := false, cached := pc })
              j = txView f0 tx j := by
          intro T2 hT j hj
          rw [← hv j]
          unfold txView
          rw [get?_setPage, hT]
          have : pid = id := hp.id
          simp only [this, if_neg hj]
        have hpid : pid = id := hp.id
        subst hpid
        by_cases hc : pid ≠ pond
        · rw [if_pos hc]
          have hm : ∃ w, Assoc.get? f0.walMap pid = some w := by
            cases hm : Assoc.get? f0.walMap pid with
            | some w => exact ⟨w, rfl⟩
            | none =>
              exfalso
              apply hc
              cases hn : pn with
              | true => exact ((hp.newOk rfl hn).1).symm
              | false => have := (hp.unfl rfl hn rfl).1; rw [physOf_none f0 pid hm] at this; exact this.symm
          obtain ⟨w, hw⟩ := hm
          have hpw : pond = w := (hold w hw).1
          subst hpw
          refine ⟨txinv_free_core he h1 pid hid _ hget rfl rfl rfl _ (relWal_free f0 _ pid pond hw) ?_, hview _ rfl⟩
          intro _ _
          simp [freeWalId, mem_insertId]
        · rw [if_neg hc]
          refine ⟨txinv_free_core he h1 pid hid _ hget rfl rfl rfl _ (relWal_none f0 _ pid hwnone) ?_, hview _ rfl⟩
          intro w hw
          obtain ⟨o1, o2⟩ := hold w hw
          exfalso; apply hc; intro e; exact o2 (o1 ▸ e.symm)

/-! ### where the current pages live on disk -/

theorem tgt_cases (f0 : FileSt) (tx : TxSt) (k : Nat) :
    (∃ w, Assoc.get? tx.walNew k = some w ∧ tgt f0 tx k = w) ∨
    (Assoc.get? tx.walNew k = none ∧ k ∈ tx.walFree ∧ tgt f0 tx k = k) ∨
    (Assoc.get? tx.walNew k = none ∧ k ∉ tx.walFree ∧ tgt f0 tx k = f0.physOf k) := by
  unfold tgt
  cases hw : Assoc.get? tx.walNew k with
  | some w => exact Or.inl ⟨w, rfl, rfl⟩
  | none =>
    by_cases hf : k ∈ tx.walFree
    · exact Or.inr (Or.inl ⟨rfl, hf, by simp [hf]⟩)
    · exact Or.inr (Or.inr ⟨rfl, hf, by simp [hf]⟩)

theorem tgt_inUse {f0 : FileSt} {live : List Nat} {f : FileSt} {tx : TxSt} {cur : List Nat}
    (he : EngInv f0 live) (h : TxInv f0 live f tx cur) (k : Nat) (hk : k ∈ cur) : InUse f.alloc (tgt f0 tx k) := by
  have hku := (h.curOk k hk).2.2.1
  rcases tgt_cases f0 tx k with ⟨w, hw, e⟩ | ⟨-, -, e⟩ | ⟨-, -, e⟩
  · rw [e]; exact (h.mAlloc.2 w (h.wn k w hw).2.1).1
  · rw [e]; exact hku
  · rw [e]
    by_cases hl : k ∈ live
    · exact h.keep _ (eng_phys f0 live he k hl).1
    · have := (tgt_fresh he h k hl).1
      rw [e] at this; rw [this]; exact hku

/-- two different current pages are never stored in the page with the id of one of them -/
theorem tgt_ne_cur {f0 : FileSt} {live : List Nat} {f : FileSt} {tx : TxSt} {cur : List Nat}
    (he : EngInv f0 live) (h : TxInv f0 live f tx cur) (k id : Nat) (hk : k ∈ cur) (hid : id ∈ cur ∨ id ∈ live)
    (hne : k ≠ id) : tgt f0 tx k ≠ id := by
  rcases tgt_cases f0 tx k with ⟨w, hw, e⟩ | ⟨-, -, e⟩ | ⟨-, -, e⟩
  · rw [e]; intro e2; subst e2
    rcases hid with hid | hid
    · exact (h.mAlloc.2 w (h.wn k w hw).2.1).2.2 hid
    · exact (h.mAlloc.2 w (h.wn k w hw).2.1).2.1 (he.liveOk w hid).2.2
  · rw [e]; exact hne
  · rw [e]
    by_cases hl : k ∈ live
    · cases hg : Assoc.get? f0.walMap k with
      | none => rw [physOf_none f0 k hg]; exact hne
      | some v =>
        rw [physOf_some f0 k v hg]
        have hv := eng_val f0 live he k v hg
        intro e2; subst e2
        rcases hid with hid | hid
        · rcases (h.curOk v hid).2.2.2 with c | c
          · exact hv.2.2 c
          · exact c hv.2.1
        · exact hv.2.2 hid
    · have := (tgt_fresh he h k hl).1
      rw [e] at this; rw [this]; exact hne

theorem relwal_globals {f0 : FileSt} {live : List Nat} {f : FileSt} {tx T T2 : TxSt} {cur : List Nat} {id : Nat}
    (h : TxInv f0 live f tx cur) (r : RelWal f0 T T2 id) (t2 : T.walNew = tx.walNew)
    (t3 : T.walFree = tx.walFree) (t6 : T.ta.mta.freed = tx.ta.mta.freed) :
    AscKeys T2.walNew ∧
    (∀ k1 k2 w, Assoc.get? T2.walNew k1 = some w → Assoc.get? T2.walNew k2 = some w → k1 = k2) ∧
    (∀ k ∈ T2.walFree, ∃ w, Assoc.get? f0.walMap k = some w) ∧
    (∀ x ∈ T2.ta.mta.freed, ∃ k, Assoc.get? f0.walMap k = some x ∧ k ∈ T2.walFree) ∧
    Asc T2.ta.mta.freed := by
  refine ⟨r.wnKeys (t2 ▸ h.newKeys), ?_, ?_, ?_, r.mfAsc (t6 ▸ h.mfAsc)⟩
  · intro k1 k2 w h1 h2
    have e1 : k1 ≠ id := fun e => by rw [e, r.wnSelf] at h1; cases h1
    have e2 : k2 ≠ id := fun e => by rw [e, r.wnSelf] at h2; cases h2
    rw [r.wnOther k1 e1, t2] at h1
    rw [r.wnOther k2 e2, t2] at h2
    exact h.wnInj k1 k2 w h1 h2
  · intro k hk
    by_cases e : k = id
    · subst e
      rcases r.wfSelf hk with h1 | h1
      · exact h.wfree k (t3 ▸ h1)
      · exact h1
    · exact h.wfree k (t3 ▸ (r.wfOther k e).mp hk)
  · intro x hx
    rcases r.mf x hx with h1 | h1
    · obtain ⟨k, hk1, hk2⟩ := h.mfreed x (t6 ▸ h1)
      exact ⟨k, hk1, r.wfMono k (t3 ▸ hk2)⟩
    · exact ⟨id, h1.1, h1.2⟩

theorem relwal_tail {f0 : FileSt} {live : List Nat} {f : FileSt} {tx T2 : TxSt} {cur : List Nat} {id : Nat}
    (h : TxInv f0 live f tx cur) (r : RelWal f0 tx T2 id) :
    (T2.ta.overflow = false → AOK2 f.alloc ∧ ∀ x ∈ T2.ta.mta.allocated, 2 ≤ x) ∧
    (∀ k ∈ live, k ∉ cur → ∀ w, Assoc.get? f0.walMap k = some w → k ∈ T2.walFree) := by
  refine ⟨?_, fun k hk hn w hw => r.wfMono k (h.gone k hk hn w hw)⟩
  intro hov
  rw [r.ovf] at hov
  rw [r.mAlloc]
  exact h.ov2 hov

/-! ### what growing the meta area leaves alone in the transaction's allocator state -/

def StSame (st st' : TxAlloc) : Prop :=
  st'.mta.allocated = st.mta.allocated ∧ st'.mta.freed = st.mta.freed ∧ st'.data.freed = st.data.freed ∧
  st'.overflow = st.overflow

theorem stSame_trans {a b c : TxAlloc} (h1 : StSame a b) (h2 : StSame b c) : StSame a c :=
  ⟨h2.1.trans h1.1, h2.2.1.trans h1.2.1, h2.2.2.1.trans h1.2.2.1, h2.2.2.2.trans h1.2.2.2⟩

theorem stSame_regions (a : Alloc) (st : TxAlloc) (n : Nat) (a' : Alloc) (st' : TxAlloc) (ids : List Nat)
    (h : dataAllocRegions a st n = some (a', st', ids)) : StSame st st' := by
  obtain ⟨_, _, _, _, _, _, _, _, _, _, _, _, _, _, _, _, hst⟩ := dataAllocRegions_spec _ _ _ _ _ _ h
  rw [hst]; exact ⟨rfl, rfl, rfl, rfl⟩

theorem stSame_continuous (a : Alloc) (st : TxAlloc) (n : Nat) (a' : Alloc) (st' : TxAlloc) (ids : List Nat)
    (h : dataAllocContinuous a st n = some (a', st', ids)) : StSame st st' := by
  unfold dataAllocContinuous at h
  by_cases hav : a.dataAvail < n
  · rw [if_pos hav] at h; cases h
  rw [if_neg hav] at h
  cases hc : allocContinuous a.data.free n with
  | some p =>
    obtain ⟨taken, rest⟩ := p
    rw [hc] at h
    simp only [Option.some.injEq, Prod.mk.injEq] at h
    obtain ⟨-, hst, -⟩ := h
    subst hst; exact ⟨rfl, rfl, rfl, rfl⟩
  | none =>
    simp only [hc] at h
    by_cases hroom : a.maxPages > 0 ∧ (if a.data.endMarker < a.maxPages then a.maxPages - a.data.endMarker else 0) < n
    · rw [if_pos hroom] at h; cases h
    · rw [if_neg hroom] at h
      simp only [Option.some.injEq, Prod.mk.injEq] at h
      obtain ⟨-, hst, -⟩ := h
      subst hst; exact ⟨rfl, rfl, rfl, rfl⟩

theorem stSame_tryGrow (a : Alloc) (st : TxAlloc) (count : Nat) (wo : Bool) (a' : Alloc) (st' : TxAlloc)
    (hr : tryGrow a st count wo = some (a', st')) : StSame st st' := by
  unfold tryGrow at hr
  dsimp only at hr
  by_cases hc0 : count = 0
  · rw [if_pos hc0] at hr
    simp only [Option.some.injEq, Prod.mk.injEq] at hr
    obtain ⟨-, hst⟩ := hr
    subst hst; exact ⟨rfl, rfl, rfl, rfl⟩
  · rw [if_neg hc0] at hr
    by_cases hav : a.dataAvail < count
    · rw [if_pos hav] at hr
      cases hwo : wo with
      | false => rw [hwo] at hr; simp at hr
      | true =>
        rw [hwo] at hr
        simp only [Bool.not_true, Bool.false_eq_true, if_false] at hr
        cases hreg : dataAllocRegions a st a.dataAvail with
        | none => rw [hreg] at hr; cases hr
        | some p =>
          obtain ⟨a1, st1, ids⟩ := p
          rw [hreg] at hr
          have s1 := stSame_regions a st _ a1 st1 ids hreg
          have s2 : StSame st1 (if ids.isEmpty then (a1, st1) else transferToMeta a1 st1 ids).2 := by
            split
            · exact ⟨rfl, rfl, rfl, rfl⟩
            · exact ⟨rfl, rfl, rfl, rfl⟩
          simp only [Option.some.injEq, Prod.mk.injEq] at hr
          obtain ⟨-, hst⟩ := hr
          rw [← hst]
          exact stSame_trans s1 (stSame_trans s2 ⟨rfl, rfl, rfl, rfl⟩)
    · rw [if_neg hav] at hr
      cases hcont : dataAllocContinuous a st count with
      | some p =>
        obtain ⟨a1, st1, ids⟩ := p
        rw [hcont] at hr
        simp only [Option.some.injEq] at hr
        have s1 := stSame_continuous a st count a1 st1 ids hcont
        have : StSame st1 (transferToMeta a1 st1 ids).2 := ⟨rfl, rfl, rfl, rfl⟩
        rw [hr] at this
        exact stSame_trans s1 this
      | none =>
        rw [hcont] at hr
        cases hreg : dataAllocRegions a st count with
        | none => rw [hreg] at hr; cases hr
        | some p =>
          obtain ⟨a1, st1, ids⟩ := p
          rw [hreg] at hr
          simp only [Option.some.injEq] at hr
          have s1 := stSame_regions a st _ a1 st1 ids hreg
          have : StSame st1 (transferToMeta a1 st1 ids).2 := ⟨rfl, rfl, rfl, rfl⟩
          rw [hr] at this
          exact stSame_trans s1 this

theorem stSame_ensureMeta (a : Alloc) (st : TxAlloc) (n : Nat) (a' : Alloc) (st' : TxAlloc)
    (hr : ensureMeta a st n = some (a', st')) : StSame st st' := by
  unfold ensureMeta at hr
  dsimp only at hr
  split at hr
  · simp only [Option.some.injEq, Prod.mk.injEq] at hr
    obtain ⟨-, hst⟩ := hr
    subst hst; exact ⟨rfl, rfl, rfl, rfl⟩
  · split at hr
    · rename_i r hg
      simp only [Option.some.injEq] at hr
      subst hr
      exact stSame_tryGrow a st _ _ a' st' hg
    · exact stSame_tryGrow a st _ _ a' st' hr

theorem walAlloc_st (a : Alloc) (st : TxAlloc) (a' : Alloc) (st' : TxAlloc) (w : Nat)
    (hr : walAlloc a st = some (a', st', w)) :
    st'.mta.allocated = insertId w st.mta.allocated ∧ st'.mta.freed = st.mta.freed ∧
    st'.data.freed = st.data.freed ∧ st'.overflow = st.overflow := by
  unfold walAlloc at hr
  split at hr
  · cases hr
  · rename_i a1 st1 he
    obtain ⟨s1, s2, s3, s4⟩ := stSame_ensureMeta a st 1 a1 st1 he
    split at hr
    · simp only [Option.some.injEq, Prod.mk.injEq] at hr
      obtain ⟨-, hst, hw⟩ := hr
      subst hst hw
      exact ⟨by rw [← s1], s2, s3, s4⟩
    · cases hr

theorem metaAllocRegions_st (a : Alloc) (st : TxAlloc) (n : Nat) (a' : Alloc) (st' : TxAlloc) (ids : List Nat)
    (hr : metaAllocRegions a st n = some (a', st', ids)) :
    st'.mta.allocated = unionIds ids st.mta.allocated ∧ st'.mta.freed = st.mta.freed ∧
    st'.data.freed = st.data.freed ∧ st'.overflow = st.overflow := by
  unfold metaAllocRegions at hr
  split at hr
  · cases hr
  · rename_i a1 st1 he
    obtain ⟨s1, s2, s3, s4⟩ := stSame_ensureMeta a st n a1 st1 he
    dsimp only at hr
    split at hr
    · cases hr
    · simp only [Option.some.injEq, Prod.mk.injEq] at hr
      obtain ⟨-, hst, hids⟩ := hr
      subst hst hids
      exact ⟨by rw [← s1], s2, s3, s4⟩

/-! ### flushing one page -/

theorem dirty_not_freed {f0 : FileSt} {live : List Nat} {f : FileSt} {tx : TxSt} {cur : List Nat} {k : Nat}
    {p : PageSt} (hp : PageOK f0 live f tx cur k p) (hd : p.dirty = true) : p.freed = false := by
  cases hf : p.freed with
  | false => rfl
  | true => have := hp.freedClean hf; rw [hd] at this; cases this

/-- flushing a page allocated by the transaction: written in place -/
theorem flush_new {f0 : FileSt} {live : List Nat} {f : FileSt} {tx : TxSt} {cur : List Nat}
    (he : EngInv f0 live) (h : TxInv f0 live f tx cur) (id : Nat) (p : PageSt)
    (hget : Assoc.get? tx.pages id = some p) (hd : p.dirty = true) (hfl : p.flushed = false)
    (hn : p.new_ = true) :
    TxInv f0 live { f with disk := Assoc.set f.disk p.ondisk (p.bytes.getD {}) }
      (tx.setPage { p with flushed := true }) cur := by
  have hp := h.pg id p hget
  have hfr := dirty_not_freed hp hd
  have hid : id ∈ cur := hp.inCur hfr
  obtain ⟨n1, n2, n3⟩ := hp.newOk hfr hn
  have hnl : id ∉ live := fun hl => n2 (he.liveOk id hl).2.2
  have hqid : ({ p with flushed := true } : PageSt).id = id := hp.id
  have hdisk : ∀ x, x ≠ id → ({ f with disk := Assoc.set f.disk p.ondisk (p.bytes.getD {}) } : FileSt).diskAt x
      = f.diskAt x := by
    intro x hx; rw [n1]; exact diskAt_set_ne f id x _ hx
  have hkeys : ∀ k, KeyOK f0 live { f with disk := Assoc.set f.disk p.ondisk (p.bytes.getD {}) }
      (tx.setPage { p with flushed := true }) cur k := by
    intro k
    by_cases hk : k = id
    · subst hk
      refine ⟨?_, ?_, ?_, ?_⟩
      · intro q hq
        rw [get?_setPage, hqid] at hq
        simp only [if_true, Option.some.injEq] at hq
        subst hq
        refine ⟨by first | exact hp.id | rfl, fun hf => (by rw [hfr] at hf; cases hf), fun _ => ⟨hd, hfr⟩,
          fun _ => hid, fun _ _ => ⟨n1, n2, n3⟩, fun _ hn' => (by rw [hn] at hn'; cases hn'), by simp, ?_,
          hp.dirtyB, fun _ hn' => (by rw [hn] at hn'; cases hn'), hp.cleanNew, hp.cachedB,
          fun hf => (by rw [hfr] at hf; cases hf)⟩
        intro _
        refine ⟨n1.trans n3.symm, ?_, fun hn' => (by rw [hn] at hn'; cases hn')⟩
        show FileSt.diskAt _ (tgt f0 tx k) = _
        rw [n3, n1]; exact diskAt_set_self f k _
      · intro _ hnone
        rw [get?_setPage, hqid] at hnone
        simp at hnone
      · intro w hw
        have : Assoc.get? tx.walNew k = some w := hw
        rw [(tgt_fresh he h k hnl).2] at this; cases this
      · intro _ w hw; exact absurd (he.mapKey k w hw) hnl
    · apply keyOK_other (txinv_key h k) hk (relWal_none f0 tx id (tgt_fresh he h id hnl).2) _ hqid rfl rfl rfl rfl rfl
        _ Iff.rfl
      intro hkc
      exact hdisk _ (tgt_ne_cur he h k id hkc (Or.inl hid) hk)
  refine ⟨h.sameMap, h.sameWP, h.inv, h.aok, h.keep, h.newKeys, ?_, fun k p => (hkeys k).pg p, h.curOk,
    fun k => (hkeys k).curNone, fun k => (hkeys k).wn, h.wnInj, h.wfree, fun hc k => (hkeys k).ck hc, h.dfreed,
    h.mfreed, h.mfAsc, h.mAlloc, h.ov2, h.gone⟩
  intro j hj
  rw [hdisk _ (fun e => n2 (e ▸ (eng_phys f0 live he j hj).1))]
  exact h.r0 j hj

/-- flushing a page that had an overwrite page: written back to its own page, the overwrite page is released -/
theorem flush_mapped {f0 : FileSt} {live : List Nat} {f : FileSt} {tx : TxSt} {cur : List Nat}
    (he : EngInv f0 live) (h : TxInv f0 live f tx cur) (id : Nat) (p : PageSt)
    (hget : Assoc.get? tx.pages id = some p) (hd : p.dirty = true) (hfl : p.flushed = false)
    (hn : p.new_ = false) (hne : id ≠ p.ondisk) :
    TxInv f0 live { f with disk := Assoc.set f.disk id (p.bytes.getD {}) }
      ((freeWalId tx id p.ondisk).setPage { p with ondisk := id, flushed := true }) cur := by
  have hp := h.pg id p hget
  have hfr := dirty_not_freed hp hd
  have hid : id ∈ cur := hp.inCur hfr
  have hl : id ∈ live := hp.oldOk hfr hn
  obtain ⟨u1, u2⟩ := hp.unfl hfr hn hfl
  have hm : Assoc.get? f0.walMap id = some p.ondisk := by
    cases hm : Assoc.get? f0.walMap id with
    | some w => rw [u1, physOf_some f0 id w hm]
    | none => rw [u1, physOf_none f0 id hm] at hne; exact absurd rfl hne
  have hqid : ({ p with ondisk := id, flushed := true } : PageSt).id = id := hp.id
  have r := relWal_free f0 tx id p.ondisk hm
  have hself : id ∈ (freeWalId tx id p.ondisk).walFree := by simp [freeWalId, mem_insertId]
  have htgt : tgt f0 ((freeWalId tx id p.ondisk).setPage { p with ondisk := id, flushed := true }) id = id := by
    unfold tgt
    have : Assoc.get? ((freeWalId tx id p.ondisk).setPage { p with ondisk := id, flushed := true }).walNew id = none :=
      r.wnSelf
    rw [this]
    simp only []
    exact if_pos hself
  have hdisk : ∀ x, x ≠ id → ({ f with disk := Assoc.set f.disk id (p.bytes.getD {}) } : FileSt).diskAt x
      = f.diskAt x := fun x hx => diskAt_set_ne f id x _ hx
  have hkeys : ∀ k, KeyOK f0 live { f with disk := Assoc.set f.disk id (p.bytes.getD {}) }
      ((freeWalId tx id p.ondisk).setPage { p with ondisk := id, flushed := true }) cur k := by
    intro k
    by_cases hk : k = id
    · subst hk
      refine ⟨?_, ?_, ?_, ?_⟩
      · intro q hq
        rw [get?_setPage, hqid] at hq
        simp only [if_true, Option.some.injEq] at hq
        subst hq
        refine ⟨by first | exact hp.id | rfl, fun hf => (by rw [hfr] at hf; cases hf), fun _ => ⟨hd, hfr⟩,
          fun _ => hid, fun _ hn' => (by rw [hn] at hn'; cases hn'), fun _ _ => hl, by simp, ?_,
          hp.dirtyB, fun _ _ hd' => (by rw [hd] at hd'; cases hd'), hp.cleanNew, hp.cachedB,
          fun hf => (by rw [hfr] at hf; cases hf)⟩
        intro _
        rw [htgt]
        exact ⟨rfl, diskAt_set_self f k _, fun _ => by rw [physOf_some f0 k p.ondisk hm]; exact hne⟩
      · intro _ hnone
        rw [get?_setPage, hqid] at hnone
        simp at hnone
      · intro w hw
        have : Assoc.get? (freeWalId tx k p.ondisk).walNew k = some w := hw
        rw [r.wnSelf] at this; cases this
      · intro _ w _; exact Or.inl hself
    · apply keyOK_other (txinv_key h k) hk r _ hqid rfl rfl rfl rfl rfl _ Iff.rfl
      intro hkc
      exact hdisk _ (tgt_ne_cur he h k id hkc (Or.inl hid) hk)
  obtain ⟨g1, g2, g3, g4, g5⟩ := relwal_globals h r rfl rfl rfl
  refine ⟨h.sameMap, h.sameWP, r.inv _ _ h.inv, h.aok, h.keep, g1, ?_, fun k p => (hkeys k).pg p, h.curOk,
    fun k => (hkeys k).curNone, fun k => (hkeys k).wn, g2, g3, fun hc k => (hkeys k).ck hc, h.dfreed,
    g4, g5, h.mAlloc, (relwal_tail h r).1, (relwal_tail h r).2⟩
  intro j hj
  have : f0.physOf j ≠ id := by
    intro e
    have e2 := (eng_phys f0 live he j hj).2 (e ▸ hl)
    rw [e2] at e; subst e
    rw [physOf_some f0 j p.ondisk hm] at e2
    exact hne e2.symm
  rw [hdisk _ this]
  exact h.r0 j hj

/-- flushing a committed page for the first time: written to a fresh overwrite page -/
theorem flush_wal {f0 : FileSt} {live : List Nat} {f : FileSt} {tx : TxSt} {cur : List Nat}
    (he : EngInv f0 live) (h : TxInv f0 live f tx cur) (id : Nat) (p : PageSt)
    (hget : Assoc.get? tx.pages id = some p) (hd : p.dirty = true) (hfl : p.flushed = false)
    (hn : p.new_ = false) (heq : id = p.ondisk) (a : Alloc) (ta : TxAlloc) (w : Nat)
    (hwa : walAlloc f.alloc tx.ta = some (a, ta, w)) :
    TxInv f0 live { f with alloc := a, disk := Assoc.set f.disk w (p.bytes.getD {}) }
      (({ tx with ta := ta, walNew := Assoc.set tx.walNew id w } : TxSt).setPage
        { p with ondisk := w, flushed := true }) cur := by
  have hp := h.pg id p hget
  have hfr := dirty_not_freed hp hd
  have hid : id ∈ cur := hp.inCur hfr
  have hl : id ∈ live := hp.oldOk hfr hn
  obtain ⟨u1, u2⟩ := hp.unfl hfr hn hfl
  have hm : Assoc.get? f0.walMap id = none := by
    cases hm : Assoc.get? f0.walMap id with
    | none => rfl
    | some v =>
      rw [u1, physOf_some f0 id v hm] at heq
      exact absurd (heq ▸ hl) (eng_val f0 live he id v hm).2.2
  obtain ⟨hok, hkeep, hnu, hu⟩ := fr_walAlloc f.alloc tx.ta a ta w h.aok hwa
  have hinv := inv_walAlloc f0.alloc f.alloc tx.ta a ta w he.wf h.inv hwa
  obtain ⟨s1, s2, s3, s4⟩ := walAlloc_st f.alloc tx.ta a ta w hwa
  have hnu0 : ¬ InUse f0.alloc w := fun hc => hnu (h.keep w hc)
  have hqid : ({ p with ondisk := w, flushed := true } : PageSt).id = id := hp.id
  have hdisk : ∀ x, x ≠ w → ({ f with alloc := a, disk := Assoc.set f.disk w (p.bytes.getD {}) } : FileSt).diskAt x
      = f.diskAt x := fun x hx => diskAt_set_ne f w x _ hx
  have hkeys : ∀ k, KeyOK f0 live { f with alloc := a, disk := Assoc.set f.disk w (p.bytes.getD {}) }
      (({ tx with ta := ta, walNew := Assoc.set tx.walNew id w } : TxSt).setPage
        { p with ondisk := w, flushed := true }) cur k := by
    intro k
    by_cases hk : k = id
    · subst hk
      have hwn : Assoc.get? (({ tx with ta := ta, walNew := Assoc.set tx.walNew k w } : TxSt).setPage
          { p with ondisk := w, flushed := true }).walNew k = some w := Assoc.get?_set_self _ _ _
      have htgt : tgt f0 (({ tx with ta := ta, walNew := Assoc.set tx.walNew k w } : TxSt).setPage
          { p with ondisk := w, flushed := true }) k = w := by
        unfold tgt; rw [hwn]
      refine ⟨?_, ?_, ?_, ?_⟩
      · intro q hq
        rw [get?_setPage, hqid] at hq
        simp only [if_true, Option.some.injEq] at hq
        subst hq
        refine ⟨by first | exact hp.id | rfl, fun hf => (by rw [hfr] at hf; cases hf), fun _ => ⟨hd, hfr⟩,
          fun _ => hid, fun _ hn' => (by rw [hn] at hn'; cases hn'), fun _ _ => hl, by simp, ?_,
          hp.dirtyB, fun _ _ hd' => (by rw [hd] at hd'; cases hd'), hp.cleanNew, hp.cachedB,
          fun hf => (by rw [hfr] at hf; cases hf)⟩
        intro _
        rw [htgt]
        refine ⟨rfl, diskAt_set_self _ w _, fun _ => ?_⟩
        rw [physOf_none f0 k hm]
        exact fun e => hnu (e ▸ (h.curOk k hid).2.2.1)
      · intro _ hnone
        rw [get?_setPage, hqid] at hnone
        simp at hnone
      · intro w' hw'
        rw [hwn] at hw'
        cases hw'
        refine ⟨hnu0, ?_, hl, hm, { p with ondisk := w, flushed := true }, by rw [get?_setPage, hqid]; simp, rfl⟩
        show w ∈ ta.mta.allocated
        rw [s1, mem_insertId]; exact Or.inl rfl
      · intro _ v hv; rw [hm] at hv; cases hv
    · apply keyOK_congr (txinv_key h k)
      · rw [get?_setPage, hqid, if_neg hk]
      · exact Assoc.get?_set_ne _ _ _ _ hk
      · exact Iff.rfl
      · intro hkc
        exact hdisk _ (fun e => hnu (e ▸ tgt_inUse he h k hkc))
      · exact Iff.rfl
      · intro x hx
        show x ∈ ta.mta.allocated
        rw [s1, mem_insertId]; exact Or.inr hx
      · exact fun hc => hc
  refine ⟨h.sameMap, h.sameWP, hinv, hok, fun x hx => hkeep x (h.keep x hx), ascKeys_set _ _ _ h.newKeys, ?_,
    fun k p => (hkeys k).pg p, ?_, fun k => (hkeys k).curNone, fun k => (hkeys k).wn, ?_, h.wfree,
    fun hc k => (hkeys k).ck hc, ?_, ?_, ?_, ?_, ?_, h.gone⟩
  · intro j hj
    rw [hdisk _ (fun e => hnu0 (e ▸ (eng_phys f0 live he j hj).1))]
    exact h.r0 j hj
  · intro k hk
    obtain ⟨c1, c2, c3, c4⟩ := h.curOk k hk
    exact ⟨c1, c2, hkeep k c3, c4⟩
  · intro k1 k2 v h1 h2
    have key : ∀ k, Assoc.get? (Assoc.set tx.walNew id w) k = some v → (k = id ∧ v = w) ∨
        (k ≠ id ∧ Assoc.get? tx.walNew k = some v ∧ v ≠ w) := by
      intro k hk
      by_cases e : k = id
      · subst e; rw [Assoc.get?_set_self] at hk; cases hk; exact Or.inl ⟨rfl, rfl⟩
      · rw [Assoc.get?_set_ne _ _ _ _ e] at hk
        exact Or.inr ⟨e, hk, fun e2 => hnu (e2 ▸ (h.mAlloc.2 v (h.wn k v hk).2.1).1)⟩
    rcases key k1 h1 with ⟨a1, a2⟩ | ⟨a1, a2, a3⟩ <;> rcases key k2 h2 with ⟨b1, b2⟩ | ⟨b1, b2, b3⟩
    · rw [a1, b1]
    · exact absurd a2 b3
    · exact absurd b2 a3
    · exact h.wnInj k1 k2 v a2 b2
  · intro x hx
    have hx' : x ∈ tx.ta.data.freed := s3 ▸ hx
    obtain ⟨d1, d2, d3, d4, d5, d6⟩ := h.dfreed x hx'
    refine ⟨d1, d2, d3, hkeep x d4, d5, ?_⟩
    show x ∉ ta.mta.allocated
    rw [s1, mem_insertId]
    intro hc
    rcases hc with hc | hc
    · exact hnu (hc ▸ d4)
    · exact d6 hc
  · intro x hx
    exact h.mfreed x (s2 ▸ hx)
  · show Asc ta.mta.freed
    rw [s2]; exact h.mfAsc
  · refine ⟨?_, ?_⟩
    · show Asc ta.mta.allocated
      rw [s1]; exact asc_insertId _ _ h.mAlloc.1
    · intro x hx
      have hx' : x ∈ insertId w tx.ta.mta.allocated := s1 ▸ hx
      rcases (mem_insertId w x _).mp hx' with e | e
      · subst e
        exact ⟨hu, hnu0, fun hc => hnu (h.curOk x hc).2.2.1⟩
      · obtain ⟨m1, m2, m3⟩ := h.mAlloc.2 x e
        exact ⟨hkeep x m1, m2, m3⟩
  · intro hov
    have hov' : tx.ta.overflow = false := by
      have : ta.overflow = false := hov
      rw [s4] at this; exact this
    obtain ⟨o1, o2⟩ := h.ov2 hov'
    obtain ⟨c1, c2⟩ := a2_walAlloc f.alloc tx.ta a ta w h.aok o1 hov' hwa
    refine ⟨c1, ?_⟩
    intro x hx
    have hx' : x ∈ insertId w tx.ta.mta.allocated := s1 ▸ hx
    rcases (mem_insertId w x _).mp hx' with e | e
    · rw [e]; exact c2
    · exact o2 x e

theorem txView_flushPage (f0 : FileSt) (tx T : TxSt) (id : Nat) (p q : PageSt) (hT : T.pages = tx.pages)
    (hget : Assoc.get? tx.pages id = some p) (e1 : q.id = id) (e2 : q.dirty = p.dirty) (e3 : q.bytes = p.bytes)
    (e4 : q.new_ = p.new_) (j : Nat) : txView f0 (T.setPage q) j = txView f0 tx j := by
  unfold txView
  rw [get?_setPage, hT, e1]
  by_cases hj : j = id
  · subst hj
    rw [if_pos rfl, hget]
    simp only [pView, e2, e3, e4]
  · rw [if_neg hj]

theorem txinv_doFlush {f0 : FileSt} {live : List Nat} {f : FileSt} {tx : TxSt} {cur : List Nat}
    (he : EngInv f0 live) (h : TxInv f0 live f tx cur) (id : Nat) (p : PageSt)
    (hget : Assoc.get? tx.pages id = some p) (f' : FileSt) (tx' : TxSt) (w : Option Nat)
    (hw : doFlush f tx p = .ok (f', tx', w)) :
    TxInv f0 live f' tx' cur ∧ ∀ j, txView f0 tx' j = txView f0 tx j := by
  have hp := h.pg id p hget
  have hpid := hp.id
  obtain ⟨pid, pond, pb, pn, pfr, pfl, pc, pdirty⟩ := p
  simp only at hpid
  subst hpid
  unfold doFlush at hw
  cases pdirty with
  | false =>
    simp only [Bool.not_false, Bool.true_or, if_true, Except.ok.injEq, Prod.mk.injEq] at hw
    obtain ⟨rfl, rfl, -⟩ := hw
    exact ⟨h, fun _ => rfl⟩
  | true =>
    cases pfl with
    | true =>
      simp only [Bool.not_true, Bool.or_true, if_true, Except.ok.injEq, Prod.mk.injEq] at hw
      obtain ⟨rfl, rfl, -⟩ := hw
      exact ⟨h, fun _ => rfl⟩
    | false =>
      simp only [Bool.not_true, Bool.or_self, Bool.false_eq_true, if_false] at hw
      cases pn with
      | true =>
        simp only [if_true, Except.ok.injEq, Prod.mk.injEq] at hw
        obtain ⟨rfl, rfl, -⟩ := hw
        exact ⟨flush_new he h pid _ hget rfl rfl rfl, txView_flushPage f0 tx tx pid _ _ rfl hget rfl rfl rfl rfl⟩
      | false =>
        simp only [Bool.false_eq_true, if_false] at hw
        by_cases heq : pid = pond
        · subst heq
          simp only [if_true] at hw
          cases hwa : walAlloc f.alloc tx.ta with
          | none => simp [hwa] at hw
          | some r =>
            obtain ⟨a, ta, w'⟩ := r
            simp only [hwa, Except.ok.injEq, Prod.mk.injEq] at hw
            obtain ⟨rfl, rfl, -⟩ := hw
            exact ⟨flush_wal he h pid _ hget rfl rfl rfl rfl a ta w' hwa,
              txView_flushPage f0 tx _ pid _ _ rfl hget rfl rfl rfl rfl⟩
        · simp only [heq, if_false, Except.ok.injEq, Prod.mk.injEq] at hw
          obtain ⟨rfl, rfl, -⟩ := hw
          exact ⟨flush_mapped he h pid _ hget rfl rfl rfl heq,
            txView_flushPage f0 tx _ pid _ _ rfl hget rfl rfl rfl rfl⟩

theorem txinv_flushList {f0 : FileSt} {live : List Nat} {cur : List Nat} (he : EngInv f0 live) (ids : List Nat) :
    ∀ (f : FileSt) (tx : TxSt), TxInv f0 live f tx cur → ∀ (f' : FileSt) (tx' : TxSt) (ws : List (Nat × Nat)),
    flushList f tx ids = .ok (f', tx', ws) →
    TxInv f0 live f' tx' cur ∧ ∀ j, txView f0 tx' j = txView f0 tx j := by
  induction ids with
  | nil =>
    intro f tx h f' tx' ws hw
    simp only [flushList, Except.ok.injEq, Prod.mk.injEq] at hw
    obtain ⟨rfl, rfl, -⟩ := hw
    exact ⟨h, fun _ => rfl⟩
  | cons id ids ih =>
    intro f tx h f' tx' ws hw
    unfold flushList at hw
    cases hg : Assoc.get? tx.pages id with
    | none => simp [hg] at hw
    | some p =>
      simp only [hg] at hw
      cases hf : doFlush f tx p with
      | error e => simp [hf] at hw
      | ok r =>
        obtain ⟨f1, tx1, w⟩ := r
        simp only [hf] at hw
        obtain ⟨h1, v1⟩ := txinv_doFlush he h id p hg f1 tx1 w hf
        cases hr : flushList f1 tx1 ids with
        | error e => simp [hr] at hw
        | ok r2 =>
          obtain ⟨f2, tx2, ws2⟩ := r2
          simp only [hr, Except.ok.injEq, Prod.mk.injEq] at hw
          obtain ⟨rfl, rfl, -⟩ := hw
          obtain ⟨h2, v2⟩ := ih f1 tx1 h1 f2 tx2 ws2 hr
          exact ⟨h2, fun j => (v2 j).trans (v1 j)⟩

/-! ### checkpoint -/

theorem txinv_ckptOne {f0 : FileSt} {live : List Nat} {f : FileSt} {tx : TxSt} {cur : List Nat}
    (he : EngInv f0 live) (h : TxInv f0 live f tx cur) (k v : Nat) (hm : Assoc.get? f0.walMap k = some v)
    (hclean : ∀ p, Assoc.get? tx.pages k = some p → p.dirty = false) :
    TxInv f0 live { f with disk := Assoc.set f.disk k (f.diskAt v) } (freeWalId tx k v) cur := by
  have hl : k ∈ live := he.mapKey k v hm
  have hv := eng_val f0 live he k v hm
  have r := relWal_free f0 tx k v hm
  have hself : k ∈ (freeWalId tx k v).walFree := by simp [freeWalId, mem_insertId]
  have htgt : tgt f0 (freeWalId tx k v) k = k := by
    unfold tgt
    rw [r.wnSelf]
    simp only []
    exact if_pos hself
  have hdisk : ∀ x, x ≠ k → ({ f with disk := Assoc.set f.disk k (f.diskAt v) } : FileSt).diskAt x = f.diskAt x :=
    fun x hx => diskAt_set_ne f k x _ hx
  have hcopy : ({ f with disk := Assoc.set f.disk k (f.diskAt v) } : FileSt).diskAt k = f0.readPage k := by
    rw [diskAt_set_self]
    have := h.r0 k hl
    rw [physOf_some f0 k v hm] at this
    rw [this]; unfold FileSt.readPage; rw [physOf_some f0 k v hm]
  have hkeys : ∀ j, KeyOK f0 live { f with disk := Assoc.set f.disk k (f.diskAt v) } (freeWalId tx k v) cur j := by
    intro j
    by_cases hj : j = k
    · subst hj
      refine ⟨?_, ?_, ?_, ?_⟩
      · intro p hp
        have hp' : Assoc.get? tx.pages j = some p := hp
        have hd := hclean p hp'
        have ho := h.pg j p hp'
        have hfl : p.flushed = false := by
          cases hf : p.flushed with
          | false => rfl
          | true => have := (ho.flDirty hf).1; rw [hd] at this; cases this
        refine ⟨ho.id, ho.freedClean, ho.flDirty, ho.inCur, ?_, ho.oldOk, ?_, fun hf => (by rw [hfl] at hf; cases hf),
          ho.dirtyB, ?_, ho.cleanNew, ho.cachedB, ho.notCur⟩
        · intro hfr hn; exact absurd (he.liveOk j hl).2.2 (ho.newOk hfr hn).2.1
        · intro hfr hn _; exact ⟨(ho.unfl hfr hn hfl).1, r.wnSelf⟩
        · intro hfr hn hd'
          rw [htgt]
          exact ⟨(ho.cleanOld hfr hn hd').1, hcopy⟩
      · intro _ _; rw [htgt]; exact ⟨hl, hcopy⟩
      · intro w hw
        have : Assoc.get? (freeWalId tx j v).walNew j = some w := hw
        rw [r.wnSelf] at this; cases this
      · intro _ _ _; exact Or.inl hself
    · apply keyOK_congr (txinv_key h j)
      · rfl
      · exact r.wnOther j hj
      · exact r.wfOther j hj
      · intro hjc
        exact hdisk _ (tgt_ne_cur he h j k hjc (Or.inr hl) hj)
      · exact Iff.rfl
      · intro x hx; exact hx
      · exact fun hc => hc
  obtain ⟨g1, g2, g3, g4, g5⟩ := relwal_globals h r rfl rfl rfl
  refine ⟨h.sameMap, h.sameWP, r.inv _ _ h.inv, h.aok, h.keep, g1, ?_, fun k p => (hkeys k).pg p, h.curOk,
    fun k => (hkeys k).curNone, fun k => (hkeys k).wn, g2, g3, fun hc k => (hkeys k).ck hc, h.dfreed,
    g4, g5, h.mAlloc, (relwal_tail h r).1, (relwal_tail h r).2⟩
  intro j hj
  have : f0.physOf j ≠ k := by
    intro e
    have e2 := (eng_phys f0 live he j hj).2 (e ▸ hl)
    rw [e2] at e; subst e
    rw [physOf_some f0 j v hm] at e2
    exact hv.2.2 (e2 ▸ hl)
  rw [hdisk _ this]
  exact h.r0 j hj

theorem txView_pages (f0 : FileSt) (tx tx' : TxSt) (h : tx'.pages = tx.pages) (j : Nat) :
    txView f0 tx' j = txView f0 tx j := by
  unfold txView; rw [h]

theorem txinv_ckptFold {f0 : FileSt} {live : List Nat} {cur : List Nat} (he : EngInv f0 live)
    (pages0 : Assoc PageSt) (l : Assoc Nat) :
    ∀ (f : FileSt) (tx : TxSt), TxInv f0 live f tx cur → tx.pages = pages0 →
    (∀ e ∈ l, Assoc.get? f0.walMap e.1 = some e.2 ∧ ∀ p, Assoc.get? pages0 e.1 = some p → p.dirty = false) →
    TxInv f0 live (l.foldl ckptOne (f, tx)).1 (l.foldl ckptOne (f, tx)).2 cur ∧
    (l.foldl ckptOne (f, tx)).2.pages = pages0 ∧
    (l.foldl ckptOne (f, tx)).2.checkpoint = tx.checkpoint ∧
    (∀ k, k ∈ tx.walFree → k ∈ (l.foldl ckptOne (f, tx)).2.walFree) ∧
    (∀ e ∈ l, e.1 ∈ (l.foldl ckptOne (f, tx)).2.walFree) := by
  induction l with
  | nil => intro f tx h hp _; exact ⟨h, hp, rfl, fun _ hk => hk, fun _ he => nomatch he⟩
  | cons e l ih =>
    intro f tx h hp hl
    rw [List.foldl_cons]
    obtain ⟨e1, e2⟩ := hl e List.mem_cons_self
    have h1 := txinv_ckptOne he h e.1 e.2 e1 (by rw [hp]; exact e2)
    obtain ⟨i1, i2, i3, i4, i5⟩ := ih _ _ h1 hp (fun x hx => hl x (List.mem_cons_of_mem _ hx))
    have hmono : ∀ k, k ∈ tx.walFree → k ∈ (ckptOne (f, tx) e).2.walFree := by
      intro k hk; simp [ckptOne, freeWalId, mem_insertId, hk]
    refine ⟨i1, i2, i3, fun k hk => i4 k (hmono k hk), ?_⟩
    intro x hx
    rcases List.mem_cons.mp hx with hx | hx
    · subst hx
      apply i4
      simp [freeWalId, mem_insertId]
    · exact i5 x hx

theorem txinv_setCkpt {f0 : FileSt} {live : List Nat} {f : FileSt} {T : TxSt} {cur : List Nat}
    (h : TxInv f0 live f T cur)
    (hck : ∀ k w, Assoc.get? f0.walMap k = some w →
      k ∈ T.walFree ∨ ∃ p, Assoc.get? T.pages k = some p ∧ p.dirty = true ∧ p.flushed = false) :
    TxInv f0 live f { T with checkpoint := true } cur :=
  ⟨h.sameMap, h.sameWP, h.inv, h.aok, h.keep, h.newKeys, h.r0,
    fun k p hp => pageOK_congr (h.pg k p hp) rfl rfl (fun _ => rfl) (fun _ hc => hc) (fun _ hc => hc), h.curOk,
    h.curNone, h.wn,
    h.wnInj, h.wfree, fun _ => hck, h.dfreed, h.mfreed, h.mfAsc, h.mAlloc, h.ov2, h.gone⟩

theorem dirty_mapped_covered {f0 : FileSt} {live : List Nat} {f : FileSt} {tx : TxSt} {cur : List Nat}
    (he : EngInv f0 live) (h : TxInv f0 live f tx cur) (k w : Nat) (hm : Assoc.get? f0.walMap k = some w)
    (p : PageSt) (hp : Assoc.get? tx.pages k = some p) (hd : p.dirty = true) :
    k ∈ tx.walFree ∨ ∃ p, Assoc.get? tx.pages k = some p ∧ p.dirty = true ∧ p.flushed = false := by
  cases hf : p.flushed with
  | false => exact Or.inr ⟨p, hp, hd, hf⟩
  | true =>
    left
    have ho := h.pg k p hp
    have hl := he.mapKey k w hm
    have hfr := dirty_not_freed ho hd
    have hn : p.new_ = false := by
      cases hn : p.new_ with
      | false => rfl
      | true => exact absurd (he.liveOk k hl).2.2 (ho.newOk hfr hn).2.1
    have hne := (ho.fl hf).2.2 hn
    rcases tgt_cases f0 tx k with ⟨w', hw', _⟩ | ⟨_, hk, _⟩ | ⟨_, _, e⟩
    · have := (h.wn k w' hw').2.2.2.1
      rw [hm] at this; cases this
    · exact hk
    · exact absurd e hne

theorem txinv_doCheckpoint {f0 : FileSt} {live : List Nat} {f : FileSt} {tx : TxSt} {cur : List Nat}
    (he : EngInv f0 live) (h : TxInv f0 live f tx cur) :
    TxInv f0 live (doCheckpoint f tx).1 (doCheckpoint f tx).2.1 cur ∧
    (doCheckpoint f tx).2.1.pages = tx.pages ∧
    (∀ k w, Assoc.get? f0.walMap k = some w → k ∈ (doCheckpoint f tx).2.1.walFree ∨
      ∃ p, Assoc.get? tx.pages k = some p ∧ p.dirty = true ∧ p.flushed = false) := by
  -- what the entries of `ckptTodo` are
  have htodo : ∀ e, e ∈ ckptTodo f tx ↔ e ∈ f0.walMap ∧
      (match Assoc.get? tx.pages e.1 with | some p => !p.dirty | none => true) = true := by
    intro e; unfold ckptTodo; rw [List.mem_filter, h.sameMap]; exact Iff.rfl
  have hnot : ∀ k w, Assoc.get? f0.walMap k = some w → (k, w) ∉ ckptTodo f tx →
      k ∈ tx.walFree ∨ ∃ p, Assoc.get? tx.pages k = some p ∧ p.dirty = true ∧ p.flushed = false := by
    intro k w hm hn
    rw [htodo] at hn
    cases hp : Assoc.get? tx.pages k with
    | none => exact absurd ⟨Assoc.mem_of_get? _ _ _ hm, by simp [hp]⟩ hn
    | some p =>
      cases hd : p.dirty with
      | false => exact absurd ⟨Assoc.mem_of_get? _ _ _ hm, by simp [hp, hd]⟩ hn
      | true =>
        rcases dirty_mapped_covered he h k w hm p hp hd with h1 | ⟨q, hq, h2, h3⟩
        · exact Or.inl h1
        · exact Or.inr ⟨q, hp.symm.trans hq, h2, h3⟩
  unfold doCheckpoint
  by_cases hc : tx.checkpoint = true
  · rw [if_pos hc]; exact ⟨h, rfl, h.ck hc⟩
  rw [if_neg hc]
  by_cases hemp : (ckptTodo f tx).isEmpty = true
  · rw [if_pos hemp]
    refine ⟨h, rfl, ?_⟩
    intro k w hm
    apply hnot k w hm
    rw [List.isEmpty_iff] at hemp
    rw [hemp]; exact List.not_mem_nil
  rw [if_neg hemp]
  have hl : ∀ e ∈ ckptTodo f tx, Assoc.get? f0.walMap e.1 = some e.2 ∧
      ∀ p, Assoc.get? tx.pages e.1 = some p → p.dirty = false := by
    intro e hin
    rw [htodo] at hin
    refine ⟨Assoc.get?_of_mem _ he.keys e.1 e.2 hin.1, ?_⟩
    intro p hp
    have := hin.2
    rw [hp] at this
    simpa using this
  obtain ⟨i1, i2, i3, i4, i5⟩ := txinv_ckptFold he tx.pages (ckptTodo f tx) f tx h rfl hl
  have hck : ∀ k w, Assoc.get? f0.walMap k = some w →
      k ∈ ((ckptTodo f tx).foldl ckptOne (f, tx)).2.walFree ∨
      ∃ p, Assoc.get? tx.pages k = some p ∧ p.dirty = true ∧ p.flushed = false := by
    intro k w hm
    by_cases hin : (k, w) ∈ ckptTodo f tx
    · exact Or.inl (i5 (k, w) hin)
    · rcases hnot k w hm hin with h1 | h1
      · exact Or.inl (i4 k h1)
      · exact Or.inr h1
  exact ⟨txinv_setCkpt i1 (by rw [i2]; exact hck), i2, hck⟩

/-! ### operation lists of one write transaction -/

/-- what a client can do inside a write transaction -/
inductive EOp
  | alloc (n : Nat)                             -- Tx.Alloc / AllocN
  | write (id : Nat) (mode : WMode) (s : Nat)   -- SetBytes / Load+modify+MarkDirty
  | load (id : Nat)                             -- Page.Load
  | read (id : Nat)                             -- Page.Bytes
  | free (id : Nat)                             -- Page.Free
  | flushPage (id : Nat)                        -- Page.Flush
  | flushAll (order : List Nat)                 -- Tx.Flush, in any order
  | checkpoint                                  -- Tx.CheckpointWAL
  deriving Repr, DecidableEq, Inhabited

/-- a running write transaction: engine state, the pages the client owns, and the abstract store
    (`none`: a fresh page whose content is not determined yet) -/
structure ERunSt where
  f : FileSt
  tx : TxSt
  cur : List Nat
  σ : Nat → Option Content

/-- `Page.Flush` of one page as the harness drives it -/
def flushPageOp (f : FileSt) (tx : TxSt) (id : Nat) : Except Err (FileSt × TxSt × Option Nat) := do
  let (tx, p) ← getPage f tx id
  pageCanWrite p
  doFlush f tx p

/-- one operation; failing operations change nothing (the code returns an error); the client only
    addresses pages it owns. The abstract store follows the successful writes and allocations. -/
def EOp.step (s : ERunSt) : EOp → ERunSt
  | .alloc n =>
    match txAlloc s.f s.tx n with
    | .ok (f, tx, ids) => { f, tx, cur := s.cur ++ ids, σ := fun j => if j ∈ ids then none else s.σ j }
    | .error _ => s
  | .write id mode st =>
    if id ∈ s.cur then
      match txWrite s.f s.tx id mode st with
      | .ok tx => { s with tx, σ := fun j => if j = id then some (wr mode id st ((s.σ id).getD {})) else s.σ j }
      | .error _ => s
    else s
  | .load id =>
    if id ∈ s.cur then match txLoad s.f s.tx id with | .ok tx => { s with tx } | .error _ => s else s
  | .read id =>
    if id ∈ s.cur then match txRead s.f s.tx id with | .ok (tx, _) => { s with tx } | .error _ => s else s
  | .free id =>
    if id ∈ s.cur then
      match txFree s.f s.tx id with
      | .ok (f, tx) => { s with f, tx, cur := s.cur.filter (fun x => x != id) }
      | .error _ => s
    else s
  | .flushPage id =>
    if id ∈ s.cur then
      match flushPageOp s.f s.tx id with | .ok (f, tx, _) => { s with f, tx } | .error _ => s
    else s
  | .flushAll order =>
    match flushList s.f s.tx order with | .ok (f, tx, _) => { s with f, tx } | .error _ => s
  | .checkpoint => { s with f := (doCheckpoint s.f s.tx).1, tx := (doCheckpoint s.f s.tx).2.1 }

def runEOps (s : ERunSt) (ops : List EOp) : ERunSt := ops.foldl EOp.step s

/-- the engine state and the abstract store agree inside the transaction -/
structure RunInv (f0 : FileSt) (live : List Nat) (s : ERunSt) : Prop where
  tx : TxInv f0 live s.f s.tx s.cur
  view : ∀ j ∈ s.cur, s.σ j = txView f0 s.tx j

theorem txinv_flushPageOp {f0 : FileSt} {live : List Nat} {f : FileSt} {tx : TxSt} {cur : List Nat}
    (he : EngInv f0 live) (h : TxInv f0 live f tx cur) (id : Nat) (hid : id ∈ cur) (f' : FileSt) (tx' : TxSt)
    (w : Option Nat) (hw : flushPageOp f tx id = .ok (f', tx', w)) :
    TxInv f0 live f' tx' cur ∧ ∀ j, txView f0 tx' j = txView f0 tx j := by
  unfold flushPageOp at hw
  cases hg : getPage f tx id with
  | error e => simp [hg, bind, Except.bind] at hw
  | ok r =>
    obtain ⟨tx1, p⟩ := r
    simp only [hg, bind, Except.bind] at hw
    obtain ⟨h1, hget, -, -⟩ := txinv_getPage h id hid tx1 p hg
    have hv := txView_getPage h id hid tx1 p hg
    cases hcw : pageCanWrite p with
    | error e => simp [hcw] at hw
    | ok u =>
      simp only [hcw] at hw
      obtain ⟨h2, v2⟩ := txinv_doFlush he h1 id p hget f' tx' w hw
      exact ⟨h2, fun j => (v2 j).trans (hv j)⟩

theorem runinv_step {f0 : FileSt} {live : List Nat} (he : EngInv f0 live) (s : ERunSt) (op : EOp)
    (h : RunInv f0 live s) : RunInv f0 live (op.step s) := by
  cases op with
  | alloc n =>
    simp only [EOp.step]
    split
    · rename_i f tx ids hr
      obtain ⟨h1, h2, h3⟩ := txinv_alloc he h.tx n f tx ids hr
      refine ⟨h1, ?_⟩
      intro j hj
      show (if j ∈ ids then none else s.σ j) = _
      rw [h3 j]
      by_cases hji : j ∈ ids
      · simp [hji]
      · simp only [hji, if_false]
        rcases List.mem_append.mp hj with hj | hj
        · exact h.view j hj
        · exact absurd hj hji
    · exact h
  | write id mode st =>
    simp only [EOp.step]
    split
    · rename_i hid
      split
      · rename_i tx hr
        obtain ⟨h1, h2, h3⟩ := txinv_write h.tx id hid mode st tx hr
        refine ⟨h1, ?_⟩
        intro j hj
        show (if j = id then some (wr mode id st ((s.σ id).getD {})) else s.σ j) = _
        by_cases hji : j = id
        · subst hji
          rw [if_pos rfl, h2, h.view j hid]
        · rw [if_neg hji, h3 j hji]; exact h.view j hj
      · exact h
    · exact h
  | load id =>
    simp only [EOp.step]
    split
    · rename_i hid
      split
      · rename_i tx hr
        obtain ⟨h1, h2⟩ := txinv_load h.tx id hid tx hr
        exact ⟨h1, fun j hj => (h.view j hj).trans (h2 j).symm⟩
      · exact h
    · exact h
  | read id =>
    simp only [EOp.step]
    split
    · rename_i hid
      split
      · rename_i tx c hr
        obtain ⟨h1, h2, -⟩ := txinv_read h.tx id hid tx c hr
        exact ⟨h1, fun j hj => (h.view j hj).trans (h2 j).symm⟩
      · exact h
    · exact h
  | free id =>
    simp only [EOp.step]
    split
    · rename_i hid
      split
      · rename_i f tx hr
        obtain ⟨h1, h2⟩ := txinv_free he h.tx id hid f tx hr
        refine ⟨h1, ?_⟩
        intro j hj
        have hj' := (mem_filter_ne _ _ _).mp hj
        exact (h.view j hj'.1).trans (h2 j hj'.2).symm
      · exact h
    · exact h
  | flushPage id =>
    simp only [EOp.step]
    split
    · rename_i hid
      split
      · rename_i f tx w hr
        obtain ⟨h1, h2⟩ := txinv_flushPageOp he h.tx id hid f tx w hr
        exact ⟨h1, fun j hj => (h.view j hj).trans (h2 j).symm⟩
      · exact h
    · exact h
  | flushAll order =>
    simp only [EOp.step]
    split
    · rename_i f tx ws hr
      obtain ⟨h1, h2⟩ := txinv_flushList he order s.f s.tx h.tx f tx ws hr
      exact ⟨h1, fun j hj => (h.view j hj).trans (h2 j).symm⟩
    · exact h
  | checkpoint =>
    simp only [EOp.step]
    obtain ⟨h1, h2, -⟩ := txinv_doCheckpoint he h.tx
    exact ⟨h1, fun j hj => (h.view j hj).trans (txView_pages f0 _ _ h2 j).symm⟩

theorem runinv_ops {f0 : FileSt} {live : List Nat} (he : EngInv f0 live) (ops : List EOp) (s : ERunSt)
    (h : RunInv f0 live s) : RunInv f0 live (runEOps s ops) := by
  induction ops generalizing s with
  | nil => exact h
  | cons op ops ih => exact ih _ (runinv_step he s op h)

/-! ### abort -/

theorem engInv_congr {f f' : FileSt} {live : List Nat} (h : EngInv f live) (e1 : f'.alloc = f.alloc)
    (e2 : f'.walMap = f.walMap) (e3 : f'.walPages = f.walPages) : EngInv f' live := by
  have ei : f'.internal = f.internal := by unfold FileSt.internal; rw [e1, e2, e3]
  refine ⟨e1 ▸ h.wf, e1 ▸ h.ends, e2 ▸ h.keys, ?_, ?_, ?_, ?_, ei ▸ h.intNodup, ?_, e1 ▸ h.noOv⟩
  · rw [e1]; exact h.liveOk
  · rw [e2]; exact h.mapKey
  · rw [e2]; exact h.mapInj
  · rw [ei, e1]; exact h.intOk
  · rw [ei, e1]; exact h.total

theorem readPage_congr {f f' : FileSt} (id : Nat) (e2 : f'.walMap = f.walMap)
    (e3 : f'.diskAt (f.physOf id) = f.diskAt (f.physOf id)) : f'.readPage id = f.readPage id := by
  unfold FileSt.readPage
  have : f'.physOf id = f.physOf id := by unfold FileSt.physOf; rw [e2]
  rw [this, e3]

/-- ending the transaction without commit restores the committed state as far as a reader can see,
    and the allocator exactly -/
theorem abort_core {f0 : FileSt} {live : List Nat} {f : FileSt} {tx : TxSt}
    (he : EngInv f0 live) (hm : f.walMap = f0.walMap) (hwp : f.walPages = f0.walPages)
    (hi : Inv f0.alloc f.alloc tx.ta)
    (hr : ∀ id ∈ live, f.diskAt (f0.physOf id) = f0.diskAt (f0.physOf id)) :
    EngInv (txAbort f tx) live ∧ (txAbort f tx).alloc = f0.alloc ∧ (txAbort f tx).walMap = f0.walMap ∧
    ∀ id ∈ live, (txAbort f tx).readPage id = f0.readPage id := by
  have ha : (txAbort f tx).alloc = f0.alloc := rollback_of_inv f0.alloc f.alloc tx.ta he.wf hi
  refine ⟨engInv_congr he ha hm hwp, ha, hm, ?_⟩
  intro id hid
  exact readPage_congr id hm (hr id hid)

theorem abort_spec {f0 : FileSt} {live : List Nat} {f : FileSt} {tx : TxSt} {cur : List Nat}
    (he : EngInv f0 live) (h : TxInv f0 live f tx cur) :
    EngInv (txAbort f tx) live ∧ (txAbort f tx).alloc = f0.alloc ∧ (txAbort f tx).walMap = f0.walMap ∧
    ∀ id ∈ live, (txAbort f tx).readPage id = f0.readPage id :=
  abort_core he h.sameMap h.sameWP h.inv h.r0

/-! ### commit: the phases of `commitAfterFlush` -/

def cCkpt (f : FileSt) (tx : TxSt) : Bool :=
  tx.walLimit > 0 && (mappingUpdate f.walMap tx).length ≥ tx.walLimit

/-- state after the optional checkpoint -/
def cPhase1 (f : FileSt) (tx : TxSt) : FileSt × TxSt × List (Nat × Nat) :=
  if cCkpt f tx then doCheckpoint f tx else (f, tx, [])

def cWalUpd (f : FileSt) (tx : TxSt) : Bool := cCkpt f tx || tx.walUpdated

def cNewWal (f : FileSt) (tx : TxSt) : Assoc Nat :=
  if cCkpt f tx then (cPhase1 f tx).2.1.walNew else mappingUpdate f.walMap tx

/-- transaction state after the old mapping pages and the old free-list pages were released -/
def cTx3 (f : FileSt) (tx : TxSt) : TxSt :=
  let f1 := (cPhase1 f tx).1
  let tx1 := (cPhase1 f tx).2.1
  let tx2 := if cWalUpd f tx then { tx1 with ta := metaFreeIds tx1.ta f1.walPages } else tx1
  if tx2.ta.updated then { tx2 with ta := metaFreeIds tx2.ta f1.alloc.freelistPages } else tx2

def cAllocUpd (f : FileSt) (tx : TxSt) : Bool :=
  let f1 := (cPhase1 f tx).1
  let tx1 := (cPhase1 f tx).2.1
  let tx2 := if cWalUpd f tx then { tx1 with ta := metaFreeIds tx1.ta f1.walPages } else tx1
  tx2.ta.updated

def cWalRes (f : FileSt) (tx : TxSt) : Option (Alloc × TxAlloc × List Nat) :=
  let f1 := (cPhase1 f tx).1
  let nwal := if cWalUpd f tx then predictWalPages (cNewWal f tx).length f1.alloc.pageSize else 0
  if nwal > 0 then metaAllocRegions f1.alloc (cTx3 f tx).ta nwal else some (f1.alloc, (cTx3 f tx).ta, [])

def commitAfterFlush' (f : FileSt) (tx : TxSt) : FileSt × CommitRes × List (Nat × Nat) :=
  let f1 := (cPhase1 f tx).1
  let copied := (cPhase1 f tx).2.2
  let tx3 := cTx3 f tx
  match cWalRes f tx with
  | none => (txAbort f1 tx3, .walOom, copied)
  | some (a, ta, walRegs) =>
    match fileCommitAlloc a ta (cAllocUpd f tx || !walRegs.isEmpty) with
    | none => (txAbort { f1 with alloc := a } { tx3 with ta := ta }, .allocOom, copied)
    | some (a, ta, cs) =>
      ({ f1 with alloc := a.commit cs,
                 walMap := if cWalUpd f tx then cNewWal f tx else f1.walMap,
                 walPages := if cWalUpd f tx then walRegs else f1.walPages,
                 root := tx3.root, txid := f1.txid + 1,
                 statData := f1.statData + ta.sAlloc - (ta.sFreed + ta.sToMeta) }, .ok, copied)

theorem commitAfterFlush_eq (f : FileSt) (tx : TxSt) : commitAfterFlush f tx = commitAfterFlush' f tx := by
  unfold commitAfterFlush commitAfterFlush' cWalRes cTx3 cAllocUpd cNewWal cWalUpd cPhase1
  cases h : cCkpt f tx
  · unfold cCkpt at h
    simp only [h]
    rfl
  · unfold cCkpt at h
    simp only [h]
    rfl

/-- the mapping a transaction would publish -/
def newMapAt (old : Assoc Nat) (tx : TxSt) (k : Nat) : Option Nat :=
  match Assoc.get? tx.walNew k with
  | some w => some w
  | none => if k ∈ tx.walFree then none else Assoc.get? old k

theorem mappingUpdate_eq (old : Assoc Nat) (tx : TxSt) (hu : tx.walUpdated = true) :
    mappingUpdate old tx = tx.walNew.foldl (fun m (e : Nat × Nat) => Assoc.set m e.1 e.2)
      (old.filter (fun e => (fun id => !tx.walFree.contains id && (Assoc.get? tx.walNew id).isNone) e.1)) := by
  unfold mappingUpdate
  simp only [hu, Bool.not_true, Bool.false_eq_true, if_false]

theorem mappingUpdate_get? (old : Assoc Nat) (tx : TxSt) (hu : tx.walUpdated = true) (hk : AscKeys tx.walNew)
    (k : Nat) : Assoc.get? (mappingUpdate old tx) k = newMapAt old tx k := by
  rw [mappingUpdate_eq old tx hu, get?_foldl_setPairs _ hk,
    Assoc.get?_filter old (fun id => !tx.walFree.contains id && (Assoc.get? tx.walNew id).isNone) k]
  unfold newMapAt
  cases hw : Assoc.get? tx.walNew k with
  | some w => rfl
  | none =>
    by_cases hf : k ∈ tx.walFree
    · simp [hf]
    · simp [hf]

theorem mappingUpdate_keys (old : Assoc Nat) (tx : TxSt) (ho : AscKeys old) : AscKeys (mappingUpdate old tx) := by
  by_cases hu : tx.walUpdated = true
  · rw [mappingUpdate_eq old tx hu]
    exact ascKeys_foldl_setPairs _ _ (ascKeys_filter _ _ ho)
  · unfold mappingUpdate
    simp [hu, AscKeys]

theorem newMapAt_tgt (f0 : FileSt) (tx : TxSt) (k : Nat) :
    (newMapAt f0.walMap tx k).getD k = tgt f0 tx k := by
  unfold newMapAt tgt FileSt.physOf
  cases hw : Assoc.get? tx.walNew k with
  | some w => rfl
  | none =>
    by_cases hf : k ∈ tx.walFree
    · simp [hf]
    · simp [hf]

/-- all dirty pages were flushed -/
def AllFlushed (tx : TxSt) : Prop := ∀ k p, Assoc.get? tx.pages k = some p → p.dirty = true → p.flushed = true

theorem allFlushed_of_unflushed (tx : TxSt) (h : tx.unflushed = []) : AllFlushed tx := by
  intro k p hp hd
  cases hf : p.flushed with
  | true => rfl
  | false =>
    have hm := Assoc.mem_of_get? _ _ _ hp
    have : k ∈ tx.unflushed := by
      unfold TxSt.unflushed
      rw [List.mem_map]
      exact ⟨(k, p), List.mem_filter.mpr ⟨hm, by simp [hd, hf]⟩, rfl⟩
    rw [h] at this; cases this

theorem commit_phase1 {f0 : FileSt} {live : List Nat} {f : FileSt} {tx : TxSt} {cur : List Nat}
    (he : EngInv f0 live) (h : TxInv f0 live f tx cur) (hfl : AllFlushed tx) :
    TxInv f0 live (cPhase1 f tx).1 (cPhase1 f tx).2.1 cur ∧ (cPhase1 f tx).2.1.pages = tx.pages ∧
    (∀ k, Assoc.get? (if cWalUpd f tx then cNewWal f tx else (cPhase1 f tx).1.walMap) k =
      newMapAt f0.walMap (cPhase1 f tx).2.1 k) ∧
    AscKeys (if cWalUpd f tx then cNewWal f tx else (cPhase1 f tx).1.walMap) := by
  cases hc : cCkpt f tx with
  | true =>
    have e1 : cPhase1 f tx = doCheckpoint f tx := by unfold cPhase1; rw [hc]; rfl
    have e2 : cWalUpd f tx = true := by unfold cWalUpd; rw [hc]; rfl
    have e3 : cNewWal f tx = (doCheckpoint f tx).2.1.walNew := by unfold cNewWal; rw [hc, e1]; rfl
    rw [e1, e2, e3]
    obtain ⟨h1, h2, h3⟩ := txinv_doCheckpoint he h
    refine ⟨h1, h2, ?_, h1.newKeys⟩
    intro k
    simp only [if_true]
    unfold newMapAt
    cases hw : Assoc.get? (doCheckpoint f tx).2.1.walNew k with
    | some w => rfl
    | none =>
      by_cases hf : k ∈ (doCheckpoint f tx).2.1.walFree
      · simp [hf]
      · simp only [hf, if_false]
        cases hm : Assoc.get? f0.walMap k with
        | none => rfl
        | some v =>
          rcases h3 k v hm with c | ⟨p, hp, hd, hu⟩
          · exact absurd c hf
          · have := hfl k p hp hd; rw [hu] at this; cases this
  | false =>
    have e1 : cPhase1 f tx = (f, tx, []) := by unfold cPhase1; rw [hc]; rfl
    have e2 : cWalUpd f tx = tx.walUpdated := by unfold cWalUpd; rw [hc]; rfl
    have e3 : cNewWal f tx = mappingUpdate f.walMap tx := by unfold cNewWal; rw [hc]; rfl
    rw [e1, e2, e3]
    refine ⟨h, rfl, ?_, ?_⟩
    · intro k
      cases hu : tx.walUpdated with
      | true =>
        simp only [if_true]
        rw [mappingUpdate_get? _ _ hu h.newKeys, h.sameMap]
      | false =>
        simp only [Bool.false_eq_true, if_false]
        unfold TxSt.walUpdated at hu
        simp only [Bool.or_eq_false_iff, Bool.not_eq_false', List.isEmpty_iff] at hu
        unfold newMapAt
        rw [hu.1, hu.2, h.sameMap]
        simp [Assoc.get?]
    · cases hu : tx.walUpdated with
      | true => simp only [if_true]; exact mappingUpdate_keys _ _ (h.sameMap ▸ he.keys)
      | false => simp only [Bool.false_eq_true, if_false]; exact h.sameMap ▸ he.keys

/-- once everything is flushed, what the transaction sees is on disk at the pages the new mapping points to -/
theorem view_on_disk {f0 : FileSt} {live : List Nat} {f : FileSt} {tx : TxSt} {cur : List Nat}
    (h : TxInv f0 live f tx cur) (hfl : AllFlushed tx) (id : Nat) (hid : id ∈ cur) (c : Content)
    (hv : txView f0 tx id = some c) : f.diskAt (tgt f0 tx id) = c := by
  unfold txView at hv
  cases hp : Assoc.get? tx.pages id with
  | none =>
    rw [hp] at hv
    simp only [Option.some.injEq] at hv
    rw [← hv]; exact (h.curNone id hid hp).2
  | some p =>
    rw [hp] at hv
    have ho := h.pg id p hp
    have hfr : p.freed = false := by
      cases hf : p.freed with
      | false => rfl
      | true => exact absurd hid (ho.notCur hf)
    unfold pView at hv
    cases hd : p.dirty with
    | true =>
      simp only [hd, if_true] at hv
      have := (ho.fl (hfl id p hp hd)).2.1
      rw [this, hv]; rfl
    | false =>
      simp only [hd, Bool.false_eq_true, if_false] at hv
      cases hn : p.new_ with
      | true => simp [hn] at hv
      | false =>
        simp only [hn, Bool.false_eq_true, if_false, Option.some.injEq] at hv
        rw [← hv]; exact (ho.cleanOld hfr hn hd).2

theorem readPage_newMap (f0 f' f1 : FileSt) (tx1 : TxSt) (id : Nat)
    (hm : Assoc.get? f'.walMap id = newMapAt f0.walMap tx1 id) (hd : f'.disk = f1.disk) :
    f'.readPage id = f1.diskAt (tgt f0 tx1 id) := by
  unfold FileSt.readPage FileSt.physOf FileSt.diskAt
  rw [hm, newMapAt_tgt, hd]

theorem inv_metaFreeIds (a0 a : Alloc) (ids : List Nat) : ∀ st, Inv a0 a st → Inv a0 a (metaFreeIds st ids) := by
  induction ids with
  | nil => intro st h; exact h
  | cons x xs ih =>
    intro st h
    unfold metaFreeIds
    rw [List.foldl_cons]
    exact ih _ (inv_metaFreeId a0 a st x h)

theorem cTx3_spec (f : FileSt) (tx : TxSt) :
    (cTx3 f tx).ta = metaFreeIds (metaFreeIds (cPhase1 f tx).2.1.ta
        (if cWalUpd f tx then (cPhase1 f tx).1.walPages else []))
        (if cAllocUpd f tx then (cPhase1 f tx).1.alloc.freelistPages else []) ∧
    (cTx3 f tx).pages = (cPhase1 f tx).2.1.pages ∧ (cTx3 f tx).walNew = (cPhase1 f tx).2.1.walNew ∧
    (cTx3 f tx).walFree = (cPhase1 f tx).2.1.walFree := by
  unfold cTx3 cAllocUpd
  dsimp only
  cases cWalUpd f tx
  · simp only [Bool.false_eq_true, if_false]
    split <;> exact ⟨rfl, rfl, rfl, rfl⟩
  · simp only [if_true]
    split <;> exact ⟨rfl, rfl, rfl, rfl⟩

theorem inv_cTx3 {f0 : FileSt} {live : List Nat} {f : FileSt} {tx : TxSt} {cur : List Nat}
    (h1 : TxInv f0 live (cPhase1 f tx).1 (cPhase1 f tx).2.1 cur) :
    Inv f0.alloc (cPhase1 f tx).1.alloc (cTx3 f tx).ta := by
  rw [(cTx3_spec f tx).1]
  exact inv_metaFreeIds _ _ _ _ (inv_metaFreeIds _ _ _ _ h1.inv)

theorem cWalRes_cases (f : FileSt) (tx : TxSt) (a : Alloc) (ta : TxAlloc) (regs : List Nat)
    (hr : cWalRes f tx = some (a, ta, regs)) :
    (∃ n, metaAllocRegions (cPhase1 f tx).1.alloc (cTx3 f tx).ta n = some (a, ta, regs)) ∨
    (a = (cPhase1 f tx).1.alloc ∧ ta = (cTx3 f tx).ta ∧ regs = []) := by
  unfold cWalRes at hr
  dsimp only at hr
  by_cases hn : (if cWalUpd f tx then predictWalPages (cNewWal f tx).length (cPhase1 f tx).1.alloc.pageSize else 0) > 0
  · rw [if_pos hn] at hr; exact Or.inl ⟨_, hr⟩
  · rw [if_neg hn] at hr
    simp only [Option.some.injEq, Prod.mk.injEq] at hr
    exact Or.inr ⟨hr.1.symm, hr.2.1.symm, hr.2.2.symm⟩

theorem inv_cWalRes {f0 : FileSt} {live : List Nat} {f : FileSt} {tx : TxSt} {cur : List Nat}
    (he : EngInv f0 live) (h1 : TxInv f0 live (cPhase1 f tx).1 (cPhase1 f tx).2.1 cur)
    (a : Alloc) (ta : TxAlloc) (regs : List Nat) (hr : cWalRes f tx = some (a, ta, regs)) :
    Inv f0.alloc a ta := by
  rcases cWalRes_cases f tx a ta regs hr with ⟨n, hn⟩ | ⟨rfl, rfl, -⟩
  · exact inv_metaAllocRegions f0.alloc _ _ _ a ta regs he.wf (inv_cTx3 h1) hn
  · exact inv_cTx3 h1

/-- commit, as far as contents are concerned: success publishes the transaction's view, failure restores
    the committed state -/
theorem commit_data {f0 : FileSt} {live : List Nat} {f : FileSt} {tx : TxSt} {cur : List Nat}
    (he : EngInv f0 live) (h : TxInv f0 live f tx cur) (hfl : AllFlushed tx) :
    ((commitAfterFlush f tx).2.1 = .ok →
      ∀ id ∈ cur, ∀ c, txView f0 tx id = some c → (commitAfterFlush f tx).1.readPage id = c) ∧
    ((commitAfterFlush f tx).2.1 ≠ .ok →
      EngInv (commitAfterFlush f tx).1 live ∧ (commitAfterFlush f tx).1.alloc = f0.alloc ∧
      (commitAfterFlush f tx).1.walMap = f0.walMap ∧
      ∀ id ∈ live, (commitAfterFlush f tx).1.readPage id = f0.readPage id) := by
  obtain ⟨h1, hpg, hmap, -⟩ := commit_phase1 he h hfl
  have hfl1 : AllFlushed (cPhase1 f tx).2.1 := by intro k p hp; rw [hpg] at hp; exact hfl k p hp
  rw [commitAfterFlush_eq]
  unfold commitAfterFlush'
  dsimp only
  cases hr : cWalRes f tx with
  | none =>
    dsimp only
    refine ⟨fun hc => (by cases hc), fun _ => ?_⟩
    exact abort_core he h1.sameMap h1.sameWP (inv_cTx3 h1) h1.r0
  | some r =>
    obtain ⟨a, ta, regs⟩ := r
    dsimp only
    have hinv := inv_cWalRes he h1 a ta regs hr
    cases hc : fileCommitAlloc a ta (cAllocUpd f tx || !regs.isEmpty) with
    | none =>
      dsimp only
      refine ⟨fun hc => (by cases hc), fun _ => ?_⟩
      exact abort_core (f := { (cPhase1 f tx).1 with alloc := a }) (tx := { cTx3 f tx with ta := ta }) he
        h1.sameMap h1.sameWP hinv h1.r0
    | some r2 =>
      obtain ⟨a2, ta2, cs⟩ := r2
      dsimp only
      refine ⟨fun _ => ?_, fun hc => absurd rfl hc⟩
      intro id hid c hv
      refine Eq.trans (readPage_newMap f0 _ (cPhase1 f tx).1 (cPhase1 f tx).2.1 id (hmap id) rfl) ?_
      apply view_on_disk h1 hfl1 id hid c
      rw [txView_pages f0 tx _ hpg]; exact hv

/-! ### list lemmas for the accounting of the meta area -/

theorem nodup_subset_length : ∀ (l m : List Nat), l.Nodup → (∀ x ∈ l, x ∈ m) → l.length ≤ m.length := by
  intro l
  induction l with
  | nil => intro m _ _; exact Nat.zero_le _
  | cons x xs ih =>
    intro m hn hs
    rw [List.nodup_cons] at hn
    have hx : x ∈ m := hs x List.mem_cons_self
    have := ih (m.erase x) hn.2 (by
      intro y hy
      have hne : y ≠ x := fun e => hn.1 (e ▸ hy)
      exact (List.mem_erase_of_ne hne).mpr (hs y (List.mem_cons_of_mem _ hy)))
    rw [List.length_erase_of_mem hx] at this
    have : 0 < m.length := List.length_pos_of_mem hx
    simp only [List.length_cons]
    omega

theorem mem_values {m : Assoc Nat} (hm : AscKeys m) (w : Nat) :
    w ∈ m.map (·.2) ↔ ∃ k, Assoc.get? m k = some w := by
  rw [List.mem_map]
  constructor
  · rintro ⟨e, he, rfl⟩
    exact ⟨e.1, Assoc.get?_of_mem m hm e.1 e.2 he⟩
  · rintro ⟨k, hk⟩
    exact ⟨(k, w), Assoc.mem_of_get? m k w hk, rfl⟩

theorem values_nodup : ∀ (m : Assoc Nat), AscKeys m →
    (∀ k1 k2 w, Assoc.get? m k1 = some w → Assoc.get? m k2 = some w → k1 = k2) → (m.map (·.2)).Nodup := by
  intro m
  induction m with
  | nil => intro _ _; exact List.nodup_nil
  | cons e m ih =>
    intro hk hinj
    have hk' := hk
    unfold AscKeys at hk'
    rw [List.pairwise_cons] at hk'
    rw [List.map_cons, List.nodup_cons]
    constructor
    · intro hmem
      rw [List.mem_map] at hmem
      obtain ⟨e', he', heq⟩ := hmem
      have h1 : Assoc.get? (e :: m) e.1 = some e.2 := Assoc.get?_of_mem _ hk e.1 e.2 List.mem_cons_self
      have h2 : Assoc.get? (e :: m) e'.1 = some e.2 := by
        rw [← heq]; exact Assoc.get?_of_mem _ hk e'.1 e'.2 (List.mem_cons_of_mem _ he')
      have := hinj _ _ _ h1 h2
      have := hk'.1 e' he'
      omega
    · apply ih hk'.2
      intro k1 k2 w h1 h2
      have lift : ∀ k, Assoc.get? m k = some w → Assoc.get? (e :: m) k = some w := by
        intro k hkk
        exact Assoc.get?_of_mem _ hk k w (List.mem_cons_of_mem _ (Assoc.mem_of_get? m k w hkk))
      exact hinj k1 k2 w (lift k1 h1) (lift k2 h2)

theorem metaFreeIds_spec (ids : List Nat) : ∀ (st : TxAlloc),
    (metaFreeIds st ids).mta.allocated = st.mta.allocated ∧ (metaFreeIds st ids).data = st.data ∧
    (metaFreeIds st ids).overflow = st.overflow ∧
    (∀ x, x ∈ (metaFreeIds st ids).mta.freed ↔ x ∈ ids ∨ x ∈ st.mta.freed) ∧
    (Asc st.mta.freed → Asc (metaFreeIds st ids).mta.freed) := by
  induction ids with
  | nil => intro st; exact ⟨rfl, rfl, rfl, fun x => by simp [metaFreeIds], fun h => h⟩
  | cons y ys ih =>
    intro st
    obtain ⟨i1, i2, i3, i4, i5⟩ := ih (metaFreeId st y)
    have e : metaFreeIds st (y :: ys) = metaFreeIds (metaFreeId st y) ys := rfl
    rw [e]
    refine ⟨i1, i2, i3, ?_, fun h => i5 (asc_insertId _ _ h)⟩
    intro x
    rw [i4 x]
    simp only [metaFreeId, mem_insertId, List.mem_cons]
    constructor
    · rintro (h | h | h)
      · exact Or.inl (Or.inr h)
      · exact Or.inl (Or.inl h)
      · exact Or.inr h
    · rintro ((h | h) | h)
      · exact Or.inr (Or.inl h)
      · exact Or.inl h
      · exact Or.inr (Or.inr h)

/-! ### the allocator part of a successful commit -/

theorem releaseOverflow_none (l : List Nat) (mx e : Nat) (h : mx = 0 ∨ e ≤ mx) : releaseOverflow l mx e = (l, 0) := by
  unfold releaseOverflow
  have : mx = 0 ∨ mx ≥ e := h
  simp [this]

/-- the committed allocator when the overflow area is not in use -/
def commitShape (a2 : Alloc) (ta2 : TxAlloc) (regs2 : List Nat) : Alloc :=
  { a2 with freelistPages := regs2,
            data := { endMarker := a2.data.endMarker, free := unionIds ta2.data.freed a2.data.free },
            mta := { endMarker := a2.mta.endMarker, free := unionIds ta2.mta.freed a2.mta.free } }

theorem commitShape_of (a1 : Alloc) (st1 : TxAlloc) (regs : List Nat) (h2 : AOK2 a1) (hok : AOK a1) :
    a1.commit
      (let newData := unionIds st1.data.freed a1.data.free
       let newMeta := unionIds st1.mta.freed a1.mta.free
       let dataEnd := a1.data.endMarker
       let metaEnd := a1.mta.endMarker
       let (metaList, ovf) := releaseOverflow newMeta a1.maxPages metaEnd
       let (dataEnd1, metaEnd1) :=
         if ovf > 0 then ((if metaEnd > dataEnd then metaEnd - ovf else dataEnd), metaEnd - ovf) else (dataEnd, metaEnd)
       let (dataList, dfreed) := releaseOverflow newData a1.maxPages dataEnd1
       let dataEnd2 := dataEnd1 - dfreed
       let metaEnd2 := if dfreed > 0 ∧ metaEnd1 ≤ dataEnd1 ∧ metaEnd1 ≥ dataEnd2 then dataEnd2 else metaEnd1
       { updated := true, allocRegions := regs, dataEnd := dataEnd2, metaEnd := metaEnd2,
         metaList := metaList, dataList := dataList, overflowFreed := ovf }) = commitShape a1 st1 regs := by
  have hl := hok.limit
  have r1 := releaseOverflow_none (unionIds st1.mta.freed a1.mta.free) a1.maxPages a1.mta.endMarker h2.noOv
  have r2 := releaseOverflow_none (unionIds st1.data.freed a1.data.free) a1.maxPages a1.data.endMarker hl
  simp only [r1, r2, Nat.lt_irrefl, if_false, false_and, gt_iff_lt, Nat.sub_zero]
  rfl

theorem fileCommit_shape (a : Alloc) (ta : TxAlloc) (upd : Bool) (a2 : Alloc) (ta2 : TxAlloc) (cs : AllocCommit)
    (hc : fileCommitAlloc a ta upd = some (a2, ta2, cs)) (hok : AOK a) (hok2 : AOK2 a)
    (hov : ta.overflow = false) :
    (upd = false ∧ a2 = a ∧ ta2 = ta ∧ a2.commit cs = a) ∨
    (upd = true ∧ ∃ regs2, ((∃ n, metaAllocRegions a ta n = some (a2, ta2, regs2)) ∨
        (a2 = a ∧ ta2 = ta ∧ regs2 = [])) ∧ a2.commit cs = commitShape a2 ta2 regs2) := by
  unfold fileCommitAlloc at hc
  cases upd with
  | false =>
    simp only [Bool.not_false, if_true, Option.some.injEq, Prod.mk.injEq] at hc
    obtain ⟨rfl, rfl, rfl⟩ := hc
    exact Or.inl ⟨rfl, rfl, rfl, rfl⟩
  | true =>
    right
    refine ⟨rfl, ?_⟩
    simp only [Bool.not_true, Bool.false_eq_true, if_false] at hc
    by_cases hn : predictFreelistPages a.pageSize [ta.data.freed, ta.mta.freed, a.data.free, a.mta.free] > 0
    · rw [if_pos hn] at hc
      cases hm : metaAllocRegions a ta
          (predictFreelistPages a.pageSize [ta.data.freed, ta.mta.freed, a.data.free, a.mta.free]) with
      | none => rw [hm] at hc; simp at hc
      | some r =>
        obtain ⟨a1, st1, regs⟩ := r
        rw [hm] at hc
        simp only [Option.map_some, Option.some.injEq, Prod.mk.injEq] at hc
        obtain ⟨rfl, rfl, rfl⟩ := hc
        have h2 := (a2_metaAllocRegions a ta _ a1 st1 regs hok hok2 hov hm).1
        have h1 := (fr_metaAllocRegions a ta _ a1 st1 regs hok hm).1
        exact ⟨regs, Or.inl ⟨_, hm⟩, commitShape_of a1 st1 regs h2 h1⟩
    · rw [if_neg hn] at hc
      simp only [Option.some.injEq, Prod.mk.injEq] at hc
      obtain ⟨rfl, rfl, rfl⟩ := hc
      exact ⟨[], Or.inr ⟨rfl, rfl, rfl⟩, commitShape_of a ta [] hok2 hok⟩

/-- everything known about the state right before the allocator commit, without use of the overflow area:
    `a2`/`ta2` the allocator state, `N` the internal pages allocated by the commit, `L` the old internal
    pages released by the commit, `M`/`WP`/`FL` the new mapping, mapping pages and free-list pages -/
structure PreCommit (f0 : FileSt) (live : List Nat) (f1 : FileSt) (tx1 : TxSt) (cur : List Nat)
    (a2 : Alloc) (ta2 : TxAlloc) (N L : List Nat) (M : Assoc Nat) (WP FL : List Nat) : Prop where
  he : EngInv f0 live
  h1 : TxInv f0 live f1 tx1 cur
  hov : tx1.ta.overflow = false
  hinv : Inv f0.alloc a2 ta2
  hok : AOK a2
  hok2 : AOK2 a2
  hkeep : ∀ x, InUse f1.alloc x → InUse a2 x
  hdf : ta2.data.freed = tx1.ta.data.freed
  hN : N.Nodup ∧ ∀ x ∈ N, ¬ InUse f1.alloc x ∧ InUse a2 x ∧ 2 ≤ x
  hal : ∀ x, x ∈ ta2.mta.allocated ↔ x ∈ N ∨ x ∈ tx1.ta.mta.allocated
  hasc : Asc ta2.mta.allocated
  hL : ∀ x ∈ L, x ∈ f0.walPages ∨ x ∈ f0.alloc.freelistPages
  hmf : ∀ x, x ∈ ta2.mta.freed ↔ x ∈ L ∨ x ∈ tx1.ta.mta.freed
  hmfa : Asc ta2.mta.freed
  hM : ∀ k, Assoc.get? M k = newMapAt f0.walMap tx1 k
  hMk : AscKeys M
  hWP : WP.Nodup ∧ ∀ x ∈ WP, (x ∈ f0.walPages ∧ x ∉ L) ∨ x ∈ N
  hFL : FL.Nodup ∧ ∀ x ∈ FL, (x ∈ f0.alloc.freelistPages ∧ x ∉ L) ∨ x ∈ N
  hWF : ∀ x ∈ WP, x ∉ FL

section PreCommitFacts
variable {f0 : FileSt} {live : List Nat} {f1 : FileSt} {tx1 : TxSt} {cur : List Nat}
  {a2 : Alloc} {ta2 : TxAlloc} {N L : List Nat} {M : Assoc Nat} {WP FL : List Nat}

theorem mem_internal (f : FileSt) (x : Nat) :
    x ∈ f.internal ↔ x ∈ f.walMap.map (·.2) ∨ x ∈ f.walPages ∨ x ∈ f.alloc.freelistPages := by
  unfold FileSt.internal
  rw [List.mem_append, List.mem_append, or_assoc]

/-- no overflow: a page in use lies in the data area -/
theorem inUse_lt {a : Alloc} (h2 : AOK2 a) {x : Nat} (hu : InUse a x) : x < a.data.endMarker := by
  have := h2.noOv
  have := hu.2.2.1
  have := hu.2.2.2
  omega

/-- pages freed by the transaction (data area) -/
theorem pc_dfreed (pc : PreCommit f0 live f1 tx1 cur a2 ta2 N L M WP FL) (x : Nat) (hx : x ∈ ta2.data.freed) :
    x ∉ cur ∧ 2 ≤ x ∧ InUse a2 x ∧ (x ∈ live ∨ ¬ InUse f0.alloc x) ∧ x ∉ ta2.mta.allocated := by
  rw [pc.hdf] at hx
  obtain ⟨d1, d2, -, d4, d5, d6⟩ := pc.h1.dfreed x hx
  refine ⟨d1, d2, pc.hkeep x d4, d5, ?_⟩
  rw [pc.hal]
  intro hc
  rcases hc with hc | hc
  · exact (pc.hN.2 x hc).1 d4
  · exact d6 hc

/-- pages released from the meta area are old internal pages -/
theorem pc_mfreed (pc : PreCommit f0 live f1 tx1 cur a2 ta2 N L M WP FL) (x : Nat) (hx : x ∈ ta2.mta.freed) :
    x ∈ f0.internal ∧ 2 ≤ x ∧ InUse f0.alloc x ∧ x ∉ live ∧ InUse a2 x := by
  have hin : x ∈ f0.internal := by
    rw [mem_internal]
    rcases (pc.hmf x).mp hx with h | h
    · exact Or.inr (pc.hL x h)
    · obtain ⟨k, hk, -⟩ := pc.h1.mfreed x h
      exact Or.inl ((mem_values pc.he.keys x).mpr ⟨k, hk⟩)
  obtain ⟨i1, i2, i3⟩ := pc.he.intOk x hin
  exact ⟨hin, i1, i2, i3, pc.hkeep x (pc.h1.keep x i2)⟩

/-- pages allocated in the meta area by the transaction or its commit -/
theorem pc_alloc (pc : PreCommit f0 live f1 tx1 cur a2 ta2 N L M WP FL) (x : Nat) (hx : x ∈ ta2.mta.allocated) :
    2 ≤ x ∧ InUse a2 x ∧ ¬ InUse f0.alloc x ∧ x ∉ cur := by
  rcases (pc.hal x).mp hx with h | h
  · obtain ⟨n1, n2, n3⟩ := pc.hN.2 x h
    exact ⟨n3, n2, fun hu => n1 (pc.h1.keep x hu), fun hc => n1 (pc.h1.curOk x hc).2.2.1⟩
  · obtain ⟨m1, m2, m3⟩ := pc.h1.mAlloc.2 x h
    exact ⟨(pc.h1.ov2 pc.hov).2 x h, pc.hkeep x m1, m2, m3⟩

end PreCommitFacts

section PreCommitFacts2
variable {f0 : FileSt} {live : List Nat} {f1 : FileSt} {tx1 : TxSt} {cur : List Nat}
  {a2 : Alloc} {ta2 : TxAlloc} {N L : List Nat} {M : Assoc Nat} {WP FL : List Nat}

theorem inUse_commitShape (a2 : Alloc) (ta2 : TxAlloc) (FL : List Nat) (x : Nat) (hu : InUse a2 x)
    (hd : x ∉ ta2.data.freed) (hm : x ∉ ta2.mta.freed) : InUse (commitShape a2 ta2 FL) x := by
  refine ⟨?_, ?_, hu.2.2.1, hu.2.2.2⟩
  · show x ∉ unionIds ta2.data.freed a2.data.free
    rw [mem_unionIds]; exact fun h => h.elim hd hu.1
  · show x ∉ unionIds ta2.mta.freed a2.mta.free
    rw [mem_unionIds]; exact fun h => h.elim hm hu.2.1

/-- a page of the current set stays in use -/
theorem pc_cur (pc : PreCommit f0 live f1 tx1 cur a2 ta2 N L M WP FL) (k : Nat) (hk : k ∈ cur) :
    2 ≤ k ∧ k < a2.data.endMarker ∧ InUse (commitShape a2 ta2 FL) k := by
  obtain ⟨c1, -, c3, c4⟩ := pc.h1.curOk k hk
  have hu := pc.hkeep k c3
  refine ⟨c1, inUse_lt pc.hok2 hu, inUse_commitShape a2 ta2 FL k hu ?_ ?_⟩
  · exact fun hd => (pc_dfreed pc k hd).1 hk
  · intro hm
    obtain ⟨-, -, m3, m4, -⟩ := pc_mfreed pc k hm
    rcases c4 with c4 | c4
    · exact m4 c4
    · exact c4 m3

/-- an old internal page that is not released: still in use, not owned by the client -/
theorem pc_kept (pc : PreCommit f0 live f1 tx1 cur a2 ta2 N L M WP FL) (x : Nat) (hx : x ∈ f0.internal)
    (hm : x ∉ ta2.mta.freed) : 2 ≤ x ∧ InUse (commitShape a2 ta2 FL) x ∧ x ∉ cur ∧ InUse f0.alloc x := by
  obtain ⟨i1, i2, i3⟩ := pc.he.intOk x hx
  have hnc : x ∉ cur := by
    intro hc
    rcases (pc.h1.curOk x hc).2.2.2 with c | c
    · exact i3 c
    · exact c i2
  refine ⟨i1, inUse_commitShape a2 ta2 FL x (pc.hkeep x (pc.h1.keep x i2)) ?_ hm, hnc, i2⟩
  intro hd
  rcases (pc_dfreed pc x hd).2.2.2.1 with c | c
  · exact i3 c
  · exact c i2

/-- a page allocated in the meta area: in use, not owned by the client -/
theorem pc_new (pc : PreCommit f0 live f1 tx1 cur a2 ta2 N L M WP FL) (x : Nat) (hx : x ∈ ta2.mta.allocated) :
    2 ≤ x ∧ InUse (commitShape a2 ta2 FL) x ∧ x ∉ cur ∧ ¬ InUse f0.alloc x := by
  obtain ⟨n1, n2, n3, n4⟩ := pc_alloc pc x hx
  refine ⟨n1, inUse_commitShape a2 ta2 FL x n2 ?_ ?_, n4, n3⟩
  · exact fun hd => (pc_dfreed pc x hd).2.2.2.2 hx
  · exact fun hm => n3 (pc_mfreed pc x hm).2.2.1

/-- the entries of the new mapping -/
theorem pc_map (pc : PreCommit f0 live f1 tx1 cur a2 ta2 N L M WP FL) (k w : Nat)
    (hk : Assoc.get? M k = some w) :
    k ∈ cur ∧ ((Assoc.get? tx1.walNew k = some w ∧ w ∈ ta2.mta.allocated) ∨
      (Assoc.get? f0.walMap k = some w ∧ k ∉ tx1.walFree ∧ w ∈ f0.internal ∧ w ∉ ta2.mta.freed)) := by
  rw [pc.hM] at hk
  unfold newMapAt at hk
  cases hw : Assoc.get? tx1.walNew k with
  | some w' =>
    rw [hw] at hk
    simp only [Option.some.injEq] at hk
    subst hk
    obtain ⟨-, w2, -, -, p, hp, hpf⟩ := pc.h1.wn k w' hw
    have ho := pc.h1.pg k p hp
    exact ⟨ho.inCur (ho.flDirty hpf).2, Or.inl ⟨rfl, (pc.hal w').mpr (Or.inr w2)⟩⟩
  | none =>
    rw [hw] at hk
    by_cases hf : k ∈ tx1.walFree
    · simp [hf] at hk
    · simp only [hf, if_false] at hk
      have hl := pc.he.mapKey k w hk
      have hc : k ∈ cur := by
        false_or_by_contra
        rename_i hn
        exact hf (pc.h1.gone k hl hn w hk)
      have hin : w ∈ f0.internal := by
        rw [mem_internal]; exact Or.inl ((mem_values pc.he.keys w).mpr ⟨k, hk⟩)
      refine ⟨hc, Or.inr ⟨hk, hf, hin, ?_⟩⟩
      intro hm
      rcases (pc.hmf w).mp hm with h | h
      · -- a mapping page or free-list page is not an overwrite page
        have hnd := pc.he.intNodup
        unfold FileSt.internal at hnd
        rw [List.append_assoc, List.nodup_append] at hnd
        have hv : w ∈ f0.walMap.map (·.2) := (mem_values pc.he.keys w).mpr ⟨k, hk⟩
        exact hnd.2.2 w hv w (List.mem_append.mpr (pc.hL w h)) rfl
      · obtain ⟨k', hk', hkf⟩ := pc.h1.mfreed w h
        have := pc.he.mapInj k k' w hk hk'
        exact hf (this ▸ hkf)

end PreCommitFacts2

section PreCommitFacts3
variable {f0 : FileSt} {live : List Nat} {f1 : FileSt} {tx1 : TxSt} {cur : List Nat}
  {a2 : Alloc} {ta2 : TxAlloc} {N L : List Nat} {M : Assoc Nat} {WP FL : List Nat}

/-- a mapping page or free-list page of the old state is not an overwrite page of the old state -/
theorem eng_int_disj {f : FileSt} {live : List Nat} (he : EngInv f live) (x : Nat)
    (hx : x ∈ f.walPages ∨ x ∈ f.alloc.freelistPages) : x ∉ f.walMap.map (·.2) := by
  intro hv
  have hnd := he.intNodup
  unfold FileSt.internal at hnd
  rw [List.append_assoc, List.nodup_append] at hnd
  exact hnd.2.2 x hv x (List.mem_append.mpr hx) rfl

theorem pc_oldpage (pc : PreCommit f0 live f1 tx1 cur a2 ta2 N L M WP FL) (x : Nat)
    (hx : x ∈ f0.walPages ∨ x ∈ f0.alloc.freelistPages) (hl : x ∉ L) :
    x ∈ f0.internal ∧ x ∉ ta2.mta.freed := by
  refine ⟨(mem_internal f0 x).mpr (Or.inr hx), ?_⟩
  intro hm
  rcases (pc.hmf x).mp hm with h | h
  · exact hl h
  · obtain ⟨k, hk, -⟩ := pc.h1.mfreed x h
    exact eng_int_disj pc.he x hx ((mem_values pc.he.keys x).mpr ⟨k, hk⟩)

/-- every internal page of the new state is a kept old internal page or a page allocated in the meta area -/
theorem pc_class (pc : PreCommit f0 live f1 tx1 cur a2 ta2 N L M WP FL) (x : Nat)
    (hx : x ∈ M.map (·.2) ++ WP ++ FL) :
    (x ∈ f0.internal ∧ x ∉ ta2.mta.freed) ∨ x ∈ ta2.mta.allocated := by
  rw [List.mem_append, List.mem_append] at hx
  rcases hx with (hx | hx) | hx
  · obtain ⟨k, hk⟩ := (mem_values pc.hMk x).mp hx
    rcases (pc_map pc k x hk).2 with h | h
    · exact Or.inr h.2
    · exact Or.inl ⟨h.2.2.1, h.2.2.2⟩
  · rcases pc.hWP.2 x hx with h | h
    · exact Or.inl (pc_oldpage pc x (Or.inl h.1) h.2)
    · exact Or.inr ((pc.hal x).mpr (Or.inl h))
  · rcases pc.hFL.2 x hx with h | h
    · exact Or.inl (pc_oldpage pc x (Or.inr h.1) h.2)
    · exact Or.inr ((pc.hal x).mpr (Or.inl h))

theorem pc_intOk (pc : PreCommit f0 live f1 tx1 cur a2 ta2 N L M WP FL) (x : Nat)
    (hx : x ∈ M.map (·.2) ++ WP ++ FL) : 2 ≤ x ∧ InUse (commitShape a2 ta2 FL) x ∧ x ∉ cur := by
  rcases pc_class pc x hx with h | h
  · obtain ⟨k1, k2, k3, -⟩ := pc_kept pc x h.1 h.2
    exact ⟨k1, k2, k3⟩
  · obtain ⟨k1, k2, k3, -⟩ := pc_new pc x h
    exact ⟨k1, k2, k3⟩

theorem pc_mapInj (pc : PreCommit f0 live f1 tx1 cur a2 ta2 N L M WP FL) (k1 k2 w : Nat)
    (h1 : Assoc.get? M k1 = some w) (h2 : Assoc.get? M k2 = some w) : k1 = k2 := by
  rcases (pc_map pc k1 w h1).2 with a | a <;> rcases (pc_map pc k2 w h2).2 with b | b
  · exact pc.h1.wnInj k1 k2 w a.1 b.1
  · exact absurd (pc.he.intOk w b.2.2.1).2.1 (pc_alloc pc w a.2).2.2.1
  · exact absurd (pc.he.intOk w a.2.2.1).2.1 (pc_alloc pc w b.2).2.2.1
  · exact pc.he.mapInj k1 k2 w a.1 b.1

end PreCommitFacts3

section PreCommitFacts4
variable {f0 : FileSt} {live : List Nat} {f1 : FileSt} {tx1 : TxSt} {cur : List Nat}
  {a2 : Alloc} {ta2 : TxAlloc} {N L : List Nat} {M : Assoc Nat} {WP FL : List Nat}

/-- an overwrite page of the new mapping is neither a kept old mapping/free-list page nor a page allocated
    by the commit -/
theorem pc_val_ne_page (pc : PreCommit f0 live f1 tx1 cur a2 ta2 N L M WP FL) (x : Nat) (hx : x ∈ M.map (·.2))
    (hp : (x ∈ f0.walPages ∨ x ∈ f0.alloc.freelistPages) ∨ x ∈ N) : False := by
  obtain ⟨k, hk⟩ := (mem_values pc.hMk x).mp hx
  rcases (pc_map pc k x hk).2 with h | h
  · obtain ⟨w1, w2, -⟩ := pc.h1.wn k x h.1
    rcases hp with hp | hp
    · exact w1 (pc.he.intOk x ((mem_internal f0 x).mpr (Or.inr hp))).2.1
    · exact (pc.hN.2 x hp).1 (pc.h1.mAlloc.2 x w2).1
  · rcases hp with hp | hp
    · exact eng_int_disj pc.he x hp ((mem_values pc.he.keys x).mpr ⟨k, h.1⟩)
    · exact (pc.hN.2 x hp).1 (pc.h1.keep x (pc.he.intOk x h.2.2.1).2.1)

theorem pc_intNodup (pc : PreCommit f0 live f1 tx1 cur a2 ta2 N L M WP FL) : (M.map (·.2) ++ WP ++ FL).Nodup := by
  rw [List.nodup_append, List.nodup_append]
  refine ⟨⟨values_nodup M pc.hMk (pc_mapInj pc), pc.hWP.1, ?_⟩, pc.hFL.1, ?_⟩
  · intro x hx y hy e
    subst e
    apply pc_val_ne_page pc x hx
    rcases pc.hWP.2 x hy with h | h
    · exact Or.inl (Or.inl h.1)
    · exact Or.inr h
  · intro x hx y hy e
    subst e
    rcases List.mem_append.mp hx with hx | hx
    · apply pc_val_ne_page pc x hx
      rcases pc.hFL.2 x hy with h | h
      · exact Or.inl (Or.inr h.1)
      · exact Or.inr h
    · exact pc.hWF x hx hy

end PreCommitFacts4

section PreCommitFacts5
variable {f0 : FileSt} {live : List Nat} {f1 : FileSt} {tx1 : TxSt} {cur : List Nat}
  {a2 : Alloc} {ta2 : TxAlloc} {N L : List Nat} {M : Assoc Nat} {WP FL : List Nat}

/-- the accounting of the meta area after the commit -/
theorem pc_total (pc : PreCommit f0 live f1 tx1 cur a2 ta2 N L M WP FL) :
    (unionIds ta2.mta.freed a2.mta.free).length + (M.map (·.2) ++ WP ++ FL).length ≤ a2.metaTotal := by
  have t1 : (unionIds ta2.mta.freed a2.mta.free).length = ta2.mta.freed.length + a2.mta.free.length :=
    length_unionIds_of_disjoint _ _ (asc_nodup _ pc.hmfa) (fun x hx hf => (pc_mfreed pc x hx).2.2.2.2.2.1 hf)
  have t2 : (ta2.mta.freed ++ (M.map (·.2) ++ WP ++ FL)).length ≤ (f0.internal ++ ta2.mta.allocated).length := by
    apply nodup_subset_length
    · rw [List.nodup_append]
      refine ⟨asc_nodup _ pc.hmfa, pc_intNodup pc, ?_⟩
      intro x hx y hy e
      subst e
      rcases pc_class pc x hy with h | h
      · exact h.2 hx
      · exact (pc_alloc pc x h).2.2.1 (pc_mfreed pc x hx).2.2.1
    · intro x hx
      rw [List.mem_append] at hx ⊢
      rcases hx with hx | hx
      · exact Or.inl (pc_mfreed pc x hx).1
      · rcases pc_class pc x hx with h | h
        · exact Or.inl h.1
        · exact Or.inr h
  have t3 : (a2.mta.free ++ ta2.mta.allocated).length ≤
      (f0.alloc.mta.free ++ ta2.moveToMeta ++ ta2.fromOverflow).length := by
    apply nodup_subset_length
    · rw [List.nodup_append]
      refine ⟨asc_nodup _ pc.hok.ascM, asc_nodup _ pc.hasc, ?_⟩
      intro x hx y hy e
      subst e
      exact (pc_alloc pc x hy).2.1.2.1 hx
    · intro x hx
      rw [List.mem_append] at hx
      have := (pc.hinv.mIff x).mp hx
      rw [List.mem_append, List.mem_append]
      rcases this with h | h | h
      · exact Or.inl (Or.inl h)
      · exact Or.inl (Or.inr h)
      · exact Or.inr h
  have t4 := pc.hinv.total
  have t5 := pc.he.total
  simp only [List.length_append] at t2 t3 ⊢
  omega

end PreCommitFacts5

section PreCommitFacts6
variable {f0 : FileSt} {live : List Nat} {f1 : FileSt} {tx1 : TxSt} {cur : List Nat}
  {a2 : Alloc} {ta2 : TxAlloc} {N L : List Nat} {M : Assoc Nat} {WP FL : List Nat}

theorem pc_wf (pc : PreCommit f0 live f1 tx1 cur a2 ta2 N L M WP FL) : WF (commitShape a2 ta2 FL) := by
  refine ⟨asc_unionIds _ _ pc.hok.ascD, asc_unionIds _ _ pc.hok.ascM, ?_, ?_, ?_, pc.hok.dEnd, pc.hok.limit, ?_⟩
  · intro x hx
    have hx' : x ∈ unionIds ta2.data.freed a2.data.free := hx
    rw [mem_unionIds] at hx'
    show 2 ≤ x ∧ x < a2.data.endMarker
    rcases hx' with h | h
    · obtain ⟨-, d2, d3, -, -⟩ := pc_dfreed pc x h
      exact ⟨d2, inUse_lt pc.hok2 d3⟩
    · exact pc.hok.dRange x h
  · intro x hx
    have hx' : x ∈ unionIds ta2.mta.freed a2.mta.free := hx
    rw [mem_unionIds] at hx'
    show 2 ≤ x ∧ x < a2.mta.endMarker ∧ (x < a2.data.endMarker ∨ (0 < a2.maxPages ∧ a2.maxPages ≤ x))
    rcases hx' with h | h
    · obtain ⟨-, m2, -, -, m5⟩ := pc_mfreed pc x h
      exact ⟨m2, m5.2.2.1, m5.2.2.2⟩
    · exact ⟨pc.hok2.mGe2 x h, (pc.hok.mOK x h).2⟩
  · intro x hx
    have hx' : x ∈ unionIds ta2.data.freed a2.data.free := hx
    rw [mem_unionIds] at hx'
    show x ∉ unionIds ta2.mta.freed a2.mta.free
    rw [mem_unionIds]
    intro hm
    rcases hx' with h | h
    · obtain ⟨-, -, d3, d4, -⟩ := pc_dfreed pc x h
      rcases hm with hm | hm
      · obtain ⟨-, -, m3, m4, -⟩ := pc_mfreed pc x hm
        rcases d4 with d4 | d4
        · exact m4 d4
        · exact d4 m3
      · exact d3.2.1 hm
    · rcases hm with hm | hm
      · exact (pc_mfreed pc x hm).2.2.2.2.1 h
      · exact (pc.hok.mOK x hm).1 h
  · have := pc_total pc
    show (unionIds ta2.mta.freed a2.mta.free).length ≤ a2.metaTotal
    omega

theorem pc_engInv (pc : PreCommit f0 live f1 tx1 cur a2 ta2 N L M WP FL) (F : FileSt)
    (hA : F.alloc = commitShape a2 ta2 FL) (hMm : F.walMap = M) (hW : F.walPages = WP) : EngInv F cur := by
  have hint : F.internal = M.map (·.2) ++ WP ++ FL := by unfold FileSt.internal; rw [hA, hMm, hW]; rfl
  refine ⟨hA ▸ pc_wf pc, ?_, hMm ▸ pc.hMk, ?_, ?_, ?_, ?_, hint ▸ pc_intNodup pc, ?_, ?_⟩
  · rw [hA]; exact pc.hok2.ends
  · intro id hid
    rw [hA]
    exact pc_cur pc id hid
  · intro k w hk
    rw [hMm] at hk
    exact (pc_map pc k w hk).1
  · rw [hMm]; exact pc_mapInj pc
  · intro x hx
    rw [hint] at hx
    rw [hA]
    exact pc_intOk pc x hx
  · rw [hint, hA]; exact pc_total pc
  · rw [hA]; exact pc.hok2.noOv

end PreCommitFacts6

/-! ### the allocations of the commit itself -/

/-- allocator state during the commit: `N` are the pages the commit allocated so far, `ta3` the
    transaction's allocator state when the commit started allocating -/
structure PA (f0 f1 : FileSt) (a : Alloc) (ta : TxAlloc) (N : List Nat) (ta3 : TxAlloc) : Prop where
  hinv : Inv f0.alloc a ta
  hok : AOK a
  hok2 : AOK2 a
  hkeep : ∀ x, InUse f1.alloc x → InUse a x
  hdf : ta.data.freed = ta3.data.freed
  hmf : ta.mta.freed = ta3.mta.freed
  hovf : ta.overflow = false
  hN : N.Nodup ∧ ∀ x ∈ N, ¬ InUse f1.alloc x ∧ InUse a x ∧ 2 ≤ x
  hal : ∀ x, x ∈ ta.mta.allocated ↔ x ∈ N ∨ x ∈ ta3.mta.allocated
  hasc : Asc ta.mta.allocated

theorem pa_step {f0 f1 : FileSt} {live : List Nat} (he : EngInv f0 live) {a : Alloc} {ta : TxAlloc} {N : List Nat}
    {ta3 : TxAlloc} (h : PA f0 f1 a ta N ta3) (n : Nat) (a' : Alloc) (ta' : TxAlloc) (ids : List Nat)
    (hr : metaAllocRegions a ta n = some (a', ta', ids)) :
    PA f0 f1 a' ta' (N ++ ids) ta3 ∧ ids.Nodup ∧ ∀ x ∈ ids, x ∉ N := by
  obtain ⟨f1', f2', f3', f4'⟩ := fr_metaAllocRegions a ta n a' ta' ids h.hok hr
  obtain ⟨g1, g2⟩ := a2_metaAllocRegions a ta n a' ta' ids h.hok h.hok2 h.hovf hr
  obtain ⟨s1, s2, s3, s4⟩ := metaAllocRegions_st a ta n a' ta' ids hr
  have hdisj : ∀ x ∈ ids, x ∉ N := fun x hx hn => (f3' x hx).1 (h.hN.2 x hn).2.1
  refine ⟨⟨inv_metaAllocRegions f0.alloc a ta n a' ta' ids he.wf h.hinv hr, f1', g1,
    fun x hx => f2' x (h.hkeep x hx), s3.trans h.hdf, s2.trans h.hmf, s4.trans h.hovf, ⟨?_, ?_⟩, ?_, ?_⟩,
    f4', hdisj⟩
  · rw [List.nodup_append]
    exact ⟨h.hN.1, f4', fun x hx y hy e => hdisj y hy (e ▸ hx)⟩
  · intro x hx
    rcases List.mem_append.mp hx with hx | hx
    · obtain ⟨n1, n2, n3⟩ := h.hN.2 x hx
      exact ⟨n1, f2' x n2, n3⟩
    · exact ⟨fun hu => (f3' x hx).1 (h.hkeep x hu), (f3' x hx).2, g2 x hx⟩
  · intro x
    rw [s1, mem_unionIds, h.hal x, List.mem_append]
    constructor
    · rintro (h1 | h1 | h1)
      · exact Or.inl (Or.inr h1)
      · exact Or.inl (Or.inl h1)
      · exact Or.inr h1
    · rintro ((h1 | h1) | h1)
      · exact Or.inr (Or.inl h1)
      · exact Or.inl h1
      · exact Or.inr (Or.inr h1)
  · rw [s1]; exact asc_unionIds _ _ h.hasc

theorem ckptFold_ovf (l : Assoc Nat) : ∀ (s : FileSt × TxSt),
    (l.foldl ckptOne s).2.ta.overflow = s.2.ta.overflow := by
  induction l with
  | nil => intro s; rfl
  | cons e l ih => intro s; rw [List.foldl_cons, ih]; rfl

theorem doCheckpoint_ovf (f : FileSt) (tx : TxSt) : (doCheckpoint f tx).2.1.ta.overflow = tx.ta.overflow := by
  unfold doCheckpoint
  split
  · rfl
  · split
    · rfl
    · exact ckptFold_ovf _ _

theorem cPhase1_ovf (f : FileSt) (tx : TxSt) : (cPhase1 f tx).2.1.ta.overflow = tx.ta.overflow := by
  unfold cPhase1
  split
  · exact doCheckpoint_ovf f tx
  · rfl

/-- the state in which the commit starts allocating -/
theorem pa_init {f0 : FileSt} {live : List Nat} {f : FileSt} {tx : TxSt} {cur : List Nat}
    (h1 : TxInv f0 live (cPhase1 f tx).1 (cPhase1 f tx).2.1 cur) (hov : tx.ta.overflow = false) :
    PA f0 (cPhase1 f tx).1 (cPhase1 f tx).1.alloc (cTx3 f tx).ta [] (cTx3 f tx).ta := by
  have hov1 : (cPhase1 f tx).2.1.ta.overflow = false := (cPhase1_ovf f tx).trans hov
  have hov3 : (cTx3 f tx).ta.overflow = false := by
    rw [(cTx3_spec f tx).1, (metaFreeIds_spec _ _).2.2.1, (metaFreeIds_spec _ _).2.2.1]; exact hov1
  have hasc : Asc (cTx3 f tx).ta.mta.allocated := by
    rw [(cTx3_spec f tx).1, (metaFreeIds_spec _ _).1, (metaFreeIds_spec _ _).1]; exact h1.mAlloc.1
  exact ⟨inv_cTx3 h1, h1.aok, (h1.ov2 hov1).1, fun _ hx => hx, rfl, rfl, hov3,
    ⟨List.nodup_nil, fun _ hx => nomatch hx⟩, fun x => by simp, hasc⟩

theorem eng_pages {f : FileSt} {live : List Nat} (he : EngInv f live) :
    f.walPages.Nodup ∧ f.alloc.freelistPages.Nodup ∧ ∀ x ∈ f.walPages, x ∉ f.alloc.freelistPages := by
  have hnd := he.intNodup
  unfold FileSt.internal at hnd
  rw [List.nodup_append, List.nodup_append] at hnd
  refine ⟨hnd.1.2.1, hnd.2.1, ?_⟩
  intro x hx hy
  exact hnd.2.2 x (List.mem_append_right _ hx) x hy rfl

/-- the old internal pages a commit releases -/
def cRel (f : FileSt) (tx : TxSt) : List Nat :=
  (if cWalUpd f tx then (cPhase1 f tx).1.walPages else []) ++
  (if cAllocUpd f tx then (cPhase1 f tx).1.alloc.freelistPages else [])

theorem cTx3_facts (f : FileSt) (tx : TxSt) :
    (cTx3 f tx).ta.mta.allocated = (cPhase1 f tx).2.1.ta.mta.allocated ∧
    (cTx3 f tx).ta.data = (cPhase1 f tx).2.1.ta.data ∧
    (∀ x, x ∈ (cTx3 f tx).ta.mta.freed ↔ x ∈ cRel f tx ∨ x ∈ (cPhase1 f tx).2.1.ta.mta.freed) ∧
    (Asc (cPhase1 f tx).2.1.ta.mta.freed → Asc (cTx3 f tx).ta.mta.freed) := by
  rw [(cTx3_spec f tx).1]
  obtain ⟨a1, a2, -, a4, a5⟩ := metaFreeIds_spec (if cWalUpd f tx then (cPhase1 f tx).1.walPages else [])
    (cPhase1 f tx).2.1.ta
  obtain ⟨b1, b2, -, b4, b5⟩ := metaFreeIds_spec
    (if cAllocUpd f tx then (cPhase1 f tx).1.alloc.freelistPages else [])
    (metaFreeIds (cPhase1 f tx).2.1.ta (if cWalUpd f tx then (cPhase1 f tx).1.walPages else []))
  refine ⟨b1.trans a1, b2.trans a2, ?_, fun h => b5 (a5 h)⟩
  intro x
  rw [b4 x, a4 x]
  unfold cRel
  rw [List.mem_append]
  constructor
  · rintro (h | h | h)
    · exact Or.inl (Or.inr h)
    · exact Or.inl (Or.inl h)
    · exact Or.inr h
  · rintro ((h | h) | h)
    · exact Or.inr (Or.inl h)
    · exact Or.inl h
    · exact Or.inr (Or.inr h)

theorem cRel_sub {f0 : FileSt} {live : List Nat} {f : FileSt} {tx : TxSt} {cur : List Nat}
    (h1 : TxInv f0 live (cPhase1 f tx).1 (cPhase1 f tx).2.1 cur) (x : Nat) (hx : x ∈ cRel f tx) :
    (x ∈ f0.walPages ∧ cWalUpd f tx = true) ∨ (x ∈ f0.alloc.freelistPages ∧ cAllocUpd f tx = true) := by
  unfold cRel at hx
  rcases List.mem_append.mp hx with hx | hx
  · left
    cases hc : cWalUpd f tx with
    | false => rw [hc] at hx; simp at hx
    | true => rw [hc] at hx; simp only [if_true] at hx; exact ⟨h1.sameWP ▸ hx, rfl⟩
  · right
    cases hc : cAllocUpd f tx with
    | false => rw [hc] at hx; simp at hx
    | true => rw [hc] at hx; simp only [if_true] at hx; exact ⟨h1.inv.cfgFl ▸ hx, rfl⟩

theorem pc_of_pa {f0 : FileSt} {live : List Nat} {f : FileSt} {tx : TxSt} {cur : List Nat}
    (he : EngInv f0 live) (h1 : TxInv f0 live (cPhase1 f tx).1 (cPhase1 f tx).2.1 cur)
    (hov : tx.ta.overflow = false) {a2 : Alloc} {ta2 : TxAlloc} {N : List Nat}
    (pa : PA f0 (cPhase1 f tx).1 a2 ta2 N (cTx3 f tx).ta) (M : Assoc Nat)
    (hM : ∀ k, Assoc.get? M k = newMapAt f0.walMap (cPhase1 f tx).2.1 k) (hMk : AscKeys M) (WP FL : List Nat)
    (hWP : WP.Nodup ∧ ∀ x ∈ WP, (x ∈ f0.walPages ∧ x ∉ cRel f tx) ∨ x ∈ N)
    (hFL : FL.Nodup ∧ ∀ x ∈ FL, (x ∈ f0.alloc.freelistPages ∧ x ∉ cRel f tx) ∨ x ∈ N)
    (hWF : ∀ x ∈ WP, x ∉ FL) :
    PreCommit f0 live (cPhase1 f tx).1 (cPhase1 f tx).2.1 cur a2 ta2 N (cRel f tx) M WP FL := by
  obtain ⟨c1, c2, c3, c4⟩ := cTx3_facts f tx
  refine ⟨he, h1, (cPhase1_ovf f tx).trans hov, pa.hinv, pa.hok, pa.hok2, pa.hkeep, ?_, pa.hN, ?_, pa.hasc, ?_, ?_,
    ?_, hM, hMk, hWP, hFL, hWF⟩
  · rw [pa.hdf, c2]
  · intro x; rw [pa.hal x, c1]
  · intro x hx
    rcases cRel_sub h1 x hx with h | h
    · exact Or.inl h.1
    · exact Or.inr h.1
  · intro x; rw [pa.hmf, c3 x]
  · rw [pa.hmf]; exact c4 h1.mfAsc

theorem cAllocUpd_false (f : FileSt) (tx : TxSt) (h : cAllocUpd f tx = false) :
    (cTx3 f tx).ta.mta.freed = [] ∧ (cTx3 f tx).ta.data.freed = [] := by
  have e : (cTx3 f tx).ta = (if cWalUpd f tx then
      { (cPhase1 f tx).2.1 with ta := metaFreeIds (cPhase1 f tx).2.1.ta (cPhase1 f tx).1.walPages }
      else (cPhase1 f tx).2.1).ta := by
    unfold cTx3
    unfold cAllocUpd at h
    dsimp only at h ⊢
    rw [h]; rfl
  rw [e]
  unfold cAllocUpd at h
  dsimp only at h
  simp only [TxAlloc.updated, TxArea.updated, Bool.or_eq_false_iff, Bool.not_eq_false', List.isEmpty_iff] at h
  exact ⟨h.1.2, h.2.2⟩

theorem commitShape_id (a : Alloc) (ta : TxAlloc) (h1 : ta.data.freed = []) (h2 : ta.mta.freed = []) :
    commitShape a ta a.freelistPages = a := by
  unfold commitShape
  rw [h1, h2]
  rfl

theorem wp_ok {f0 : FileSt} {live : List Nat} {f : FileSt} {tx : TxSt} {cur : List Nat}
    (he : EngInv f0 live) (h1 : TxInv f0 live (cPhase1 f tx).1 (cPhase1 f tx).2.1 cur)
    (N regs : List Nat) (hregs : regs.Nodup) (hsub : ∀ x ∈ regs, x ∈ N) :
    (if cWalUpd f tx then regs else (cPhase1 f tx).1.walPages).Nodup ∧
    ∀ x ∈ (if cWalUpd f tx then regs else (cPhase1 f tx).1.walPages),
      (x ∈ f0.walPages ∧ x ∉ cRel f tx) ∨ x ∈ N := by
  cases hwu : cWalUpd f tx with
  | true => simp only [if_true]; exact ⟨hregs, fun x hx => Or.inr (hsub x hx)⟩
  | false =>
    simp only [Bool.false_eq_true, if_false]
    rw [h1.sameWP]
    refine ⟨(eng_pages he).1, fun x hx => Or.inl ⟨hx, ?_⟩⟩
    intro hc
    rcases cRel_sub h1 x hc with c | c
    · rw [hwu] at c; cases c.2
    · exact (eng_pages he).2.2 x hx c.1

/-- an old mapping page is not a page allocated by the commit -/
theorem old_not_new {f0 : FileSt} {live : List Nat} {f1 : FileSt} {tx1 : TxSt} {cur : List Nat}
    (he : EngInv f0 live) (h1 : TxInv f0 live f1 tx1 cur) {a2 : Alloc} {ta2 : TxAlloc} {N : List Nat}
    {ta3 : TxAlloc} (pa : PA f0 f1 a2 ta2 N ta3) (x : Nat)
    (hx : x ∈ f0.walPages ∨ x ∈ f0.alloc.freelistPages) : x ∉ N := by
  intro hn
  exact (pa.hN.2 x hn).1 (h1.keep x (he.intOk x ((mem_internal f0 x).mpr (Or.inr hx))).2.1)

/-- **commit re-establishes the invariant** for the pages the client owns now, for transactions that do not
    use the overflow area -/
theorem commit_engInv {f0 : FileSt} {live : List Nat} {f : FileSt} {tx : TxSt} {cur : List Nat}
    (he : EngInv f0 live) (h : TxInv f0 live f tx cur) (hfl : AllFlushed tx) (hov : tx.ta.overflow = false)
    (hok : (commitAfterFlush f tx).2.1 = .ok) : EngInv (commitAfterFlush f tx).1 cur := by
  obtain ⟨h1, -, hmap, hkeys⟩ := commit_phase1 he h hfl
  rw [commitAfterFlush_eq] at hok ⊢
  unfold commitAfterFlush' at hok ⊢
  dsimp only at hok ⊢
  cases hr : cWalRes f tx with
  | none => rw [hr] at hok; cases hok
  | some r =>
    obtain ⟨a, ta, regs⟩ := r
    rw [hr] at hok
    dsimp only at hok ⊢
    cases hc : fileCommitAlloc a ta (cAllocUpd f tx || !regs.isEmpty) with
    | none => rw [hc] at hok; cases hok
    | some r2 =>
      obtain ⟨a2, ta2, cs⟩ := r2
      dsimp only
      have pa0 := pa_init h1 hov
      have pa1 : PA f0 (cPhase1 f tx).1 a ta regs (cTx3 f tx).ta ∧ regs.Nodup := by
        rcases cWalRes_cases f tx a ta regs hr with ⟨n, hn⟩ | ⟨rfl, rfl, rfl⟩
        · obtain ⟨p1, p2, -⟩ := pa_step he pa0 n a ta regs hn
          exact ⟨p1, p2⟩
        · exact ⟨pa0, List.nodup_nil⟩
      rcases fileCommit_shape a ta _ a2 ta2 cs hc pa1.1.hok pa1.1.hok2 pa1.1.hovf with
        ⟨hu, rfl, rfl, hcm⟩ | ⟨-, regs2, hstep, hcm⟩
      · -- nothing to write for the allocator
        simp only [Bool.or_eq_false_iff, Bool.not_eq_false', List.isEmpty_iff] at hu
        obtain ⟨hu1, hu2⟩ := hu
        subst hu2
        obtain ⟨z1, z2⟩ := cAllocUpd_false f tx hu1
        have hid := commitShape_id a2 ta2 (pa1.1.hdf.trans z2) (pa1.1.hmf.trans z1)
        have hfl' : a2.freelistPages = f0.alloc.freelistPages := pa1.1.hinv.cfgFl
        have pc := pc_of_pa he h1 hov pa1.1 _ hmap hkeys _ a2.freelistPages
          (wp_ok he h1 [] [] List.nodup_nil (fun _ hx => hx)) (by
            rw [hfl']
            refine ⟨(eng_pages he).2.1, fun x hx => Or.inl ⟨hx, ?_⟩⟩
            intro hc
            rcases cRel_sub h1 x hc with c | c
            · exact (eng_pages he).2.2 x c.1 hx
            · rw [hu1] at c; cases c.2) (by
            intro x hx
            rw [hfl']
            cases hwu : cWalUpd f tx with
            | true => rw [hwu] at hx; simp at hx
            | false =>
              rw [hwu] at hx
              simp only [Bool.false_eq_true, if_false] at hx
              exact (eng_pages he).2.2 x (h1.sameWP ▸ hx))
        exact pc_engInv pc _ (hcm.trans hid.symm) rfl rfl
      · -- the free lists are written
        have pa2 : PA f0 (cPhase1 f tx).1 a2 ta2 (regs ++ regs2) (cTx3 f tx).ta ∧ regs2.Nodup ∧
            ∀ x ∈ regs2, x ∉ regs := by
          rcases hstep with ⟨n, hn⟩ | ⟨rfl, rfl, rfl⟩
          · exact pa_step he pa1.1 n a2 ta2 regs2 hn
          · rw [List.append_nil]; exact ⟨pa1.1, List.nodup_nil, fun _ hx => nomatch hx⟩
        have pc := pc_of_pa he h1 hov pa2.1 _ hmap hkeys _ regs2
          (wp_ok he h1 (regs ++ regs2) regs pa1.2 (fun x hx => List.mem_append_left _ hx))
          ⟨pa2.2.1, fun x hx => Or.inr (List.mem_append_right _ hx)⟩ (by
            intro x hx hx2
            cases hwu : cWalUpd f tx with
            | true =>
              rw [hwu] at hx
              simp only [if_true] at hx
              exact pa2.2.2 x hx2 hx
            | false =>
              rw [hwu] at hx
              simp only [Bool.false_eq_true, if_false] at hx
              exact old_not_new he h1 pa2.1 x (Or.inl (h1.sameWP ▸ hx)) (List.mem_append_right _ hx2))
        exact pc_engInv pc _ hcm rfl rfl

/-! ### the overflow flag of the transaction never changes -/

theorem getPage_ta (f : FileSt) (tx tx1 : TxSt) (id : Nat) (p : PageSt) (h : getPage f tx id = .ok (tx1, p)) :
    tx1.ta = tx.ta := by
  rcases getPage_cases f tx tx1 id p h with ⟨-, -, rfl⟩ | ⟨-, -, rfl⟩ <;> rfl

theorem txWrite_ovf (f : FileSt) (tx : TxSt) (id : Nat) (mode : WMode) (s : Nat) (tx' : TxSt)
    (hw : txWrite f tx id mode s = .ok tx') : tx'.ta.overflow = tx.ta.overflow := by
  unfold txWrite at hw
  cases hg : getPage f tx id with
  | error e => simp [hg, bind, Except.bind] at hw
  | ok r =>
    obtain ⟨tx1, p⟩ := r
    simp only [hg, bind, Except.bind] at hw
    have := getPage_ta f tx tx1 id p hg
    cases hcw : pageCanWrite p with
    | error e => simp [hcw] at hw
    | ok u =>
      simp only [hcw] at hw
      cases mode <;> (simp only [pure, Except.pure, Except.ok.injEq] at hw; subst hw; exact congrArg (·.overflow) this)

theorem txLoad_ovf (f : FileSt) (tx : TxSt) (id : Nat) (tx' : TxSt)
    (hw : txLoad f tx id = .ok tx') : tx'.ta.overflow = tx.ta.overflow := by
  unfold txLoad at hw
  cases hg : getPage f tx id with
  | error e => simp [hg, bind, Except.bind] at hw
  | ok r =>
    obtain ⟨tx1, p⟩ := r
    simp only [hg, bind, Except.bind] at hw
    have := getPage_ta f tx tx1 id p hg
    cases hcw : pageCanWrite p with
    | error e => simp [hcw] at hw
    | ok u =>
      simp only [hcw, pure, Except.pure, Except.ok.injEq] at hw
      subst hw; exact congrArg (·.overflow) this

theorem txRead_ovf (f : FileSt) (tx : TxSt) (id : Nat) (tx' : TxSt) (c : Content)
    (hw : txRead f tx id = .ok (tx', c)) : tx'.ta.overflow = tx.ta.overflow := by
  unfold txRead at hw
  cases hg : getPage f tx id with
  | error e => simp [hg, bind, Except.bind] at hw
  | ok r =>
    obtain ⟨tx1, p⟩ := r
    simp only [hg, bind, Except.bind] at hw
    have := getPage_ta f tx tx1 id p hg
    split at hw
    · simp only [pure, Except.pure, Except.ok.injEq, Prod.mk.injEq] at hw
      rw [← hw.1]; exact congrArg (·.overflow) this
    · split at hw
      · cases hw
      · simp only [pure, Except.pure, Except.ok.injEq, Prod.mk.injEq] at hw
        rw [← hw.1]; exact congrArg (·.overflow) this

theorem txAlloc_ovf (f : FileSt) (tx : TxSt) (n : Nat) (f' : FileSt) (tx' : TxSt) (ids : List Nat)
    (hw : txAlloc f tx n = .ok (f', tx', ids)) : tx'.ta.overflow = tx.ta.overflow := by
  unfold txAlloc at hw
  cases hr : dataAllocRegions f.alloc tx.ta n with
  | none => simp [hr] at hw
  | some r =>
    obtain ⟨a, ta, ids'⟩ := r
    simp only [hr, Except.ok.injEq, Prod.mk.injEq] at hw
    obtain ⟨-, rfl, -⟩ := hw
    exact (stSame_regions _ _ _ _ _ _ hr).2.2.2

theorem txFree_ovf (f : FileSt) (tx : TxSt) (id : Nat) (f' : FileSt) (tx' : TxSt)
    (hw : txFree f tx id = .ok (f', tx')) : tx'.ta.overflow = tx.ta.overflow := by
  unfold txFree at hw
  cases hg : getPage f tx id with
  | error e => simp [hg, bind, Except.bind] at hw
  | ok r =>
    obtain ⟨tx1, p⟩ := r
    have hta := getPage_ta f tx tx1 id p hg
    cases hcw : pageCanWrite p with
    | error e => simp [hg, bind, Except.bind, hcw] at hw
    | ok u =>
      cases hd : p.dirty with
      | true => simp [hg, bind, Except.bind, hcw, hd] at hw
      | false =>
        simp only [hg, bind, Except.bind, hcw, hd, Bool.false_eq_true, if_false, pure, Except.pure,
          Except.ok.injEq, Prod.mk.injEq] at hw
        obtain ⟨-, rfl⟩ := hw
        have : (dataFree f.alloc tx1.ta id).2.overflow = tx.ta.overflow := by
          rw [dataFree_ovf, hta]
        split <;> exact this

theorem doFlush_ovf (f : FileSt) (tx : TxSt) (p : PageSt) (f' : FileSt) (tx' : TxSt) (w : Option Nat)
    (hw : doFlush f tx p = .ok (f', tx', w)) : tx'.ta.overflow = tx.ta.overflow := by
  obtain ⟨pid, pond, pb, pn, pfr, pfl, pc, pdirty⟩ := p
  unfold doFlush at hw
  cases pdirty with
  | false =>
    simp only [Bool.not_false, Bool.true_or, if_true, Except.ok.injEq, Prod.mk.injEq] at hw
    rw [← hw.2.1]
  | true =>
    cases pfl with
    | true =>
      simp only [Bool.not_true, Bool.or_true, if_true, Except.ok.injEq, Prod.mk.injEq] at hw
      rw [← hw.2.1]
    | false =>
      simp only [Bool.not_true, Bool.or_self, Bool.false_eq_true, if_false] at hw
      cases pn with
      | true =>
        simp only [if_true, Except.ok.injEq, Prod.mk.injEq] at hw
        rw [← hw.2.1]; rfl
      | false =>
        simp only [Bool.false_eq_true, if_false] at hw
        by_cases heq : pid = pond
        · subst heq
          simp only [if_true] at hw
          cases hwa : walAlloc f.alloc tx.ta with
          | none => simp [hwa] at hw
          | some r =>
            obtain ⟨a, ta, w'⟩ := r
            simp only [hwa, Except.ok.injEq, Prod.mk.injEq] at hw
            rw [← hw.2.1]
            exact (walAlloc_st _ _ _ _ _ hwa).2.2.2
        · simp only [heq, if_false, Except.ok.injEq, Prod.mk.injEq] at hw
          rw [← hw.2.1]; rfl

theorem flushList_ovf (ids : List Nat) : ∀ (f : FileSt) (tx : TxSt) (f' : FileSt) (tx' : TxSt)
    (ws : List (Nat × Nat)), flushList f tx ids = .ok (f', tx', ws) → tx'.ta.overflow = tx.ta.overflow := by
  induction ids with
  | nil =>
    intro f tx f' tx' ws hw
    simp only [flushList, Except.ok.injEq, Prod.mk.injEq] at hw
    rw [← hw.2.1]
  | cons id ids ih =>
    intro f tx f' tx' ws hw
    unfold flushList at hw
    cases hg : Assoc.get? tx.pages id with
    | none => simp [hg] at hw
    | some p =>
      simp only [hg] at hw
      cases hf : doFlush f tx p with
      | error e => simp [hf] at hw
      | ok r =>
        obtain ⟨f1, tx1, w⟩ := r
        simp only [hf] at hw
        cases hr : flushList f1 tx1 ids with
        | error e => simp [hr] at hw
        | ok r2 =>
          obtain ⟨f2, tx2, ws2⟩ := r2
          simp only [hr, Except.ok.injEq, Prod.mk.injEq] at hw
          rw [← hw.2.1]
          exact (ih f1 tx1 f2 tx2 ws2 hr).trans (doFlush_ovf f tx p f1 tx1 w hf)

theorem flushPageOp_ovf (f : FileSt) (tx : TxSt) (id : Nat) (f' : FileSt) (tx' : TxSt) (w : Option Nat)
    (hw : flushPageOp f tx id = .ok (f', tx', w)) : tx'.ta.overflow = tx.ta.overflow := by
  unfold flushPageOp at hw
  cases hg : getPage f tx id with
  | error e => simp [hg, bind, Except.bind] at hw
  | ok r =>
    obtain ⟨tx1, p⟩ := r
    simp only [hg, bind, Except.bind] at hw
    have := getPage_ta f tx tx1 id p hg
    cases hcw : pageCanWrite p with
    | error e => simp [hcw] at hw
    | ok u =>
      simp only [hcw] at hw
      rw [doFlush_ovf f tx1 p f' tx' w hw, this]

theorem step_ovf (s : ERunSt) (op : EOp) : (op.step s).tx.ta.overflow = s.tx.ta.overflow := by
  cases op with
  | alloc n =>
    simp only [EOp.step]
    split
    · rename_i f tx ids hr; exact txAlloc_ovf _ _ _ _ _ _ hr
    · rfl
  | write id mode st =>
    simp only [EOp.step]
    split
    · split
      · rename_i tx hr; exact txWrite_ovf _ _ _ _ _ _ hr
      · rfl
    · rfl
  | load id =>
    simp only [EOp.step]
    split
    · split
      · rename_i tx hr; exact txLoad_ovf _ _ _ _ hr
      · rfl
    · rfl
  | read id =>
    simp only [EOp.step]
    split
    · split
      · rename_i tx c hr; exact txRead_ovf _ _ _ _ _ hr
      · rfl
    · rfl
  | free id =>
    simp only [EOp.step]
    split
    · split
      · rename_i f tx hr; exact txFree_ovf _ _ _ _ _ hr
      · rfl
    · rfl
  | flushPage id =>
    simp only [EOp.step]
    split
    · split
      · rename_i f tx w hr; exact flushPageOp_ovf _ _ _ _ _ _ hr
      · rfl
    · rfl
  | flushAll order =>
    simp only [EOp.step]
    split
    · rename_i f tx ws hr; exact flushList_ovf _ _ _ _ _ _ hr
    · rfl
  | checkpoint =>
    simp only [EOp.step]
    exact doCheckpoint_ovf _ _

theorem runOps_ovf (ops : List EOp) (s : ERunSt) : (runEOps s ops).tx.ta.overflow = s.tx.ta.overflow := by
  induction ops generalizing s with
  | nil => rfl
  | cons op ops ih =>
    show (runEOps (op.step s) ops).tx.ta.overflow = _
    rw [ih, step_ovf]

/-! ### the abstract store between operations that do not touch a page -/

/-- does the operation write or free the page? -/
def EOp.touches (id : Nat) : EOp → Bool
  | .write i _ _ => i == id
  | .free i => i == id
  | _ => false

theorem step_untouched {f0 : FileSt} {live : List Nat} (he : EngInv f0 live) (s : ERunSt) (h : RunInv f0 live s)
    (id : Nat) (hid : id ∈ s.cur) (op : EOp) (ht : op.touches id = false) :
    (op.step s).σ id = s.σ id ∧ id ∈ (op.step s).cur := by
  cases op with
  | alloc n =>
    simp only [EOp.step]
    split
    · rename_i f tx ids hr
      obtain ⟨-, h2, -⟩ := txinv_alloc he h.tx n f tx ids hr
      have : id ∉ ids := fun hc => (h2 id hc).1 hid
      exact ⟨by simp [this], List.mem_append_left _ hid⟩
    · exact ⟨rfl, hid⟩
  | write i mode st =>
    have hne : id ≠ i := by
      intro e; subst e; simp [EOp.touches] at ht
    simp only [EOp.step]
    split
    · split
      · exact ⟨by simp [hne], hid⟩
      · exact ⟨rfl, hid⟩
    · exact ⟨rfl, hid⟩
  | free i =>
    have hne : id ≠ i := by
      intro e; subst e; simp [EOp.touches] at ht
    simp only [EOp.step]
    split
    · split
      · exact ⟨rfl, (mem_filter_ne _ _ _).mpr ⟨hid, hne⟩⟩
      · exact ⟨rfl, hid⟩
    · exact ⟨rfl, hid⟩
  | load i => simp only [EOp.step]; split <;> (try split) <;> exact ⟨rfl, hid⟩
  | read i => simp only [EOp.step]; split <;> (try split) <;> exact ⟨rfl, hid⟩
  | flushPage i => simp only [EOp.step]; split <;> (try split) <;> exact ⟨rfl, hid⟩
  | flushAll order => simp only [EOp.step]; split <;> exact ⟨rfl, hid⟩
  | checkpoint => exact ⟨rfl, hid⟩

theorem runOps_untouched {f0 : FileSt} {live : List Nat} (he : EngInv f0 live) (ops : List EOp) (s : ERunSt)
    (h : RunInv f0 live s) (id : Nat) (hid : id ∈ s.cur) (ht : ∀ op ∈ ops, op.touches id = false) :
    (runEOps s ops).σ id = s.σ id ∧ id ∈ (runEOps s ops).cur := by
  induction ops generalizing s with
  | nil => exact ⟨rfl, hid⟩
  | cons op ops ih =>
    obtain ⟨h1, h2⟩ := step_untouched he s h id hid op (ht op List.mem_cons_self)
    obtain ⟨h3, h4⟩ := ih (op.step s) (runinv_step he s op h) h2 (fun o ho => ht o (List.mem_cons_of_mem _ ho))
    exact ⟨h3.trans h1, h4⟩

theorem runOps_append (s : ERunSt) (a b : List EOp) : runEOps s (a ++ b) = runEOps (runEOps s a) b := by
  unfold runEOps; rw [List.foldl_append]

theorem step_write_ok (s : ERunSt) (id : Nat) (mode : WMode) (st : Nat) (tx' : TxSt) (hid : id ∈ s.cur)
    (hw : txWrite s.f s.tx id mode st = .ok tx') :
    ((EOp.write id mode st).step s).σ id = some (wr mode id st ((s.σ id).getD {})) ∧
    ((EOp.write id mode st).step s).cur = s.cur := by
  simp only [EOp.step, hid, if_true, hw]
  exact ⟨by simp, trivial⟩
