/-
  Helpers for C15 on the engine model (Props/C15Engine.lean).

  The run semantics `EOp.step` (Proofs/Refine.lean) says BY DEFINITION that a failing operation changes
  nothing (`| .error _ => s`). To give C15 content on the model, this file defines the TRACED step
  `EOp.stepT`: the state as the code leaves it when the error is raised, with the result of the call.
  The code mutates in this order (page.go, tx.go):
    * `Tx.Page(id)` (`getPage`): range check, "freed in this transaction" checks, then — if the page object
      does not exist yet — a new page object is inserted into the transaction's page table;
    * the `Page` method: guard (`canWrite` / `canRead`), further checks (dirty page freed, fresh page read),
      and only then the mutation;  `Page.Flush`: the overwrite page is allocated (may fail: out of space)
      before anything is changed;
    * `Tx.Alloc/AllocN`: the allocator checks the available space before it takes anything;
    * `Tx.Flush` flushes page after page and stops at the first failure: the pages flushed before STAY flushed.
  So the only state that exists at the time of an error and did not exist before the call is the page
  object `Tx.Page` created — and the theorems show that no `Page` method fails on a freshly created page
  object, hence: an error ⇒ the traced state is the state before (`stepT_error_state`), except for `Tx.Flush`.
-/
import TxVerif.Proofs.Refine
import TxVerif.Props.C15
namespace TxVerif

/-! ### the engine functions as `Tx.Page` followed by the `Page` method -/

/-- `Page.SetBytes` (full / partial) and `Page.Load`+modify+`MarkDirty` on the page object -/
def writeBody (f : FileSt) (id : Nat) (mode : WMode) (s : Nat) (tx : TxSt) (p : PageSt) : Except Err TxSt := do
  pageCanWrite p
  match mode with
  | .full => pure (tx.setPage (setDirty { p with bytes := some (Content.full id s) }))
  | .lo =>
    let p := loadBytes f p
    let b := p.bytes.getD {}
    pure (tx.setPage (setDirty { p with bytes := some { b with lo := (id, s) } }))
  | .hi =>
    let p := loadBytes f p
    let b := p.bytes.getD {}
    pure (tx.setPage (setDirty { p with bytes := some { b with hi := (id, s) } }))

/-- `Page.Load` -/
def loadBody (f : FileSt) (tx : TxSt) (p : PageSt) : Except Err TxSt := do
  pageCanWrite p
  pure (tx.setPage (loadBytes f p))

/-- `Page.Bytes` -/
def readBody (f : FileSt) (tx : TxSt) (p : PageSt) : Except Err (TxSt × Content) :=
  match p.bytes with
  | some b => pure (tx, b)
  | none => if p.new_ then .error .invalidop else pure (tx, f.diskAt p.ondisk)

/-- `Page.Free` -/
def freeBody (f : FileSt) (id : Nat) (tx : TxSt) (p : PageSt) : Except Err (FileSt × TxSt) := do
  pageCanWrite p
  if p.dirty then .error .invalidop
  let (a, ta) := dataFree f.alloc tx.ta id
  let tx := { tx with ta := ta }
  let tx := if p.id ≠ p.ondisk then freeWalId tx p.id p.ondisk else tx
  pure ({ f with alloc := a }, tx.setPage { p with freed := true })

/-- `Page.Flush` -/
def flushBody (f : FileSt) (tx : TxSt) (p : PageSt) : Except Err (FileSt × TxSt × Option Nat) := do
  pageCanWrite p
  doFlush f tx p

theorem txWrite_eq (f : FileSt) (tx : TxSt) (id : Nat) (mode : WMode) (s : Nat) :
    txWrite f tx id mode s =
      match getPage f tx id with
      | .error e => .error e
      | .ok (tx1, p) => writeBody f id mode s tx1 p := by
  unfold txWrite writeBody
  cases getPage f tx id with
  | error e => rfl
  | ok r => obtain ⟨tx1, p⟩ := r; rfl

theorem txLoad_eq (f : FileSt) (tx : TxSt) (id : Nat) :
    txLoad f tx id =
      match getPage f tx id with
      | .error e => .error e
      | .ok (tx1, p) => loadBody f tx1 p := by
  unfold txLoad loadBody
  cases getPage f tx id with
  | error e => rfl
  | ok r => obtain ⟨tx1, p⟩ := r; rfl

theorem txRead_eq (f : FileSt) (tx : TxSt) (id : Nat) :
    txRead f tx id =
      match getPage f tx id with
      | .error e => .error e
      | .ok (tx1, p) => readBody f tx1 p := by
  unfold txRead readBody
  cases getPage f tx id with
  | error e => rfl
  | ok r => obtain ⟨tx1, p⟩ := r; rfl

theorem txFree_eq (f : FileSt) (tx : TxSt) (id : Nat) :
    txFree f tx id =
      match getPage f tx id with
      | .error e => .error e
      | .ok (tx1, p) => freeBody f id tx1 p := by
  unfold txFree freeBody
  cases getPage f tx id with
  | error e => rfl
  | ok r => obtain ⟨tx1, p⟩ := r; rfl

theorem flushPageOp_eq (f : FileSt) (tx : TxSt) (id : Nat) :
    flushPageOp f tx id =
      match getPage f tx id with
      | .error e => .error e
      | .ok (tx1, p) => flushBody f tx1 p := by
  unfold flushPageOp flushBody
  cases getPage f tx id with
  | error e => rfl
  | ok r => obtain ⟨tx1, p⟩ := r; rfl

/-! ### no `Page` method fails on a page object `Tx.Page` has just created -/

theorem pageCanWrite_error (p : PageSt) (e : Err) (h : pageCanWrite p = .error e) :
    (p.freed = true ∨ p.flushed = true) ∧ e = .invalidop := by
  unfold pageCanWrite at h
  split at h
  · rename_i hc
    simp only [Except.error.injEq] at h
    exact ⟨by simpa using hc, h.symm⟩
  · cases h

theorem writeBody_error (f : FileSt) (id : Nat) (mode : WMode) (s : Nat) (tx : TxSt) (p : PageSt) (e : Err)
    (h : writeBody f id mode s tx p = .error e) : (p.freed = true ∨ p.flushed = true) ∧ e = .invalidop := by
  unfold writeBody at h
  cases hc : pageCanWrite p with
  | error e' =>
    rw [hc] at h
    have : e' = e := by simpa [bind, Except.bind] using h
    subst this
    exact pageCanWrite_error p e' hc
  | ok u =>
    rw [hc] at h
    cases mode <;> simp [bind, Except.bind, pure, Except.pure] at h

theorem loadBody_error (f : FileSt) (tx : TxSt) (p : PageSt) (e : Err)
    (h : loadBody f tx p = .error e) : (p.freed = true ∨ p.flushed = true) ∧ e = .invalidop := by
  unfold loadBody at h
  cases hc : pageCanWrite p with
  | error e' =>
    rw [hc] at h
    have : e' = e := by simpa [bind, Except.bind] using h
    subst this
    exact pageCanWrite_error p e' hc
  | ok u =>
    rw [hc] at h
    simp [bind, Except.bind, pure, Except.pure] at h

theorem readBody_error (f : FileSt) (tx : TxSt) (p : PageSt) (e : Err)
    (h : readBody f tx p = .error e) : p.bytes = none ∧ p.new_ = true ∧ e = .invalidop := by
  unfold readBody at h
  cases hb : p.bytes with
  | some b => rw [hb] at h; cases h
  | none =>
    rw [hb] at h
    dsimp only at h
    split at h
    · rename_i hn
      simp only [Except.error.injEq] at h
      exact ⟨rfl, hn, h.symm⟩
    · cases h

theorem freeBody_error (f : FileSt) (id : Nat) (tx : TxSt) (p : PageSt) (e : Err)
    (h : freeBody f id tx p = .error e) :
    (p.freed = true ∨ p.flushed = true ∨ p.dirty = true) ∧ e = .invalidop := by
  unfold freeBody at h
  cases hc : pageCanWrite p with
  | error e' =>
    rw [hc] at h
    have : e' = e := by simpa [bind, Except.bind] using h
    subst this
    have := pageCanWrite_error p e' hc
    exact ⟨by rcases this.1 with h1 | h1 <;> simp [h1], this.2⟩
  | ok u =>
    rw [hc] at h
    cases hd : p.dirty with
    | true =>
      simp [hd, bind, Except.bind] at h
      exact ⟨Or.inr (Or.inr rfl), h.symm⟩
    | false =>
      simp [hd, bind, Except.bind, pure, Except.pure] at h

theorem doFlush_error (f : FileSt) (tx : TxSt) (p : PageSt) (e : Err) (h : doFlush f tx p = .error e) :
    p.dirty = true ∧ p.flushed = false ∧ p.new_ = false ∧ p.id = p.ondisk ∧ walAlloc f.alloc tx.ta = none ∧ e = .oom := by
  unfold doFlush at h
  split at h
  · cases h
  · rename_i hc
    have hdf : p.dirty = true ∧ p.flushed = false := by
      cases hd : p.dirty <;> cases hf : p.flushed <;> simp_all
    dsimp only at h
    cases hn : p.new_ with
    | true => simp [hn] at h
    | false =>
      by_cases hio : p.id = p.ondisk
      · simp only [hn, Bool.false_eq_true, if_false, hio, if_true] at h
        cases hw : walAlloc f.alloc tx.ta with
        | none =>
          rw [hw] at h
          simp only [Except.error.injEq] at h
          exact ⟨hdf.1, hdf.2, rfl, hio, rfl, h.symm⟩
        | some r =>
          obtain ⟨a, ta, w⟩ := r
          rw [hw] at h
          cases h
      · simp [hn, hio] at h

theorem flushBody_error (f : FileSt) (tx : TxSt) (p : PageSt) (e : Err) (h : flushBody f tx p = .error e) :
    ((p.freed = true ∨ p.flushed = true) ∧ e = .invalidop) ∨
    (p.freed = false ∧ p.flushed = false ∧ p.dirty = true ∧ p.new_ = false ∧ p.id = p.ondisk ∧
      walAlloc f.alloc tx.ta = none ∧ e = .oom) := by
  unfold flushBody at h
  cases hc : pageCanWrite p with
  | error e' =>
    rw [hc] at h
    have : e' = e := by simpa [bind, Except.bind] using h
    subst this
    exact Or.inl (pageCanWrite_error p e' hc)
  | ok u =>
    rw [hc] at h
    have hd : doFlush f tx p = .error e := by simpa [bind, Except.bind] using h
    obtain ⟨d1, d2, d3, d4, d5, d6⟩ := doFlush_error f tx p e hd
    have hfr : p.freed = false := by
      unfold pageCanWrite at hc
      split at hc
      · cases hc
      · rename_i hq; cases hf : p.freed <;> simp_all
    exact Or.inr ⟨hfr, d2, d1, d3, d4, d5, d6⟩

/-- `Tx.Page` leaves the transaction as it was unless it created the page object — and a page object just
    created is clean: not new, not dirty, not flushed, not freed -/
theorem getPage_same_of_flag (f : FileSt) (tx tx1 : TxSt) (id : Nat) (p : PageSt) (h : getPage f tx id = .ok (tx1, p))
    (hp : p.freed = true ∨ p.flushed = true ∨ p.dirty = true ∨ p.new_ = true) : tx1 = tx := by
  rcases getPage_cases f tx tx1 id p h with ⟨-, -, e⟩ | ⟨-, e, -⟩
  · exact e
  · subst e
    simp at hp


/-! ### the traced step -/

/-- result of an operation. `ignored`: a call on a page the client does not own that the implementation does NOT
    reject (`Tx.Page` checks the range and "freed in this transaction", not ownership); the engine model
    ignores such calls ("the client only addresses pages it owns"), they are outside the discipline the
    model covers -/
inductive ERes
  | ok
  | error (e : Err)
  | ignored
  deriving Repr, DecidableEq, Inhabited

/-- `Tx.Flush` as the code runs it: page after page, stopping at the first failure; the state reached then -/
def flushListSt (f : FileSt) (tx : TxSt) : List Nat → (FileSt × TxSt) × Option Err
  | [] => ((f, tx), none)
  | id :: ids =>
    match tx.pages.get? id with
    | none => ((f, tx), some .invalidop)
    | some p =>
      match doFlush f tx p with
      | .error e => ((f, tx), some e)
      | .ok (f', tx', _) => flushListSt f' tx' ids

/-- one operation with its result and the state AS THE CODE LEAVES IT — also when it returns an error:
    the page object `Tx.Page` created stays in the page table, the pages `Tx.Flush` flushed before the failing
    one stay flushed -/
def EOp.stepT (s : ERunSt) : EOp → ERunSt × ERes
  | .alloc n =>
    match txAlloc s.f s.tx n with
    | .ok (f, tx, ids) => ({ f, tx, cur := s.cur ++ ids, σ := fun j => if j ∈ ids then none else s.σ j }, .ok)
    | .error e => (s, .error e)
  | .write id mode st =>
    match getPage s.f s.tx id with
    | .error e => (s, .error e)
    | .ok (tx1, p) =>
      match writeBody s.f id mode st tx1 p with
      | .error e => ({ s with tx := tx1 }, .error e)
      | .ok tx2 =>
        if id ∈ s.cur then
          ({ s with tx := tx2, σ := fun j => if j = id then some (wr mode id st ((s.σ id).getD {})) else s.σ j }, .ok)
        else (s, .ignored)
  | .load id =>
    match getPage s.f s.tx id with
    | .error e => (s, .error e)
    | .ok (tx1, p) =>
      match loadBody s.f tx1 p with
      | .error e => ({ s with tx := tx1 }, .error e)
      | .ok tx2 => if id ∈ s.cur then ({ s with tx := tx2 }, .ok) else (s, .ignored)
  | .read id =>
    match getPage s.f s.tx id with
    | .error e => (s, .error e)
    | .ok (tx1, p) =>
      match readBody s.f tx1 p with
      | .error e => ({ s with tx := tx1 }, .error e)
      | .ok (tx2, _) => if id ∈ s.cur then ({ s with tx := tx2 }, .ok) else (s, .ignored)
  | .free id =>
    match getPage s.f s.tx id with
    | .error e => (s, .error e)
    | .ok (tx1, p) =>
      match freeBody s.f id tx1 p with
      | .error e => ({ s with tx := tx1 }, .error e)
      | .ok (f, tx2) =>
        if id ∈ s.cur then ({ s with f, tx := tx2, cur := s.cur.filter (fun x => x != id) }, .ok) else (s, .ignored)
  | .flushPage id =>
    match getPage s.f s.tx id with
    | .error e => (s, .error e)
    | .ok (tx1, p) =>
      match flushBody s.f tx1 p with
      | .error e => ({ s with tx := tx1 }, .error e)
      | .ok (f, tx2, _) => if id ∈ s.cur then ({ s with f, tx := tx2 }, .ok) else (s, .ignored)
  | .flushAll order =>
    match flushListSt s.f s.tx order with
    | ((f, tx), none) => ({ s with f, tx }, .ok)
    | ((f, tx), some e) => ({ s with f, tx }, .error e)
  | .checkpoint => ({ s with f := (doCheckpoint s.f s.tx).1, tx := (doCheckpoint s.f s.tx).2.1 }, .ok)

/-- the result of an operation in a state -/
def EOp.result (s : ERunSt) (op : EOp) : ERes := (op.stepT s).2

/-- `Tx.Flush` traced vs. `flushList` -/
theorem flushListSt_spec : ∀ (order : List Nat) (f : FileSt) (tx : TxSt),
    (∀ f' tx' ws, flushList f tx order = .ok (f', tx', ws) → flushListSt f tx order = ((f', tx'), none)) ∧
    (∀ e, flushList f tx order = .error e →
      ∃ pre id rest f' tx' ws, order = pre ++ id :: rest ∧ flushList f tx pre = .ok (f', tx', ws) ∧
        flushListSt f tx order = ((f', tx'), some e) ∧
        ((tx'.pages.get? id = none ∧ e = .invalidop) ∨ ∃ p, tx'.pages.get? id = some p ∧ doFlush f' tx' p = .error e)) := by
  intro order
  induction order with
  | nil =>
    intro f tx
    refine ⟨?_, ?_⟩
    · intro f' tx' ws h
      simp only [flushList, Except.ok.injEq, Prod.mk.injEq] at h
      obtain ⟨rfl, rfl, -⟩ := h
      rfl
    · intro e h; simp [flushList] at h
  | cons id ids ih =>
    intro f tx
    cases hg : tx.pages.get? id with
    | none =>
      refine ⟨?_, ?_⟩
      · intro f' tx' ws h; simp [flushList, hg] at h
      · intro e h
        simp only [flushList, hg, Except.error.injEq] at h
        subst h
        exact ⟨[], id, ids, f, tx, [], rfl, rfl, by simp [flushListSt, hg], Or.inl ⟨hg, rfl⟩⟩
    | some p =>
      cases hd : doFlush f tx p with
      | error e0 =>
        refine ⟨?_, ?_⟩
        · intro f' tx' ws h; simp [flushList, hg, hd] at h
        · intro e h
          simp only [flushList, hg, hd, Except.error.injEq] at h
          subst h
          exact ⟨[], id, ids, f, tx, [], rfl, rfl, by simp [flushListSt, hg, hd], Or.inr ⟨p, hg, hd⟩⟩
      | ok r =>
        obtain ⟨f1, tx1, w⟩ := r
        obtain ⟨ih1, ih2⟩ := ih f1 tx1
        refine ⟨?_, ?_⟩
        · intro f' tx' ws h
          simp only [flushList, hg, hd] at h
          cases hr : flushList f1 tx1 ids with
          | error e => rw [hr] at h; cases h
          | ok r2 =>
            obtain ⟨f2, tx2, ws2⟩ := r2
            rw [hr] at h
            simp only [Except.ok.injEq, Prod.mk.injEq] at h
            obtain ⟨rfl, rfl, -⟩ := h
            simp only [flushListSt, hg, hd]
            exact ih1 _ _ _ hr
        · intro e h
          simp only [flushList, hg, hd] at h
          cases hr : flushList f1 tx1 ids with
          | ok r2 => obtain ⟨f2, tx2, ws2⟩ := r2; rw [hr] at h; cases h
          | error e2 =>
            rw [hr] at h
            simp only [Except.error.injEq] at h
            subst h
            obtain ⟨pre, id', rest, f', tx', ws, ho, hp, ht, hc⟩ := ih2 e2 hr
            have hp' : ∃ ws', flushList f tx (id :: pre) = .ok (f', tx', ws') := by
              simp only [flushList, hg, hd, hp]
              exact ⟨_, rfl⟩
            obtain ⟨ws', hp'⟩ := hp'
            refine ⟨id :: pre, id', rest, f', tx', ws', by rw [ho]; rfl, hp', ?_, hc⟩
            simp only [flushListSt, hg, hd]; exact ht


/-! ### the traced step and `EOp.step` -/

/-- the traced step agrees with `EOp.step` whenever the call is not rejected; and `EOp.step` keeps the state when it
    is rejected (that is its definition) -/
theorem stepT_step (s : ERunSt) (op : EOp) :
    (∀ e, (op.stepT s).2 ≠ .error e) → (op.stepT s).1 = op.step s := by
  intro hne
  cases op with
  | alloc n =>
    simp only [EOp.stepT, EOp.step] at hne ⊢
    cases h : txAlloc s.f s.tx n with
    | ok r => obtain ⟨f, tx, ids⟩ := r; rfl
    | error e => rfl
  | write id mode st =>
    simp only [EOp.stepT, EOp.step, txWrite_eq] at hne ⊢
    cases hg : getPage s.f s.tx id with
    | error e => simp only [hg] at hne ⊢; split <;> rfl
    | ok r =>
      obtain ⟨tx1, p⟩ := r
      simp only [hg] at hne ⊢
      cases hb : writeBody s.f id mode st tx1 p with
      | error e => simp only [hb] at hne; exact absurd rfl (hne e)
      | ok tx2 => simp only; split <;> rfl
  | load id =>
    simp only [EOp.stepT, EOp.step, txLoad_eq] at hne ⊢
    cases hg : getPage s.f s.tx id with
    | error e => simp only [hg] at hne ⊢; split <;> rfl
    | ok r =>
      obtain ⟨tx1, p⟩ := r
      simp only [hg] at hne ⊢
      cases hb : loadBody s.f tx1 p with
      | error e => simp only [hb] at hne; exact absurd rfl (hne e)
      | ok tx2 => simp only; split <;> rfl
  | read id =>
    simp only [EOp.stepT, EOp.step, txRead_eq] at hne ⊢
    cases hg : getPage s.f s.tx id with
    | error e => simp only [hg] at hne ⊢; split <;> rfl
    | ok r =>
      obtain ⟨tx1, p⟩ := r
      simp only [hg] at hne ⊢
      cases hb : readBody s.f tx1 p with
      | error e => simp only [hb] at hne; exact absurd rfl (hne e)
      | ok r2 => obtain ⟨tx2, c⟩ := r2; simp only; split <;> rfl
  | free id =>
    simp only [EOp.stepT, EOp.step, txFree_eq] at hne ⊢
    cases hg : getPage s.f s.tx id with
    | error e => simp only [hg] at hne ⊢; split <;> rfl
    | ok r =>
      obtain ⟨tx1, p⟩ := r
      simp only [hg] at hne ⊢
      cases hb : freeBody s.f id tx1 p with
      | error e => simp only [hb] at hne; exact absurd rfl (hne e)
      | ok r2 => obtain ⟨f2, tx2⟩ := r2; simp only; split <;> rfl
  | flushPage id =>
    simp only [EOp.stepT, EOp.step, flushPageOp_eq] at hne ⊢
    cases hg : getPage s.f s.tx id with
    | error e => simp only [hg] at hne ⊢; split <;> rfl
    | ok r =>
      obtain ⟨tx1, p⟩ := r
      simp only [hg] at hne ⊢
      cases hb : flushBody s.f tx1 p with
      | error e => simp only [hb] at hne; exact absurd rfl (hne e)
      | ok r2 => obtain ⟨f2, tx2, w⟩ := r2; simp only; split <;> rfl
  | flushAll order =>
    simp only [EOp.stepT, EOp.step] at hne ⊢
    cases hl : flushList s.f s.tx order with
    | ok r =>
      obtain ⟨f', tx', ws⟩ := r
      rw [(flushListSt_spec order s.f s.tx).1 f' tx' ws hl]
    | error e =>
      obtain ⟨pre, id, rest, f', tx', ws, -, -, ht, -⟩ := (flushListSt_spec order s.f s.tx).2 e hl
      rw [ht] at hne
      exact absurd rfl (hne e)
  | checkpoint => rfl

/-- a rejected call: `EOp.step` keeps the state -/
theorem stepT_error_step (s : ERunSt) (op : EOp) (e : Err) (h : (op.stepT s).2 = .error e) : op.step s = s := by
  cases op with
  | alloc n =>
    simp only [EOp.stepT, EOp.step] at h ⊢
    cases hx : txAlloc s.f s.tx n with
    | ok r => obtain ⟨f, tx, ids⟩ := r; rw [hx] at h; cases h
    | error e => rfl
  | write id mode st =>
    simp only [EOp.stepT, EOp.step, txWrite_eq] at h ⊢
    cases hg : getPage s.f s.tx id with
    | error e => simp only; split <;> rfl
    | ok r =>
      obtain ⟨tx1, p⟩ := r
      simp only [hg] at h ⊢
      cases hb : writeBody s.f id mode st tx1 p with
      | error e => simp only; split <;> rfl
      | ok tx2 => simp only [hb] at h; split at h <;> cases h
  | load id =>
    simp only [EOp.stepT, EOp.step, txLoad_eq] at h ⊢
    cases hg : getPage s.f s.tx id with
    | error e => simp only; split <;> rfl
    | ok r =>
      obtain ⟨tx1, p⟩ := r
      simp only [hg] at h ⊢
      cases hb : loadBody s.f tx1 p with
      | error e => simp only; split <;> rfl
      | ok tx2 => simp only [hb] at h; split at h <;> cases h
  | read id =>
    simp only [EOp.stepT, EOp.step, txRead_eq] at h ⊢
    cases hg : getPage s.f s.tx id with
    | error e => simp only; split <;> rfl
    | ok r =>
      obtain ⟨tx1, p⟩ := r
      simp only [hg] at h ⊢
      cases hb : readBody s.f tx1 p with
      | error e => simp only; split <;> rfl
      | ok r2 => obtain ⟨tx2, c⟩ := r2; simp only [hb] at h; split at h <;> cases h
  | free id =>
    simp only [EOp.stepT, EOp.step, txFree_eq] at h ⊢
    cases hg : getPage s.f s.tx id with
    | error e => simp only; split <;> rfl
    | ok r =>
      obtain ⟨tx1, p⟩ := r
      simp only [hg] at h ⊢
      cases hb : freeBody s.f id tx1 p with
      | error e => simp only; split <;> rfl
      | ok r2 => obtain ⟨f2, tx2⟩ := r2; simp only [hb] at h; split at h <;> cases h
  | flushPage id =>
    simp only [EOp.stepT, EOp.step, flushPageOp_eq] at h ⊢
    cases hg : getPage s.f s.tx id with
    | error e => simp only; split <;> rfl
    | ok r =>
      obtain ⟨tx1, p⟩ := r
      simp only [hg] at h ⊢
      cases hb : flushBody s.f tx1 p with
      | error e => simp only; split <;> rfl
      | ok r2 => obtain ⟨f2, tx2, w⟩ := r2; simp only [hb] at h; split at h <;> cases h
  | flushAll order =>
    simp only [EOp.stepT, EOp.step] at h ⊢
    cases hl : flushList s.f s.tx order with
    | ok r =>
      obtain ⟨f', tx', ws⟩ := r
      rw [(flushListSt_spec order s.f s.tx).1 f' tx' ws hl] at h
      cases h
    | error e => rfl
  | checkpoint => simp only [EOp.stepT] at h; cases h


/-- **a rejected call leaves the state exactly as it was** — also the state the code has reached when it raises
    the error: every operation except `Tx.Flush` (for which see `stepT_flushAll_error`). No hypothesis on `s`. -/
theorem stepT_error_state (s : ERunSt) (op : EOp) (e : Err) (h : (op.stepT s).2 = .error e)
    (hnf : ∀ order, op ≠ .flushAll order) : (op.stepT s).1 = s := by
  cases op with
  | alloc n =>
    simp only [EOp.stepT] at h ⊢
    cases hx : txAlloc s.f s.tx n with
    | ok r => obtain ⟨f, tx, ids⟩ := r; rw [hx] at h; cases h
    | error e => rfl
  | write id mode st =>
    simp only [EOp.stepT] at h ⊢
    cases hg : getPage s.f s.tx id with
    | error e => rfl
    | ok r =>
      obtain ⟨tx1, p⟩ := r
      simp only [hg] at h ⊢
      cases hb : writeBody s.f id mode st tx1 p with
      | error e' =>
        have hp := (writeBody_error _ _ _ _ _ _ _ hb).1
        have := getPage_same_of_flag _ _ _ _ _ hg (by rcases hp with h1 | h1 <;> simp [h1])
        subst this; rfl
      | ok tx2 => rw [hb] at h; dsimp only at h; split at h <;> cases h
  | load id =>
    simp only [EOp.stepT] at h ⊢
    cases hg : getPage s.f s.tx id with
    | error e => rfl
    | ok r =>
      obtain ⟨tx1, p⟩ := r
      simp only [hg] at h ⊢
      cases hb : loadBody s.f tx1 p with
      | error e' =>
        have hp := (loadBody_error _ _ _ _ hb).1
        have := getPage_same_of_flag _ _ _ _ _ hg (by rcases hp with h1 | h1 <;> simp [h1])
        subst this; rfl
      | ok tx2 => rw [hb] at h; dsimp only at h; split at h <;> cases h
  | read id =>
    simp only [EOp.stepT] at h ⊢
    cases hg : getPage s.f s.tx id with
    | error e => rfl
    | ok r =>
      obtain ⟨tx1, p⟩ := r
      simp only [hg] at h ⊢
      cases hb : readBody s.f tx1 p with
      | error e' =>
        have hp := (readBody_error _ _ _ _ hb).2.1
        have := getPage_same_of_flag _ _ _ _ _ hg (by simp [hp])
        subst this; rfl
      | ok r2 => obtain ⟨tx2, c⟩ := r2; rw [hb] at h; dsimp only at h; split at h <;> cases h
  | free id =>
    simp only [EOp.stepT] at h ⊢
    cases hg : getPage s.f s.tx id with
    | error e => rfl
    | ok r =>
      obtain ⟨tx1, p⟩ := r
      simp only [hg] at h ⊢
      cases hb : freeBody s.f id tx1 p with
      | error e' =>
        have hp := (freeBody_error _ _ _ _ _ hb).1
        have := getPage_same_of_flag _ _ _ _ _ hg (by rcases hp with h1 | h1 | h1 <;> simp [h1])
        subst this; rfl
      | ok r2 => obtain ⟨f2, tx2⟩ := r2; rw [hb] at h; dsimp only at h; split at h <;> cases h
  | flushPage id =>
    simp only [EOp.stepT] at h ⊢
    cases hg : getPage s.f s.tx id with
    | error e => rfl
    | ok r =>
      obtain ⟨tx1, p⟩ := r
      simp only [hg] at h ⊢
      cases hb : flushBody s.f tx1 p with
      | error e' =>
        have hp : p.freed = true ∨ p.flushed = true ∨ p.dirty = true ∨ p.new_ = true := by
          rcases flushBody_error _ _ _ _ hb with ⟨h1, -⟩ | ⟨-, -, h3, -⟩
          · rcases h1 with h1 | h1 <;> simp [h1]
          · simp [h3]
        have := getPage_same_of_flag _ _ _ _ _ hg hp
        subst this; rfl
      | ok r2 => obtain ⟨f2, tx2, w⟩ := r2; rw [hb] at h; dsimp only at h; split at h <;> cases h
  | flushAll order => exact absurd rfl (hnf order)
  | checkpoint => simp only [EOp.stepT] at h; cases h

/-- **`Tx.Flush` that fails**: the pages before the failing one stay flushed — the state reached is the state after
    a successful `Tx.Flush` of exactly those pages; the failure is an unknown page (not a page of this
    transaction: a defect of the recorded order, `invalidop`) or an overwrite page that can not be allocated
    (`oom`, raised by `doFlush` before it changes anything) -/
theorem stepT_flushAll_error (s : ERunSt) (order : List Nat) (e : Err)
    (h : ((EOp.flushAll order).stepT s).2 = .error e) :
    ∃ pre id rest, order = pre ++ id :: rest ∧
      ((EOp.flushAll pre).stepT s).2 = .ok ∧
      ((EOp.flushAll order).stepT s).1 = (EOp.flushAll pre).step s ∧
      ((((EOp.flushAll pre).step s).tx.pages.get? id = none ∧ e = .invalidop) ∨
       (∃ p, ((EOp.flushAll pre).step s).tx.pages.get? id = some p ∧ p.dirty = true ∧ p.flushed = false ∧
          p.new_ = false ∧ p.id = p.ondisk ∧
          walAlloc ((EOp.flushAll pre).step s).f.alloc ((EOp.flushAll pre).step s).tx.ta = none ∧ e = .oom)) := by
  simp only [EOp.stepT] at h
  cases hl : flushList s.f s.tx order with
  | ok r =>
    obtain ⟨f', tx', ws⟩ := r
    rw [(flushListSt_spec order s.f s.tx).1 f' tx' ws hl] at h
    cases h
  | error e0 =>
    obtain ⟨pre, id, rest, f', tx', ws, ho, hp, ht, hc⟩ := (flushListSt_spec order s.f s.tx).2 e0 hl
    rw [ht] at h
    simp only [ERes.error.injEq] at h
    subst h
    have hpT := (flushListSt_spec pre s.f s.tx).1 f' tx' ws hp
    have hstep : (EOp.flushAll pre).step s = { s with f := f', tx := tx' } := by
      simp only [EOp.step, hp]
    refine ⟨pre, id, rest, ho, ?_, ?_, ?_⟩
    · simp only [EOp.stepT, hpT]
    · simp only [EOp.stepT, ht, hstep]
    · rw [hstep]
      rcases hc with hc | ⟨p, hg, hd⟩
      · exact Or.inl hc
      · obtain ⟨d1, d2, d3, d4, d5, d6⟩ := doFlush_error _ _ _ _ hd
        exact Or.inr ⟨p, hg, d1, d2, d3, d4, d5, d6⟩


/-! ### runs -/

/-- the run as the code performs it (a failing `Tx.Flush` keeps what it flushed) -/
def runEOpsT (s : ERunSt) (ops : List EOp) : ERunSt := ops.foldl (fun s op => (op.stepT s).1) s

/-- the operations of a run with their results -/
def traceT (s : ERunSt) : List EOp → List (EOp × ERes)
  | [] => []
  | op :: ops => (op, op.result s) :: traceT (op.stepT s).1 ops

/-- a call that is rejected and leaves the state (as the code leaves it) untouched -/
def Rejected (s : ERunSt) (op : EOp) : Prop := ∃ e, op.result s = .error e ∧ (op.stepT s).1 = s

theorem rejected_of_error (s : ERunSt) (op : EOp) (e : Err) (h : op.result s = .error e)
    (hnf : ∀ order, op ≠ .flushAll order) : Rejected s op :=
  ⟨e, h, stepT_error_state s op e h hnf⟩

/-- `ops'` is `ops` with rejected calls inserted anywhere (each rejected in the state in which it is issued) -/
inductive Inserted : ERunSt → List EOp → List EOp → Prop
  | nil (s : ERunSt) : Inserted s [] []
  | keep (s : ERunSt) (op : EOp) (ops ops' : List EOp) :
      Inserted (op.stepT s).1 ops ops' → Inserted s (op :: ops) (op :: ops')
  | rej (s : ERunSt) (op : EOp) (ops ops' : List EOp) :
      Rejected s op → Inserted s ops ops' → Inserted s ops (op :: ops')

theorem inserted_run {s : ERunSt} {ops ops' : List EOp} (h : Inserted s ops ops') :
    runEOpsT s ops' = runEOpsT s ops ∧ (traceT s ops).Sublist (traceT s ops') ∧
    (traceT s ops').length = (traceT s ops).length + (ops'.length - ops.length) := by
  induction h with
  | nil s => exact ⟨rfl, List.Sublist.refl _, rfl⟩
  | keep s op ops ops' _ ih =>
    obtain ⟨i1, i2, i3⟩ := ih
    refine ⟨?_, ?_, ?_⟩
    · simp only [runEOpsT, List.foldl_cons] at i1 ⊢; exact i1
    · simp only [traceT]; exact List.Sublist.cons_cons _ i2
    · simp only [traceT, List.length_cons] at i3 ⊢; omega
  | rej s op ops ops' hr hi ih =>
    obtain ⟨i1, i2, i3⟩ := ih
    obtain ⟨e, -, hs⟩ := hr
    refine ⟨?_, ?_, ?_⟩
    · simp only [runEOpsT, List.foldl_cons, hs] at i1 ⊢; exact i1
    · simp only [traceT, hs]; exact List.Sublist.cons _ i2
    · have hl : ops.length ≤ ops'.length := by
        have h1 : (traceT s ops).length ≤ (traceT s ops').length := i2.length_le
        have t : ∀ (l : List EOp) (s : ERunSt), (traceT s l).length = l.length := by
          intro l; induction l with
          | nil => intro s; rfl
          | cons a l ih => intro s; simp only [traceT, List.length_cons, ih]
        rw [t, t] at h1; exact h1
      simp only [traceT, List.length_cons, hs] at i3 ⊢; omega

theorem runEOpsT_append (s : ERunSt) (a b : List EOp) : runEOpsT s (a ++ b) = runEOpsT (runEOpsT s a) b := by
  simp [runEOpsT, List.foldl_append]

theorem runEOps_append' (s : ERunSt) (a b : List EOp) : runEOps s (a ++ b) = runEOps (runEOps s a) b := by
  simp [runEOps, List.foldl_append]

/-- the invariant of a running transaction is kept by the traced step — also by a `Tx.Flush` that fails half way -/
theorem runinv_stepT {f0 : FileSt} {live : List Nat} (he : EngInv f0 live) (s : ERunSt) (op : EOp)
    (h : RunInv f0 live s) : RunInv f0 live (op.stepT s).1 := by
  cases hr : (op.stepT s).2 with
  | ok => rw [stepT_step s op (by intro e; rw [hr]; simp)]; exact runinv_step he s op h
  | ignored => rw [stepT_step s op (by intro e; rw [hr]; simp)]; exact runinv_step he s op h
  | error e =>
    by_cases hf : ∃ order, op = .flushAll order
    · obtain ⟨order, rfl⟩ := hf
      obtain ⟨pre, id, rest, -, -, hst, -⟩ := stepT_flushAll_error s order e hr
      rw [hst]; exact runinv_step he s _ h
    · rw [stepT_error_state s op e hr (fun order ho => hf ⟨order, ho⟩)]; exact h

theorem runinv_runT {f0 : FileSt} {live : List Nat} (he : EngInv f0 live) (ops : List EOp) :
    ∀ s : ERunSt, RunInv f0 live s → RunInv f0 live (runEOpsT s ops) := by
  induction ops with
  | nil => intro s h; exact h
  | cons op ops ih => intro s h; exact ih _ (runinv_stepT he s op h)


/-! ### which error: the documented precondition that is violated -/

/-- the page id is a valid id of the file -/
def InRange (f : FileSt) (id : Nat) : Prop := 2 ≤ id ∧ id < f.alloc.data.endMarker

/-- the page was freed by the running transaction (a page of the committed state, or one it allocated itself) -/
def FreedInTx (tx : TxSt) (id : Nat) : Prop :=
  id ∈ tx.ta.data.freed ∨ id ∈ tx.ta.mta.freed ∨ ∃ p, tx.pages.get? id = some p ∧ p.freed = true

/-- the page object `Tx.Page` returns: the one in the page table, or a fresh clean one -/
def pageOf (f : FileSt) (tx : TxSt) (id : Nat) : PageSt := (tx.pages.get? id).getD { id, ondisk := f.physOf id }

theorem getPage_pageid (f : FileSt) (tx : TxSt) (id : Nat) (h : ¬ InRange f id) : getPage f tx id = .error .pageid :=
  page_out_of_range f tx id (by unfold InRange at h; omega)

theorem getPage_freed (f : FileSt) (tx : TxSt) (id : Nat) (hr : InRange f id) (h : FreedInTx tx id) :
    getPage f tx id = .error .invalidop := by
  apply page_freed_rejected f tx id hr
  rcases h with h | h | h
  · left; simpa using h
  · right; left; simpa using h
  · right; right; exact h

theorem getPage_ok (f : FileSt) (tx : TxSt) (id : Nat) (hr : InRange f id) (h : ¬ FreedInTx tx id) :
    ∃ tx1, getPage f tx id = .ok (tx1, pageOf f tx id) ∧ (pageOf f tx id).freed = false := by
  unfold FreedInTx at h
  have h1 : id ∉ tx.ta.data.freed := fun c => h (Or.inl c)
  have h2 : id ∉ tx.ta.mta.freed := fun c => h (Or.inr (Or.inl c))
  unfold getPage pageOf
  cases hg : tx.pages.get? id with
  | none =>
    refine ⟨{ tx with pages := tx.pages.set id { id, ondisk := f.physOf id } }, ?_, rfl⟩
    simp [hr.1, hr.2, h1, h2]
  | some p =>
    have h3 : p.freed = false := by
      cases hf : p.freed with
      | false => rfl
      | true => exact absurd (Or.inr (Or.inr ⟨p, hg, hf⟩)) h
    refine ⟨tx, ?_, h3⟩
    simp [hr.1, hr.2, h1, h2, h3]

/-- the page operations -/
def EOp.pageId : EOp → Option Nat
  | .write id _ _ => some id
  | .load id => some id
  | .read id => some id
  | .free id => some id
  | .flushPage id => some id
  | _ => none

theorem result_of_getPage_error (s : ERunSt) (op : EOp) (id : Nat) (hop : op.pageId = some id) (e : Err)
    (hg : getPage s.f s.tx id = .error e) : op.result s = .error e := by
  cases op with
  | alloc n => simp [EOp.pageId] at hop
  | flushAll o => simp [EOp.pageId] at hop
  | checkpoint => simp [EOp.pageId] at hop
  | write i m st => simp only [EOp.pageId, Option.some.injEq] at hop; subst hop; simp [EOp.result, EOp.stepT, hg]
  | load i => simp only [EOp.pageId, Option.some.injEq] at hop; subst hop; simp [EOp.result, EOp.stepT, hg]
  | read i => simp only [EOp.pageId, Option.some.injEq] at hop; subst hop; simp [EOp.result, EOp.stepT, hg]
  | free i => simp only [EOp.pageId, Option.some.injEq] at hop; subst hop; simp [EOp.result, EOp.stepT, hg]
  | flushPage i => simp only [EOp.pageId, Option.some.injEq] at hop; subst hop; simp [EOp.result, EOp.stepT, hg]

/-- **PageID out of range → `pageid`** (every page operation, every state) -/
theorem result_pageid (s : ERunSt) (op : EOp) (id : Nat) (hop : op.pageId = some id) (h : ¬ InRange s.f id) :
    op.result s = .error .pageid :=
  result_of_getPage_error s op id hop _ (getPage_pageid s.f s.tx id h)

/-- **page freed by this transaction → `invalidop`** (every page operation, also reading) -/
theorem result_freed (s : ERunSt) (op : EOp) (id : Nat) (hop : op.pageId = some id) (hr : InRange s.f id)
    (h : FreedInTx s.tx id) : op.result s = .error .invalidop :=
  result_of_getPage_error s op id hop _ (getPage_freed s.f s.tx id hr h)


theorem pageCanWrite_flushed (p : PageSt) (h : p.flushed = true) : pageCanWrite p = .error .invalidop := by
  unfold pageCanWrite; simp [h]

theorem pageCanWrite_clean (p : PageSt) (h1 : p.freed = false) (h2 : p.flushed = false) : pageCanWrite p = .ok () := by
  unfold pageCanWrite; simp [h1, h2]

/-- **writing / loading / freeing / flushing a page that was flushed → `invalidop`** (reading it is allowed) -/
theorem result_flushed (s : ERunSt) (op : EOp) (id : Nat) (hop : op.pageId = some id) (hnr : ∀ i, op ≠ .read i)
    (hr : InRange s.f id) (hf : ¬ FreedInTx s.tx id) (h : (pageOf s.f s.tx id).flushed = true) :
    op.result s = .error .invalidop := by
  obtain ⟨tx1, hg, -⟩ := getPage_ok s.f s.tx id hr hf
  have hc := pageCanWrite_flushed _ h
  cases op with
  | alloc n => simp [EOp.pageId] at hop
  | flushAll o => simp [EOp.pageId] at hop
  | checkpoint => simp [EOp.pageId] at hop
  | read i => exact absurd rfl (hnr i)
  | write i m st =>
    simp only [EOp.pageId, Option.some.injEq] at hop; subst hop
    simp [EOp.result, EOp.stepT, hg, writeBody, hc, bind, Except.bind]
  | load i =>
    simp only [EOp.pageId, Option.some.injEq] at hop; subst hop
    simp [EOp.result, EOp.stepT, hg, loadBody, hc, bind, Except.bind]
  | free i =>
    simp only [EOp.pageId, Option.some.injEq] at hop; subst hop
    simp [EOp.result, EOp.stepT, hg, freeBody, hc, bind, Except.bind]
  | flushPage i =>
    simp only [EOp.pageId, Option.some.injEq] at hop; subst hop
    simp [EOp.result, EOp.stepT, hg, flushBody, hc, bind, Except.bind]

/-- **freeing a dirty page → `invalidop`** -/
theorem result_free_dirty (s : ERunSt) (id : Nat) (hr : InRange s.f id) (hf : ¬ FreedInTx s.tx id)
    (h : (pageOf s.f s.tx id).dirty = true) : (EOp.free id).result s = .error .invalidop := by
  obtain ⟨tx1, hg, hfr⟩ := getPage_ok s.f s.tx id hr hf
  cases hfl : (pageOf s.f s.tx id).flushed with
  | true => exact result_flushed s _ id rfl (fun i hh => by cases hh) hr hf hfl
  | false =>
    have hc := pageCanWrite_clean _ hfr hfl
    simp [EOp.result, EOp.stepT, hg, freeBody, hc, h, bind, Except.bind]

/-- **reading a page allocated by this transaction that has no contents yet → `invalidop`** -/
theorem result_read_fresh (s : ERunSt) (id : Nat) (hr : InRange s.f id) (hf : ¬ FreedInTx s.tx id)
    (h1 : (pageOf s.f s.tx id).new_ = true) (h2 : (pageOf s.f s.tx id).bytes = none) :
    (EOp.read id).result s = .error .invalidop := by
  obtain ⟨tx1, hg, -⟩ := getPage_ok s.f s.tx id hr hf
  simp [EOp.result, EOp.stepT, hg, readBody, h1, h2]

/-- **no space → `oom`**: `Tx.Alloc/AllocN` is rejected exactly when more pages are asked for than are available -/
theorem result_alloc (s : ERunSt) (n : Nat) :
    (s.f.alloc.dataAvail < n → (EOp.alloc n).result s = .error .oom) ∧
    (n ≤ s.f.alloc.dataAvail → (EOp.alloc n).result s = .ok) := by
  refine ⟨?_, ?_⟩
  · intro h
    simp [EOp.result, EOp.stepT, txAlloc, dataAllocRegions, h]
  · intro h
    have : ¬ s.f.alloc.dataAvail < n := by omega
    simp [EOp.result, EOp.stepT, txAlloc, dataAllocRegions, this]

/-- **`Page.Flush` of a dirty committed page that needs an overwrite page which can not be allocated → `oom`** -/
theorem result_flushPage_oom (s : ERunSt) (id : Nat) (hr : InRange s.f id) (hf : ¬ FreedInTx s.tx id)
    (h1 : (pageOf s.f s.tx id).flushed = false) (h2 : (pageOf s.f s.tx id).dirty = true)
    (h3 : (pageOf s.f s.tx id).new_ = false) (h4 : (pageOf s.f s.tx id).id = (pageOf s.f s.tx id).ondisk)
    (h5 : walAlloc s.f.alloc s.tx.ta = none) : (EOp.flushPage id).result s = .error .oom := by
  obtain ⟨tx1, hg, hfr⟩ := getPage_ok s.f s.tx id hr hf
  have hc := pageCanWrite_clean _ hfr h1
  have htx : tx1 = s.tx := getPage_same_of_flag _ _ _ _ _ hg (by simp [h2])
  subst htx
  simp [EOp.result, EOp.stepT, hg, flushBody, hc, bind, Except.bind, doFlush, h1, h2, h3, h4, h5]

/-- **no documented precondition violated → not rejected** (completeness of the list of error kinds) -/
theorem result_not_error (s : ERunSt) (op : EOp) (id : Nat) (hop : op.pageId = some id)
    (hr : InRange s.f id) (hf : ¬ FreedInTx s.tx id)
    (hfl : (∀ i, op ≠ .read i) → (pageOf s.f s.tx id).flushed = false)
    (hfree : op = .free id → (pageOf s.f s.tx id).dirty = false)
    (hread : op = .read id → ¬ ((pageOf s.f s.tx id).new_ = true ∧ (pageOf s.f s.tx id).bytes = none))
    (hflush : op = .flushPage id → ¬ ((pageOf s.f s.tx id).dirty = true ∧ (pageOf s.f s.tx id).new_ = false ∧
        (pageOf s.f s.tx id).id = (pageOf s.f s.tx id).ondisk ∧ walAlloc s.f.alloc s.tx.ta = none))
    (e : Err) : op.result s ≠ .error e := by
  intro hres
  obtain ⟨tx1, hg, hfr⟩ := getPage_ok s.f s.tx id hr hf
  cases op with
  | alloc n => simp [EOp.pageId] at hop
  | flushAll o => simp [EOp.pageId] at hop
  | checkpoint => simp [EOp.pageId] at hop
  | write i m st =>
    simp only [EOp.pageId, Option.some.injEq] at hop; subst hop
    simp only [EOp.result, EOp.stepT, hg] at hres
    cases hb : writeBody s.f i m st tx1 (pageOf s.f s.tx i) with
    | error e' =>
      have := (writeBody_error _ _ _ _ _ _ _ hb).1
      have hh := hfl (fun j hj => by cases hj)
      rcases this with h | h <;> simp_all
    | ok t => rw [hb] at hres; dsimp only at hres; split at hres <;> cases hres
  | load i =>
    simp only [EOp.pageId, Option.some.injEq] at hop; subst hop
    simp only [EOp.result, EOp.stepT, hg] at hres
    cases hb : loadBody s.f tx1 (pageOf s.f s.tx i) with
    | error e' =>
      have := (loadBody_error _ _ _ _ hb).1
      have hh := hfl (fun j hj => by cases hj)
      rcases this with h | h <;> simp_all
    | ok t => rw [hb] at hres; dsimp only at hres; split at hres <;> cases hres
  | read i =>
    simp only [EOp.pageId, Option.some.injEq] at hop; subst hop
    simp only [EOp.result, EOp.stepT, hg] at hres
    cases hb : readBody s.f tx1 (pageOf s.f s.tx i) with
    | error e' =>
      obtain ⟨r1, r2, -⟩ := readBody_error _ _ _ _ hb
      exact hread rfl ⟨r2, r1⟩
    | ok t => obtain ⟨t1, c⟩ := t; rw [hb] at hres; dsimp only at hres; split at hres <;> cases hres
  | free i =>
    simp only [EOp.pageId, Option.some.injEq] at hop; subst hop
    simp only [EOp.result, EOp.stepT, hg] at hres
    cases hb : freeBody s.f i tx1 (pageOf s.f s.tx i) with
    | error e' =>
      have := (freeBody_error _ _ _ _ _ hb).1
      have hh := hfl (fun j hj => by cases hj)
      have hd := hfree rfl
      rcases this with h | h | h <;> simp_all
    | ok t => obtain ⟨t1, t2⟩ := t; rw [hb] at hres; dsimp only at hres; split at hres <;> cases hres
  | flushPage i =>
    simp only [EOp.pageId, Option.some.injEq] at hop; subst hop
    simp only [EOp.result, EOp.stepT, hg] at hres
    cases hb : flushBody s.f tx1 (pageOf s.f s.tx i) with
    | error e' =>
      have hh := hfl (fun j hj => by cases hj)
      rcases flushBody_error _ _ _ _ hb with ⟨h, -⟩ | ⟨-, -, d1, d2, d3, d4, -⟩
      · rcases h with h | h <;> simp_all
      · have htx : tx1 = s.tx := getPage_same_of_flag _ _ _ _ _ hg (by simp [d1])
        subst htx
        exact hflush rfl ⟨d1, d2, d3, d4⟩
    | ok t => obtain ⟨t1, t2, w⟩ := t; rw [hb] at hres; dsimp only at hres; split at hres <;> cases hres

/-- `Tx.CheckpointWAL` is never rejected in a running write transaction -/
theorem result_checkpoint (s : ERunSt) : EOp.checkpoint.result s = .ok := rfl


end TxVerif
