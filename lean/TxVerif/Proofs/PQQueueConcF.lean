/-
  The two-thread system with failing transactions (Model/PQQueueConcF.lean): the invariant of the existing
  relation (`LInv`, `KInv`; Proofs/PQQueueConcInv.lean) is kept by `pFail` and `cFail`.

  `LInv c p0 c0 s` speaks about the programs `p0`, `c0` the run started from.  A failed `Write`/`Flush`/`ACK`
  disappears from the base state's bookkeeping, so the base state is a state of the run of the EFFECTIVE
  programs `s.effP`, `s.effC` = what the base linearization has executed ++ what is left.  Every regular step
  keeps `effP`/`effC` (`LInv.progP`), so `step_inv` is re-used as it is.
-/
import TxVerif.Model.PQQueueConcF
import TxVerif.Proofs.PQQueueConcInv
import TxVerif.Proofs.PQQueueConcFail
namespace TxVerif

/-- the effective programs: the calls the base linearization has executed, then the calls still to be made -/
def CState.effP (s : CState) : List QOp := (linP s.lin).map (·.op) ++ s.progP
def CState.effC (s : CState) : List QOp := (linC s.lin).map (·.op) ++ s.progC

/-- the invariant of the existing proof, for the effective programs -/
def CFInv (c : QCfg) (s : CState) : Prop := LInv c s.effP s.effC s ∧ KInv c s

def CInvF (c : QCfg) (sF : CStateF) : Prop := sF.base.bad = true ∨ CFInv c sF.base

theorem LInv.toEff {c : QCfg} {p0 c0 : List QOp} {s : CState} (h : LInv c p0 c0 s) : LInv c s.effP s.effC s := by
  have h1 := h.progP
  have h2 := h.progC
  unfold CState.effP CState.effC
  rw [← h1, ← h2]
  exact h

theorem concF_init_inv (c : QCfg) (hP : 64 ≤ c.P) (p0 c0 : List QOp) : CInvF c (CStateF.init c p0 c0) := by
  have hL : LInv c p0 c0 (CState.init c p0 c0) :=
    ⟨queue_inv_init c hP, rfl, rfl, rfl, rfl, rfl, by simp [ASpec.ackOk, CState.init]⟩
  have hK : KInv c (CState.init c p0 c0) :=
    ⟨rfl, rfl, rfl, Or.inl rfl, fun p hp => (by simp [CState.init, CPc.plan?] at hp), fun h => absurd rfl h⟩
  exact Or.inr ⟨hL.toEff, hK⟩

theorem concF_reg_inv (c : QCfg) (hP : 64 ≤ c.P) (sF sF' : CStateF) (t : Bool) (h : CInvF c sF)
    (hs : sF.reg c t = some sF') : CInvF c sF' := by
  simp only [CStateF.reg] at hs
  cases hst : sF.base.step c t with
  | none => rw [hst] at hs; cases hs
  | some s' =>
    rw [hst] at hs
    simp only [Option.some.injEq] at hs
    rw [← hs]
    have h' : CInv c sF.base.effP sF.base.effC sF.base := by
      rcases h with h | ⟨hL, hK⟩
      · exact Or.inl h
      · exact Or.inr ⟨hL, hK⟩
    rcases step_inv c hP _ _ sF.base s' t h' hst with hb | ⟨hL, hK⟩
    · exact Or.inl hb
    · exact Or.inr ⟨hL.toEff, hK⟩

/-- the specification's `next` without flush -/
theorem pstep_next_false (a a' : ASpec) (o : QOut) (h : a.stepL false .next false = some (a', o)) :
    a' = { a with events := a.events ++ [a.cur], cur := [] } ∧ a.cur ≠ [] ∧ a.cur.length < 2 ^ 32 ∧
      o = .wrote none := by
  simp only [ASpec.stepL, Bool.false_eq_true, if_false, QOp.isProducer, if_true, ASpec.pstep, ASpec.step] at h
  split at h
  · cases h
  · rename_i hc
    simp only [Option.map_some, Option.some.injEq, Prod.mk.injEq] at h
    simp only [Bool.or_eq_true, List.isEmpty_iff, decide_eq_true_eq, not_or, Bool.false_eq_true, false_or] at hc
    refine ⟨h.1.symm, hc.1, by omega, h.2.symm⟩

theorem holdsRes_false_isPending {cp : CPc} (h : cp.holdsRes = false) : cp.isPending = false := by
  cases cp <;> simp [CPc.isPending, CPc.holdsRes] at h ⊢

/-- `KInv` after the rollback of the producer's transaction -/
theorem KInv_pFail (c : QCfg) (s s' : CState) (hK : KInv c s) (hI : QInv c s.q s.a) (hI' : QInv c s'.q s'.a)
    (hr : s'.q.r = s.q.r) (hhead : s'.q.headPos = s.q.headPos)
    (hack : s'.a.acked = s.a.acked) (hcons : s'.a.consumed = s.a.consumed) (hleft : s'.a.left = s.a.left)
    (hin : s'.a.inRead = s.a.inRead) (hfl : s.a.flushed ≤ s'.a.flushed)
    (hev : ∃ ext, s'.a.events = s.a.events ++ ext)
    (hcp : s'.cp = s.cp) (hpc : s'.progC = s.progC) (hpp : s'.pp = .idle)
    (hlock : s'.lock = if s.pp = .idle then s.lock else s.lock.rollback) : KInv c s' := by
  have hsh : s'.lock.shared = s.lock.shared := by rw [hlock]; split <;> rfl
  refine ⟨by rw [hsh, hr]; exact hK.shared, ?_, ?_, Or.inl hpp, ?_, fun h => absurd hpp h⟩
  · rw [hlock, hpp, hcp]
    by_cases hi : s.pp = .idle
    · rw [if_pos hi]; have := hK.reserved; rw [hi] at this; simpa using this
    · rw [if_neg hi]
      have : s.cp.holdsRes = false := by
        rcases hK.excl with h | h
        · exact absurd h hi
        · exact h
      simp [LockSt.rollback, this]
  · rw [hlock, hpp, hcp]
    by_cases hi : s.pp = .idle
    · rw [if_pos hi]; have := hK.pending; rw [hi] at this; simpa using this
    · rw [if_neg hi]
      have : s.cp.holdsRes = false := by
        rcases hK.excl with h | h
        · exact absurd h hi
        · exact h
      simp [LockSt.rollback, holdsRes_false_isPending this]
  · intro p hp
    rw [hcp] at hp
    obtain ⟨n, rest, h1, h2, h3, h4⟩ := hK.plan p hp
    refine ⟨n, rest, by rw [hpc]; exact h1, ?_, by rw [hin]; exact h3, by rw [hack, hcons, hleft]; exact h4⟩
    exact planOK_grow c s.q s'.q s.a s'.a n p hI hI' h2 hhead hack hfl hev

/-- **`pFail` keeps the invariant.** -/
theorem concF_pFail_inv (c : QCfg) (hP : 64 ≤ c.P) (sF sF' : CStateF) (o : FlushOutcome) (h : CInvF c sF)
    (hs : sF.pFail c o = some sF') : CInvF c sF' := by
  simp only [CStateF.pFail] at hs
  by_cases hb : sF.base.bad = true
  · simp [hb] at hs
  simp only [hb, Bool.false_eq_true, if_false] at hs
  rcases h with h | ⟨hL, hK⟩
  · exact absurd h hb
  cases hprog : sF.base.progP with
  | nil => rw [hprog] at hs; cases hs
  | cons op rest =>
    rw [hprog] at hs
    simp only at hs
    split at hs
    · cases hs
    split at hs
    · cases hs
    have hI := hL.qinv
    -- `Write`, `Flush`: no specification effect
    have plain : ∀ s' : CState,
        s' = { sF.base with q := { sF.base.q with w := failFlush o sF.base.q.w },
                            lock := (if sF.base.pp = .idle then sF.base.lock else sF.base.lock.rollback),
                            pp := .idle, progP := rest, bad := false } → CFInv c s' := by
      intro s' hs'
      have hI' : QInv c s'.q s'.a := by rw [hs']; exact sim_flush_failed c _ _ o hI
      refine ⟨⟨hI', by rw [hs']; exact hL.linr, rfl, rfl, by rw [hs']; exact hL.outP, by rw [hs']; exact hL.outC,
        by rw [hs']; exact hL.ackok⟩, ?_⟩
      exact KInv_pFail c sF.base s' hK hI hI' (by rw [hs']) (by rw [hs']) (by rw [hs']) (by rw [hs']) (by rw [hs'])
        (by rw [hs']) (by rw [hs']; exact Nat.le_refl _) ⟨[], by rw [hs']; simp⟩ (by rw [hs']) (by rw [hs'])
        (by rw [hs']) (by rw [hs'])
    cases op with
    | next =>
      simp only at hs
      cases hst : sF.base.a.stepL false .next false with
      | none =>
        rw [hst] at hs
        simp only [Option.some.injEq] at hs
        rw [← hs]; exact Or.inl rfl
      | some r =>
        obtain ⟨a', o'⟩ := r
        rw [hst] at hs
        simp only [Option.some.injEq] at hs
        rw [← hs]
        right
        obtain ⟨ha, hne, hsz, ho⟩ := pstep_next_false _ _ _ hst
        have hI' : QInv c { sF.base.q with w := failFlush o (sF.base.q.w.nextCore c.S) } a' := by
          rw [ha]; exact sim_next_failed c hP _ _ o hI hne hsz
        have hok : a'.ackOk := stepL_ackOk _ _ _ _ _ _ hI.fle hL.ackok hst
        have hrun : ASpec.runLin {} (sF.base.lin ++ [⟨false, .next, false, o'⟩]) = some a' := by
          rw [runLin_append, hL.linr]
          simp [hst]
        refine ⟨⟨hI', hrun, rfl, rfl, ?_, ?_, hok⟩, ?_⟩
        · simp only [linP_append, Bool.false_eq_true, if_false, List.map_append, List.map_cons, List.map_nil]
          rw [hL.outP]
        · simp only [linC_append, Bool.false_eq_true, if_false]; exact hL.outC
        · refine KInv_pFail c sF.base _ hK hI hI' rfl rfl ?_ ?_ ?_ ?_ ?_ ⟨[sF.base.a.cur], ?_⟩ rfl rfl rfl rfl <;>
            simp only [ha] <;> exact Nat.le_refl _
    | write p => simp only [Option.some.injEq] at hs; rw [← hs]; exact Or.inr (plain _ rfl)
    | flush => simp only [Option.some.injEq] at hs; rw [← hs]; exact Or.inr (plain _ rfl)
    | _ => simp only [Option.some.injEq] at hs; rw [← hs]; exact Or.inr (plain _ rfl)

/-- the base state after a failed ACK -/
theorem CFInv_cFail (c : QCfg) (s : CState) (lock' : LockSt) (rest : List QOp) (hL : LInv c s.effP s.effC s)
    (hK : KInv c s) (hsh : lock'.shared = s.lock.shared)
    (hres : lock'.reserved = decide (s.pp ≠ .idle)) (hpend : lock'.pending = decide (s.pp = .pending)) :
    CFInv c { s with lock := lock', cp := .idle, progC := rest } := by
  refine ⟨⟨hL.qinv, hL.linr, rfl, rfl, hL.outP, hL.outC, hL.ackok⟩, ?_, ?_, ?_, Or.inr rfl, ?_, hK.ppc⟩
  · show lock'.shared = _; rw [hsh]; exact hK.shared
  · show lock'.reserved = _; rw [hres]; simp [CPc.holdsRes]
  · show lock'.pending = _; rw [hpend]; simp [CPc.isPending]
  · intro p hp; cases hp

/-- **`cFail` keeps the invariant.** -/
theorem concF_cFail_inv (c : QCfg) (sF sF' : CStateF) (h : CInvF c sF) (hs : sF.cFail = some sF') :
    CInvF c sF' := by
  simp only [CStateF.cFail] at hs
  by_cases hb : sF.base.bad = true
  · simp [hb] at hs
  simp only [hb, Bool.false_eq_true, if_false] at hs
  rcases h with h | ⟨hL, hK⟩
  · exact absurd h hb
  cases hprog : sF.base.progC with
  | nil => rw [hprog] at hs; cases hs
  | cons op rest =>
    rw [hprog] at hs
    simp only at hs
    have hbf : sF.base.bad = false := by simpa using hb
    have hppi : sF.base.cp.holdsRes = true → sF.base.pp = .idle := by
      intro hh
      rcases hK.excl with h | h
      · exact h
      · rw [hh] at h; cases h
    cases hcp : sF.base.cp with
    | idle => rw [hcp] at hs; cases hs
    | planned p =>
      rw [hcp] at hs
      simp only at hs
      split at hs
      · cases hs
      simp only [Option.some.injEq] at hs
      rw [← hs]
      right
      have := CFInv_cFail c sF.base sF.base.lock rest hL hK rfl
        (by have := hK.reserved; rw [hcp] at this; simpa [CPc.holdsRes] using this)
        (by have := hK.pending; rw [hcp] at this; simpa [CPc.isPending] using this)
      rw [hbf] at this
      exact this
    | active p =>
      rw [hcp] at hs
      simp only [Option.some.injEq] at hs
      rw [← hs]
      right
      have hi := hppi (by rw [hcp]; rfl)
      have := CFInv_cFail c sF.base sF.base.lock.rollback rest hL hK rfl (by simp [LockSt.rollback, hi])
        (by simp [LockSt.rollback, hi])
      rw [hbf] at this
      exact this
    | pending p =>
      rw [hcp] at hs
      simp only [Option.some.injEq] at hs
      rw [← hs]
      right
      have hi := hppi (by rw [hcp]; rfl)
      have := CFInv_cFail c sF.base sF.base.lock.rollback rest hL hK rfl (by simp [LockSt.rollback, hi])
        (by simp [LockSt.rollback, hi])
      rw [hbf] at this
      exact this

/-- **every step of the extended relation keeps the invariant** -/
theorem concF_step_inv (c : QCfg) (hP : 64 ≤ c.P) (sF sF' : CStateF) (st : CStepF) (h : CInvF c sF)
    (hs : sF.step c st = some sF') : CInvF c sF' := by
  cases st with
  | reg t => exact concF_reg_inv c hP sF sF' t h hs
  | pFail o => exact concF_pFail_inv c hP sF sF' o h hs
  | cFail => exact concF_cFail_inv c sF sF' h hs

theorem concF_run_inv (c : QCfg) (hP : 64 ≤ c.P) : ∀ (sched : List CStepF) (sF : CStateF),
    CInvF c sF → CInvF c (CStateF.run c sF sched) := by
  intro sched
  induction sched with
  | nil => intro s h; exact h
  | cons t ts ih =>
    intro s h
    simp only [CStateF.run]
    cases hs : s.step c t with
    | none => exact ih s h
    | some s' => exact ih s' (concF_step_inv c hP s s' t h hs)

/-- what `pFail` does to the base state -/
theorem pFail_shape (c : QCfg) (sF sF' : CStateF) (o : FlushOutcome) (hs : sF.pFail c o = some sF') :
    sF'.base.bad = true ∨
    (∃ w', sF'.base.q = { sF.base.q with w := w' } ∧ w'.persisted = sF.base.q.w.persisted ∧
      w'.tailOff = sF.base.q.w.tailOff) ∧
    sF'.base.pp = .idle ∧ sF'.base.cp = sF.base.cp ∧ sF'.base.progC = sF.base.progC ∧
    sF'.base.outC = sF.base.outC ∧ sF'.base.progP = sF.base.progP.tail ∧
    sF'.base.lock = (if sF.base.pp = .idle then sF.base.lock else sF.base.lock.rollback) ∧
    (sF'.base.a = sF.base.a ∨ sF'.base.a = { sF.base.a with events := sF.base.a.events ++ [sF.base.a.cur], cur := [] }) ∧
    sF'.outPF = sF.outPF ++ [.txFailed] ∧ sF'.outCF = sF.outCF := by
  simp only [CStateF.pFail] at hs
  split at hs
  · cases hs
  cases hprog : sF.base.progP with
  | nil => rw [hprog] at hs; cases hs
  | cons op rest =>
    rw [hprog] at hs
    simp only at hs
    split at hs
    · cases hs
    split at hs
    · cases hs
    have e1 := (failFlush_same o sF.base.q.w)
    have e2 := (failFlush_same o (sF.base.q.w.nextCore c.S))
    cases op with
    | next =>
      simp only at hs
      cases hst : sF.base.a.stepL false .next false with
      | none =>
        rw [hst] at hs
        simp only [Option.some.injEq] at hs
        rw [← hs]; exact Or.inl rfl
      | some r =>
        obtain ⟨a', o'⟩ := r
        rw [hst] at hs
        simp only [Option.some.injEq] at hs
        rw [← hs]
        right
        obtain ⟨ha, _, _, _⟩ := pstep_next_false _ _ _ hst
        exact ⟨⟨_, rfl, e2.persisted, e2.tailOff⟩, rfl, rfl, rfl, rfl, rfl, rfl, Or.inr ha, rfl, rfl⟩
    | write p =>
      simp only [Option.some.injEq] at hs; rw [← hs]
      exact Or.inr ⟨⟨_, rfl, e1.persisted, e1.tailOff⟩, rfl, rfl, rfl, rfl, rfl, rfl, Or.inl rfl, rfl, rfl⟩
    | flush =>
      simp only [Option.some.injEq] at hs; rw [← hs]
      exact Or.inr ⟨⟨_, rfl, e1.persisted, e1.tailOff⟩, rfl, rfl, rfl, rfl, rfl, rfl, Or.inl rfl, rfl, rfl⟩
    | _ =>
      simp only [Option.some.injEq] at hs; rw [← hs]
      exact Or.inr ⟨⟨_, rfl, e1.persisted, e1.tailOff⟩, rfl, rfl, rfl, rfl, rfl, rfl, Or.inl rfl, rfl, rfl⟩

/-- what `cFail` does to the base state -/
theorem cFail_shape (sF sF' : CStateF) (hs : sF.cFail = some sF') :
    sF'.base.q = sF.base.q ∧ sF'.base.a = sF.base.a ∧ sF'.base.cp = .idle ∧ sF'.base.pp = sF.base.pp ∧
    sF'.base.progP = sF.base.progP ∧ sF'.base.progC = sF.base.progC.tail ∧ sF'.base.outP = sF.base.outP ∧
    sF'.base.outC = sF.base.outC ∧ sF'.base.lin = sF.base.lin ∧ sF'.base.bad = false ∧
    sF.base.cp ≠ .idle ∧ sF'.outCF = sF.outCF ++ [.txFailed] ∧ sF'.outPF = sF.outPF := by
  simp only [CStateF.cFail] at hs
  split at hs
  · cases hs
  rename_i hb
  have hbf : sF.base.bad = false := by simpa using hb
  cases hprog : sF.base.progC with
  | nil => rw [hprog] at hs; cases hs
  | cons op rest =>
    rw [hprog] at hs
    simp only at hs
    cases hcp : sF.base.cp with
    | idle => rw [hcp] at hs; cases hs
    | planned p =>
      rw [hcp] at hs
      simp only at hs
      split at hs
      · cases hs
      simp only [Option.some.injEq] at hs
      rw [← hs]
      exact ⟨rfl, rfl, rfl, rfl, rfl, rfl, rfl, rfl, rfl, hbf, by simp, rfl, rfl⟩
    | active p =>
      rw [hcp] at hs
      simp only [Option.some.injEq] at hs
      rw [← hs]
      exact ⟨rfl, rfl, rfl, rfl, rfl, rfl, rfl, rfl, rfl, hbf, by simp, rfl, rfl⟩
    | pending p =>
      rw [hcp] at hs
      simp only [Option.some.injEq] at hs
      rw [← hs]
      exact ⟨rfl, rfl, rfl, rfl, rfl, rfl, rfl, rfl, rfl, hbf, by simp, rfl, rfl⟩

/-! ## goal 4: the full linearization `linF` -/

theorem linearize_lin (c : QCfg) (s : CState) (tid : Bool) (op : QOp) (q' : PQState) (o : QOut) :
    (s.linearize c tid op q' o).bad = true ∨ ∃ e, (s.linearize c tid op q' o).lin = s.lin ++ [e] := by
  simp only [CState.linearize]
  cases s.a.stepL tid op (s.q.autoFlush c op) with
  | none => left; rfl
  | some r => right; cases tid <;> simp only [if_true, Bool.false_eq_true, if_false] <;> exact ⟨_, rfl⟩

theorem stepP_lin (c : QCfg) (s s' : CState) (h : s.stepP c = some s') :
    s'.bad = true ∨ s'.lin = s.lin ∨ ∃ e, s'.lin = s.lin ++ [e] := by
  simp only [CState.stepP] at h
  cases hprog : s.progP with
  | nil => rw [hprog] at h; cases h
  | cons op rest =>
    rw [hprog] at h
    simp only at h
    split at h
    · simp only [Option.some.injEq] at h; rw [← h]; exact Or.inl rfl
    cases hpp : s.pp with
    | idle =>
      rw [hpp] at h
      simp only at h
      split at h
      · split at h
        · cases h
        · simp only [Option.some.injEq] at h; rw [← h]; exact Or.inr (Or.inl rfl)
      · simp only [Option.some.injEq] at h; rw [← h]
        rcases linearize_lin c s false op (s.q.step c op).1 (s.q.step c op).2 with hb | he
        · exact Or.inl hb
        · exact Or.inr (Or.inr he)
    | active => rw [hpp] at h; simp only [Option.some.injEq] at h; rw [← h]; exact Or.inr (Or.inl rfl)
    | pending =>
      rw [hpp] at h
      simp only at h
      split at h
      · cases h
      · simp only [Option.some.injEq] at h; rw [← h]
        rcases linearize_lin c _ false op (s.q.step c op).1 (s.q.step c op).2 with hb | he
        · exact Or.inl hb
        · exact Or.inr (Or.inr he)

theorem stepC_lin (c : QCfg) (s s' : CState) (h : s.stepC c = some s') :
    s'.bad = true ∨ s'.lin = s.lin ∨ ∃ e, s'.lin = s.lin ++ [e] := by
  simp only [CState.stepC] at h
  cases hprog : s.progC with
  | nil => rw [hprog] at h; cases h
  | cons op rest =>
    rw [hprog] at h
    simp only at h
    split at h
    · simp only [Option.some.injEq] at h; rw [← h]; exact Or.inl rfl
    have lin_case : ∀ (s1 : CState) (q' : PQState) (o : QOut), s1.lin = s.lin →
        (s1.linearize c true op q' o).bad = true ∨ (s1.linearize c true op q' o).lin = s.lin ∨
          ∃ e, (s1.linearize c true op q' o).lin = s.lin ++ [e] := by
      intro s1 q' o h1
      rcases linearize_lin c s1 true op q' o with hb | he
      · exact Or.inl hb
      · rw [h1] at he; exact Or.inr (Or.inr he)
    cases hcp : s.cp with
    | idle =>
      rw [hcp] at h
      cases op <;> simp only at h <;> (repeat' split at h) <;>
        simp only [Option.some.injEq, reduceCtorEq] at h <;>
        first
        | (rw [← h]; exact Or.inl rfl)
        | (rw [← h]; exact lin_case _ _ _ rfl)
        | (rw [← h]; exact Or.inr (Or.inl rfl))
    | planned p =>
      rw [hcp] at h
      simp only at h
      split at h
      · cases h
      · simp only [Option.some.injEq] at h; rw [← h]; exact Or.inr (Or.inl rfl)
    | active p =>
      rw [hcp] at h
      simp only [Option.some.injEq] at h; rw [← h]; exact Or.inr (Or.inl rfl)
    | pending p =>
      rw [hcp] at h
      simp only at h
      split at h
      · cases h
      · split at h
        · simp only [Option.some.injEq] at h; rw [← h]; exact lin_case _ _ _ rfl
        · simp only [Option.some.injEq] at h; rw [← h]; exact Or.inl rfl

/-- **the shape lemma**: what a regular step appends to the base linearization and to the base outputs -/
theorem reg_track (c : QCfg) (p0 c0 : List QOp) (s s' : CState) (t : Bool) (hL : LInv c p0 c0 s)
    (hL' : LInv c p0 c0 s') (hb' : s'.bad = false) (hs : s.step c t = some s') :
    (s'.lin.drop s.lin.length = [] ∧ s'.a = s.a ∧ s'.outP.drop s.outP.length = [] ∧
      s'.outC.drop s.outC.length = []) ∨
    (∃ e, s'.lin.drop s.lin.length = [e] ∧ s.a.stepL e.tid e.op e.fl = some (s'.a, e.out) ∧
      s'.outP.drop s.outP.length = (if e.tid then [] else [e.out]) ∧
      s'.outC.drop s.outC.length = (if e.tid then [e.out] else [])) := by
  have hshape : s'.bad = true ∨ s'.lin = s.lin ∨ ∃ e, s'.lin = s.lin ++ [e] := by
    simp only [CState.step] at hs
    split at hs
    · cases hs
    · cases t with
      | true => exact stepC_lin c s s' hs
      | false => exact stepP_lin c s s' hs
  rcases hshape with hb | hl | ⟨e, hl⟩
  · rw [hb'] at hb; cases hb
  · left
    have ha : s'.a = s.a := by
      have h1 := hL'.linr; rw [hl, hL.linr] at h1
      exact (Option.some.inj h1).symm
    have hp : s'.outP = s.outP := by rw [hL'.outP, hL.outP, hl]
    have hc : s'.outC = s.outC := by rw [hL'.outC, hL.outC, hl]
    exact ⟨by rw [hl]; simp, ha, by rw [hp]; simp, by rw [hc]; simp⟩
  · right
    refine ⟨e, by rw [hl]; simp, ?_, ?_, ?_⟩
    · have h1 := hL'.linr
      rw [hl, runLin_append, hL.linr] at h1
      simp only [Option.bind_some] at h1
      cases hst : s.a.stepL e.tid e.op e.fl with
      | none => rw [hst] at h1; cases h1
      | some r =>
        obtain ⟨a2, o⟩ := r
        rw [hst] at h1
        simp only at h1
        split at h1
        · rename_i ho
          simp only [Option.some.injEq] at h1
          rw [ho, h1]
        · cases h1
    · rw [hL'.outP, hl, linP_append, hL.outP]
      cases e.tid <;> simp
    · rw [hL'.outC, hl, linC_append, hL.outC]
      cases e.tid <;> simp

def linPF (l : List LinEvF) : List LinEvF := l.filter fun e => !e.tid
def linCF (l : List LinEvF) : List LinEvF := l.filter fun e => e.tid

theorem linPF_append (l : List LinEvF) (e : LinEvF) : linPF (l ++ [e]) = if e.tid then linPF l else linPF l ++ [e] := by
  simp only [linPF, List.filter_append, List.filter_cons, List.filter_nil]
  cases e.tid <;> simp

theorem linCF_append (l : List LinEvF) (e : LinEvF) : linCF (l ++ [e]) = if e.tid then linCF l ++ [e] else linCF l := by
  simp only [linCF, List.filter_append, List.filter_cons, List.filter_nil]
  cases e.tid <;> simp

/-- one more linearized call -/
def ASpec.stepLF (a : ASpec) (e : LinEvF) : Option ASpec :=
  match e.out with
  | .txFailed => a.failL e.tid e.op
  | .ret o' =>
    match a.stepL e.tid e.op e.fl with
    | none => none
    | some (a1, o) => if o = o' then some a1 else none

theorem runLinF_append (l : List LinEvF) (e : LinEvF) : ∀ a : ASpec,
    ASpec.runLinF a (l ++ [e]) = (ASpec.runLinF a l).bind fun a1 => a1.stepLF e := by
  induction l with
  | nil =>
    intro a
    simp only [List.nil_append, ASpec.runLinF, Option.bind_some, ASpec.stepLF]
    cases e.out with
    | txFailed => simp only; cases a.failL e.tid e.op <;> rfl
    | ret o' =>
      simp only
      cases a.stepL e.tid e.op e.fl with
      | none => rfl
      | some r => simp only
  | cons x xs ih =>
    intro a
    simp only [List.cons_append, ASpec.runLinF]
    cases x.out with
    | txFailed =>
      simp only
      cases a.failL x.tid x.op with
      | none => rfl
      | some a1 => exact ih a1
    | ret o' =>
      simp only
      cases a.stepL x.tid x.op x.fl with
      | none => rfl
      | some r =>
        simp only
        split
        · exact ih r.1
        · rfl

/-- the full linearization: accepted by the specification with failed calls, and the threads have seen exactly
    the results recorded in it -/
structure GInv (sF : CStateF) : Prop where
  linr : ASpec.runLinF {} sF.linF = some sF.base.a
  outP : sF.outPF = (linPF sF.linF).map (·.out)
  outC : sF.outCF = (linCF sF.linF).map (·.out)

/-- appending one linearized call -/
theorem GInv_append (sF sF' : CStateF) (e : LinEvF) (hG : GInv sF) (hl : sF'.linF = sF.linF ++ [e])
    (ha : sF.base.a.stepLF e = some sF'.base.a)
    (hp : sF'.outPF = sF.outPF ++ (if e.tid then [] else [e.out]))
    (hc : sF'.outCF = sF.outCF ++ (if e.tid then [e.out] else [])) : GInv sF' := by
  refine ⟨?_, ?_, ?_⟩
  · rw [hl, runLinF_append, hG.linr]; exact ha
  · rw [hp, hl, linPF_append, hG.outP]; cases e.tid <;> simp
  · rw [hc, hl, linCF_append, hG.outC]; cases e.tid <;> simp

theorem pFail_track (c : QCfg) (sF sF' : CStateF) (o : FlushOutcome) (hs : sF.pFail c o = some sF') :
    sF'.base.bad = true ∨ ∃ op, sF'.linF = sF.linF ++ [⟨false, op, false, .txFailed⟩] ∧
      sF.base.a.failL false op = some sF'.base.a := by
  simp only [CStateF.pFail] at hs
  split at hs
  · cases hs
  cases hprog : sF.base.progP with
  | nil => rw [hprog] at hs; cases hs
  | cons op rest =>
    rw [hprog] at hs
    simp only at hs
    split at hs
    · cases hs
    rename_i hop
    split at hs
    · cases hs
    cases op with
    | next =>
      simp only at hs
      cases hst : sF.base.a.stepL false .next false with
      | none =>
        rw [hst] at hs
        simp only [Option.some.injEq] at hs
        rw [← hs]; exact Or.inl rfl
      | some r =>
        obtain ⟨a', o'⟩ := r
        rw [hst] at hs
        simp only [Option.some.injEq] at hs
        rw [← hs]
        exact Or.inr ⟨.next, rfl, by simp [ASpec.failL, hst]⟩
    | write p => simp only [Option.some.injEq] at hs; rw [← hs]; exact Or.inr ⟨_, rfl, rfl⟩
    | flush => simp only [Option.some.injEq] at hs; rw [← hs]; exact Or.inr ⟨_, rfl, rfl⟩
    | _ => simp [QOp.isProducer] at hop

theorem cFail_track (sF sF' : CStateF) (hs : sF.cFail = some sF') :
    ∃ op rest, sF.base.progC = op :: rest ∧ sF'.linF = sF.linF ++ [⟨true, op, false, .txFailed⟩] := by
  simp only [CStateF.cFail] at hs
  split at hs
  · cases hs
  cases hprog : sF.base.progC with
  | nil => rw [hprog] at hs; cases hs
  | cons op rest =>
    rw [hprog] at hs
    simp only at hs
    cases hcp : sF.base.cp with
    | idle => rw [hcp] at hs; cases hs
    | planned p =>
      rw [hcp] at hs
      simp only at hs
      split at hs
      · cases hs
      simp only [Option.some.injEq] at hs
      rw [← hs]
      exact ⟨op, rest, rfl, rfl⟩
    | active p =>
      rw [hcp] at hs
      simp only [Option.some.injEq] at hs
      rw [← hs]
      exact ⟨op, rest, rfl, rfl⟩
    | pending p =>
      rw [hcp] at hs
      simp only [Option.some.injEq] at hs
      rw [← hs]
      exact ⟨op, rest, rfl, rfl⟩

/-- invariant of the extended relation with the full linearization -/
def CGInv (c : QCfg) (sF : CStateF) : Prop := sF.base.bad = true ∨ (CFInv c sF.base ∧ GInv sF)

theorem concF_step_ginv (c : QCfg) (hP : 64 ≤ c.P) (sF sF' : CStateF) (st : CStepF) (h : CGInv c sF)
    (hs : sF.step c st = some sF') : CGInv c sF' := by
  have hF : CInvF c sF := by
    rcases h with h | h
    · exact Or.inl h
    · exact Or.inr h.1
  rcases concF_step_inv c hP sF sF' st hF hs with hb' | hF'
  · exact Or.inl hb'
  by_cases hb' : sF'.base.bad = true
  · exact Or.inl hb'
  have hbf' : sF'.base.bad = false := by simpa using hb'
  right
  refine ⟨hF', ?_⟩
  rcases h with hbad | ⟨⟨hL, hK⟩, hG⟩
  · exfalso
    cases st <;> simp [CStateF.step, CStateF.reg, CState.step, CStateF.pFail, CStateF.cFail, hbad] at hs
  cases st with
  | reg t =>
    simp only [CStateF.step, CStateF.reg] at hs
    cases hst : sF.base.step c t with
    | none => rw [hst] at hs; cases hs
    | some s' =>
      rw [hst] at hs
      simp only [Option.some.injEq] at hs
      have hbase : sF'.base = s' := by rw [← hs]
      have hL' : LInv c sF.base.effP sF.base.effC s' := by
        rcases step_inv c hP _ _ sF.base s' t (Or.inr ⟨hL, hK⟩) hst with hb | ⟨h1, _⟩
        · rw [← hbase, hbf'] at hb; cases hb
        · exact h1
      rcases reg_track c _ _ sF.base s' t hL hL' (by rw [← hbase]; exact hbf') hst with
        ⟨e1, e2, e3, e4⟩ | ⟨e, e1, e2, e3, e4⟩
      · rw [← hs]
        refine ⟨?_, ?_, ?_⟩
        · show ASpec.runLinF {} (sF.linF ++ _) = some s'.a
          rw [e1, e2]; simpa using hG.linr
        · show sF.outPF ++ _ = (linPF (sF.linF ++ _)).map _
          rw [e1, e3]; simpa using hG.outP
        · show sF.outCF ++ _ = (linCF (sF.linF ++ _)).map _
          rw [e1, e4]; simpa using hG.outC
      · refine GInv_append sF sF' e.toF hG (by rw [← hs, e1]; rfl) ?_ ?_ ?_
        · rw [hbase]
          simp only [ASpec.stepLF, LinEv.toF, e2, if_true]
        · rw [← hs, e3]; cases ht : e.tid <;> simp [LinEv.toF, ht]
        · rw [← hs, e4]; cases ht : e.tid <;> simp [LinEv.toF, ht]
  | pFail o =>
    simp only [CStateF.step] at hs
    rcases pFail_track c sF sF' o hs with hb | ⟨op, e1, e2⟩
    · rw [hbf'] at hb; cases hb
    rcases pFail_shape c sF sF' o hs with hb | ⟨_, _, _, _, _, _, _, _, e3, e4⟩
    · rw [hbf'] at hb; cases hb
    exact GInv_append sF sF' _ hG e1 (by simpa [ASpec.stepLF] using e2) (by simpa using e3) (by simpa using e4)
  | cFail =>
    simp only [CStateF.step] at hs
    obtain ⟨op, rest, e1, e2⟩ := cFail_track sF sF' hs
    obtain ⟨_, ea, _, _, _, _, _, _, _, _, hcp, e3, e4⟩ := cFail_shape sF sF' hs
    obtain ⟨p, hpl⟩ : ∃ p, sF.base.cp.plan? = some p := by
      cases hq : sF.base.cp with
      | idle => exact absurd hq hcp
      | planned p => exact ⟨p, rfl⟩
      | active p => exact ⟨p, rfl⟩
      | pending p => exact ⟨p, rfl⟩
    obtain ⟨n, rest', h1, h2, _⟩ := hK.plan p hpl
    rw [e1] at h1
    simp only [List.cons.injEq] at h1
    have hop : op = .ack n := h1.1
    have hn := h2.hn
    refine GInv_append sF sF' _ hG e2 ?_ (by simpa using e4) (by simpa using e3)
    rw [ea, hop]
    simp [ASpec.stepLF, ASpec.failL, hn]

theorem concF_run_ginv (c : QCfg) (hP : 64 ≤ c.P) : ∀ (sched : List CStepF) (sF : CStateF),
    CGInv c sF → CGInv c (CStateF.run c sF sched) := by
  intro sched
  induction sched with
  | nil => intro s h; exact h
  | cons t ts ih =>
    intro s h
    simp only [CStateF.run]
    cases hs : s.step c t with
    | none => exact ih s h
    | some s' => exact ih s' (concF_step_ginv c hP s s' t h hs)

theorem concF_init_ginv (c : QCfg) (hP : 64 ≤ c.P) (p0 c0 : List QOp) : CGInv c (CStateF.init c p0 c0) := by
  rcases concF_init_inv c hP p0 c0 with h | h
  · exact Or.inl h
  · exact Or.inr ⟨h, rfl, rfl, rfl⟩

end TxVerif
